(* C17/ProofsPolicy.v — POMDP::Policy: round trip of the repaired writer, and the refutation of
   the round trip for any writer whose number formatter is not injective (6 significant digits). *)
From Coq Require Import List Arith NArith QArith Bool Lia.
From AIT Require Import C17.Model C17.Spec C17.Proofs C17.ProofsTrunc C17.ProofsFuel.
Import ListNotations.
Local Open Scope nat_scope.

Section PolicyRoundTrip.
  Variable token : Type.
  Variable show : Q -> token.
  Variable read : token -> option (Q * option token).
  Variable showN : N -> token.
  Variable readN : token -> option (N * option token).
  Variable at_tok : token.
  Variable split_at : token -> option (option token).
  Variable tsize : token -> nat.
  Variable dbl : Q -> Prop.
  Variable u64 : N -> Prop.
  Hypothesis H_size_pos : forall t, 1 <= tsize t.     (* a token has at least one character *)
  Hypothesis H_digits17 : forall d, dbl d -> read (show d) = Some (d, None).
  Hypothesis H_showN : forall n, u64 n -> readN (showN n) = Some (n, None).
  (* '@' is recognised, and no number starts with '@' *)
  Hypothesis H_at : split_at at_tok = Some None.
  Hypothesis H_num_not_at : forall d, dbl d -> split_at (show d) = None.
  Hypothesis H_N_not_at : forall n, u64 n -> split_at (showN n) = None.

  Variables S A O : nat.

  Notation went := (write_ventry token showN show).
  Notation wvl := (fun vl : vlist => flat_map went vl ++ [at_tok]).
  Notation loop := (pp_loop token read readN split_at).
  Notation chk := (check_at token split_at).

  Lemma get_obs_show : forall oldH o rest, (o < N.of_nat oldH)%N -> u64 o ->
    get_obs token readN oldH (showN o :: rest) = ROk o rest.
  Proof.
    intros oldH o rest Hlt Hu. unfold get_obs.
    rewrite (get_N_show token showN readN u64 H_showN) by assumption. cbn [bind].
    replace (N.of_nat oldH <=? o)%N with false by (symmetry; apply N.leb_gt; assumption).
    reflexivity.
  Qed.

  Lemma parse_ventry_roundtrip : forall oldH e rest, wf_ventry dbl u64 S A O oldH e ->
    parse_ventry token read readN S A O oldH (went e ++ rest) = ROk e rest.
  Proof.
    intros oldH e rest (HlS & Hd & Hact & Hau & HlO & Hobs).
    unfold parse_ventry, write_ventry. rewrite <- app_assoc. rewrite <- HlS.
    rewrite (rep_map_roundtrip token Q dbl show) by
      (auto; intros; apply (get_num_show token show read dbl H_digits17); assumption).
    cbn [bind app]. rewrite (get_N_show token showN readN u64 H_showN) by assumption. cbn [bind].
    replace (N.of_nat A <=? vAction e)%N with false by (symmetry; apply N.leb_gt; assumption).
    rewrite <- HlO.
    rewrite (rep_map_roundtrip token N (fun o => (o < N.of_nat oldH)%N /\ u64 o) showN) by
      (auto; intros a r [? ?]; apply get_obs_show; assumption).
    cbn [bind]. destruct e; reflexivity.
  Qed.

  (* the first token of an entry is a number, hence not '@' *)
  Lemma chk_entry : forall oldH e rest, wf_ventry dbl u64 S A O oldH e ->
    chk (went e ++ rest) = (false, went e ++ rest).
  Proof.
    intros oldH e rest (HlS & Hd & Hact & Hau & HlO & Hobs). unfold write_ventry, check_at.
    destruct (vValues e) as [|d vs] eqn:E; cbn [map app].
    - rewrite H_N_not_at by assumption. reflexivity.
    - inversion Hd; subst. rewrite H_num_not_at by assumption. reflexivity.
  Qed.

  Lemma chk_at : forall rest, chk (at_tok :: rest) = (true, rest).
  Proof. intros. unfold check_at. rewrite H_at. reflexivity. Qed.

  (* the entries of one horizon, read with newHorizon = false *)
  Lemma pp_entries : forall vl e fuel prev cur oldH more,
    Forall (wf_ventry dbl u64 S A O oldH) (e :: vl) -> length vl < fuel ->
    loop fuel S A O (flat_map went (e :: vl) ++ at_tok :: more) prev cur oldH false
    = loop (fuel - length (e :: vl)) S A O more prev (cur ++ e :: vl) oldH true.
  Proof.
    induction vl as [|e' vl IH]; intros e fuel prev cur oldH more HF Hfuel.
    - destruct fuel as [|f]; [inversion Hfuel|].
      inversion HF; subst. cbn [flat_map pp_loop length]. rewrite app_nil_r.
      rewrite parse_ventry_roundtrip by assumption. cbn [bind]. rewrite chk_at.
      replace (Datatypes.S f - 1) with f by lia. reflexivity.
    - destruct fuel as [|f]; [inversion Hfuel|].
      inversion HF as [|? ? He HF']; subst.
      cbn [flat_map pp_loop]. rewrite <- app_assoc.
      rewrite parse_ventry_roundtrip by assumption. cbn [bind].
      change (went e' ++ flat_map went vl) with (flat_map went (e' :: vl)).
      assert (Hc : chk (flat_map went (e' :: vl) ++ at_tok :: more) = (false, flat_map went (e' :: vl) ++ at_tok :: more)).
      { cbn [flat_map]. rewrite <- app_assoc. inversion HF'; subst. eapply chk_entry; eassumption. }
      rewrite Hc. rewrite IH by (auto; cbn [length] in Hfuel; lia).
      cbn [length]. rewrite <- app_assoc. reflexivity.
  Qed.

  Fixpoint total (l : list vlist) : nat :=
    match l with [] => 0 | vl :: l' => Datatypes.S (length vl + total l') end.

  (* a new horizon that does not start with '@' behaves as the first entry of a fresh list *)
  Lemma pp_new_horizon : forall f is prev cur oldH, chk is = (false, is) ->
    loop (Datatypes.S f) S A O is prev cur oldH true
    = loop (Datatypes.S f) S A O is (prev ++ [cur]) [] (length cur) false.
  Proof. intros f is prev cur oldH Hc. cbn [pp_loop]. rewrite Hc. reflexivity. Qed.

  Lemma pp_horizons : forall rest fuel prev cur oldH tail,
    wf_vlists dbl u64 S A O (length cur) rest -> total rest < fuel ->
    loop fuel S A O (flat_map wvl rest ++ at_tok :: tail) prev cur oldH true
    = ROk (prev ++ cur :: rest) tail.
  Proof.
    induction rest as [|vl rest IH]; intros fuel prev cur oldH tail Hwf Hfuel.
    - destruct fuel as [|f]; [inversion Hfuel|].
      cbn [flat_map app pp_loop]. rewrite chk_at. reflexivity.
    - destruct fuel as [|f]; [inversion Hfuel|].
      cbn [wf_vlists] in Hwf. destruct Hwf as (Hne & HF & Hrest).
      destruct vl as [|e vl]; [congruence|].
      cbn [flat_map]. rewrite <- (app_assoc _ (flat_map wvl rest)). rewrite <- (app_assoc _ [at_tok]). cbn [app].
      change (went e ++ flat_map went vl) with (flat_map went (e :: vl)).
      rewrite pp_new_horizon.
      2:{ cbn [flat_map]. rewrite <- app_assoc. inversion HF; subst. eapply chk_entry; eassumption. }
      cbn [total length] in Hfuel.
      rewrite pp_entries by (auto; lia). cbn [app].
      rewrite IH by (auto; cbn [length]; lia).
      rewrite <- app_assoc. reflexivity.
  Qed.

  Lemma went_length : forall e, 1 <= length (went e).
  Proof. intros e. unfold write_ventry. rewrite app_length. cbn [length]. lia. Qed.

  Lemma total_le_length : forall rest, total rest <= length (flat_map wvl rest).
  Proof.
    induction rest as [|vl rest IH]; [cbn; lia|].
    cbn [total flat_map]. rewrite !app_length. cbn [length].
    assert (length vl <= length (flat_map went vl)).
    { clear. induction vl as [|e vl IH]; [cbn; lia|]. cbn [flat_map length]. rewrite app_length.
      pose proof (went_length e). lia. }
    lia.
  Qed.

  Lemma length_le_size : forall is : list token, length is <= stream_size token tsize is.
  Proof. induction is as [|t is IH]; cbn [length stream_size]; [lia|]. pose proof (H_size_pos t). lia. Qed.

  Lemma roundtrip_pomdp_policy_lemma : forall x dest, wf_pomdp_policy dbl u64 x ->
    ppS x = S -> ppA x = A -> ppO x = O -> ppS dest = S -> ppA dest = A -> ppO dest = O ->
    read_pomdp_policy token read readN split_at tsize (write_pomdp_policy token show showN at_tok x) dest
    = (x, ROk x []).
  Proof.
    intros x dest (rest & Hvf & Hwf & HH) HS HA HO HdS HdA HdO.
    unfold read_pomdp_policy, parse_pomdp_policy, write_pomdp_policy, write_pomdp_policy_with.
    rewrite HdS, HdA, HdO. rewrite Hvf. cbn [tl].
    rewrite HS, HA, HO in Hwf.
    rewrite pp_horizons.
    - cbn [bind app commit]. rewrite <- HS, <- HA, <- HO.
      destruct x as [xS xA xO xH xVF]; cbn in *. subst. cbn [length]. rewrite Nat.sub_0_r. reflexivity.
    - cbn [length]. exact Hwf.
    - pose proof (total_le_length rest) as Hle.
      pose proof (length_le_size (flat_map wvl rest ++ [at_tok])) as Hsz.
      rewrite app_length in Hsz. cbn [length] in Hsz. unfold vlist in *. lia.
  Qed.

  (* ---------------- every truncation point ---------------- *)
  Hypothesis H_read_left : forall t q t', read t = Some (q, Some t') -> tsize t' < tsize t.
  Hypothesis H_readN_left : forall t n t', readN t = Some (n, Some t') -> tsize t' < tsize t.
  Hypothesis H_at_left : forall t t', split_at t = Some (Some t') -> tsize t' < tsize t.

  Lemma exact_ventry : forall oldH e, wf_ventry dbl u64 S A O oldH e ->
    exact token (parse_ventry token read readN S A O oldH) (went e) e.
  Proof.
    intros oldH e (HlS & Hd & Hact & Hau & HlO & Hobs).
    unfold parse_ventry, write_ventry.
    change (showN (vAction e) :: map showN (vObs e)) with ([showN (vAction e)] ++ map showN (vObs e)).
    apply exact_bind with (a := vValues e).
    - rewrite <- HlS, <- flat_map_singleton. apply exact_rep with (P := dbl); [|assumption].
      intros d Hdd. apply (exact_get_num token show read dbl H_digits17); assumption.
    - apply exact_bind with (a := vAction e);
        [apply (exact_get_N token showN readN u64 H_showN); assumption|].
      replace (N.of_nat A <=? vAction e)%N with false by (symmetry; apply N.leb_gt; assumption).
      rewrite <- (app_nil_r (map showN (vObs e))).
      apply exact_bind with (a := vObs e).
      + rewrite <- HlO, <- flat_map_singleton.
        apply exact_rep with (P := fun o => (o < N.of_nat oldH)%N /\ u64 o); [|assumption].
        intros o [Ho Hu]. split.
        * intros rest. apply get_obs_show; assumption.
        * intros n Hn. cbn [length] in Hn. replace n with 0 by lia. reflexivity.
      + destruct e; apply exact_ret.
  Qed.

  Lemma chk_firstn_entries : forall oldH vl k, Forall (wf_ventry dbl u64 S A O oldH) vl ->
    chk (firstn k (flat_map went vl)) = (false, firstn k (flat_map went vl)).
  Proof.
    intros oldH vl k HF. destruct vl as [|e vl]; [rewrite firstn_nil; reflexivity|].
    destruct k as [|k]; [reflexivity|].
    inversion HF as [|? ? (HlS & Hd & Hact & Hau & HlO & Hobs) _]; subst.
    cbn [flat_map]. unfold write_ventry, check_at.
    destruct (vValues e) as [|d vs] eqn:E; cbn [map app firstn].
    - rewrite H_N_not_at by assumption. reflexivity.
    - inversion Hd; subst. rewrite H_num_not_at by assumption. reflexivity.
  Qed.

  (* entries of one horizon cut anywhere (or complete but with nothing after them) *)
  Lemma pp_entries_trunc : forall vl fuel prev cur oldH n,
    Forall (wf_ventry dbl u64 S A O oldH) vl -> length vl < fuel ->
    loop fuel S A O (firstn n (flat_map went vl)) prev cur oldH false = RFail.
  Proof.
    induction vl as [|e vl IH]; intros fuel prev cur oldH n HF Hfuel;
      (destruct fuel as [|f]; [inversion Hfuel|]).
    - rewrite firstn_nil. cbn [pp_loop].
      assert (Hnil : parse_ventry token read readN S A O oldH [] = RFail).
      { unfold parse_ventry. destruct S as [|S']; cbn [rep get_num bind get_N]; reflexivity. }
      rewrite Hnil. reflexivity.
    - inversion HF as [|? ? He HF']; subst. cbn [flat_map pp_loop]. rewrite firstn_app.
      destruct (exact_ventry oldH e He) as [Hok Htr].
      destruct (Nat.lt_ge_cases n (length (went e))) as [Hlt|Hge].
      + replace (n - length (went e)) with 0 by lia. cbn [firstn]. rewrite app_nil_r.
        rewrite Htr by assumption. reflexivity.
      + rewrite firstn_all2 by assumption. rewrite Hok. cbn [bind].
        rewrite (chk_firstn_entries oldH vl) by assumption.
        apply IH; [assumption | cbn [length] in Hfuel; lia].
  Qed.


  Lemma pp_horizons_trunc : forall rest fuel prev cur oldH n,
    wf_vlists dbl u64 S A O (length cur) rest -> total rest < fuel -> n < length (flat_map wvl rest ++ [at_tok]) ->
    loop fuel S A O (firstn n (flat_map wvl rest ++ [at_tok])) prev cur oldH true = RFail.
  Proof.
    induction rest as [|vl rest IH]; intros fuel prev cur oldH n Hwf Hfuel Hn;
      (destruct fuel as [|f]; [inversion Hfuel|]).
    - cbn [flat_map app length] in Hn. replace n with 0 by lia. cbn [flat_map app firstn pp_loop check_at].
      assert (Hnil : forall oh, parse_ventry token read readN S A O oh [] = RFail).
      { intros oh. unfold parse_ventry. destruct S as [|S']; cbn [rep get_num bind get_N]; reflexivity. }
      rewrite Hnil. reflexivity.
    - cbn [wf_vlists] in Hwf. destruct Hwf as (Hne & HF & Hrest).
      destruct vl as [|e vl]; [congruence|].
      cbn [total length] in Hfuel.
      assert (HW : (flat_map wvl ((e :: vl) :: rest) ++ [at_tok]) = flat_map went (e :: vl) ++ at_tok :: flat_map wvl rest ++ [at_tok]).
      { cbn [flat_map]. rewrite <- !app_assoc. reflexivity. }
      unfold vlist in *. rewrite HW in Hn. rewrite HW. rewrite firstn_app.
      destruct (Nat.le_gt_cases n (length (flat_map went (e :: vl)))) as [Hle|Hgt].
      + replace (n - length (flat_map went (e :: vl))) with 0 by lia. cbn [firstn]. rewrite app_nil_r.
        rewrite pp_new_horizon by (apply (chk_firstn_entries (length cur)); assumption).
        apply pp_entries_trunc; [assumption | cbn [length]; lia].
      + rewrite firstn_all2 by lia.
        destruct (n - length (flat_map went (e :: vl))) as [|k] eqn:Ek; [lia|]. cbn [firstn].
        rewrite pp_new_horizon.
        2:{ cbn [flat_map]. rewrite <- app_assoc. inversion HF; subst. eapply chk_entry; eassumption. }
        rewrite pp_entries by (auto; lia). cbn [app].
        apply IH; [exact Hrest | cbn [length]; lia |].
        rewrite app_length in Hn. cbn [length] in Hn. lia.
  Qed.

  Lemma truncation_fails_pomdp_policy_lemma : forall x dest n, wf_pomdp_policy dbl u64 x ->
    ppS x = S -> ppA x = A -> ppO x = O -> ppS dest = S -> ppA dest = A -> ppO dest = O ->
    n < length (write_pomdp_policy token show showN at_tok x) ->
    read_pomdp_policy token read readN split_at tsize
      (firstn n (write_pomdp_policy token show showN at_tok x)) dest = (dest, RFail).
  Proof.
    intros x dest n (rest & Hvf & Hwf & HH) HS HA HO HdS HdA HdO Hn.
    unfold read_pomdp_policy, parse_pomdp_policy, write_pomdp_policy, write_pomdp_policy_with in *.
    rewrite HdS, HdA, HdO. rewrite Hvf in *. cbn [tl] in *. rewrite HS, HA, HO in Hwf.
    match goal with |- context [pp_loop _ _ _ _ _ _ _ _ ?t [] _ _ _] => set (tr := t) end.
    set (sz := stream_size token tsize tr).
    pose proof (pp_loop_terminates token read readN split_at tsize H_size_pos H_read_left H_readN_left H_at_left
                  (Datatypes.S sz) S A O tr [] [h0_entry S] 1 true (Nat.lt_succ_diag_r sz)) as Hterm.
    pose proof (pp_loop_mono token read readN split_at (Datatypes.S sz) S A O tr [] [h0_entry S] 1 true Hterm
                  (Datatypes.S sz + Datatypes.S (total rest)) ltac:(lia)) as Hmono.
    rewrite <- Hmono.
    assert (HR : loop (Datatypes.S sz + Datatypes.S (total rest)) S A O tr [] [h0_entry S] 1 true = RFail).
    { apply pp_horizons_trunc; [exact Hwf | lia | exact Hn]. }
    rewrite HR. reflexivity.
  Qed.
End PolicyRoundTrip.

(* ------------------------------------------------------------------------------------------ *)
(* The writer as it stands formats the values with 6 significant digits.  Whatever the reader,
   two policies that differ only in values the formatter cannot tell apart produce the same
   text, so at most one of them can be read back. *)
Section PolicyRefuted.
  Variable token : Type.
  Variable show6 : Q -> token.
  Variable showN : N -> token.
  Variable at_tok : token.
  Variable dbl : Q -> Prop.
  Variable u64 : N -> Prop.
  Hypothesis u64_0 : u64 0%N.

  Definition one_entry_policy (d : Q) : pomdp_policy :=
    {| ppS := 1; ppA := 1; ppO := 1; ppH := 1;
       ppVF := [[h0_entry 1]; [{| vValues := [d]; vAction := 0%N; vObs := [0%N] |}]] |}.

  Lemma one_entry_policy_wf : forall d, dbl d -> wf_pomdp_policy dbl u64 (one_entry_policy d).
  Proof.
    intros d Hd. exists [[{| vValues := [d]; vAction := 0%N; vObs := [0%N] |}]].
    cbn. repeat split; auto; try discriminate; repeat constructor; auto.
  Qed.

  Lemma pomdp_policy_roundtrip_refuted_lemma : forall d1 d2 : Q,
    dbl d1 -> dbl d2 -> d1 <> d2 -> show6 d1 = show6 d2 ->
    forall reader : list token -> pomdp_policy,
    ~ (forall x, wf_pomdp_policy dbl u64 x ->
                 reader (write_pomdp_policy_with token showN at_tok show6 x) = x).
  Proof.
    intros d1 d2 H1 H2 Hne Heq reader Hall.
    pose proof (Hall _ (one_entry_policy_wf d1 H1)) as R1.
    pose proof (Hall _ (one_entry_policy_wf d2 H2)) as R2.
    assert (W : write_pomdp_policy_with token showN at_tok show6 (one_entry_policy d1)
              = write_pomdp_policy_with token showN at_tok show6 (one_entry_policy d2)).
    { unfold write_pomdp_policy_with, write_ventry. cbn. rewrite Heq. reflexivity. }
    rewrite W in R1. rewrite R1 in R2. apply Hne. inversion R2. reflexivity.
  Qed.
End PolicyRefuted.

Lemma roundtrip_pomdp_policy_thm :
  forall (token : Type) (show : Q -> token) (read : token -> option (Q * option token))
         (showN : N -> token) (readN : token -> option (N * option token))
         (at_tok : token) (split_at : token -> option (option token)) (tsize : token -> nat)
         (dbl : Q -> Prop) (u64 : N -> Prop),
  (forall t, 1 <= tsize t) ->
  (forall d, dbl d -> read (show d) = Some (d, None)) ->
  (forall n, u64 n -> readN (showN n) = Some (n, None)) ->
  split_at at_tok = Some None ->
  (forall d, dbl d -> split_at (show d) = None) ->
  (forall n, u64 n -> split_at (showN n) = None) ->
  forall x dest, wf_pomdp_policy dbl u64 x ->
  ppS dest = ppS x -> ppA dest = ppA x -> ppO dest = ppO x ->
  read_pomdp_policy token read readN split_at tsize (write_pomdp_policy token show showN at_tok x) dest = (x, ROk x []).
Proof.
  intros. eapply roundtrip_pomdp_policy_lemma with (dbl := dbl) (u64 := u64); eauto.
Qed.

(* example objects for Properties_C17.v *)
Local Open Scope Q_scope.
Definition ex_pomdp_policy : pomdp_policy :=
  {| ppS := 2; ppA := 2; ppO := 2; ppH := 2;
     ppVF := [[h0_entry 2];
              [{| vValues := [1 # 3; -2]; vAction := 1%N; vObs := [0%N; 0%N] |};
               {| vValues := [5 # 2; 0]; vAction := 0%N; vObs := [0%N; 0%N] |}];
              [{| vValues := [7; 1 # 8]; vAction := 0%N; vObs := [1%N; 0%N] |}]] |}.
Definition ex_pomdp_policy_dest : pomdp_policy :=
  {| ppS := 2; ppA := 2; ppO := 2; ppH := 0; ppVF := [[h0_entry 2]] |}.
Local Close Scope Q_scope.

Lemma ex_pomdp_policy_wf : wf_pomdp_policy anyQ anyN ex_pomdp_policy.
Proof.
  eexists. split; [reflexivity|]. cbn. unfold wf_ventry, anyQ, anyN. cbn.
  repeat split; try discriminate; repeat constructor; reflexivity.
Qed.

Lemma truncation_fails_pomdp_policy_thm :
  forall (token : Type) (show : Q -> token) (read : token -> option (Q * option token))
         (showN : N -> token) (readN : token -> option (N * option token))
         (at_tok : token) (split_at : token -> option (option token)) (tsize : token -> nat)
         (dbl : Q -> Prop) (u64 : N -> Prop),
  (forall t, 1 <= tsize t) ->
  (forall d, dbl d -> read (show d) = Some (d, None)) ->
  (forall n, u64 n -> readN (showN n) = Some (n, None)) ->
  split_at at_tok = Some None ->
  (forall d, dbl d -> split_at (show d) = None) ->
  (forall n, u64 n -> split_at (showN n) = None) ->
  (forall t q t', read t = Some (q, Some t') -> tsize t' < tsize t) ->
  (forall t n t', readN t = Some (n, Some t') -> tsize t' < tsize t) ->
  (forall t t', split_at t = Some (Some t') -> tsize t' < tsize t) ->
  forall x dest n, wf_pomdp_policy dbl u64 x ->
  ppS dest = ppS x -> ppA dest = ppA x -> ppO dest = ppO x ->
  n < length (write_pomdp_policy token show showN at_tok x) ->
  read_pomdp_policy token read readN split_at tsize
    (firstn n (write_pomdp_policy token show showN at_tok x)) dest = (dest, RFail).
Proof.
  intros. eapply truncation_fails_pomdp_policy_lemma with (dbl := dbl) (u64 := u64); eauto.
Qed.
