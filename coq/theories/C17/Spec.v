(* C17/Spec.v — what "loads back identically" and "a failed load leaves the destination as it
   was" mean, written independently of the readers: shape/validity predicates on the objects
   (the class invariants the round trip relies on) and the outcome predicates the theorems and
   the driver's oracle use.  Boolean checkers come with soundness lemmas in Proofs.v. *)
From Coq Require Import List Arith NArith QArith Bool.
From AIT Require Import C17.Model.
Import ListNotations.
Local Open Scope nat_scope.

(* ---- shapes ---- *)
Definition shape2 {V} (r c : nat) (m : list (list V)) : Prop :=
  length m = r /\ Forall (fun row => length row = c) m.
Definition shape3 {V} (n r c : nat) (m : list (list (list V))) : Prop :=
  length m = n /\ Forall (shape2 r c) m.
Definition all2 {V} (P : V -> Prop) (m : list (list V)) : Prop := Forall (Forall P) m.
Definition all3 {V} (P : V -> Prop) (m : list (list (list V))) : Prop := Forall (all2 P) m.

Definition shape2b {V} (r c : nat) (m : list (list V)) : bool :=
  (length m =? r) && forallb (fun row => length row =? c) m.
Definition shape3b {V} (n r c : nat) (m : list (list (list V))) : bool :=
  (length m =? n) && forallb (shape2b r c) m.

(* ---- sparse storage: entries strictly increasing in (row, col), indices in range ---- *)
Fixpoint sorted_keys {V} (l : list (nat * nat * V)) : Prop :=
  match l with
  | [] => True
  | e :: l' => match l' with [] => True | e' :: _ => key_lt (fst e) (fst e') = true end /\ sorted_keys l'
  end.
Definition in_range {V} (r c : nat) (l : list (nat * nat * V)) : Prop :=
  Forall (fun e => fst (fst e) < r /\ snd (fst e) < c) l.

(* ---- object invariants (what every object built through the public API satisfies) ---- *)
Section Wf.
  Variable dbl : Q -> Prop.      (* "is an IEEE double" *)
  Variable u64 : N -> Prop.      (* "fits unsigned long" *)

  (* Eigen compressed storage: sorted, no duplicates, indices in range (and representable) *)
  Definition wf_sparse {V} (r c : nat) (l : list (nat * nat * V)) : Prop :=
    sorted_keys l /\ in_range r c l /\ u64 (N.of_nat (length l)) /\
    Forall (fun e => u64 (N.of_nat (fst (fst e))) /\ u64 (N.of_nat (snd (fst e)))) l.

  Definition wf_model (m : mdp_model) : Prop :=
    shape3 (mA m) (mS m) (mS m) (mT m) /\ shape2 (mS m) (mA m) (mR m) /\
    all3 dbl (mT m) /\ all2 dbl (mR m) /\ dbl (mDisc m) /\
    discount_ok (mDisc m) = true /\ mat3_is_prob (mT m) = true.

  Definition wf_experience (e : experience) : Prop :=
    shape3 (eA e) (eS e) (eS e) (eVisits e) /\ shape2 (eS e) (eA e) (eRew e) /\ shape2 (eS e) (eA e) (eM2 e) /\
    u64 (eTime e) /\ all3 u64 (eVisits e) /\ all2 dbl (eRew e) /\ all2 dbl (eM2 e).

  Definition wf_mdp_policy (p : mdp_policy) : Prop :=
    shape2 (pS p) (pA p) (pTable p) /\ all2 dbl (pTable p) /\ mat_is_prob (pTable p) = true.

  Definition wf_pomdp_model (m : pomdp_model) : Prop :=
    wf_model (pmM m) /\ shape3 (mA (pmM m)) (mS (pmM m)) (pmO m) (pmObs m) /\
    all3 dbl (pmObs m) /\ mat3_is_prob (pmObs m) = true.

  (* a value-function entry of horizon h: S values, action < A, O links into horizon h-1 *)
  Definition wf_ventry (S A O prevn : nat) (e : ventry) : Prop :=
    length (vValues e) = S /\ Forall dbl (vValues e) /\ (vAction e < N.of_nat A)%N /\ u64 (vAction e) /\
    length (vObs e) = O /\ Forall (fun o => (o < N.of_nat prevn)%N /\ u64 o) (vObs e).
  Fixpoint wf_vlists (S A O prevn : nat) (l : list vlist) : Prop :=
    match l with
    | [] => True
    | vl :: l' => vl <> [] /\ Forall (wf_ventry S A O prevn) vl /\ wf_vlists S A O (length vl) l'
    end.
  (* horizon 0 is the entry makeValueFunction creates; every later horizon is non-empty and its
     observation links point into the previous horizon (property C04's links_in_range) *)
  Definition wf_pomdp_policy (p : pomdp_policy) : Prop :=
    exists rest, ppVF p = [h0_entry (ppS p)] :: rest /\ wf_vlists (ppS p) (ppA p) (ppO p) 1 rest /\
                 ppH p = length rest.

  Definition wf_smat (r c : nat) (m : smat) : Prop := wf_sparse r c m /\ Forall (fun e => dbl (snd e)) m.
  Definition wf_stab (r c : nat) (m : stab) : Prop := wf_sparse r c m /\ Forall (fun e => u64 (snd e)) m.
  Definition wf_smodel (m : smdp_model) : Prop :=
    length (smT m) = smA m /\ Forall (wf_smat (smS m) (smS m)) (smT m) /\ wf_smat (smS m) (smA m) (smR m) /\
    dbl (smDisc m) /\ discount_ok (smDisc m) = true /\ smat3_is_prob (smS m) (smT m) = true.
  Definition wf_sexperience (e : sexperience) : Prop :=
    length (seVisits e) = seA e /\ Forall (wf_stab (seS e) (seS e)) (seVisits e) /\
    wf_smat (seS e) (seA e) (seRew e) /\ wf_smat (seS e) (seA e) (seM2 e) /\ u64 (seTime e).
  Definition wf_spomdp_model (m : spomdp_model) : Prop :=
    wf_smodel (spmM m) /\ length (spmObs m) = smA (spmM m) /\
    Forall (wf_smat (smS (spmM m)) (spmO m)) (spmObs m) /\
    smat3_is_prob (smS (spmM m)) (spmObs m) = true.
End Wf.

(* ---- outcome of a load, as the property states it ---- *)
(* a load either succeeds, or signals failure and returns the destination untouched *)
Definition load_atomic {A} (dest : A) (res : A) (st : status) : Prop :=
  st = St_ok \/ ((st = St_fail \/ st = St_throw) /\ res = dest).

(* oracle used by the driver on the implementation's dumps (strings compared bitwise):
   [same] = dump after load equals the destination's dump *)
Definition load_atomic_b (st : status) (same : bool) : bool :=
  match st with St_ok => true | St_fail | St_throw => same | St_fuel => false end.

(* a truncated file must not load as a *different* object *)
Definition truncation_ok_b (st : status) (same_as_dest same_as_orig : bool) : bool :=
  match st with St_ok => same_as_orig | St_fail | St_throw => same_as_dest | St_fuel => false end.

(* ---- "a successful load yields a valid object" (semantically invalid input must be rejected):
        boolean validity of what the implementation loaded, evaluated by the driver's oracle ---- *)
Definition valid_model_b (m : mdp_model) : bool :=
  discount_ok (mDisc m) && mat3_is_prob (mT m) &&
  shape3b (mA m) (mS m) (mS m) (mT m) && shape2b (mS m) (mA m) (mR m).
Definition valid_mdp_policy_b (p : mdp_policy) : bool :=
  mat_is_prob (pTable p) && shape2b (pS p) (pA p) (pTable p).
Definition valid_ventry_b (S A O prevn : nat) (e : ventry) : bool :=
  (length (vValues e) =? S) && (vAction e <? N.of_nat A)%N && (length (vObs e) =? O) &&
  forallb (fun o => (o <? N.of_nat prevn)%N) (vObs e).
Fixpoint valid_vlists_b (S A O prevn : nat) (l : list vlist) : bool :=
  match l with
  | [] => true
  | vl :: l' => negb (length vl =? 0) && forallb (valid_ventry_b S A O prevn) vl && valid_vlists_b S A O (length vl) l'
  end.
(* structural (Leibniz) equality with the rational 0 # 1, the value makeValueFunction stores *)
Definition q_is_zero_b (q : Q) : bool := (Qnum q =? 0)%Z && (Qden q =? 1)%positive.
Definition is_h0_b (S : nat) (vl : vlist) : bool :=
  match vl with
  | [e] => (length (vValues e) =? S) && forallb q_is_zero_b (vValues e) && (vAction e =? 0)%N &&
           match vObs e with [] => true | _ => false end
  | _ => false
  end.
Definition valid_pomdp_policy_b (p : pomdp_policy) : bool :=
  match ppVF p with
  | h0 :: rest => is_h0_b (ppS p) h0 && valid_vlists_b (ppS p) (ppA p) (ppO p) 1 rest && (ppH p =? length rest)
  | [] => false
  end.

(* the trivially true number predicates: "well-formed up to which numbers are representable" *)
Definition anyQ (q : Q) : Prop := True.
Definition anyN (n : N) : Prop := True.
