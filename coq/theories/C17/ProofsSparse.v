(* C17/ProofsSparse.v — sparse matrices/tables: setFromTriplets is the identity on a sorted,
   duplicate-free triplet list, and the sparse readers read back what the sparse writers wrote. *)
From Coq Require Import List Arith NArith QArith Bool Lia.
From AIT Require Import C17.Model C17.Spec C17.Proofs.
Import ListNotations.
Local Open Scope nat_scope.

(* ---------- key order ---------- *)
Lemma key_lt_spec : forall a b : nat * nat,
  key_lt a b = true <-> (fst a < fst b \/ (fst a = fst b /\ snd a < snd b)).
Proof.
  intros [a1 a2] [b1 b2]. unfold key_lt. cbn [fst snd].
  rewrite orb_true_iff, andb_true_iff, !Nat.ltb_lt, Nat.eqb_eq. tauto.
Qed.

Lemma key_lt_trans : forall a b c, key_lt a b = true -> key_lt b c = true -> key_lt a c = true.
Proof. intros a b c. rewrite !key_lt_spec. lia. Qed.

Lemma key_lt_not_eq : forall a b, key_lt a b = true -> key_eq b a = false.
Proof.
  intros [a1 a2] [b1 b2]. rewrite key_lt_spec. unfold key_eq. cbn [fst snd]. intros H.
  apply andb_false_iff. destruct (Nat.eqb_spec b1 a1); [right; apply Nat.eqb_neq; lia | left; reflexivity].
Qed.

Lemma key_lt_asym : forall a b, key_lt a b = true -> key_lt b a = false.
Proof.
  intros a b H. destruct (key_lt b a) eqn:E; [|reflexivity].
  rewrite key_lt_spec in *. lia.
Qed.

(* ---------- setFromTriplets on sorted input ---------- *)
Section SetFromTriplets.
  Variable V : Type.
  Variable add : V -> V -> V.

  Lemma insert_last : forall (t : nat * nat * V) acc,
    Forall (fun e => key_lt (fst e) (fst t) = true) acc -> insert_trip add t acc = acc ++ [t].
  Proof.
    intros t. induction acc as [|e acc IH]; intros HF; [reflexivity|].
    inversion HF; subst. cbn [insert_trip app].
    rewrite (key_lt_not_eq _ _ H1), (key_lt_asym _ _ H1). rewrite IH by assumption. reflexivity.
  Qed.

  Lemma sorted_app_lt : forall (acc : list (nat * nat * V)) t l,
    sorted_keys (acc ++ t :: l) -> Forall (fun e => key_lt (fst e) (fst t) = true) acc.
  Proof.
    induction acc as [|e acc IH]; intros t l Hs; [constructor|].
    cbn [app sorted_keys] in Hs. destruct Hs as [Hhd Htl].
    pose proof (IH _ _ Htl) as HF. constructor; [|assumption].
    destruct acc as [|e' acc']; cbn [app] in Hhd; [assumption|].
    inversion HF; subst. eapply key_lt_trans; eassumption.
  Qed.

  Lemma sorted_tail : forall (acc : list (nat * nat * V)) l, sorted_keys (acc ++ l) -> sorted_keys l.
  Proof. induction acc as [|e acc IH]; intros l Hs; [assumption|]. apply IH. cbn [app sorted_keys] in Hs. tauto. Qed.

  Lemma fold_insert_sorted : forall (l acc : list (nat * nat * V)), sorted_keys (acc ++ l) ->
    fold_left (fun a t => insert_trip add t a) l acc = acc ++ l.
  Proof.
    induction l as [|t l IH]; intros acc Hs; [rewrite app_nil_r; reflexivity|].
    cbn [fold_left]. rewrite insert_last by (eapply sorted_app_lt; eassumption).
    rewrite IH; rewrite <- app_assoc; [reflexivity | exact Hs].
  Qed.

  Lemma set_from_triplets_sorted : forall l : list (nat * nat * V), sorted_keys l -> set_from_triplets add l = l.
  Proof. intros l Hs. unfold set_from_triplets. apply (fold_insert_sorted l []). exact Hs. Qed.

  (* a sorted in-range triplet list has at most rows*cols entries *)
  Lemma sorted_count : forall rows cols (l : list (nat * nat * V)) lo,
    sorted_keys l -> in_range rows cols l ->
    match l with [] => True | e :: _ => lo <= fst (fst e) * cols + snd (fst e) end ->
    length l + lo <= rows * cols \/ l = [].
  Proof.
    intros rows cols. induction l as [|e l IH]; intros lo Hs Hr Hlo; [right; reflexivity|]. left.
    cbn [sorted_keys] in Hs. destruct Hs as [Hhd Htl]. inversion Hr as [|? ? [Hr1 Hc1] Hr']; subst.
    assert (Hidx : fst (fst e) * cols + snd (fst e) < rows * cols) by nia.
    destruct l as [|e' l'].
    - cbn [length]. lia.
    - rewrite key_lt_spec in Hhd. inversion Hr' as [|? ? [Hr2 Hc2] _]; subst.
      assert (Hlo' : Datatypes.S (fst (fst e) * cols + snd (fst e)) <= fst (fst e') * cols + snd (fst e')) by nia.
      destruct (IH _ Htl Hr' Hlo') as [H|H]; [|discriminate].
      cbn [length] in *. lia.
  Qed.

  Lemma sorted_length_le : forall rows cols (l : list (nat * nat * V)),
    sorted_keys l -> in_range rows cols l -> length l <= rows * cols.
  Proof.
    intros rows cols l Hs Hr. destruct (sorted_count rows cols l 0 Hs Hr) as [H|H].
    - destruct l; [exact I | lia].
    - lia.
    - subst. cbn. lia.
  Qed.
End SetFromTriplets.

(* ---------- sparse readers ---------- *)
Section SparseRoundTrip.
  Variable token : Type.
  Variable show : Q -> token.
  Variable read : token -> option (Q * option token).
  Variable showN : N -> token.
  Variable readN : token -> option (N * option token).
  Variable dbl : Q -> Prop.
  Variable u64 : N -> Prop.
  Hypothesis H_digits17 : forall d, dbl d -> read (show d) = Some (d, None).
  Hypothesis H_showN : forall n, u64 n -> readN (showN n) = Some (n, None).

  Notation get_N := (Model.get_N token readN).

  (* generic in the value type: [shv]/[getv] write/read one value, [PV] says it round-trips *)
  Section Generic.
    Variable V : Type.
    Variable add : V -> V -> V.
    Variable shv : V -> token.
    Variable getv : list token -> rres token V.
    Variable PV : V -> Prop.
    Hypothesis getv_ok : forall v rest, PV v -> getv (shv v :: rest) = ROk v rest.

    Definition wtrip (e : nat * nat * V) : list token :=
      [showN (N.of_nat (fst (fst e))); showN (N.of_nat (snd (fst e))); shv (snd e)].

    Lemma get_trip_roundtrip : forall rows cols e rest,
      fst (fst e) < rows -> snd (fst e) < cols ->
      u64 (N.of_nat (fst (fst e))) -> u64 (N.of_nat (snd (fst e))) -> PV (snd e) ->
      get_trip token readN getv rows cols (wtrip e ++ rest) = ROk e rest.
    Proof.
      intros rows cols [[r c] v] rest Hr Hc Hur Huc Hv. cbn [fst snd] in *.
      unfold get_trip, wtrip. cbn [fst snd app].
      rewrite (get_N_show token showN readN u64 H_showN) by assumption. cbn [bind].
      rewrite (get_N_show token showN readN u64 H_showN) by assumption. cbn [bind].
      rewrite getv_ok by assumption. cbn [bind].
      replace (N.of_nat rows <=? N.of_nat r)%N with false by (symmetry; apply N.leb_gt; lia).
      replace (N.of_nat cols <=? N.of_nat c)%N with false by (symmetry; apply N.leb_gt; lia).
      rewrite !Nnat.Nat2N.id. reflexivity.
    Qed.

    Lemma read_sparse_roundtrip : forall rows cols (m : list (nat * nat * V)) rest dest,
      wf_sparse u64 rows cols m -> Forall (fun e => PV (snd e)) m ->
      read_sparse token readN add getv rows cols
        (showN (N.of_nat (length m)) :: flat_map wtrip m ++ rest) dest = (m, ROk m rest).
    Proof.
      intros rows cols m rest dest (Hs & Hr & Hul & Hui) Hv.
      unfold read_sparse, parse_sparse.
      rewrite (get_N_show token showN readN u64 H_showN) by assumption. cbn [bind].
      pose proof (sorted_length_le V rows cols m Hs Hr) as Hle.
      replace (N.of_nat (rows * cols) <? N.of_nat (length m))%N with false by (symmetry; apply N.ltb_ge; lia).
      rewrite Nnat.Nat2N.id.
      rewrite (rep_roundtrip token (nat * nat * V)
                 (fun e => fst (fst e) < rows /\ snd (fst e) < cols /\
                           u64 (N.of_nat (fst (fst e))) /\ u64 (N.of_nat (snd (fst e))) /\ PV (snd e)) wtrip).
      - rewrite (set_from_triplets_sorted V add m Hs). reflexivity.
      - intros e rest' (? & ? & ? & ? & ?). apply get_trip_roundtrip; assumption.
      - unfold in_range in Hr. rewrite Forall_forall in *. intros e Hin.
        destruct (Hr e Hin). destruct (Hui e Hin). repeat split; auto.
    Qed.
  End Generic.

  Lemma read_smat_roundtrip : forall rows cols m rest dest, wf_smat dbl u64 rows cols m ->
    read_smat token read readN rows cols (write_smat token show showN m ++ rest) dest = (m, ROk m rest).
  Proof.
    intros rows cols m rest dest [Hwf Hv]. unfold read_smat, write_smat. cbn [app].
    apply (read_sparse_roundtrip Q Qplus show (Model.get_num token read) dbl); auto.
    intros; apply (get_num_show token show read dbl H_digits17); assumption.
  Qed.

  Lemma read_stab_roundtrip : forall rows cols m rest dest, wf_stab u64 rows cols m ->
    read_stab token readN rows cols (write_stab token showN m ++ rest) dest = (m, ROk m rest).
  Proof.
    intros rows cols m rest dest [Hwf Hv]. unfold read_stab, write_stab. cbn [app].
    apply (read_sparse_roundtrip N addN64 showN get_N u64); auto.
    intros; apply (get_N_show token showN readN u64 H_showN); assumption.
  Qed.

  Lemma parse_smat3_roundtrip : forall rows cols m rest, Forall (wf_smat dbl u64 rows cols) m ->
    parse_smat3 token read readN (length m) rows cols (write_smat3 token show showN m ++ rest) = ROk m rest.
  Proof.
    intros rows cols m rest HF. unfold parse_smat3, write_smat3.
    apply rep_roundtrip with (P := wf_smat dbl u64 rows cols); [|assumption].
    intros a rest' Ha. rewrite read_smat_roundtrip by assumption. reflexivity.
  Qed.

  Lemma parse_stab3_roundtrip : forall rows cols m rest, Forall (wf_stab u64 rows cols) m ->
    parse_stab3 token readN (length m) rows cols (write_stab3 token showN m ++ rest) = ROk m rest.
  Proof.
    intros rows cols m rest HF. unfold parse_stab3, parse_stab3_with, write_stab3.
    apply rep_roundtrip with (P := wf_stab u64 rows cols); [|assumption].
    intros a rest' Ha. rewrite read_stab_roundtrip by assumption. reflexivity.
  Qed.

  (* ---------------- MDP::SparseModel ---------------- *)
  Lemma parse_smodel_roundtrip : forall x rest, wf_smodel dbl u64 x ->
    parse_smodel token read readN (smS x) (smA x) (write_smodel token show showN x ++ rest) = ROk x rest.
  Proof.
    intros x rest (HlT & HT & HR & Hd & Hdisc & Hprob).
    unfold parse_smodel, write_smodel. cbn [app].
    rewrite (get_num_show token show read dbl H_digits17) by assumption. cbn [bind].
    rewrite Hdisc. cbn [negb]. rewrite <- app_assoc. rewrite <- HlT.
    rewrite parse_smat3_roundtrip by assumption. cbn [bind]. rewrite Hprob. cbn [negb].
    rewrite HlT. rewrite read_smat_roundtrip by assumption. cbn [snd bind].
    destruct x; cbn in *; subst; reflexivity.
  Qed.

  Lemma roundtrip_sparse_model_lemma : forall x dest, wf_smodel dbl u64 x ->
    smS dest = smS x -> smA dest = smA x ->
    read_smodel token read readN (write_smodel token show showN x) dest = (x, ROk x []).
  Proof.
    intros x dest Hwf HS HA. unfold read_smodel. rewrite HS, HA.
    rewrite <- (app_nil_r (write_smodel token show showN x)).
    rewrite parse_smodel_roundtrip by assumption. reflexivity.
  Qed.

  (* ---------------- MDP::SparseExperience (reader repaired) ---------------- *)
  Lemma roundtrip_sparse_experience_lemma : forall x dest, wf_sexperience dbl u64 x ->
    seS dest = seS x -> seA dest = seA x ->
    read_sexperience token read readN (write_sexperience token show showN x) dest = (x, ROk x []).
  Proof.
    intros x dest (HlV & HV & HR & HM & Ht) HS HA.
    unfold read_sexperience, parse_sexperience, parse_sexperience_with, write_sexperience. rewrite HS, HA.
    rewrite (get_N_show token showN readN u64 H_showN) by assumption. cbn [bind].
    rewrite <- HlV. fold (parse_stab3 token readN).
    rewrite parse_stab3_roundtrip by assumption. cbn [bind]. rewrite HlV.
    rewrite read_smat_roundtrip by assumption. cbn [snd bind].
    rewrite <- (app_nil_r (write_smat token show showN (seM2 x))).
    rewrite read_smat_roundtrip by assumption. cbn [snd bind commit].
    destruct x; cbn in *; subst; reflexivity.
  Qed.

  (* ---------------- POMDP::SparseModel<MDP::SparseModel> ---------------- *)
  Lemma roundtrip_sparse_pomdp_model_lemma : forall x dest, wf_spomdp_model dbl u64 x ->
    spmO dest = spmO x -> smS (spmM dest) = smS (spmM x) -> smA (spmM dest) = smA (spmM x) ->
    read_spomdp_model token read readN (write_spomdp_model token show showN x) dest = (x, ROk x []).
  Proof.
    intros x dest (Hm & Hl & Ho & Hp) HO HS HA.
    unfold read_spomdp_model, parse_spomdp_model, write_spomdp_model. rewrite HO, HS, HA.
    rewrite parse_smodel_roundtrip by assumption. cbn [bind].
    rewrite <- (app_nil_r (write_smat3 token show showN (spmObs x))). rewrite <- Hl.
    rewrite parse_smat3_roundtrip by assumption. cbn [bind]. rewrite Hp. cbn [negb commit].
    destruct x; reflexivity.
  Qed.
End SparseRoundTrip.

(* example objects for Properties_C17.v *)
Local Open Scope Q_scope.
Definition ex_smodel : smdp_model :=
  {| smS := 2; smA := 1; smDisc := 1 # 2;
     smT := [[(0%nat, 0%nat, 1 # 4); (0%nat, 1%nat, 3 # 4); (1%nat, 1%nat, 1)]];
     smR := [(1%nat, 0%nat, -(5 # 2))] |}.
Definition ex_smodel_dest : smdp_model :=
  {| smS := 2; smA := 1; smDisc := 1; smT := [[(0%nat, 0%nat, 1); (1%nat, 1%nat, 1)]]; smR := [] |}.
Definition ex_sexperience : sexperience :=
  {| seS := 2; seA := 1; seTime := 5%N; seVisits := [[(0%nat, 1%nat, 4%N); (1%nat, 0%nat, 1%N)]];
     seRew := [(0%nat, 0%nat, 3 # 2)]; seM2 := [] |}.
Local Close Scope Q_scope.

Lemma ex_smodel_wf : wf_smodel anyQ anyN ex_smodel.
Proof.
  unfold wf_smodel, wf_smat, wf_sparse, in_range, anyQ, anyN. cbn.
  repeat split; repeat constructor; cbn; auto.
Qed.
Lemma ex_sexperience_wf : wf_sexperience anyQ anyN ex_sexperience.
Proof.
  unfold wf_sexperience, wf_stab, wf_smat, wf_sparse, in_range, anyQ, anyN. cbn.
  repeat split; repeat constructor; cbn; auto.
Qed.
