(* C17/ProofsTruncSparse.v — every-truncation-point theorems for the sparse kinds
   (MDP::SparseModel, MDP::SparseExperience, POMDP::SparseModel<MDP::SparseModel>). *)
From Coq Require Import List Arith NArith QArith Bool Lia.
From AIT Require Import C17.Model C17.Spec C17.Proofs C17.ProofsSparse C17.ProofsTrunc.
Import ListNotations.
Local Open Scope nat_scope.

Section TruncSparse.
  Variable token : Type.
  Variable show : Q -> token.
  Variable read : token -> option (Q * option token).
  Variable showN : N -> token.
  Variable readN : token -> option (N * option token).
  Variable dbl : Q -> Prop.
  Variable u64 : N -> Prop.
  Hypothesis H_digits17 : forall d, dbl d -> read (show d) = Some (d, None).
  Hypothesis H_showN : forall n, u64 n -> readN (showN n) = Some (n, None).

  Notation exact_N := (exact_get_N token showN readN u64 H_showN).

  Section Generic.
    Variable V : Type.
    Variable add : V -> V -> V.
    Variable shv : V -> token.
    Variable getv : list token -> rres token V.
    Variable PV : V -> Prop.
    Hypothesis getv_exact : forall v, PV v -> exact token getv [shv v] v.

    Notation wtrip := (wtrip token showN V shv).

    Lemma exact_trip : forall rows cols e,
      fst (fst e) < rows -> snd (fst e) < cols ->
      u64 (N.of_nat (fst (fst e))) -> u64 (N.of_nat (snd (fst e))) -> PV (snd e) ->
      exact token (get_trip token readN getv rows cols) (wtrip e) e.
    Proof.
      intros rows cols [[r c] v] Hr Hc Hur Huc Hv. cbn [fst snd] in *.
      unfold get_trip, ProofsSparse.wtrip. cbn [fst snd].
      change [showN (N.of_nat r); showN (N.of_nat c); shv v]
        with ([showN (N.of_nat r)] ++ [showN (N.of_nat c)] ++ [shv v] ++ []).
      apply exact_bind with (a := N.of_nat r); [apply exact_N; assumption|].
      apply exact_bind with (a := N.of_nat c); [apply exact_N; assumption|].
      apply exact_bind with (a := v); [apply getv_exact; assumption|].
      replace (N.of_nat rows <=? N.of_nat r)%N with false by (symmetry; apply N.leb_gt; lia).
      replace (N.of_nat cols <=? N.of_nat c)%N with false by (symmetry; apply N.leb_gt; lia).
      rewrite !Nnat.Nat2N.id. apply exact_ret.
    Qed.

    Lemma exact_parse_sparse : forall rows cols (m : list (nat * nat * V)),
      wf_sparse u64 rows cols m -> Forall (fun e => PV (snd e)) m ->
      exact token (parse_sparse token readN getv rows cols)
            (showN (N.of_nat (length m)) :: flat_map wtrip m) m.
    Proof.
      intros rows cols m (Hs & Hr & Hul & Hui) Hv. unfold parse_sparse.
      change (showN (N.of_nat (length m)) :: flat_map wtrip m)
        with ([showN (N.of_nat (length m))] ++ flat_map wtrip m).
      apply exact_bind with (a := N.of_nat (length m)); [apply exact_N; assumption|].
      pose proof (sorted_length_le V rows cols m Hs Hr) as Hle.
      replace (N.of_nat (rows * cols) <? N.of_nat (length m))%N with false by (symmetry; apply N.ltb_ge; lia).
      rewrite Nnat.Nat2N.id.
      apply exact_rep with (P := fun e => fst (fst e) < rows /\ snd (fst e) < cols /\
                           u64 (N.of_nat (fst (fst e))) /\ u64 (N.of_nat (snd (fst e))) /\ PV (snd e)).
      - intros e (? & ? & ? & ? & ?). apply exact_trip; assumption.
      - unfold in_range in Hr. rewrite Forall_forall in *. intros e Hin.
        destruct (Hr e Hin). destruct (Hui e Hin). repeat split; auto.
    Qed.

    (* the commit through setFromTriplets keeps exactness: it is the identity on sorted storage *)
    Lemma exact_read_sparse : forall rows cols (m : list (nat * nat * V)) dest,
      wf_sparse u64 rows cols m -> Forall (fun e => PV (snd e)) m ->
      exact token (fun is => snd (read_sparse token readN add getv rows cols is dest))
            (showN (N.of_nat (length m)) :: flat_map wtrip m) m.
    Proof.
      intros rows cols m dest Hwf Hv.
      destruct (exact_parse_sparse rows cols m Hwf Hv) as [Hok Htr]. destruct Hwf as (Hs & _).
      split.
      - intros rest. unfold read_sparse. rewrite Hok. cbn [snd].
        rewrite (set_from_triplets_sorted V add m Hs). reflexivity.
      - intros n Hn. unfold read_sparse. rewrite Htr by assumption. reflexivity.
    Qed.
  End Generic.

  Lemma exact_smat : forall rows cols m dest, wf_smat dbl u64 rows cols m ->
    exact token (fun is => snd (read_smat token read readN rows cols is dest)) (write_smat token show showN m) m.
  Proof.
    intros rows cols m dest [Hwf Hv]. unfold read_smat, write_smat.
    apply (exact_read_sparse Q Qplus show (Model.get_num token read) dbl); auto.
    intros; apply (exact_get_num token show read dbl H_digits17); assumption.
  Qed.

  Lemma exact_stab : forall rows cols m dest, wf_stab u64 rows cols m ->
    exact token (fun is => snd (read_stab token readN rows cols is dest)) (write_stab token showN m) m.
  Proof.
    intros rows cols m dest [Hwf Hv]. unfold read_stab, write_stab.
    apply (exact_read_sparse N addN64 showN (Model.get_N token readN) u64); auto.
    intros; apply exact_N; assumption.
  Qed.

  Lemma exact_smat3 : forall rows cols m, Forall (wf_smat dbl u64 rows cols) m ->
    exact token (parse_smat3 token read readN (length m) rows cols) (write_smat3 token show showN m) m.
  Proof.
    intros rows cols m HF. unfold parse_smat3, write_smat3.
    apply exact_rep with (P := wf_smat dbl u64 rows cols); [|assumption].
    intros a Ha. apply exact_smat; assumption.
  Qed.

  Lemma exact_stab3 : forall rows cols m, Forall (wf_stab u64 rows cols) m ->
    exact token (parse_stab3 token readN (length m) rows cols) (write_stab3 token showN m) m.
  Proof.
    intros rows cols m HF. unfold parse_stab3, parse_stab3_with, write_stab3.
    apply exact_rep with (P := wf_stab u64 rows cols); [|assumption].
    intros a Ha. apply exact_stab; assumption.
  Qed.

  Lemma exact_smodel : forall x, wf_smodel dbl u64 x ->
    exact token (parse_smodel token read readN (smS x) (smA x)) (write_smodel token show showN x) x.
  Proof.
    intros x (HlT & HT & HR & Hd & Hdisc & Hprob). unfold parse_smodel, write_smodel.
    change (show (smDisc x) :: write_smat3 token show showN (smT x) ++ write_smat token show showN (smR x))
      with ([show (smDisc x)] ++ write_smat3 token show showN (smT x) ++ write_smat token show showN (smR x)).
    apply exact_bind with (a := smDisc x); [apply (exact_get_num token show read dbl H_digits17); assumption|].
    rewrite Hdisc. cbn [negb].
    apply exact_bind with (a := smT x); [rewrite <- HlT; apply exact_smat3; assumption|].
    rewrite Hprob. cbn [negb].
    rewrite <- (app_nil_r (write_smat token show showN (smR x))).
    apply exact_bind with (a := smR x); [apply exact_smat; assumption|].
    destruct x; apply exact_ret.
  Qed.

  Lemma exact_sexperience : forall x, wf_sexperience dbl u64 x ->
    exact token (parse_sexperience token read readN (seS x) (seA x)) (write_sexperience token show showN x) x.
  Proof.
    intros x (HlV & HV & HR & HM & Ht). unfold parse_sexperience, parse_sexperience_with, write_sexperience.
    change (showN (seTime x) :: write_stab3 token showN (seVisits x) ++ write_smat token show showN (seRew x) ++ write_smat token show showN (seM2 x))
      with ([showN (seTime x)] ++ write_stab3 token showN (seVisits x) ++ write_smat token show showN (seRew x) ++ write_smat token show showN (seM2 x)).
    apply exact_bind with (a := seTime x); [apply exact_N; assumption|].
    apply exact_bind with (a := seVisits x);
      [rewrite <- HlV; fold (parse_stab3 token readN); apply exact_stab3; assumption|].
    apply exact_bind with (a := seRew x); [apply exact_smat; assumption|].
    rewrite <- (app_nil_r (write_smat token show showN (seM2 x))).
    apply exact_bind with (a := seM2 x); [apply exact_smat; assumption|].
    destruct x; apply exact_ret.
  Qed.

  Lemma exact_spomdp_model : forall x, wf_spomdp_model dbl u64 x ->
    exact token (parse_spomdp_model token read readN (spmO x) (smS (spmM x)) (smA (spmM x)))
          (write_spomdp_model token show showN x) x.
  Proof.
    intros x (Hm & Hl & Ho & Hp). unfold parse_spomdp_model, write_spomdp_model.
    apply exact_bind with (a := spmM x); [apply exact_smodel; assumption|].
    rewrite <- (app_nil_r (write_smat3 token show showN (spmObs x))).
    apply exact_bind with (a := spmObs x); [rewrite <- Hl; apply exact_smat3; assumption|].
    rewrite Hp. cbn [negb]. destruct x; apply exact_ret.
  Qed.

  Lemma truncation_fails_sparse_lemma :
    (forall x dest n, wf_smodel dbl u64 x -> smS dest = smS x -> smA dest = smA x ->
       n < length (write_smodel token show showN x) ->
       read_smodel token read readN (firstn n (write_smodel token show showN x)) dest = (dest, RFail)) /\
    (forall x dest n, wf_sexperience dbl u64 x -> seS dest = seS x -> seA dest = seA x ->
       n < length (write_sexperience token show showN x) ->
       read_sexperience token read readN (firstn n (write_sexperience token show showN x)) dest = (dest, RFail)) /\
    (forall x dest n, wf_spomdp_model dbl u64 x ->
       spmO dest = spmO x -> smS (spmM dest) = smS (spmM x) -> smA (spmM dest) = smA (spmM x) ->
       n < length (write_spomdp_model token show showN x) ->
       read_spomdp_model token read readN (firstn n (write_spomdp_model token show showN x)) dest = (dest, RFail)).
  Proof.
    repeat split.
    - intros x dest n Hwf HS HA Hn. unfold read_smodel. rewrite HS, HA.
      eapply exact_truncation; [apply exact_smodel; assumption | assumption].
    - intros x dest n Hwf HS HA Hn. unfold read_sexperience. rewrite HS, HA.
      eapply exact_truncation; [apply exact_sexperience; assumption | assumption].
    - intros x dest n Hwf HO HS HA Hn. unfold read_spomdp_model. rewrite HO, HS, HA.
      eapply exact_truncation; [apply exact_spomdp_model; assumption | assumption].
  Qed.
End TruncSparse.
