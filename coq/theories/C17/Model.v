(* C17/Model.v — token-level Gallina models of the stream writers/readers of
   src/Utils/IO.cpp, src/MDP/IO.cpp, src/POMDP/IO.cpp (+ include/AIToolbox/POMDP/IO.hpp).

   A stream is the list of its whitespace-separated tokens; a token list carries no trailing
   separator, so "the input ends right after the last token" (eofbit set by a successful
   extraction) is the ordinary case [rest = []]: an extraction that consumed the last token has
   succeeded, and only the next extraction fails.  Numbers are abstract: the Section
   variables [show]/[read] stand for `os << double` at precision max_digits10 and `is >> double`,
   [showN]/[readN] for `os << unsigned long` / `is >> size_t`.  A formatted extraction may stop in
   the middle of a token (`is >> size_t` on "1.5" yields 1 and leaves ".5"): [read]/[readN] return
   the value and the unconsumed rest of the token, which is pushed back on the stream.
   size_t / unsigned long are binary naturals [N]; sums of table entries wrap modulo 2^64.
   A failed stream is [RFail]; an escaping C++ exception is [RThrow].  Every reader builds its
   result in a temporary and the destination is replaced only at the commit point of the C++.
   No proofs in this file. *)
From Coq Require Import List Arith NArith QArith Bool.
Import ListNotations.

Definition mat := list (list Q).       (* Matrix2D, row-major: m[i][j] *)
Definition mat3 := list mat.           (* Matrix3D = std::vector<Matrix2D> *)
Definition tab := list (list N).       (* Table2D (unsigned long) *)
Definition tab3 := list tab.
Definition smat := list (nat * nat * Q).   (* SparseMatrix2D: stored entries (row, col, value) in
                                              storage order = rows ascending, columns ascending *)
Definition smat3 := list smat.
Definition stab := list (nat * nat * N).   (* SparseTable2D *)
Definition stab3 := list stab.

(* MDP::Model: transitions_[a](s,s1), rewards_(s,a) *)
Record mdp_model := { mS : nat; mA : nat; mDisc : Q; mT : mat3; mR : mat }.
(* MDP::SparseModel *)
Record smdp_model := { smS : nat; smA : nat; smDisc : Q; smT : smat3; smR : smat }.
(* MDP::Experience: visits_[a](s,s1), rewards_(s,a), M2s_(s,a); visitsSum_ is the derived view
   [visits_sum] below (class invariant kept by record/setVisitsTable/reset) *)
Record experience := { eS : nat; eA : nat; eTime : N; eVisits : tab3; eRew : mat; eM2 : mat }.
Record sexperience := { seS : nat; seA : nat; seTime : N; seVisits : stab3; seRew : smat; seM2 : smat }.
(* MDP::Policy: policy_(s,a) *)
Record mdp_policy := { pS : nat; pA : nat; pTable : mat }.
(* POMDP::Model<MDP::Model>: observations_[a](s1,o) *)
Record pomdp_model := { pmO : nat; pmM : mdp_model; pmObs : mat3 }.
Record spomdp_model := { spmO : nat; spmM : smdp_model; spmObs : smat3 }.
(* POMDP::VEntry / VList / ValueFunction / Policy *)
Record ventry := { vValues : list Q; vAction : N; vObs : list N }.
Definition vlist := list ventry.
Record pomdp_policy := { ppS : nat; ppA : nat; ppO : nat; ppH : nat; ppVF : list vlist }.

Inductive status := St_ok | St_fail | St_throw | St_fuel.

Section IO.
  Variable token : Type.
  Variable show : Q -> token.                          (* os << d, precision max_digits10 *)
  Variable read : token -> option (Q * option token).  (* is >> double *)
  Variable showN : N -> token.                         (* os << unsigned long *)
  Variable readN : token -> option (N * option token). (* is >> size_t / unsigned long *)
  Variable at_tok : token.                             (* "@" *)
  Variable split_at : token -> option (option token).  (* token starts with '@'? rest of it *)
  Variable tsize : token -> nat.                       (* number of characters of a token *)

  Definition stream := list token.
  (* characters left on the stream (whitespace not counted) *)
  Fixpoint stream_size (is : stream) : nat :=
    match is with [] => O | t :: rest => tsize t + stream_size rest end.

  Inductive rres (A : Type) :=
  | ROk (a : A) (rest : stream)
  | RFail              (* failbit set *)
  | RThrow             (* std::invalid_argument escaped *)
  | RFuel.             (* model ran out of fuel (unreachable: ProofsFuel.v) *)
  Arguments ROk {A}. Arguments RFail {A}. Arguments RThrow {A}. Arguments RFuel {A}.

  Definition bind {A B} (r : rres A) (f : A -> stream -> rres B) : rres B :=
    match r with ROk a rest => f a rest | RFail => RFail | RThrow => RThrow | RFuel => RFuel end.

  Definition pushback (o : option token) (is : stream) : stream :=
    match o with None => is | Some t => t :: is end.

  (* is >> double *)
  Definition get_num (is : stream) : rres Q :=
    match is with
    | [] => RFail
    | t :: rest => match read t with None => RFail | Some (q, lo) => ROk q (pushback lo rest) end
    end.

  (* is >> size_t *)
  Definition get_N (is : stream) : rres N :=
    match is with
    | [] => RFail
    | t :: rest => match readN t with None => RFail | Some (n, lo) => ROk n (pushback lo rest) end
    end.

  (* a counted loop filling a temporary container; the first failing extraction fails the stream
     (later iterations of the C++ loops are no-ops on a failed stream) *)
  Fixpoint rep {A} (n : nat) (p : stream -> rres A) (is : stream) : rres (list A) :=
    match n with
    | O => ROk [] is
    | S n' => bind (p is) (fun a is1 => bind (rep n' p is1) (fun l is2 => ROk (a :: l) is2))
    end.

  (* ---------------- src/Utils/IO.cpp : writers ---------------- *)

  (* src: Utils/IO.cpp:write(std::ostream&, const Matrix2D&) *)
  Definition write_mat (m : mat) : stream := flat_map (map show) m.
  (* src: Utils/IO.cpp:write(std::ostream&, const Matrix3D&) *)
  Definition write_mat3 (m : mat3) : stream := flat_map write_mat m.
  (* src: Utils/IO.cpp:write(std::ostream&, const Table2D&) *)
  Definition write_tab (t : tab) : stream := flat_map (map showN) t.
  (* src: Utils/IO.cpp:write(std::ostream&, const Table3D&) *)
  Definition write_tab3 (t : tab3) : stream := flat_map write_tab t.
  (* src: Utils/IO.cpp:write(std::ostream&, const SparseMatrix2D&) — count, then "r c v" *)
  Definition write_smat (m : smat) : stream :=
    showN (N.of_nat (length m)) ::
    flat_map (fun e => [showN (N.of_nat (fst (fst e))); showN (N.of_nat (snd (fst e))); show (snd e)]) m.
  Definition write_smat3 (m : smat3) : stream := flat_map write_smat m.
  (* src: Utils/IO.cpp:write(std::ostream&, const SparseTable2D&) *)
  Definition write_stab (m : stab) : stream :=
    showN (N.of_nat (length m)) ::
    flat_map (fun e => [showN (N.of_nat (fst (fst e))); showN (N.of_nat (snd (fst e))); showN (snd e)]) m.
  Definition write_stab3 (m : stab3) : stream := flat_map write_stab m.

  (* ---------------- src/Utils/IO.cpp : readers ----------------
     every reader takes the dimensions of the destination, fills a temporary `in`, and the
     caller-visible destination changes only under `if (is) m = std::move(in)` *)

  (* src: Utils/IO.cpp:read(std::istream&, Matrix2D&) — temporary part *)
  Definition parse_mat (rows cols : nat) (is : stream) : rres mat := rep rows (rep cols get_num) is.
  (* commit: if (is) m = std::move(in) *)
  Definition commit {A} (r : rres A) (dest : A) : A * rres A :=
    match r with ROk a rest => (a, r) | _ => (dest, r) end.
  Definition read_mat (rows cols : nat) (is : stream) (dest : mat) : mat * rres mat :=
    commit (parse_mat rows cols is) dest.

  (* src: Utils/IO.cpp:read(std::istream&, Table2D&) *)
  Definition parse_tab (rows cols : nat) (is : stream) : rres tab := rep rows (rep cols get_N) is.
  Definition read_tab (rows cols : nat) (is : stream) (dest : tab) : tab * rres tab :=
    commit (parse_tab rows cols is) dest.

  (* src: Utils/IO.cpp:read(std::istream&, Matrix3D&): each slice is read into a fresh inHelper
     through read(is, inHelper) and pushed on `in` *)
  Definition parse_mat3 (n rows cols : nat) (is : stream) : rres mat3 :=
    rep n (fun is' => snd (read_mat rows cols is' [])) is.
  Definition read_mat3 (n rows cols : nat) (is : stream) (dest : mat3) : mat3 * rres mat3 :=
    commit (parse_mat3 n rows cols is) dest.
  (* src: Utils/IO.cpp:read(std::istream&, Table3D&) *)
  Definition parse_tab3 (n rows cols : nat) (is : stream) : rres tab3 :=
    rep n (fun is' => snd (read_tab rows cols is' [])) is.
  Definition read_tab3 (n rows cols : nat) (is : stream) (dest : tab3) : tab3 * rres tab3 :=
    commit (parse_tab3 n rows cols is) dest.

  (* Eigen setFromTriplets: entries sorted by (row, col); duplicates are summed *)
  Definition key_lt (a b : nat * nat) : bool :=
    (fst a <? fst b) || ((fst a =? fst b) && (snd a <? snd b)).
  Definition key_eq (a b : nat * nat) : bool := (fst a =? fst b) && (snd a =? snd b).
  Fixpoint insert_trip {V} (add : V -> V -> V) (t : nat * nat * V) (l : list (nat * nat * V)) :=
    match l with
    | [] => [t]
    | e :: l' =>
      if key_eq (fst t) (fst e) then (fst e, add (snd e) (snd t)) :: l'
      else if key_lt (fst t) (fst e) then t :: l
      else e :: insert_trip add t l'
    end.
  Definition set_from_triplets {V} (add : V -> V -> V) (l : list (nat * nat * V)) :=
    fold_left (fun acc t => insert_trip add t acc) l [].

  Definition wrap64 (n : N) : N := N.modulo n 18446744073709551616%N.
  Definition addN64 (a b : N) : N := wrap64 (a + b).

  (* one "r c v" line with the index validation of the loop body *)
  Definition get_trip {V} (getv : stream -> rres V) (rows cols : nat) (is : stream) : rres (nat * nat * V) :=
    bind (get_N is) (fun r is1 => bind (get_N is1) (fun c is2 => bind (getv is2) (fun v is3 =>
      if (N.of_nat rows <=? r)%N then RFail           (* r >= m.rows(): setstate(failbit) *)
      else if (N.of_nat cols <=? c)%N then RFail      (* c >= m.cols() *)
      else ROk (N.to_nat r, N.to_nat c, v) is3))).

  (* src: Utils/IO.cpp:read(std::istream&, SparseMatrix2D&) / (…, SparseTable2D&) — temporary *)
  Definition parse_sparse {V} (getv : stream -> rres V) (rows cols : nat) (is : stream)
    : rres (list (nat * nat * V)) :=
    bind (get_N is) (fun toRead is1 =>
      if (N.of_nat (rows * cols) <? toRead)%N then RFail      (* too many entries *)
      else rep (N.to_nat toRead) (get_trip getv rows cols) is1).
  (* commit: if (is) m.setFromTriplets(begin(in), end(in)) *)
  Definition read_sparse {V} (add : V -> V -> V) (getv : stream -> rres V) (rows cols : nat)
             (is : stream) (dest : list (nat * nat * V)) : list (nat * nat * V) * rres (list (nat * nat * V)) :=
    match parse_sparse getv rows cols is with
    | ROk l rest => let m := set_from_triplets add l in (m, ROk m rest)
    | r => (dest, r)
    end.
  Definition read_smat := read_sparse Qplus get_num.
  (* SparseTable2D as repaired by fixes/C17-sparse-table-read-type.patch: `unsigned long v` *)
  Definition read_stab := read_sparse addN64 get_N.

  (* SparseTable2D reader as it stands: `double v; std::vector<Eigen::Triplet<double>> in;` — the
     count is extracted as a double and converted to unsigned long when it is stored
     (truncation toward zero; out-of-range conversions behave as on x86-64: modulo 2^64) *)
  Definition cast_u64 (q : Q) : N :=
    Z.to_N (Z.modulo (Z.quot (Qnum q) (Zpos (Qden q))) 18446744073709551616%Z).
  Definition read_stab_asis (rows cols : nat) (is : stream) (dest : stab) : stab * rres stab :=
    match parse_sparse get_num rows cols is with
    | ROk l rest =>
      let m := set_from_triplets addN64 (map (fun e => (fst e, cast_u64 (snd e))) l) in (m, ROk m rest)
    | RFail => (dest, RFail) | RThrow => (dest, RThrow) | RFuel => (dest, RFuel)
    end.

  (* src: Utils/IO.cpp:read(std::istream&, SparseMatrix3D&) / SparseTable3D *)
  Definition parse_smat3 (n rows cols : nat) (is : stream) : rres smat3 :=
    rep n (fun is' => snd (read_smat rows cols is' [])) is.
  Definition parse_stab3_with (rd : nat -> nat -> stream -> stab -> stab * rres stab)
             (n rows cols : nat) (is : stream) : rres stab3 :=
    rep n (fun is' => snd (rd rows cols is' [])) is.
  Definition parse_stab3 := parse_stab3_with read_stab.

  (* ---------------- validation used by the readers ---------------- *)
  Fixpoint qsum (l : list Q) : Q := match l with [] => 0 | x :: t => x + qsum t end.
  Definition qabs (x : Q) : Q := if Qle_bool 0 x then x else - x.
  Definition tolS : Q := 1 # 1000000.
  (* src: Utils/Core.hpp:checkDifferentSmall(a, 1.0) negated *)
  Definition near_one (x : Q) : bool := Qle_bool (qabs (x - 1)) tolS.
  (* src: Utils/Probability.cpp:isProbability(const Matrix2D&) — row.minCoeff() < 0 || sum != 1 *)
  Definition row_is_prob (r : list Q) : bool := forallb (fun x => Qle_bool 0 x) r && near_one (qsum r).
  Definition mat_is_prob (m : mat) : bool := forallb row_is_prob m.
  Definition mat3_is_prob (m : mat3) : bool := forallb mat_is_prob m.
  (* src: Utils/Probability.cpp:isProbability(const SparseMatrix2D&) — sum and |.|-sum near 1 *)
  Definition srow (m : smat) (r : nat) : list Q :=
    map snd (filter (fun e => fst (fst e) =? r) m).
  Definition smat_is_prob (rows : nat) (m : smat) : bool :=
    forallb (fun r => near_one (qsum (srow m r)) && near_one (qsum (map qabs (srow m r)))) (seq 0 rows).
  Definition smat3_is_prob (rows : nat) (m : smat3) : bool := forallb (smat_is_prob rows) m.
  (* src: MDP/Model.cpp:setDiscount — throws unless 0 < d <= 1 *)
  Definition discount_ok (d : Q) : bool := negb (Qle_bool d 0) && Qle_bool d 1.

  (* ---------------- src/MDP/IO.cpp ---------------- *)

  (* src: MDP/IO.cpp:operator<<(std::ostream&, const Model&) *)
  Definition write_model (m : mdp_model) : stream :=
    show (mDisc m) :: write_mat3 (mT m) ++ write_mat (mR m).

  (* src: MDP/IO.cpp:operator>>(std::istream&, Model&) — builds `in`; no access to m *)
  Definition parse_model (S A : nat) (is : stream) : rres mdp_model :=
    bind (get_num is) (fun d is1 =>
      if negb (discount_ok d) then RThrow               (* in.setDiscount(discount) throws *)
      else bind (parse_mat3 A S S is1) (fun t is2 =>
        if negb (mat3_is_prob t) then RFail             (* setTransitionFunction threw: failbit *)
        else bind (parse_mat S A is2) (fun r is3 =>
          ROk {| mS := S; mA := A; mDisc := d; mT := t; mR := r |} is3))).
  (* m = std::move(in) is the last statement *)
  Definition read_model (is : stream) (dest : mdp_model) : mdp_model * rres mdp_model :=
    commit (parse_model (mS dest) (mA dest) is) dest.

  (* src: MDP/IO.cpp:operator<<(std::ostream&, const SparseModel&) *)
  Definition write_smodel (m : smdp_model) : stream :=
    show (smDisc m) :: write_smat3 (smT m) ++ write_smat (smR m).
  (* src: MDP/IO.cpp:operator>>(std::istream&, SparseModel&) *)
  Definition parse_smodel (S A : nat) (is : stream) : rres smdp_model :=
    bind (get_num is) (fun d is1 =>
      if negb (discount_ok d) then RThrow
      else bind (parse_smat3 A S S is1) (fun t is2 =>
        if negb (smat3_is_prob S t) then RFail
        else bind (snd (read_smat S A is2 [])) (fun r is3 =>
          ROk {| smS := S; smA := A; smDisc := d; smT := t; smR := r |} is3))).
  Definition read_smodel (is : stream) (dest : smdp_model) : smdp_model * rres smdp_model :=
    commit (parse_smodel (smS dest) (smA dest) is) dest.

  (* src: MDP/IO.cpp:operator<<(std::ostream&, const Experience&) *)
  Definition write_experience (e : experience) : stream :=
    showN (eTime e) :: write_tab3 (eVisits e) ++ write_mat (eRew e) ++ write_mat (eM2 e).
  (* src: MDP/IO.cpp:operator>>(std::istream&, Experience&): a failed `is >> e.timesteps_` is only
     logged, but the following read(is, visits) then returns the failed stream *)
  Definition parse_experience (S A : nat) (is : stream) : rres experience :=
    bind (get_N is) (fun t is1 =>
      bind (parse_tab3 A S S is1) (fun v is2 =>
        bind (parse_mat S A is2) (fun r is3 =>
          bind (parse_mat S A is3) (fun m2 is4 =>
            ROk {| eS := S; eA := A; eTime := t; eVisits := v; eRew := r; eM2 := m2 |} is4)))).
  Definition read_experience (is : stream) (dest : experience) : experience * rres experience :=
    commit (parse_experience (eS dest) (eA dest) is) dest.
  (* src: MDP/Experience.cpp:setVisitsTable — visitsSum_(s,a) = visits_[a].row(s).sum() (mod 2^64) *)
  Definition visits_sum (S A : nat) (v : tab3) : tab :=
    map (fun s => map (fun a => fold_left addN64 (nth s (nth a v []) []) 0%N) (seq 0 A)) (seq 0 S).

  (* src: MDP/IO.cpp:operator<< / operator>> for SparseExperience *)
  Definition write_sexperience (e : sexperience) : stream :=
    showN (seTime e) :: write_stab3 (seVisits e) ++ write_smat (seRew e) ++ write_smat (seM2 e).
  Definition parse_sexperience_with (rd : nat -> nat -> stream -> stab -> stab * rres stab)
             (S A : nat) (is : stream) : rres sexperience :=
    bind (get_N is) (fun t is1 =>
      bind (parse_stab3_with rd A S S is1) (fun v is2 =>
        bind (snd (read_smat S A is2 [])) (fun r is3 =>
          bind (snd (read_smat S A is3 [])) (fun m2 is4 =>
            ROk {| seS := S; seA := A; seTime := t; seVisits := v; seRew := r; seM2 := m2 |} is4)))).
  Definition parse_sexperience := parse_sexperience_with read_stab.
  Definition read_sexperience (is : stream) (dest : sexperience) : sexperience * rres sexperience :=
    commit (parse_sexperience (seS dest) (seA dest) is) dest.
  (* the reader with read(SparseTable2D) as it stands (used to recognise the known defect) *)
  Definition read_sexperience_asis (is : stream) (dest : sexperience) : sexperience * rres sexperience :=
    commit (parse_sexperience_with read_stab_asis (seS dest) (seA dest) is) dest.
  Definition svisits_sum (S A : nat) (v : stab3) : tab :=
    map (fun s => map (fun a =>
      fold_left addN64 (map snd (filter (fun e => fst (fst e) =? s) (nth a v []))) 0%N) (seq 0 A)) (seq 0 S).

  (* src: MDP/IO.cpp:operator<<(std::ostream&, const PolicyInterface&) *)
  Definition write_mdp_policy (p : mdp_policy) : stream := write_mat (pTable p).
  (* src: MDP/IO.cpp:operator>>(std::istream&, Policy&) — p.policy_ = std::move(pMatrix) last *)
  Definition parse_mdp_policy (S A : nat) (is : stream) : rres mdp_policy :=
    bind (parse_mat S A is) (fun m is1 =>
      if negb (mat_is_prob m) then RFail
      else ROk {| pS := S; pA := A; pTable := m |} is1).
  Definition read_mdp_policy (is : stream) (dest : mdp_policy) : mdp_policy * rres mdp_policy :=
    commit (parse_mdp_policy (pS dest) (pA dest) is) dest.

  (* ---------------- POMDP/IO.hpp, src/POMDP/IO.cpp ---------------- *)

  (* src: POMDP/IO.hpp:operator<<(std::ostream&, const M&) [IsModelEigen] *)
  Definition write_pomdp_model (m : pomdp_model) : stream := write_model (pmM m) ++ write_mat3 (pmObs m).
  (* src: POMDP/IO.hpp:operator>>(std::istream&, Model<M>&): MDP::operator>>(is, in) commits into
     the temporary `in`; m = std::move(in) is the last statement *)
  Definition parse_pomdp_model (O S A : nat) (is : stream) : rres pomdp_model :=
    bind (parse_model S A is) (fun mdp is1 =>
      bind (parse_mat3 A S O is1) (fun ob is2 =>
        if negb (mat3_is_prob ob) then RFail
        else ROk {| pmO := O; pmM := mdp; pmObs := ob |} is2)).
  Definition read_pomdp_model (is : stream) (dest : pomdp_model) : pomdp_model * rres pomdp_model :=
    commit (parse_pomdp_model (pmO dest) (mS (pmM dest)) (mA (pmM dest)) is) dest.

  Definition write_spomdp_model (m : spomdp_model) : stream := write_smodel (spmM m) ++ write_smat3 (spmObs m).
  (* src: POMDP/IO.hpp:operator>>(std::istream&, SparseModel<M>&) *)
  Definition parse_spomdp_model (O S A : nat) (is : stream) : rres spomdp_model :=
    bind (parse_smodel S A is) (fun mdp is1 =>
      bind (parse_smat3 A S O is1) (fun ob is2 =>
        if negb (smat3_is_prob S ob) then RFail
        else ROk {| spmO := O; spmM := mdp; spmObs := ob |} is2)).
  Definition read_spomdp_model (is : stream) (dest : spomdp_model) : spomdp_model * rres spomdp_model :=
    commit (parse_spomdp_model (spmO dest) (smS (spmM dest)) (smA (spmM dest)) is) dest.

  (* one VEntry line: values, action, observations *)
  Definition write_ventry (shw : Q -> token) (e : ventry) : stream :=
    map shw (vValues e) ++ showN (vAction e) :: map showN (vObs e).
  (* src: POMDP/IO.cpp:operator<<(std::ostream&, const Policy&), parametrised by the number
     formatter used for `vv.values.transpose()`: the repaired writer uses [show]
     (fixes/C17-pomdp-policy-precision.patch); the writer as it stands uses the stream's default
     6-digit precision *)
  Definition write_pomdp_policy_with (shw : Q -> token) (p : pomdp_policy) : stream :=
    flat_map (fun vl => flat_map (write_ventry shw) vl ++ [at_tok]) (tl (ppVF p)) ++ [at_tok].
  Definition write_pomdp_policy := write_pomdp_policy_with show.

  (* src: POMDP/IO.cpp:checkRemoveAtSign — (is >> std::ws).peek() == '@' ? consume it *)
  Definition check_at (is : stream) : bool * stream :=
    match is with
    | [] => (false, [])
    | t :: rest => match split_at t with None => (false, is) | Some lo => (true, pushback lo rest) end
    end.

  (* observation id with the link check `o >= oldH && oldH` *)
  Definition get_obs (oldH : nat) (is : stream) : rres N :=
    bind (get_N is) (fun o is1 =>
      if (N.of_nat oldH <=? o)%N && negb (oldH =? 0) then RFail else ROk o is1).

  (* src: POMDP/Utils.cpp:makeValueFunction — the horizon-0 entry *)
  Definition h0_entry (S : nat) : ventry := {| vValues := repeat 0 S; vAction := 0%N; vObs := [] |}.

  (* src: POMDP/IO.cpp:operator>>(std::istream&, Policy&) — one loop body after the separator
     handling: values, action (< A), observation links; any failure is `goto failure` *)
  Definition parse_ventry (S A O oldH : nat) (is : stream) : rres ventry :=
    bind (rep S get_num is) (fun values is1 =>
      bind (get_N is1) (fun action is2 =>
        if (N.of_nat A <=? action)%N then RFail
        else bind (rep O (get_obs oldH) is2) (fun obs is3 =>
          ROk {| vValues := values; vAction := action; vObs := obs |} is3))).

  (* src: POMDP/IO.cpp:operator>>(std::istream&, Policy&) — the while(true) loop.
     vf = prev ++ [cur] (cur = vf.back()).  Every iteration extracts the action, hence consumes at
     least one character: fuel = S (characters on the stream) is never exhausted
     (ProofsFuel.v: pomdp_policy_reader_terminates). *)
  Fixpoint pp_loop (fuel : nat) (S A O : nat) (is : stream) (prev : list vlist) (cur : vlist)
           (oldH : nat) (newHorizon : bool) : rres (list vlist) :=
    match fuel with
    | O => RFuel
    | Datatypes.S fuel' =>
      let '(fin, is0, prev0, cur0, oldH0) :=
        if newHorizon then
          let '(b, is') := check_at is in
          if b then (true, is', prev, cur, oldH)                   (* second '@': break *)
          else (false, is', prev ++ [cur], [], length cur)         (* oldH = vf.back().size(); vf.emplace_back() *)
        else (false, is, prev, cur, oldH) in
      if fin then ROk (prev0 ++ [cur0]) is0
      else bind (parse_ventry S A O oldH0 is0) (fun e is3 =>
             let '(b, is4) := check_at is3 in                      (* '@' after the entry: new horizon *)
             pp_loop fuel' S A O is4 prev0 (cur0 ++ [e]) oldH0 b)
    end.

  Definition parse_pomdp_policy (S A O : nat) (is : stream) : rres pomdp_policy :=
    bind (pp_loop (Datatypes.S (stream_size is)) S A O is [] [h0_entry S] 1 true) (fun vf rest =>
      ROk {| ppS := S; ppA := A; ppO := O; ppH := length vf - 1; ppVF := vf |} rest).
  (* p.H = …; p.policy_ = std::move(vf) only after the loop; `failure:` does not touch p *)
  Definition read_pomdp_policy (is : stream) (dest : pomdp_policy) : pomdp_policy * rres pomdp_policy :=
    commit (parse_pomdp_policy (ppS dest) (ppA dest) (ppO dest) is) dest.

  Definition status_of {A} (r : rres A) : status :=
    match r with ROk _ _ => St_ok | RFail => St_fail | RThrow => St_throw | RFuel => St_fuel end.
End IO.

Arguments ROk {token A}. Arguments RFail {token A}. Arguments RThrow {token A}. Arguments RFuel {token A}.
Arguments status_of {token A}. Arguments commit {token A}. Arguments bind {token A B}.
Arguments rep {token A}. Arguments pushback {token}.
