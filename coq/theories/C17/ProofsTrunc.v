(* C17/ProofsTrunc.v — every-truncation-point theorems for the dense kinds: a written file cut
   after any number n < length of its tokens fails to load (so the destination is unchanged).
   [exact p w a]: parser p reads a from w (whatever follows) and fails on every strict prefix. *)
From Coq Require Import List Arith NArith QArith Bool Lia.
From AIT Require Import C17.Model C17.Spec C17.Proofs.
Import ListNotations.
Local Open Scope nat_scope.

Section Trunc.
  Variable token : Type.
  Variable show : Q -> token.
  Variable read : token -> option (Q * option token).
  Variable showN : N -> token.
  Variable readN : token -> option (N * option token).
  Variable dbl : Q -> Prop.
  Variable u64 : N -> Prop.
  Hypothesis H_digits17 : forall d, dbl d -> read (show d) = Some (d, None).
  Hypothesis H_showN : forall n, u64 n -> readN (showN n) = Some (n, None).

  Definition exact {A} (p : list token -> rres token A) (w : list token) (a : A) : Prop :=
    (forall rest, p (w ++ rest) = ROk a rest) /\ (forall n, n < length w -> p (firstn n w) = RFail).

  Lemma exact_ret : forall A (a : A), exact (fun is => ROk a is) [] a.
  Proof. intros. split; [reflexivity | intros n H; inversion H]. Qed.

  Lemma exact_bind : forall A B (p1 : list token -> rres token A) (f : A -> list token -> rres token B) w1 w2 a b,
    exact p1 w1 a -> exact (f a) w2 b -> exact (fun is => bind (p1 is) f) (w1 ++ w2) b.
  Proof.
    intros A B p1 f w1 w2 a b [H1 T1] [H2 T2]. split.
    - intros rest. rewrite <- app_assoc, H1. cbn [bind]. apply H2.
    - intros n Hn. rewrite firstn_app. destruct (Nat.lt_ge_cases n (length w1)) as [Hlt|Hge].
      + replace (n - length w1) with 0 by lia. cbn [firstn]. rewrite app_nil_r.
        rewrite T1 by assumption. reflexivity.
      + rewrite firstn_all2 by assumption. rewrite H1. cbn [bind]. apply T2.
        rewrite app_length in Hn. lia.
  Qed.

  Lemma exact_ext : forall A (p q : list token -> rres token A) w a,
    (forall is, p is = q is) -> exact p w a -> exact q w a.
  Proof. intros A p q w a E [H T]. split; intros; rewrite <- E; auto. Qed.

  Lemma exact_rep : forall A (P : A -> Prop) (w : A -> list token) (p : list token -> rres token A),
    (forall a, P a -> exact p (w a) a) ->
    forall l, Forall P l -> exact (rep (length l) p) (flat_map w l) l.
  Proof.
    intros A P w p Hp. induction l as [|a l IH]; intros HF.
    - apply exact_ret.
    - inversion HF; subst. cbn [length flat_map].
      apply exact_ext with (p := fun is => bind (p is) (fun a is1 => bind (rep (length l) p is1) (fun l is2 => ROk (a :: l) is2)));
        [reflexivity|].
      apply exact_bind with (a := a); [auto|].
      rewrite <- (app_nil_r (flat_map w l)).
      apply exact_bind with (a := l); [auto | apply exact_ret].
  Qed.

  Lemma exact_get_num : forall d, dbl d -> exact (Model.get_num token read) [show d] d.
  Proof.
    intros d Hd. split.
    - intros rest. apply (get_num_show token show read dbl H_digits17); assumption.
    - intros n Hn. cbn [length] in Hn. replace n with 0 by lia. reflexivity.
  Qed.

  Lemma exact_get_N : forall k, u64 k -> exact (Model.get_N token readN) [showN k] k.
  Proof.
    intros k Hk. split.
    - intros rest. apply (get_N_show token showN readN u64 H_showN); assumption.
    - intros n Hn. cbn [length] in Hn. replace n with 0 by lia. reflexivity.
  Qed.

  Lemma flat_map_singleton : forall A (sh : A -> token) l, flat_map (fun a => [sh a]) l = map sh l.
  Proof. induction l; cbn; congruence. Qed.

  Lemma exact_rows : forall A (P : A -> Prop) (sh : A -> token) (p : list token -> rres token A),
    (forall a, P a -> exact p [sh a] a) ->
    forall r c (m : list (list A)), shape2 r c m -> all2 P m ->
      exact (rep r (rep c p)) (flat_map (map sh) m) m.
  Proof.
    intros A P sh p Hp r c m [Hr Hc] Hall. subst r.
    apply exact_rep with (P := fun row => length row = c /\ Forall P row).
    - intros row [Hl HP]. subst c. rewrite <- flat_map_singleton.
      apply exact_rep with (P := P); assumption.
    - unfold all2 in Hall. rewrite Forall_forall in *. intros row Hin. split; auto.
  Qed.

  Lemma exact_mat : forall r c m, shape2 r c m -> all2 dbl m ->
    exact (parse_mat token read r c) (write_mat token show m) m.
  Proof. intros. apply exact_rows with (P := dbl); auto. apply exact_get_num. Qed.

  Lemma exact_tab : forall r c m, shape2 r c m -> all2 u64 m ->
    exact (parse_tab token readN r c) (write_tab token showN m) m.
  Proof. intros. apply exact_rows with (P := u64); auto. apply exact_get_N. Qed.

  Lemma exact_mat3 : forall n r c m, shape3 n r c m -> all3 dbl m ->
    exact (parse_mat3 token read n r c) (write_mat3 token show m) m.
  Proof.
    intros n r c m [Hn Hs] Hall. subst n. unfold parse_mat3, write_mat3.
    apply exact_rep with (P := fun x => shape2 r c x /\ all2 dbl x).
    - intros a [Hsh Ha]. eapply exact_ext; [|apply exact_mat; eassumption].
      intros is. unfold read_mat. rewrite commit_status. reflexivity.
    - unfold all3 in Hall. rewrite Forall_forall in *. intros x Hin. split; auto.
  Qed.

  Lemma exact_tab3 : forall n r c m, shape3 n r c m -> all3 u64 m ->
    exact (parse_tab3 token readN n r c) (write_tab3 token showN m) m.
  Proof.
    intros n r c m [Hn Hs] Hall. subst n. unfold parse_tab3, write_tab3.
    apply exact_rep with (P := fun x => shape2 r c x /\ all2 u64 x).
    - intros a [Hsh Ha]. eapply exact_ext; [|apply exact_tab; eassumption].
      intros is. unfold read_tab. rewrite commit_status. reflexivity.
    - unfold all3 in Hall. rewrite Forall_forall in *. intros x Hin. split; auto.
  Qed.

  (* ---------------- the four dense kinds ---------------- *)
  Lemma exact_model : forall x, wf_model dbl x ->
    exact (parse_model token read (mS x) (mA x)) (write_model token show x) x.
  Proof.
    intros x (HT & HR & HaT & HaR & Hd & Hdisc & Hprob).
    unfold parse_model, write_model.
    change (show (mDisc x) :: write_mat3 token show (mT x) ++ write_mat token show (mR x))
      with ([show (mDisc x)] ++ write_mat3 token show (mT x) ++ write_mat token show (mR x)).
    apply exact_bind with (a := mDisc x); [apply exact_get_num; assumption|].
    rewrite Hdisc. cbn [negb].
    apply exact_bind with (a := mT x); [apply exact_mat3; assumption|].
    rewrite Hprob. cbn [negb].
    rewrite <- (app_nil_r (write_mat token show (mR x))).
    apply exact_bind with (a := mR x); [apply exact_mat; assumption|].
    destruct x; apply exact_ret.
  Qed.

  Lemma exact_experience : forall x, wf_experience dbl u64 x ->
    exact (parse_experience token read readN (eS x) (eA x)) (write_experience token show showN x) x.
  Proof.
    intros x (HV & HR & HM & Ht & HaV & HaR & HaM).
    unfold parse_experience, write_experience.
    change (showN (eTime x) :: write_tab3 token showN (eVisits x) ++ write_mat token show (eRew x) ++ write_mat token show (eM2 x))
      with ([showN (eTime x)] ++ write_tab3 token showN (eVisits x) ++ write_mat token show (eRew x) ++ write_mat token show (eM2 x)).
    apply exact_bind with (a := eTime x); [apply exact_get_N; assumption|].
    apply exact_bind with (a := eVisits x); [apply exact_tab3; assumption|].
    apply exact_bind with (a := eRew x); [apply exact_mat; assumption|].
    rewrite <- (app_nil_r (write_mat token show (eM2 x))).
    apply exact_bind with (a := eM2 x); [apply exact_mat; assumption|].
    destruct x; apply exact_ret.
  Qed.

  Lemma exact_mdp_policy : forall x, wf_mdp_policy dbl x ->
    exact (parse_mdp_policy token read (pS x) (pA x)) (write_mdp_policy token show x) x.
  Proof.
    intros x (Hs & Ha & Hp). unfold parse_mdp_policy, write_mdp_policy.
    rewrite <- (app_nil_r (write_mat token show (pTable x))).
    apply exact_bind with (a := pTable x); [apply exact_mat; assumption|].
    rewrite Hp. cbn [negb]. destruct x; apply exact_ret.
  Qed.

  Lemma exact_pomdp_model : forall x, wf_pomdp_model dbl x ->
    exact (parse_pomdp_model token read (pmO x) (mS (pmM x)) (mA (pmM x))) (write_pomdp_model token show x) x.
  Proof.
    intros x (Hm & Hs & Ha & Hp). unfold parse_pomdp_model, write_pomdp_model.
    apply exact_bind with (a := pmM x); [apply exact_model; assumption|].
    rewrite <- (app_nil_r (write_mat3 token show (pmObs x))).
    apply exact_bind with (a := pmObs x); [apply exact_mat3; assumption|].
    rewrite Hp. cbn [negb]. destruct x; apply exact_ret.
  Qed.

  (* truncation at token n of the written file: the load fails and returns the destination *)
  Lemma exact_truncation : forall A (p : list token -> rres token A) w a (dest : A) n,
    exact p w a -> n < length w -> commit (p (firstn n w)) dest = (dest, RFail).
  Proof. intros A p w a dest n [_ T] Hn. rewrite T by assumption. reflexivity. Qed.

  Lemma truncation_fails_lemma :
    (forall x dest n, wf_model dbl x -> mS dest = mS x -> mA dest = mA x ->
       n < length (write_model token show x) ->
       read_model token read (firstn n (write_model token show x)) dest = (dest, RFail)) /\
    (forall x dest n, wf_experience dbl u64 x -> eS dest = eS x -> eA dest = eA x ->
       n < length (write_experience token show showN x) ->
       read_experience token read readN (firstn n (write_experience token show showN x)) dest = (dest, RFail)) /\
    (forall x dest n, wf_mdp_policy dbl x -> pS dest = pS x -> pA dest = pA x ->
       n < length (write_mdp_policy token show x) ->
       read_mdp_policy token read (firstn n (write_mdp_policy token show x)) dest = (dest, RFail)) /\
    (forall x dest n, wf_pomdp_model dbl x ->
       pmO dest = pmO x -> mS (pmM dest) = mS (pmM x) -> mA (pmM dest) = mA (pmM x) ->
       n < length (write_pomdp_model token show x) ->
       read_pomdp_model token read (firstn n (write_pomdp_model token show x)) dest = (dest, RFail)).
  Proof.
    repeat split.
    - intros x dest n Hwf HS HA Hn. unfold read_model. rewrite HS, HA.
      eapply exact_truncation; [apply exact_model; assumption | assumption].
    - intros x dest n Hwf HS HA Hn. unfold read_experience. rewrite HS, HA.
      eapply exact_truncation; [apply exact_experience; assumption | assumption].
    - intros x dest n Hwf HS HA Hn. unfold read_mdp_policy. rewrite HS, HA.
      eapply exact_truncation; [apply exact_mdp_policy; assumption | assumption].
    - intros x dest n Hwf HO HS HA Hn. unfold read_pomdp_model. rewrite HO, HS, HA.
      eapply exact_truncation; [apply exact_pomdp_model; assumption | assumption].
  Qed.
End Trunc.
