(* C17/Proofs.v — lemmas about the token-level readers/writers of C17/Model.v. *)
From Coq Require Import List Arith NArith QArith Bool Lia.
From AIT Require Import C17.Model C17.Spec.
Import ListNotations.
Local Open Scope nat_scope.

(* ------------------------------------------------------------------------------------------ *)
(* Failure atomicity: every top-level reader is [commit (parse … dims-of-dest … toks) dest]    *)
Section Atomic.
  Variable token : Type.

  Lemma commit_atomic : forall A (r : rres token A) (dest : A),
    status_of r <> St_ok -> fst (commit r dest) = dest.
  Proof. intros A r dest H. destruct r; cbn in *; congruence. Qed.

  Lemma commit_status : forall A (r : rres token A) (dest : A), snd (commit r dest) = r.
  Proof. intros A r dest. destruct r; reflexivity. Qed.

  Lemma commit_load_atomic : forall A (r : rres token A) (dest : A),
    status_of r <> St_fuel ->
    load_atomic dest (fst (commit r dest)) (status_of (snd (commit r dest))).
  Proof.
    intros A r dest H. rewrite commit_status. unfold load_atomic.
    destruct r; cbn in *; auto; congruence.
  Qed.
End Atomic.

(* ------------------------------------------------------------------------------------------ *)
Section RoundTrip.
  Variable token : Type.
  Variable show : Q -> token.
  Variable read : token -> option (Q * option token).
  Variable showN : N -> token.
  Variable readN : token -> option (N * option token).
  Variable dbl : Q -> Prop.
  Variable u64 : N -> Prop.
  (* the "17 significant digits suffice" fact, and its integer counterpart *)
  Hypothesis H_digits17 : forall d, dbl d -> read (show d) = Some (d, None).
  Hypothesis H_showN : forall n, u64 n -> readN (showN n) = Some (n, None).

  Notation get_num := (get_num token read).
  Notation get_N := (get_N token readN).

  Lemma get_num_show : forall d rest, dbl d -> get_num (show d :: rest) = ROk d rest.
  Proof. intros d rest H. unfold Model.get_num. rewrite H_digits17 by assumption. reflexivity. Qed.

  Lemma get_N_show : forall n rest, u64 n -> get_N (showN n :: rest) = ROk n rest.
  Proof. intros n rest H. unfold Model.get_N. rewrite H_showN by assumption. reflexivity. Qed.

  (* a counted loop reads back what a flat_map wrote, element by element *)
  Lemma rep_roundtrip : forall A (P : A -> Prop) (w : A -> list token) (p : list token -> rres token A),
    (forall a rest, P a -> p (w a ++ rest) = ROk a rest) ->
    forall l rest, Forall P l -> rep (length l) p (flat_map w l ++ rest) = ROk l rest.
  Proof.
    intros A P w p Hp. induction l as [|a l IH]; intros rest HF.
    - reflexivity.
    - inversion HF; subst. cbn [length flat_map rep]. rewrite <- app_assoc.
      rewrite Hp by assumption. cbn [bind]. rewrite IH by assumption. reflexivity.
  Qed.

  Lemma rep_map_roundtrip : forall A (P : A -> Prop) (sh : A -> token) (p : list token -> rres token A),
    (forall a rest, P a -> p (sh a :: rest) = ROk a rest) ->
    forall l rest, Forall P l -> rep (length l) p (map sh l ++ rest) = ROk l rest.
  Proof.
    intros A P sh p Hp. induction l as [|a l IH]; intros rest HF.
    - reflexivity.
    - inversion HF; subst. cbn [length map rep app].
      rewrite Hp by assumption. cbn [bind]. rewrite IH by assumption. reflexivity.
  Qed.

  (* rows of a matrix / table *)
  Lemma rows_roundtrip : forall A (P : A -> Prop) (sh : A -> token) (p : list token -> rres token A),
    (forall a rest, P a -> p (sh a :: rest) = ROk a rest) ->
    forall r c (m : list (list A)) rest, shape2 r c m -> all2 P m ->
      rep r (rep c p) (flat_map (map sh) m ++ rest) = ROk m rest.
  Proof.
    intros A P sh p Hp r c m rest [Hr Hc] Hall. subst r.
    apply rep_roundtrip with (P := fun row => length row = c /\ Forall P row).
    - intros row rest' [Hl HP]. subst c. apply rep_map_roundtrip with (P := P); assumption.
    - unfold all2 in Hall. rewrite Forall_forall in *. intros row Hin. split; auto.
  Qed.

  Lemma parse_mat_roundtrip : forall r c m rest, shape2 r c m -> all2 dbl m ->
    parse_mat token read r c (write_mat token show m ++ rest) = ROk m rest.
  Proof.
    intros. unfold parse_mat, write_mat. apply rows_roundtrip with (P := dbl); auto.
    intros; apply get_num_show; assumption.
  Qed.

  Lemma parse_tab_roundtrip : forall r c m rest, shape2 r c m -> all2 u64 m ->
    parse_tab token readN r c (write_tab token showN m ++ rest) = ROk m rest.
  Proof.
    intros. unfold parse_tab, write_tab. apply rows_roundtrip with (P := u64); auto.
    intros; apply get_N_show; assumption.
  Qed.

  Lemma parse_mat3_roundtrip : forall n r c m rest, shape3 n r c m -> all3 dbl m ->
    parse_mat3 token read n r c (write_mat3 token show m ++ rest) = ROk m rest.
  Proof.
    intros n r c m rest [Hn Hs] Hall. subst n. unfold parse_mat3, write_mat3.
    apply rep_roundtrip with (P := fun x => shape2 r c x /\ all2 dbl x).
    - intros a rest' [Hsh Ha]. unfold read_mat. rewrite commit_status.
      apply parse_mat_roundtrip; assumption.
    - unfold all3 in Hall. rewrite Forall_forall in *. intros x Hin. split; auto.
  Qed.

  Lemma parse_tab3_roundtrip : forall n r c m rest, shape3 n r c m -> all3 u64 m ->
    parse_tab3 token readN n r c (write_tab3 token showN m ++ rest) = ROk m rest.
  Proof.
    intros n r c m rest [Hn Hs] Hall. subst n. unfold parse_tab3, write_tab3.
    apply rep_roundtrip with (P := fun x => shape2 r c x /\ all2 u64 x).
    - intros a rest' [Hsh Ha]. unfold read_tab. rewrite commit_status.
      apply parse_tab_roundtrip; assumption.
    - unfold all3 in Hall. rewrite Forall_forall in *. intros x Hin. split; auto.
  Qed.

  (* ---------------- MDP::Model ---------------- *)
  Lemma parse_model_roundtrip : forall x rest, wf_model dbl x ->
    parse_model token read (mS x) (mA x) (write_model token show x ++ rest) = ROk x rest.
  Proof.
    intros x rest (HT & HR & HaT & HaR & Hd & Hdisc & Hprob).
    unfold parse_model, write_model. cbn [app].
    rewrite get_num_show by assumption. cbn [bind]. rewrite Hdisc. cbn [negb].
    rewrite <- app_assoc. rewrite parse_mat3_roundtrip by assumption. cbn [bind].
    rewrite Hprob. cbn [negb]. rewrite parse_mat_roundtrip by assumption. cbn [bind].
    destruct x; reflexivity.
  Qed.

  Lemma roundtrip_model_lemma : forall x dest, wf_model dbl x -> mS dest = mS x -> mA dest = mA x ->
    read_model token read (write_model token show x) dest = (x, ROk x []).
  Proof.
    intros x dest Hwf HS HA. unfold read_model. rewrite HS, HA.
    rewrite <- (app_nil_r (write_model token show x)).
    rewrite parse_model_roundtrip by assumption. reflexivity.
  Qed.

  (* whatever follows the written text — nothing at all (the stream ends right after the last
     token, no trailing separator) or further data — the object is read back and the rest is left *)
  Lemma roundtrip_model_suffix_lemma : forall x dest rest, wf_model dbl x -> mS dest = mS x -> mA dest = mA x ->
    read_model token read (write_model token show x ++ rest) dest = (x, ROk x rest).
  Proof.
    intros x dest rest Hwf HS HA. unfold read_model. rewrite HS, HA.
    rewrite parse_model_roundtrip by assumption. reflexivity.
  Qed.

  (* ---------------- MDP::Experience ---------------- *)
  Lemma roundtrip_experience_lemma : forall x dest, wf_experience dbl u64 x ->
    eS dest = eS x -> eA dest = eA x ->
    read_experience token read readN (write_experience token show showN x) dest = (x, ROk x []).
  Proof.
    intros x dest (HV & HR & HM & Ht & HaV & HaR & HaM) HS HA.
    unfold read_experience, parse_experience, write_experience. rewrite HS, HA.
    rewrite get_N_show by assumption. cbn [bind].
    rewrite parse_tab3_roundtrip by assumption. cbn [bind].
    rewrite parse_mat_roundtrip by assumption. cbn [bind].
    rewrite <- (app_nil_r (write_mat token show (eM2 x))).
    rewrite parse_mat_roundtrip by assumption. cbn [bind commit].
    destruct x; reflexivity.
  Qed.

  (* ---------------- MDP::Policy ---------------- *)
  Lemma roundtrip_mdp_policy_lemma : forall x dest, wf_mdp_policy dbl x ->
    pS dest = pS x -> pA dest = pA x ->
    read_mdp_policy token read (write_mdp_policy token show x) dest = (x, ROk x []).
  Proof.
    intros x dest (Hs & Ha & Hp) HS HA.
    unfold read_mdp_policy, parse_mdp_policy, write_mdp_policy. rewrite HS, HA.
    rewrite <- (app_nil_r (write_mat token show (pTable x))).
    rewrite parse_mat_roundtrip by assumption. cbn [bind]. rewrite Hp. cbn [negb commit].
    destruct x; reflexivity.
  Qed.

  (* ---------------- POMDP::Model<MDP::Model> ---------------- *)
  Lemma roundtrip_pomdp_model_lemma : forall x dest, wf_pomdp_model dbl x ->
    pmO dest = pmO x -> mS (pmM dest) = mS (pmM x) -> mA (pmM dest) = mA (pmM x) ->
    read_pomdp_model token read (write_pomdp_model token show x) dest = (x, ROk x []).
  Proof.
    intros x dest (Hm & Hs & Ha & Hp) HO HS HA.
    unfold read_pomdp_model, parse_pomdp_model, write_pomdp_model. rewrite HO, HS, HA.
    rewrite parse_model_roundtrip by assumption. cbn [bind].
    rewrite <- (app_nil_r (write_mat3 token show (pmObs x))).
    rewrite parse_mat3_roundtrip by assumption. cbn [bind]. rewrite Hp. cbn [negb commit].
    destruct x; reflexivity.
  Qed.
End RoundTrip.

(* ------------------------------------------------------------------------------------------ *)
(* failed_load_leaves_dest for the eight stream readers *)
Section FailedLoad.
  Variable token : Type.
  Variable read : token -> option (Q * option token).
  Variable readN : token -> option (N * option token).
  Variable split_at : token -> option (option token).
  Variable tsize : token -> nat.

  Definition leaves_dest {A} (rd : list token -> A -> A * rres token A) : Prop :=
    forall toks dest, status_of (snd (rd toks dest)) <> St_ok -> fst (rd toks dest) = dest.

  Ltac by_commit := intros toks dest;
    unfold read_model, read_smodel, read_experience, read_sexperience, read_mdp_policy, read_pomdp_model,
           read_spomdp_model, read_pomdp_policy, read_mat, read_tab, read_mat3, read_tab3;
    rewrite commit_status; apply commit_atomic.

  Lemma failed_load_leaves_dest_lemma :
    leaves_dest (read_model token read) /\
    leaves_dest (read_smodel token read readN) /\
    leaves_dest (read_experience token read readN) /\
    leaves_dest (read_sexperience token read readN) /\
    leaves_dest (read_mdp_policy token read) /\
    leaves_dest (read_pomdp_model token read) /\
    leaves_dest (read_spomdp_model token read readN) /\
    leaves_dest (read_pomdp_policy token read readN split_at tsize).
  Proof. repeat split; by_commit. Qed.

  (* the nested container readers of Utils/IO.cpp as well *)
  Lemma failed_read_leaves_container_lemma :
    (forall r c, leaves_dest (read_mat token read r c)) /\
    (forall r c, leaves_dest (read_tab token readN r c)) /\
    (forall n r c, leaves_dest (read_mat3 token read n r c)) /\
    (forall n r c, leaves_dest (read_tab3 token readN n r c)) /\
    (forall r c, leaves_dest (read_smat token read readN r c)) /\
    (forall r c, leaves_dest (read_stab token readN r c)).
  Proof.
    repeat split; intros; try by_commit.
    - intros toks dest. unfold read_smat, read_sparse.
      destruct (parse_sparse token readN (Model.get_num token read) r c toks); cbn; congruence.
    - intros toks dest. unfold read_stab, read_sparse.
      destruct (parse_sparse token readN (Model.get_N token readN) r c toks); cbn; congruence.
  Qed.
End FailedLoad.

(* ------------------------------------------------------------------------------------------ *)
(* A concrete instance of the abstract tokens (a token is the number itself), used by the
   ex_… examples to show that the hypotheses of the theorems are satisfiable. *)
Inductive xtoken := XQ (q : Q) | XN (n : N) | XAt.
Definition x_show (q : Q) : xtoken := XQ q.
Definition x_showN (n : N) : xtoken := XN n.
Definition x_read (t : xtoken) : option (Q * option xtoken) :=
  match t with XQ q => Some (q, None) | XN n => Some (inject_Z (Z.of_N n), None) | XAt => None end.
Definition x_readN (t : xtoken) : option (N * option xtoken) :=
  match t with XN n => Some (n, None) | _ => None end.
Definition x_tsize (t : xtoken) : nat := 1.
Definition x_split_at (t : xtoken) : option (option xtoken) :=
  match t with XAt => Some None | _ => None end.

Local Open Scope Q_scope.
Definition ex_model : mdp_model :=
  {| mS := 2; mA := 2; mDisc := 3 # 4;
     mT := [[[1 # 4; 3 # 4]; [0; 1]]; [[1 # 2; 1 # 2]; [1; 0]]];
     mR := [[1; -2]; [5 # 2; 0]] |}.
Definition ex_model_dest : mdp_model :=
  {| mS := 2; mA := 2; mDisc := 1;
     mT := [[[1; 0]; [0; 1]]; [[1; 0]; [0; 1]]]; mR := [[0; 0]; [0; 0]] |}.
Definition ex_experience : experience :=
  {| eS := 2; eA := 1; eTime := 7%N; eVisits := [[[3%N; 1%N]; [0%N; 3%N]]];
     eRew := [[1 # 2]; [-3]]; eM2 := [[1 # 8]; [0]] |}.
Definition ex_policy : mdp_policy := {| pS := 2; pA := 2; pTable := [[1 # 4; 3 # 4]; [1; 0]] |}.
Definition ex_pomdp_model : pomdp_model :=
  {| pmO := 2; pmM := ex_model; pmObs := [[[1 # 2; 1 # 2]; [0; 1]]; [[1; 0]; [1 # 8; 7 # 8]]] |}.
Local Close Scope Q_scope.

Lemma x_digits17 : forall d, anyQ d -> x_read (x_show d) = Some (d, None).
Proof. reflexivity. Qed.
Lemma x_showN_ok : forall n, anyN n -> x_readN (x_showN n) = Some (n, None).
Proof. reflexivity. Qed.

Ltac wf_tac := repeat (split || constructor || reflexivity).
Lemma ex_model_wf : wf_model anyQ ex_model.
Proof. unfold wf_model, shape3, shape2, all3, all2, anyQ; cbn [ex_model mS mA mT mR mDisc length]. wf_tac. Qed.
Lemma ex_experience_wf : wf_experience anyQ anyN ex_experience.
Proof. unfold wf_experience, shape3, shape2, all3, all2, anyQ, anyN; cbn [ex_experience eS eA eVisits eRew eM2 eTime length]. wf_tac. Qed.
Lemma ex_policy_wf : wf_mdp_policy anyQ ex_policy.
Proof. unfold wf_mdp_policy, shape2, all2, anyQ; cbn [ex_policy pS pA pTable length]. wf_tac. Qed.
Lemma ex_pomdp_model_wf : wf_pomdp_model anyQ ex_pomdp_model.
Proof.
  unfold wf_pomdp_model. split; [exact ex_model_wf|].
  unfold shape3, shape2, all3, all2, anyQ; cbn [ex_pomdp_model ex_model pmM pmO pmObs mS mA length]. wf_tac.
Qed.

(* the oracle's boolean checker is sound for the outcome predicate of Spec.v: [same] is the
   bitwise comparison of the destination's dump before and after the load *)
Lemma load_atomic_b_sound : forall A (dest res : A) (st : status) (same : bool),
  (same = true -> res = dest) -> load_atomic_b st same = true -> load_atomic dest res st.
Proof.
  intros A dest res st same Hsame H. unfold load_atomic. destruct st; cbn in H; auto; try discriminate.
Qed.
