(* C17/ProofsFuel.v — the POMDP::Policy reader's loop terminates: every iteration extracts at
   least the action, which consumes at least one character of the stream, so the fuel
   S (characters on the stream) given by parse_pomdp_policy is never exhausted; and the result of
   the loop does not depend on the fuel once it is sufficient. *)
From Coq Require Import List Arith NArith QArith Bool Lia.
From AIT Require Import C17.Model C17.Spec C17.Proofs.
Import ListNotations.
Local Open Scope nat_scope.

Section Fuel.
  Variable token : Type.
  Variable read : token -> option (Q * option token).
  Variable readN : token -> option (N * option token).
  Variable split_at : token -> option (option token).
  Variable tsize : token -> nat.
  (* a token has at least one character; what an extraction leaves of a token is shorter *)
  Hypothesis H_size_pos : forall t, 1 <= tsize t.
  Hypothesis H_read_left : forall t q t', read t = Some (q, Some t') -> tsize t' < tsize t.
  Hypothesis H_readN_left : forall t n t', readN t = Some (n, Some t') -> tsize t' < tsize t.
  Hypothesis H_at_left : forall t t', split_at t = Some (Some t') -> tsize t' < tsize t.

  Notation size := (stream_size token tsize).
  Notation loop := (pp_loop token read readN split_at).

  Lemma size_get_num : forall is q is', get_num token read is = ROk q is' -> size is' < size is.
  Proof.
    intros [|t rest] q is' H; cbn [get_num] in H; [discriminate|].
    destruct (read t) as [[q0 [t'|]]|] eqn:E; inversion H; subst; cbn [pushback stream_size].
    - pose proof (H_read_left _ _ _ E). lia.
    - pose proof (H_size_pos t). lia.
  Qed.

  Lemma size_get_N : forall is n is', get_N token readN is = ROk n is' -> size is' < size is.
  Proof.
    intros [|t rest] n is' H; cbn [get_N] in H; [discriminate|].
    destruct (readN t) as [[n0 [t'|]]|] eqn:E; inversion H; subst; cbn [pushback stream_size].
    - pose proof (H_readN_left _ _ _ E). lia.
    - pose proof (H_size_pos t). lia.
  Qed.

  Lemma size_check_at : forall is, size (snd (check_at token split_at is)) <= size is.
  Proof.
    intros [|t rest]; cbn [check_at snd stream_size]; [lia|].
    destruct (split_at t) as [[t'|]|] eqn:E; cbn [snd pushback stream_size]; try lia.
    pose proof (H_at_left _ _ E). lia.
  Qed.

  Lemma size_rep : forall A (p : list token -> rres token A),
    (forall is a is', p is = ROk a is' -> size is' <= size is) ->
    forall n is l is', rep n p is = ROk l is' -> size is' <= size is.
  Proof.
    intros A p Hp. induction n as [|n IH]; intros is l is' H; cbn [rep] in H.
    - inversion H; subst. lia.
    - destruct (p is) as [a is1| | |] eqn:E1; cbn [bind] in H; try discriminate.
      destruct (rep n p is1) as [l1 is2| | |] eqn:E2; cbn [bind] in H; try discriminate.
      inversion H; subst. pose proof (Hp _ _ _ E1). pose proof (IH _ _ _ E2). lia.
  Qed.

  Lemma nofuel_rep : forall A (p : list token -> rres token A),
    (forall is, p is <> RFuel) -> forall n is, rep n p is <> RFuel.
  Proof.
    intros A p Hp. induction n as [|n IH]; intros is; cbn [rep]; [discriminate|].
    pose proof (Hp is) as H1. destruct (p is) as [a is1| | |]; cbn [bind]; try discriminate; [|congruence].
    pose proof (IH is1) as H2. destruct (rep n p is1); cbn [bind]; try discriminate. congruence.
  Qed.

  Lemma nofuel_get_num : forall is, get_num token read is <> RFuel.
  Proof. intros [|t rest]; cbn [get_num]; [discriminate|]. destruct (read t) as [[q lo]|]; discriminate. Qed.
  Lemma nofuel_get_N : forall is, get_N token readN is <> RFuel.
  Proof. intros [|t rest]; cbn [get_N]; [discriminate|]. destruct (readN t) as [[q lo]|]; discriminate. Qed.
  Lemma nofuel_get_obs : forall oldH is, get_obs token readN oldH is <> RFuel.
  Proof.
    intros oldH is. unfold get_obs. pose proof (nofuel_get_N is).
    destruct (get_N token readN is); cbn [bind]; try discriminate; [|congruence].
    destruct (_ && _); discriminate.
  Qed.

  Lemma size_get_obs : forall oldH is o is', get_obs token readN oldH is = ROk o is' -> size is' <= size is.
  Proof.
    intros oldH is o is' H. unfold get_obs in H.
    destruct (get_N token readN is) as [n is1| | |] eqn:E; cbn [bind] in H; try discriminate.
    destruct (_ && _); inversion H; subst. pose proof (size_get_N _ _ _ E). lia.
  Qed.

  Lemma size_parse_ventry : forall S A O oldH is e is',
    parse_ventry token read readN S A O oldH is = ROk e is' -> size is' < size is.
  Proof.
    intros S A O oldH is e is' H. unfold parse_ventry in H.
    destruct (rep S (get_num token read) is) as [vs is1| | |] eqn:E1; cbn [bind] in H; try discriminate.
    destruct (get_N token readN is1) as [a is2| | |] eqn:E2; cbn [bind] in H; try discriminate.
    destruct (N.of_nat A <=? a)%N; try discriminate.
    destruct (rep O (get_obs token readN oldH) is2) as [ob is3| | |] eqn:E3; cbn [bind] in H; try discriminate.
    inversion H; subst.
    pose proof (size_rep _ _ (fun is q is' Hq => Nat.lt_le_incl _ _ (size_get_num is q is' Hq)) _ _ _ _ E1).
    pose proof (size_get_N _ _ _ E2).
    pose proof (size_rep _ _ (size_get_obs oldH) _ _ _ _ E3). lia.
  Qed.

  Lemma nofuel_parse_ventry : forall S A O oldH is, parse_ventry token read readN S A O oldH is <> RFuel.
  Proof.
    intros S A O oldH is. unfold parse_ventry.
    pose proof (nofuel_rep _ _ nofuel_get_num S is) as H1.
    destruct (rep S (get_num token read) is) as [vs is1| | |]; cbn [bind]; try discriminate; [|congruence].
    pose proof (nofuel_get_N is1) as H2.
    destruct (get_N token readN is1) as [a is2| | |]; cbn [bind]; try discriminate; [|congruence].
    destruct (N.of_nat A <=? a)%N; [discriminate|].
    pose proof (nofuel_rep _ _ (nofuel_get_obs oldH) O is2) as H3.
    destruct (rep O (get_obs token readN oldH) is2); cbn [bind]; try discriminate. congruence.
  Qed.

  (* termination: fuel larger than the characters on the stream is never exhausted *)
  Lemma pp_loop_terminates : forall fuel S A O is prev cur oldH b,
    size is < fuel -> loop fuel S A O is prev cur oldH b <> RFuel.
  Proof.
    induction fuel as [|f IH]; intros S A O is prev cur oldH b Hsz; [lia|].
    cbn [pp_loop].
    assert (Hc := size_check_at is).
    destruct (check_at token split_at is) as [bb is1] eqn:Ec. cbn [snd] in Hc.
    assert (Hgen : forall is0 prev0 cur0 oldH0, size is0 <= size is ->
      bind (parse_ventry token read readN S A O oldH0 is0)
           (fun e is3 => let '(b0, is4) := check_at token split_at is3 in
                         loop f S A O is4 prev0 (cur0 ++ [e]) oldH0 b0) <> RFuel).
    { intros is0 prev0 cur0 oldH0 Hle.
      pose proof (nofuel_parse_ventry S A O oldH0 is0) as Hn.
      destruct (parse_ventry token read readN S A O oldH0 is0) as [e is3| | |] eqn:Ep; cbn [bind];
        try discriminate; [|congruence].
      pose proof (size_parse_ventry _ _ _ _ _ _ _ Ep) as Hlt.
      pose proof (size_check_at is3) as Hc3.
      destruct (check_at token split_at is3) as [b0 is4]. cbn [snd] in Hc3.
      apply IH. lia. }
    destruct b.
    - destruct bb; [discriminate|]. apply Hgen. assumption.
    - apply Hgen. lia.
  Qed.

  (* the result does not depend on the fuel once the loop finishes within it *)
  Lemma pp_loop_mono : forall f S A O is prev cur oldH b,
    loop f S A O is prev cur oldH b <> RFuel ->
    forall f', f <= f' -> loop f' S A O is prev cur oldH b = loop f S A O is prev cur oldH b.
  Proof.
    induction f as [|f IH]; intros S A O is prev cur oldH b Hn f' Hle; [cbn in Hn; congruence|].
    destruct f' as [|f']; [lia|]. cbn [pp_loop] in *.
    destruct (if b then let '(b0, is') := check_at token split_at is in
                        if b0 then (true, is', prev, cur, oldH) else (false, is', prev ++ [cur], [], length cur)
              else (false, is, prev, cur, oldH)) as [[[[fin is0] prev0] cur0] oldH0].
    destruct fin; [reflexivity|].
    destruct (parse_ventry token read readN S A O oldH0 is0) as [e is3| | |]; cbn [bind] in *; try reflexivity.
    destruct (check_at token split_at is3) as [b0 is4].
    apply IH; [assumption | lia].
  Qed.

  Lemma pomdp_policy_reader_terminates_lemma : forall toks dest,
    status_of (snd (read_pomdp_policy token read readN split_at tsize toks dest)) <> St_fuel.
  Proof.
    intros toks dest. unfold read_pomdp_policy. rewrite commit_status. unfold parse_pomdp_policy.
    pose proof (pp_loop_terminates (Datatypes.S (size toks)) (ppS dest) (ppA dest) (ppO dest) toks [] [h0_entry (ppS dest)] 1 true) as H.
    destruct (loop (Datatypes.S (size toks)) (ppS dest) (ppA dest) (ppO dest) toks [] [h0_entry (ppS dest)] 1 true);
      cbn [bind status_of]; try discriminate. exfalso. apply H; [lia | reflexivity].
  Qed.
End Fuel.
