(* C06/ProofsProb.v — the validators decide exactly the spec: isProbability (all overloads),
   checkEqualSmall, setDiscount, over extended doubles (NaN / inf rejected is a theorem). *)
From Coq Require Import List Arith QArith Qminmax Lqa Lia Bool.
From AIT Require Import Base.Qx C06.Model C06.Spec.
Import ListNotations.
Local Open Scope Q_scope.

(* ---------------------------------------------------------------- basic facts *)
Lemma Qltb_true : forall a b, Qltb a b = true <-> a < b.
Proof.
  intros a b. unfold Qltb. rewrite negb_true_iff. split; intros H.
  - apply Qnot_le_lt. intros Hle. apply Qle_bool_iff in Hle. congruence.
  - destruct (Qle_bool b a) eqn:E; [|reflexivity]. apply Qle_bool_iff in E. lra.
Qed.

Lemma Qltb_false : forall a b, Qltb a b = false <-> b <= a.
Proof.
  intros a b. unfold Qltb. rewrite negb_false_iff. apply Qle_bool_iff.
Qed.

Lemma Qle_bool_false : forall a b, Qle_bool a b = false <-> b < a.
Proof.
  intros a b. split; intros H.
  - apply Qnot_le_lt. intros Hle. apply Qle_bool_iff in Hle. congruence.
  - destruct (Qle_bool a b) eqn:E; [|reflexivity]. apply Qle_bool_iff in E. lra.
Qed.

Lemma qabs_le : forall x e, qabs x <= e <-> - e <= x /\ x <= e.
Proof.
  intros x e. unfold qabs. split.
  - intros H. pose proof (Q.le_max_l x (- x)). pose proof (Q.le_max_r x (- x)). split; lra.
  - intros [L U]. apply Q.max_lub; lra.
Qed.

Lemma qabs_nonneg : forall x, 0 <= qabs x.
Proof. intros x. unfold qabs. pose proof (Q.le_max_l x (- x)). pose proof (Q.le_max_r x (- x)). lra. Qed.

Lemma qabs_ge : forall x, x <= qabs x.
Proof. intros x. unfold qabs. apply Q.le_max_l. Qed.

Lemma qabs_of_nonneg : forall x, 0 <= x -> qabs x == x.
Proof. intros x H. unfold qabs. apply Q.max_l. lra. Qed.

Lemma epsS_pos : 0 < epsS.
Proof. unfold epsS. reflexivity. Qed.

(* checkEqualSmall against a finite number accepts exactly the finite numbers within epsS *)
Lemma checkEqualSmall_fin : forall a b,
  checkEqualSmall a (XFin b) = true <-> exists r, a = XFin r /\ - epsS <= r - b /\ r - b <= epsS.
Proof.
  intros a b. unfold checkEqualSmall. split.
  - destruct a as [r| | |]; cbn [xsub xneg xadd xabs xle]; try discriminate.
    intros H. apply Qle_bool_iff in H. apply qabs_le in H. exists r. split; [reflexivity|]. lra.
  - intros [r [-> [L U]]]. cbn [xsub xneg xadd xabs xle]. apply Qle_bool_iff. apply qabs_le. lra.
Qed.

Lemma checkEqualSmall_fin_l : forall b a,
  checkEqualSmall (XFin b) a = true <-> exists r, a = XFin r /\ - epsS <= r - b /\ r - b <= epsS.
Proof.
  intros b a. unfold checkEqualSmall. split.
  - destruct a as [r| | |]; cbn [xsub xneg xadd xabs xle]; try discriminate.
    intros H. apply Qle_bool_iff in H. apply qabs_le in H. exists r. split; [reflexivity|]. lra.
  - intros [r [-> [L U]]]. cbn [xsub xneg xadd xabs xle]. apply Qle_bool_iff. apply qabs_le. lra.
Qed.

Lemma xadd_fin_inv : forall a b r, xadd a b = XFin r -> exists x y, a = XFin x /\ b = XFin y /\ r = x + y.
Proof.
  intros [x| | |] [y| | |] r H; cbn [xadd] in H; try discriminate.
  inversion H. exists x, y. repeat split.
Qed.

Lemma xlt_fin0_false : forall x, xlt (XFin x) (XFin 0) = false <-> 0 <= x.
Proof. intros x. cbn [xlt]. apply Qltb_false. Qed.

(* ---------------------------------------------------------------- sums over xq *)
Lemma xsum_from_fin : forall ql p0, exists r, xsum_from (XFin p0) (map XFin ql) = XFin r /\ r == p0 + qsum ql.
Proof.
  induction ql as [|x ql IH]; intros p0; cbn [map xsum_from qsum].
  - exists p0. split; [reflexivity| lra].
  - cbn [xadd]. destruct (IH (p0 + x)) as [r [E Hr]]. exists r. split; [exact E| lra].
Qed.

Lemma xsum_from_fin_inv : forall l p r, xsum_from p l = XFin r ->
  exists p0 ql, p = XFin p0 /\ l = map XFin ql /\ r == p0 + qsum ql.
Proof.
  induction l as [|v l IH]; intros p r H; cbn [xsum_from] in H.
  - exists r, []. subst p. repeat split. cbn [qsum]. lra.
  - destruct (IH _ _ H) as [p1 [ql [E1 [El Hr]]]].
    destruct (xadd_fin_inv _ _ _ E1) as [x [y [-> [-> Ep]]]].
    exists x, (y :: ql). split; [reflexivity|]. split; [cbn [map]; congruence|].
    cbn [qsum]. subst p1. lra.
Qed.

Lemma xsum_fin : forall ql, exists r, xsum (map XFin ql) = XFin r /\ r == qsum ql.
Proof. intros ql. destruct (xsum_from_fin ql 0) as [r [E H]]. exists r. split; [exact E| lra]. Qed.

Lemma xsum_fin_inv : forall l r, xsum l = XFin r -> exists ql, l = map XFin ql /\ r == qsum ql.
Proof.
  intros l r H. destruct (xsum_from_fin_inv _ _ _ H) as [p0 [ql [Ep [El Hr]]]].
  inversion Ep; subst p0. exists ql. split; [exact El| lra].
Qed.

Lemma map_xabs_fin : forall ql, map xabs (map XFin ql) = map XFin (map qabs ql).
Proof. induction ql as [|x ql IH]; cbn [map xabs]; [reflexivity| rewrite IH; reflexivity]. Qed.

Lemma map_xval_fin : forall ql, map xval (map XFin ql) = ql.
Proof. induction ql as [|x ql IH]; cbn [map xval]; [reflexivity| rewrite IH; reflexivity]. Qed.

Lemma map_XFin_inj : forall a b, map XFin a = map XFin b -> a = b.
Proof.
  induction a as [|x a IH]; intros [|y b] H; cbn [map] in H; try discriminate; [reflexivity|].
  inversion H. f_equal. apply IH. assumption.
Qed.

(* ---------------------------------------------------------------- the 1D template overload *)
Lemma isProb1_loop_inv : forall l p r, isProb1_loop p l = Some (XFin r) ->
  exists p0 ql, p = XFin p0 /\ l = map XFin ql /\ nonneg ql /\ r == p0 + qsum ql.
Proof.
  induction l as [|v l IH]; intros p r H; cbn [isProb1_loop] in H.
  - inversion H; subst p. exists r, []. repeat split; [constructor| cbn [qsum]; lra].
  - destruct (xlt v (XFin 0)) eqn:Ev; [discriminate|].
    destruct (IH _ _ H) as [p1 [ql [E1 [El [Hn Hr]]]]].
    destruct (xadd_fin_inv _ _ _ E1) as [x [y [-> [-> Ep]]]].
    apply xlt_fin0_false in Ev.
    exists x, (y :: ql). split; [reflexivity|]. split; [cbn [map]; congruence|].
    split; [constructor; assumption|]. cbn [qsum]. subst p1. lra.
Qed.

Lemma isProb1_loop_fin : forall ql p0, nonneg ql ->
  exists r, isProb1_loop (XFin p0) (map XFin ql) = Some (XFin r) /\ r == p0 + qsum ql.
Proof.
  induction ql as [|x ql IH]; intros p0 Hn; cbn [map isProb1_loop qsum].
  - exists p0. split; [reflexivity| lra].
  - inversion Hn as [|? ? Hx Hn']; subst.
    assert (E : xlt (XFin x) (XFin 0) = false) by (apply xlt_fin0_false; exact Hx).
    rewrite E. cbn [xadd]. destruct (IH (p0 + x) Hn') as [r [Er Hr]]. exists r. split; [exact Er| lra].
Qed.

Lemma nonneg_neg0 : forall ql, nonneg ql <-> Forall (fun x => - 0 <= x) ql.
Proof.
  intros ql. unfold nonneg. split; intros H; induction H; constructor; try assumption; lra.
Qed.

Lemma isProbability1_iff_lemma : forall l, isProbability1 l = true <-> prob_row l.
Proof.
  intros l. unfold isProbability1, prob_row, prob_row_tol. split.
  - destruct (isProb1_loop (XFin 0) l) as [p|] eqn:E; [|discriminate].
    unfold checkDifferentSmall. rewrite negb_involutive. intros H.
    apply checkEqualSmall_fin in H. destruct H as [r [-> [L U]]].
    destruct (isProb1_loop_inv _ _ _ E) as [p0 [ql [Ep [El [Hn Hr]]]]]. inversion Ep; subst p0.
    exists ql. split; [exact El|]. split; [apply nonneg_neg0; exact Hn|]. split; lra.
  - intros [ql [-> [Hn [L U]]]]. apply nonneg_neg0 in Hn.
    destruct (isProb1_loop_fin ql 0 Hn) as [r [Er Hr]]. rewrite Er.
    unfold checkDifferentSmall. rewrite negb_involutive. apply checkEqualSmall_fin.
    exists r. split; [reflexivity|]. split; lra.
Qed.

(* ---------------------------------------------------------------- Matrix2D overload *)
Lemma xmin_from_fin : forall ql m, exists r, xmin_from (XFin m) (map XFin ql) = XFin r /\
  r <= m /\ (forall x, In x ql -> r <= x) /\ (r == m \/ exists x, In x ql /\ r == x).
Proof.
  induction ql as [|y ql IH]; intros m; cbn [map xmin_from].
  - exists m. split; [reflexivity|]. split; [lra|]. split; [intros x []| left; lra].
  - cbn [xlt]. destruct (Qltb y m) eqn:E.
    + apply Qltb_true in E. destruct (IH y) as [r [Er [Hle [Hall Hatt]]]]. exists r.
      split; [exact Er|]. split; [lra|]. split.
      * intros x [<-|Hx]; [exact Hle| apply Hall; exact Hx].
      * right. destruct Hatt as [Hm|[x [Hx Ex]]]; [exists y; split; [left; reflexivity| exact Hm]|].
        exists x. split; [right; exact Hx| exact Ex].
    + apply Qltb_false in E. destruct (IH m) as [r [Er [Hle [Hall Hatt]]]]. exists r.
      split; [exact Er|]. split; [exact Hle|]. split.
      * intros x [<-|Hx]; [lra| apply Hall; exact Hx].
      * destruct Hatt as [Hm|[x [Hx Ex]]]; [left; exact Hm|]. right. exists x. split; [right; exact Hx| exact Ex].
Qed.

Lemma xminCoeff_fin : forall ql, ql <> [] -> exists r, xminCoeff (map XFin ql) = XFin r /\
  (forall x, In x ql -> r <= x) /\ (exists x, In x ql /\ r == x).
Proof.
  intros [|y ql] Hne; [congruence|]. cbn [map xminCoeff].
  destruct (xmin_from_fin ql y) as [r [Er [Hle [Hall Hatt]]]]. exists r. split; [exact Er|]. split.
  - intros x [<-|Hx]; [exact Hle| apply Hall; exact Hx].
  - destruct Hatt as [Hm|[x [Hx Ex]]]; [exists y; split; [left; reflexivity| exact Hm]|].
    exists x. split; [right; exact Hx| exact Ex].
Qed.

Lemma isProbabilityRowD_iff_lemma : forall l, isProbabilityRowD l = true <-> prob_row l.
Proof.
  intros l. unfold isProbabilityRowD, prob_row, prob_row_tol.
  rewrite negb_true_iff, orb_false_iff. unfold checkDifferentSmall. rewrite negb_false_iff. split.
  - intros [Hmin Hsum]. apply checkEqualSmall_fin in Hsum. destruct Hsum as [r [Es [L U]]].
    destruct (xsum_fin_inv _ _ Es) as [ql [-> Hr]]. exists ql. split; [reflexivity|].
    split; [| split; lra].
    destruct ql as [|y ql]; [constructor|].
    destruct (xminCoeff_fin (y :: ql)) as [mn [Em [Hall _]]]; [discriminate|].
    rewrite Em in Hmin. apply xlt_fin0_false in Hmin.
    apply Forall_forall. intros x Hx. specialize (Hall x Hx). lra.
  - intros [ql [-> [Hn [L U]]]]. split.
    + destruct ql as [|y ql]; [reflexivity|].
      destruct (xminCoeff_fin (y :: ql)) as [mn [Em [_ [x [Hx Ex]]]]]; [discriminate|].
      rewrite Em. apply xlt_fin0_false. rewrite Forall_forall in Hn. specialize (Hn x Hx). lra.
    + destruct (xsum_fin ql) as [r [Er Hr]]. rewrite Er. apply checkEqualSmall_fin.
      exists r. split; [reflexivity|]. split; lra.
Qed.

(* ---------------------------------------------------------------- SparseMatrix2D overload *)
Lemma isProbabilityRowS_iff_lemma : forall l, isProbabilityRowS l = true <-> sprob_row l.
Proof.
  intros l. unfold isProbabilityRowS, sprob_row.
  rewrite negb_true_iff, orb_false_iff. unfold checkDifferentSmall. rewrite !negb_false_iff. split.
  - intros [H1 H2]. apply checkEqualSmall_fin in H1. destruct H1 as [r [Es [L U]]].
    destruct (xsum_fin_inv _ _ Es) as [ql [-> Hr]]. exists ql. split; [reflexivity|].
    rewrite map_xabs_fin in H2. destruct (xsum_fin (map qabs ql)) as [r2 [Er2 Hr2]].
    rewrite Er2 in H2. apply checkEqualSmall_fin in H2. destruct H2 as [r3 [E3 [L3 U3]]].
    inversion E3; subst r3. repeat split; lra.
  - intros [ql [-> [L [U [L2 U2]]]]]. split.
    + destruct (xsum_fin ql) as [r [Er Hr]]. rewrite Er. apply checkEqualSmall_fin.
      exists r. split; [reflexivity|]. split; lra.
    + rewrite map_xabs_fin. destruct (xsum_fin (map qabs ql)) as [r [Er Hr]]. rewrite Er.
      apply checkEqualSmall_fin. exists r. split; [reflexivity|]. split; lra.
Qed.

(* negative mass of a row accepted by the sparse overload is at most epsS: each entry >= -epsS *)
Lemma qabs_gap_le : forall ql x, In x ql -> qabs x - x <= qsum (map qabs ql) - qsum ql.
Proof.
  induction ql as [|y ql IH]; intros x Hin; [destruct Hin|]. cbn [map qsum].
  assert (Hg : 0 <= qsum (map qabs ql) - qsum ql).
  { clear. induction ql as [|z ql IH]; cbn [map qsum]; [lra|]. pose proof (qabs_ge z). lra. }
  destruct Hin as [<-|Hin].
  - lra.
  - specialize (IH x Hin). pose proof (qabs_ge y). lra.
Qed.

Lemma sprob_row_tol_lemma : forall l, sprob_row l -> prob_row_tol epsS epsS l.
Proof.
  intros l [ql [-> [L [U [L2 U2]]]]]. exists ql. split; [reflexivity|]. split; [| split; assumption].
  apply Forall_forall. intros x Hx. pose proof (qabs_gap_le ql x Hx) as Hg.
  assert (Ha : - x <= qabs x) by (unfold qabs; apply Q.le_max_r). lra.
Qed.

(* the sparse overload does accept a row with a negative entry: (-1/4e6, 1 + 1/4e6) *)
Definition neg_row_witness : list xq := [XFin (- (1 # 4000000)); XFin (1 + (1 # 4000000))].
Lemma isProbabilityS_accepts_negative_lemma :
  isProbabilityS3 [[neg_row_witness]] = true /\ ~ prob_row neg_row_witness.
Proof.
  split; [vm_compute; reflexivity|].
  intros [ql [E [Hn _]]]. unfold neg_row_witness in E.
  destruct ql as [|x ql]; [discriminate|]. cbn [map] in E. inversion E; subst x.
  inversion Hn as [|? ? Hx _]; subst. revert Hx. unfold Qle. cbn. lia.
Qed.

(* ---------------------------------------------------------------- table overloads *)
Lemma forallb_Forall : forall (A : Type) (f : A -> bool) (P : A -> Prop) l,
  (forall x, f x = true <-> P x) -> (forallb f l = true <-> Forall P l).
Proof.
  intros A f P l H. induction l as [|x l IH]; cbn [forallb].
  - split; [constructor| reflexivity].
  - rewrite andb_true_iff, IH, H. split; [intros [? ?]; constructor; assumption| intros HF; inversion HF; split; assumption].
Qed.

Lemma isProbability2_iff_lemma : forall m, isProbability2 m = true <-> Forall prob_row m.
Proof. intros m. apply forallb_Forall. exact isProbability1_iff_lemma. Qed.
Lemma isProbability3_iff_lemma : forall t, isProbability3 t = true <-> Forall (Forall prob_row) t.
Proof. intros t. apply forallb_Forall. exact isProbability2_iff_lemma. Qed.
Lemma isProbabilityM2_iff_lemma : forall m, isProbabilityM2 m = true <-> Forall prob_row m.
Proof. intros m. apply forallb_Forall. exact isProbabilityRowD_iff_lemma. Qed.
Lemma isProbabilityM3_iff_lemma : forall t, isProbabilityM3 t = true <-> Forall (Forall prob_row) t.
Proof. intros t. apply forallb_Forall. exact isProbabilityM2_iff_lemma. Qed.
Lemma isProbabilityS2_iff_lemma : forall m, isProbabilityS2 m = true <-> Forall sprob_row m.
Proof. intros m. apply forallb_Forall. exact isProbabilityRowS_iff_lemma. Qed.
Lemma isProbabilityS3_iff_lemma : forall t, isProbabilityS3 t = true <-> Forall (Forall sprob_row) t.
Proof. intros t. apply forallb_Forall. exact isProbabilityS2_iff_lemma. Qed.

(* all overloads at once (the statement exported as isProbability_iff) *)
Lemma isProbability_iff_lemma :
  (forall l, isProbability1 l = true <-> prob_row l) /\
  (forall m, isProbability2 m = true <-> Forall prob_row m) /\
  (forall t, isProbability3 t = true <-> Forall (Forall prob_row) t) /\
  (forall m, isProbabilityM2 m = true <-> Forall prob_row m) /\
  (forall t, isProbabilityM3 t = true <-> Forall (Forall prob_row) t).
Proof.
  repeat split; first [apply isProbability1_iff_lemma | apply isProbability2_iff_lemma
    | apply isProbability3_iff_lemma | apply isProbabilityM2_iff_lemma | apply isProbabilityM3_iff_lemma].
Qed.

(* NaN and infinities are rejected by every overload *)
Lemma prob_row_finite : forall neg tol l x, prob_row_tol neg tol l -> In x l -> exists q, x = XFin q.
Proof.
  intros neg tol l x [ql [-> _]] Hin. apply in_map_iff in Hin. destruct Hin as [q [<- _]]. exists q. reflexivity.
Qed.

Lemma sprob_row_finite : forall l x, sprob_row l -> In x l -> exists q, x = XFin q.
Proof. intros l x H. apply (prob_row_finite epsS epsS). apply sprob_row_tol_lemma. exact H. Qed.

Lemma nonfinite_rejected_lemma : forall l x, In x l -> (forall q, x <> XFin q) ->
  isProbability1 l = false /\ isProbabilityRowD l = false /\ isProbabilityRowS l = false.
Proof.
  intros l x Hin Hnf. repeat split.
  - destruct (isProbability1 l) eqn:E; [|reflexivity]. apply isProbability1_iff_lemma in E.
    destruct (prob_row_finite _ _ _ _ E Hin) as [q Hq]. exfalso. exact (Hnf q Hq).
  - destruct (isProbabilityRowD l) eqn:E; [|reflexivity]. apply isProbabilityRowD_iff_lemma in E.
    destruct (prob_row_finite _ _ _ _ E Hin) as [q Hq]. exfalso. exact (Hnf q Hq).
  - destruct (isProbabilityRowS l) eqn:E; [|reflexivity]. apply isProbabilityRowS_iff_lemma in E.
    destruct (sprob_row_finite _ _ E Hin) as [q Hq]. exfalso. exact (Hnf q Hq).
Qed.

(* ---------------------------------------------------------------- discount *)
Lemma setDiscount_iff_lemma : forall d, setDiscount_ok true d = true <-> disc_ok d.
Proof.
  intros d. unfold setDiscount_ok, disc_ok. rewrite andb_true_iff. split.
  - intros [H1 H2]. destruct d as [q| | |]; cbn [xlt xle] in *; try discriminate.
    apply Qltb_true in H1. apply Qle_bool_iff in H2. exists q. repeat split; assumption.
  - intros [q [-> [H1 H2]]]. cbn [xlt xle]. split; [apply Qltb_true; exact H1| apply Qle_bool_iff; exact H2].
Qed.

(* the code as it is: NaN passes `d <= 0.0 || d > 1.0` *)
Lemma setDiscount_iff_refuted_lemma : setDiscount_ok false XNaN = true /\ ~ disc_ok XNaN.
Proof. split; [reflexivity|]. intros [q [E _]]. discriminate. Qed.

(* … and NaN is the only value on which the two differ *)
Lemma setDiscount_orig_lemma : forall d, setDiscount_ok false d = true <-> (disc_ok d \/ d = XNaN).
Proof.
  intros d. unfold setDiscount_ok, disc_ok. rewrite negb_true_iff, orb_false_iff. split.
  - intros [H1 H2]. destruct d as [q| | |]; cbn [xlt xle] in *; try discriminate; [|right; reflexivity].
    apply Qle_bool_false in H1. apply Qltb_false in H2. left. exists q. repeat split; assumption.
  - intros [[q [-> [H1 H2]]]| ->]; cbn [xlt xle]; [|split; reflexivity].
    split; [apply Qle_bool_false; exact H1| apply Qltb_false; exact H2].
Qed.

(* ---------------------------------------------------------------- checker soundness *)
Lemma forallb_is_fin_ge : forall lo l, forallb (is_fin_ge lo) l = true ->
  exists ql, l = map XFin ql /\ Forall (fun x => lo <= x) ql.
Proof.
  intros lo. induction l as [|x l IH]; cbn [forallb]; intros H.
  - exists []. split; [reflexivity| constructor].
  - apply andb_true_iff in H. destruct H as [Hx Hl]. destruct (IH Hl) as [ql [-> Hq]].
    destruct x as [q| | |]; cbn [is_fin_ge] in Hx; try discriminate. apply Qle_bool_iff in Hx.
    exists (q :: ql). split; [reflexivity| constructor; assumption].
Qed.

Lemma prob_row_tolb_sound : forall neg tol l, prob_row_tolb neg tol l = true -> prob_row_tol neg tol l.
Proof.
  intros neg tol l H. unfold prob_row_tolb in H. apply andb_true_iff in H. destruct H as [H U].
  apply andb_true_iff in H. destruct H as [Hf L].
  destruct (forallb_is_fin_ge _ _ Hf) as [ql [-> Hq]]. rewrite map_xval_fin in L, U.
  apply Qle_bool_iff in L. apply Qle_bool_iff in U. exists ql. repeat split; assumption.
Qed.

Lemma disc_okb_sound : forall d, disc_okb d = true -> disc_ok d.
Proof.
  intros [q| | |]; cbn [disc_okb]; try discriminate. intros H. apply andb_true_iff in H. destruct H as [H1 H2].
  apply negb_true_iff in H1. apply Qle_bool_false in H1. apply Qle_bool_iff in H2. exists q. repeat split; assumption.
Qed.
