(* C06/ProofsCoop.v — DDNGraph::push and the CooperativeModel constructor validate, then commit. *)
From Coq Require Import List Arith QArith Bool Lia Sorting.Sorted.
From AIT Require Import Base.Qx C06.Model C06.Spec C06.ProofsProb C06.ProofsModel C06.ModelCoop C06.SpecCoop.
Import ListNotations.
Local Open Scope nat_scope.

(* ---------------------------------------------------------------- checkTag *)
Lemma checkTag_go_sound : forall n t prev, checkTag_go n prev t = TNone ->
  Sorted lt (prev :: t) /\ Forall (fun v => v < n) t.
Proof.
  intros n. induction t as [|v t IH]; intros prev H; cbn [checkTag_go] in H.
  - split; [repeat constructor| constructor].
  - destruct (Nat.leb_spec n v); [discriminate|]. destruct (Nat.ltb_spec v prev); [discriminate|].
    destruct (Nat.eqb_spec v prev); [discriminate|]. destruct (IH v H) as [HS HF]. split.
    + constructor; [exact HS| constructor; lia].
    + constructor; [lia| exact HF].
Qed.

Lemma tag_fine_sound : forall space tag, tag_fine space tag = true -> tag_ok space tag.
Proof.
  intros space tag H. unfold tag_fine in H. destruct (checkTag space tag) eqn:E; try discriminate.
  unfold checkTag in E. destruct tag as [|v0 t]; [discriminate|].
  destruct (length space <? length (v0 :: t)); [discriminate|].
  destruct (Nat.leb_spec (length space) v0); [discriminate|].
  destruct (checkTag_go_sound _ _ _ E) as [HS HF]. split; [discriminate|]. split; [exact HS|].
  constructor; [lia| exact HF].
Qed.

(* a rejected tag really is malformed *)
Lemma checkTag_go_complete : forall n t prev, Sorted lt (prev :: t) -> Forall (fun v => v < n) t ->
  checkTag_go n prev t = TNone.
Proof.
  intros n. induction t as [|v t IH]; intros prev HS HF; cbn [checkTag_go]; [reflexivity|].
  inversion HS as [|? ? HS' HR]; subst. inversion HR as [|? ? Hlt]; subst. inversion HF as [|? ? Hv HF']; subst.
  destruct (Nat.leb_spec n v); [lia|]. destruct (Nat.ltb_spec v prev); [lia|]. destruct (Nat.eqb_spec v prev); [lia|].
  apply IH; assumption.
Qed.

Lemma sorted_lt_length : forall t prev n, Sorted lt (prev :: t) -> Forall (fun v => v < n) (prev :: t) ->
  prev + length (prev :: t) <= n.
Proof.
  induction t as [|v t IH]; intros prev n HS HF.
  - inversion HF; subst. cbn [length]. lia.
  - inversion HS as [|? ? HS' HR]; subst. inversion HR as [|? ? Hlt]; subst. inversion HF as [|? ? _ HF']; subst.
    specialize (IH v n HS' HF'). cbn [length] in *. lia.
Qed.

Lemma tag_fine_iff : forall space tag, tag_fine space tag = true <-> tag_ok space tag.
Proof.
  intros space tag. split; [apply tag_fine_sound|]. intros [Hne [HS HF]]. unfold tag_fine, checkTag.
  destruct tag as [|v0 t]; [congruence|]. pose proof (sorted_lt_length _ _ _ HS HF) as HL.
  destruct (Nat.ltb_spec (length space) (length (v0 :: t))); [lia|].
  inversion HF as [|? ? Hv HF']; subst. destruct (Nat.leb_spec (length space) v0); [lia|].
  rewrite (checkTag_go_complete _ _ _ HS HF'). reflexivity.
Qed.

(* ---------------------------------------------------------------- DDNGraph::push *)
(* the three outcomes of a push, decided by the spec-side notions only *)
Lemma cpush_cases : forall g p,
  (length (cg_parents g) = length (cg_S g) /\ cpush g p = (g, PRuntimeError)) \/
  (length (cg_parents g) <> length (cg_S g) /\ ~ cps_valid (cg_S g) (cg_A g) p /\ cpush g p = (g, PInvalidArgument)) \/
  (length (cg_parents g) <> length (cg_S g) /\ cps_valid (cg_S g) (cg_A g) p /\
   cpush g p = ({| cg_S := cg_S g; cg_A := cg_A g; cg_parents := cg_parents g ++ [p] |}, POk)).
Proof.
  intros g p. unfold cpush.
  destruct (Nat.eqb_spec (length (cg_parents g)) (length (cg_S g))) as [Efull|Efull]; [left; split; [exact Efull| reflexivity]|].
  right. destruct (tag_fine (cg_A g) (cp_agents p)) eqn:E1; cbn [negb].
  2:{ left. split; [exact Efull|]. split; [|reflexivity]. intros [HA _]. apply tag_fine_iff in HA. congruence. }
  destruct (Nat.eqb_spec (length (cp_features p)) (fsp (cp_agents p) (cg_A g))) as [E2|E2]; cbn [negb].
  2:{ left. split; [exact Efull|]. split; [|reflexivity]. intros [_ [HL _]]. congruence. }
  destruct (forallb (tag_fine (cg_S g)) (cp_features p)) eqn:E3; cbn [negb].
  2:{ left. split; [exact Efull|]. split; [|reflexivity]. intros [_ [_ HF]].
      assert (forallb (tag_fine (cg_S g)) (cp_features p) = true).
      { apply forallb_forall. intros x Hx. apply tag_fine_iff. rewrite Forall_forall in HF. apply HF. exact Hx. }
      congruence. }
  right. split; [exact Efull|]. split; [|reflexivity].
  split; [apply tag_fine_sound; exact E1|]. split; [exact E2|]. apply Forall_forall. intros x Hx.
  apply tag_fine_sound. rewrite forallb_forall in E3. apply E3. exact Hx.
Qed.

(* accepted => the node is valid and appended; rejected => graph unchanged; runtime_error exactly when
   the graph is already complete, and it takes precedence over invalid_argument *)
Lemma cpush_spec : forall g p g' r, cpush g p = (g', r) ->
  (r = POk -> cps_valid (cg_S g) (cg_A g) p /\
              g' = {| cg_S := cg_S g; cg_A := cg_A g; cg_parents := cg_parents g ++ [p] |}) /\
  (r <> POk -> g' = g) /\
  (r = PRuntimeError <-> length (cg_parents g) = length (cg_S g)) /\
  (r = POk <-> length (cg_parents g) <> length (cg_S g) /\ cps_valid (cg_S g) (cg_A g) p).
Proof.
  intros g p g' r H. destruct (cpush_cases g p) as [[Hf E]|[[Hf [Hn E]]|[Hf [Hv E]]]]; rewrite E in H; inversion H; subst g' r.
  - split; [discriminate|]. split; [reflexivity|]. split; [tauto|]. split; [discriminate| tauto].
  - split; [discriminate|]. split; [reflexivity|]. split; [split; [discriminate| tauto]|]. split; [discriminate| tauto].
  - split; [intros _; split; [exact Hv| reflexivity]|]. split; [congruence|]. split; [split; [discriminate| tauto]|]. tauto.
Qed.

Lemma cpush_wf : forall g p, cgraph_wf g -> cgraph_wf (fst (cpush g p)).
Proof.
  intros g p [HF HL]. destruct (cpush_cases g p) as [[Hf E]|[[Hf [Hn E]]|[Hf [Hv E]]]]; rewrite E; cbn [fst]; try (split; assumption).
  split; cbn [cg_S cg_A cg_parents].
  - apply Forall_app. split; [exact HF| constructor; [exact Hv| constructor]].
  - rewrite app_length. cbn [length]. lia.
Qed.

Lemma cpush_all_wf : forall ps g, cgraph_wf g -> cgraph_wf (cpush_all g ps).
Proof.
  induction ps as [|p ps IH]; intros g H; cbn [cpush_all fold_left]; [exact H|]. apply IH. apply cpush_wf. exact H.
Qed.

Lemma cgraph_new_wf : forall S A, cgraph_wf {| cg_S := S; cg_A := A; cg_parents := [] |}.
Proof. intros S A. split; [constructor| cbn; lia]. Qed.

(* ---------------------------------------------------------------- CooperativeModel *)
Lemma forallb_combine_seq : forall (A : Type) (f : nat * A -> bool) (l : list A) s d,
  forallb f (combine (seq s (length l)) l) = true -> forall i, i < length l -> f (s + i, nth i l d) = true.
Proof.
  intros A f. induction l as [|x l IH]; intros s d H i Hi; cbn [length] in Hi; [lia|].
  cbn [length seq combine forallb] in H. apply andb_true_iff in H. destruct H as [Hx Hl].
  destruct i as [|i]; cbn [nth]; [rewrite Nat.add_0_r; exact Hx|].
  replace (s + S i) with (S s + i) by lia. apply IH; [exact Hl| lia].
Qed.

Lemma coop_node_ok_sound : forall g i m, cmat_shape m = true -> coop_node_ok g i m = true -> cnode_valid g i m.
Proof.
  intros g i m Hsh H. unfold coop_node_ok in H. apply andb_true_iff in H. destruct H as [H H3].
  apply andb_true_iff in H. destruct H as [H1 H2]. apply Nat.eqb_eq in H1. apply Nat.eqb_eq in H2.
  unfold cmat_shape, shape2 in Hsh. apply andb_true_iff in Hsh. destruct Hsh as [S1 S2]. apply Nat.eqb_eq in S1.
  split; [exact H1|]. split; [exact H2|]. split; [exact S1|]. apply Forall_forall. intros r Hr.
  rewrite forallb_forall in S2, H3. split; [apply Nat.eqb_eq; apply S2; exact Hr|].
  apply isProbability1_iff_lemma. apply H3. exact Hr.
Qed.

Lemma coop_basis_ok_sound : forall g b, coop_basis_ok g b = true -> cbasis_valid g b.
Proof.
  intros g b H. unfold coop_basis_ok in H. repeat (apply andb_true_iff in H; destruct H as [H ?]).
  split; [apply tag_fine_sound; assumption|]. split; [apply tag_fine_sound; assumption|].
  split; apply Nat.eqb_eq; assumption.
Qed.

Lemma coop_ctor_valid : forall c m r, coop_ctor true c = (Some m, r) -> m = c /\ r = Ok /\ valid_coop c.
Proof.
  intros c m r H. unfold coop_ctor in H.
  destruct (forallb cmat_shape (co_T c)) eqn:Esh; cbn [negb] in H; [|discriminate].
  cbn [andb] in H. destruct (setDiscount_ok true (co_d c)) eqn:Ed; cbn [negb] in H; [|discriminate].
  destruct (Nat.eqb_spec (length (cg_S (co_g c))) 0) as [|ES]; [discriminate|].
  destruct (Nat.eqb_spec (length (cg_A (co_g c))) 0) as [|EA]; [discriminate|].
  destruct (Nat.eqb_spec (length (cg_parents (co_g c))) (length (cg_S (co_g c)))) as [EP|]; cbn [negb] in H; [|discriminate].
  destruct (Nat.eqb_spec (length (co_T c)) (length (cg_S (co_g c)))) as [ET|]; cbn [negb] in H; [|discriminate].
  destruct (forallb (fun im => coop_node_ok (co_g c) (fst im) (snd im)) (combine (seq 0 (length (co_T c))) (co_T c))) eqn:EN; cbn [negb] in H; [|discriminate].
  destruct (forallb (coop_basis_ok (co_g c)) (co_R c)) eqn:EB; cbn [negb] in H; [|discriminate].
  inversion H; subst m r. split; [reflexivity|]. split; [reflexivity|].
  unfold valid_coop. split; [apply setDiscount_iff_lemma; exact Ed|].
  split; [intros Hc; rewrite Hc in ES; cbn in ES; congruence|].
  split; [intros Hc; rewrite Hc in EA; cbn in EA; congruence|].
  split; [exact EP|]. split; [exact ET|]. split.
  - intros i Hi. rewrite <- ET in Hi.
    pose proof (forallb_combine_seq _ _ (co_T c) 0 dummy_cmat EN i Hi) as Hn. cbn [fst snd plus] in Hn.
    apply coop_node_ok_sound; [|exact Hn]. rewrite forallb_forall in Esh. apply Esh. apply nth_In. exact Hi.
  - apply Forall_forall. intros b Hb. apply coop_basis_ok_sound. rewrite forallb_forall in EB. apply EB. exact Hb.
Qed.

Lemma coop_ctor_none : forall fixed c r, coop_ctor fixed c = (None, r) -> r <> Ok.
Proof.
  intros fixed c r H. unfold coop_ctor in H.
  repeat match type of H with
         | (if ?b then _ else _) = _ => destruct b; [inversion H; discriminate|]
         end. discriminate.
Qed.

Lemma coop_step_valid : forall st o st' r, ovalid valid_coop st -> coop_step true st o = (st', r) ->
  ovalid valid_coop st' /\ (r <> Ok -> st' = st).
Proof.
  intros st o st' r Hv H. destruct o as [c|d]; cbn [coop_step] in H.
  - destruct (coop_ctor true c) as [[m|] r'] eqn:Ec; inversion H; subst st' r.
    + destruct (coop_ctor_valid _ _ _ Ec) as [-> [-> Hc]]. split; [exact Hc| congruence].
    + split; [exact Hv| reflexivity].
  - destruct st as [m|]; [|inversion H; subst; split; [exact I| reflexivity]].
    destruct (setDiscount_ok true d) eqn:Ed; inversion H; subst st' r; [|split; [exact Hv| reflexivity]].
    split; [|congruence]. cbn [ovalid] in *. destruct Hv as [_ Hrest]. unfold valid_coop. cbn [co_g co_T co_R co_d].
    split; [apply setDiscount_iff_lemma; exact Ed| exact Hrest].
Qed.

Lemma coop_validate_then_commit_lemma :
  (forall st o st' r, ovalid valid_coop st -> coop_step true st o = (st', r) ->
     ovalid valid_coop st' /\ (r <> Ok -> st' = st)) /\
  (forall ops, ovalid valid_coop (coop_run true ops)).
Proof.
  split; [apply coop_step_valid|]. intros ops. unfold coop_run.
  assert (G : forall st, ovalid valid_coop st -> ovalid valid_coop (fold_left (fun st o => fst (coop_step true st o)) ops st)).
  { induction ops as [|o ops IH]; intros st Hv; cbn [fold_left]; [exact Hv|]. apply IH.
    destruct (coop_step true st o) as [st' r] eqn:E. cbn [fst]. exact (proj1 (coop_step_valid _ _ _ _ Hv E)). }
  apply G. exact I.
Qed.

(* the pinned commit stores any discount *)
Definition coop_witness (d : xq) : coop :=
  {| co_g := {| cg_S := [2]; cg_A := [2]; cg_parents := [{| cp_agents := [0]; cp_features := [[0]; [0]] |}] |};
     co_T := [{| cm_rows := 4; cm_cols := 2;
                 cm_data := [[XFin 1; XFin 0]; [XFin 0; XFin 1]; [XFin (1#2); XFin (1#2)]; [XFin 1; XFin 0]] |}];
     co_R := [{| cb_tag := [0]; cb_atag := [0]; cb_rows := 2; cb_cols := 2 |}];
     co_d := d |}.
Lemma coop_discount_refuted_lemma :
  coop_ctor false (coop_witness (XFin 5)) = (Some (coop_witness (XFin 5)), Ok) /\
  coop_ctor false (coop_witness XNaN) = (Some (coop_witness XNaN), Ok) /\
  coop_ctor true (coop_witness (XFin 5)) = (None, Throw) /\
  coop_ctor true (coop_witness (XFin (1#2))) = (Some (coop_witness (XFin (1#2))), Ok).
Proof. repeat split; vm_compute; reflexivity. Qed.

(* ---------------------------------------------------------------- checker soundness *)
Lemma sincb_sorted : forall l, sincb l = true -> Sorted lt l.
Proof.
  induction l as [|a l IH]; intros H; [constructor|]. destruct l as [|b l]; [repeat constructor|].
  cbn [sincb] in H. apply andb_true_iff in H. destruct H as [Hab Hl]. apply Nat.ltb_lt in Hab.
  constructor; [apply IH; exact Hl| constructor; exact Hab].
Qed.

Lemma tag_okb_sound : forall space tag, tag_okb space tag = true -> tag_ok space tag.
Proof.
  intros space tag H. unfold tag_okb in H. apply andb_true_iff in H. destruct H as [H H3].
  apply andb_true_iff in H. destruct H as [H1 H2]. split; [|split].
  - intros ->. discriminate.
  - apply sincb_sorted. exact H2.
  - apply Forall_forall. intros v Hv. rewrite forallb_forall in H3. apply Nat.ltb_lt. apply H3. exact Hv.
Qed.

Lemma valid_coopb_sound : forall c, valid_coopb c = true -> valid_coop c.
Proof.
  intros c H. unfold valid_coopb in H.
  apply andb_true_iff in H. destruct H as [H HB]. apply andb_true_iff in H. destruct H as [H HN].
  apply andb_true_iff in H. destruct H as [H HT]. apply andb_true_iff in H. destruct H as [H HP].
  apply andb_true_iff in H. destruct H as [H HA]. apply andb_true_iff in H. destruct H as [HD HS].
  apply negb_true_iff in HS. apply negb_true_iff in HA. apply Nat.eqb_neq in HS. apply Nat.eqb_neq in HA.
  apply Nat.eqb_eq in HP. apply Nat.eqb_eq in HT.
  unfold valid_coop. split; [apply disc_okb_sound; exact HD|].
  split; [intros Hc; rewrite Hc in HS; apply HS; reflexivity|]. split; [intros Hc; rewrite Hc in HA; apply HA; reflexivity|].
  split; [exact HP|]. split; [exact HT|]. split.
  - intros i Hi. rewrite forallb_forall in HN. specialize (HN i ltac:(apply in_seq; lia)).
    unfold cnode_validb in HN.
    apply andb_true_iff in HN. destruct HN as [HN H4]. apply andb_true_iff in HN. destruct HN as [HN H3].
    apply andb_true_iff in HN. destruct HN as [H1 H2].
    split; [apply Nat.eqb_eq; exact H1|]. split; [apply Nat.eqb_eq; exact H2|]. split; [apply Nat.eqb_eq; exact H3|].
    apply Forall_forall. intros r Hr. rewrite forallb_forall in H4. specialize (H4 r Hr).
    apply andb_true_iff in H4. destruct H4 as [A B]. split; [apply Nat.eqb_eq; exact A| apply prob_row_tolb_sound; exact B].
  - apply Forall_forall. intros b Hb. rewrite forallb_forall in HB. specialize (HB b Hb).
    unfold cbasis_validb in HB.
    apply andb_true_iff in HB. destruct HB as [HB H4]. apply andb_true_iff in HB. destruct HB as [HB H3].
    apply andb_true_iff in HB. destruct HB as [H1 H2].
    split; [apply tag_okb_sound; exact H1|]. split; [apply tag_okb_sound; exact H2|].
    split; apply Nat.eqb_eq; assumption.
Qed.

Lemma cpush_history_wf : forall S A ps, cgraph_wf (cpush_all {| cg_S := S; cg_A := A; cg_parents := [] |} ps).
Proof. intros S A ps. apply cpush_all_wf. apply cgraph_new_wf. Qed.

Lemma cps_validb_sound : forall S A p, cps_validb S A p = true -> cps_valid S A p.
Proof.
  intros S A p H. unfold cps_validb in H. apply andb_true_iff in H. destruct H as [H H3].
  apply andb_true_iff in H. destruct H as [H1 H2]. split; [apply tag_okb_sound; exact H1|].
  split; [apply Nat.eqb_eq; exact H2|]. apply Forall_forall. intros f Hf. rewrite forallb_forall in H3.
  apply tag_okb_sound. apply H3. exact Hf.
Qed.
