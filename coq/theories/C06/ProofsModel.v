(* C06/ProofsModel.v — validate-then-commit for the four model classes: every accepted
   constructor/setter leaves a valid object, every rejected one leaves the object unchanged. *)
From Coq Require Import List Arith QArith Qminmax Lqa Lia Bool.
From AIT Require Import Base.Qx C06.Model C06.Spec C06.ProofsProb.
Import ListNotations.
Local Open Scope Q_scope.

(* ---------------------------------------------------------------- list plumbing *)
Lemma nth_map_seq_gen : forall (A : Type) (f : nat -> A) n start i d, (i < n)%nat ->
  nth i (map f (seq start n)) d = f (start + i)%nat.
Proof.
  induction n as [|n IH]; intros start i d Hi; [lia|]. cbn [seq map].
  destruct i as [|i]; cbn [nth]; [f_equal; lia|]. rewrite IH by lia. f_equal. lia.
Qed.

Lemma nth_map_seq : forall (A : Type) (f : nat -> A) n i d, (i < n)%nat -> nth i (map f (seq 0 n)) d = f i.
Proof. intros. rewrite nth_map_seq_gen by assumption. reflexivity. Qed.

Lemma nth_map_lt : forall (A B : Type) (f : A -> B) l i d d', (i < length l)%nat ->
  nth i (map f l) d = f (nth i l d').
Proof.
  intros A B f l. induction l as [|x l IH]; intros i d d' Hi; cbn [length] in Hi; [lia|].
  destruct i; cbn [map nth]; [reflexivity| apply IH; lia].
Qed.

Lemma length_map_seq : forall (A : Type) (f : nat -> A) n, length (map f (seq 0 n)) = n.
Proof. intros. rewrite map_length, seq_length. reflexivity. Qed.

Lemma shape2_spec : forall (A : Type) n1 n2 (m : list (list A)), shape2 n1 n2 m = true ->
  length m = n1 /\ forall i, (i < n1)%nat -> length (nth i m []) = n2.
Proof.
  intros A n1 n2 m H. unfold shape2 in H. apply andb_true_iff in H. destruct H as [H1 H2].
  apply Nat.eqb_eq in H1. split; [exact H1|]. intros i Hi. rewrite forallb_forall in H2.
  apply Nat.eqb_eq. apply H2. apply nth_In. lia.
Qed.

Lemma shape3_spec : forall (A : Type) n1 n2 n3 (t : list (list (list A))), shape3 n1 n2 n3 t = true ->
  length t = n1 /\ forall i, (i < n1)%nat -> length (nth i t []) = n2 /\
    forall j, (j < n2)%nat -> length (nth j (nth i t []) []) = n3.
Proof.
  intros A n1 n2 n3 t H. unfold shape3 in H. apply andb_true_iff in H. destruct H as [H1 H2].
  apply Nat.eqb_eq in H1. split; [exact H1|]. intros i Hi. rewrite forallb_forall in H2.
  apply shape2_spec. apply H2. apply nth_In. lia.
Qed.

Lemma Forall2_nth : forall (P : list xq -> Prop) t i j, Forall (Forall P) t ->
  (i < length t)%nat -> (j < length (nth i t []))%nat -> P (nth j (nth i t []) []).
Proof.
  intros P t i j H Hi Hj. rewrite Forall_forall in H. specialize (H (nth i t []) (nth_In _ _ Hi)).
  rewrite Forall_forall in H. apply H. apply nth_In. exact Hj.
Qed.

(* ---------------------------------------------------------------- tab_ok constructions *)
Lemma tab_ok_direct : forall P n1 n2 n3 t, shape3 n1 n2 n3 t = true -> Forall (Forall P) t ->
  tab_ok P n1 n2 n3 t.
Proof.
  intros P n1 n2 n3 t Hs HF. destruct (shape3_spec _ _ _ _ _ Hs) as [L1 L2]. split; [exact L1|].
  intros i Hi. destruct (L2 i Hi) as [L3 L4]. split; [exact L3|]. intros j Hj. split; [apply L4; exact Hj|].
  apply Forall2_nth; [exact HF| lia| lia].
Qed.

Lemma tab_ok_transpose : forall P n1 n2 n3 t, shape3 n1 n2 n3 t = true -> Forall (Forall P) t ->
  tab_ok P n2 n1 n3 (transpose01 n1 n2 t).
Proof.
  intros P n1 n2 n3 t Hs HF. destruct (shape3_spec _ _ _ _ _ Hs) as [L1 L2]. unfold transpose01.
  split; [apply length_map_seq|]. intros j Hj. rewrite nth_map_seq by exact Hj.
  split; [apply length_map_seq|]. intros i Hi. rewrite nth_map_seq by exact Hi.
  destruct (L2 i Hi) as [L3 L4]. split; [apply L4; exact Hj|]. apply Forall2_nth; [exact HF| lia| lia].
Qed.

Lemma tab_ok_map : forall (P Q : list xq -> Prop) g n1 n2 n3 T, tab_ok P n1 n2 n3 T ->
  (forall r, length r = n3 -> P r -> length (g r) = n3 /\ Q (g r)) ->
  tab_ok Q n1 n2 n3 (map (map g) T).
Proof.
  intros P Q g n1 n2 n3 T [L1 L2] Hg. split; [rewrite map_length; exact L1|].
  intros i Hi. rewrite (nth_map_lt _ _ (map g) T i [] []) by lia.
  destruct (L2 i Hi) as [L3 L4]. split; [rewrite map_length; exact L3|].
  intros j Hj. rewrite (nth_map_lt _ _ g (nth i T []) j [] []) by lia.
  destruct (L4 j Hj) as [L5 HP]. apply Hg; assumption.
Qed.

Lemma tab_ok_weaken : forall (P Q : list xq -> Prop) n1 n2 n3 T, (forall r, P r -> Q r) ->
  tab_ok P n1 n2 n3 T -> tab_ok Q n1 n2 n3 T.
Proof.
  intros P Q n1 n2 n3 T HPQ [L1 L2]. split; [exact L1|]. intros i Hi. destruct (L2 i Hi) as [L3 L4].
  split; [exact L3|]. intros j Hj. destruct (L4 j Hj) as [L5 HP]. split; [exact L5| apply HPQ; exact HP].
Qed.

Lemma prob_row_tol_weaken : forall neg tol neg' tol' l, neg <= neg' -> tol <= tol' ->
  prob_row_tol neg tol l -> prob_row_tol neg' tol' l.
Proof.
  intros neg tol neg' tol' l Hn Ht [ql [-> [HF [L U]]]]. exists ql. split; [reflexivity|].
  split; [| split; lra]. eapply Forall_impl; [|exact HF]. cbn beta. intros x Hx. lra.
Qed.

Lemma inject_nat_nonneg : forall n, 0 <= inject_Z (Z.of_nat n).
Proof. intros n. unfold Qle. cbn. lia. Qed.

Lemma inject_nat_S : forall n, inject_Z (Z.of_nat (S n)) == inject_Z (Z.of_nat n) + 1.
Proof. intros n. rewrite Nat2Z.inj_succ. unfold Z.succ. rewrite inject_Z_plus. reflexivity. Qed.

Lemma ksum_ge_eps : forall k n, epsS <= ksum k n.
Proof. intros k n. unfold ksum. lra. Qed.

Lemma kneg_bounds : forall k, 0 <= kneg k /\ kneg k <= epsS.
Proof. intros k. unfold kneg. pose proof epsS_pos. split; lra. Qed.

Lemma prob_row_k : forall k n l, prob_row l -> prob_row_tol (kneg k) (ksum k n) l.
Proof.
  intros k n l H. destruct (kneg_bounds k). apply (prob_row_tol_weaken 0 epsS); [assumption| apply ksum_ge_eps| exact H].
Qed.

(* ---------------------------------------------------------------- sparsification of a valid row *)
Lemma drop_small_cases : forall x, drop_small x = x \/
  (drop_small x = XFin 0 /\ exists q, x = XFin q /\ - epsS <= q /\ q <= epsS).
Proof.
  intros x. unfold drop_small, checkDifferentSmall.
  destruct (checkEqualSmall (XFin 0) x) eqn:E; cbn [negb]; [|left; reflexivity].
  right. split; [reflexivity|]. apply checkEqualSmall_fin_l in E. destruct E as [q [-> [L U]]].
  exists q. split; [reflexivity|]. split; lra.
Qed.

Lemma drop_small_row : forall ql, nonneg ql -> exists ql',
  map drop_small (map XFin ql) = map XFin ql' /\ nonneg ql' /\
  qsum ql - inject_Z (Z.of_nat (length ql)) * epsS <= qsum ql' /\ qsum ql' <= qsum ql.
Proof.
  induction ql as [|x ql IH]; intros Hn.
  - exists []. cbn [map qsum length]. split; [reflexivity|]. split; [constructor|].
    change (inject_Z (Z.of_nat 0)) with 0. split; lra.
  - inversion Hn as [|? ? Hx Hn']; subst. destruct (IH Hn') as [ql' [E [Hn2 [L U]]]].
    pose proof (inject_nat_S (length ql)) as HS. pose proof epsS_pos as He.
    cbn [map length qsum]. rewrite E.
    destruct (drop_small_cases (XFin x)) as [D|[D [q [Eq [Lq Uq]]]]]; rewrite D.
    + exists (x :: ql'). split; [reflexivity|]. split; [constructor; assumption|]. cbn [qsum].
      rewrite HS. pose proof (inject_nat_nonneg (length ql)). split; nra.
    + inversion Eq; subst q. exists (0 :: ql'). split; [reflexivity|].
      split; [constructor; [lra| assumption]|]. cbn [qsum]. rewrite HS.
      pose proof (inject_nat_nonneg (length ql)). split; nra.
Qed.

Lemma drop_small_prob_row : forall n l, length l = n -> prob_row l ->
  length (map drop_small l) = n /\ prob_row_tol (kneg0 Sparse) (ksum0 Sparse n) (map drop_small l).
Proof.
  intros n l Hl [ql [-> [Hn [L U]]]]. split; [rewrite map_length; exact Hl|].
  apply nonneg_neg0 in Hn. destruct (drop_small_row ql Hn) as [ql' [E [Hn' [L' U']]]].
  rewrite map_length in Hl. rewrite Hl in L'. pose proof epsS_pos.
  exists ql'. split; [exact E|]. cbn [kneg0 ksum0]. split.
  - eapply Forall_impl; [|exact Hn']. cbn beta. intros x Hx. lra.
  - pose proof (inject_nat_nonneg n). split; nra.
Qed.

(* ---------------------------------------------------------------- identity / initial rows *)
Lemma qsum_indicator : forall c n start,
  qsum (map (fun j => if (j =? c)%nat then 1 else 0) (seq start n)) ==
  if ((start <=? c) && (c <? start + n))%nat then 1 else 0.
Proof.
  intros c. induction n as [|n IH]; intros start; cbn [seq map qsum].
  - destruct (Nat.leb_spec start c), (Nat.ltb_spec c (start + 0)); cbn [andb]; try lra; exfalso; lia.
  - rewrite IH.
    destruct (Nat.eqb_spec start c), (Nat.leb_spec start c), (Nat.ltb_spec c (start + S n)),
      (Nat.leb_spec (S start) c), (Nat.ltb_spec c (S start + n)); cbn [andb]; try lra; exfalso; lia.
Qed.

Lemma indicator_row_prob : forall c n, (c < n)%nat ->
  prob_row (map (fun j => if (j =? c)%nat then XFin 1 else XFin 0) (seq 0 n)).
Proof.
  intros c n Hc. exists (map (fun j => if (j =? c)%nat then 1 else 0) (seq 0 n)).
  split; [rewrite map_map; apply map_ext; intros j; destruct (j =? c)%nat; reflexivity|].
  split.
  - apply Forall_forall. intros x Hx. apply in_map_iff in Hx. destruct Hx as [j [<- _]].
    destruct (j =? c)%nat; lra.
  - rewrite qsum_indicator. assert (H1 : (0 <=? c)%nat = true) by (apply Nat.leb_le; lia).
    assert (H2 : (c <? 0 + n)%nat = true) by (apply Nat.ltb_lt; lia). rewrite H1, H2. cbn [andb].
    pose proof epsS_pos. split; lra.
Qed.

Lemma identity3_ok : forall S A, tab_ok prob_row A S S (identity3 S A).
Proof.
  intros S A. unfold identity3. split; [apply length_map_seq|]. intros a Ha. rewrite nth_map_seq by exact Ha.
  split; [apply length_map_seq|]. intros s Hs. rewrite nth_map_seq by exact Hs.
  split; [apply length_map_seq|].
  replace (map (fun s1 => if (s =? s1)%nat then XFin 1 else XFin 0) (seq 0 S))
    with (map (fun j => if (j =? s)%nat then XFin 1 else XFin 0) (seq 0 S))
    by (apply map_ext; intros j; rewrite (Nat.eqb_sym j s); reflexivity).
  apply indicator_row_prob. exact Hs.
Qed.

Lemma initOb_ok : forall S A O, (0 < O)%nat -> tab_ok prob_row A S O (initOb S A O).
Proof.
  intros S A O HO. unfold initOb. split; [apply length_map_seq|]. intros a Ha. rewrite nth_map_seq by exact Ha.
  split; [apply length_map_seq|]. intros s Hs. rewrite nth_map_seq by exact Hs.
  split; [apply length_map_seq|]. apply indicator_row_prob. exact HO.
Qed.

Lemma zeroR_ok : forall S A, rshape_ok S A (zeroR S A).
Proof.
  intros S A. unfold zeroR. split; [apply repeat_length|]. intros i Hi.
  rewrite (nth_indep _ [] (repeat 0 A)) by (rewrite repeat_length; exact Hi).
  rewrite nth_repeat. apply repeat_length.
Qed.

Lemma rewards3_ok : forall k S A T r, rshape_ok S A (rewards3 k S A T r).
Proof.
  intros k S A T r. unfold rewards3. split; [apply length_map_seq|]. intros i Hi.
  rewrite nth_map_seq by exact Hi. apply length_map_seq.
Qed.

Lemma copyR_ok : forall k S A t r, rshape_ok S A (copyR k S A t r).
Proof.
  intros k S A t r. unfold copyR. split; [apply length_map_seq|]. intros i Hi.
  rewrite nth_map_seq by exact Hi. apply length_map_seq.
Qed.

Lemma shape2_rshape : forall n1 n2 r, shape2 n1 n2 r = true -> rshape_ok n1 n2 r.
Proof. intros n1 n2 r H. exact (shape2_spec _ _ _ _ H). Qed.

(* ---------------------------------------------------------------- setT3 / setTM / setO3 *)
Lemma tab_ok_strengthen : forall (P Q : list xq -> Prop) n1 n2 n3 T,
  tab_ok Q n1 n2 n3 T -> Forall (Forall P) T -> tab_ok P n1 n2 n3 T.
Proof.
  intros P Q n1 n2 n3 T [L1 L2] HF. split; [exact L1|]. intros i Hi. destruct (L2 i Hi) as [L3 L4].
  split; [exact L3|]. intros j Hj. destruct (L4 j Hj) as [L5 _]. split; [exact L5|].
  apply Forall2_nth; [exact HF| lia| lia].
Qed.

Lemma setT3_ok : forall k S A n3 t T, shape3 S A n3 t = true -> setT3 true k S A t = Some T ->
  tab_ok (prob_row_tol (kneg k) (ksum k n3)) A S n3 T.
Proof.
  intros k S A n3 t T Hs H. unfold setT3 in H. destruct (isProbability3 t) eqn:E; [|discriminate].
  apply isProbability3_iff_lemma in E. pose proof (tab_ok_transpose _ _ _ _ _ Hs E) as Hok.
  destruct k.
  - inversion H; subst T. exact Hok.
  - cbn [andb isProbabilityS3f] in H.
    destruct (isProbability3 (map (map (map drop_small)) (transpose01 S A t))) eqn:E2; cbn [negb] in H; [|discriminate].
    inversion H; subst T. apply isProbability3_iff_lemma in E2.
    eapply tab_ok_strengthen; [|exact E2].
    eapply (tab_ok_map _ (fun _ => True)); [exact Hok|]. intros r Hl _. split; [rewrite map_length; exact Hl| exact I].
Qed.

Lemma setO3_eq : forall fixed k S A t, setO3 fixed k S A t = setT3 fixed k S A t.
Proof. reflexivity. Qed.

Lemma setTM_ok : forall k n1 n2 n3 t T, shape3 n1 n2 n3 t = true -> setTM true k t = Some T ->
  T = t /\ tab_ok (prob_row_tol (kneg k) (ksum k n3)) n1 n2 n3 T.
Proof.
  intros k n1 n2 n3 t T Hs H. unfold setTM in H. destruct k.
  - destruct (isProbabilityM3 t) eqn:E; [|discriminate]. inversion H; subst T. split; [reflexivity|].
    apply isProbabilityM3_iff_lemma in E. exact (tab_ok_direct _ _ _ _ _ Hs E).
  - cbn [isProbabilityS3f] in H. destruct (isProbability3 t) eqn:E; [|discriminate]. inversion H; subst T.
    split; [reflexivity|]. apply isProbability3_iff_lemma in E. exact (tab_ok_direct _ _ _ _ _ Hs E).
Qed.

Lemma setTM_same : forall fixed k t T, setTM fixed k t = Some T -> T = t.
Proof. intros fixed k t T H. unfold setTM in H. destruct (match k with Dense => _ | Sparse => _ end); inversion H; reflexivity. Qed.

(* ---------------------------------------------------------------- copy constructors *)
Lemma all_some_spec : forall (A : Type) (l : list (option A)) r, all_some l = Some r ->
  length r = length l /\ forall i d, (i < length l)%nat -> nth i l None = Some (nth i r d).
Proof.
  intros A. induction l as [|x l IH]; intros r H; cbn [all_some] in H.
  - inversion H; subst r. split; [reflexivity|]. intros i d Hi. cbn in Hi. lia.
  - destruct x as [x|]; [|discriminate]. destruct (all_some l) as [r'|] eqn:E; [|discriminate].
    inversion H; subst r. destruct (IH r' eq_refl) as [L N]. split; [cbn [length]; lia|].
    intros i d Hi. destruct i; cbn [nth]; [reflexivity|]. apply N. cbn [length] in Hi. lia.
Qed.

Lemma sp_copy_row_length : forall l k, sp_copy_row l = Some k -> length k = length l.
Proof.
  induction l as [|p l IH]; intros k H; cbn [sp_copy_row] in H.
  - inversion H. reflexivity.
  - destruct (xlt p (XFin 0) || xlt (XFin 1) p); [discriminate|].
    destruct (sp_copy_row l) as [k'|] eqn:E; [|discriminate]. inversion H; subst k. cbn [length].
    rewrite (IH k' eq_refl). reflexivity.
Qed.

Lemma sp_copy_row_nonneg : forall l ql, sp_copy_row l = Some (map XFin ql) -> nonneg ql.
Proof.
  induction l as [|p l IH]; intros ql H; cbn [sp_copy_row] in H.
  - destruct ql; [constructor| discriminate].
  - destruct (xlt p (XFin 0) || xlt (XFin 1) p) eqn:Ep; [discriminate|].
    destruct (sp_copy_row l) as [k'|] eqn:E; [|discriminate].
    destruct ql as [|q ql]; [discriminate|]. cbn [map] in H. inversion H as [[Hq Hk]]. subst k'.
    constructor; [| apply IH; reflexivity].
    apply orb_false_iff in Ep. destruct Ep as [Ep _].
    destruct (drop_small_cases p) as [D|[D _]]; rewrite D in Hq.
    + subst p. apply xlt_fin0_false in Ep. exact Ep.
    + inversion Hq. lra.
Qed.

Lemma copy_row_ok : forall k l r, copy_row k l = Some r -> length r = length l /\ prob_row r.
Proof.
  intros k l r H. destruct k; cbn [copy_row] in H.
  - destruct (isProbability1 l) eqn:E; [|discriminate]. inversion H; subst r. split; [reflexivity|].
    apply isProbability1_iff_lemma. exact E.
  - unfold sp_copy_row_checked in H. destruct (sp_copy_row l) as [k|] eqn:E; [|discriminate].
    destruct (checkDifferentSmall (XFin 1) (xsum k)) eqn:Ec; [discriminate|]. inversion H; subst r.
    split; [apply sp_copy_row_length; exact E|].
    unfold checkDifferentSmall in Ec. apply negb_false_iff in Ec. apply checkEqualSmall_fin_l in Ec.
    destruct Ec as [s [Es [L U]]]. destruct (xsum_fin_inv _ _ Es) as [ql [-> Hs]].
    exists ql. split; [reflexivity|]. split; [apply nonneg_neg0; eapply sp_copy_row_nonneg; exact E|]. split; lra.
Qed.

Lemma copyT_ok : forall k S A n3 t T, shape3 S A n3 t = true -> copyT k S A t = Some T ->
  tab_ok prob_row A S n3 T.
Proof.
  intros k S A n3 t T Hs H. destruct (shape3_spec _ _ _ _ _ Hs) as [L1 L2]. unfold copyT in H.
  destruct (all_some_spec _ _ _ H) as [LT NT]. rewrite length_map_seq in LT, NT.
  split; [exact LT|]. intros a Ha. specialize (NT a [] Ha). rewrite nth_map_seq in NT by exact Ha.
  destruct (all_some_spec _ _ _ NT) as [LM NM]. rewrite length_map_seq in LM, NM.
  split; [exact LM|]. intros s Hs'. specialize (NM s [] Hs'). rewrite nth_map_seq in NM by exact Hs'.
  destruct (copy_row_ok _ _ _ NM) as [Lr Pr]. destruct (L2 s Hs') as [_ L4]. split; [|exact Pr].
  rewrite Lr. apply L4. exact Ha.
Qed.

(* ---------------------------------------------------------------- MDP state machine *)
Lemma valid_tab_k : forall k n1 n2 n3 T, tab_ok prob_row n1 n2 n3 T ->
  tab_ok (prob_row_tol (kneg k) (ksum k n3)) n1 n2 n3 T.
Proof. intros. eapply tab_ok_weaken; [|eassumption]. intros r Hr. apply prob_row_k. exact Hr. Qed.

Lemma construct_valid : forall k o m r, construct true k o = (Some m, r) -> valid_model_k k m /\ r = Ok.
Proof.
  intros k o m r H. destruct o; cbn [construct] in H; try discriminate.
  - (* Ctor3 *) cbn [andb] in H. destruct (setDiscount_ok true d) eqn:Ed; cbn [negb] in H; [|discriminate].
    inversion H; subst m r. split; [|reflexivity]. unfold valid_model_k, valid_model_tol. cbn [mS mA mT mR mD].
    split; [apply valid_tab_k; apply identity3_ok|]. split; [apply zeroR_ok|]. apply setDiscount_iff_lemma. exact Ed.
  - (* CtorTables *)
    destruct (shape3 s a s t && shape3 s a s r0) eqn:Es; cbn [negb] in H; [|discriminate].
    apply andb_true_iff in Es. destruct Es as [Es _].
    destruct (setDiscount_ok true d) eqn:Ed; cbn [negb] in H; [|discriminate].
    destruct (setT3 true k s a t) as [T|] eqn:ET; [|discriminate]. inversion H; subst m r. split; [|reflexivity].
    unfold valid_model_k, valid_model_tol. cbn [mS mA mT mR mD].
    split; [eapply setT3_ok; eassumption|]. split; [apply rewards3_ok|]. apply setDiscount_iff_lemma. exact Ed.
  - (* CtorCopy *)
    destruct (shape3 (gS g) (gA g) (gS g) (gT g) && shape3 (gS g) (gA g) (gS g) (gR g)) eqn:Es; cbn [negb] in H; [|discriminate].
    apply andb_true_iff in Es. destruct Es as [Es _].
    destruct (setDiscount_ok true (gD g)) eqn:Ed; cbn [negb] in H; [|discriminate].
    destruct (copyT k (gS g) (gA g) (gT g)) as [T|] eqn:ET; [|discriminate]. inversion H; subst m r. split; [|reflexivity].
    unfold valid_model_k, valid_model_tol. cbn [mS mA mT mR mD].
    split; [apply valid_tab_k; eapply copyT_ok; eassumption|]. split; [apply copyR_ok|]. apply setDiscount_iff_lemma. exact Ed.
Qed.

Lemma construct_none : forall fixed k o r, construct fixed k o = (None, r) -> r <> Ok.
Proof.
  intros fixed k o r H. destruct o; cbn [construct] in H; try (inversion H; discriminate).
  - destruct (fixed && negb (setDiscount_ok fixed d)); inversion H; discriminate.
  - destruct (negb (shape3 s a s t && shape3 s a s r0)); [inversion H; discriminate|].
    destruct (negb (setDiscount_ok fixed d)); [inversion H; discriminate|].
    destruct (setT3 fixed k s a t); inversion H; discriminate.
  - destruct (negb (shape3 (gS g) (gA g) (gS g) (gT g) && shape3 (gS g) (gA g) (gS g) (gR g))); [inversion H; discriminate|].
    destruct (negb (setDiscount_ok fixed (gD g))); [inversion H; discriminate|].
    destruct (copyT k (gS g) (gA g) (gT g)); inversion H; discriminate.
Qed.

Lemma setter_valid : forall k m o m' r, valid_model_k k m -> setter true k m o = (m', r) ->
  valid_model_k k m' /\ (r <> Ok -> m' = m).
Proof.
  intros k m o m' r [HT [HR HD]] H. destruct o; cbn [setter] in H;
    try (inversion H; subst m' r; split; [split; [exact HT| split; [exact HR| exact HD]]| reflexivity]).
  - (* SetT3 *)
    destruct (shape3 (mS m) (mA m) (mS m) t) eqn:Es; cbn [negb] in H;
      [| inversion H; subst m' r; split; [split; [exact HT| split; [exact HR| exact HD]]| reflexivity]].
    destruct (setT3 true k (mS m) (mA m) t) as [T|] eqn:ET;
      [| inversion H; subst m' r; split; [split; [exact HT| split; [exact HR| exact HD]]| reflexivity]].
    inversion H; subst m' r. split; [|congruence]. unfold valid_model_k, valid_model_tol. cbn [mS mA mT mR mD].
    split; [eapply setT3_ok; eassumption|]. split; [exact HR| exact HD].
  - (* SetTM *)
    destruct (shape3 (mA m) (mS m) (mS m) t) eqn:Es; cbn [negb] in H;
      [| inversion H; subst m' r; split; [split; [exact HT| split; [exact HR| exact HD]]| reflexivity]].
    destruct (setTM true k t) as [T|] eqn:ET;
      [| inversion H; subst m' r; split; [split; [exact HT| split; [exact HR| exact HD]]| reflexivity]].
    inversion H; subst m' r. split; [|congruence]. unfold valid_model_k, valid_model_tol. cbn [mS mA mT mR mD].
    destruct (setTM_ok _ _ _ _ _ _ Es ET) as [_ Hok]. split; [exact Hok|]. split; [exact HR| exact HD].
  - (* SetR3 *)
    destruct (shape3 (mS m) (mA m) (mS m) r0) eqn:Es; cbn [negb] in H;
      [| inversion H; subst m' r; split; [split; [exact HT| split; [exact HR| exact HD]]| reflexivity]].
    inversion H; subst m' r. split; [|congruence]. unfold valid_model_k, valid_model_tol. cbn [mS mA mT mR mD].
    split; [exact HT|]. split; [apply rewards3_ok| exact HD].
  - (* SetRM *)
    destruct (shape2 (mS m) (mA m) r0) eqn:Es; cbn [negb] in H;
      [| inversion H; subst m' r; split; [split; [exact HT| split; [exact HR| exact HD]]| reflexivity]].
    inversion H; subst m' r. split; [|congruence]. unfold valid_model_k, valid_model_tol. cbn [mS mA mT mR mD].
    split; [exact HT|]. split; [apply shape2_rshape; exact Es| exact HD].
  - (* SetDiscount *)
    destruct (setDiscount_ok true d) eqn:Ed;
      [| inversion H; subst m' r; split; [split; [exact HT| split; [exact HR| exact HD]]| reflexivity]].
    inversion H; subst m' r. split; [|congruence]. unfold valid_model_k, valid_model_tol. cbn [mS mA mT mR mD].
    split; [exact HT|]. split; [exact HR| apply setDiscount_iff_lemma; exact Ed].
Qed.

Lemma step_valid : forall k st o st' r, ovalid (valid_model_k k) st -> step true k st o = (st', r) ->
  ovalid (valid_model_k k) st' /\ (r <> Ok -> st' = st).
Proof.
  intros k st o st' r Hv H. unfold step in H. destruct (is_ctor o).
  - destruct (construct true k o) as [[m|] r'] eqn:Ec; inversion H; subst st' r.
    + destruct (construct_valid _ _ _ _ Ec) as [Hm ->]. split; [exact Hm| congruence].
    + split; [exact Hv| reflexivity].
  - destruct st as [m|]; [| inversion H; subst st' r; split; [exact I| reflexivity]].
    destruct (setter true k m o) as [m' r'] eqn:Es. inversion H; subst st' r.
    destruct (setter_valid _ _ _ _ _ Hv Es) as [Hm Hu]. split; [exact Hm|]. intros Hr. rewrite (Hu Hr). reflexivity.
Qed.

Lemma run_valid_from : forall k ops st, ovalid (valid_model_k k) st ->
  ovalid (valid_model_k k) (fold_left (fun st o => fst (step true k st o)) ops st).
Proof.
  intros k. induction ops as [|o ops IH]; intros st Hv; cbn [fold_left]; [exact Hv|].
  apply IH. destruct (step true k st o) as [st' r] eqn:E. cbn [fst]. exact (proj1 (step_valid _ _ _ _ _ Hv E)).
Qed.

(* the theorem of the property for MDP::Model (k = Dense) and MDP::SparseModel (k = Sparse) *)
Lemma setter_validate_then_commit_k_lemma : forall k,
  (forall st o st' r, ovalid (valid_model_k k) st -> step true k st o = (st', r) ->
     ovalid (valid_model_k k) st' /\ (r <> Ok -> st' = st)) /\
  (forall ops, ovalid (valid_model_k k) (run true k ops)).
Proof.
  intros k. split; [apply step_valid|]. intros ops. unfold run. apply run_valid_from. exact I.
Qed.

Lemma valid_model_k_dense : forall m, valid_model_k Dense m <-> valid_model m.
Proof. intros m. unfold valid_model_k, valid_model, kneg, ksum. tauto. Qed.

Lemma valid_model_k_any : forall k m, valid_model_k k m <-> valid_model m.
Proof. intros k m. unfold valid_model_k, valid_model, kneg, ksum. tauto. Qed.

(* both MDP classes, the property's own notion of validity *)
Lemma setter_validate_then_commit_lemma : forall k,
  (forall st o st' r, ovalid valid_model st -> step true k st o = (st', r) ->
     ovalid valid_model st' /\ (r <> Ok -> st' = st)) /\
  (forall ops, ovalid valid_model (run true k ops)).
Proof.
  intros k. destruct (setter_validate_then_commit_k_lemma k) as [H1 H2]. split.
  - intros st o st' r Hv Hs. destruct (H1 st o st' r) as [A B]; [destruct st; [apply valid_model_k_any|]; exact Hv| exact Hs|].
    split; [destruct st'; [apply (valid_model_k_any k)|]; exact A| exact B].
  - intros ops. specialize (H2 ops). destruct (run true k ops); [apply (valid_model_k_any k)|]; exact H2.
Qed.

(* ---------------------------------------------------------------- POMDP state machine *)
Lemma pconstruct_valid : forall kb ko o p r, pconstruct true kb ko o = (Some p, r) ->
  valid_pmodel_k kb ko p /\ r = Ok.
Proof.
  intros kb ko o p r H. destruct o; cbn [pconstruct] in H; try discriminate.
  - (* PCtor *)
    destruct (negb (is_ctor c) || (o =? 0)%nat) eqn:Ep; [discriminate|].
    apply orb_false_iff in Ep. destruct Ep as [_ Eo]. apply Nat.eqb_neq in Eo.
    destruct (construct true kb c) as [[m|] r'] eqn:Ec; [|discriminate]. inversion H; subst p r.
    destruct (construct_valid _ _ _ _ Ec) as [Hm _]. split; [|reflexivity]. split; [exact Hm|].
    cbn [pM pO pOb]. apply valid_tab_k. apply initOb_ok. lia.
  - (* PCtorOb *)
    destruct (negb (is_ctor c)); [discriminate|].
    destruct (construct true kb c) as [[m|] r'] eqn:Ec; [|discriminate].
    destruct (shape3 (mS m) (mA m) o obf) eqn:Es; cbn [negb] in H; [|discriminate].
    destruct (setO3 true ko (mS m) (mA m) obf) as [ob|] eqn:EO; [|discriminate]. inversion H; subst p r.
    destruct (construct_valid _ _ _ _ Ec) as [Hm _]. split; [|reflexivity]. split; [exact Hm|].
    cbn [pM pO pOb]. rewrite setO3_eq in EO. eapply setT3_ok; eassumption.
  - (* PCtorCopy *)
    destruct (construct true kb (CtorCopy (gpM g))) as [[m|] r'] eqn:Ec; [|discriminate].
    destruct (shape3 (mS m) (mA m) (gpO g) (gpOb g)) eqn:Es; cbn [negb] in H; [|discriminate].
    destruct (copyT ko (mS m) (mA m) (gpOb g)) as [ob|] eqn:EO; [|discriminate]. inversion H; subst p r.
    destruct (construct_valid _ _ _ _ Ec) as [Hm _]. split; [|reflexivity]. split; [exact Hm|].
    cbn [pM pO pOb]. apply valid_tab_k. eapply copyT_ok; eassumption.
Qed.

Lemma setter_dims : forall fixed k m o m' r, setter fixed k m o = (m', r) -> mS m' = mS m /\ mA m' = mA m.
Proof.
  intros fixed k m o m' r H. destruct o; cbn [setter] in H; try (inversion H; subst; split; reflexivity).
  - destruct (negb (shape3 (mS m) (mA m) (mS m) t)); [inversion H; subst; split; reflexivity|].
    destruct (setT3 fixed k (mS m) (mA m) t); inversion H; subst; split; reflexivity.
  - destruct (negb (shape3 (mA m) (mS m) (mS m) t)); [inversion H; subst; split; reflexivity|].
    destruct (setTM fixed k t); inversion H; subst; split; reflexivity.
  - destruct (negb (shape3 (mS m) (mA m) (mS m) r0)); inversion H; subst; split; reflexivity.
  - destruct (negb (shape2 (mS m) (mA m) r0)); inversion H; subst; split; reflexivity.
  - destruct (setDiscount_ok fixed d); inversion H; subst; split; reflexivity.
Qed.

Lemma psetter_valid : forall kb ko p o p' r, valid_pmodel_k kb ko p -> psetter true kb ko p o = (p', r) ->
  valid_pmodel_k kb ko p' /\ (r <> Ok -> p' = p).
Proof.
  intros kb ko p o p' r [HM HO] H. destruct o; cbn [psetter] in H;
    try (inversion H; subst p' r; split; [split; assumption| reflexivity]).
  - (* PBase *)
    destruct (is_ctor b); [inversion H; subst p' r; split; [split; assumption| reflexivity]|].
    destruct (setter true kb (pM p) b) as [m' r'] eqn:Es. inversion H; subst p' r.
    destruct (setter_valid _ _ _ _ _ HM Es) as [Hm Hu]. destruct (setter_dims _ _ _ _ _ _ Es) as [ES EA].
    split.
    + split; [exact Hm|]. cbn [pM pO pOb]. rewrite ES, EA. exact HO.
    + intros Hr. rewrite (Hu Hr). destruct p; reflexivity.
  - (* PSetO3 *)
    destruct (shape3 (mS (pM p)) (mA (pM p)) (pO p) obf) eqn:Es; cbn [negb] in H;
      [| inversion H; subst p' r; split; [split; assumption| reflexivity]].
    destruct (setO3 true ko (mS (pM p)) (mA (pM p)) obf) as [ob|] eqn:EO;
      [| inversion H; subst p' r; split; [split; assumption| reflexivity]].
    inversion H; subst p' r. split; [|congruence]. split; [exact HM|]. cbn [pM pO pOb].
    rewrite setO3_eq in EO. eapply setT3_ok; eassumption.
  - (* PSetOM *)
    destruct (shape3 (mA (pM p)) (mS (pM p)) (pO p) obf) eqn:Es; cbn [negb] in H;
      [| inversion H; subst p' r; split; [split; assumption| reflexivity]].
    destruct (setTM true ko obf) as [ob|] eqn:EO;
      [| inversion H; subst p' r; split; [split; assumption| reflexivity]].
    inversion H; subst p' r. split; [|congruence]. split; [exact HM|]. cbn [pM pO pOb].
    exact (proj2 (setTM_ok _ _ _ _ _ _ Es EO)).
Qed.

Lemma pstep_valid : forall kb ko st o st' r, ovalid (valid_pmodel_k kb ko) st -> pstep true kb ko st o = (st', r) ->
  ovalid (valid_pmodel_k kb ko) st' /\ (r <> Ok -> st' = st).
Proof.
  intros kb ko st o st' r Hv H. unfold pstep in H. destruct (is_pctor o).
  - destruct (pconstruct true kb ko o) as [[p|] r'] eqn:Ec; inversion H; subst st' r.
    + destruct (pconstruct_valid _ _ _ _ _ Ec) as [Hp ->]. split; [exact Hp| congruence].
    + split; [exact Hv| reflexivity].
  - destruct st as [p|]; [| inversion H; subst st' r; split; [exact I| reflexivity]].
    destruct (psetter true kb ko p o) as [p' r'] eqn:Es. inversion H; subst st' r.
    destruct (psetter_valid _ _ _ _ _ _ Hv Es) as [Hp Hu]. split; [exact Hp|]. intros Hr. rewrite (Hu Hr). reflexivity.
Qed.

Lemma prun_valid_from : forall kb ko ops st, ovalid (valid_pmodel_k kb ko) st ->
  ovalid (valid_pmodel_k kb ko) (fold_left (fun st o => fst (pstep true kb ko st o)) ops st).
Proof.
  intros kb ko. induction ops as [|o ops IH]; intros st Hv; cbn [fold_left]; [exact Hv|].
  apply IH. destruct (pstep true kb ko st o) as [st' r] eqn:E. cbn [fst]. exact (proj1 (pstep_valid _ _ _ _ _ _ Hv E)).
Qed.

Lemma psetter_validate_then_commit_k_lemma : forall kb ko,
  (forall st o st' r, ovalid (valid_pmodel_k kb ko) st -> pstep true kb ko st o = (st', r) ->
     ovalid (valid_pmodel_k kb ko) st' /\ (r <> Ok -> st' = st)) /\
  (forall ops, ovalid (valid_pmodel_k kb ko) (prun true kb ko ops)).
Proof.
  intros kb ko. split; [apply pstep_valid|]. intros ops. unfold prun. apply prun_valid_from. exact I.
Qed.

(* ---------------------------------------------------------------- the code as it is (fixed = false) *)
Definition bad_ctor_ops : list op := [Ctor3 2 2 (XFin 5)].
Definition nan_setter_ops : list op := [Ctor3 1 1 (XFin 1); SetDiscount XNaN].

Lemma disc_of_run : forall ops m, run false Dense ops = Some m -> valid_model m -> disc_ok (mD m).
Proof. intros ops m _ [_ [_ H]]. exact H. Qed.

Lemma ctor_validates_discount_refuted_lemma :
  exists m, run false Dense bad_ctor_ops = Some m /\ mD m = XFin 5 /\ ~ valid_model m.
Proof.
  eexists. split; [vm_compute; reflexivity|]. split; [reflexivity|].
  intros [_ [_ [q [E [_ H]]]]]. cbn [mD] in E. inversion E; subst q. revert H. unfold Qle. cbn. lia.
Qed.

Lemma setDiscount_nan_refuted_lemma :
  exists m, run false Dense nan_setter_ops = Some m /\ mD m = XNaN /\ ~ valid_model m.
Proof.
  eexists. split; [vm_compute; reflexivity|]. split; [reflexivity|].
  intros [_ [_ [q [E _]]]]. cbn [mD] in E. discriminate.
Qed.

(* ---------------------------------------------------------------- checker soundness *)
Lemma tab_okb_sound : forall (Pb : list xq -> bool) (P : list xq -> Prop) n1 n2 n3 T,
  (forall r, Pb r = true -> P r) -> tab_okb Pb n1 n2 n3 T = true -> tab_ok P n1 n2 n3 T.
Proof.
  intros Pb P n1 n2 n3 T HP H. unfold tab_okb in H. apply andb_true_iff in H. destruct H as [H1 H2].
  apply Nat.eqb_eq in H1. split; [exact H1|]. intros i Hi. rewrite forallb_forall in H2.
  assert (Hin : In (nth i T []) T) by (apply nth_In; lia). specialize (H2 _ Hin).
  apply andb_true_iff in H2. destruct H2 as [H3 H4]. apply Nat.eqb_eq in H3. split; [exact H3|].
  intros j Hj. rewrite forallb_forall in H4.
  assert (Hin2 : In (nth j (nth i T []) []) (nth i T [])) by (apply nth_In; lia). specialize (H4 _ Hin2).
  apply andb_true_iff in H4. destruct H4 as [H5 H6]. apply Nat.eqb_eq in H5. split; [exact H5| apply HP; exact H6].
Qed.

Lemma valid_model_tolb_sound : forall neg tol m, valid_model_tolb neg tol m = true -> valid_model_tol neg tol m.
Proof.
  intros neg tol m H. unfold valid_model_tolb in H. apply andb_true_iff in H. destruct H as [H HD].
  apply andb_true_iff in H. destruct H as [HT HR]. split; [| split].
  - eapply tab_okb_sound; [|exact HT]. apply prob_row_tolb_sound.
  - apply shape2_rshape. exact HR.
  - apply disc_okb_sound. exact HD.
Qed.

Lemma valid_model_kb_sound : forall k m, valid_model_kb k m = true -> valid_model_k k m.
Proof. intros k m. apply valid_model_tolb_sound. Qed.

Lemma valid_pmodel_kb_sound : forall kb ko p, valid_pmodel_kb kb ko p = true -> valid_pmodel_k kb ko p.
Proof.
  intros kb ko p H. unfold valid_pmodel_kb in H. apply andb_true_iff in H. destruct H as [H1 H2].
  split; [apply valid_model_kb_sound; exact H1|]. eapply tab_okb_sound; [|exact H2]. apply prob_row_tolb_sound.
Qed.
