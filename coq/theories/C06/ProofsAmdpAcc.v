(* C06/ProofsAmdpAcc.v — the accumulation loop of AMDP::discretize* establishes, for every (a, s), the
   hypothesis [acc_row_ok] of the normalisation theorem: a row is either never visited (all zero, reward
   zero) or has mass > 1e-6.  Hence the derived model is valid for every list of contributions. *)
From Coq Require Import List Arith QArith Qminmax Lqa Lia Bool.
From AIT Require Import Base.Qx C06.Model C06.Spec C06.ProofsProb C06.ProofsAmdp.
Import ListNotations.
Local Open Scope Q_scope.

Lemma length_upd_nth : forall (A : Type) i (f : A -> A) l, length (upd_nth i f l) = length l.
Proof. intros A i f l. revert i. induction l as [|x l IH]; intros [|i]; cbn [upd_nth length]; try reflexivity. rewrite IH. reflexivity. Qed.

Lemma nth_upd_nth_same : forall (A : Type) i (f : A -> A) l d, (i < length l)%nat ->
  nth i (upd_nth i f l) d = f (nth i l d).
Proof.
  intros A i f l d. revert i. induction l as [|x l IH]; intros [|i] Hi; cbn [length] in Hi; try lia; cbn [upd_nth nth]; [reflexivity|].
  apply IH. lia.
Qed.

Lemma nth_upd_nth_other : forall (A : Type) i j (f : A -> A) l d, i <> j -> nth j (upd_nth i f l) d = nth j l d.
Proof.
  intros A i j f l d. revert i j. induction l as [|x l IH]; intros [|i] [|j] Hne; cbn [upd_nth nth]; try reflexivity; try lia.
  apply IH. lia.
Qed.

Lemma qsum_upd_add : forall g p l i, (forall x, g x == x + p) -> (i < length l)%nat ->
  qsum (upd_nth i g l) == qsum l + p.
Proof.
  intros g p l i Hg. revert i. induction l as [|x l IH]; intros [|i] Hi; cbn [length] in Hi; try lia; cbn [upd_nth qsum].
  - rewrite Hg. lra.
  - rewrite IH by lia. lra.
Qed.

Lemma nonneg_upd_add : forall g p l i, (forall x, g x == x + p) -> 0 <= p -> nonneg l -> nonneg (upd_nth i g l).
Proof.
  intros g p l i Hg Hp. revert i. induction l as [|x l IH]; intros i Hn; [destruct i; exact Hn|].
  inversion Hn as [|? ? Hx Hl]; subst. destruct i as [|i]; cbn [upd_nth]; constructor; try assumption.
  - rewrite Hg. lra.
  - apply IH; assumption.
Qed.

Lemma nth_repeat_lt : forall (A : Type) (x d : A) n i, (i < n)%nat -> nth i (repeat x n) d = x.
Proof. intros A x d n i Hi. rewrite (nth_indep _ d x) by (rewrite repeat_length; exact Hi). apply nth_repeat. Qed.

(* shapes + the per-row invariant *)
Definition acc_inv (S1 A : nat) (TR : list mat * mat) : Prop :=
  length (fst TR) = A /\
  (forall a, (a < A)%nat -> length (nth a (fst TR) []) = S1 /\
     forall s, (s < S1)%nat -> length (row (nth a (fst TR) []) s) = S1) /\
  length (snd TR) = S1 /\ (forall s, (s < S1)%nat -> length (row (snd TR) s) = A) /\
  forall a s, (a < A)%nat -> (s < S1)%nat ->
    acc_row_ok (row (nth a (fst TR) []) s) (nthq (row (snd TR) s) a).

Lemma acc_inv_init : forall S1 A, acc_inv S1 A (repeat (repeat (repeat 0 S1) S1) A, repeat (repeat 0 A) S1).
Proof.
  intros S1 A. unfold acc_inv. cbn [fst snd]. split; [apply repeat_length|]. split.
  - intros a Ha. rewrite (nth_repeat_lt _ _ _ _ _ Ha). split; [apply repeat_length|].
    intros s Hs. unfold row. rewrite (nth_repeat_lt _ _ _ _ _ Hs). apply repeat_length.
  - split; [apply repeat_length|]. split.
    + intros s Hs. unfold row. rewrite (nth_repeat_lt _ _ _ _ _ Hs). apply repeat_length.
    + intros a s Ha Hs. unfold row, nthq. rewrite (nth_repeat_lt _ _ _ _ _ Ha).
      rewrite !(nth_repeat_lt _ _ _ _ _ Hs). rewrite (nth_repeat_lt _ _ _ _ _ Ha). split.
      * apply Forall_forall. intros x Hx. apply repeat_spec in Hx. subst x. apply Qle_refl.
      * left. split; [|reflexivity]. apply Forall_forall. intros x Hx. apply repeat_spec in Hx. subst x. reflexivity.
Qed.

(* updating cell (i,j) of a matrix: rows *)
Lemma row_upd2 : forall (m : mat) i j f s,
  row (upd_nth i (upd_nth j f) m) s = if (i =? s)%nat && (i <? length m)%nat then upd_nth j f (row m s) else row m s.
Proof.
  intros m i j f s. unfold row. destruct (Nat.eqb_spec i s) as [->|Hne]; cbn [andb].
  - destruct (Nat.ltb_spec s (length m)) as [Hlt|Hge].
    + apply nth_upd_nth_same. exact Hlt.
    + rewrite (nth_overflow m [] Hge). apply nth_overflow. rewrite length_upd_nth. exact Hge.
  - apply nth_upd_nth_other. exact Hne.
Qed.

Lemma acc_inv_step : forall k S1 A TR c, contrib_ok S1 A c -> acc_inv S1 A TR -> acc_inv S1 A (amdp_add k TR c).
Proof.
  intros k S1 A [T R] c [Hs [Hs1 [Ha Hp]]] [LT [ST [LR [SR Inv]]]]. cbn [fst snd] in *. unfold mat, vec in *.
  unfold amdp_add. destruct (eqSmall 0 (c_p c)) eqn:Ep; [split; [exact LT| split; [exact ST| split; [exact LR| split; [exact SR| exact Inv]]]]|].
  assert (Hbig : epsS < c_p c).
  { unfold eqSmall in Ep. apply Qle_bool_false in Ep. unfold qabs in Ep.
    destruct (Q.max_spec (0 - c_p c) (- (0 - c_p c))) as [[_ E]|[_ E]]; rewrite E in Ep; pose proof epsS_pos; lra. }
  cbn [fst snd].
  assert (HaT : (c_a c < length T)%nat) by (rewrite LT; exact Ha).
  set (T' := upd_nth (c_a c) (upd_nth (c_s c) (upd_nth (c_s1 c) (fun x => Qred (x + c_p c)))) T).
  (* the new R, whatever the kind: either R or R with cell (c_s, c_a) changed *)
  assert (HR' : forall R', (R' = R \/ R' = upd_nth (c_s c) (upd_nth (c_a c) (fun x => Qred (x + c_p c * c_r c))) R) ->
                acc_inv S1 A (T', R')).
  { intros R' HR'. unfold acc_inv. cbn [fst snd]. unfold mat, vec in *.
    assert (LT' : length T' = A) by (unfold T'; rewrite length_upd_nth; exact LT).
    assert (rowT' : forall a s, row (nth a T' []) s =
              if ((c_a c =? a)%nat && (c_s c =? s)%nat) then upd_nth (c_s1 c) (fun x => Qred (x + c_p c)) (row (nth a T []) s)
              else row (nth a T []) s).
    { intros a s. unfold T'. destruct (Nat.eqb_spec (c_a c) a) as [<-|Hne]; cbn [andb].
      - rewrite nth_upd_nth_same by exact HaT. rewrite row_upd2. unfold mat, vec.
        destruct (ST (c_a c) Ha) as [L _]. rewrite L.
        destruct (Nat.eqb_spec (c_s c) s) as [<-|Hne2]; cbn [andb]; [|reflexivity].
        assert (E : (c_s c <? S1)%nat = true) by (apply Nat.ltb_lt; exact Hs). rewrite E. reflexivity.
      - rewrite nth_upd_nth_other by exact Hne. reflexivity. }
    assert (rowR' : forall s, (s < S1)%nat -> length (row R' s) = A /\
              forall a, (c_s c <> s \/ c_a c <> a) -> nthq (row R' s) a = nthq (row R s) a).
    { intros s Hs'. destruct HR' as [->| ->]; [split; [apply SR; exact Hs'| reflexivity]|].
      rewrite row_upd2. unfold mat, vec. destruct (Nat.eqb_spec (c_s c) s) as [<-|Hne]; cbn [andb].
      - rewrite LR. assert (E : (c_s c <? S1)%nat = true) by (apply Nat.ltb_lt; exact Hs). rewrite E.
        split; [rewrite length_upd_nth; apply SR; exact Hs|].
        intros a [Hc|Hc]; [congruence|]. unfold nthq. apply nth_upd_nth_other. exact Hc.
      - split; [apply SR; exact Hs'| reflexivity]. }
    split; [exact LT'|]. split.
    - intros a Ha'. split.
      + unfold T'. destruct (Nat.eq_dec (c_a c) a) as [<-|Hne].
        * rewrite nth_upd_nth_same by exact HaT. rewrite length_upd_nth. apply ST. exact Ha.
        * rewrite nth_upd_nth_other by exact Hne. apply ST. exact Ha'.
      + intros s Hs'. rewrite rowT'. destruct ((c_a c =? a)%nat && (c_s c =? s)%nat);
          [rewrite length_upd_nth|]; apply (proj2 (ST a Ha')); exact Hs'.
    - split; [destruct HR' as [->| ->]; [exact LR| rewrite length_upd_nth; exact LR]|].
      split; [intros s Hs'; apply (proj1 (rowR' s Hs'))|].
      intros a s Ha' Hs'. rewrite rowT'. destruct (Inv a s Ha' Hs') as [Hn Hcase].
      destruct (Nat.eqb_spec (c_a c) a) as [Ea|Ea]; cbn [andb].
      + destruct (Nat.eqb_spec (c_s c) s) as [Es|Es].
        * (* the visited row: mass grows by p > epsS *)
          split; [apply (nonneg_upd_add _ (c_p c)); [intros x; apply Qred_correct| assumption| assumption]|]. right.
          rewrite (qsum_upd_add _ (c_p c)); [| intros x; apply Qred_correct| rewrite (proj2 (ST a Ha') s Hs'); exact Hs1].
          pose proof (qsum_nonneg _ Hn). lra.
        * rewrite (proj2 (rowR' s Hs') a (or_introl Es)). split; assumption.
      + rewrite (proj2 (rowR' s Hs') a (or_intror Ea)). split; assumption. }
  destruct k; [apply HR'; right; reflexivity|].
  destruct (eqSmall 0 (c_r c)); apply HR'; [left| right]; reflexivity.
Qed.

Lemma acc_inv_accumulate : forall k S1 A cs, Forall (contrib_ok S1 A) cs -> acc_inv S1 A (amdp_accumulate k S1 A cs).
Proof.
  intros k S1 A cs H. unfold amdp_accumulate.
  assert (G : forall TR, acc_inv S1 A TR -> acc_inv S1 A (fold_left (amdp_add k) cs TR)).
  { induction H as [|c cs Hc H IH]; intros TR HTR; cbn [fold_left]; [exact HTR|].
    apply IH. apply acc_inv_step; assumption. }
  apply G. apply acc_inv_init.
Qed.

(* the derived MDP: for every list of contributions (all beliefs, all discretizers into range), every
   row of the repaired dense / the sparse derivation is a distribution and every reward is finite *)
Lemma amdp_valid_tables_lemma : forall fixed k S1 A cs, (fixed = true \/ k = Sparse) ->
  Forall (contrib_ok S1 A) cs ->
  forall a s, (a < A)%nat -> (s < S1)%nat ->
    let TR := amdp_accumulate k S1 A cs in
    amdp_row_valid (amdp_finish_row fixed k s (row (nth a (fst TR) []) s) (nthq (row (snd TR) s) a)).
Proof.
  intros fixed k S1 A cs Hfk Hcs a s Ha Hs TR.
  destruct (acc_inv_accumulate k S1 A cs Hcs) as [_ [ST [_ [_ Inv]]]].
  apply amdp_row_valid_lemma; [exact Hfk| apply Inv; assumption|].
  unfold TR. rewrite (proj2 (ST a Ha) s Hs). exact Hs.
Qed.

Lemma contrib_okb_sound : forall S1 A c, contrib_okb S1 A c = true -> contrib_ok S1 A c.
Proof.
  intros S1 A c H. unfold contrib_okb in H. repeat (apply andb_true_iff in H; destruct H as [H ?]).
  repeat split; try (apply Nat.ltb_lt; assumption). apply Qle_bool_iff. assumption.
Qed.
