(* C06/SpecCoop.v — what a valid DDN parent set / CooperativeModel is, independently of the order and
   shape of the checks in the code; boolean twins for the driver's oracle. *)
From Coq Require Import List Arith QArith Bool Sorting.Sorted.
From AIT Require Import Base.Qx C06.Model C06.Spec C06.ModelCoop.
Import ListNotations.
Local Open Scope nat_scope.

(* a tag: non-empty, strictly increasing ids, all inside the space *)
Definition tag_ok (space tag : list nat) : Prop :=
  tag <> [] /\ Sorted lt tag /\ Forall (fun v => v < length space) tag.

Definition cps_valid (S A : list nat) (p : cpset) : Prop :=
  tag_ok A (cp_agents p) /\ length (cp_features p) = fsp (cp_agents p) A /\ Forall (tag_ok S) (cp_features p).

(* a graph under construction: every pushed node valid, never more nodes than state features *)
Definition cgraph_wf (g : cgraph) : Prop :=
  Forall (cps_valid (cg_S g) (cg_A g)) (cg_parents g) /\ length (cg_parents g) <= length (cg_S g).

Definition cnode_valid (g : cgraph) (i : nat) (m : cmat) : Prop :=
  cm_rows m = cg_size g i /\ cm_cols m = nth i (cg_S g) 0 /\ length (cm_data m) = cm_rows m /\
  Forall (fun r => length r = cm_cols m /\ prob_row r) (cm_data m).
Definition cbasis_valid (g : cgraph) (b : cbasis) : Prop :=
  tag_ok (cg_A g) (cb_atag b) /\ tag_ok (cg_S g) (cb_tag b) /\
  cb_cols b = fsp (cb_atag b) (cg_A g) /\ cb_rows b = fsp (cb_tag b) (cg_S g).

Definition dummy_cmat : cmat := {| cm_rows := 0; cm_cols := 0; cm_data := [] |}.

Definition valid_coop (c : coop) : Prop :=
  let g := co_g c in
  disc_ok (co_d c) /\ cg_S g <> [] /\ cg_A g <> [] /\
  length (cg_parents g) = length (cg_S g) /\ length (co_T c) = length (cg_S g) /\
  (forall i, i < length (cg_S g) -> cnode_valid g i (nth i (co_T c) dummy_cmat)) /\
  Forall (cbasis_valid g) (co_R c).

(* ---- boolean twins, written without the code's running "previous" variable *)
Fixpoint sincb (l : list nat) : bool :=
  match l with
  | a :: (b :: _) as t => (a <? b) && sincb t
  | _ => true
  end.
Definition tag_okb (space tag : list nat) : bool :=
  negb (length tag =? 0) && sincb tag && forallb (fun v => v <? length space) tag.
Definition cps_validb (S A : list nat) (p : cpset) : bool :=
  tag_okb A (cp_agents p) && (length (cp_features p) =? fsp (cp_agents p) A) && forallb (tag_okb S) (cp_features p).
Definition cnode_validb (g : cgraph) (i : nat) (m : cmat) : bool :=
  (cm_rows m =? cg_size g i) && (cm_cols m =? nth i (cg_S g) 0) && (length (cm_data m) =? cm_rows m) &&
  forallb (fun r => (length r =? cm_cols m) && prob_row_tolb 0 epsS r) (cm_data m).
Definition cbasis_validb (g : cgraph) (b : cbasis) : bool :=
  tag_okb (cg_A g) (cb_atag b) && tag_okb (cg_S g) (cb_tag b) &&
  (cb_cols b =? fsp (cb_atag b) (cg_A g)) && (cb_rows b =? fsp (cb_tag b) (cg_S g)).
Definition valid_coopb (c : coop) : bool :=
  let g := co_g c in
  disc_okb (co_d c) && negb (length (cg_S g) =? 0) && negb (length (cg_A g) =? 0) &&
  (length (cg_parents g) =? length (cg_S g)) && (length (co_T c) =? length (cg_S g)) &&
  forallb (fun i => cnode_validb g i (nth i (co_T c) dummy_cmat)) (seq 0 (length (cg_S g))) &&
  forallb (cbasis_validb g) (co_R c).
