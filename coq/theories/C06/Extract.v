From Coq Require Extraction.
From Coq Require Import ExtrOcamlBasic.
From AIT Require Import Base.Vio C06.Model C06.Spec.
Extraction "model.ml" vio_kit step pstep run prun convert valid_model_kb valid_pmodel_kb disc_okb
  prob_tableb sprob_tableb prob_row_tolb
  isProbability1 isProbability2 isProbability3 isProbabilityM2 isProbabilityM3 isProbabilityS2 isProbabilityS3
  setDiscount_ok amdp_finish acc_row_okb.
