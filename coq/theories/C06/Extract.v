From Coq Require Extraction.
From Coq Require Import ExtrOcamlBasic.
From AIT Require Import Base.Vio C06.Model C06.Spec C06.ModelCoop C06.SpecCoop.
Extraction "model.ml" vio_kit step pstep run prun convert valid_model_kb valid_pmodel_kb disc_okb
  prob_tableb sprob_tableb prob_row_tolb
  isProbability1 isProbability2 isProbability3 isProbabilityM2 isProbabilityM3 isProbabilityS2 isProbabilityS3
  setDiscount_ok amdp_finish acc_row_okb rewards_okb transpose01 valid_model_k0b valid_pmodel_k0b isProbabilityS3f drop_small amdp_accumulate amdp_derive contrib_okb
  amdp_spec_okb c_counts gmodel_of cpush coop_step coop_ctor valid_coopb cps_validb.
