(* C06/ProofsAmdpSpec.v — the accumulation loop computes exactly the filtered sums of Spec.v: the row mass
   that normalises a derived AMDP row is the ACCUMULATED mass of the counted contributions (not the number
   of sampled beliefs), cell by cell and for the rewards. *)
From Coq Require Import List Arith QArith Qminmax Lqa Lia Bool.
From AIT Require Import Base.Qx C06.Model C06.Spec C06.ProofsProb C06.ProofsAmdp C06.ProofsAmdpAcc.
Import ListNotations.
Local Open Scope Q_scope.

Lemma c_counts_add : forall k TR c, c_counts c = false -> amdp_add k TR c = TR.
Proof. intros k TR c H. unfold amdp_add, c_counts in *. apply negb_false_iff in H. rewrite H. reflexivity. Qed.

(* the transition row (a,s) after one contribution *)
Lemma step_rowT : forall k S1 A TR c a s, contrib_ok S1 A c -> acc_inv S1 A TR -> (a < A)%nat -> (s < S1)%nat ->
  row (nth a (fst (amdp_add k TR c)) []) s =
  if c_at a s c then upd_nth (c_s1 c) (fun x => Qred (x + c_p c)) (row (nth a (fst TR) []) s)
  else row (nth a (fst TR) []) s.
Proof.
  intros k S1 A [T R] c a s [Hs [Hs1 [Ha Hp]]] [LT [ST _]] Ha' Hs'. cbn [fst snd] in *. unfold mat, vec in *.
  unfold c_at. destruct (c_counts c) eqn:Ec; [|rewrite c_counts_add by exact Ec; reflexivity].
  unfold amdp_add. unfold c_counts in Ec. apply negb_true_iff in Ec. rewrite Ec. cbn [fst andb].
  assert (HaT : (c_a c < length T)%nat) by (rewrite LT; exact Ha).
  destruct (Nat.eqb_spec (c_a c) a) as [<-|Hne]; cbn [andb].
  - rewrite nth_upd_nth_same by exact HaT. rewrite row_upd2. unfold mat, vec.
    destruct (ST (c_a c) Ha) as [L _]. rewrite L.
    destruct (Nat.eqb_spec (c_s c) s) as [<-|Hne2]; cbn [andb]; [|reflexivity].
    assert (E : (c_s c <? S1)%nat = true) by (apply Nat.ltb_lt; exact Hs). rewrite E. reflexivity.
  - rewrite nth_upd_nth_other by exact Hne. reflexivity.
Qed.

Lemma step_mass : forall k S1 A TR c a s, contrib_ok S1 A c -> acc_inv S1 A TR -> (a < A)%nat -> (s < S1)%nat ->
  qsum (row (nth a (fst (amdp_add k TR c)) []) s) ==
  qsum (row (nth a (fst TR) []) s) + (if c_at a s c then c_p c else 0).
Proof.
  intros k S1 A TR c a s Hc Hinv Ha Hs. rewrite (step_rowT k S1 A TR c a s Hc Hinv Ha Hs).
  destruct (c_at a s c); [|lra]. destruct Hc as [_ [Hs1 _]]. destruct Hinv as [_ [ST _]].
  apply (qsum_upd_add _ (c_p c)); [intros x; apply Qred_correct|]. rewrite (proj2 (ST a Ha) s Hs). exact Hs1.
Qed.

Lemma step_cell : forall k S1 A TR c a s s1, contrib_ok S1 A c -> acc_inv S1 A TR -> (a < A)%nat -> (s < S1)%nat ->
  nthq (row (nth a (fst (amdp_add k TR c)) []) s) s1 ==
  nthq (row (nth a (fst TR) []) s) s1 + (if c_at a s c && (c_s1 c =? s1)%nat then c_p c else 0).
Proof.
  intros k S1 A TR c a s s1 Hc Hinv Ha Hs. rewrite (step_rowT k S1 A TR c a s Hc Hinv Ha Hs).
  destruct (c_at a s c); cbn [andb]; [|lra]. destruct Hc as [_ [Hs1 _]]. destruct Hinv as [_ [ST _]].
  unfold nthq. destruct (Nat.eqb_spec (c_s1 c) s1) as [<-|Hne].
  - rewrite nth_upd_nth_same by (rewrite (proj2 (ST a Ha) s Hs); exact Hs1). apply Qred_correct.
  - rewrite nth_upd_nth_other by exact Hne. lra.
Qed.

(* the reward cell (s,a) after one contribution *)
Definition c_rcounts (k : kind) (c : contrib) : bool :=
  match k with Dense => true | Sparse => negb (eqSmall 0 (c_r c)) end.

Lemma eqSmall_sym0 : forall x, eqSmall 0 x = eqSmall x 0.
Proof.
  intros x. unfold eqSmall. destruct (Qle_bool (qabs (0 - x)) epsS) eqn:E1; destruct (Qle_bool (qabs (x - 0)) epsS) eqn:E2; try reflexivity.
  - apply Qle_bool_iff in E1. apply qabs_le in E1. apply Qle_bool_false in E2. unfold qabs in E2.
    destruct (Q.max_spec (x - 0) (- (x - 0))) as [[_ E]|[_ E]]; rewrite E in E2; lra.
  - apply Qle_bool_iff in E2. apply qabs_le in E2. apply Qle_bool_false in E1. unfold qabs in E1.
    destruct (Q.max_spec (0 - x) (- (0 - x))) as [[_ E]|[_ E]]; rewrite E in E1; lra.
Qed.

Lemma step_reward : forall k S1 A TR c a s, contrib_ok S1 A c -> acc_inv S1 A TR -> (a < A)%nat -> (s < S1)%nat ->
  nthq (row (snd (amdp_add k TR c)) s) a ==
  nthq (row (snd TR) s) a + (if c_at a s c && c_rcounts k c then c_p c * c_r c else 0).
Proof.
  intros k S1 A [T R] c a s [Hs [Hs1 [Ha Hp]]] [_ [_ [LR [SR _]]]] Ha' Hs'. cbn [fst snd] in *. unfold mat, vec in *.
  unfold c_at. destruct (c_counts c) eqn:Ec; [|rewrite c_counts_add by exact Ec; cbn [snd andb]; lra].
  unfold amdp_add. unfold c_counts in Ec. apply negb_true_iff in Ec. rewrite Ec. cbn [snd andb].
  assert (G : nthq (row (upd_nth (c_s c) (upd_nth (c_a c) (fun x => Qred (x + c_p c * c_r c))) R) s) a ==
              nthq (row R s) a + (if (c_a c =? a)%nat && (c_s c =? s)%nat then c_p c * c_r c else 0)).
  { rewrite row_upd2. unfold mat, vec. rewrite LR.
    destruct (Nat.eqb_spec (c_s c) s) as [<-|Hne]; cbn [andb].
    - assert (E : (c_s c <? S1)%nat = true) by (apply Nat.ltb_lt; exact Hs). rewrite E.
      unfold nthq. destruct (Nat.eqb_spec (c_a c) a) as [<-|Hne2]; cbn [andb].
      + rewrite nth_upd_nth_same by (rewrite (SR (c_s c) Hs); exact Ha). apply Qred_correct.
      + rewrite nth_upd_nth_other by exact Hne2. lra.
    - rewrite andb_false_r. lra. }
  destruct k; cbn [c_rcounts].
  - rewrite andb_true_r. exact G.
  - destruct (eqSmall 0 (c_r c)); cbn [negb].
    + rewrite andb_false_r. lra.
    + rewrite andb_true_r. exact G.
Qed.

(* ---------------------------------------------------------------- over the whole loop *)
Lemma fold_inv : forall k S1 A cs TR, Forall (contrib_ok S1 A) cs -> acc_inv S1 A TR ->
  acc_inv S1 A (fold_left (amdp_add k) cs TR).
Proof.
  intros k S1 A cs. induction cs as [|c cs IH]; intros TR H HTR; cbn [fold_left]; [exact HTR|].
  inversion H; subst. apply IH; [assumption| apply acc_inv_step; assumption].
Qed.

Lemma fold_mass : forall k S1 A cs TR a s, Forall (contrib_ok S1 A) cs -> acc_inv S1 A TR -> (a < A)%nat -> (s < S1)%nat ->
  qsum (row (nth a (fst (fold_left (amdp_add k) cs TR)) []) s) == qsum (row (nth a (fst TR) []) s) + amdp_mass cs a s.
Proof.
  intros k S1 A cs. induction cs as [|c cs IH]; intros TR a s H HTR Ha Hs; cbn [fold_left].
  - unfold amdp_mass. cbn [filter map qsum]. lra.
  - inversion H as [|? ? Hc Hcs]; subst. rewrite IH by (try assumption; apply acc_inv_step; assumption).
    rewrite (step_mass k S1 A TR c a s Hc HTR Ha Hs). unfold amdp_mass. cbn [filter].
    destruct (c_at a s c); cbn [map qsum]; lra.
Qed.

Lemma fold_cell : forall k S1 A cs TR a s s1, Forall (contrib_ok S1 A) cs -> acc_inv S1 A TR -> (a < A)%nat -> (s < S1)%nat ->
  nthq (row (nth a (fst (fold_left (amdp_add k) cs TR)) []) s) s1 == nthq (row (nth a (fst TR) []) s) s1 + amdp_cell cs a s s1.
Proof.
  intros k S1 A cs. induction cs as [|c cs IH]; intros TR a s s1 H HTR Ha Hs; cbn [fold_left].
  - unfold amdp_cell. cbn [filter map qsum]. lra.
  - inversion H as [|? ? Hc Hcs]; subst. rewrite IH by (try assumption; apply acc_inv_step; assumption).
    rewrite (step_cell k S1 A TR c a s s1 Hc HTR Ha Hs). unfold amdp_cell. cbn [filter].
    destruct (c_at a s c && (c_s1 c =? s1)%nat); cbn [map qsum]; lra.
Qed.

Lemma fold_reward : forall k S1 A cs TR a s, Forall (contrib_ok S1 A) cs -> acc_inv S1 A TR -> (a < A)%nat -> (s < S1)%nat ->
  nthq (row (snd (fold_left (amdp_add k) cs TR)) s) a == nthq (row (snd TR) s) a + amdp_rsum k cs a s.
Proof.
  intros k S1 A cs. induction cs as [|c cs IH]; intros TR a s H HTR Ha Hs; cbn [fold_left].
  - unfold amdp_rsum. cbn [filter map qsum]. lra.
  - inversion H as [|? ? Hc Hcs]; subst. rewrite IH by (try assumption; apply acc_inv_step; assumption).
    rewrite (step_reward k S1 A TR c a s Hc HTR Ha Hs). unfold amdp_rsum. cbn [filter]. unfold c_rcounts.
    destruct k; destruct (c_at a s c); cbn [andb map qsum]; try lra.
    destruct (negb (eqSmall 0 (c_r c))); cbn [map qsum]; lra.
Qed.

(* the accumulators are the filtered sums: in particular the normaliser of row (a,s) is amdp_mass *)
Lemma amdp_accumulate_spec_lemma : forall k S1 A cs a s, Forall (contrib_ok S1 A) cs -> (a < A)%nat -> (s < S1)%nat ->
  let TR := amdp_accumulate k S1 A cs in
  qsum (row (nth a (fst TR) []) s) == amdp_mass cs a s /\
  (forall s1, (s1 < S1)%nat -> nthq (row (nth a (fst TR) []) s) s1 == amdp_cell cs a s s1) /\
  nthq (row (snd TR) s) a == amdp_rsum k cs a s.
Proof.
  intros k S1 A cs a s H Ha Hs TR. unfold TR, amdp_accumulate.
  pose proof (acc_inv_init S1 A) as Hinit.
  assert (Z1 : row (nth a (repeat (repeat (repeat 0 S1) S1) A) []) s = repeat 0 S1).
  { unfold row. rewrite (nth_repeat_lt _ _ _ _ _ Ha). apply nth_repeat_lt. exact Hs. }
  assert (Z2 : row (repeat (repeat 0 A) S1) s = repeat 0 A) by (unfold row; apply nth_repeat_lt; exact Hs).
  split; [| split].
  - rewrite (fold_mass k S1 A cs _ a s H Hinit Ha Hs). cbn [fst]. unfold mat, vec in *. rewrite Z1, qsum_repeat0. lra.
  - intros s1 Hs1. rewrite (fold_cell k S1 A cs _ a s s1 H Hinit Ha Hs). cbn [fst]. unfold mat, vec in *. rewrite Z1.
    unfold nthq. rewrite (nth_repeat_lt _ _ _ _ _ Hs1). lra.
  - rewrite (fold_reward k S1 A cs _ a s H Hinit Ha Hs). cbn [snd]. unfold mat, vec in *. rewrite Z2.
    unfold nthq. rewrite (nth_repeat_lt _ _ _ _ _ Ha). lra.
Qed.

(* hence the derived (repaired dense / sparse) row of a visited (a,s) is cell / accumulated mass, its reward
   is rsum / accumulated mass *)
Lemma amdp_normaliser_lemma : forall k S1 A cs a s, Forall (contrib_ok S1 A) cs -> (a < A)%nat -> (s < S1)%nat ->
  epsS < amdp_mass cs a s ->
  let TR := amdp_accumulate k S1 A cs in
  let out := amdp_finish_row true k s (row (nth a (fst TR) []) s) (nthq (row (snd TR) s) a) in
  fst out = map (fun x => x / qsum (row (nth a (fst TR) []) s)) (row (nth a (fst TR) []) s) /\
  qsum (row (nth a (fst TR) []) s) == amdp_mass cs a s /\
  (k = Dense -> snd out = XFin (nthq (row (snd TR) s) a / qsum (row (nth a (fst TR) []) s))).
Proof.
  intros k S1 A cs a s H Ha Hs Hm. cbv zeta.
  pose proof (amdp_accumulate_spec_lemma k S1 A cs a s H Ha Hs) as Hspec. cbv zeta in Hspec. destruct Hspec as [Em _].
  remember (amdp_accumulate k S1 A cs) as TR eqn:ETR. clear ETR.
  remember (qsum (row (nth a (fst TR) []) s)) as m eqn:Em'.
  assert (Es : eqSmall m 0 = false).
  { destruct (eqSmall m 0) eqn:E; [|reflexivity]. apply eqSmall0_true in E. destruct E as [E1 E2]. rewrite Em in E2. lra. }
  unfold amdp_finish_row. cbn [fst snd]. rewrite <- Em'. rewrite Es. split; [reflexivity|]. split; [exact Em|].
  intros ->. rewrite andb_false_r. apply xdivq_fin. intros Hz. rewrite Em in Hz. pose proof epsS_pos. lra.
Qed.
