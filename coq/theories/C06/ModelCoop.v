(* C06/ModelCoop.v — executable model of the validation done by DDNGraph::push
   (src/Factored/Utils/BayesianNetwork.cpp) and by the Factored::MDP::CooperativeModel constructor /
   setDiscount (src/Factored/MDP/CooperativeModel.cpp).  NO proofs here.  Self-contained (own names, so
   that the single extracted model.ml has no clashes with other properties' models). *)
From Coq Require Import List Arith QArith Bool.
From AIT Require Import Base.Qx C06.Model.
Import ListNotations.

Inductive tagErr := TNone | TNoElements | TTooMany | TIdTooHigh | TNotSorted | TDuplicates.

(* src: src/Factored/Utils/Core.cpp:checkTag — the loop from t = 1 *)
Fixpoint checkTag_go (n prev : nat) (tag : list nat) : tagErr :=
  match tag with
  | [] => TNone
  | v :: t =>
    if (n <=? v)%nat then TIdTooHigh
    else if (v <? prev)%nat then TNotSorted
    else if (v =? prev)%nat then TDuplicates
    else checkTag_go n v t
  end.
(* src: src/Factored/Utils/Core.cpp:checkTag *)
Definition checkTag (space tag : list nat) : tagErr :=
  match tag with
  | [] => TNoElements
  | v0 :: t =>
    if (length space <? length tag)%nat then TTooMany
    else if (length space <=? v0)%nat then TIdTooHigh
    else checkTag_go (length space) v0 t
  end.
Definition tag_fine (space tag : list nat) : bool := match checkTag space tag with TNone => true | _ => false end.

(* src: src/Factored/Utils/Core.cpp:factorSpacePartial (size_t wrap-around not modelled) *)
Definition fsp (ids space : list nat) : nat := fold_left (fun acc id => acc * nth id space 0)%nat ids 1%nat.

(* src: BayesianNetwork.hpp:DDNGraph::ParentSet, DDNGraph {S, A, parents_}; startIds_ is a function of
   parents_ and S (see cg_size) *)
Record cpset := { cp_agents : list nat; cp_features : list (list nat) }.
Record cgraph := { cg_S : list nat; cg_A : list nat; cg_parents : list cpset }.

Inductive pres := POk | PRuntimeError | PInvalidArgument.

(* src: src/Factored/Utils/BayesianNetwork.cpp:DDNGraph::push — checks in the order of the code; the
   node is appended only after all of them *)
Definition cpush (g : cgraph) (p : cpset) : cgraph * pres :=
  if (length (cg_parents g) =? length (cg_S g))%nat then (g, PRuntimeError)
  else if negb (tag_fine (cg_A g) (cp_agents p)) then (g, PInvalidArgument)
  else if negb (length (cp_features p) =? fsp (cp_agents p) (cg_A g))%nat then (g, PInvalidArgument)
  else if negb (forallb (tag_fine (cg_S g)) (cp_features p)) then (g, PInvalidArgument)
  else ({| cg_S := cg_S g; cg_A := cg_A g; cg_parents := cg_parents g ++ [p] |}, POk).

Definition cpush_all (g : cgraph) (ps : list cpset) : cgraph := fold_left (fun g p => fst (cpush g p)) ps g.

(* src: DDNGraph::getSize(feature) = startIds_[feature].back() = sum_j factorSpacePartial(features[j], S) *)
Definition cg_size (g : cgraph) (i : nat) : nat :=
  fold_left (fun acc f => acc + fsp f (cg_S g))%nat (cp_features (nth i (cg_parents g) {| cp_agents := []; cp_features := [] |})) 0%nat.

(* a Matrix2D of extended doubles with its dimensions; a BasisMatrix by its tags and dimensions *)
Record cmat := { cm_rows : nat; cm_cols : nat; cm_data : list (list xq) }.
Record cbasis := { cb_tag : list nat; cb_atag : list nat; cb_rows : nat; cb_cols : nat }.
Record coop := { co_g : cgraph; co_T : list cmat; co_R : list cbasis; co_d : xq }.

(* "for i: rows == getSize(i), cols == S[i], every row isProbability(S[i], row)" *)
Definition coop_node_ok (g : cgraph) (i : nat) (m : cmat) : bool :=
  (cm_rows m =? cg_size g i)%nat && (cm_cols m =? nth i (cg_S g) 0)%nat && forallb isProbability1 (cm_data m).
Definition coop_basis_ok (g : cgraph) (b : cbasis) : bool :=
  tag_fine (cg_A g) (cb_atag b) && tag_fine (cg_S g) (cb_tag b) &&
  (cb_cols b =? fsp (cb_atag b) (cg_A g))%nat && (cb_rows b =? fsp (cb_tag b) (cg_S g))%nat.

Definition cmat_shape (m : cmat) : bool := shape2 (cm_rows m) (cm_cols m) (cm_data m).

(* src: src/Factored/MDP/CooperativeModel.cpp:CooperativeModel::CooperativeModel(graph, transitions,
   rewards, discount); every failure is std::invalid_argument.  fixed = true: the discount is validated
   first (fixes/C06-cooperative-discount.patch) *)
Definition coop_ctor (fixed : bool) (c : coop) : option coop * result :=
  let g := co_g c in
  if negb (forallb cmat_shape (co_T c)) then (None, Pre)
  else if fixed && negb (setDiscount_ok true (co_d c)) then (None, Throw)
  else if (length (cg_S g) =? 0)%nat then (None, Throw)
  else if (length (cg_A g) =? 0)%nat then (None, Throw)
  else if negb (length (cg_parents g) =? length (cg_S g))%nat then (None, Throw)
  else if negb (length (co_T c) =? length (cg_S g))%nat then (None, Throw)
  else if negb (forallb (fun im => coop_node_ok g (fst im) (snd im)) (combine (seq 0 (length (co_T c))) (co_T c))) then (None, Throw)
  else if negb (forallb (coop_basis_ok g) (co_R c)) then (None, Throw)
  else (Some c, Ok).

Inductive cop := CoCtor (c : coop) | CoSetDiscount (d : xq).

(* `tmp = CooperativeModel(...); obj = tmp` / obj.setDiscount(d) *)
Definition coop_step (fixed : bool) (st : option coop) (o : cop) : option coop * result :=
  match o with
  | CoCtor c => match coop_ctor fixed c with (Some m, r) => (Some m, r) | (None, r) => (st, r) end
  | CoSetDiscount d =>
    match st with
    | None => (None, NoObj)
    | Some m => if setDiscount_ok true d
                then (Some {| co_g := co_g m; co_T := co_T m; co_R := co_R m; co_d := d |}, Ok)
                else (Some m, Throw)
    end
  end.
Definition coop_run (fixed : bool) (ops : list cop) : option coop :=
  fold_left (fun st o => fst (coop_step fixed st o)) ops None.
