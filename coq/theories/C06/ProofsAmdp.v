(* C06/ProofsAmdp.v — AMDP's final normalisation yields distributions and finite rewards
   (repaired dense code, sparse code); the dense code as it is yields NaN for unvisited buckets. *)
From Coq Require Import List Arith QArith Qminmax Lqa Lia Bool.
From AIT Require Import Base.Qx C06.Model C06.Spec C06.ProofsProb.
Import ListNotations.
Local Open Scope Q_scope.

Lemma eqSmall0_true : forall x, eqSmall x 0 = true <-> - epsS <= x /\ x <= epsS.
Proof.
  intros x. unfold eqSmall. rewrite Qle_bool_iff, qabs_le. split; intros [L U]; split; lra.
Qed.

Lemma qsum_div : forall c l, ~ c == 0 -> qsum (map (fun x => x / c) l) == qsum l / c.
Proof.
  intros c l Hc. induction l as [|x l IH]; cbn [map qsum]; [field; exact Hc|]. rewrite IH. field. exact Hc.
Qed.

Lemma nonneg_div : forall c l, 0 < c -> nonneg l -> nonneg (map (fun x => x / c) l).
Proof.
  intros c l Hc H. induction H as [|x l Hx H IH]; cbn [map]; constructor; [|exact IH].
  unfold Qdiv. apply Qmult_le_0_compat; [exact Hx|]. apply Qlt_le_weak. apply Qinv_lt_0_compat. exact Hc.
Qed.

Lemma set_nth_zero_dist : forall l s, Forall (fun x => x == 0) l -> (s < length l)%nat ->
  nonneg (set_nth s 1 l) /\ qsum (set_nth s 1 l) == 1.
Proof.
  induction l as [|y l IH]; intros s H Hs; cbn [length] in Hs; [lia|].
  inversion H as [|? ? Hy Hl]; subst.
  assert (Hz : nonneg l /\ qsum l == 0).
  { clear - Hl. induction Hl as [|z l Hz Hl IH]; cbn [qsum]; [split; [constructor| lra]|].
    destruct IH as [I1 I2]. split; [constructor; [lra| exact I1]| lra]. }
  destruct Hz as [Z1 Z2]. destruct s as [|s]; cbn [set_nth qsum].
  - split; [constructor; [lra| exact Z1]| lra].
  - destruct (IH s Hl) as [N Q1]; [lia|]. split; [constructor; [lra| exact N]| lra].
Qed.

Lemma xdivq_fin : forall a b, ~ b == 0 -> xdivq a b = XFin (a / b).
Proof.
  intros a b Hb. unfold xdivq. destruct (Qeq_bool b 0) eqn:E; [|reflexivity].
  apply Qeq_bool_iff in E. contradiction.
Qed.

(* repaired dense code and sparse code: every derived row is a distribution, every reward finite *)
Lemma amdp_row_valid_lemma : forall fixed k s trow r,
  (fixed = true \/ k = Sparse) -> acc_row_ok trow r -> (s < length trow)%nat ->
  amdp_row_valid (amdp_finish_row fixed k s trow r).
Proof.
  intros fixed k s trow r Hfk [Hn Hcase] Hs. unfold amdp_finish_row, amdp_row_valid. cbn [fst snd].
  pose proof epsS_pos as He.
  destruct Hcase as [[Hz Hr]|Hpos].
  - (* never visited *)
    assert (Hsum : qsum trow == 0).
    { clear - Hz. induction Hz as [|z l Hz Hl IH]; cbn [qsum]; lra. }
    assert (Es : eqSmall (qsum trow) 0 = true) by (apply eqSmall0_true; split; lra).
    rewrite Es. split; [apply set_nth_zero_dist; assumption|].
    destruct k.
    + destruct Hfk as [->|Hk]; [|discriminate]. cbn [andb]. exists r. reflexivity.
    + assert (Er : eqSmall r 0 = true) by (apply eqSmall0_true; split; lra). rewrite Er. exists r. reflexivity.
  - (* visited: mass > epsS *)
    assert (Es : eqSmall (qsum trow) 0 = false).
    { destruct (eqSmall (qsum trow) 0) eqn:E; [|reflexivity]. apply eqSmall0_true in E. lra. }
    rewrite Es. assert (Hne : ~ qsum trow == 0) by lra. split.
    + split; [apply nonneg_div; [lra| exact Hn]|]. rewrite qsum_div by exact Hne. field. exact Hne.
    + rewrite andb_false_r. rewrite (xdivq_fin r _ Hne).
      destruct k; [eexists; reflexivity|]. destruct (eqSmall r 0); eexists; reflexivity.
Qed.

(* dense code as it is: a bucket no sampled belief falls in gets reward 0/0 = NaN *)
Lemma amdp_valid_refuted_lemma :
  acc_row_ok [0; 0] 0 /\ snd (amdp_finish_row false Dense 0 [0; 0] 0) = XNaN /\
  snd (amdp_finish false Dense [[[0; 0]; [1 # 2; 1 # 2]]] [[0]; [3]]) = [[XNaN]; [XFin (12 # 4)]].
Proof.
  split; [| split; vm_compute; reflexivity].
  split; [repeat constructor; lra|]. left. split; [repeat constructor; reflexivity| reflexivity].
Qed.

Lemma acc_row_okb_sound : forall trow r, acc_row_okb trow r = true -> acc_row_ok trow r.
Proof.
  intros trow r H. unfold acc_row_okb in H. apply andb_true_iff in H. destruct H as [Hn Hc]. split.
  - unfold nonnegb in Hn. rewrite forallb_forall in Hn. apply Forall_forall. intros x Hx.
    apply Qle_bool_iff. apply Hn. exact Hx.
  - apply orb_true_iff in Hc. destruct Hc as [Hc|Hc].
    + apply andb_true_iff in Hc. destruct Hc as [Hz Hr]. left. split; [| apply Qeq_bool_iff; exact Hr].
      rewrite forallb_forall in Hz. apply Forall_forall. intros x Hx. apply Qeq_bool_iff. apply Hz. exact Hx.
    + right. apply negb_true_iff in Hc. apply Qle_bool_false in Hc. exact Hc.
Qed.
