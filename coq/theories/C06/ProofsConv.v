(* C06/ProofsConv.v — converting a model through the IsModel interface (MDP::Model(const M&),
   MDP::SparseModel(const M&)): when the constructor accepts, the result is valid, has the same
   dimensions and discount, the same transition entries (sparse: up to dropping entries within
   1e-6 of 0) and rewards R(s,a) * (row mass of T(s,a,.)). *)
From Coq Require Import List Arith QArith Qminmax Lqa Lia Bool.
From AIT Require Import Base.Qx C06.Model C06.Spec C06.ProofsProb C06.ProofsModel C06.ProofsEffect.
Import ListNotations.
Local Open Scope Q_scope.

Lemma sp_copy_row_nth : forall l k i, sp_copy_row l = Some k -> (i < length l)%nat ->
  nth i k XNaN = drop_small (nth i l XNaN).
Proof.
  induction l as [|p l IH]; intros k i H Hi; cbn [length] in Hi; [lia|]. cbn [sp_copy_row] in H.
  destruct (xlt p (XFin 0) || xlt (XFin 1) p); [discriminate|].
  destruct (sp_copy_row l) as [k'|] eqn:E; [|discriminate]. inversion H; subst k.
  destruct i; cbn [nth]; [reflexivity|]. apply IH; [reflexivity| lia].
Qed.

Lemma copy_row_entries : forall k l r i, copy_row k l = Some r -> (i < length l)%nat ->
  entry_kept k (nth i r XNaN) (nth i l XNaN).
Proof.
  intros k l r i H Hi. destruct k; cbn [copy_row] in H.
  - destruct (isProbability1 l); [|discriminate]. inversion H; subst r. reflexivity.
  - unfold sp_copy_row_checked in H. destruct (sp_copy_row l) as [k|] eqn:E; [|discriminate].
    destruct (checkDifferentSmall (XFin 1) (xsum k)); [discriminate|]. inversion H; subst r.
    rewrite (sp_copy_row_nth _ _ _ E Hi). apply drop_small_kept.
Qed.

Lemma copyT_entries : forall k S A n3 t T, shape3 S A n3 t = true -> copyT k S A t = Some T ->
  forall s a l, (s < S)%nat -> (a < A)%nat -> (l < n3)%nat -> entry_kept k (at3 T a s l) (at3 t s a l).
Proof.
  intros k S A n3 t T Hs H s a l Hs' Ha Hl. destruct (shape3_spec _ _ _ _ _ Hs) as [_ L2]. unfold copyT in H.
  destruct (all_some_spec _ _ _ H) as [LT NT]. rewrite length_map_seq in NT.
  specialize (NT a [] Ha). rewrite nth_map_seq in NT by exact Ha.
  destruct (all_some_spec _ _ _ NT) as [LM NM]. rewrite length_map_seq in NM.
  specialize (NM s [] Hs'). rewrite nth_map_seq in NM by exact Hs'.
  destruct (L2 s Hs') as [_ L4]. unfold at3. apply (copy_row_entries _ _ _ _ NM). rewrite (L4 a Ha). exact Hl.
Qed.

Lemma dot_repeat_l : forall c v n, (length v <= n)%nat -> dot (repeat c n) v == c * qsum v.
Proof.
  intros c v. induction v as [|y v IH]; intros n Hn.
  - rewrite dot_nil_r. cbn [qsum]. lra.
  - destruct n as [|n]; [cbn [length] in Hn; lia|]. cbn [repeat dot qsum]. rewrite IH by (cbn [length] in Hn; lia). lra.
Qed.

Lemma map_repeat' : forall (A B : Type) (f : A -> B) x n, map f (repeat x n) = repeat (f x) n.
Proof. intros A B f x n. induction n; cbn [repeat map]; [reflexivity| rewrite IHn; reflexivity]. Qed.

Lemma conversion_preserves_lemma : forall k0 k m m' r,
  valid_model_k k0 m -> convert true k m = (Some m', r) ->
  valid_model_k k m' /\ r = Ok /\ mS m' = mS m /\ mA m' = mA m /\ mD m' = mD m /\
  (forall s a s1, (s < mS m)%nat -> (a < mA m)%nat -> (s1 < mS m)%nat ->
     entry_kept k (at3 (mT m') a s s1) (at3 (mT m) a s s1)) /\
  (forall s a, (s < mS m)%nat -> (a < mA m)%nat ->
     R_at m' s a == (match k with Dense => R_at m s a | Sparse => qdrop_small (R_at m s a) end)
                    * qsum (map xval (nth s (nth a (mT m) []) []))).
Proof.
  intros k0 k m m' r [[LT HT] [HR HD]] H. unfold convert in H.
  destruct (construct_valid _ _ _ _ H) as [Hv ->]. split; [exact Hv|]. split; [reflexivity|].
  cbn [construct] in H. cbn [gS gA gT gR gD gmodel_of] in H.
  destruct (shape3 (mS m) (mA m) (mS m) (transpose01 (mA m) (mS m) (mT m)) && _) eqn:Es; cbn [negb] in H; [|discriminate].
  apply andb_true_iff in Es. destruct Es as [Est _].
  destruct (negb (setDiscount_ok true (mD m))); [discriminate|].
  destruct (copyT k (mS m) (mA m) (transpose01 (mA m) (mS m) (mT m))) as [T|] eqn:ET; [|discriminate].
  inversion H; subst m'. cbn [mS mA mT mR mD]. repeat split.
  - intros s a s1 Hs Ha Hs1. rewrite <- (at3_transpose (mA m) (mS m) (mT m) a s s1 Ha Hs).
    eapply copyT_entries; eassumption.
  - intros s a Hs Ha. unfold R_at, nthq, row, copyR, transpose01. cbn [mS mA mT mR mD].
    rewrite !nth_map_seq by assumption.
    destruct (HT a Ha) as [_ H2]. destruct (H2 s Hs) as [Lrow _].
    unfold rew_row. destruct k.
    + apply dot_repeat_l. rewrite map_length. lia.
    + rewrite map_repeat'. apply dot_repeat_l. rewrite map_length. lia.
Qed.

(* a strictly valid dense model that MDP::SparseModel(const M&) rejects: an entry above 1 *)
Definition conv_reject_ops : list op :=
  [Ctor3 1 1 (XFin 1); SetT3 [[[XFin (1 + (5 # 10000000))]]]].
Lemma conversion_can_reject_lemma :
  exists m, run true Dense conv_reject_ops = Some m /\ valid_model m /\ convert true Sparse m = (None, Throw).
Proof.
  eexists. split; [vm_compute; reflexivity|]. split.
  - apply (proj1 (valid_model_k_dense _)). apply valid_model_kb_sound. vm_compute. reflexivity.
  - vm_compute. reflexivity.
Qed.

(* … and an accepted sparse model that MDP::Model(const M&) rejects (row mass off by 1.8e-6) *)
Lemma sparse_to_dense_rejects_lemma :
  exists m, run false Sparse sparse_drop_ops = Some m /\ convert false Dense m = (None, Throw).
Proof. eexists. split; vm_compute; reflexivity. Qed.

(* ---------------------------------------------------------------- converting constructors validate the SOURCE's discount *)
(* whatever the source reports (user-defined generic model, library model built through NO_CHECK): an
   accepted conversion has the source's discount and that discount is in (0,1] *)
Lemma copy_ctor_discount : forall fixed k g m r, construct fixed k (CtorCopy g) = (Some m, r) ->
  mD m = gD g /\ mS m = gS g /\ mA m = gA g /\ setDiscount_ok fixed (gD g) = true.
Proof.
  intros fixed k g m r H. cbn [construct] in H.
  destruct (negb (shape3 (gS g) (gA g) (gS g) (gT g) && shape3 (gS g) (gA g) (gS g) (gR g))); [discriminate|].
  destruct (setDiscount_ok fixed (gD g)) eqn:Ed; cbn [negb] in H; [|discriminate].
  destruct (copyT k (gS g) (gA g) (gT g)); [|discriminate]. inversion H; subst m. cbn [mD mS mA]. repeat split.
Qed.

Lemma copy_ctor_validates_discount_lemma : forall k g m r, construct true k (CtorCopy g) = (Some m, r) ->
  r = Ok /\ valid_model m /\ mD m = gD g /\ disc_ok (gD g).
Proof.
  intros k g m r H. destruct (construct_valid _ _ _ _ H) as [Hv ->]. destruct (copy_ctor_discount _ _ _ _ _ H) as [Ed [_ [_ Hok]]].
  split; [reflexivity|]. split; [apply (valid_model_k_any k); exact Hv|]. split; [exact Ed| apply setDiscount_iff_lemma; exact Hok].
Qed.

Lemma copy_ctor_rejects_bad_discount_lemma : forall k g, ~ disc_ok (gD g) ->
  exists r, construct true k (CtorCopy g) = (None, r) /\ r <> Ok.
Proof.
  intros k g Hbad. destruct (construct true k (CtorCopy g)) as [[m|] r] eqn:E.
  - exfalso. apply Hbad. exact (proj2 (proj2 (proj2 (copy_ctor_validates_discount_lemma _ _ _ _ E)))).
  - exists r. split; [reflexivity| exact (construct_none _ _ _ _ E)].
Qed.

(* conversion of an ARBITRARY object (possibly built through NO_CHECK, no validity assumed) *)
Lemma conversion_validates_discount_lemma : forall k m m' r, convert true k m = (Some m', r) ->
  r = Ok /\ valid_model m' /\ mD m' = mD m /\ disc_ok (mD m).
Proof. intros k m m' r H. unfold convert in H. exact (copy_ctor_validates_discount_lemma _ _ _ _ H). Qed.

(* POMDP::Model<M>(const PM &) / POMDP::SparseModel<M>(const PM &) *)
Lemma pomdp_copy_ctor_validates_discount_lemma : forall kb ko g p r, pconstruct true kb ko (PCtorCopy g) = (Some p, r) ->
  r = Ok /\ valid_pmodel_k kb ko p /\ mD (pM p) = gD (gpM g) /\ disc_ok (gD (gpM g)).
Proof.
  intros kb ko g p r H. destruct (pconstruct_valid _ _ _ _ _ H) as [Hv ->]. split; [reflexivity|]. split; [exact Hv|].
  cbn [pconstruct] in H. destruct (construct true kb (CtorCopy (gpM g))) as [[m|] r'] eqn:Ec; [|discriminate].
  destruct (copy_ctor_validates_discount_lemma _ _ _ _ Ec) as [_ [_ [Ed Hok]]].
  destruct (negb (shape3 (mS m) (mA m) (gpO g) (gpOb g))); [discriminate|].
  destruct (copyT ko (mS m) (mA m) (gpOb g)); [|discriminate]. inversion H; subst p. cbn [pM]. split; assumption.
Qed.

(* the seeded behaviour (discount copied unchecked) as a model-level witness: the pinned commit's
   NaN hole in setDiscount lets a NaN source through every converting constructor *)
Definition nan_source : gmodel := {| gS := 1; gA := 1; gD := XNaN; gT := [[[XFin 1]]]; gR := [[[0]]] |}.
Lemma conversion_nan_refuted_lemma :
  (exists m, construct false Sparse (CtorCopy nan_source) = (Some m, Ok) /\ mD m = XNaN) /\
  construct true Sparse (CtorCopy nan_source) = (None, Throw) /\
  construct true Dense (CtorCopy nan_source) = (None, Throw).
Proof. split; [eexists; split; vm_compute; reflexivity| split; vm_compute; reflexivity]. Qed.
