(* C06/Spec.v — what "a valid (PO)MDP object" means, written independently of the validators'
   loops: rows are finite, (almost) non-negative and sum to 1 within a tolerance; the discount is a
   finite number in (0,1]; tables have the declared dimensions.  Boolean twins are used by the
   driver's oracle on the implementation's dumped getters. *)
From Coq Require Import List Arith QArith Bool.
From AIT Require Import Base.Qx C06.Model.
Import ListNotations.
Local Open Scope Q_scope.

(* a row of extended doubles is a distribution: every entry finite and >= -neg, sum within tol of 1 *)
Definition prob_row_tol (neg tol : Q) (l : list xq) : Prop :=
  exists ql, l = map XFin ql /\ Forall (fun x => - neg <= x) ql /\
             - tol <= qsum ql - 1 /\ qsum ql - 1 <= tol.
(* the library's notion (Probability.hpp doc: "sum of all elements must be 1, all elements >= 0") *)
Definition prob_row (l : list xq) : Prop := prob_row_tol 0 epsS l.

(* what the SparseMatrix2D overload decides: sum and sum of absolute values both within epsS of 1 *)
Definition sprob_row (l : list xq) : Prop :=
  exists ql, l = map XFin ql /\
             - epsS <= qsum ql - 1 /\ qsum ql - 1 <= epsS /\
             - epsS <= qsum (map qabs ql) - 1 /\ qsum (map qabs ql) - 1 <= epsS.

Definition disc_ok (d : xq) : Prop := exists q, d = XFin q /\ 0 < q /\ q <= 1.

(* tolerances per storage kind; n = row length.  After the C06 repairs both classes guarantee the
   library's own notion (entries >= 0, sum within epsS of 1).  [kneg0]/[ksum0] are what the sparse
   classes of the pinned commit guarantee (entries as low as -epsS, up to n dropped entries of at
   most epsS each); the driver uses them to tell the two known findings from anything worse. *)
Definition kneg (k : kind) : Q := 0.
Definition ksum (k : kind) (n : nat) : Q := epsS.
Definition kneg0 (k : kind) : Q := match k with Dense => 0 | Sparse => epsS end.
Definition ksum0 (k : kind) (n : nat) : Q :=
  match k with Dense => epsS | Sparse => (inject_Z (Z.of_nat n) + 1) * epsS end.

(* a 3D table [i][j][.] of n1 x n2 rows of length n3, every row satisfying P *)
Definition tab_ok (P : list xq -> Prop) (n1 n2 n3 : nat) (T : tab3) : Prop :=
  length T = n1 /\
  forall i, (i < n1)%nat -> length (nth i T []) = n2 /\
    forall j, (j < n2)%nat -> length (nth j (nth i T []) []) = n3 /\ P (nth j (nth i T []) []).

Definition rshape_ok (n1 n2 : nat) (R : mat) : Prop :=
  length R = n1 /\ forall i, (i < n1)%nat -> length (nth i R []) = n2.

Definition valid_model_tol (neg tol : Q) (m : model) : Prop :=
  tab_ok (prob_row_tol neg tol) (mA m) (mS m) (mS m) (mT m) /\
  rshape_ok (mS m) (mA m) (mR m) /\ disc_ok (mD m).

(* the property's notion, for the dense classes *)
Definition valid_model (m : model) : Prop := valid_model_tol 0 epsS m.
Definition valid_model_k (k : kind) (m : model) : Prop := valid_model_tol (kneg k) (ksum k (mS m)) m.

Definition valid_pmodel_k (kb ko : kind) (p : pmodel) : Prop :=
  valid_model_k kb (pM p) /\
  tab_ok (prob_row_tol (kneg ko) (ksum ko (pO p))) (mA (pM p)) (mS (pM p)) (pO p) (pOb p).
Definition valid_pmodel (p : pmodel) : Prop := valid_pmodel_k Dense Dense p.

Definition ovalid {A : Type} (P : A -> Prop) (o : option A) : Prop :=
  match o with None => True | Some x => P x end.

(* ---- accessors for the "equal the supplied ones" clauses *)
Definition at3 (t : tab3) (i j k : nat) : xq := nth k (nth j (nth i t []) []) XNaN.
Definition rat3 (r : rtab3) (i j k : nat) : Q := nth k (nth j (nth i r []) []) 0.
Definition R_at (m : model) (s a : nat) : Q := nthq (row (mR m) s) a.

(* stored entry vs supplied entry: dense = identical; sparse = identical or dropped because within
   epsS of 0 (the documented sparsification threshold) *)
Definition entry_kept (k : kind) (stored supplied : xq) : Prop :=
  match k with
  | Dense => stored = supplied
  | Sparse => stored = supplied \/
              (stored = XFin 0 /\ exists q, supplied = XFin q /\ - epsS <= q /\ q <= epsS)
  end.
Definition qentry_kept (k : kind) (stored computed : Q) : Prop :=
  match k with
  | Dense => stored == computed
  | Sparse => stored == computed \/ (stored == 0 /\ - epsS <= computed /\ computed <= epsS)
  end.

(* expected reward from a naive [s][a][s1] reward table under the object's transitions *)
Definition exp_reward (m : model) (r : rtab3) (s a : nat) : Q :=
  qsum (map (fun s1 => rat3 r s a s1 * xval (at3 (mT m) a s s1)) (seq 0 (mS m))).

(* effect of an accepted setter (m before, m' after) *)
Definition effect (k : kind) (o : op) (m m' : model) : Prop :=
  mS m' = mS m /\ mA m' = mA m /\
  match o with
  | SetT3 t => mR m' = mR m /\ mD m' = mD m /\
      forall s a s1, (s < mS m)%nat -> (a < mA m)%nat -> (s1 < mS m)%nat ->
        entry_kept k (at3 (mT m') a s s1) (at3 t s a s1)
  | SetTM t => mR m' = mR m /\ mD m' = mD m /\ mT m' = t
  | SetR3 r => mT m' = mT m /\ mD m' = mD m /\
      forall s a, (s < mS m)%nat -> (a < mA m)%nat -> qentry_kept k (R_at m' s a) (exp_reward m' r s a)
  | SetRM r => mT m' = mT m /\ mD m' = mD m /\ mR m' = r
  | SetDiscount d => mT m' = mT m /\ mR m' = mR m /\ mD m' = d
  | _ => True
  end.

(* ------------------------------------------------------------------ boolean twins *)
Definition is_fin_ge (lo : Q) (x : xq) : bool := match x with XFin q => Qle_bool lo q | _ => false end.
Definition prob_row_tolb (neg tol : Q) (l : list xq) : bool :=
  forallb (is_fin_ge (- neg)) l &&
  Qle_bool (- tol) (qsum (map xval l) - 1) && Qle_bool (qsum (map xval l) - 1) tol.
Definition disc_okb (d : xq) : bool :=
  match d with XFin q => negb (Qle_bool q 0) && Qle_bool q 1 | _ => false end.
Definition tab_okb (P : list xq -> bool) (n1 n2 n3 : nat) (T : tab3) : bool :=
  (length T =? n1)%nat &&
  forallb (fun M => (length M =? n2)%nat && forallb (fun r => (length r =? n3)%nat && P r) M) T.
Definition valid_model_tolb (neg tol : Q) (m : model) : bool :=
  tab_okb (prob_row_tolb neg tol) (mA m) (mS m) (mS m) (mT m) &&
  shape2 (mS m) (mA m) (mR m) && disc_okb (mD m).
Definition valid_model_kb (k : kind) (m : model) : bool := valid_model_tolb (kneg k) (ksum k (mS m)) m.
(* pinned-commit tolerances (no theorem for the unrepaired sparse setters beyond ProofsModel.drop_small_prob_row) *)
Definition valid_model_k0b (k : kind) (m : model) : bool := valid_model_tolb (kneg0 k) (ksum0 k (mS m)) m.
Definition valid_pmodel_k0b (kb ko : kind) (p : pmodel) : bool :=
  valid_model_k0b kb (pM p) &&
  tab_okb (prob_row_tolb (kneg0 ko) (ksum0 ko (pO p))) (mA (pM p)) (mS (pM p)) (pO p) (pOb p).
Definition valid_pmodel_kb (kb ko : kind) (p : pmodel) : bool :=
  valid_model_kb kb (pM p) &&
  tab_okb (prob_row_tolb (kneg ko) (ksum ko (pO p))) (mA (pM p)) (mS (pM p)) (pO p) (pOb p).

(* spec-side decisions on inputs, used by the oracle to judge the implementation's accept/reject *)
Definition is_fin (x : xq) : bool := match x with XFin _ => true | _ => false end.
Definition sprob_rowb (r : list xq) : bool :=
  forallb is_fin r &&
  Qle_bool (- epsS) (qsum (map xval r) - 1) && Qle_bool (qsum (map xval r) - 1) epsS &&
  Qle_bool (- epsS) (qsum (map qabs (map xval r)) - 1) &&
  Qle_bool (qsum (map qabs (map xval r)) - 1) epsS.
Definition prob_tableb (t : tab3) : bool := forallb (forallb (prob_row_tolb 0 epsS)) t.
Definition sprob_tableb (t : tab3) : bool := forallb (forallb sprob_rowb) t.

(* ------------------------------------------------------------------ AMDP *)
(* what the accumulation loop of AMDP::discretize* guarantees for one (a,s): contributions are
   non-negative and each exceeds epsS, so a row is either never visited (all zero, reward 0) or has
   mass > epsS *)
Definition acc_row_ok (trow : vec) (r : Q) : Prop :=
  nonneg trow /\ ((Forall (fun x => x == 0) trow /\ r == 0) \/ epsS < qsum trow).
Definition acc_row_okb (trow : vec) (r : Q) : bool :=
  nonnegb trow && ((forallb (fun x => Qeq_bool x 0) trow && Qeq_bool r 0) || negb (Qle_bool (qsum trow) epsS)).
(* the derived MDP row is an exact distribution and the reward is a finite number *)
Definition amdp_row_valid (out : vec * xq) : Prop :=
  is_dist (fst out) /\ exists q, snd out = XFin q.

(* ------------------------------------------------------------------ reward oracle *)
(* "expected rewards equal the supplied ones": stored R(s,a) against sum_s1 r(s,a,s1) * T(s,a,s1),
   where m carries the table T the rewards are taken under (the dumped T, or the supplied one for the
   copy constructors).  tol absorbs double rounding (0 = exact); the sparse classes may store 0 for a
   value within epsS of 0. *)
Definition reward_entry_okb (k : kind) (tol stored computed : Q) : bool :=
  Qle_bool (qabs (stored - computed)) tol ||
  match k with
  | Dense => false
  | Sparse => Qeq_bool stored 0 && Qle_bool (qabs computed) (epsS + tol)
  end.
Definition rewards_okb (k : kind) (tol : Q) (m : model) (r : rtab3) : bool :=
  forallb (fun s => forallb (fun a => reward_entry_okb k tol (R_at m s a) (exp_reward m r s a))
                            (seq 0 (mA m))) (seq 0 (mS m)).

(* a contribution of the AMDP loop: bucket indices in range (the discretizer maps into [0, S1)),
   mass non-negative (a sum of products of probabilities) *)
Definition contrib_ok (S1 A : nat) (c : contrib) : Prop :=
  (c_s c < S1)%nat /\ (c_s1 c < S1)%nat /\ (c_a c < A)%nat /\ 0 <= c_p c.
Definition contrib_okb (S1 A : nat) (c : contrib) : bool :=
  (c_s c <? S1)%nat && (c_s1 c <? S1)%nat && (c_a c <? A)%nat && Qle_bool 0 (c_p c).

(* ------------------------------------------------------------------ AMDP: what the derived MDP must be *)
(* Written as filtered sums over the contribution list (no tables, no updates): a contribution counts
   when its mass differs from 0 by more than 1e-6; the row (a,s) of the derived MDP is the counted mass
   per successor bucket divided by the ACCUMULATED counted mass of (a,s); the reward is the counted
   p*r divided by that same mass.  An (a,s) without counted mass is absorbing with reward 0. *)
Definition c_counts (c : contrib) : bool := negb (eqSmall 0 (c_p c)).
Definition c_at (a s : nat) (c : contrib) : bool := c_counts c && (c_a c =? a)%nat && (c_s c =? s)%nat.
Definition amdp_mass (cs : list contrib) (a s : nat) : Q := qsum (map c_p (filter (c_at a s) cs)).
Definition amdp_cell (cs : list contrib) (a s s1 : nat) : Q :=
  qsum (map c_p (filter (fun c => c_at a s c && (c_s1 c =? s1)%nat) cs)).
Definition amdp_rsum (k : kind) (cs : list contrib) (a s : nat) : Q :=
  qsum (map (fun c => c_p c * c_r c)
            (filter (fun c => c_at a s c && match k with Dense => true | Sparse => negb (eqSmall 0 (c_r c)) end) cs)).
Definition amdp_spec_T (cs : list contrib) (a s s1 : nat) : Q :=
  if Qle_bool (amdp_mass cs a s) epsS then (if (s =? s1)%nat then 1 else 0)
  else amdp_cell cs a s s1 / amdp_mass cs a s.
Definition amdp_spec_R (k : kind) (cs : list contrib) (a s : nat) : Q :=
  if Qle_bool (amdp_mass cs a s) epsS then 0
  else match k with
       | Dense => amdp_rsum k cs a s / amdp_mass cs a s
       | Sparse => if eqSmall (amdp_rsum k cs a s) 0 then amdp_rsum k cs a s
                   else amdp_rsum k cs a s / amdp_mass cs a s
       end.
Definition qcloseb (tol x y : Q) : bool := Qle_bool (qabs (x - y)) tol.
(* T' is [a][s][s1], R' is [s][a] (as dumped) *)
Definition amdp_spec_okb (k : kind) (tol : Q) (S1 A : nat) (cs : list contrib) (T' : list mat) (R' : mat) : bool :=
  forallb (fun a => forallb (fun s =>
      qcloseb tol (nthq (row R' s) a) (amdp_spec_R k cs a s) &&
      forallb (fun s1 => qcloseb tol (nthq (row (nth a T' []) s) s1) (amdp_spec_T cs a s s1)) (seq 0 S1))
    (seq 0 S1)) (seq 0 A).
