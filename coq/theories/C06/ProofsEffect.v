(* C06/ProofsEffect.v — what an accepted setter stores: the supplied tables (sparse: up to the
   sparsification threshold) and the expected rewards of the supplied reward table. *)
From Coq Require Import List Arith QArith Qminmax Lqa Lia Bool.
From AIT Require Import Base.Qx C06.Model C06.Spec C06.ProofsProb C06.ProofsModel.
Import ListNotations.
Local Open Scope Q_scope.

Lemma qsum_zero : forall (A : Type) (f : A -> Q) l, (forall x, In x l -> f x == 0) -> qsum (map f l) == 0.
Proof.
  intros A f l. induction l as [|x l IH]; intros H; cbn [map qsum]; [lra|].
  rewrite (H x (or_introl eq_refl)), IH; [lra|]. intros y Hy. apply H. right. exact Hy.
Qed.

Lemma nth_nil : forall (A : Type) i (d : A), nth i [] d = d.
Proof. intros A [|i] d; reflexivity. Qed.

(* dot product as an index sum, for any index range covering the first vector *)
Lemma dot_as_sum : forall a b n, (length a <= n)%nat ->
  dot a b == qsum (map (fun i => nth i a 0 * nth i b 0) (seq 0 n)).
Proof.
  induction a as [|x a IH]; intros b n Hn.
  - cbn [dot]. symmetry. apply qsum_zero. intros i _. rewrite nth_nil. lra.
  - destruct b as [|y b].
    + cbn [dot]. symmetry. apply qsum_zero. intros i _. rewrite nth_nil. lra.
    + destruct n as [|n]; [cbn [length] in Hn; lia|]. cbn [dot seq map qsum nth].
      rewrite <- seq_shift, map_map. cbn [nth]. rewrite <- (IH b n); [lra|]. cbn [length] in Hn. lia.
Qed.

Lemma nth_map_xval : forall tt i, nth i (map xval tt) 0 = xval (nth i tt XNaN).
Proof.
  induction tt as [|x tt IH]; intros [|i]; cbn [map nth xval]; try reflexivity. apply IH.
Qed.

Lemma rew_row_as_sum : forall rr tt n, length rr = n ->
  rew_row rr tt == qsum (map (fun i => nth i rr 0 * xval (nth i tt XNaN)) (seq 0 n)).
Proof.
  intros rr tt n Hl. unfold rew_row. rewrite (dot_as_sum rr (map xval tt) n) by lia.
  apply qsum_map_ext. intros i _. rewrite nth_map_xval. lra.
Qed.

Lemma at3_transpose : forall n1 n2 (t : tab3) i j l, (i < n1)%nat -> (j < n2)%nat ->
  at3 (transpose01 n1 n2 t) j i l = at3 t i j l.
Proof.
  intros n1 n2 t i j l Hi Hj. unfold at3, transpose01.
  rewrite nth_map_seq by exact Hj. rewrite nth_map_seq by exact Hi. reflexivity.
Qed.

Lemma at3_map : forall f (T : tab3) i j l, (i < length T)%nat -> (j < length (nth i T []))%nat ->
  (l < length (nth j (nth i T []) []))%nat ->
  at3 (map (map (map f)) T) i j l = f (at3 T i j l).
Proof.
  intros f T i j l Hi Hj Hl. unfold at3.
  rewrite (nth_map_lt _ _ (map (map f)) T i [] []) by exact Hi.
  rewrite (nth_map_lt _ _ (map f) (nth i T []) j [] []) by exact Hj.
  rewrite (nth_map_lt _ _ f (nth j (nth i T []) []) l XNaN XNaN) by exact Hl. reflexivity.
Qed.

Lemma drop_small_kept : forall x, entry_kept Sparse (drop_small x) x.
Proof.
  intros x. cbn [entry_kept]. destruct (drop_small_cases x) as [D|[D H]]; [left; exact D| right; split; assumption].
Qed.

(* accepted naive-table setter: stored entry (j,i,l) is the supplied entry (i,j,l), or was dropped *)
Lemma setT3_entries : forall fixed k n1 n2 n3 t T, shape3 n1 n2 n3 t = true -> setT3 fixed k n1 n2 t = Some T ->
  forall i j l, (i < n1)%nat -> (j < n2)%nat -> (l < n3)%nat -> entry_kept k (at3 T j i l) (at3 t i j l).
Proof.
  intros fixed k n1 n2 n3 t T Hs H i j l Hi Hj Hl. unfold setT3 in H.
  destruct (isProbability3 t) eqn:E; [|discriminate]. apply isProbability3_iff_lemma in E.
  destruct (tab_ok_transpose _ _ _ _ _ Hs E) as [L1 L2]. destruct (L2 j Hj) as [L3 L4]. destruct (L4 i Hi) as [L5 _].
  destruct k.
  - inversion H; subst T. cbn [entry_kept]. apply at3_transpose; assumption.
  - destruct (fixed && negb (isProbabilityS3f fixed (map (map (map drop_small)) (transpose01 n1 n2 t)))); [discriminate|].
    inversion H; subst T. rewrite at3_map by lia. rewrite at3_transpose by assumption. apply drop_small_kept.
Qed.

Lemma qdrop_small_kept : forall x, qentry_kept Sparse (qdrop_small x) x.
Proof.
  intros x. cbn [qentry_kept]. unfold qdrop_small, eqSmall. destruct (Qle_bool (qabs (x - 0)) epsS) eqn:E.
  - right. apply Qle_bool_iff in E. apply qabs_le in E. split; [reflexivity|]. split; lra.
  - left. reflexivity.
Qed.

Lemma rewards3_entries : forall k S A T r s a, shape3 S A S r = true -> (s < S)%nat -> (a < A)%nat ->
  qentry_kept k (nthq (row (rewards3 k S A T r) s) a)
    (qsum (map (fun s1 => rat3 r s a s1 * xval (at3 T a s s1)) (seq 0 S))).
Proof.
  intros k S A T r s a Hs Hs' Ha. destruct (shape3_spec _ _ _ _ _ Hs) as [_ L2].
  destruct (L2 s Hs') as [_ L4]. specialize (L4 a Ha).
  unfold nthq, row, rewards3. rewrite nth_map_seq by exact Hs'. rewrite nth_map_seq by exact Ha.
  pose proof (rew_row_as_sum (nth a (nth s r []) []) (nth s (nth a T []) []) S L4) as HR.
  unfold rat3, at3. destruct k.
  - cbn [qentry_kept]. exact HR.
  - pose proof (qdrop_small_kept (rew_row (nth a (nth s r []) []) (nth s (nth a T []) []))) as HK.
    cbn [qentry_kept] in *. destruct HK as [HK|[HK [L U]]]; [left| right]; [rewrite HK; exact HR|].
    split; [exact HK|]. split; lra.
Qed.

Lemma setter_effect_lemma : forall fixed k m o m', setter fixed k m o = (m', Ok) -> effect k o m m'.
Proof.
  intros fixed k m o m' H. destruct o; cbn [setter] in H; try discriminate.
  - (* SetT3 *)
    destruct (shape3 (mS m) (mA m) (mS m) t) eqn:Es; cbn [negb] in H; [|discriminate].
    destruct (setT3 fixed k (mS m) (mA m) t) as [T|] eqn:ET; [|discriminate]. inversion H; subst m'.
    unfold effect. cbn [mS mA mT mR mD]. repeat split.
    intros s a s1 Hs Ha Hs1. eapply setT3_entries; eassumption.
  - (* SetTM *)
    destruct (shape3 (mA m) (mS m) (mS m) t) eqn:Es; cbn [negb] in H; [|discriminate].
    destruct (setTM fixed k t) as [T|] eqn:ET; [|discriminate]. inversion H; subst m'.
    unfold effect. cbn [mS mA mT mR mD]. repeat split. exact (setTM_same _ _ _ _ ET).
  - (* SetR3 *)
    destruct (shape3 (mS m) (mA m) (mS m) r) eqn:Es; cbn [negb] in H; [|discriminate]. inversion H; subst m'.
    unfold effect, R_at, exp_reward. cbn [mS mA mT mR mD]. repeat split.
    intros s a Hs Ha. apply rewards3_entries; assumption.
  - (* SetRM *)
    destruct (shape2 (mS m) (mA m) r) eqn:Es; cbn [negb] in H; [|discriminate]. inversion H; subst m'.
    unfold effect. cbn [mS mA mT mR mD]. repeat split.
  - (* SetDiscount *)
    destruct (setDiscount_ok fixed d) eqn:Ed; [|discriminate]. inversion H; subst m'.
    unfold effect. cbn [mS mA mT mR mD]. repeat split.
Qed.

(* the (s,a,t,r,d) constructor stores what the two setters would store *)
Lemma ctor_tables_effect_lemma : forall fixed k s a t r d m,
  construct fixed k (CtorTables s a t r d) = (Some m, Ok) ->
  mS m = s /\ mA m = a /\ mD m = d /\
  (forall i j l, (i < s)%nat -> (j < a)%nat -> (l < s)%nat -> entry_kept k (at3 (mT m) j i l) (at3 t i j l)) /\
  (forall i j, (i < s)%nat -> (j < a)%nat -> qentry_kept k (R_at m i j) (exp_reward m r i j)).
Proof.
  intros fixed k s a t r d m H. cbn [construct] in H.
  destruct (shape3 s a s t && shape3 s a s r) eqn:Es; cbn [negb] in H; [|discriminate].
  apply andb_true_iff in Es. destruct Es as [Et Er].
  destruct (negb (setDiscount_ok fixed d)); [discriminate|].
  destruct (setT3 fixed k s a t) as [T|] eqn:ET; [|discriminate]. inversion H; subst m. cbn [mS mA mT mR mD].
  repeat split.
  - intros i j l Hi Hj Hl. eapply setT3_entries; eassumption.
  - intros i j Hi Hj. unfold R_at, exp_reward. cbn [mS mA mT mR mD]. apply rewards3_entries; assumption.
Qed.

(* observation setters of the POMDP classes *)
Lemma psetO3_effect_lemma : forall fixed kb ko p obf p',
  psetter fixed kb ko p (PSetO3 obf) = (p', Ok) ->
  pM p' = pM p /\ pO p' = pO p /\
  forall s1 a o, (s1 < mS (pM p))%nat -> (a < mA (pM p))%nat -> (o < pO p)%nat ->
    entry_kept ko (at3 (pOb p') a s1 o) (at3 obf s1 a o).
Proof.
  intros fixed kb ko p obf p' H. cbn [psetter] in H.
  destruct (shape3 (mS (pM p)) (mA (pM p)) (pO p) obf) eqn:Es; cbn [negb] in H; [|discriminate].
  destruct (setO3 fixed ko (mS (pM p)) (mA (pM p)) obf) as [ob|] eqn:EO; [|discriminate]. inversion H; subst p'.
  cbn [pM pO pOb]. repeat split. intros s1 a o Hs Ha Ho. rewrite setO3_eq in EO. eapply setT3_entries; eassumption.
Qed.

Lemma psetOM_effect_lemma : forall fixed kb ko p obf p',
  psetter fixed kb ko p (PSetOM obf) = (p', Ok) -> pM p' = pM p /\ pO p' = pO p /\ pOb p' = obf.
Proof.
  intros fixed kb ko p obf p' H. cbn [psetter] in H.
  destruct (shape3 (mA (pM p)) (mS (pM p)) (pO p) obf) eqn:Es; cbn [negb] in H; [|discriminate].
  destruct (setTM fixed ko obf) as [ob|] eqn:EO; [|discriminate]. inversion H; subst p'. cbn [pM pO pOb].
  repeat split. exact (setTM_same _ _ _ _ EO).
Qed.

(* ---------------------------------------------------------------- sparse setter: stored rows can miss 1 by more than epsS *)
Definition sparse_drop_ops : list op :=
  [Ctor3 3 1 (XFin 1);
   SetT3 [[[XFin (9999982 # 10000000); XFin (9 # 10000000); XFin (9 # 10000000)]];
          [[XFin 0; XFin 1; XFin 0]]; [[XFin 0; XFin 0; XFin 1]]]].

(* pinned commit (fixed = false): accepted, stored row misses 1 by 1.8e-6;
   repaired code (fixed = true): the same call throws and the identity rows stay *)
Lemma sparse_rows_within_epsS_refuted_lemma :
  (exists m, run false Sparse sparse_drop_ops = Some m /\
             nth 0 (nth 0 (mT m) []) [] = [XFin (9999982 # 10000000); XFin 0; XFin 0] /\
             valid_model_k0b Sparse m = true /\ ~ valid_model m) /\
  (exists m, run true Sparse sparse_drop_ops = Some m /\ mT m = identity3 3 1).
Proof.
  split.
  - eexists. split; [vm_compute; reflexivity|]. split; [reflexivity|]. split; [vm_compute; reflexivity|].
    intros [[_ HT] _]. cbn [mA mS mT] in HT. destruct (HT 0%nat) as [_ H0]; [lia|].
    destruct (H0 0%nat) as [_ [ql [E [_ [L _]]]]]; [lia|]. cbn [nth] in E.
    change [XFin (9999982 # 10000000); XFin 0; XFin 0] with (map XFin [9999982 # 10000000; 0; 0]) in E.
    apply map_XFin_inj in E. subst ql. revert L. unfold epsS. cbn [qsum]. unfold Qle. cbn. lia.
  - eexists. split; vm_compute; reflexivity.
Qed.

(* pinned commit: setTransitionFunction(SparseMatrix3D) stores a row with a negative entry *)
Definition sparse_neg_ops : list op :=
  [Ctor3 2 1 (XFin 1); SetTM [[neg_row_witness; [XFin 0; XFin 1]]]].
Lemma sparse_negative_stored_refuted_lemma :
  (exists m, run false Sparse sparse_neg_ops = Some m /\ nth 0 (nth 0 (mT m) []) [] = neg_row_witness) /\
  (exists m, run true Sparse sparse_neg_ops = Some m /\ mT m = identity3 2 1).
Proof. split; eexists; split; vm_compute; reflexivity. Qed.

(* ---------------------------------------------------------------- the reward oracle is sound *)
Lemma rewards_okb_sound : forall k m r, rewards_okb k 0 m r = true ->
  forall s a, (s < mS m)%nat -> (a < mA m)%nat -> qentry_kept k (R_at m s a) (exp_reward m r s a).
Proof.
  intros k m r H s a Hs Ha. unfold rewards_okb in H. rewrite forallb_forall in H.
  assert (Hin : In s (seq 0 (mS m))) by (apply in_seq; lia). specialize (H s Hin).
  rewrite forallb_forall in H. assert (Hia : In a (seq 0 (mA m))) by (apply in_seq; lia). specialize (H a Hia).
  unfold reward_entry_okb in H. apply orb_true_iff in H. destruct H as [H|H].
  - apply Qle_bool_iff in H. apply qabs_le in H. destruct k; cbn [qentry_kept]; [lra| left; lra].
  - destruct k; [discriminate|]. apply andb_true_iff in H. destruct H as [H0 H1].
    apply Qeq_bool_iff in H0. apply Qle_bool_iff in H1. apply qabs_le in H1. cbn [qentry_kept]. right.
    split; [exact H0|]. split; lra.
Qed.
