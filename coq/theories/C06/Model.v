(* C06/Model.v — executable model of the validators and of the constructor/setter state machines of
   MDP::Model, MDP::SparseModel, POMDP::Model<M>, POMDP::SparseModel<M>.  NO proofs here.

   Numbers that reach a validator are extended doubles [xq] (finite rational, +inf, -inf, NaN) with
   IEEE comparison semantics (every comparison involving NaN is false).  Reward inputs are finite
   ([Q]).  Sparse Eigen matrices are represented by their dense expansion (absent entry = 0): every
   getter of the classes (coeff, row sums) sees exactly that expansion.

   [fixed : bool]: [false] = the code of the pinned commit, [true] = the code after the C06 repairs
   (fixes/C06-discount-validation.patch, C06-sparse-isprobability-negatives.patch,
   C06-sparse-setters-validate-stored.patch, C06-amdp-unvisited-reward.patch).
   [kind] selects dense (MDP::Model) or sparse (MDP::SparseModel) storage. *)
From Coq Require Import List Arith QArith Bool.
From AIT Require Import Base.Qx.
Import ListNotations.
Local Open Scope Q_scope.

(* ------------------------------------------------------------------ extended doubles *)
Inductive xq := XFin (q : Q) | XPInf | XNInf | XNaN.

Definition Qltb (a b : Q) : bool := negb (Qle_bool b a).

(* IEEE a < b *)
Definition xlt (a b : xq) : bool :=
  match a, b with
  | XNaN, _ | _, XNaN => false
  | XFin x, XFin y => Qltb x y
  | XNInf, XNInf => false
  | XNInf, _ => true
  | _, XNInf => false
  | XPInf, _ => false
  | XFin _, XPInf => true
  end.

(* IEEE a <= b *)
Definition xle (a b : xq) : bool :=
  match a, b with
  | XNaN, _ | _, XNaN => false
  | XFin x, XFin y => Qle_bool x y
  | XNInf, _ => true
  | _, XNInf => false
  | _, XPInf => true
  | XPInf, XFin _ => false
  end.

Definition xneg (a : xq) : xq :=
  match a with XFin x => XFin (- x) | XPInf => XNInf | XNInf => XPInf | XNaN => XNaN end.

(* IEEE addition of exact values (no rounding: the model computes in Q) *)
Definition xadd (a b : xq) : xq :=
  match a, b with
  | XNaN, _ | _, XNaN => XNaN
  | XFin x, XFin y => XFin (x + y)
  | XPInf, XNInf | XNInf, XPInf => XNaN
  | XPInf, _ | _, XPInf => XPInf
  | XNInf, _ | _, XNInf => XNInf
  end.

Definition xsub (a b : xq) : xq := xadd a (xneg b).

(* std::fabs *)
Definition xabs (a : xq) : xq :=
  match a with XFin x => XFin (qabs x) | XPInf => XPInf | XNInf => XPInf | XNaN => XNaN end.

(* value of a finite entry (used only on validated tables) *)
Definition xval (a : xq) : Q := match a with XFin x => x | _ => 0 end.

Fixpoint xsum_from (acc : xq) (l : list xq) : xq :=
  match l with [] => acc | v :: t => xsum_from (xadd acc v) t end.
Definition xsum (l : list xq) : xq := xsum_from (XFin 0) l.

(* src: include/AIToolbox/Utils/Core.hpp:checkEqualSmall  — fabs(a - b) <= equalToleranceSmall *)
Definition checkEqualSmall (a b : xq) : bool := xle (xabs (xsub a b)) (XFin epsS).
(* src: include/AIToolbox/Utils/Core.hpp:checkDifferentSmall *)
Definition checkDifferentSmall (a b : xq) : bool := negb (checkEqualSmall a b).

(* ------------------------------------------------------------------ isProbability *)
(* src: include/AIToolbox/Utils/Probability.hpp:isProbability(size, in) — the loop; None = early
   "return false" on a negative value, Some p = accumulated sum *)
Fixpoint isProb1_loop (p : xq) (l : list xq) : option xq :=
  match l with
  | [] => Some p
  | v :: t => if xlt v (XFin 0) then None else isProb1_loop (xadd p v) t
  end.
Definition isProbability1 (l : list xq) : bool :=
  match isProb1_loop (XFin 0) l with
  | None => false
  | Some p => negb (checkDifferentSmall p (XFin 1))
  end.
(* src: Probability.hpp:isProbability(rows, cols, in) *)
Definition isProbability2 (m : list (list xq)) : bool := forallb isProbability1 m.
(* src: Probability.hpp:isProbability(depth, rows, cols, in) *)
Definition isProbability3 (t : list (list (list xq))) : bool := forallb isProbability2 t.

(* Eigen minCoeff as a sequential scan with `<` update (NaN never replaces, is never replaced);
   Eigen's NaN behaviour is unspecified, the theorems show the verdict does not depend on it *)
Fixpoint xmin_from (m : xq) (l : list xq) : xq :=
  match l with [] => m | v :: t => xmin_from (if xlt v m then v else m) t end.
Definition xminCoeff (l : list xq) : xq := match l with [] => XPInf | v :: t => xmin_from v t end.

(* src: src/Utils/Probability.cpp:isProbability(const Matrix2D &) *)
Definition isProbabilityRowD (r : list xq) : bool :=
  negb (xlt (xminCoeff r) (XFin 0) || checkDifferentSmall (xsum r) (XFin 1)).
Definition isProbabilityM2 (m : list (list xq)) : bool := forallb isProbabilityRowD m.
(* src: src/Utils/Probability.cpp:isProbability(const Matrix3D &) *)
Definition isProbabilityM3 (t : list (list (list xq))) : bool := forallb isProbabilityM2 t.

(* src: src/Utils/Probability.cpp:isProbability(const SparseMatrix2D &) — sum and cwiseAbs().sum() *)
Definition isProbabilityRowS (r : list xq) : bool :=
  negb (checkDifferentSmall (xsum r) (XFin 1) || checkDifferentSmall (xsum (map xabs r)) (XFin 1)).
Definition isProbabilityS2 (m : list (list xq)) : bool := forallb isProbabilityRowS m.
(* src: src/Utils/Probability.cpp:isProbability(const SparseMatrix3D &) *)
Definition isProbabilityS3 (t : list (list (list xq))) : bool := forallb isProbabilityS2 t.

(* the same overload after fixes/C06-sparse-isprobability-negatives.patch: the stored coefficients of each
   row are walked with `value < 0 -> false; sum += value` — on the dense expansion (absent = 0) this is
   the 1D template loop *)
Definition isProbabilityS3f (fixed : bool) (t : list (list (list xq))) : bool :=
  if fixed then isProbability3 t else isProbabilityS3 t.

(* ------------------------------------------------------------------ discount *)
(* src: src/MDP/Model.cpp:Model::setDiscount (and SparseModel::setDiscount): true = accepted.
   fixed=false: `if (d <= 0.0 || d > 1.0) throw`;  fixed=true: `if (!(d > 0.0 && d <= 1.0)) throw` *)
Definition setDiscount_ok (fixed : bool) (d : xq) : bool :=
  if fixed then xlt (XFin 0) d && xle d (XFin 1)
  else negb (xle d (XFin 0) || xlt (XFin 1) d).

(* ------------------------------------------------------------------ tables *)
Definition tab3 := list (list (list xq)).
Definition rtab3 := list (list (list Q)).
Definition tab2 := list (list xq).

Definition shape2 {A : Type} (n1 n2 : nat) (m : list (list A)) : bool :=
  (length m =? n1)%nat && forallb (fun r => (length r =? n2)%nat) m.
Definition shape3 {A : Type} (n1 n2 n3 : nat) (t : list (list (list A))) : bool :=
  (length t =? n1)%nat && forallb (shape2 n2 n3) t.

(* [i][j][k] -> [j][i][k] *)
Definition transpose01 {A : Type} (n1 n2 : nat) (t : list (list (list A))) : list (list (list A)) :=
  map (fun j => map (fun i => nth j (nth i t []) []) (seq 0 n1)) (seq 0 n2).

Definition identity3 (S A : nat) : tab3 :=
  map (fun _ => map (fun s => map (fun s1 => if (s =? s1)%nat then XFin 1 else XFin 0) (seq 0 S)) (seq 0 S)) (seq 0 A).
Definition zeroR (S A : nat) : mat := repeat (repeat 0 A) S.

(* sparsification: `if (checkDifferentSmall(0.0, p)) insert(...) = p` — otherwise the entry is absent *)
Definition drop_small (p : xq) : xq := if checkDifferentSmall (XFin 0) p then p else XFin 0.
Definition qdrop_small (x : Q) : Q := if eqSmall x 0 then 0 else x.

Inductive kind := Dense | Sparse.

(* the object: T is [a][s][s1], R is [s][a] *)
Record model := { mS : nat; mA : nat; mT : tab3; mR : mat; mD : xq }.

(* generic IsModel source of the template copy-constructors: tables [s][a][s1] *)
Record gmodel := { gS : nat; gA : nat; gD : xq; gT : tab3; gR : rtab3 }.

Inductive op :=
  | Ctor3 (s a : nat) (d : xq)                              (* Model(s, a, discount) *)
  | CtorTables (s a : nat) (t : tab3) (r : rtab3) (d : xq)  (* Model(s, a, t, r, d) *)
  | CtorCopy (g : gmodel)                                   (* Model(const M &) *)
  | SetT3 (t : tab3)                                        (* setTransitionFunction(naive [s][a][s1]) *)
  | SetTM (t : tab3)                                        (* setTransitionFunction((Sparse)Matrix3D [a][s][s1]) *)
  | SetR3 (r : rtab3)                                       (* setRewardFunction(naive [s][a][s1]) *)
  | SetRM (r : mat)                                         (* setRewardFunction((Sparse)Matrix2D [s][a]) *)
  | SetDiscount (d : xq).

(* Ok: accepted; Throw: std::invalid_argument; NoObj: setter issued while no object exists;
   Pre: documented precondition violated (container dimensions do not match S, A, O — the C++ does
   no size checks), behaviour not modelled *)
Inductive result := Ok | Throw | NoObj | Pre.

(* expected reward of the naive 3D reward setter / copy constructors: sum_s1 r[s][a][s1] * T[a][s][s1] *)
Definition rew_row (r : list Q) (t : list xq) : Q := dot r (map xval t).

(* src: include/AIToolbox/MDP/Model.hpp:Model::setRewardFunction(const R &)  (dense)
   src: include/AIToolbox/MDP/SparseModel.hpp:SparseModel::setRewardFunction(const R &) (sparse: values
   with |newRew| <= 1e-6 are not stored) *)
Definition rewards3 (k : kind) (S A : nat) (T : tab3) (r : rtab3) : mat :=
  map (fun s => map (fun a =>
        let x := rew_row (nth a (nth s r []) []) (nth s (nth a T []) []) in
        match k with Dense => x | Sparse => qdrop_small x end) (seq 0 A)) (seq 0 S).

(* src: Model::setTransitionFunction(const T &) / SparseModel::setTransitionFunction(const T &):
   validation on the whole input first, then the copy (sparse: small entries dropped).
   fixed = true (fixes/C06-sparse-setters-validate-stored.patch): the sparse table is built on the side
   and re-validated after dropping, before it replaces the stored one *)
Definition setT3 (fixed : bool) (k : kind) (S A : nat) (t : tab3) : option tab3 :=
  if isProbability3 t then
    match k with
    | Dense => Some (transpose01 S A t)
    | Sparse =>
      let T := map (map (map drop_small)) (transpose01 S A t) in
      if fixed && negb (isProbabilityS3f fixed T) then None else Some T
    end
  else None.

(* src: src/MDP/Model.cpp:Model::setTransitionFunction(const Matrix3D &)
   src: src/MDP/SparseModel.cpp:SparseModel::setTransitionFunction(const SparseMatrix3D &) *)
Definition setTM (fixed : bool) (k : kind) (t : tab3) : option tab3 :=
  if (match k with Dense => isProbabilityM3 t | Sparse => isProbabilityS3f fixed t end) then Some t else None.

(* src: SparseModel::SparseModel(const M &) — one (s,a) row: range check per entry, drop small ones *)
Fixpoint sp_copy_row (l : list xq) : option (list xq) :=
  match l with
  | [] => Some []
  | p :: t =>
    if xlt p (XFin 0) || xlt (XFin 1) p then None
    else match sp_copy_row t with None => None | Some k => Some (drop_small p :: k) end
  end.
(* … followed by `if (checkDifferentSmall(1.0, transitions_[a].row(s).sum())) throw` *)
Definition sp_copy_row_checked (l : list xq) : option (list xq) :=
  match sp_copy_row l with
  | None => None
  | Some k => if checkDifferentSmall (XFin 1) (xsum k) then None else Some k
  end.

(* src: Model::Model(const M &): row copied, then `if (!isProbability(S, row)) throw` *)
Definition copy_row (k : kind) (l : list xq) : option (list xq) :=
  match k with
  | Dense => if isProbability1 l then Some l else None
  | Sparse => sp_copy_row_checked l
  end.

Fixpoint all_some {A : Type} (l : list (option A)) : option (list A) :=
  match l with
  | [] => Some []
  | None :: _ => None
  | Some x :: t => match all_some t with None => None | Some r => Some (x :: r) end
  end.

(* rows [a][s] of the copy; None = some row threw *)
Definition copyT (k : kind) (S A : nat) (t : tab3) : option tab3 :=
  all_some (map (fun a => all_some (map (fun s => copy_row k (nth a (nth s t []) [])) (seq 0 S))) (seq 0 A)).

(* rewards of the copy constructors: dense `rewards_(s,a) += R(s,a,s1) * T(s,a,s1)`;
   sparse `if (checkDifferentSmall(0.0, r)) rewards_.coeffRef(s,a) += r * p` (p before dropping) *)
Definition copyR (k : kind) (S A : nat) (t : tab3) (r : rtab3) : mat :=
  map (fun s => map (fun a =>
        let rr := nth a (nth s r []) [] in
        let tt := nth a (nth s t []) [] in
        match k with
        | Dense => rew_row rr tt
        | Sparse => rew_row (map qdrop_small rr) tt
        end) (seq 0 A)) (seq 0 S).

(* constructors: Some m = object built, None = exception (or Pre) *)
Definition construct (fixed : bool) (k : kind) (o : op) : option model * result :=
  match o with
  | Ctor3 s a d =>
    (* src: src/MDP/Model.cpp:Model::Model(s, a, discount) — unrepaired code stores d unchecked *)
    if fixed && negb (setDiscount_ok fixed d) then (None, Throw)
    else (Some {| mS := s; mA := a; mT := identity3 s a; mR := zeroR s a; mD := d |}, Ok)
  | CtorTables s a t r d =>
    (* src: Model.hpp:Model::Model(s, a, t, r, d): setDiscount; setTransitionFunction; setRewardFunction *)
    if negb (shape3 s a s t && shape3 s a s r) then (None, Pre)
    else if negb (setDiscount_ok fixed d) then (None, Throw)
    else match setT3 fixed k s a t with
         | None => (None, Throw)
         | Some T => (Some {| mS := s; mA := a; mT := T; mR := rewards3 k s a T r; mD := d |}, Ok)
         end
  | CtorCopy g =>
    (* src: Model.hpp:Model::Model(const M &) / SparseModel.hpp:SparseModel::SparseModel(const M &) *)
    if negb (shape3 (gS g) (gA g) (gS g) (gT g) && shape3 (gS g) (gA g) (gS g) (gR g)) then (None, Pre)
    else if negb (setDiscount_ok fixed (gD g)) then (None, Throw)
    else match copyT k (gS g) (gA g) (gT g) with
         | None => (None, Throw)
         | Some T => (Some {| mS := gS g; mA := gA g; mT := T;
                              mR := copyR k (gS g) (gA g) (gT g) (gR g); mD := gD g |}, Ok)
         end
  | _ => (None, Pre)
  end.

Definition is_ctor (o : op) : bool :=
  match o with Ctor3 _ _ _ | CtorTables _ _ _ _ _ | CtorCopy _ => true | _ => false end.

(* setters on an existing object *)
Definition setter (fixed : bool) (k : kind) (m : model) (o : op) : model * result :=
  match o with
  | SetT3 t =>
    if negb (shape3 (mS m) (mA m) (mS m) t) then (m, Pre)
    else match setT3 fixed k (mS m) (mA m) t with
         | None => (m, Throw)
         | Some T => ({| mS := mS m; mA := mA m; mT := T; mR := mR m; mD := mD m |}, Ok)
         end
  | SetTM t =>
    if negb (shape3 (mA m) (mS m) (mS m) t) then (m, Pre)
    else match setTM fixed k t with
         | None => (m, Throw)
         | Some T => ({| mS := mS m; mA := mA m; mT := T; mR := mR m; mD := mD m |}, Ok)
         end
  | SetR3 r =>
    if negb (shape3 (mS m) (mA m) (mS m) r) then (m, Pre)
    else ({| mS := mS m; mA := mA m; mT := mT m; mR := rewards3 k (mS m) (mA m) (mT m) r; mD := mD m |}, Ok)
  | SetRM r =>
    (* src: Model::setRewardFunction(const RewardMatrix &): rewards_ = r *)
    if negb (shape2 (mS m) (mA m) r) then (m, Pre)
    else ({| mS := mS m; mA := mA m; mT := mT m; mR := r; mD := mD m |}, Ok)
  | SetDiscount d =>
    if setDiscount_ok fixed d
    then ({| mS := mS m; mA := mA m; mT := mT m; mR := mR m; mD := d |}, Ok)
    else (m, Throw)
  | _ => (m, Pre)
  end.

(* The history machine: a variable that holds no object or one object.  A constructor op is
   `tmp = Model(...); obj = tmp` — when the constructor throws, the variable keeps its old value. *)
Definition step (fixed : bool) (k : kind) (st : option model) (o : op) : option model * result :=
  if is_ctor o then
    match construct fixed k o with
    | (Some m, r) => (Some m, r)
    | (None, r) => (st, r)
    end
  else match st with
       | None => (None, NoObj)
       | Some m => let '(m', r) := setter fixed k m o in (Some m', r)
       end.

Definition run (fixed : bool) (k : kind) (ops : list op) : option model :=
  fold_left (fun st o => fst (step fixed k st o)) ops None.

(* ------------------------------------------------------------------ POMDP models *)
(* observations are [a][s1][o]; kb = storage of the MDP base class, ko = storage of observations
   (POMDP::Model<M> : ko = Dense; POMDP::SparseModel<M> : ko = Sparse) *)
Record pmodel := { pM : model; pO : nat; pOb : tab3 }.
Record gpomdp := { gpM : gmodel; gpO : nat; gpOb : tab3 (* [s1][a][o] *) }.

Inductive pop :=
  | PCtor (o : nat) (c : op)                (* Model(o, params...) *)
  | PCtorOb (o : nat) (obf : tab3) (c : op) (* Model(o, of, params...), of naive [s1][a][o] *)
  | PCtorCopy (g : gpomdp)                  (* Model(const PM &) *)
  | PBase (b : op)                          (* inherited setter of the MDP base *)
  | PSetO3 (obf : tab3)                     (* setObservationFunction(naive [s1][a][o]) *)
  | PSetOM (obf : tab3).                    (* setObservationFunction((Sparse)Matrix3D [a][s1][o]) *)

(* src: POMDP/Model.hpp:Model<M>::Model(o, params...): column 0 filled with 1, the rest 0 *)
Definition initOb (S A O : nat) : tab3 :=
  map (fun _ => map (fun _ => map (fun o => if (o =? 0)%nat then XFin 1 else XFin 0) (seq 0 O)) (seq 0 S)) (seq 0 A).

(* src: POMDP/Model.hpp:Model<M>::setObservationFunction(const ObFun &) and the SparseModel twin:
   every of[s1][a] checked with the 1D isProbability, then copied (sparse: small entries dropped) *)
Definition setO3 (fixed : bool) (ko : kind) (S A : nat) (obf : tab3) : option tab3 := setT3 fixed ko S A obf.

Definition pconstruct (fixed : bool) (kb ko : kind) (o : pop) : option pmodel * result :=
  match o with
  | PCtor no c =>
    if negb (is_ctor c) || (no =? 0)%nat then (None, Pre)
    else match construct fixed kb c with
         | (Some m, _) => (Some {| pM := m; pO := no; pOb := initOb (mS m) (mA m) no |}, Ok)
         | (None, r) => (None, r)
         end
  | PCtorOb no obf c =>
    if negb (is_ctor c) then (None, Pre)
    else match construct fixed kb c with
         | (Some m, _) =>
           if negb (shape3 (mS m) (mA m) no obf) then (None, Pre)
           else match setO3 fixed ko (mS m) (mA m) obf with
                | None => (None, Throw)
                | Some ob => (Some {| pM := m; pO := no; pOb := ob |}, Ok)
                end
         | (None, r) => (None, r)
         end
  | PCtorCopy g =>
    match construct fixed kb (CtorCopy (gpM g)) with
    | (Some m, _) =>
      if negb (shape3 (mS m) (mA m) (gpO g) (gpOb g)) then (None, Pre)
      else match copyT ko (mS m) (mA m) (gpOb g) with
           | None => (None, Throw)
           | Some ob => (Some {| pM := m; pO := gpO g; pOb := ob |}, Ok)
           end
    | (None, r) => (None, r)
    end
  | _ => (None, Pre)
  end.

Definition is_pctor (o : pop) : bool :=
  match o with PCtor _ _ | PCtorOb _ _ _ | PCtorCopy _ => true | _ => false end.

Definition psetter (fixed : bool) (kb ko : kind) (p : pmodel) (o : pop) : pmodel * result :=
  match o with
  | PBase b =>
    if is_ctor b then (p, Pre)
    else let '(m', r) := setter fixed kb (pM p) b in ({| pM := m'; pO := pO p; pOb := pOb p |}, r)
  | PSetO3 obf =>
    if negb (shape3 (mS (pM p)) (mA (pM p)) (pO p) obf) then (p, Pre)
    else match setO3 fixed ko (mS (pM p)) (mA (pM p)) obf with
         | None => (p, Throw)
         | Some ob => ({| pM := pM p; pO := pO p; pOb := ob |}, Ok)
         end
  | PSetOM obf =>
    if negb (shape3 (mA (pM p)) (mS (pM p)) (pO p) obf) then (p, Pre)
    else match setTM fixed ko obf with
         | None => (p, Throw)
         | Some ob => ({| pM := pM p; pO := pO p; pOb := ob |}, Ok)
         end
  | _ => (p, Pre)
  end.

Definition pstep (fixed : bool) (kb ko : kind) (st : option pmodel) (o : pop) : option pmodel * result :=
  if is_pctor o then
    match pconstruct fixed kb ko o with
    | (Some p, r) => (Some p, r)
    | (None, r) => (st, r)
    end
  else match st with
       | None => (None, NoObj)
       | Some p => let '(p', r) := psetter fixed kb ko p o in (Some p', r)
       end.

Definition prun (fixed : bool) (kb ko : kind) (ops : list pop) : option pmodel :=
  fold_left (fun st o => fst (pstep fixed kb ko st o)) ops None.

(* ------------------------------------------------------------------ conversions *)
(* any model seen through the IsModel interface: getTransitionProbability(s,a,s1),
   getExpectedReward(s,a,s1) (which ignores s1) *)
Definition gmodel_of (m : model) : gmodel :=
  {| gS := mS m; gA := mA m; gD := mD m;
     gT := transpose01 (mA m) (mS m) (mT m);
     gR := map (fun s => map (fun a => repeat (nthq (row (mR m) s) a) (mS m)) (seq 0 (mA m))) (seq 0 (mS m)) |}.

(* MDP::SparseModel(denseModel) / MDP::Model(sparseModel) *)
Definition convert (fixed : bool) (k : kind) (m : model) : option model * result :=
  construct fixed k (CtorCopy (gmodel_of m)).

(* ------------------------------------------------------------------ AMDP: final normalisation *)
(* IEEE a / b for finite a, b (b = +0 when zero: sums of non-negative doubles) *)
Definition xdivq (a b : Q) : xq :=
  if Qeq_bool b 0 then (if Qeq_bool a 0 then XNaN else if Qltb 0 a then XPInf else XNInf)
  else XFin (a / b).

Fixpoint set_nth (i : nat) (x : Q) (l : vec) : vec :=
  match l, i with
  | [], _ => []
  | _ :: t, O => x :: t
  | y :: t, S i' => y :: set_nth i' x t
  end.

(* src: include/AIToolbox/POMDP/Algorithms/AMDP.hpp:AMDP::discretizeDense / discretizeSparse — the
   last double loop, for one (a, s): trow = accumulated T[a].row(s), r = accumulated R(s,a).
   Dense, code as it is:   R(s,a) /= sum;  if (sum ~ 0) T(s,s) = 1 else row /= sum.
   Dense, repaired (fixes/C06-amdp-unvisited-reward.patch): the division of R moves into the else.
   Sparse: `if (checkDifferentSmall(0.0, R(s,a))) R(s,a) /= sum` (already guarded). *)
Definition amdp_finish_row (fixed : bool) (k : kind) (s : nat) (trow : vec) (r : Q) : vec * xq :=
  let sum := qsum trow in
  let r' := match k with
            | Dense => if fixed && eqSmall sum 0 then XFin r else xdivq r sum
            | Sparse => if eqSmall r 0 then XFin r else xdivq r sum
            end in
  (if eqSmall sum 0 then set_nth s 1 trow else map (fun x => x / sum) trow, r').

(* T is [a][s][s1], R is [s][a]; result the same layout, rewards as extended doubles *)
Definition amdp_finish (fixed : bool) (k : kind) (T : list mat) (R : mat) : list mat * list (list xq) :=
  (map (fun Ta => map (fun sr => fst (amdp_finish_row fixed k (fst sr) (snd sr) 0))
                      (combine (seq 0 (length Ta)) Ta)) T,
   map (fun s => map (fun a => snd (amdp_finish_row fixed k s (row (nth a T []) s) (nthq (row R s) a)))
                     (seq 0 (length T))) (seq 0 (length R))).

(* ------------------------------------------------------------------ AMDP: accumulation loop *)
Fixpoint upd_nth {A : Type} (i : nat) (f : A -> A) (l : list A) : list A :=
  match l, i with
  | [], _ => []
  | x :: t, O => f x :: t
  | x :: t, S i' => x :: upd_nth i' f t
  end.

(* one pass of the innermost loop body of AMDP::discretizeDense/Sparse: belief bucket s, action a,
   successor bucket s1 = discretizer(b1 / p), p = b1.sum(), r = beliefExpectedReward(model, b, a) *)
Record contrib := { c_s : nat; c_a : nat; c_s1 : nat; c_p : Q; c_r : Q }.

(* Qred only normalises the fraction (Qred q == q): it keeps the extracted model fast.
   src: AMDP.hpp: `if (checkDifferentSmall(0.0, p)) { T[a](s, s1) += p; R(s, a) += p * r; }`
   (sparse: the reward only `if (checkDifferentSmall(0.0, r))`) *)
Definition amdp_add (k : kind) (TR : list mat * mat) (c : contrib) : list mat * mat :=
  if eqSmall 0 (c_p c) then TR
  else (upd_nth (c_a c) (upd_nth (c_s c) (upd_nth (c_s1 c) (fun x => Qred (x + c_p c)))) (fst TR),
        match k with
        | Dense => upd_nth (c_s c) (upd_nth (c_a c) (fun x => Qred (x + c_p c * c_r c))) (snd TR)
        | Sparse => if eqSmall 0 (c_r c) then snd TR
                    else upd_nth (c_s c) (upd_nth (c_a c) (fun x => Qred (x + c_p c * c_r c))) (snd TR)
        end).

(* T = A matrices S1 x S1 of zeros, R = S1 x A zeros, then all contributions in loop order *)
Definition amdp_accumulate (k : kind) (S1 A : nat) (cs : list contrib) : list mat * mat :=
  fold_left (amdp_add k) cs (repeat (repeat (repeat 0 S1) S1) A, repeat (repeat 0 A) S1).

(* the whole derivation from the contributions *)
Definition amdp_derive (fixed : bool) (k : kind) (S1 A : nat) (cs : list contrib) : list mat * list (list xq) :=
  let TR := amdp_accumulate k S1 A cs in amdp_finish fixed k (fst TR) (snd TR).
