(* Properties_C03.v — approximate POMDP solvers return sound bounds (DESIGN.md §4 C03, Appendix A).
   sound_lb m rmax f := forall b n, simplex b -> f b <= EV n b + g^n rmax/(1-g)   (limit-free f <= V* )
   sound_ub m rmin f := forall b n, simplex b -> EV n b + g^n rmin/(1-g) <= f b   (limit-free f >= V* ) *)
From Coq Require Import List Arith ZArith QArith Qminmax Lqa Lia Bool.
From AIT Require Import Base.Qx Base.Mdp Base.MdpExec C02.Model C02.Spec C03.Model C03.Spec C03.Proofs
  C03.ProofsLB C03.ProofsUB C03.ProofsMain C03.ProofsSaw C03.ProofsTrace C03.ProofsRefute C03.ProofsPBVI.
From AIT Require Import C04.Model.
Import ListNotations.
Local Open Scope Q_scope.

(* the executable bracket used by the driver's oracle is the Appendix-A bound *)
Theorem bracket_twin_exact : forall m r n b, Vmax_r m r n b == Vmax m r n b.
Proof. exact Vmax_r_correct. Qed.
Print Assumptions bracket_twin_exact.

(* BlindStrategies(fasterConvergence = true): every vector the run returns — after any number of
   iterations, whatever the horizon and tolerance — is a sound lower bound.  The model is the repaired
   code (fixes/C03-bound-init-guard.patch): the start value divides by 1 - discount, not by
   std::max(0.0001, 1 - discount) (see blind_guard_refuted below for the unrepaired start). *)
Theorem blind_sound : forall m rmax h tol v, wf_pomdp m -> rmax_ok m rmax ->
  In v (snd (blind_run m true h tol)) -> sound_lb m rmax (fun b => dot v b).
Proof. intros m rmax h tol v Hwf. exact (blind_run_sound_lemma m Hwf rmax h tol v). Qed.
Print Assumptions blind_sound.

(* BlindStrategies(fasterConvergence = false): k iterations never exceed the (k+1)-step expectimax *)
Theorem blind_finite_sound : forall m a k b, wf_pomdp m -> (a < nA (pm m))%nat -> simplex (nS (pm m)) b ->
  dot (blind_iter m false a k) b <= EV m (S k) b.
Proof. intros m a k b Hwf. exact (blind_finite_lemma m Hwf a k b). Qed.
Print Assumptions blind_finite_sound.

(* FastInformedBound: every iterate from the over-estimate, hence whatever the run returns, is a sound upper bound *)
Theorem fib_sound : forall m rmin h tol, wf_pomdp m -> rmin_ok m rmin ->
  sound_ub m rmin (lin_surface m (snd (fib_run m h tol))).
Proof. intros m rmin h tol Hwf. exact (fib_run_sound_lemma m Hwf rmin h tol). Qed.
Print Assumptions fib_sound.

Theorem fib_iterates_sound : forall m rmin k, wf_pomdp m -> rmin_ok m rmin ->
  sound_ub m rmin (lin_surface m (fib_iter m k (fib_start m))).
Proof. intros m rmin k Hwf. exact (fib_iter_sound_lemma m Hwf rmin k). Qed.
Print Assumptions fib_iterates_sound.

(* proof-carrying upper bound: any table accepted by the checker (it dominates its own FIB backup)
   is a sound upper bound — this is what certifies GapMin/SARSOP corner tables independently of how
   they were produced (gapmin_cert_sound restricted to the original state space) *)
Theorem fib_cert_sound : forall m rmin q, wf_pomdp m -> rmin_ok m rmin ->
  (forall s a, (s < nS (pm m))%nat -> (a < nA (pm m))%nat -> rmin / (1 - gam (pm m)) <= qget q s a) ->
  supersol_okb m q 0 = true -> sound_ub m rmin (lin_surface m q).
Proof. intros m rmin q Hwf. exact (fib_cert_sound_lemma m Hwf rmin q). Qed.
Print Assumptions fib_cert_sound.

(* QMDP >= FIB: the FIB backup never exceeds the MDP backup, so the tables stay ordered under iteration *)
Theorem qmdp_ge_fib : forall m q0 k, wf_pomdp m ->
  tle m (fib_op m q0) (mdp_op m q0) /\
  tle m (fib_iter m k q0) (Nat.iter k (fun q => mred (mdp_op m q)) q0).
Proof. intros m q0 k Hwf. split; [apply (fib_le_mdp m Hwf)| apply (qmdp_ge_fib_iter m Hwf)]. Qed.
Print Assumptions qmdp_ge_fib.

(* QMDP with tolerance 0: k sweeps of value iteration from zero dominate the k-step expectimax;
   any table dominating its MDP backup is a sound upper bound of V* *)
Theorem qmdp_sound : forall m k b, wf_pomdp m -> simplex (nS (pm m)) b ->
  EV m (S k) b <= lin_surface m (snd (vi_iter m (S k))) b.
Proof. intros m k b Hwf. exact (qmdp_finite_lemma m Hwf k b). Qed.
Print Assumptions qmdp_sound.

Theorem qmdp_supersolution_sound : forall m rmin q, wf_pomdp m -> rmin_ok m rmin ->
  (forall s a, (s < nS (pm m))%nat -> (a < nA (pm m))%nat -> rmin / (1 - gam (pm m)) <= qget q s a) ->
  tle m (mdp_op m q) q -> sound_ub m rmin (lin_surface m q).
Proof. intros m rmin q Hwf. exact (qmdp_supersol_sound_lemma m Hwf rmin q). Qed.
Print Assumptions qmdp_supersolution_sound.

(* point-based backup (bestConservativeAction, crossSumBestAtBelief): backing up sound vectors — any
   choice of one per observation — yields a sound vector *)
Theorem backup_lb_sound : forall m rmax a ch, wf_pomdp m -> rmax_ok m rmax -> (a < nA (pm m))%nat ->
  (forall o, (o < nO m)%nat -> sound_vec m rmax (ch o)) ->
  sound_vec m rmax (backup_vec m a ch) /\ sound_lb m rmax (fun b => dot (backup_vec m a ch) b).
Proof.
  intros m rmax a ch Hwf Hr Ha H. pose proof (backup_lb_sound_lemma m Hwf rmax a ch Hr Ha H) as Hs.
  split; [exact Hs| apply (sound_vec_sound_lb m Hwf); exact Hs].
Qed.
Print Assumptions backup_lb_sound.

Theorem best_conservative_sound : forall m rmax lbv b a, wf_pomdp m -> rmax_ok m rmax -> lbv <> [] ->
  Forall (sound_vec m rmax) lbv -> (a < nA (pm m))%nat ->
  sound_lb m rmax (fun t => dot (bca_alpha m lbv b a) t).
Proof.
  intros m rmax lbv b a Hwf Hr Hne Hall Ha. apply (sound_vec_sound_lb m Hwf).
  apply (bca_sound_lemma m Hwf); assumption.
Qed.
Print Assumptions best_conservative_sound.

(* lower-bound trace: every vector accepted by lb_event_ok 0 from a sound initial set is sound
   (so pruning, which only removes vectors, cannot hurt) *)
Theorem lb_trace_sound : forall m rmax evs init final, wf_pomdp m -> rmax_ok m rmax ->
  Forall (sound_vec m rmax) init -> lb_run m init evs = Some final ->
  Forall (sound_vec m rmax) final /\ Forall (fun v => sound_lb m rmax (fun b => dot v b)) final.
Proof.
  intros m rmax evs init final Hwf Hr Hall H.
  pose proof (lb_trace_sound_main m Hwf rmax evs init final Hr Hall H) as Hs. split; [exact Hs|].
  rewrite Forall_forall in *. intros v Hv. apply (sound_vec_sound_lb m Hwf). apply Hs; exact Hv.
Qed.
Print Assumptions lb_trace_sound.

(* upper-bound trace (DESIGN §4 C03): entries are corner values ubQ(s,a) and belief points (b_i, v_i).
   A state is sound when its table dominates every per-action value linearly (qdom: for all n, tau >= 0,
   a: Q_n(tau,a) <= sum_s tau(s) ubQ(s,a), where W = max_a Q_n is EV_n + g^n rmin/(1-g) per unit mass)
   and every point dominates W at its belief.  If the initial states are sound and every added entry —
   belief point (ub_point_ok 0) or corner write (ub_corner_ok 0), each certified per action against the
   interpolation surface of SOME state of the history — was accepted, then every state ever produced is
   sound; pruning needs no check.  The surface (corner planes + sawtooth teeth) of a sound state is a
   sound upper bound (surface_of_sound_entries), by sub-additivity and homogeneity of EV. *)
Theorem ub_trace_sound : forall m rmin evs hist final, wf_pomdp m -> rmin_ok m rmin ->
  Forall (state_sound m (rmin / (1 - gam (pm m)))) hist ->
  ub_run m 0 hist evs = Some final -> Forall (state_sound m (rmin / (1 - gam (pm m)))) final.
Proof.
  intros m rmin evs hist final Hwf Hr Hall H.
  exact (ub_trace_sound_lemma m Hwf _ (tail_lo_rmin m Hwf rmin Hr) evs hist final Hall H).
Qed.
Print Assumptions ub_trace_sound.

Theorem surface_of_sound_entries : forall m rmin st, wf_pomdp m ->
  state_sound m (rmin / (1 - gam (pm m))) st -> sound_ub m rmin (usurf m st).
Proof.
  intros m rmin st Hwf H b n Hb. change (Vmin m rmin n b) with (Vmax m rmin n b).
  rewrite <- (W_Vmax m Hwf rmin n b Hb). destruct Hb as [Hl [Hn Hs]].
  apply (usurf_sound m Hwf _ st H); assumption.
Qed.
Print Assumptions surface_of_sound_entries.

(* bestPromisingAction<sawtooth>: the per-action value it reports, R(b,a) + g sum_o U(tau(b,a,o)) over the surface
   of a sound state (= ub_backup, the model the driver compares every entry of `vals` with), is an upper bound
   of the action's value at every level: Qlev n b a = R(b,a) + g sum_o [EV_(n-1) + g^(n-1) rmin/(1-g)](tau(b,a,o)),
   max_a Qlev n b a = Vmin n b.  SARSOP stores these numbers as per-action upper bounds. *)
Theorem best_promising_sound : forall m rmin st b a n, wf_pomdp m -> rmin_ok m rmin ->
  state_sound m (rmin / (1 - gam (pm m))) st -> nonneg b -> length b = nS (pm m) -> (a < nA (pm m))%nat ->
  Qlev m (rmin / (1 - gam (pm m))) n b a <= ub_backup m st b a.
Proof.
  intros m rmin st b a n Hwf Hr Hst Hn Hl Ha.
  exact (Qlev_backup_bound m Hwf _ (tail_lo_rmin m Hwf rmin Hr) (usurf m st) b a (usurf_sound m Hwf _ st Hst) Hn Hl Ha n).
Qed.
Print Assumptions best_promising_sound.

(* the initial entries of SARSOP / GapMin: every FIB iterate (no points yet) is a sound state *)
Theorem fib_initial_state_sound : forall m rmin k, wf_pomdp m -> rmin_ok m rmin ->
  state_sound m (rmin / (1 - gam (pm m))) (fib_iter m k (fib_start m), []).
Proof.
  intros m rmin k Hwf Hr. pose proof (tail_lo_rmin m Hwf rmin Hr) as Hc.
  destruct (fib_start_supersol m Hwf _ Hc (rmin_lo m Hwf rmin Hr)) as [H1 H2].
  apply (fib_state_sound m Hwf _ Hc); assumption.
Qed.
Print Assumptions fib_initial_state_sound.

(* PBVI from the zero start (lists newest first; [select] = extractDominated / extractBestAtPoint, any
   non-emptying sub-list selection): the horizon-h surface never exceeds the h-step expectimax.
   obs_clean: observations the Projecter treats as impossible have probability exactly 0. *)
Theorem pbvi_sound : forall m select bl h b, wf_pomdp m -> obs_clean m ->
  (forall l e, In e (select l) -> In e l) -> (forall l, l <> [] -> select l <> []) -> bl <> [] ->
  simplex (nS (pm m)) b -> vbest (hd [] (pbvi_chain select m bl h)) b <= EV m h b.
Proof.
  intros m select bl h b Hwf Hcl Hsub Hne Hbl [Hl [Hn Hs]].
  exact (pbvi_sound_lemma m Hwf Hcl select Hsub Hne bl h b Hbl Hn Hl).
Qed.
Print Assumptions pbvi_sound.

(* PERSEUS from minReward/(1-discount), minReward <= every reward: every vector of every list is sound *)
Theorem perseus_sound : forall m select rmax bl minRew h e, wf_pomdp m -> obs_clean m -> rmax_ok m rmax ->
  (forall l e, In e (select l) -> In e l) -> (forall l, l <> [] -> select l <> []) -> bl <> [] ->
  rmin_ok m minRew -> In e (hd [] (perseus_chain select m bl minRew h)) ->
  sound_lb m rmax (fun b => dot (vals e) b).
Proof.
  intros m select rmax bl minRew h e Hwf Hcl Hr Hsub Hne Hbl Hmin He.
  apply (sound_vec_sound_lb m Hwf).
  exact (perseus_sound_lemma m Hwf Hcl select Hsub Hne _ bl minRew h e (tail_hi_rmax m Hwf rmax Hr) Hbl Hmin He).
Qed.
Print Assumptions perseus_sound.

(* the unrepaired start value / std::max(0.0001, 1 - discount): with discount 16383/16384 > 0.9999 FIB
   iterates from it fall below, and Blind(fasterConvergence) iterates rise above, V* *)
Theorem fib_guard_refuted : exists m rmin, wf_pomdp m /\ rmin_ok m rmin /\
  ~ sound_ub m rmin (lin_surface m (snd (fib_run_from m 3 0 (fib_start_guarded m)))).
Proof. exact fib_guard_refuted_lemma. Qed.
Print Assumptions fib_guard_refuted.

Theorem blind_guard_refuted : exists m rmax, wf_pomdp m /\ rmax_ok m rmax /\
  ~ sound_lb m rmax (fun b => dot (Nat.iter 3 (blind_step m 0) (blind_start_guarded m 0)) b).
Proof. exact blind_guard_refuted_lemma. Qed.
Print Assumptions blind_guard_refuted.

(* ---- non-vacuity *)
Definition ex_pomdp : pomdp :=
  {| pm := {| nS := 2; nA := 2;
              P := [ [[1#2; 1#2]; [0; 1]]; [[1; 0]; [1#4; 3#4]] ];
              R := [ [1; -1]; [0; 2] ]; gam := 3#4 |};
     nO := 2; Ob := [ [[1; 0]; [1#2; 1#2]]; [[3#4; 1#4]; [0; 1]] ] |}.

Example ex_wf : wf_pomdp ex_pomdp.
Proof.
  unfold wf_pomdp, wf_mdp, simplex, is_dist. cbn [pm nS nA gam P R nO Ob ex_pomdp length].
  repeat split; try lia; try lra; try reflexivity.
  + intros [|[|a]] Ha; try lia; reflexivity.
  + destruct a as [|[|a]]; destruct s as [|[|s]]; try lia; reflexivity.
  + destruct a as [|[|a]]; destruct s as [|[|s]]; try lia; unfold nonneg, row; cbn [nth]; repeat constructor; lra.
  + destruct a as [|[|a]]; destruct s as [|[|s]]; try lia; unfold row; cbn [nth qsum]; lra.
  + intros [|[|s]] Hs; try lia; reflexivity.
  + intros [|[|a]] Ha; try lia; reflexivity.
  + destruct a as [|[|a]]; destruct s as [|[|s]]; try lia; reflexivity.
  + destruct a as [|[|a]]; destruct s as [|[|s]]; try lia; unfold nonneg, row; cbn [nth]; repeat constructor; lra.
  + destruct a as [|[|a]]; destruct s as [|[|s]]; try lia; unfold row; cbn [nth qsum]; lra.
Qed.

Example ex_hypotheses :
  rmax_ok ex_pomdp 2 /\ rmin_ok ex_pomdp (-1) /\
  supersol_okb ex_pomdp (snd (fib_run ex_pomdp 3 0)) 0 = true /\
  (* a non-trivial accepted lower-bound trace: two successive backups of the blind vectors *)
  (let init := snd (blind_run ex_pomdp true 2 0) in
   let a1 := bca_alpha ex_pomdp init [1#2; 1#2] 0 in
   lb_run ex_pomdp init [LbEv 0 [1%nat; 1%nat] (map (fun x => x - 1) (backup_vec ex_pomdp 0 (fun _ => nth 1 init [])));
                         LbEv 1 [2%nat; 0%nat] (backup_vec ex_pomdp 1 (fun o => nth (nth o [2%nat; 0%nat] O) (init ++ [map (fun x => x - 1) (backup_vec ex_pomdp 0 (fun _ => nth 1 init []))]) []))]
   <> None) /\
  (* an accepted upper-bound trace on the FIB table: a belief point, a corner write, a pruning *)
  (let q := fib_iter ex_pomdp 3 (fib_start ex_pomdp) in
   ub_run ex_pomdp 0 [(q, [])]
     [UbPoint [1#2; 1#2] (ub_backup ex_pomdp (q, []) [1#2; 1#2] 0 + 1) [0%nat; 0%nat];
      UbCorner 1 0 (ub_backup ex_pomdp (q, []) [0; 1] 0) 1;
      UbPrune [0%nat]] <> None).
Proof.
  split; [| split; [| split; [| split]]].
  - intros [|[|s]] [|[|a]] Hs Ha; try (cbn in Hs, Ha; lia); vm_compute; discriminate.
  - intros [|[|s]] [|[|a]] Hs Ha; try (cbn in Hs, Ha; lia); vm_compute; discriminate.
  - vm_compute. reflexivity.
  - vm_compute. discriminate.
  - vm_compute. discriminate.
Qed.

Example ex_point_based_hypotheses :
  obs_clean ex_pomdp /\ (forall l e, In e ((fun l : vlist => l) l) -> In e l) /\
  (forall l : vlist, l <> [] -> (fun l : vlist => l) l <> []) /\ rmin_ok ex_pomdp (-2) /\
  length (hd [] (pbvi_chain (fun l => l) ex_pomdp [[1#2; 1#2]; [1; 0]] 2)) = 4%nat /\
  hd [] (perseus_chain (fun l => l) ex_pomdp [[1#2; 1#2]; [1; 0]] (-2) 2) <> [].
Proof.
  split; [| split; [| split; [| split; [| split]]]].
  - intros [|[|a]] [|[|o]] Ha Ho Hp s1 Hs1; try (cbn in Ha, Ho; lia); vm_compute in Hp; try discriminate.
  - intros l e H; exact H.
  - intros l H; exact H.
  - intros [|[|s]] [|[|a]] Hs Ha; try (cbn in Hs, Ha; lia); vm_compute; discriminate.
  - vm_compute. reflexivity.
  - vm_compute. discriminate.
Qed.
