(* Properties_C14.v — property C14: factored objects mean the same as their flat expansion.
   Only statements, each closed by [exact <lemma>] and followed by Print Assumptions. *)
From Coq Require Import List Arith.
From AIT Require Import C14.Model C14.Spec C14.Proofs.
Import ListNotations.

Theorem toIndex_toFactors : forall space id,
  Forall (fun sp => 0 < sp) space -> id < factorSpace space ->
  toIndex space (toFactors space id) = id /\ in_space space (toFactors space id).
Proof. exact toIndex_toFactors_lemma. Qed.
Print Assumptions toIndex_toFactors.

Theorem toFactors_toIndex : forall space f, in_space space f ->
  toFactors space (toIndex space f) = f /\ toIndex space f < factorSpace space.
Proof. exact toFactors_toIndex_lemma. Qed.
Print Assumptions toFactors_toIndex.

Theorem partial_roundtrip_index : forall ids space id,
  Forall (fun k => 0 < nth k space 0) ids -> id < factorSpacePartial ids space ->
  toIndexPartialPF space ids (toFactorsPartial ids space id) = id /\
  in_space (sub ids space) (toFactorsPartial ids space id).
Proof. exact partial_roundtrip_index_lemma. Qed.
Print Assumptions partial_roundtrip_index.

Theorem partial_roundtrip_factors : forall ids space f,
  in_space (sub ids space) (sub ids f) ->
  toFactorsPartial ids space (toIndexPartial ids space f) = sub ids f /\
  toIndexPartial ids space f < factorSpacePartial ids space.
Proof. exact partial_roundtrip_factors_lemma. Qed.
Print Assumptions partial_roundtrip_factors.

(* hypotheses are satisfiable on a non-trivial space (sizes 2,1,3; size-1 factor included) *)
Example ex_space_nonvacuous :
  Forall (fun sp => 0 < sp) [2;1;3] /\ 5 < factorSpace [2;1;3] /\ in_space [2;1;3] [1;0;2] /\
  toIndex [2;1;3] [1;0;2] = 5.
Proof. repeat split; repeat constructor. Qed.
