(* Properties_C14.v — property C14: factored objects mean the same as their flat expansion.
   Only statements, each closed by [exact <lemma>] and followed by Print Assumptions. *)
From Coq Require Import List Arith QArith Lia.
From AIT Require Import C14.Model C14.Spec C14.Proofs C14.ProofsEnum C14.ModelAlg C14.SpecAlg C14.ProofsAlg C14.ProofsCore C14.ModelDDN C14.SpecDDN C14.ProofsDDN C14.ProofsBP C14.Model2D C14.Spec2D C14.Proofs2D C14.ProofsIdx C14.ModelLearn C14.ProofsLearn.
Import ListNotations.
Local Close Scope Q_scope.

Theorem toIndex_toFactors : forall space id,
  Forall (fun sp => 0 < sp) space -> id < factorSpace space ->
  toIndex space (toFactors space id) = id /\ in_space space (toFactors space id).
Proof. exact toIndex_toFactors_lemma. Qed.
Print Assumptions toIndex_toFactors.

Theorem toFactors_toIndex : forall space f, in_space space f ->
  toFactors space (toIndex space f) = f /\ toIndex space f < factorSpace space.
Proof. exact toFactors_toIndex_lemma. Qed.
Print Assumptions toFactors_toIndex.

Theorem partial_roundtrip_index : forall ids space id,
  Forall (fun k => 0 < nth k space 0) ids -> id < factorSpacePartial ids space ->
  toIndexPartialPF space ids (toFactorsPartial ids space id) = id /\
  in_space (sub ids space) (toFactorsPartial ids space id).
Proof. exact partial_roundtrip_index_lemma. Qed.
Print Assumptions partial_roundtrip_index.

Theorem partial_roundtrip_factors : forall ids space f,
  in_space (sub ids space) (sub ids f) ->
  toFactorsPartial ids space (toIndexPartial ids space f) = sub ids f /\
  toIndexPartial ids space f < factorSpacePartial ids space.
Proof. exact partial_roundtrip_factors_lemma. Qed.
Print Assumptions partial_roundtrip_factors.

(* ---- PartialFactorsEnumerator: every constructor mode visits the mixed-radix sequence in index
   order, the skipped position (if any) held at 0; [pfe_visit] returns [None] only out of fuel. ---- *)
Theorem enumerator_visits_each_once_in_order : forall F keys skipId fuel,
  Forall (fun k => 0 < nth k F 0) keys ->
  let e := mkPfe F keys (repeat 0 (length keys)) skipId in
  pfe_size e < fuel ->
  pfe_visit fuel e = Some (map (enum_nth F keys skipId) (seq 0 (pfe_size e)))
  /\ pfe_size e = enum_count F keys skipId.
Proof. exact enumerator_visits_lemma. Qed.
Print Assumptions enumerator_visits_each_once_in_order.

(* constructor (F, keys): exactly map (toFactorsPartial keys F) (seq 0 size) *)
Theorem enumerator_keys_in_order : forall F keys fuel,
  keys <> [] -> Forall (fun k => 0 < nth k F 0) keys -> factorSpacePartial keys F < fuel ->
  pfe_visit fuel (pfe_keys F keys) = Some (map (toFactorsPartial keys F) (seq 0 (factorSpacePartial keys F)))
  /\ pfe_size (pfe_keys F keys) = factorSpacePartial keys F.
Proof. exact enumerator_keys_lemma. Qed.
Print Assumptions enumerator_keys_in_order.

(* constructor (F): exactly map (toFactors F) (seq 0 (factorSpace F)) *)
Theorem enumerator_all_in_order : forall F fuel,
  F <> [] -> Forall (fun s => 0 < s) F -> factorSpace F < fuel ->
  pfe_visit fuel (pfe_all F) = Some (map (toFactors F) (seq 0 (factorSpace F)))
  /\ pfe_size (pfe_all F) = factorSpace F.
Proof. exact enumerator_all_lemma. Qed.
Print Assumptions enumerator_all_in_order.

(* constructor (F, keys, factorToSkip, missing = false) *)
Theorem enumerator_skip_present_in_order : forall F keys skip fuel e,
  pfe_skip F keys skip false = Some e ->
  Forall (fun k => 0 < nth k F 0) keys -> factorSpacePartial (remove_at (pfeSkip e) keys) F < fuel ->
  pfe_visit fuel e =
    Some (map (fun i => insert_at (pfeSkip e) 0 (toFactorsPartial (remove_at (pfeSkip e) keys) F i))
              (seq 0 (factorSpacePartial (remove_at (pfeSkip e) keys) F)))
  /\ pfe_size e = factorSpacePartial (remove_at (pfeSkip e) keys) F
  /\ nth (pfeSkip e) keys 0 = skip.
Proof. exact enumerator_present_lemma. Qed.
Print Assumptions enumerator_skip_present_in_order.

(* constructor (F, factors, factorToSkip, missing = true) *)
Theorem enumerator_skip_missing_in_order : forall F factors skip fuel e,
  pfe_skip F factors skip true = Some e ->
  Forall (fun k => 0 < nth k F 0) factors -> 0 < nth skip F 0 -> factorSpacePartial factors F < fuel ->
  pfe_visit fuel e =
    Some (map (fun i => insert_at (pfeSkip e) 0 (toFactorsPartial factors F i))
              (seq 0 (factorSpacePartial factors F)))
  /\ pfe_size e = factorSpacePartial factors F
  /\ nth (pfeSkip e) (pfeKeys e) 0 = skip /\ remove_at (pfeSkip e) (pfeKeys e) = factors.
Proof. exact enumerator_missing_lemma. Qed.
Print Assumptions enumerator_skip_missing_in_order.

(* "each joint value exactly once" *)
Theorem enumerator_no_duplicates : forall F keys,
  Forall (fun k => 0 < nth k F 0) keys ->
  NoDup (map (toFactorsPartial keys F) (seq 0 (factorSpacePartial keys F))).
Proof. exact enumerator_nodup_lemma. Qed.
Print Assumptions enumerator_no_duplicates.

Example ex_enumerator_nonvacuous :
  pfe_visit 10 (pfe_keys [2;1;3] [0;2]) = Some [[0;0];[1;0];[0;1];[1;1];[0;2];[1;2]] /\
  (exists e, pfe_skip [2;3;2] [0;2] 1 true = Some e /\ pfeSkip e = 1 /\
             pfe_visit 10 e = Some [[0;0;0];[1;0;0];[0;0;1];[1;0;1]]) /\
  (exists e, pfe_skip [2;3;2] [0;1;2] 0 false = Some e /\ pfe_visit 10 e = Some [[0;0;0];[0;1;0];[0;2;0];[0;0;1];[0;1;1];[0;2;1]]).
Proof. split; [reflexivity|]. split; eexists; repeat split. Qed.

(* hypotheses are satisfiable on a non-trivial space (sizes 2,1,3; size-1 factor included) *)
Example ex_space_nonvacuous :
  Forall (fun sp => 0 < sp) [2;1;3] /\ 5 < factorSpace [2;1;3] /\ in_space [2;1;3] [1;0;2] /\
  toIndex [2;1;3] [1;0;2] = 5.
Proof. repeat split; repeat constructor. Qed.

(* ================================================================================================
   Factored vector algebra = the operation on the flat expansions
   (flat space fv x = sum over the bases of the entry selected by x restricted to the tag)
   ================================================================================================ *)
Local Open Scope Q_scope.

(* merge(PartialKeys, PartialKeys) is the sorted union *)
Theorem merge_is_sorted_union : forall lhs rhs, strict lhs -> strict rhs ->
  strict (merge_keys lhs rhs) /\ (forall x, In x (merge_keys lhs rhs) <-> In x lhs \/ In x rhs).
Proof. exact merge_is_sorted_union_lemma. Qed.
Print Assumptions merge_is_sorted_union.

(* FactoredVector::getValue is the flat expansion *)
Theorem getValue_flat : forall space fv x, getValue space fv x == flat space fv x.
Proof. exact getValue_flat_lemma. Qed.
Print Assumptions getValue_flat.

(* plus / minus / dot of two BasisFunctions ([bf_plus] = [bf_binop Qplus], ...): at every joint
   assignment the entry of the result is the operation on the entries, for arbitrary overlapping tags *)
Theorem bf_binop_flat : forall op space l r x,
  bf_wf space l -> bf_wf space r -> in_space space x ->
  entry space (bf_binop op space l r) x = op (entry space l x) (entry space r x)
  /\ bf_wf space (bf_binop op space l r).
Proof. exact bf_binop_flat_lemma. Qed.
Print Assumptions bf_binop_flat.

Theorem dot_flat : forall space l r x,
  bf_wf space l -> bf_wf space r -> in_space space x ->
  entry space (bf_dot space l r) x = entry space l x * entry space r x.
Proof. intros space l r x Hl Hr Hx. exact (proj1 (bf_binop_flat_lemma Qmult space l r x Hl Hr Hx)). Qed.
Print Assumptions dot_flat.

(* plusEqual(FactoredVector, BasisFunction) and (FactoredVector, FactoredVector) *)
Theorem plus_flat : forall space fv rhs x,
  fv_wf space fv -> fv_wf space rhs -> in_space space x ->
  flat space (plusEqualFV space fv rhs) x == flat space fv x + flat space rhs x
  /\ fv_wf space (plusEqualFV space fv rhs).
Proof. intros; apply plusEqualFV_flat_lemma; assumption. Qed.
Print Assumptions plus_flat.

Theorem plus_basis_flat : forall space fv b x,
  fv_wf space fv -> bf_wf space b -> in_space space x ->
  flat space (plusEqual space fv b) x == flat space fv x + entry space b x /\ fv_wf space (plusEqual space fv b).
Proof. exact plusEqual_flat_lemma. Qed.
Print Assumptions plus_basis_flat.

(* minusEqual as repaired by fixes/C14-minusEqual.patch (clearZero = false) *)
Theorem minus_flat : forall space fv rhs x,
  fv_wf space fv -> fv_wf space rhs -> in_space space x ->
  flat space (minusEqualFV space fv rhs false) x == flat space fv x - flat space rhs x
  /\ fv_wf space (minusEqualFV space fv rhs false).
Proof. intros; apply minusEqualFV_flat_lemma; assumption. Qed.
Print Assumptions minus_flat.

Theorem minus_basis_flat : forall space fv b x,
  fv_wf space fv -> bf_wf space b -> in_space space x ->
  flat space (minusEqual space fv b false) x == flat space fv x - entry space b x
  /\ fv_wf space (minusEqual space fv b false).
Proof. exact minusEqual_flat_lemma. Qed.
Print Assumptions minus_basis_flat.

(* clearZero = true erases a basis whose entries are all within 1e-6 of 0: the value moves by <= 1e-6 *)
Theorem minus_basis_clear_flat : forall space fv b x,
  fv_wf space fv -> bf_wf space b -> in_space space x ->
  - (1 # 1000000) <= flat space (minusEqual space fv b true) x - (flat space fv x - entry space b x)
  /\ flat space (minusEqual space fv b true) x - (flat space fv x - entry space b x) <= 1 # 1000000.
Proof. exact minusEqual_clear_flat_lemma. Qed.
Print Assumptions minus_basis_clear_flat.

(* the unrepaired minusEqual adds: 5 - 2 evaluates to 7 *)
Theorem minus_flat_unrepaired_refuted :
  exists space fv b x, fv_wf space fv /\ bf_wf space b /\ in_space space x /\
    flat space fv x == 5 /\ entry space b x == 2 /\
    flat space (minusEqual_orig space fv b false) x == 7.
Proof. exact minusEqual_orig_refuted_lemma. Qed.
Print Assumptions minus_flat_unrepaired_refuted.

(* operator*=(Vector) and getValue(space, value, weights): sum_i w_i * b_i(x) (+ the constant) *)
Theorem weighted_flat : forall space fv w x,
  fv_wf space fv -> in_space space x ->
  (length w = length fv \/ (length w = S (length fv) /\ fv <> [])) ->
  flat space (scaleW fv w) x ==
  wsum space fv x w + (if (length w =? S (length fv))%nat then nth (length fv) w 0 else 0).
Proof. exact scaleW_flat_lemma. Qed.
Print Assumptions weighted_flat.

Theorem weighted_getValue_flat : forall space fv w x, (length fv <= length w)%nat ->
  getValueW space fv x w ==
  wsum space fv x w + (if (length w =? S (length fv))%nat then nth (length fv) w 0 else 0).
Proof. exact getValueW_spec_lemma. Qed.
Print Assumptions weighted_getValue_flat.

Theorem scale_flat : forall space fv v x, fv_wf space fv -> in_space space x ->
  flat space (scale fv v) x == v * flat space fv x.
Proof. exact scale_flat_lemma. Qed.
Print Assumptions scale_flat.

(* hypotheses satisfiable: overlapping tags {0,1} and {1,2} on space (2,3,2) *)
Example ex_algebra_nonvacuous :
  let space := [2;3;2]%nat in
  let a := mkBf [0;1]%nat [1;2;3;4;5;6] in
  let b := mkBf [1;2]%nat [10;20;30;40;50;60] in
  bf_wf space a /\ bf_wf space b /\ in_space space [1;2;1]%nat /\
  flat space (plusEqual space [a] b) [1;2;1]%nat == 66 /\
  flat space (minusEqual space [a] b false) [1;2;1]%nat == -54 /\
  entry space (bf_dot space a b) [1;2;1]%nat == 360 /\
  flat space (scaleW [a; b] [2; 3; 4]) [1;2;1]%nat == 196.
Proof. cbv zeta. repeat split; try discriminate; repeat constructor. Qed.

(* ================================================================================================
   Dynamic decision networks
   ================================================================================================ *)

(* graphs built with push from an empty graph have their start ids = prefix sums (graph_wf) *)
Theorem ddn_push_keeps_layout : forall g p g', graph_wf g -> graph_push g p = PushOk g' ->
  graph_wf g' /\ gS g' = gS g /\ gA g' = gA g /\ gParents g' = gParents g ++ [p].
Proof. exact graph_push_wf. Qed.
Print Assumptions ddn_push_keeps_layout.

(* each joint next state gets the product of its local probabilities *)
Theorem ddn_product_general : forall g T s a s1,
  graph_wf g -> graph_complete g -> action_in_range g a ->
  getTransitionProbability g T s a s1 ==
  qprod (map (fun i => local_prob g T i s a (nth i s1 0%nat)) (seq 0 (length (gS g)))).
Proof. exact ddn_product_lemma. Qed.
Print Assumptions ddn_product_general.

(* ... which sum to one over all joint next states when the rows used are distributions *)
Theorem ddn_sums_to_one_general : forall g T s a,
  graph_wf g -> graph_complete g -> action_in_range g a -> rows_stochastic g T s a ->
  qsum (map (getTransitionProbability g T s a) (all_assign (gS g))) == 1.
Proof. exact ddn_sums_to_one_lemma. Qed.
Print Assumptions ddn_sums_to_one_general.

(* the joint next states summed over are exactly toFactors S 0, toFactors S 1, ... *)
Theorem all_assignments_in_index_order : forall sizes, Forall (fun sp => (0 < sp)%nat) sizes ->
  all_assign sizes = map (toFactors sizes) (seq 0 (factorSpace sizes)).
Proof. exact all_assign_index_order. Qed.
Print Assumptions all_assignments_in_index_order.

Example ex_ddn_nonvacuous :
  let g0 := graph_new [2;2]%nat [2]%nat in
  exists g1 g2,
    graph_push g0 (mkPS [0%nat] [[0%nat]; [0;1]%nat]) = PushOk g1 /\
    graph_push g1 (mkPS [0%nat] [[1%nat]; [1%nat]]) = PushOk g2 /\
    graph_wf g2 /\ graph_complete g2 /\ action_in_range g2 [1%nat] /\
    let T := [ [[1#2;1#2];[1;0];[1#4;3#4];[0;1];[1#2;1#2];[1;0]] ; [[1#4;3#4];[1;0];[0;1];[1#2;1#2]] ] in
    rows_stochastic g2 T [0;1]%nat [1%nat] /\
    getTransitionProbability g2 T [0;1]%nat [1%nat] [1;0]%nat == 1#4.
Proof.
  cbv zeta. eexists. eexists. split; [reflexivity|]. split; [reflexivity|].
  split; [reflexivity|]. split; [reflexivity|].
  split. { intros i Hi. cbn in Hi. destruct i as [|[|i]]; [cbn; lia | cbn; lia | lia]. }
  split. { intros i Hi. cbn in Hi. destruct i as [|[|i]]; [vm_compute; reflexivity | vm_compute; reflexivity | lia]. }
  vm_compute. reflexivity.
Qed.

(* ================================================================================================
   toFactors' out-parameter overload and FactoredMatrix2D
   ================================================================================================ *)

(* toFactors(space, id, Factors * out): every entry of the (reused, dirty) buffer is written — the
   result does not depend on the buffer's previous content *)
Theorem toFactors_out_overwrites : forall space id out, length out = length space ->
  toFactorsOut space id out = toFactors space id.
Proof. exact toFactorsOut_overwrites_lemma. Qed.
Print Assumptions toFactors_out_overwrites.

Theorem getValue2D_flat : forall SS AA fm s a, getValue2D SS AA fm s a == flat2 SS AA fm s a.
Proof. exact getValue2D_flat_lemma. Qed.
Print Assumptions getValue2D_flat.

(* FactoredMatrix2D::operator*=(Vector): (M * w)(s,a) = sum_i w_i * b_i(s,a) (+ the constant) *)
Theorem weighted_flat_2d : forall SS AA fm w s a,
  fm_wf SS AA fm -> in_space SS s -> in_space AA a ->
  (length w = length fm \/ (length w = S (length fm) /\ fm <> [])) ->
  flat2 SS AA (scaleW2D fm w) s a ==
  wsum2 SS AA fm s a w + (if (length w =? S (length fm))%nat then nth (length fm) w 0 else 0).
Proof. exact scaleW2D_flat_lemma. Qed.
Print Assumptions weighted_flat_2d.

Theorem weighted_getValue_flat_2d : forall SS AA fm w s a, (length fm <= length w)%nat ->
  getValueW2D SS AA fm s a w ==
  wsum2 SS AA fm s a w + (if (length w =? S (length fm))%nat then nth (length fm) w 0 else 0).
Proof. exact getValueW2D_spec_lemma. Qed.
Print Assumptions weighted_getValue_flat_2d.

Theorem scale_flat_2d : forall SS AA fm v s a, fm_wf SS AA fm -> in_space SS s -> in_space AA a ->
  flat2 SS AA (scale2D fm v) s a == v * flat2 SS AA fm s a.
Proof. exact scale2D_flat_lemma. Qed.
Print Assumptions scale_flat_2d.

Example ex_2d_nonvacuous :
  let SS := [2;2]%nat in let AA := [2]%nat in
  let b1 := mkBm [0%nat] [0%nat] [[1;2];[3;4]] in
  let b2 := mkBm [0;1]%nat [0%nat] [[1;0];[0;1];[2;2];[5;7]] in
  fm_wf SS AA [b1; b2] /\ in_space SS [1;1]%nat /\ in_space AA [1%nat] /\
  flat2 SS AA (scaleW2D [b1; b2] [2; 3; 4]) [1;1]%nat [1%nat] == 33 /\
  toFactorsOut [2;3;2]%nat 1 [1;2;1]%nat = [1;0;0]%nat.
Proof.
  cbv zeta. split.
  { repeat constructor. }
  split; [repeat constructor|]. split; [repeat constructor|]. split; [vm_compute; reflexivity | reflexivity].
Qed.

(* ================================================================================================
   Round 2: graphs built by push need no extra hypothesis; backProject; tag utilities
   ================================================================================================ *)

(* [graph_built g]: g was obtained from DDNGraph(S, A) by successful push calls.  push's validation
   makes every in-range action select an existing parent set. *)
Theorem push_validation_gives_action_in_range : forall g a,
  graph_built g -> graph_complete g -> in_space (gA g) a -> action_in_range g a.
Proof. exact built_action_in_range. Qed.
Print Assumptions push_validation_gives_action_in_range.

Theorem ddn_product : forall g T s a s1,
  graph_built g -> graph_complete g -> in_space (gA g) a ->
  getTransitionProbability g T s a s1 ==
  qprod (map (fun i => local_prob g T i s a (nth i s1 0%nat)) (seq 0 (length (gS g)))).
Proof. exact ddn_product_built_lemma. Qed.
Print Assumptions ddn_product.

Theorem ddn_sums_to_one : forall g T s a,
  graph_built g -> graph_complete g -> in_space (gA g) a -> rows_stochastic g T s a ->
  qsum (map (getTransitionProbability g T s a) (all_assign (gS g))) == 1.
Proof. exact ddn_sums_to_one_built_lemma. Qed.
Print Assumptions ddn_sums_to_one.

(* back-projection of a basis function = its exact expected next-step value: the entry of the
   result selected by (s, a) equals  sum over ALL joint next states s1 of P(s1 | s, a) * b(s1) *)
Theorem backproject_is_expectation : forall g T rhs s a,
  graph_built g -> graph_complete g ->
  bf_wf (gS g) rhs -> strict (bfTag rhs) ->
  in_space (gS g) s -> in_space (gA g) a ->
  rows_stochastic g T s a ->
  let bp := backProject g T rhs in
  mat_get (bmVals bp) (toIndexPartial (bmTag bp) (gS g) s) (toIndexPartial (bmActionTag bp) (gA g) a)
  == qsum (map (fun s1 => getTransitionProbability g T s a s1 * entry (gS g) rhs s1) (all_assign (gS g))).
Proof. exact backproject_is_expectation_lemma. Qed.
Print Assumptions backproject_is_expectation.

Local Close Scope Q_scope.

(* checkTag accepts exactly the non-empty, strictly increasing, in-range tags *)
Theorem checkTag_ok_iff : forall space tag,
  fst (checkTag space tag) = TENone <->
  tag <> [] /\ strict tag /\ Forall (fun k => k < length space) tag.
Proof. exact checkTag_ok_iff_lemma. Qed.
Print Assumptions checkTag_ok_iff.

(* removeFactor drops exactly the pair with key f (keys strictly increasing) *)
Theorem removeFactor_spec : forall keys vals f, strict keys ->
  combine (fst (removeFactor keys vals f)) (snd (removeFactor keys vals f)) = drop_key f (combine keys vals).
Proof. exact removeFactor_spec_lemma. Qed.
Print Assumptions removeFactor_spec.

(* merge(PartialFactors, PartialFactors) and merge(keys, values, keys, values): keys = merge of the
   keys (sorted union, merge_is_sorted_union), and each key carries rhs' value if rhs has it, else lhs' *)
Theorem merge_values_spec : forall lk lv rk rv k,
  strict lk -> strict rk -> length lv = length lk -> length rv = length rk ->
  fst (merge_pf lk lv rk rv) = merge_keys lk rk /\
  snd (merge_pf lk lv rk rv) = merge_vals lk lv rk rv /\
  pf_lookup k (combine (fst (merge_pf lk lv rk rv)) (snd (merge_pf lk lv rk rv))) =
  match pf_lookup k (combine rk rv) with Some v => Some v | None => pf_lookup k (combine lk lv) end.
Proof. exact merge_pf_spec_lemma. Qed.
Print Assumptions merge_values_spec.

(* match(PartialFactors, PartialFactors) / match(keys, values, keys, values): true iff the two
   partial assignments agree on every common key (code as of /repo commit ee4b2be) *)
Theorem match_partial_spec : forall lk lv rk rv,
  strict lk -> strict rk -> length lv = length lk -> length rv = length rk ->
  match_pf lk lv rk rv = true <-> pf_agree (combine lk lv) (combine rk rv).
Proof. exact match_pf_spec_lemma. Qed.
Print Assumptions match_partial_spec.

Theorem match_factors_partial_spec : forall lhs rk rv,
  match_f_pf lhs rk rv = forallb (fun kv => nth (fst kv) lhs 0 =? snd kv) (combine rk rv).
Proof. exact match_f_pf_spec_lemma. Qed.
Print Assumptions match_factors_partial_spec.

Theorem match_keys_spec : forall keys lhs rhs,
  match_keys keys lhs rhs = forallb (fun k => nth k lhs 0 =? nth k rhs 0) keys.
Proof. exact match_keys_spec_lemma. Qed.
Print Assumptions match_keys_spec.

Theorem match_pairs_spec : forall ms lhs rhs,
  match_pairs ms lhs rhs = forallb (fun ab => nth (fst ab) lhs 0 =? nth (snd ab) rhs 0) ms.
Proof. exact match_pairs_spec_lemma. Qed.
Print Assumptions match_pairs_spec.

(* toIndexPartial(ids, space, PartialFactors): on the restriction of a full assignment to a key list
   containing ids (in order) it equals toIndexPartial(ids, space, Factors) and never runs off the end *)
Theorem toIndexPartial_pf_spec : forall space x ids tag, subseq ids tag ->
  toIndexPartialKPF ids space tag (sub tag x) = Some (toIndexPartial ids space x).
Proof. intros. unfold toIndexPartialKPF. apply kpf_go_subseq. assumption. Qed.
Print Assumptions toIndexPartial_pf_spec.

(* toIndexPartialAndSkip: index with the factor toModify taken as 0, and that factor's multiplier *)
Theorem toIndexPartialAndSkip_spec : forall ids space f t, NoDup ids ->
  let r := toIndexPartialAndSkip ids space f t in
  (In t ids -> fst r + snd r * nth t f 0 = toIndexPartial ids space f) /\
  (~ In t ids -> fst r = toIndexPartial ids space f /\ snd r = 1).
Proof. exact toIndexPartialAndSkip_spec_lemma. Qed.
Print Assumptions toIndexPartialAndSkip_spec.

Example ex_round2_nonvacuous :
  strict [0;2] /\ strict [1;2] /\ match_pf [0;2] [1;0] [1;2] [5;0] = true /\
  fst (checkTag [2;2;2] [0;2]) = TENone /\
  toIndexPartialAndSkip [0;1;2] [2;3;2] [1;2;1] 1 = (7, 2) /\ NoDup [0;1;2] /\
  (exists g2, graph_built g2 /\ graph_complete g2 /\ gS g2 = [2;2] /\ length (gParents g2) = 2).
Proof.
  split; [repeat constructor|]. split; [repeat constructor|]. split; [reflexivity|]. split; [reflexivity|].
  split; [reflexivity|]. split; [repeat constructor; cbn; intuition discriminate|].
  pose (g0 := graph_new [2;2] [2]).
  pose (p1 := mkPS [0] [[0]; [0;1]]). pose (p2 := mkPS [0] [[1]; [1]]).
  pose (g1 := match graph_push g0 p1 with PushOk g => g | _ => g0 end).
  pose (g2 := match graph_push g1 p2 with PushOk g => g | _ => g0 end).
  exists g2. split; [|repeat split].
  apply (gb_push g1 p2 g2); [apply (gb_push g0 p1 g1); [apply gb_new | reflexivity] | reflexivity].
Qed.

(* ================================================================================================
   Round 2 (continued): PartialIndexEnumerator, learners, FlattenedModel
   ================================================================================================ *)

(* PartialIndexEnumerator(F, factors, fixedFactor, val, missing = false): factors = pre ++ fixed :: post,
   the keys of pre below fixedFactor.  It visits, in increasing order, exactly the indices i (in the
   enumeration order of the factors) whose digit for fixedFactor is val. *)
Theorem index_enumerator_spec : forall F pre fixed post val fuel,
  Forall (fun k => k < fixed) pre -> Forall (fun k => 0 < nth k F 0) (pre ++ fixed :: post) -> val < nth fixed F 0 ->
  factorSpacePartial (pre ++ fixed :: post) F < fuel ->
  pie_visit fuel (pie_make F (pre ++ fixed :: post) fixed val false) =
  Some (index_enum_spec F (pre ++ fixed :: post) (length pre) val).
Proof. exact index_enumerator_present_lemma. Qed.
Print Assumptions index_enumerator_spec.

(* missing = true: the given factors are pre ++ post, the indices are those of pre ++ fixed :: post *)
Theorem index_enumerator_missing_spec : forall F pre fixed post val fuel,
  Forall (fun k => k < fixed) pre -> (match post with [] => True | k :: _ => fixed <= k end) ->
  Forall (fun k => 0 < nth k F 0) (pre ++ fixed :: post) -> val < nth fixed F 0 ->
  factorSpacePartial (pre ++ fixed :: post) F < fuel ->
  pie_visit fuel (pie_make F (pre ++ post) fixed val true) =
  Some (index_enum_spec F (pre ++ fixed :: post) (length pre) val).
Proof. exact index_enumerator_missing_lemma. Qed.
Print Assumptions index_enumerator_missing_spec.

(* PartialIndexEnumerator(F, fixedFactor, val) *)
Theorem index_enumerator_all_spec : forall F fixed val fuel,
  Forall (fun sp => 0 < sp) F -> fixed < length F -> val < nth fixed F 0 -> factorSpace F < fuel ->
  pie_visit fuel (pie_make_all F fixed val) =
  Some (filter (fun i => nth fixed (toFactors F i) 0 =? val) (seq 0 (factorSpace F))).
Proof. exact index_enumerator_all_lemma. Qed.
Print Assumptions index_enumerator_all_spec.

(* JointActionLearner: for every experience history its joint Q-function is the table flat QLearning
   (ql_step = QLearning::stepUpdateQ, same text as C11's) computes on the history with each joint action replaced by toIndex(A, action) *)
Theorem jal_eq_qlearning : forall hist st,
  jalQ (fold_left jal_step hist st) =
  fold_left (ql_step (jalAlpha st) (jalGamma st)) (map (flat_exp (jalA st)) hist) (jalQ st).
Proof. exact jal_eq_qlearning_lemma. Qed.
Print Assumptions jal_eq_qlearning.

Local Open Scope Q_scope.
(* CooperativeQLearning with one basis whose action tag spans all agents: for every history in which the
   action returned by the greedy policy attains the row maximum (greedy_hist), the basis' table is the
   flat QLearning table on (index of s, index of a, index of s1, summed reward) *)
Theorem coop_single_eq_qlearning : forall SS AA alpha gamma tag hist tab,
  (0 < length AA)%nat -> greedy_hist SS AA tag alpha gamma tab hist ->
  coop_run SS AA alpha gamma [mkBm tag (seq 0 (length AA)) tab] hist =
  [mkBm tag (seq 0 (length AA)) (fold_left (ql_step alpha gamma) (map (flat_cexp SS AA tag) hist) tab)].
Proof. exact coop_single_history_lemma. Qed.
Print Assumptions coop_single_eq_qlearning.
Local Close Scope Q_scope.

(* FlattenedModel::sampleR(a) pays what the factored bandit pays for toFactors(A, a), whatever the
   reused helper_ buffer held (and leaves a buffer of the right length for the next call) *)
Theorem flattened_model_eq_factored : forall A groups helper a,
  length helper = length A ->
  fst (flattened_reward A groups helper a) = fbandit_reward A groups (toFactors A a) /\
  length (snd (flattened_reward A groups helper a)) = length A.
Proof. exact flattened_model_eq_factored_lemma. Qed.
Print Assumptions flattened_model_eq_factored.

Example ex_round2b_nonvacuous :
  pie_visit 20 (pie_make [2;3;2] [0;1;2] 1 2 false) = Some [4;5;10;11] /\
  pie_visit 20 (pie_make [2;3;2] [0;2] 1 1 true) = Some [2;3;8;9] /\
  pie_visit 20 (pie_make_all [2;3] 0 0) = Some [0;2;4] /\
  Forall (fun k => k < 1) [0] /\ Forall (fun k => 0 < nth k [2;3;2] 0) ([0] ++ 1 :: [2]) /\
  (let st := jal_new 2 [2;2] 0 (1#2)%Q (1#2)%Q in
   jalQ (fold_left jal_step [(0, [1;0], 1, 2%Q); (1, [1;1], 0, 4%Q)] st) =
   fold_left (ql_step (1#2) (1#2)) [(0, 1, 1, 2%Q); (1, 3, 0, 4%Q)] (jalQ st)) /\
  greedy_hist [2] [2;2] [0] (1#2) (1#2) (qzero 2 4) [([0], [1;0], [1], [0;0], [1%Q; 2%Q])].
Proof.
  split; [reflexivity|]. split; [reflexivity|]. split; [reflexivity|].
  split; [repeat constructor|]. split; [repeat constructor|]. split; [reflexivity|].
  cbn [greedy_hist]. split; [reflexivity|]. split; [vm_compute; reflexivity | exact I].
Qed.

(* CooperativeModel::sampleSRs / sampleSR / getExpectedReward: per-basis reward components and their sum *)
Theorem sampleSRs_rewards_flat : forall SS AA rewards s a,
  sampleSRs_rewards SS AA rewards s a = map (fun b => entry2 SS AA b s a) rewards /\
  (qsum (sampleSRs_rewards SS AA rewards s a) == flat2 SS AA rewards s a)%Q /\
  (expectedReward SS AA rewards s a == flat2 SS AA rewards s a)%Q.
Proof. exact sampleSRs_rewards_lemma. Qed.
Print Assumptions sampleSRs_rewards_flat.

(* FactoredMatrix2D plusEqual (basis and matrix overloads; plusEqualSubset inside): the flat expansion of
   the sum is the sum of the flat expansions, for any state/action tag relation (merge only happens when
   both tags of one basis are contained, as sorted lists, in the other's; otherwise the basis is appended) *)
Theorem plus_flat_2d : forall SS AA rhs fm s a,
  fm_ok SS AA fm -> fm_ok SS AA rhs -> in_space SS s -> in_space AA a ->
  (flat2 SS AA (plusEqualFM SS AA fm rhs) s a == flat2 SS AA fm s a + flat2 SS AA rhs s a)%Q
  /\ fm_ok SS AA (plusEqualFM SS AA fm rhs).
Proof. exact plusEqualFM_flat_lemma. Qed.
Print Assumptions plus_flat_2d.

Theorem plus_basis_flat_2d : forall SS AA fm b s a,
  fm_ok SS AA fm -> bm_wf SS AA b -> bm_ne b -> in_space SS s -> in_space AA a ->
  (flat2 SS AA (plusEqual2D SS AA fm b) s a == flat2 SS AA fm s a + entry2 SS AA b s a)%Q
  /\ fm_ok SS AA (plusEqual2D SS AA fm b).
Proof. exact plusEqual2D_flat_lemma. Qed.
Print Assumptions plus_basis_flat_2d.

Example ex_plus_2d_nonvacuous :
  let SS := [2]%nat in let AA := [2;2]%nat in
  let big := mkBm [0%nat] [0;1]%nat [[1;2;3;4];[5;6;7;8]]%Q in
  let small := mkBm [0%nat] [1%nat] [[10;20];[30;40]]%Q in      (* action tag {1}: a non-prefix subset of {0,1} *)
  fm_ok SS AA [big] /\ bm_wf SS AA small /\ bm_ne small /\
  (flat2 SS AA (plusEqual2D SS AA [big] small) [1%nat] [1;0]%nat == 36)%Q.
Proof.
  cbv zeta. split; [|split; [|split]].
  - constructor; [|constructor]. split; [repeat split; repeat constructor | split; discriminate].
  - repeat split; repeat constructor.
  - split; discriminate.
  - vm_compute. reflexivity.
Qed.

(* ================================================================ Round 6 ==== *)
From AIT Require Import C14.SpecSparse C14.ProofsSparse.

(* SparseCooperativeQLearning: the value the rule set assigns to a joint (s,a) — accumulate the values of
   rules_.filter(join(s,a)) — is the flat expansion: the sum over ALL rules of (value if it matches, else 0) *)
Theorem sparse_coop_flat_value : forall rules s a, (sparse_qvalue rules s a == flatQ rules s a)%Q.
Proof. exact sparse_coop_flat_value_lemma. Qed.
Print Assumptions sparse_coop_flat_value.

(* stepUpdateQ(s,a,s1,rew) with a1 = the action the greedy policy returned for s1: keys/values of every rule
   are kept; every rule matching (s,a) grows by exactly the sum over the agents of its action tag of
   td_share (= alpha * (rew[j]/#before-rules containing j + sum_{after rules containing j} discount*value/|tag|
   - sum_{before rules containing j} value/|tag|)); every other rule is untouched *)
Theorem sparse_coop_update_spec : forall nA alpha gamma rules s a s1 a1 rew,
  length rew = nA ->
  (forall r, In r rules -> rule_matches r s a = true -> Forall (fun ag => ag < nA) (rAK r)) ->
  Forall2 (fun r r' =>
             rSK r' = rSK r /\ rSV r' = rSV r /\ rAK r' = rAK r /\ rAV r' = rAV r /\
             if rule_matches r s a
             then (rVal r' == rVal r + qsum (map (td_share alpha gamma rules s a s1 a1 rew) (rAK r)))%Q
             else r' = r)
          rules (sparse_step nA alpha gamma rules s a s1 a1 rew).
Proof. exact sparse_coop_update_spec_lemma. Qed.
Print Assumptions sparse_coop_update_spec.

(* when exactly one rule matches (s,a) and one matches (s1,a1), both with the action tag of all agents
   (a table in disguise), the step is QLearning's: Q(s,a) += alpha * (sum rew + discount * Q(s1,a1) - Q(s,a))
   on the flat expansion, nothing else moves (Q(s1,a1) is the row maximum when a1 is greedy) *)
Theorem sparse_coop_single_rule_eq_qlearning : forall nA alpha gamma rules s a s1 a1 rew r0 r1,
  0 < nA -> length rew = nA ->
  filter (fun r => rule_matches r s a) rules = [r0] ->
  filter (fun r => rule_matches r s1 a1) rules = [r1] ->
  rAK r0 = seq 0 nA -> rAK r1 = seq 0 nA ->
  Forall2 (fun r r' =>
             if rule_matches r s a
             then r = r0 /\ (rVal r' == flatQ rules s a + alpha * (qsum rew + gamma * flatQ rules s1 a1 - flatQ rules s a))%Q
             else r' = r)
          rules (sparse_step nA alpha gamma rules s a s1 a1 rew).
Proof. exact sparse_coop_single_rule_eq_qlearning_lemma. Qed.
Print Assumptions sparse_coop_single_rule_eq_qlearning.

Example ex_sparse_nonvacuous :
  let rules := [mkRule [0] [0] [0] [1] 1%Q; mkRule [0] [0] [0;1] [1;0] 2%Q; mkRule [] [] [1] [1] 4%Q] in
  (forall r, In r rules -> rule_matches r [0] [1;0] = true -> Forall (fun ag => ag < 2) (rAK r)) /\
  let s := [0] in let a := [1;0] in let a1 := [1;1] in
  (flatQ rules s a == 3)%Q /\
  (td_share (1#2) (1#2) rules s a s a1 [2;6]%Q 0 == (1#2) * (2 / 2 + (1#2) * 1 / 1 - (1 / 1 + 2 / 2)))%Q /\
  map rVal (sparse_step 2 (1#2) (1#2) rules s a s a1 [2;6]%Q) = [3#4; 21#4; 4]%Q.
Proof.
  cbv zeta. split; [|split; [|split]].
  - intros r [<-|[<-|[<-|[]]]] _; repeat constructor.
  - vm_compute. reflexivity.
  - vm_compute. reflexivity.
  - vm_compute. reflexivity.
Qed.

Example ex_sparse_single_nonvacuous :
  let r0 := mkRule [0] [0] [0;1] [0;0] 1%Q in let r1 := mkRule [0] [1] [0;1] [1;1] 5%Q in
  filter (fun r => rule_matches r [0] [0;0]) [r0; r1] = [r0] /\
  filter (fun r => rule_matches r [1] [1;1]) [r0; r1] = [r1] /\ rAK r0 = seq 0 2 /\ rAK r1 = seq 0 2.
Proof. cbv zeta. repeat split. Qed.

(* toIndex(space, PartialFactors): for strictly increasing in-range keys (one value per key) the result is
   sum over the keys of value * (product of the sizes of ALL lower-numbered factors) — the index of the full
   vector that is 0 outside the keys *)
Theorem toIndexPF_spec : forall space pk pv,
  strict pk -> Forall (fun k => k < length space) pk -> length pv = length pk ->
  toIndexPF space pk pv = pf_index space pk pv.
Proof. exact toIndexPF_spec_lemma. Qed.
Print Assumptions toIndexPF_spec.

Example ex_toIndexPF_nonvacuous :
  strict [0;2] /\ Forall (fun k => k < length [2;3;4]) [0;2] /\ toIndexPF [2;3;4] [0;2] [1;3] = 19 /\
  pf_index [2;3;4] [0;2] [1;3] = 19.
Proof. split; [repeat constructor|split; [repeat constructor|split; reflexivity]]. Qed.
