(* C09/ProofsMachines.v — invariants of the policy state machines over histories that include the
   public parameter setters. *)
From Coq Require Import List Arith ZArith QArith Qminmax Lqa Lia Bool.
From AIT Require Import Base.Qx C09.Model C09.Spec C09.Machines
  C09.ProofsGreedy C09.ProofsMix C09.ProofsSoftmax C09.ProofsWolf C09.ProofsPga.
Import ListNotations.
Local Open Scope Q_scope.

(* ---------------------------------------------------------------- LRP *)
Definition lrp_inv2 (A : nat) (st : lrp) : Prop :=
  0 <= lrp_a st /\ lrp_a st <= 1 /\ 0 <= lrp_invB st /\ lrp_invB st <= 1 /\ 0 <= lrp_divB st /\
  lrp_divB st * qnat (A - 1) == 1 - lrp_invB st /\
  length (lrp_pol st) = A /\ is_dist (lrp_pol st).

Lemma div_qnat_nonneg : forall b n, 0 <= b -> 0 <= b / qnat n.
Proof.
  intros b [|n] Hb.
  - change (qnat 0) with 0. unfold Qdiv. assert (E : / 0 == 0) by reflexivity. rewrite E. lra.
  - apply Qle_shift_div_l; [apply qnat_pos; lia| lra].
Qed.

Lemma div_qnat_rel : forall b A, (1 <= A)%nat -> (A = 1%nat -> b == 0) -> b / qnat (A - 1) * qnat (A - 1) == b.
Proof.
  intros b A HA H1. destruct (Nat.eq_dec A 1) as [->|Hne].
  - cbn [Nat.sub]. change (qnat 0) with 0. rewrite (H1 eq_refl). unfold Qdiv. lra.
  - assert (0 < qnat (A - 1)) by (apply qnat_pos; lia). field. lra.
Qed.

Lemma uniform_dist : forall A, (1 <= A)%nat -> is_dist (repeat (1 / qn A) A).
Proof.
  intros A HA. assert (Hk : 0 < qnat A) by (apply qnat_pos; lia). change (qn A) with (qnat A). split.
  - unfold nonneg. apply Forall_forall. intros x Hx. apply repeat_spec in Hx. subst.
    apply Qlt_le_weak. apply Qlt_shift_div_l; [exact Hk| lra].
  - rewrite qsum_repeat. field. lra.
Qed.

Lemma lrp_init_inv2 : forall A a b, (1 <= A)%nat -> 0 <= a -> a <= 1 -> 0 <= b -> b <= 1 ->
  (A = 1%nat -> b == 0) -> lrp_inv2 A (lrp_init A a b).
Proof.
  intros A a b HA Ha0 Ha1 Hb0 Hb1 H1. unfold lrp_inv2, lrp_init. cbn [lrp_a lrp_invB lrp_divB lrp_pol].
  change (qn (A - 1)) with (qnat (A - 1)).
  repeat split; try lra.
  - apply div_qnat_nonneg; exact Hb0.
  - rewrite (div_qnat_rel b A HA H1). lra.
  - apply repeat_length.
  - apply uniform_dist; exact HA.
  - apply uniform_dist; exact HA.
Qed.

Lemma lrp_step_inv2 : forall A st act res, (1 <= A)%nat -> lrp_inv2 A st -> (act < A)%nat ->
  lrp_inv2 A (lrp_step st (act, res)).
Proof.
  intros A st act result HA [Ha0 [Ha1 [Hi0 [Hi1 [Hd0 [Ed [Hlen D]]]]]]] Hact.
  unfold lrp_inv2, lrp_step. cbn [lrp_a lrp_invB lrp_divB lrp_pol].
  do 6 (split; [assumption|]).
  assert (HA1 : qnat A == qnat (A - 1) + 1).
  { replace A with (S (A - 1)) at 1 by lia. apply qnat_S. }
  destruct D as [N Su].
  assert (Hr : (0 <= act < 0 + length (lrp_pol st))%nat) by lia.
  destruct result.
  - split; [rewrite mapi_from_length; exact Hlen|]. split.
    + apply Forall_mapi. intros j x Hx. destruct (dist_le1 _ x (conj N Su) Hx).
      destruct (Nat.eqb j act); rewrite Qred_correct; nra.
    + rewrite (qsum_mapi_hit _ 0 act (fun x => Qred (x + lrp_a st * (1 - x))) (fun x => Qred (x - lrp_a st * x)) Hr).
      rewrite (qsum_map_red (fun x => x - lrp_a st * x)), !Qred_correct, qsum_map_lin, Su. lra.
  - split; [rewrite mapi_from_length; exact Hlen|]. split.
    + apply Forall_mapi. intros j x Hx. destruct (dist_le1 _ x (conj N Su) Hx).
      destruct (Nat.eqb j act); rewrite Qred_correct; nra.
    + rewrite (qsum_mapi_hit _ 0 act (fun x => Qred (x * lrp_invB st)) (fun x => Qred (lrp_divB st + lrp_invB st * x)) Hr).
      rewrite (qsum_map_red (fun x => lrp_divB st + lrp_invB st * x)), !Qred_correct, qsum_map_aff2, Su, Hlen, HA1. nra.
Qed.

Lemma lrp_apply_inv2 : forall A st op, (1 <= A)%nat -> lrp_inv2 A st -> lrp_op_ok A op -> lrp_inv2 A (lrp_apply st op).
Proof.
  intros A st [act res|a|b] HA Inv Hok; cbn [lrp_apply lrp_op_ok] in *.
  - apply lrp_step_inv2; assumption.
  - destruct Inv as [_ [_ R]]. destruct Hok. unfold lrp_inv2. cbn [lrp_a lrp_invB lrp_divB lrp_pol].
    split; [assumption|]. split; [assumption|]. exact R.
  - destruct Inv as [Ha0 [Ha1 [_ [_ [_ [_ [Hlen D]]]]]]]. destruct Hok as [Hb0 [Hb1 H1]].
    unfold lrp_inv2. cbn [lrp_a lrp_invB lrp_divB lrp_pol]. rewrite Hlen. change (qn (A - 1)) with (qnat (A - 1)).
    repeat split; try lra; try assumption.
    + apply div_qnat_nonneg; exact Hb0.
    + rewrite (div_qnat_rel b A HA H1). lra.
    + apply D.
    + apply D.
Qed.

Lemma lrp_simplex_invariant_setters_lemma : forall A a b ops, (1 <= A)%nat ->
  0 <= a -> a <= 1 -> 0 <= b -> b <= 1 -> (A = 1%nat -> b == 0) -> Forall (lrp_op_ok A) ops ->
  length (lrp_pol (lrp_exec A a b ops)) = A /\ is_dist (lrp_pol (lrp_exec A a b ops)) /\
  0 <= lrp_getA (lrp_exec A a b ops) /\ lrp_getA (lrp_exec A a b ops) <= 1 /\
  0 <= lrp_getB (lrp_exec A a b ops) /\ lrp_getB (lrp_exec A a b ops) <= 1.
Proof.
  intros A a b ops HA Ha0 Ha1 Hb0 Hb1 H1 Hops.
  assert (H : lrp_inv2 A (lrp_exec A a b ops)).
  { unfold lrp_exec. apply (fold_left_inv lrp lrp_op lrp_apply (lrp_inv2 A) (lrp_op_ok A)).
    - intros s op Hs Hop. apply lrp_apply_inv2; assumption.
    - apply lrp_init_inv2; assumption.
    - exact Hops. }
  destruct H as [G1 [G2 [G3 [G4 [_ [_ [Hl D]]]]]]]. unfold lrp_getA, lrp_getB.
  repeat split; try assumption; try apply D; lra.
Qed.

(* the parameters in force after a history are the last ones set *)
Lemma lrp_params : forall ops st a b,
  lrp_a st == a -> lrp_invB st == 1 - b -> lrp_divB st == b / qn (length (lrp_pol st) - 1) ->
  let st' := fold_left lrp_apply ops st in
  lrp_a st' == cur_a a ops /\ lrp_invB st' == 1 - cur_b b ops /\
  lrp_divB st' == cur_b b ops / qn (length (lrp_pol st') - 1) /\
  length (lrp_pol st') = length (lrp_pol st).
Proof.
  unfold cur_a, cur_b.
  induction ops as [|op ops IH]; intros st a b Ea Ei Ed; cbn [fold_left].
  - repeat split; assumption.
  - destruct op as [act res|x|x]; cbn [lrp_apply].
    + assert (Hl : length (lrp_pol (lrp_step st (act, res))) = length (lrp_pol st)).
      { unfold lrp_step. cbn [lrp_pol]. destruct res; apply mapi_from_length. }
      destruct (IH (lrp_step st (act, res)) a b) as [G1 [G2 [G3 G4]]].
      * exact Ea.
      * exact Ei.
      * rewrite Hl. exact Ed.
      * repeat split; try assumption. rewrite G4. exact Hl.
    + destruct (IH (mkLrp x (lrp_invB st) (lrp_divB st) (lrp_pol st)) x b) as [G1 [G2 [G3 G4]]];
        cbn [lrp_a lrp_invB lrp_divB lrp_pol]; try assumption; [reflexivity|].
      repeat split; assumption.
    + destruct (IH (mkLrp (lrp_a st) (1 - x) (x / qn (length (lrp_pol st) - 1)) (lrp_pol st)) a x) as [G1 [G2 [G3 G4]]];
        cbn [lrp_a lrp_invB lrp_divB lrp_pol]; try assumption; try reflexivity.
      repeat split; assumption.
Qed.

Lemma mapi_from_veq : forall (F : nat -> Q -> Q) (G : nat * Q -> Q) l i,
  (forall j x, F j x == G (j, x)) -> veq (mapi_from i F l) (map G (combine (seq i (length l)) l)).
Proof.
  intros F G. induction l as [|x l IH]; intros i H; cbn [mapi_from length seq combine map]; constructor.
  - apply H.
  - apply IH. exact H.
Qed.

(* every update applies the documented rule with the parameters currently in force *)
Lemma lrp_documented_rule_lemma : forall A a b ops act res,
  veq (lrp_pol (lrp_apply (lrp_exec A a b ops) (LUpd act res)))
      (lrp_rule (cur_a a ops) (cur_b b ops) (lrp_pol (lrp_exec A a b ops)) act res) /\
  lrp_getA (lrp_exec A a b ops) == cur_a a ops /\ lrp_getB (lrp_exec A a b ops) == cur_b b ops.
Proof.
  intros A a b ops act res.
  destruct (lrp_params ops (lrp_init A a b) a b) as [Ea [Ei [Ed _]]].
  - reflexivity.
  - reflexivity.
  - unfold lrp_init. cbn [lrp_divB lrp_pol]. rewrite repeat_length. reflexivity.
  - fold (lrp_exec A a b ops) in Ea, Ei, Ed. set (st := lrp_exec A a b ops) in *.
    split; [| split; [exact Ea| unfold lrp_getB; rewrite Ei; lra]].
    cbn [lrp_apply]. unfold lrp_step, lrp_rule. cbn [lrp_pol]. destruct res.
    + apply mapi_from_veq. intros j x. cbn [fst snd]. destruct (Nat.eqb j act); rewrite Qred_correct, Ea; reflexivity.
    + apply mapi_from_veq. intros j x. cbn [fst snd]. destruct (Nat.eqb j act); rewrite Qred_correct, Ei; [reflexivity|].
      rewrite Ed. reflexivity.
Qed.

(* ---------------------------------------------------------------- epsilon / temperature setters *)
Lemma eps_set_spec : forall cur e,
  (0 <= e /\ e <= 1 -> eps_set_throws e = false /\ eps_set cur e = e) /\
  (e < 0 \/ 1 < e -> eps_set_throws e = true /\ eps_set cur e = cur).
Proof.
  intros cur e. unfold eps_set, eps_set_throws. split.
  - intros [H0 H1]. destruct (Qlt_le_dec e 0); [lra|]. destruct (Qlt_le_dec 1 e); [lra|]. split; reflexivity.
  - intros H. destruct (Qlt_le_dec e 0); [split; reflexivity|]. destruct (Qlt_le_dec 1 e); [split; reflexivity| lra].
Qed.

Lemma eps_set_range : forall cur e, 0 <= cur /\ cur <= 1 -> 0 <= eps_set cur e /\ eps_set cur e <= 1.
Proof.
  intros cur e H. unfold eps_set, eps_set_throws.
  destruct (Qlt_le_dec e 0); [exact H|]. destruct (Qlt_le_dec 1 e); [exact H| lra].
Qed.

Lemma eps_history_range : forall sets e0, 0 <= e0 /\ e0 <= 1 ->
  0 <= fold_left eps_set sets e0 /\ fold_left eps_set sets e0 <= 1.
Proof.
  induction sets as [|e sets IH]; intros e0 H; cbn [fold_left]; [exact H|].
  apply IH. apply eps_set_range. exact H.
Qed.

Lemma epsilon_setters_lemma : forall e0 sets pol, 0 <= e0 -> e0 <= 1 -> pol <> [] -> is_dist pol ->
  let eps := fold_left eps_set sets e0 in
  0 <= eps /\ eps <= 1 /\ length (eps_policy eps pol) = length pol /\ is_dist (eps_policy eps pol) /\
  agrees (eps_policy eps pol) (fun a => eps_prob eps (length pol) (nthq pol a)).
Proof.
  intros e0 sets pol H0 H1 Hne D. cbv zeta.
  destruct (eps_history_range sets e0 (conj H0 H1)) as [G0 G1].
  destruct (epsilon_mixture_lemma _ pol G0 G1 Hne D) as [L [Dd Ag]].
  repeat split; try assumption; apply Dd.
Qed.

Lemma temp_set_spec : forall cur t,
  (0 <= t -> temp_set_throws t = false /\ temp_set cur t = t) /\
  (t < 0 -> temp_set_throws t = true /\ temp_set cur t = cur).
Proof.
  intros cur t. unfold temp_set, temp_set_throws. split; intros H; destruct (Qlt_le_dec t 0); try lra; split; reflexivity.
Qed.

Lemma temp_history_nonneg : forall sets t0, 0 <= t0 -> 0 <= fold_left temp_set sets t0.
Proof.
  induction sets as [|t sets IH]; intros t0 H; cbn [fold_left]; [exact H|].
  apply IH. unfold temp_set, temp_set_throws. destruct (Qlt_le_dec t 0); lra.
Qed.

Lemma softmax_setters_thm : forall ex, exp_like ex -> forall t0 sets q, 0 <= t0 -> q <> [] -> separated q ->
  let T := fold_left temp_set sets t0 in
  0 <= T /\ length (softmax_policy ex T q) = length q /\ is_dist (softmax_policy ex T q) /\
  agrees (softmax_policy ex T q) (softmax_prob ex T q).
Proof.
  intros ex Hex t0 sets q Ht Hne Hsep. cbv zeta.
  split; [apply temp_history_nonneg; exact Ht|].
  destruct (softmax_dist_thm ex Hex (fold_left temp_set sets t0) q Hne (fun _ => Hsep)) as [L D].
  split; [exact L|]. split; [exact D|].
  apply (softmax_table_eq_query_thm ex Hex _ q Hne (fun _ => Hsep)).
Qed.

(* ---------------------------------------------------------------- WoLF with setters *)
Definition wolf_inv (A : nat) (qm : mat) (st : wolf_st) : Prop :=
  0 <= ws_dW st /\ 0 <= ws_dL st /\ 0 < ws_sc st /\
  length (ws_rows st) = length qm /\ Forall (row_ok A) (ws_rows st).

Lemma wolf_apply_inv : forall A qm st op, (2 <= A)%nat -> Forall (fun r => length r = A) qm ->
  wolf_inv A qm st -> wolf_op_ok op -> wolf_inv A qm (wolf_apply qm st op).
Proof.
  intros A qm st op HA Hqm [HW [HL [Hsc [Hl Hok]]]] Hop.
  destruct op as [s sel|x|x|x]; unfold wolf_inv; cbn [wolf_apply wolf_op_ok ws_dW ws_dL ws_sc ws_rows] in *;
    try (repeat split; assumption).
  split; [exact HW|]. split; [exact HL|]. split; [exact Hsc|].
  unfold wolf_step. split; [rewrite upd_row_length; exact Hl|].
  apply upd_row_forall; [exact Hok|]. intros r Hr Hs.
  apply wolf_step_row_ok; try assumption.
  rewrite Hl in Hs. unfold row. apply (proj1 (Forall_forall _ _) Hqm). apply nth_In. exact Hs.
Qed.

Lemma wolf_rows_dist_setters_lemma : forall dW dL sc qm A ops,
  (2 <= A)%nat -> 0 <= dW -> 0 <= dL -> 0 < sc -> Forall (fun r => length r = A) qm ->
  Forall wolf_op_ok ops ->
  length (ws_rows (wolf_exec dW dL sc qm A ops)) = length qm /\
  Forall (fun r => length (w_act r) = A /\ is_dist (w_act r) /\ length (w_avg r) = A /\ is_dist (w_avg r))
         (ws_rows (wolf_exec dW dL sc qm A ops)).
Proof.
  intros dW dL sc qm A ops HA HW HL Hsc Hqm Hops.
  assert (H : wolf_inv A qm (wolf_exec dW dL sc qm A ops)).
  { unfold wolf_exec. apply (fold_left_inv _ _ (wolf_apply qm) (wolf_inv A qm) wolf_op_ok).
    - intros s op Hs Hop. apply wolf_apply_inv; assumption.
    - unfold wolf_inv. cbn [ws_dW ws_dL ws_sc ws_rows]. repeat split; try assumption; [apply repeat_length|].
      apply Forall_forall. intros r Hr. apply repeat_spec in Hr. subst. apply wolf_init_ok. lia.
    - exact Hops. }
  destruct H as [_ [_ [_ [Hl Hok]]]]. split; [exact Hl| exact Hok].
Qed.

(* ---------------------------------------------------------------- PGA-APP with setters *)
Definition pga_inv (A : nat) (st : pga_st) : Prop :=
  0 <= ps_lr st /\ 0 <= ps_pl st /\ Forall (fun r => length r = A) (ps_q st) /\
  length (ps_rows st) = length (ps_q st) /\ Forall (prow_ok A) (ps_rows st).

Lemma pga_apply_inv : forall A st op, (1 <= A)%nat -> pga_inv A st -> pga_inv A (pga_apply st op).
Proof.
  intros A st op HA [Hlr [Hpl [Hqm [Hl Hok]]]].
  destruct op as [s|x|x|s a v]; cbn [pga_apply].
  - unfold pga_inv. cbn [ps_lr ps_pl ps_q ps_rows]. split; [exact Hlr|]. split; [exact Hpl|]. split; [exact Hqm|].
    unfold pga_step. split; [rewrite upd_vrow_length; exact Hl|].
    apply upd_vrow_forall; [exact Hok|]. intros r [Hr _] Hs.
    apply pga_step_row_ok; [exact HA| | exact Hr].
    rewrite Hl in Hs. unfold row. apply (proj1 (Forall_forall _ _) Hqm). apply nth_In. exact Hs.
  - unfold neg_throws. destruct (Qlt_le_dec x 0); unfold pga_inv; cbn [ps_lr ps_pl ps_q ps_rows]; repeat split; assumption.
  - unfold neg_throws. destruct (Qlt_le_dec x 0); unfold pga_inv; cbn [ps_lr ps_pl ps_q ps_rows]; repeat split; assumption.
  - unfold pga_inv. cbn [ps_lr ps_pl ps_q ps_rows]. split; [exact Hlr|]. split; [exact Hpl|].
    split; [| split; [rewrite upd_vrow_length; exact Hl| exact Hok]].
    apply upd_vrow_forall; [exact Hqm|]. intros r Hr _. rewrite set_nth_length. exact Hr.
Qed.

Lemma pgaapp_rows_dist_setters_lemma : forall lr pl qm A ops, (1 <= A)%nat -> 0 <= lr -> 0 <= pl ->
  Forall (fun r => length r = A) qm ->
  0 <= ps_lr (pga_exec lr pl qm A ops) /\ 0 <= ps_pl (pga_exec lr pl qm A ops) /\
  length (ps_rows (pga_exec lr pl qm A ops)) = length qm /\
  Forall (fun r => length r = A /\ is_dist_tol epsS r) (ps_rows (pga_exec lr pl qm A ops)).
Proof.
  intros lr pl qm A ops HA Hlr Hpl Hqm.
  assert (H : pga_inv A (pga_exec lr pl qm A ops) /\ length (ps_q (pga_exec lr pl qm A ops)) = length qm).
  { unfold pga_exec.
    apply (fold_left_inv _ _ pga_apply (fun st => pga_inv A st /\ length (ps_q st) = length qm) (fun _ => True)).
    - intros s op [Hs Hlq] _. split; [apply pga_apply_inv; assumption|].
      destruct op as [s0|x|x|s0 a v]; cbn [pga_apply]; try exact Hlq.
      + unfold neg_throws. destruct (Qlt_le_dec x 0); exact Hlq.
      + unfold neg_throws. destruct (Qlt_le_dec x 0); exact Hlq.
      + cbn [ps_q]. rewrite upd_vrow_length. exact Hlq.
    - split; [| reflexivity]. unfold pga_inv. cbn [ps_lr ps_pl ps_q ps_rows].
      split; [exact Hlr|]. split; [exact Hpl|]. split; [exact Hqm|]. split; [apply repeat_length|].
      apply Forall_forall. intros r Hr. apply repeat_spec in Hr. subst. apply uniform_row_ok. exact HA.
    - apply Forall_forall. intros; exact I. }
  destruct H as [[G1 [G2 [_ [G4 G5]]]] Hlq]. split; [exact G1|]. split; [exact G2|].
  split; [rewrite G4; exact Hlq| exact G5].
Qed.

(* ---------------------------------------------------------------- MDP::Policy from a matrix *)
Lemma policy_ctor_lemma : forall m p, policy_ctor m = Some p ->
  p = m /\ Forall (fun r => is_dist_tol epsS r) p.
Proof.
  intros m p H. unfold policy_ctor in H. destruct (is_prob_matrixb m) eqn:E; [| discriminate].
  inversion H; subst. split; [reflexivity|]. apply Forall_forall. intros r Hr.
  unfold is_prob_matrixb in E. rewrite forallb_forall in E. specialize (E r Hr).
  unfold prob_rowb in E. apply andb_true_iff in E. destruct E as [En Es].
  split.
  - unfold nonneg. apply Forall_forall. intros x Hx. unfold nonnegb in En. rewrite forallb_forall in En.
    apply Qle_bool_iff. apply En. exact Hx.
  - apply eqSmall_bounds. exact Es.
Qed.

Lemma policy_ctor_rejects_lemma : forall m r, In r m -> (~ nonneg r \/ epsS < qsum r - 1 \/ qsum r - 1 < - epsS) ->
  policy_ctor m = None.
Proof.
  intros m r Hin Hbad. unfold policy_ctor. destruct (is_prob_matrixb m) eqn:E; [| reflexivity]. exfalso.
  destruct (policy_ctor_lemma m m) as [_ Hall]; [unfold policy_ctor; rewrite E; reflexivity|].
  pose proof (proj1 (Forall_forall _ _) Hall r Hin) as [N [L U]].
  destruct Hbad as [B|[B|B]]; [apply B; exact N| lra| lra].
Qed.

(* ---------------------------------------------------------------- MDP softmax table, row by row *)
Lemma msoftmax_rows_thm : forall ex, exp_like ex -> forall T qm,
  Forall (fun q => q <> []) qm -> (eqSmall T 0 = true -> Forall separated qm) ->
  length (msoftmax_policy ex T qm) = length qm /\
  forall s, (s < length qm)%nat ->
    length (row (msoftmax_policy ex T qm) s) = length (row qm s) /\
    is_dist (row (msoftmax_policy ex T qm) s) /\
    agrees (row (msoftmax_policy ex T qm) s) (msoftmax_prob ex T qm s).
Proof.
  intros ex Hex T qm Hne Hsep. unfold msoftmax_policy, msoftmax_prob, row.
  split; [apply map_length|]. intros s Hs.
  assert (Hin : In (nth s qm []) qm) by (apply nth_In; exact Hs).
  rewrite (nth_indep (map (softmax_policy ex T) qm) [] (softmax_policy ex T [])) by (rewrite map_length; exact Hs).
  rewrite map_nth.
  pose proof (proj1 (Forall_forall _ _) Hne _ Hin) as Hq.
  assert (Hs' : eqSmall T 0 = true -> separated (nth s qm [])).
  { intros E. apply (proj1 (Forall_forall _ _) (Hsep E)). exact Hin. }
  destruct (softmax_dist_thm ex Hex T _ Hq Hs') as [L D].
  split; [exact L|]. split; [exact D|]. apply softmax_table_eq_query_thm; assumption.
Qed.

(* row-shift invariance: moving each state row by its own constant does not change the table
   (softmax regime; the greedy regime T ~ 0 is greedy_shift) *)
Lemma msoftmax_row_shift_thm : forall ex, exp_like ex -> forall T cs qm,
  eqSmall T 0 = false -> Forall (fun q => q <> []) qm -> length cs = length qm ->
  Forall2 veq (msoftmax_policy ex T (shift_rows cs qm)) (msoftmax_policy ex T qm).
Proof.
  intros ex Hex T cs qm ET. revert cs. induction qm as [|q qm IH]; intros cs Hne Hl.
  - destruct cs; [constructor| discriminate].
  - destruct cs as [|c cs]; [discriminate|]. inversion Hne; subst. cbn in Hl.
    unfold msoftmax_policy, shift_rows in *. cbn [combine map fst snd]. constructor.
    + apply softmax_shift_thm; [exact Hex| assumption|]. intros E. rewrite E in ET. discriminate.
    + apply IH; [assumption| lia].
Qed.
