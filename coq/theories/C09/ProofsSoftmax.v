(* C09/ProofsSoftmax.v — QSoftmaxPolicyWrapper (repaired: max subtracted) over an abstract [ex],
   the refutation witness for the code as it is, and ThompsonSamplingPolicy's argmax. *)
From Coq Require Import List Arith ZArith QArith Qminmax Lqa Lia Bool.
From AIT Require Import Base.Qx C09.Model C09.Spec C09.ProofsGreedy C09.ProofsMix.
Import ListNotations.
Local Open Scope Q_scope.

Lemma qsum_ge_in : forall l x, nonneg l -> In x l -> x <= qsum l.
Proof.
  intros l x N Hin. induction N as [|y l Hy N IH]; [destruct Hin|]. cbn [qsum].
  pose proof (qsum_nonneg l N). destruct Hin as [->|Hin]; [lra|]. specialize (IH Hin). lra.
Qed.

Lemma qsum_map_div : forall s l, qsum (map (fun v => v / s) l) == qsum l / s.
Proof.
  intros s l. rewrite (qsum_map_ext _ (fun v => v / s) (fun v => / s * v)) by (intros; unfold Qdiv; lra).
  rewrite qsum_map_scale. unfold Qdiv. lra.
Qed.

Lemma eqSmall_false_of_ge1 : forall s, 1 <= s -> eqSmall s 0 = false.
Proof.
  intros s H. unfold eqSmall. destruct (Qle_bool (qabs (s - 0)) epsS) eqn:E; [|reflexivity].
  apply Qle_bool_iff in E. unfold qabs in E. pose proof (Q.le_max_l (s - 0) (- (s - 0))).
  unfold epsS in E. lra.
Qed.

Lemma normalise_dist : forall w, nonneg w -> 0 < qsum w -> is_dist (map (fun v => v / qsum w) w).
Proof.
  intros w N Hs. split.
  - unfold nonneg. apply Forall_forall. intros y Hy. apply in_map_iff in Hy. destruct Hy as [v [<- Hv]].
    pose proof (proj1 (Forall_forall _ _) N v Hv) as Hv0. cbn beta in Hv0.
    apply Qle_shift_div_l; [exact Hs| lra].
  - rewrite qsum_map_div. field. lra.
Qed.

Section SoftmaxProofs.
Variable ex : Q -> Q.
Hypothesis ex_nonneg : forall x, 0 <= ex x.
Hypothesis ex_mono : forall x y, x <= y -> ex x <= ex y.
Hypothesis ex_zero : ex 0 == 1.

Lemma ex_proper : forall x y, x == y -> ex x == ex y.
Proof. intros x y H. apply Qle_antisym; apply ex_mono; lra. Qed.

Lemma weights_nonneg : forall T q, nonneg (softmax_weights ex T q).
Proof.
  intros T q. unfold softmax_weights, nonneg. apply Forall_forall. intros y Hy.
  apply in_map_iff in Hy. destruct Hy as [x [<- _]]. apply ex_nonneg.
Qed.

Lemma weights_length : forall T q, length (softmax_weights ex T q) = length q.
Proof. intros; unfold softmax_weights; apply map_length. Qed.

Lemma weights_sum_ge1 : forall T q, q <> [] -> 1 <= qsum (softmax_weights ex T q).
Proof.
  intros T q Hne. destruct (maxl_attained q Hne) as [y [Hy Ey]].
  assert (Hin : In (ex ((y - maxl q) / T)) (softmax_weights ex T q)).
  { unfold softmax_weights. apply in_map_iff. exists y. split; [reflexivity| exact Hy]. }
  pose proof (qsum_ge_in _ _ (weights_nonneg T q) Hin) as Hle.
  assert (E : ex ((y - maxl q) / T) == 1).
  { rewrite <- ex_zero. apply ex_proper. unfold Qdiv.
    setoid_replace (y - maxl q) with 0 by lra. lra. }
  lra.
Qed.

Lemma softmax_dist_lemma : forall T q, q <> [] -> (eqSmall T 0 = true -> separated q) ->
  length (softmax_policy ex T q) = length q /\ is_dist (softmax_policy ex T q).
Proof.
  intros T q Hne Hsep. unfold softmax_policy. destruct (eqSmall T 0) eqn:ET.
  - apply greedy_rows_dist_lemma; [exact Hne| apply Hsep; reflexivity].
  - pose proof (weights_sum_ge1 T q Hne) as Hs. cbv zeta.
    rewrite (eqSmall_false_of_ge1 _ Hs). split.
    + rewrite map_length. apply weights_length.
    + apply normalise_dist; [apply weights_nonneg| lra].
Qed.

Lemma softmax_table_eq_query_lemma : forall T q, q <> [] -> (eqSmall T 0 = true -> separated q) ->
  agrees (softmax_policy ex T q) (softmax_prob ex T q).
Proof.
  intros T q Hne Hsep a Ha. unfold softmax_policy, softmax_prob in *. destruct (eqSmall T 0) eqn:ET.
  - apply greedy_table_eq_query_lemma; [apply Hsep; reflexivity| exact Ha].
  - pose proof (weights_sum_ge1 T q Hne) as Hs. cbv zeta in *.
    rewrite (eqSmall_false_of_ge1 _ Hs) in *. rewrite map_length in Ha.
    rewrite nthq_map by exact Ha. reflexivity.
Qed.

Lemma weights_shift : forall c T q, q <> [] -> veq (softmax_weights ex T (shift c q)) (softmax_weights ex T q).
Proof.
  intros c T q Hne. pose proof (maxl_shift c q Hne) as Em. unfold softmax_weights.
  generalize dependent (maxl (shift c q)). intros m' Em.
  generalize (maxl q) Em. clear Em. intros m Em.
  clear Hne. induction q as [|x q IH]; [constructor|].
  unfold shift in *. cbn [map]. constructor; [| exact IH].
  apply ex_proper. unfold Qdiv. setoid_replace (x + c - m') with (x - m) by lra. reflexivity.
Qed.

Lemma veq_map_div : forall v w s s', veq v w -> s == s' -> veq (map (fun x => x / s) v) (map (fun x => x / s') w).
Proof.
  intros v w s s' H Es. induction H as [|x y v w E H IH]; [constructor|]. cbn [map]. constructor; [| exact IH].
  rewrite E, Es. reflexivity.
Qed.

Lemma softmax_shift_lemma : forall c T q, q <> [] ->
  (eqSmall T 0 = true -> separated q /\ separated (shift c q)) ->
  veq (softmax_policy ex T (shift c q)) (softmax_policy ex T q).
Proof.
  intros c T q Hne Hsep. unfold softmax_policy. destruct (eqSmall T 0) eqn:ET.
  - destruct (Hsep eq_refl) as [S1 S2]. apply (greedy_shift_lemma c q S1 S2).
  - assert (Hne' : shift c q <> []) by (destruct q; [congruence| discriminate]).
    pose proof (weights_sum_ge1 T q Hne) as Hs. pose proof (weights_sum_ge1 T _ Hne') as Hs'. cbv zeta.
    rewrite (eqSmall_false_of_ge1 _ Hs), (eqSmall_false_of_ge1 _ Hs').
    apply veq_map_div; [apply weights_shift; exact Hne|].
    apply veq_qsum. apply weights_shift; exact Hne.
Qed.

Lemma softmax_sample_in_support_lemma : forall T q sel u, q <> [] ->
  (eqSmall T 0 = true -> separated q /\ (sel < length (greedy_tieset q))%nat) -> 0 <= u -> u < 1 ->
  in_support (softmax_policy ex T q) (softmax_sample ex T q sel u).
Proof.
  intros T q sel u Hne Hsep Hu0 Hu1. unfold softmax_policy, softmax_sample. destruct (eqSmall T 0) eqn:ET.
  - destruct (Hsep eq_refl) as [S1 Hsel].
    destruct (greedy_sample_in_support_lemma q sel Hne S1) as [_ H]. apply H. exact Hsel.
  - pose proof (weights_sum_ge1 T q Hne) as Hs. cbv zeta.
    rewrite (eqSmall_false_of_ge1 _ Hs).
    apply sample_prob_in_support_lemma; [| exact Hu0| exact Hu1].
    apply normalise_dist; [apply weights_nonneg| lra].
Qed.
End SoftmaxProofs.

(* ---------------------------------------------------------------- the code as it is: witness *)
(* a monotone, non-negative step function with value 1 at 0 — enough to exhibit the defect, which
   needs no underflow at all: the sum of the exponentials merely has to be <= 1e-6 *)
Definition ex_step (x : Q) : Q :=
  if Qle_bool 0 x then 1 else if Qle_bool (-25) x then 1 # 1000000000 else 1 # 10000000000000.

Lemma ex_step_ok : (forall x, 0 <= ex_step x) /\ (forall x y, x <= y -> ex_step x <= ex_step y) /\ ex_step 0 == 1.
Proof.
  split; [| split].
  - intros x. unfold ex_step. destruct (Qle_bool 0 x); [lra|]. destruct (Qle_bool (-25) x); lra.
  - intros x y H. unfold ex_step.
    destruct (Qle_bool 0 x) eqn:E1; destruct (Qle_bool 0 y) eqn:E2;
    destruct (Qle_bool (-25) x) eqn:E3; destruct (Qle_bool (-25) y) eqn:E4;
    try apply Qle_bool_iff in E1; try apply Qle_bool_iff in E2;
    try apply Qle_bool_iff in E3; try apply Qle_bool_iff in E4; try lra;
    try (assert (Qle_bool 0 y = true) by (apply Qle_bool_iff; lra); congruence);
    try (assert (Qle_bool (-25) y = true) by (apply Qle_bool_iff; lra); congruence).
  - reflexivity.
Qed.

Lemma softmax_asis_table_eq_query_refuted_lemma :
  exists (ex : Q -> Q) T q a,
    (forall x, 0 <= ex x) /\ (forall x y, x <= y -> ex x <= ex y) /\ ex 0 == 1 /\
    eqSmall T 0 = false /\ (a < length q)%nat /\
    ~ nthq (asis_policy ex T q) a == asis_prob ex T q a.
Proof.
  exists ex_step, 1, [-20; -30], 0%nat.
  destruct ex_step_ok as [H1 [H2 H3]].
  split; [exact H1|]. split; [exact H2|]. split; [exact H3|].
  split; [reflexivity|]. split; [cbn; lia|].
  vm_compute. discriminate.
Qed.

(* ---------------------------------------------------------------- Thompson *)
Lemma thompson_scan_some : forall arms a best b, Forall (fun p => (2 <= fst p)%nat) arms ->
  thompson_scan arms a best (Some b) = fst (argmax_from best b a (map snd arms)).
Proof.
  induction arms as [|[cnt v] arms IH]; intros a best b H; [reflexivity|].
  inversion H as [|? ? Hc H']; subst. cbn [fst] in Hc. cbn [thompson_scan map snd argmax_from].
  destruct (Nat.ltb_spec cnt 2) as [Hlt|_]; [lia|].
  destruct (Qlt_le_dec b v); apply IH; exact H'.
Qed.

Lemma thompson_sample_argmax : forall arms, Forall (fun p => (2 <= fst p)%nat) arms ->
  thompson_sample arms = fst (argmax (map snd arms)).
Proof.
  intros [|[cnt v] arms] H; [reflexivity|].
  inversion H as [|? ? Hc H']; subst. cbn [fst] in Hc.
  unfold thompson_sample. cbn [thompson_scan map snd argmax].
  destruct (Nat.ltb_spec cnt 2) as [Hlt|_]; [lia|].
  apply thompson_scan_some. exact H'.
Qed.

Lemma thompson_argmax_lemma : forall arms, arms <> [] -> Forall (fun p => (2 <= fst p)%nat) arms ->
  (thompson_sample arms < length arms)%nat /\
  nthq (map snd arms) (thompson_sample arms) == maxl (map snd arms).
Proof.
  intros arms Hne H. rewrite (thompson_sample_argmax arms H).
  assert (Hne' : map snd arms <> []) by (destruct arms; [congruence| discriminate]).
  pose proof (argmax_spec (map snd arms) Hne') as S. destruct (argmax (map snd arms)) as [j m].
  destruct S as [Hj [Em En]]. cbn [fst]. rewrite map_length in Hj. split; [exact Hj|].
  unfold nthq. rewrite <- En. exact Em.
Qed.

Lemma thompson_scan_unexplored : forall pre c v post a best bv,
  Forall (fun p => (2 <= fst p)%nat) pre -> (c < 2)%nat ->
  thompson_scan (pre ++ (c, v) :: post) a best bv = (a + length pre)%nat.
Proof.
  induction pre as [|[cnt w] pre IH]; intros c v post a best bv H Hc.
  - cbn [app thompson_scan length]. destruct (Nat.ltb_spec c 2); [lia| lia].
  - inversion H as [|? ? Hcnt H']; subst. cbn [fst] in Hcnt. cbn [app thompson_scan length].
    destruct (Nat.ltb_spec cnt 2) as [Hlt|_]; [lia|].
    destruct bv as [b|]; [destruct (Qlt_le_dec b w)|]; rewrite IH by assumption; lia.
Qed.

Lemma thompson_unexplored_lemma : forall pre c v post,
  Forall (fun p => (2 <= fst p)%nat) pre -> (c < 2)%nat ->
  thompson_sample (pre ++ (c, v) :: post) = length pre.
Proof. intros. unfold thompson_sample. rewrite thompson_scan_unexplored by assumption. reflexivity. Qed.

(* the code as it is: with all-negative samples arm 0 is returned whatever the samples are *)
Lemma thompson_asis_refuted_lemma :
  exists arms, Forall (fun p => (2 <= fst p)%nat) arms /\
    ~ nthq (map snd arms) (thompson_sample_asis arms) == maxl (map snd arms).
Proof.
  exists [(5%nat, -5); (5%nat, -1); (5%nat, -3)]. split; [repeat constructor; cbn; lia|].
  vm_compute. discriminate.
Qed.

(* ---------------------------------------------------------------- closed forms for Properties_C09 *)
Lemma softmax_dist_thm : forall ex, exp_like ex -> forall T q, q <> [] ->
  (eqSmall T 0 = true -> separated q) ->
  length (softmax_policy ex T q) = length q /\ is_dist (softmax_policy ex T q).
Proof. intros ex [H1 [H2 H3]]. eapply softmax_dist_lemma; eassumption. Qed.

Lemma softmax_table_eq_query_thm : forall ex, exp_like ex -> forall T q, q <> [] ->
  (eqSmall T 0 = true -> separated q) -> agrees (softmax_policy ex T q) (softmax_prob ex T q).
Proof. intros ex [H1 [H2 H3]]. eapply softmax_table_eq_query_lemma; eassumption. Qed.

Lemma softmax_shift_thm : forall ex, exp_like ex -> forall c T q, q <> [] ->
  (eqSmall T 0 = true -> separated q /\ separated (shift c q)) ->
  veq (softmax_policy ex T (shift c q)) (softmax_policy ex T q).
Proof. intros ex [H1 [H2 H3]]. eapply softmax_shift_lemma; eassumption. Qed.

Lemma softmax_sample_in_support_thm : forall ex, exp_like ex -> forall T q sel u, q <> [] ->
  (eqSmall T 0 = true -> separated q /\ (sel < length (greedy_tieset q))%nat) -> 0 <= u -> u < 1 ->
  in_support (softmax_policy ex T q) (softmax_sample ex T q sel u).
Proof. intros ex [H1 [H2 H3]]. eapply softmax_sample_in_support_lemma; eassumption. Qed.

Lemma softmax_asis_refuted_thm :
  exists (ex : Q -> Q) T q a, exp_like ex /\ eqSmall T 0 = false /\ (a < length q)%nat /\
    ~ nthq (asis_policy ex T q) a == asis_prob ex T q a.
Proof.
  destruct softmax_asis_table_eq_query_refuted_lemma as [ex [T [q [a [H1 [H2 [H3 [H4 [H5 H6]]]]]]]]].
  exists ex, T, q, a. repeat split; assumption.
Qed.

Lemma ex_step_exp_like : exp_like ex_step.
Proof. exact ex_step_ok. Qed.

(* ---------------------------------------------------------------- TopTwo *)
Lemma first_other_spec : forall first stream r, first_other first stream = Some r -> In r stream /\ r <> first.
Proof.
  induction stream as [|x t IH]; intros r H; cbn [first_other] in H; [discriminate|].
  destruct (Nat.eqb_spec x first) as [->|Hne].
  - destruct (IH r H). split; [right; assumption| assumption].
  - inversion H; subst. split; [left; reflexivity| exact Hne].
Qed.

Lemma toptwo_result_lemma : forall counts first pick stream r,
  toptwo_sample counts first pick stream = Some r ->
  r = first \/ (In r stream /\ r <> first /\ pick = false /\ (2 <= nth first counts 0)%nat).
Proof.
  intros counts first pick stream r H. unfold toptwo_sample in H.
  destruct (Nat.ltb_spec (nth first counts 0%nat) 2) as [Hlt|Hge]; [inversion H; left; reflexivity|].
  destruct pick; [inversion H; left; reflexivity|].
  destruct (first_other_spec _ _ _ H). right. repeat split; assumption.
Qed.
