(* C09/ModelRandom.v — Bandit::RandomPolicy, MDP::BanditPolicyAdaptor<BP> and
   MDP::RandomPolicy = BanditPolicyAdaptor<Bandit::RandomPolicy> (round 6; model only, no proofs).
   The draw of the std::uniform_int_distribution is an explicit input. *)
From Coq Require Import List Arith ZArith QArith.
From AIT Require Import Base.Qx C09.Spec.
Import ListNotations.
Local Open Scope Q_scope.

(* src: src/Bandit/Policies/RandomPolicy.cpp:RandomPolicy::RandomPolicy
   randomDistribution_(0, this->A-1): the closed range of the uniform integer draw *)
Definition rnd_bounds (A : nat) : nat * nat := (O, (A - 1)%nat).

(* src: src/Bandit/Policies/RandomPolicy.cpp:RandomPolicy::sampleAction
   return randomDistribution_(rand_);  [draw] is what the distribution returned *)
Definition rnd_sample (A : nat) (draw : nat) : nat := draw.

(* src: src/Bandit/Policies/RandomPolicy.cpp:RandomPolicy::getActionProbability
   return 1.0/getA();  (the action argument is ignored) *)
Definition rnd_prob (A : nat) (a : nat) : Q := 1 / qnat A.

(* src: src/Bandit/Policies/RandomPolicy.cpp:RandomPolicy::getPolicy
   Vector p(getA()); p.fill(1.0/getA()); *)
Definition rnd_policy (A : nat) : vec := repeat (1 / qnat A) A.

(* src: include/AIToolbox/MDP/Policies/BanditPolicyAdaptor.hpp:BanditPolicyAdaptor::sampleAction
   return policy_.sampleAction();  (state ignored) *)
Definition adapt_sample (bsample : nat) (s : nat) : nat := bsample.

(* src: include/AIToolbox/MDP/Policies/BanditPolicyAdaptor.hpp:BanditPolicyAdaptor::getActionProbability
   return policy_.getActionProbability(a); *)
Definition adapt_prob (bprob : nat -> Q) (s a : nat) : Q := bprob a.

(* src: include/AIToolbox/MDP/Policies/BanditPolicyAdaptor.hpp:BanditPolicyAdaptor::getPolicy
   return policy_.getPolicy().transpose().replicate(getS(), 1);  S copies of the bandit row *)
Definition adapt_policy (S : nat) (bpol : vec) : mat := repeat bpol S.

(* src: include/AIToolbox/MDP/Policies/RandomPolicy.hpp: using RandomPolicy = BanditPolicyAdaptor<Bandit::RandomPolicy> *)
Definition mrnd_sample (S A s draw : nat) : nat := adapt_sample (rnd_sample A draw) s.
Definition mrnd_prob (S A s a : nat) : Q := adapt_prob (rnd_prob A) s a.
Definition mrnd_policy (S A : nat) : mat := adapt_policy S (rnd_policy A).
