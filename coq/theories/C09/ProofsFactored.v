(* C09/ProofsFactored.v — Factored::Bandit::RandomPolicy / SingleActionPolicy sum to one over the
   joint action space. *)
From Coq Require Import List Arith ZArith QArith Bool Lia Lqa.
From AIT Require Import Base.Qx C09.Spec C09.ModelFactored C09.SpecFactored C09.ProofsGreedy C09.ProofsRandom.
Import ListNotations.
Local Open Scope Q_scope.

Fixpoint prodn (A : list nat) : nat := match A with [] => 1%nat | n :: t => (n * prodn t)%nat end.

Lemma fs_from_prod : forall A acc, fs_from acc A = (acc * prodn A)%nat.
Proof. induction A as [|n t IH]; intros acc; cbn [fs_from prodn]; [lia| rewrite IH; lia]. Qed.

Lemma factor_space_prod : forall A, factor_space A = prodn A.
Proof. intros A. unfold factor_space. rewrite fs_from_prod. lia. Qed.

Lemma prodn_pos : forall A, Forall (fun n => (1 <= n)%nat) A -> (1 <= prodn A)%nat.
Proof. intros A H. induction H as [|n t Hn _ IH]; cbn [prodn]; [lia| nia]. Qed.

Lemma length_flat_map_const : forall (T U : Type) (g : T -> list U) k l,
  (forall x, length (g x) = k) -> length (flat_map g l) = (length l * k)%nat.
Proof.
  intros T U g k l Hg. induction l as [|x l IH]; cbn [flat_map length]; [reflexivity|].
  rewrite app_length, Hg, IH. lia.
Qed.

Lemma joint_length : forall A, length (joint A) = prodn A.
Proof.
  induction A as [|n t IH]; cbn [joint prodn]; [reflexivity|].
  rewrite (length_flat_map_const _ _ _ (prodn t)).
  - rewrite seq_length. reflexivity.
  - intros x. rewrite map_length. exact IH.
Qed.

Lemma qsum_map_const : forall (T : Type) (c : Q) (l : list T), qsum (map (fun _ => c) l) == qnat (length l) * c.
Proof.
  intros T c l. induction l as [|x l IH]; cbn [map qsum length].
  - change (qnat 0) with 0. lra.
  - rewrite IH, qnat_S. lra.
Qed.

Lemma in_space_joint : forall A a, in_space A a -> In a (joint A).
Proof.
  intros A a H. unfold in_space in H. induction H as [|x n a t Hx _ IH]; cbn [joint]; [left; reflexivity|].
  apply in_flat_map. exists x. split; [apply in_seq; lia| apply in_map; exact IH].
Qed.

Lemma joint_in_space : forall A a, In a (joint A) -> in_space A a.
Proof.
  induction A as [|n t IH]; intros a H; cbn [joint] in H.
  - destruct H as [E|[]]. subst a. constructor.
  - apply in_flat_map in H. destruct H as (x & Hx & Ha). apply in_map_iff in Ha.
    destruct Ha as (a' & E & Ha'). subst a. apply in_seq in Hx. constructor; [lia| apply IH; exact Ha'].
Qed.

(* ---------------------------------------------------------------- Factored::Bandit::RandomPolicy *)
Lemma factored_random_dist_lemma : forall A, Forall (fun n => (1 <= n)%nat) A ->
  (forall a, 0 < frnd_prob A a) /\ qsum (map (frnd_prob A) (joint A)) == 1.
Proof.
  intros A HA. pose proof (prodn_pos A HA) as Hp.
  assert (Hq : 0 < qnat (factor_space A)) by (rewrite factor_space_prod; apply qnat_pos; lia).
  split.
  - intros a. unfold frnd_prob. apply inv_qnat_pos. rewrite factor_space_prod. exact Hp.
  - unfold frnd_prob. rewrite qsum_map_const, joint_length, <- factor_space_prod. field. lra.
Qed.

Lemma frnd_bounds_lt : forall A draws,
  Forall2 (fun b d => (fst b <= d <= snd b)%nat) (frnd_bounds A) draws ->
  Forall (fun n => (1 <= n)%nat) A -> Forall2 lt draws A.
Proof.
  induction A as [|n t IH]; intros draws H HA; cbn [frnd_bounds map] in H; inversion H; subst; [constructor|].
  inversion HA; subst. cbn [fst snd] in *. constructor; [lia| apply IH; assumption].
Qed.

Lemma Forall2_len : forall (T U : Type) (R : T -> U -> Prop) l m, Forall2 R l m -> length l = length m.
Proof. intros T U R l m H. induction H; cbn [length]; [reflexivity| f_equal; assumption]. Qed.

Lemma factored_random_sample_lemma : forall A draws, Forall (fun n => (1 <= n)%nat) A ->
  Forall2 (fun b d => (fst b <= d <= snd b)%nat) (frnd_bounds A) draws ->
  in_space A (frnd_sample A draws) /\ In (frnd_sample A draws) (joint A) /\
  0 < frnd_prob A (frnd_sample A draws).
Proof.
  intros A draws HA Hb. pose proof (frnd_bounds_lt A draws Hb HA) as Hlt.
  assert (E : frnd_sample A draws = draws).
  { unfold frnd_sample. rewrite <- (Forall2_len _ _ _ _ _ Hlt). apply firstn_all. }
  rewrite E. split; [exact Hlt|]. split; [apply in_space_joint; exact Hlt|].
  apply (proj1 (factored_random_dist_lemma A HA)).
Qed.

(* ---------------------------------------------------------------- Factored::Bandit::SingleActionPolicy *)
Lemma qsum_map_flat_map : forall (T U : Type) (f : U -> Q) (g : T -> list U) l,
  qsum (map f (flat_map g l)) == qsum (map (fun x => qsum (map f (g x))) l).
Proof.
  intros T U f g l. induction l as [|x l IH]; cbn [flat_map map qsum]; [lra|].
  rewrite map_app, qsum_app, IH. lra.
Qed.

Lemma qsum_indicator_seq : forall c n s,
  qsum (map (fun x => if Nat.eqb x c then 1 else 0) (seq s n)) ==
  if (Nat.leb s c && Nat.ltb c (s + n))%bool then 1 else 0.
Proof.
  intros c n. induction n as [|n IH]; intros s; cbn [seq map qsum].
  - destruct (Nat.leb_spec s c), (Nat.ltb_spec c (s + 0)); cbn [andb]; try lra; lia.
  - rewrite IH. destruct (Nat.eqb_spec s c) as [E|E];
      destruct (Nat.leb_spec (S s) c), (Nat.ltb_spec c (S s + n)), (Nat.leb_spec s c), (Nat.ltb_spec c (s + S n));
      cbn [andb]; try lra; lia.
Qed.

Lemma sa_sum_lemma : forall A cur, in_space A cur -> qsum (map (sa_prob cur) (joint A)) == 1.
Proof.
  intros A cur H. unfold in_space in H. induction H as [|c n ct t Hc _ IH]; cbn [joint].
  - cbn [map qsum]. unfold sa_prob. cbn [veceq]. lra.
  - rewrite qsum_map_flat_map.
    rewrite (qsum_map_ext _ _ (fun x => if Nat.eqb x c then 1 else 0)).
    + rewrite qsum_indicator_seq. destruct (Nat.leb_spec 0 c), (Nat.ltb_spec c (0 + n)); cbn [andb]; try lra; lia.
    + intros x _. rewrite map_map. destruct (Nat.eqb_spec x c) as [E|E].
      * rewrite <- IH. apply qsum_map_ext. intros a _. unfold sa_prob. cbn [veceq].
        destruct (Nat.eqb_spec x c); [cbn [andb]; reflexivity| contradiction].
      * rewrite (qsum_map_ext _ _ (fun _ => 0)).
        -- rewrite qsum_map_const. lra.
        -- intros a _. unfold sa_prob. cbn [veceq]. destruct (Nat.eqb_spec x c); [contradiction| cbn [andb]; reflexivity].
Qed.

Lemma veceq_refl : forall a, veceq a a = true.
Proof. induction a as [|x a IH]; cbn [veceq]; [reflexivity| rewrite Nat.eqb_refl, IH; reflexivity]. Qed.

Lemma sa_init_in_space : forall A, Forall (fun n => (1 <= n)%nat) A -> in_space A (sa_init A).
Proof.
  intros A H. unfold in_space, sa_init. induction H as [|n t Hn _ IH]; cbn [length repeat]; constructor; [lia| exact IH].
Qed.

Lemma single_action_dist_lemma : forall A cur, in_space A cur ->
  (forall a, sa_prob cur a == 0 \/ sa_prob cur a == 1) /\
  qsum (map (sa_prob cur) (joint A)) == 1 /\
  sa_prob cur (sa_sample cur) == 1 /\ In (sa_sample cur) (joint A).
Proof.
  intros A cur H. split; [|split; [|split]].
  - intros a. unfold sa_prob. destruct (veceq a cur); [right| left]; reflexivity.
  - apply sa_sum_lemma; exact H.
  - unfold sa_prob, sa_sample. rewrite veceq_refl. reflexivity.
  - apply in_space_joint; exact H.
Qed.
