(* C09/ProofsEsrl.v — ESRLPolicy: over every history of updates and setter calls the policy table is a
   probability vector, equals the per-action queries, and sampling stays in its support. *)
From Coq Require Import List Arith ZArith QArith Qminmax Lqa Lia Bool Permutation.
From AIT Require Import Base.Qx C09.Model C09.Spec C09.Machines
  C09.ProofsGreedy C09.ProofsMix C09.ProofsSoftmax C09.ProofsWolf C09.ProofsPga C09.ProofsMachines.
Import ListNotations.
Local Open Scope Q_scope.

(* ---------------------------------------------------------------- lists of indices *)
Lemma index_of_some : forall a l i, index_of a l = Some i -> (i < length l)%nat /\ nth i l 0%nat = a.
Proof.
  intros a. induction l as [|x l IH]; intros i H; cbn [index_of] in H; [discriminate|].
  destruct (Nat.eqb_spec x a) as [->|Hne].
  - inversion H; subst. cbn. split; [lia| reflexivity].
  - destruct (index_of a l) as [j|] eqn:E; cbn [option_map] in H; [| discriminate].
    inversion H; subst. destruct (IH j eq_refl). cbn [length nth]. split; [lia| assumption].
Qed.

Lemma index_of_nth : forall l k, NoDup l -> (k < length l)%nat -> index_of (nth k l 0%nat) l = Some k.
Proof.
  induction l as [|x l IH]; intros k Hnd Hk; cbn [length] in Hk; [lia|].
  inversion Hnd as [|? ? Hnotin Hnd']; subst. destruct k; cbn [nth index_of].
  - rewrite Nat.eqb_refl. reflexivity.
  - destruct (Nat.eqb_spec x (nth k l 0%nat)) as [E|_].
    + exfalso. apply Hnotin. rewrite E. apply nth_In. lia.
    + rewrite IH by (assumption || lia). reflexivity.
Qed.

Lemma split_nth : forall (l : list nat) i, (i < length l)%nat ->
  l = firstn i l ++ nth i l 0%nat :: skipn (S i) l.
Proof.
  induction l as [|x l IH]; intros i H; cbn [length] in H; [lia|].
  destruct i; cbn [firstn nth skipn app]; [reflexivity|]. f_equal. apply IH. lia.
Qed.

Lemma swap_remove_perm : forall l i, (i < length l)%nat ->
  Permutation l (nth i l 0%nat :: swap_remove i l).
Proof.
  intros l i Hi. assert (Hne : l <> []) by (intros ->; cbn in Hi; lia).
  pose proof (app_removelast_last 0%nat Hne) as E. unfold swap_remove.
  set (l' := removelast l) in *. set (lst := last l 0%nat) in *.
  assert (Hl : length l = S (length l')) by (rewrite E at 1; rewrite app_length; cbn; lia).
  destruct (Nat.eqb_spec i (length l')) as [->|Hne'].
  - rewrite E at 1 2. rewrite app_nth2 by lia. rewrite Nat.sub_diag. cbn [nth].
    apply Permutation_sym. apply Permutation_cons_append.
  - assert (Hi' : (i < length l')%nat) by lia.
    assert (Es : l' = firstn i l' ++ nth i l' 0%nat :: skipn (S i) l') by (apply split_nth; exact Hi').
    assert (En : nth i l 0%nat = nth i l' 0%nat) by (rewrite E; apply app_nth1; exact Hi').
    rewrite En. rewrite E at 1. rewrite Es at 1.
    set (a := firstn i l'). set (b := skipn (S i) l'). set (x := nth i l' 0%nat).
    rewrite <- app_assoc. cbn [app].
    apply Permutation_trans with (x :: a ++ b ++ [lst]).
    + apply Permutation_sym. apply Permutation_middle.
    + constructor. apply Permutation_app_head. apply Permutation_sym. apply Permutation_cons_append.
Qed.

Lemma swap_remove_props : forall l i A, NoDup l -> Forall (fun x => (x < A)%nat) l -> (i < length l)%nat ->
  NoDup (swap_remove i l) /\ Forall (fun x => (x < A)%nat) (swap_remove i l) /\
  S (length (swap_remove i l)) = length l.
Proof.
  intros l i A Hnd Hall Hi. pose proof (swap_remove_perm l i Hi) as P.
  pose proof (Permutation_NoDup P Hnd) as Hnd'. inversion Hnd'; subst.
  split; [assumption|]. split.
  - apply Forall_forall. intros x Hx. apply (proj1 (Forall_forall _ _) Hall).
    apply (Permutation_in _ (Permutation_sym P)). right. exact Hx.
  - apply Permutation_length in P. cbn [length] in P. lia.
Qed.

(* ---------------------------------------------------------------- set_nth / scatter *)
Lemma nth_set_nth : forall (l : vec) i j y, (i < length l)%nat ->
  nth j (set_nth i y l) 0 = if Nat.eqb j i then y else nth j l 0.
Proof.
  induction l as [|x l IH]; intros i j y Hi; cbn [length] in Hi; [lia|].
  destruct i, j; cbn [set_nth nth Nat.eqb]; try reflexivity. apply IH. lia.
Qed.

Fixpoint lookup (j : nat) (pairs : list (nat * Q)) : option Q :=
  match pairs with
  | [] => None
  | (i, x) :: t => if Nat.eqb j i then Some x else lookup j t
  end.

Definition scat (pairs : list (nat * Q)) (v : vec) : vec :=
  fold_left (fun v ix => set_nth (fst ix) (snd ix) v) pairs v.

Lemma lookup_none : forall j pairs, ~ In j (map fst pairs) -> lookup j pairs = None.
Proof.
  intros j. induction pairs as [|[i x] t IH]; intros H; cbn [lookup]; [reflexivity|].
  cbn [map fst In] in H. destruct (Nat.eqb_spec j i) as [->|_]; [exfalso; apply H; left; reflexivity|].
  apply IH. intros C; apply H; right; exact C.
Qed.

Lemma scat_spec : forall pairs v, NoDup (map fst pairs) -> Forall (fun p => (fst p < length v)%nat) pairs ->
  length (scat pairs v) = length v /\
  forall j, nth j (scat pairs v) 0 = match lookup j pairs with Some x => x | None => nth j v 0 end.
Proof.
  induction pairs as [|[i x] t IH]; intros v Hnd Hr; cbn [scat fold_left lookup]; [split; [reflexivity| intros; reflexivity]|].
  cbn [map fst] in Hnd. inversion Hnd as [|? ? Hnotin Hnd']; subst. inversion Hr as [|? ? Hi Hr']; subst. cbn [fst snd] in *.
  fold (scat t (set_nth i x v)).
  destruct (IH (set_nth i x v) Hnd') as [Hl Hn].
  { rewrite set_nth_length. exact Hr'. }
  split; [rewrite Hl; apply set_nth_length|].
  intros j. rewrite Hn. destruct (Nat.eqb_spec j i) as [->|Hne].
  - rewrite (lookup_none i t Hnotin). rewrite nth_set_nth by exact Hi. rewrite Nat.eqb_refl. reflexivity.
  - destruct (lookup j t); [reflexivity|]. rewrite nth_set_nth by exact Hi.
    destruct (Nat.eqb_spec j i); [contradiction| reflexivity].
Qed.

Lemma scat_sum : forall pairs v, NoDup (map fst pairs) -> Forall (fun p => (fst p < length v)%nat) pairs ->
  (forall i, In i (map fst pairs) -> nth i v 0 == 0) ->
  qsum (scat pairs v) == qsum v + qsum (map snd pairs).
Proof.
  induction pairs as [|[i x] t IH]; intros v Hnd Hr Hz; cbn [scat fold_left map snd qsum]; [lra|].
  cbn [map fst] in Hnd. inversion Hnd as [|? ? Hnotin Hnd']; subst. inversion Hr as [|? ? Hi Hr']; subst. cbn [fst snd] in *.
  fold (scat t (set_nth i x v)). rewrite IH.
  - rewrite qsum_set_nth by exact Hi. rewrite (Hz i (or_introl eq_refl)). lra.
  - exact Hnd'.
  - rewrite set_nth_length. exact Hr'.
  - intros k Hk. rewrite nth_set_nth by exact Hi. destruct (Nat.eqb_spec k i) as [->|_]; [contradiction|].
    apply Hz. right. exact Hk.
Qed.

Lemma scat_nonneg : forall pairs v, nonneg v -> Forall (fun p => 0 <= snd p) pairs -> nonneg (scat pairs v).
Proof.
  induction pairs as [|[i x] t IH]; intros v N H; cbn [scat fold_left]; [exact N|].
  inversion H; subst. fold (scat t (set_nth i x v)). apply IH; [apply set_nth_nonneg; assumption| assumption].
Qed.

Lemma map_fst_combine : forall (l : list nat) (v : vec), length l = length v -> map fst (combine l v) = l.
Proof. induction l as [|x l IH]; intros [|y v] H; cbn in *; try lia; [reflexivity|]. rewrite IH by lia. reflexivity. Qed.

Lemma map_snd_combine : forall (l : list nat) (v : vec), length l = length v -> map snd (combine l v) = v.
Proof. induction l as [|x l IH]; intros [|y v] H; cbn in *; try lia; [reflexivity|]. rewrite IH by lia. reflexivity. Qed.

Lemma lookup_combine : forall a (l : list nat) (v : vec), length l = length v ->
  lookup a (combine l v) = option_map (fun i => nth i v 0) (index_of a l).
Proof.
  intros a. induction l as [|x l IH]; intros [|y v] H; cbn in H; try lia; cbn [combine lookup index_of option_map]; [reflexivity|].
  rewrite (Nat.eqb_sym a x). destruct (Nat.eqb x a); [reflexivity|].
  rewrite IH by lia. destruct (index_of a l); reflexivity.
Qed.

Lemma nth_repeat0 : forall A j, nth j (repeat 0 A) 0 = 0.
Proof. induction A; intros [|j]; cbn; try reflexivity. apply IHA. Qed.

Lemma nonneg_repeat0 : forall A, nonneg (repeat 0 A).
Proof. intros A. unfold nonneg. apply Forall_forall. intros x Hx. apply repeat_spec in Hx. subst. lra. Qed.

(* the scattered table: a distribution that agrees with the lookup *)
Lemma scatter_props : forall A idx vals, NoDup idx -> Forall (fun x => (x < A)%nat) idx ->
  length idx = length vals -> is_dist vals ->
  length (scatter A idx vals) = A /\ is_dist (scatter A idx vals) /\
  forall a, nth a (scatter A idx vals) 0 =
            match index_of a idx with Some i => nth i vals 0 | None => 0 end.
Proof.
  intros A idx vals Hnd Hr Hlen [N Su]. unfold scatter. fold (scat (combine idx vals) (repeat 0 A)).
  assert (Hnd' : NoDup (map fst (combine idx vals))) by (rewrite map_fst_combine; assumption).
  assert (Hr' : Forall (fun p : nat * Q => (fst p < length (repeat 0%Q A))%nat) (combine idx vals)).
  { rewrite repeat_length. apply Forall_forall. intros [i x] Hin. cbn [fst].
    apply (proj1 (Forall_forall _ _) Hr). apply (in_combine_l _ _ _ _ Hin). }
  destruct (scat_spec _ _ Hnd' Hr') as [Hl Hn]. rewrite repeat_length in Hl.
  split; [exact Hl|]. split; [split|].
  - apply scat_nonneg; [apply nonneg_repeat0|]. apply Forall_forall. intros [i x] Hin. cbn [snd].
    apply (proj1 (Forall_forall _ _) N). apply (in_combine_r _ _ _ _ Hin).
  - rewrite scat_sum; [| assumption| assumption| intros; rewrite nth_repeat0; reflexivity].
    rewrite map_snd_combine by assumption. rewrite qsum_repeat0, Su. lra.
  - intros a. rewrite Hn, lookup_combine by assumption.
    destruct (index_of a idx); cbn [option_map]; [reflexivity| apply nth_repeat0].
Qed.

Lemma indicator_props : forall A best, (best < A)%nat ->
  length (indicator A best) = A /\ is_dist (indicator A best) /\
  forall a, nth a (indicator A best) 0 = if Nat.eqb a best then 1 else 0.
Proof.
  intros A best Hb. unfold indicator. split; [rewrite set_nth_length; apply repeat_length|]. split; [split|].
  - apply set_nth_nonneg; [apply nonneg_repeat0| lra].
  - rewrite qsum_set_nth by (rewrite repeat_length; exact Hb). rewrite qsum_repeat0, nth_repeat0. lra.
  - intros a. rewrite nth_set_nth by (rewrite repeat_length; exact Hb). rewrite nth_repeat0. reflexivity.
Qed.

(* ---------------------------------------------------------------- the invariant *)
Definition esrl_inv (st : esrl) : Prop :=
  (1 <= e_A st)%nat /\ length (e_values st) = e_A st /\
  NoDup (e_allowed st) /\ Forall (fun x => (x < e_A st)%nat) (e_allowed st) /\ e_allowed st <> [] /\
  lrp_inv2 (length (e_allowed st)) (e_lri st) /\
  (e_exploit st = true -> (e_best st < e_A st)%nat).

Lemma argmax_bound : forall l, l <> [] -> (fst (argmax l) < length l)%nat.
Proof. intros l H. pose proof (argmax_spec l H) as S. destruct (argmax l) as [j m]. cbn [fst]. apply S. Qed.

Lemma lrp_init_b0_inv2 : forall n a, (1 <= n)%nat -> 0 <= a -> a <= 1 -> lrp_inv2 n (lrp_init n a 0).
Proof. intros n a Hn H0 H1. apply lrp_init_inv2; [exact Hn| exact H0| exact H1| lra| lra| intros; reflexivity]. Qed.

Lemma seq_lt : forall A, Forall (fun x => (x < A)%nat) (seq 0 A).
Proof. intros A. apply Forall_forall. intros x Hx. apply in_seq in Hx. lia. Qed.

Lemma esrl_init_inv : forall A a N phases window, (1 <= A)%nat -> 0 <= a -> a <= 1 ->
  esrl_inv (esrl_init A a N phases window).
Proof.
  intros A a N phases window HA Ha0 Ha1. unfold esrl_inv, esrl_init.
  cbn [e_A e_values e_allowed e_lri e_exploit e_best]. rewrite seq_length.
  split; [exact HA|]. split; [apply repeat_length|]. split; [apply seq_NoDup|]. split; [apply seq_lt|].
  split; [destruct A; [lia| discriminate]|].
  split; [apply lrp_init_b0_inv2; assumption| discriminate].
Qed.

Lemma esrl_update_inv : forall st a res, esrl_inv st -> esrl_inv (esrl_update st a res).
Proof.
  intros st a res Inv. pose proof Inv as [HA [Hv [Hnd [Hr [Hne [Hl Hb]]]]]]. unfold esrl_update.
  destruct (Nat.ltb (e_expl st) (e_phases st)).
  - destruct (index_of a (e_allowed st)) as [i|] eqn:Ei; [| exact Inv].
    destruct (index_of_some _ _ _ Ei) as [Hi _].
    assert (Hn1 : (1 <= length (e_allowed st))%nat) by (destruct (e_allowed st); [congruence| cbn; lia]).
    pose proof (lrp_step_inv2 _ (e_lri st) i res Hn1 Hl Hi) as Hl'.
    cbv zeta. destruct (Nat.leb (e_N st) (S (e_t st))).
    + set (lri := lrp_step (e_lri st) (i, res)) in *.
      assert (Hpl : length (lrp_pol lri) = length (e_allowed st)) by apply Hl'.
      assert (Hconv : (fst (argmax (lrp_pol lri)) < length (e_allowed st))%nat).
      { rewrite <- Hpl. apply argmax_bound. intros E. rewrite E in Hpl. cbn in Hpl. lia. }
      assert (Ha : 0 <= lrp_a lri /\ lrp_a lri <= 1) by (split; apply Hl').
      unfold esrl_inv. cbn [e_A e_values e_allowed e_lri e_exploit e_best].
      split; [exact HA|]. split; [rewrite set_nth_length; exact Hv|].
      destruct (Nat.ltb_spec 1 (length (e_allowed st))) as [Hgt|Hle].
      * destruct (swap_remove_props _ _ (e_A st) Hnd Hr Hconv) as [P1 [P2 P3]].
        split; [exact P1|]. split; [exact P2|].
        split; [intros E; rewrite E in P3; cbn in P3; lia|].
        split; [apply lrp_init_b0_inv2; [lia| apply Ha| apply Ha]| exact Hb].
      * split; [apply seq_NoDup|]. split; [apply seq_lt|].
        split; [destruct (e_A st); [lia| discriminate]|].
        split; [rewrite seq_length; apply lrp_init_b0_inv2; [exact HA| apply Ha| apply Ha]| exact Hb].
    + unfold esrl_inv. cbn [e_A e_values e_allowed e_lri e_exploit e_best].
      split; [exact HA|]. split; [exact Hv|]. split; [exact Hnd|]. split; [exact Hr|]. split; [exact Hne|].
      split; [exact Hl'| exact Hb].
  - destruct (e_exploit st) eqn:Ee; [exact Inv|].
    unfold esrl_inv. cbn [e_A e_values e_allowed e_lri e_exploit e_best].
    split; [exact HA|]. split; [exact Hv|]. split; [exact Hnd|]. split; [exact Hr|]. split; [exact Hne|].
    split; [exact Hl|]. intros _. rewrite <- Hv. apply argmax_bound.
    intros E. rewrite E in Hv. cbn in Hv. lia.
Qed.

Lemma esrl_apply_inv : forall st op, esrl_inv st -> esrl_op_ok op -> esrl_inv (esrl_apply st op).
Proof.
  intros st [a res|a|n|n|n] Inv Hok; cbn [esrl_apply]; [apply esrl_update_inv; exact Inv| | exact Inv| exact Inv| exact Inv].
  destruct Inv as [HA [Hv [Hnd [Hr [Hne [Hl Hb]]]]]]. unfold esrl_inv.
  cbn [e_A e_values e_allowed e_lri e_exploit e_best].
  split; [exact HA|]. split; [exact Hv|]. split; [exact Hnd|]. split; [exact Hr|]. split; [exact Hne|].
  split; [| exact Hb].
  apply lrp_apply_inv2; [destruct (e_allowed st); [congruence| cbn; lia]| exact Hl| exact Hok].
Qed.

Lemma esrl_inv_policy : forall st, esrl_inv st ->
  length (esrl_policy st) = e_A st /\ is_dist (esrl_policy st) /\
  (forall a, nthq (esrl_policy st) a == esrl_prob st a) /\
  (forall u, 0 <= u -> u < 1 -> in_support (esrl_policy st) (esrl_sample st u)).
Proof.
  intros st [HA [Hv [Hnd [Hr [Hne [Hl Hb]]]]]]. unfold esrl_policy, esrl_prob, esrl_sample.
  destruct (e_exploit st).
  - specialize (Hb eq_refl). destruct (indicator_props _ _ Hb) as [L [D Hn]].
    split; [exact L|]. split; [exact D|]. split.
    + intros a. unfold nthq. rewrite Hn. reflexivity.
    + intros u _ _. unfold in_support, nthq. rewrite L, Hn, Nat.eqb_refl. split; [exact Hb| lra].
  - destruct Hl as [_ [_ [_ [_ [_ [_ [Hlen D]]]]]]].
    destruct (scatter_props (e_A st) _ _ Hnd Hr (eq_sym Hlen) D) as [L [Dd Hn]].
    split; [exact L|]. split; [exact Dd|]. split.
    + intros a. unfold nthq. rewrite Hn. destruct (index_of a (e_allowed st)); reflexivity.
    + intros u Hu0 Hu1.
      destruct (sample_prob_in_support_lemma _ u D Hu0 Hu1) as [Hk Hpos].
      set (k := sample_prob (lrp_pol (e_lri st)) u) in *. rewrite Hlen in Hk.
      unfold in_support, nthq. rewrite L, Hn, (index_of_nth _ k Hnd Hk). split.
      * apply (proj1 (Forall_forall _ _) Hr). apply nth_In. exact Hk.
      * exact Hpos.
Qed.

Lemma esrl_rows_dist_lemma : forall A a N phases window ops, (1 <= A)%nat -> 0 <= a -> a <= 1 ->
  Forall esrl_op_ok ops ->
  let st := esrl_exec A a N phases window ops in
  length (esrl_policy st) = A /\ is_dist (esrl_policy st) /\
  (forall x, nthq (esrl_policy st) x == esrl_prob st x) /\
  (forall u, 0 <= u -> u < 1 -> in_support (esrl_policy st) (esrl_sample st u)).
Proof.
  intros A a N phases window ops HA Ha0 Ha1 Hops. cbv zeta.
  assert (H : esrl_inv (esrl_exec A a N phases window ops) /\ e_A (esrl_exec A a N phases window ops) = A).
  { unfold esrl_exec.
    apply (fold_left_inv _ _ esrl_apply (fun st => esrl_inv st /\ e_A st = A) esrl_op_ok).
    - intros s op [Hs HAs] Hop. split; [apply esrl_apply_inv; assumption|].
      destruct op as [x res|x|n|n|n]; cbn [esrl_apply e_A]; try exact HAs.
      unfold esrl_update. destruct (Nat.ltb (e_expl s) (e_phases s)).
      + destruct (index_of x (e_allowed s)); [| exact HAs]. cbv zeta.
        destruct (Nat.leb (e_N s) (S (e_t s))); cbn [e_A]; exact HAs.
      + destruct (e_exploit s); cbn [e_A]; exact HAs.
    - split; [apply esrl_init_inv; assumption| reflexivity].
    - exact Hops. }
  destruct H as [Inv EA]. destruct (esrl_inv_policy _ Inv) as [L R]. rewrite EA in L. split; [exact L| exact R].
Qed.
