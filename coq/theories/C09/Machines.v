(* C09/Machines.v — the policies as state machines whose operations include every public setter
   (second model file; no proofs).  Each machine extends the update functions of Model.v with the
   parameter setters of the C++ class, so that histories may change parameters between updates. *)
From Coq Require Import List Arith ZArith QArith Qminmax Qround Bool.
From AIT Require Import Base.Qx C09.Model C09.Spec.
Import ListNotations.
Local Open Scope Q_scope.

(* ------------------------------------------------------------------ LRPPolicy *)
Inductive lrp_op : Type :=
| LUpd (act : nat) (res : bool)      (* stepUpdateP(act, res) *)
| LSetA (a : Q)                      (* setAParam(a) *)
| LSetB (b : Q).                     (* setBParam(b) *)

(* src: LRPPolicy.cpp:setAParam / setBParam — setBParam refreshes BOTH cached quantities,
   invB_ = 1 - b and divB_ = b / (A - 1), A = number of actions = policy_.size() *)
Definition lrp_apply (st : lrp) (op : lrp_op) : lrp :=
  match op with
  | LUpd act res => lrp_step st (act, res)
  | LSetA a => mkLrp a (lrp_invB st) (lrp_divB st) (lrp_pol st)
  | LSetB b => mkLrp (lrp_a st) (1 - b) (b / qn (length (lrp_pol st) - 1)) (lrp_pol st)
  end.
Definition lrp_exec (A : nat) (a b : Q) (ops : list lrp_op) : lrp := fold_left lrp_apply ops (lrp_init A a b).
(* src: LRPPolicy.cpp:getAParam / getBParam *)
Definition lrp_getA (st : lrp) : Q := lrp_a st.
Definition lrp_getB (st : lrp) : Q := 1 - lrp_invB st.

(* specification side: the parameters in force after a history, and the documented update rule
   (reward: p_act += a (1 - p_act), p_i -= a p_i;  penalty: p_act *= (1-b), p_i = b/(A-1) + (1-b) p_i) *)
Definition cur_a (a0 : Q) (ops : list lrp_op) : Q :=
  fold_left (fun a op => match op with LSetA x => x | _ => a end) ops a0.
Definition cur_b (b0 : Q) (ops : list lrp_op) : Q :=
  fold_left (fun b op => match op with LSetB x => x | _ => b end) ops b0.
Definition lrp_rule (a b : Q) (p : vec) (act : nat) (res : bool) : vec :=
  map (fun ix => let i := fst ix in let x := snd ix in
         if res then (if Nat.eqb i act then x + a * (1 - x) else x - a * x)
         else (if Nat.eqb i act then x * (1 - b) else b / qn (length p - 1) + (1 - b) * x))
      (combine (seq 0 (length p)) p).

(* ------------------------------------------------------------------ EpsilonPolicyInterface::setEpsilon *)
(* src: EpsilonPolicyInterface.hpp:setEpsilon — throws invalid_argument (value unchanged) outside [0,1] *)
Definition eps_set_throws (e : Q) : bool :=
  if Qlt_le_dec e 0 then true else if Qlt_le_dec 1 e then true else false.
Definition eps_set (cur e : Q) : Q := if eps_set_throws e then cur else e.

(* ------------------------------------------------------------------ QSoftmaxPolicy::setTemperature *)
(* src: Bandit/MDP QSoftmaxPolicy.cpp:setTemperature — throws invalid_argument (unchanged) when t < 0 *)
Definition temp_set_throws (t : Q) : bool := if Qlt_le_dec t 0 then true else false.
Definition temp_set (cur t : Q) : Q := if temp_set_throws t then cur else t.

(* ------------------------------------------------------------------ WoLFPolicy *)
Record wolf_st := mkWst { ws_dW : Q; ws_dL : Q; ws_sc : Q; ws_rows : list wolf_row }.
Inductive wolf_op : Type :=
| WUpd (s sel : nat)                 (* stepUpdateP(s); sel = tie-breaking draw *)
| WSetW (x : Q) | WSetL (x : Q) | WSetS (x : Q).   (* setDeltaW / setDeltaL / setScaling (unchecked) *)
Definition wolf_apply (qm : mat) (st : wolf_st) (op : wolf_op) : wolf_st :=
  match op with
  | WUpd s sel => mkWst (ws_dW st) (ws_dL st) (ws_sc st)
                    (wolf_step (ws_dW st) (ws_dL st) (ws_sc st) qm (ws_rows st) (s, sel))
  | WSetW x => mkWst x (ws_dL st) (ws_sc st) (ws_rows st)
  | WSetL x => mkWst (ws_dW st) x (ws_sc st) (ws_rows st)
  | WSetS x => mkWst (ws_dW st) (ws_dL st) x (ws_rows st)
  end.
Definition wolf_exec (dW dL sc : Q) (qm : mat) (A : nat) (ops : list wolf_op) : wolf_st :=
  fold_left (wolf_apply qm) ops (mkWst dW dL sc (repeat (wolf_init A) (length qm))).

(* ------------------------------------------------------------------ PGAAPPPolicy *)
(* the policy holds a REFERENCE to the Q-function (QPolicyInterface::q_): the table may change
   between updates, so it is part of the state and [PSetQ] is an operation *)
Record pga_st := mkPst { ps_lr : Q; ps_pl : Q; ps_q : mat; ps_rows : mat }.
Inductive pga_op : Type :=
| PUpd (s : nat)                     (* stepUpdateP(s) *)
| PSetLr (x : Q) | PSetPl (x : Q)    (* setLearningRate / setPredictionLength: throw when x < 0 *)
| PSetQ (s a : nat) (v : Q).         (* the owner of the Q-function writes q(s, a) = v *)
Definition neg_throws (x : Q) : bool := if Qlt_le_dec x 0 then true else false.
Definition pga_apply (st : pga_st) (op : pga_op) : pga_st :=
  match op with
  | PUpd s => mkPst (ps_lr st) (ps_pl st) (ps_q st) (pga_step (ps_lr st) (ps_pl st) (ps_q st) (ps_rows st) s)
  | PSetLr x => if neg_throws x then st else mkPst x (ps_pl st) (ps_q st) (ps_rows st)
  | PSetPl x => if neg_throws x then st else mkPst (ps_lr st) x (ps_q st) (ps_rows st)
  | PSetQ s a v => mkPst (ps_lr st) (ps_pl st) (upd_vrow s (set_nth a v) (ps_q st)) (ps_rows st)
  end.
Definition pga_exec (lr pl : Q) (qm : mat) (A : nat) (ops : list pga_op) : pga_st :=
  fold_left pga_apply ops (mkPst lr pl qm (repeat (repeat (1 / qn A) A) (length qm))).

(* ------------------------------------------------------------------ which operations are legal *)
(* LRP: arms in range; a, b in [0,1] (documented); with a single arm only b = 0 makes sense
   (b / (A-1) is a division by zero otherwise) *)
Definition lrp_op_ok (A : nat) (op : lrp_op) : Prop :=
  match op with
  | LUpd act _ => (act < A)%nat
  | LSetA a => 0 <= a /\ a <= 1
  | LSetB b => 0 <= b /\ b <= 1 /\ (A = 1%nat -> b == 0)
  end.
(* WoLF: the setters are unchecked in C++; the documented domain is deltas >= 0, scaling > 0 *)
Definition wolf_op_ok (op : wolf_op) : Prop :=
  match op with
  | WUpd _ _ => True
  | WSetW x => 0 <= x
  | WSetL x => 0 <= x
  | WSetS x => 0 < x
  end.

(* ------------------------------------------------------------------ ESRLPolicy *)
(* src: include/AIToolbox/Bandit/Policies/ESRLPolicy.hpp, src/Bandit/Policies/ESRLPolicy.cpp.
   lri_ is an LRPPolicy with b = 0 over the currently allowed actions. *)
Record esrl := mkEsrl {
  e_A : nat; e_exploit : bool; e_best : nat; e_t : nat; e_N : nat; e_expl : nat; e_phases : nat;
  e_avg : Q; e_window : nat; e_values : vec; e_allowed : list nat; e_lri : lrp }.

(* src: ESRLPolicy.cpp:ESRLPolicy(A, a, timesteps, explorationPhases, window) *)
Definition esrl_init (A : nat) (a : Q) (N phases window : nat) : esrl :=
  mkEsrl A false 0 0 N 0 phases 0 window (repeat 0 A) (seq 0 A) (lrp_init A a 0).

(* std::find + std::distance *)
Fixpoint index_of (a : nat) (l : list nat) : option nat :=
  match l with
  | [] => None
  | x :: t => if Nat.eqb x a then Some 0%nat else option_map S (index_of a t)
  end.

(* std::swap(allowed[i], allowed.back()); allowed.pop_back() *)
Definition swap_remove (i : nat) (l : list nat) : list nat :=
  let l' := removelast l in
  if Nat.eqb i (length l') then l' else firstn i l' ++ last l 0%nat :: skipn (S i) l'.

Inductive esrl_op : Type :=
| EUpd (a : nat) (res : bool)        (* stepUpdateP(a, res) *)
| ESetA (a : Q)                      (* setAParam *)
| ESetN (n : nat)                    (* setTimesteps *)
| ESetPhases (n : nat)               (* setExplorationPhases *)
| ESetWindow (n : nat).              (* setWindowSize *)

(* src: ESRLPolicy.cpp:stepUpdateP *)
Definition esrl_update (st : esrl) (a : nat) (res : bool) : esrl :=
  if Nat.ltb (e_expl st) (e_phases st) then
    match index_of a (e_allowed st) with
    | None => st
    | Some i =>
      let lri := lrp_step (e_lri st) (i, res) in
      let t := S (e_t st) in
      let avg := Qred ((qn (e_window st - 1) * e_avg st + (if res then 1 else 0)) / qn (e_window st)) in
      if Nat.leb (e_N st) t then
        let conv := fst (argmax (lrp_pol lri)) in            (* first maximal probability, strict > *)
        let convAction := nth conv (e_allowed st) 0%nat in
        let values := set_nth convAction (Qmax (nthq (e_values st) convAction) avg) (e_values st) in
        let allowed := if Nat.ltb 1 (length (e_allowed st)) then swap_remove conv (e_allowed st)
                       else seq 0 (e_A st) in
        mkEsrl (e_A st) (e_exploit st) (e_best st) 0 (e_N st) (S (e_expl st)) (e_phases st) 0 (e_window st)
               values allowed (lrp_init (length allowed) (lrp_a lri) 0)
      else
        mkEsrl (e_A st) (e_exploit st) (e_best st) t (e_N st) (e_expl st) (e_phases st) avg (e_window st)
               (e_values st) (e_allowed st) lri
    end
  else if e_exploit st then st
  else mkEsrl (e_A st) true (fst (argmax (e_values st))) (e_t st) (e_N st) (e_expl st) (e_phases st)
              (e_avg st) (e_window st) (e_values st) (e_allowed st) (e_lri st).

Definition esrl_apply (st : esrl) (op : esrl_op) : esrl :=
  match op with
  | EUpd a res => esrl_update st a res
  | ESetA a => mkEsrl (e_A st) (e_exploit st) (e_best st) (e_t st) (e_N st) (e_expl st) (e_phases st)
                      (e_avg st) (e_window st) (e_values st) (e_allowed st) (lrp_apply (e_lri st) (LSetA a))
  | ESetN n => mkEsrl (e_A st) (e_exploit st) (e_best st) (e_t st) n (e_expl st) (e_phases st)
                      (e_avg st) (e_window st) (e_values st) (e_allowed st) (e_lri st)
  | ESetPhases n => mkEsrl (e_A st) (e_exploit st) (e_best st) (e_t st) (e_N st) (e_expl st) n
                      (e_avg st) (e_window st) (e_values st) (e_allowed st) (e_lri st)
  | ESetWindow n => mkEsrl (e_A st) (e_exploit st) (e_best st) (e_t st) (e_N st) (e_expl st) (e_phases st)
                      (e_avg st) n (e_values st) (e_allowed st) (e_lri st)
  end.
Definition esrl_exec (A : nat) (a : Q) (N phases window : nat) (ops : list esrl_op) : esrl :=
  fold_left esrl_apply ops (esrl_init A a N phases window).

(* src: ESRLPolicy.cpp:getPolicy — retval.setZero(); retval[allowed[i]] = lri.getActionProbability(i) *)
Definition scatter (A : nat) (idx : list nat) (vals : vec) : vec :=
  fold_left (fun v ix => set_nth (fst ix) (snd ix) v) (combine idx vals) (repeat 0 A).
Definition indicator (A best : nat) : vec := set_nth best 1 (repeat 0 A).
Definition esrl_policy (st : esrl) : vec :=
  if e_exploit st then indicator (e_A st) (e_best st)
  else scatter (e_A st) (e_allowed st) (lrp_pol (e_lri st)).
(* src: ESRLPolicy.cpp:getActionProbability *)
Definition esrl_prob (st : esrl) (a : nat) : Q :=
  if e_exploit st then (if Nat.eqb a (e_best st) then 1 else 0)
  else match index_of a (e_allowed st) with
       | None => 0
       | Some i => nthq (lrp_pol (e_lri st)) i
       end.
(* src: ESRLPolicy.cpp:sampleAction — [u] is the draw of lri_.sampleAction() *)
Definition esrl_sample (st : esrl) (u : Q) : nat :=
  if e_exploit st then e_best st else nth (sample_prob (lrp_pol (e_lri st)) u) (e_allowed st) 0%nat.

Definition esrl_op_ok (op : esrl_op) : Prop :=
  match op with ESetA a => 0 <= a /\ a <= 1 | _ => True end.

(* ------------------------------------------------------------------ SuccessiveRejectsPolicy *)
(* src: include/AIToolbox/Bandit/Policies/SuccessiveRejectsPolicy.hpp, src/.../SuccessiveRejectsPolicy.cpp *)
Record sr := mkSr {
  sr_A : nat; sr_budget : nat; sr_phase : nat; sr_id : nat; sr_pulls : nat;
  sr_old : nat; sr_new : nat; sr_avail : list nat }.

(* logBarK_ = 1/2 + sum_{i=2..A} 1/i *)
Fixpoint harmonic_from2 (n : nat) : Q :=       (* sum_{i=2..n+1} 1/i *)
  match n with O => 0 | S m => harmonic_from2 m + 1 / qn (S (S m)) end.
Definition logbar (A : nat) : Q := (1 # 2) + harmonic_from2 (A - 1).

(* src: updateNks — n_k = ceil( (budget - A) / (logBarK * (A + 1 - k)) )  (documented schedule) *)
Definition sr_nk (A budget k : nat) : nat :=
  Z.to_nat (Qceiling (qn (budget - A) / (logbar A * qn (A + 1 - k)))).

(* src: SuccessiveRejectsPolicy(exp, budget) *)
Definition sr_init (A budget : nat) : sr := mkSr A budget 1 0 0 0 (sr_nk A budget 1) (seq 0 A).

(* first arm of [avail] with minimal mean (strict < update); returns its position in [avail] *)
Fixpoint min_pos_go (means : vec) (l : list nat) (i best : nat) (bv : Q) : nat :=
  match l with
  | [] => best
  | a :: t => if Qlt_le_dec (nthq means a) bv then min_pos_go means t (S i) i (nthq means a)
              else min_pos_go means t (S i) best bv
  end.
Definition min_pos (means : vec) (l : list nat) : nat :=
  match l with [] => 0%nat | a :: t => min_pos_go means t 1 0 (nthq means a) end.

(* src: stepUpdateQ — [means] = exp_.getRewardMatrix() at the time of the call *)
Definition sr_step (st : sr) (means : vec) : sr :=
  let pulls := S (sr_pulls st) in
  if Nat.ltb pulls (sr_new st - sr_old st)
  then mkSr (sr_A st) (sr_budget st) (sr_phase st) (sr_id st) pulls (sr_old st) (sr_new st) (sr_avail st)
  else
    let id := S (sr_id st) in
    if Nat.ltb id (length (sr_avail st))
    then mkSr (sr_A st) (sr_budget st) (sr_phase st) id 0 (sr_old st) (sr_new st) (sr_avail st)
    else
      let phase := S (sr_phase st) in
      if Nat.ltb (sr_A st) phase
      then mkSr (sr_A st) (sr_budget st) phase 0 0 (sr_old st) (sr_new st) (sr_avail st)
      else mkSr (sr_A st) (sr_budget st) phase 0 0 (sr_new st) (sr_nk (sr_A st) (sr_budget st) phase)
                (swap_remove (min_pos means (sr_avail st)) (sr_avail st)).

Definition sr_run (A budget : nat) (hist : list vec) : sr := fold_left sr_step hist (sr_init A budget).

(* src: sampleAction / getActionProbability / getPolicy *)
Definition sr_sample (st : sr) : nat := nth (sr_id st) (sr_avail st) 0%nat.
Definition sr_policy (st : sr) : vec := indicator (sr_A st) (sr_sample st).
Definition sr_prob (st : sr) (a : nat) : Q := if Nat.eqb a (sr_sample st) then 1 else 0.

(* ------------------------------------------------------------------ T3CPolicy (deterministic part) *)
(* src: T3CPolicy.cpp:sampleAction — cost of challenger [a] against [best]:
   0 if means[a] >= means[best], else (m_best - m_a)^2 / (2 var (1/n_best + 1/n_a)) *)
Definition t3c_cost (means : vec) (counts : list nat) (var : Q) (best a : nat) : Q :=
  if Qle_bool (nthq means best) (nthq means a) then 0
  else (nthq means best - nthq means a) * (nthq means best - nthq means a) /
       (2 * var * (1 / qn (nth best counts 0%nat) + 1 / qn (nth a counts 0%nat))).

(* the scan for the cheapest challenger: [lowest] = None models numeric_limits<double>::max();
   on an exact tie the k-th equal candidate replaces the incumbent when u < 1/k
   (std::bernoulli_distribution(1.0 / ++k), [us] = the uniform draws it consumes) *)
Fixpoint t3c_scan (costs : list (nat * Q)) (second : nat) (lowest : option Q) (k : nat) (us : list Q) : nat :=
  match costs with
  | [] => second
  | (a, w) :: t =>
    match lowest with
    | None => t3c_scan t a (Some w) 1 us
    | Some lo =>
      if Qlt_le_dec w lo then t3c_scan t a (Some w) 1 us
      else if Qeq_bool w lo then
        match us with
        | [] => second
        | u :: us' => if Qlt_le_dec u (1 / qn (S k)) then t3c_scan t a (Some w) (S k) us'
                      else t3c_scan t second lowest (S k) us'
        end
      else t3c_scan t second lowest k us
    end
  end.

Definition t3c_costs (means : vec) (counts : list nat) (var : Q) (best : nat) : list (nat * Q) :=
  map (fun a => (a, t3c_cost means counts var best a))
      (filter (fun a => negb (Nat.eqb a best)) (seq 0 (length means))).

(* [first] = policy_.sampleAction() (Thompson), [pick] = pickBest(rand_) *)
Definition t3c_sample (means : vec) (counts : list nat) (var : Q) (first : nat) (pick : bool) (us : list Q) : nat :=
  if Nat.ltb (nth first counts 0%nat) 2 then first
  else if pick then first
  else t3c_scan (t3c_costs means counts var first) 0 None 0 us.

(* ------------------------------------------------------------------ MDP::QSoftmaxPolicy (whole table) *)
(* src: MDP/Policies/QSoftmaxPolicy.cpp:getPolicy — one QSoftmaxPolicyWrapper per state row;
   getActionProbability(s, a) — the wrapper on row s *)
Section MSoftmax.
Variable ex : Q -> Q.
Definition msoftmax_policy (T : Q) (qm : mat) : mat := map (softmax_policy ex T) qm.
Definition msoftmax_prob (T : Q) (qm : mat) (s a : nat) : Q := softmax_prob ex T (row qm s) a.
End MSoftmax.
(* every state row moved by its own constant *)
Definition shift_rows (cs : vec) (qm : mat) : mat :=
  map (fun cq : Q * vec => shift (fst cq) (snd cq)) (combine cs qm).

(* ------------------------------------------------------------------ MDP::Policy(const PolicyMatrix &) *)
(* src: Utils/Probability.cpp:isProbability(const Matrix2D &) — every row: minCoeff() >= 0 and the row
   sum within equalToleranceSmall of one;  MDP/Policies/Policy.cpp:Policy(const PolicyMatrix & p)
   throws invalid_argument unless isProbability(p), otherwise stores p as its table *)
Definition prob_rowb (r : vec) : bool := nonnegb r && eqSmall (qsum r) 1.
Definition is_prob_matrixb (m : mat) : bool := forallb prob_rowb m.
Definition policy_ctor (m : mat) : option mat := if is_prob_matrixb m then Some m else None.
