(* C09/ProofsMix.v — EpsilonPolicyInterface mixture, sampleProbability, LRPPolicy invariant. *)
From Coq Require Import List Arith ZArith QArith Qminmax Lqa Lia Bool.
From AIT Require Import Base.Qx C09.Model C09.Spec C09.ProofsGreedy.
Import ListNotations.
Local Open Scope Q_scope.

(* ---------------------------------------------------------------- generic *)
Lemma dist_le1 : forall p x, is_dist p -> In x p -> 0 <= x /\ x <= 1.
Proof.
  intros p x [N Su] Hin. rewrite <- Su. clear Su.
  induction N as [|y p Hy N IH]; [destruct Hin|]. cbn [qsum].
  pose proof (qsum_nonneg p N). destruct Hin as [->|Hin]; [lra|].
  destruct (IH Hin). lra.
Qed.

Lemma qsum_map_affine : forall a b l, qsum (map (fun x => a * x + b) l) == a * qsum l + qnat (length l) * b.
Proof.
  intros a b l. induction l as [|x l IH]; cbn [map qsum length].
  - change (qnat 0) with 0. lra.
  - rewrite IH, qnat_S. lra.
Qed.

Lemma fold_left_inv : forall (A B : Type) (f : A -> B -> A) (Inv : A -> Prop) (okb : B -> Prop),
  (forall s b, Inv s -> okb b -> Inv (f s b)) ->
  forall ops s, Inv s -> Forall okb ops -> Inv (fold_left f ops s).
Proof.
  intros A B f Inv okb Hstep. induction ops as [|b ops IH]; intros s Hs Hok; cbn [fold_left]; [exact Hs|].
  inversion Hok; subst. apply IH; [apply Hstep; assumption| assumption].
Qed.

(* ---------------------------------------------------------------- epsilon *)
Lemma epsilon_mixture_lemma : forall eps pol, 0 <= eps -> eps <= 1 -> pol <> [] -> is_dist pol ->
  length (eps_policy eps pol) = length pol /\
  is_dist (eps_policy eps pol) /\
  agrees (eps_policy eps pol) (fun a => eps_prob eps (length pol) (nthq pol a)).
Proof.
  intros eps pol H0 H1 Hne [N Su].
  assert (Hk : 0 < qnat (length pol)) by (apply qnat_pos; destruct pol; [congruence| cbn; lia]).
  assert (Hd : 0 <= eps / qnat (length pol)).
  { apply Qle_shift_div_l; [exact Hk| lra]. }
  split; [apply map_length|]. split; [split|].
  - unfold eps_policy, nonneg. apply Forall_forall. intros y Hy. apply in_map_iff in Hy.
    destruct Hy as [x [<- Hx]]. rewrite qn_qnat.
    pose proof (proj1 (Forall_forall _ _) N x Hx) as Hx0. cbn beta in Hx0. nra.
  - unfold eps_policy. rewrite qn_qnat.
    rewrite (qsum_map_ext _ (fun p => p * (1 - eps) + eps / qnat (length pol))
                            (fun p => (1 - eps) * p + eps / qnat (length pol))) by (intros; lra).
    rewrite qsum_map_affine, Su. field. lra.
  - intros a Ha. unfold eps_policy in *. rewrite map_length in Ha. rewrite nthq_map by exact Ha.
    unfold eps_prob. rewrite !qn_qnat. field. lra.
Qed.

Lemma eps_sample_in_support_lemma : forall eps u pol r w,
  0 <= eps -> eps <= 1 -> 0 <= u -> u < 1 -> (0 < eps \/ 0 < u) -> is_dist pol ->
  (r < length pol)%nat -> in_support pol w ->
  in_support (eps_policy eps pol) (eps_sample eps u r w).
Proof.
  intros eps u pol r w He0 He1 Hu0 Hu1 Hpos D Hr [Hw Hpw].
  assert (Hk : 0 < qnat (length pol)) by (apply qnat_pos; lia).
  unfold eps_sample, in_support, eps_policy. rewrite map_length.
  destruct (Qle_bool u eps) eqn:E.
  - apply Qle_bool_iff in E. split; [exact Hr|]. rewrite nthq_map by exact Hr. rewrite qn_qnat.
    assert (He : 0 < eps) by (destruct Hpos; lra).
    destruct (dist_le1 pol _ D (nthq_in pol r Hr)) as [Hp0 _].
    assert (0 < eps / qnat (length pol)) by (apply Qlt_shift_div_l; [exact Hk| lra]).
    nra.
  - assert (Hlt : eps < u).
    { destruct (Qlt_le_dec eps u); [assumption|]. apply Qle_bool_iff in q. rewrite q in E. discriminate. }
    split; [exact Hw|]. rewrite nthq_map by exact Hw. rewrite qn_qnat.
    assert (0 <= eps / qnat (length pol)) by (apply Qle_shift_div_l; [exact Hk| lra]).
    nra.
Qed.

(* ---------------------------------------------------------------- sampleProbability *)
Lemma sample_prob_go_spec : forall l p i d, nonneg l -> 0 <= p -> p < qsum l ->
  (i <= sample_prob_go l p i d < i + length l)%nat /\ 0 < nth (sample_prob_go l p i d - i) l 0.
Proof.
  induction l as [|x l IH]; intros p i d N Hp Hlt; cbn [qsum] in Hlt; [lra|].
  inversion N as [|? ? Hx N']; subst. cbn [sample_prob_go length].
  destruct (Qlt_le_dec p x) as [Hpx|Hxp].
  - split; [lia|]. rewrite Nat.sub_diag. cbn [nth]. lra.
  - destruct (IH (p - x) (S i) d N') as [Hr Hv]; [lra| lra|]. split; [lia|].
    replace (sample_prob_go l (p - x) (S i) d - i)%nat with (S (sample_prob_go l (p - x) (S i) d - S i)) by lia.
    cbn [nth]. exact Hv.
Qed.

Lemma sample_prob_in_support_lemma : forall l p, is_dist l -> 0 <= p -> p < 1 -> in_support l (sample_prob l p).
Proof.
  intros l p [N Su] H0 H1. unfold sample_prob, in_support, nthq.
  destruct (sample_prob_go_spec l p 0 (length l) N H0) as [Hr Hv]; [lra|].
  rewrite Nat.sub_0_r in Hv. split; [lia| exact Hv].
Qed.

(* ---------------------------------------------------------------- LRP *)
Lemma mapi_from_length : forall l i f, length (mapi_from i f l) = length l.
Proof. induction l as [|x l IH]; intros; cbn [mapi_from length]; [reflexivity| rewrite IH; reflexivity]. Qed.

Lemma mapi_from_miss : forall l i act (f g : Q -> Q), (act < i)%nat ->
  mapi_from i (fun j x => if Nat.eqb j act then f x else g x) l = map g l.
Proof.
  induction l as [|x l IH]; intros i act f g H; cbn [mapi_from map]; [reflexivity|].
  rewrite IH by lia. destruct (Nat.eqb_spec i act); [lia| reflexivity].
Qed.

Lemma qsum_mapi_hit : forall l i act (f g : Q -> Q), (i <= act < i + length l)%nat ->
  qsum (mapi_from i (fun j x => if Nat.eqb j act then f x else g x) l) ==
  qsum (map g l) - g (nth (act - i) l 0) + f (nth (act - i) l 0).
Proof.
  induction l as [|x l IH]; intros i act f g H; cbn [length] in H; [lia|].
  cbn [mapi_from map qsum]. destruct (Nat.eqb_spec i act) as [->|Hne].
  - rewrite mapi_from_miss by lia. rewrite Nat.sub_diag. cbn [nth]. lra.
  - rewrite IH by lia. replace (act - i)%nat with (S (act - S i)) by lia. cbn [nth]. lra.
Qed.

Lemma Forall_mapi : forall (P : Q -> Prop) l i (F : nat -> Q -> Q),
  (forall j x, In x l -> P (F j x)) -> Forall P (mapi_from i F l).
Proof.
  intros P. induction l as [|x l IH]; intros i F H; cbn [mapi_from]; constructor.
  - apply H. left; reflexivity.
  - apply IH. intros j y Hy. apply H. right; exact Hy.
Qed.

Lemma qsum_map_lin : forall a l, qsum (map (fun x => x - a * x) l) == (1 - a) * qsum l.
Proof. intros a l. induction l as [|x l IH]; cbn [map qsum]; [lra| rewrite IH; lra]. Qed.

Lemma qsum_map_aff2 : forall d b l, qsum (map (fun x => d + b * x) l) == qnat (length l) * d + b * qsum l.
Proof.
  intros d b l. induction l as [|x l IH]; cbn [map qsum length].
  - change (qnat 0) with 0. lra.
  - rewrite IH, qnat_S. lra.
Qed.

Lemma qsum_repeat : forall x n, qsum (repeat x n) == qnat n * x.
Proof.
  intros x n. induction n as [|n IH]; cbn [repeat qsum].
  - change (qnat 0) with 0. lra.
  - rewrite IH, qnat_S. lra.
Qed.

Lemma qsum_map_red : forall (h : Q -> Q) l, qsum (map (fun x => Qred (h x)) l) == qsum (map h l).
Proof. intros h l. apply qsum_map_ext. intros x _. apply Qred_correct. Qed.

Definition lrp_inv (A : nat) (a b : Q) (st : lrp) : Prop :=
  lrp_a st == a /\ lrp_invB st == 1 - b /\ lrp_divB st * qnat (A - 1) == b /\
  length (lrp_pol st) = A /\ is_dist (lrp_pol st).

Lemma lrp_init_inv : forall A a b, (2 <= A)%nat -> lrp_inv A a b (lrp_init A a b).
Proof.
  intros A a b HA. unfold lrp_inv, lrp_init. cbn [lrp_a lrp_invB lrp_divB lrp_pol].
  assert (H1 : 0 < qnat (A - 1)) by (apply qnat_pos; lia).
  assert (H2 : 0 < qnat A) by (apply qnat_pos; lia).
  rewrite !qn_qnat.
  split; [reflexivity|]. split; [reflexivity|]. split; [field; lra|].
  split; [apply repeat_length|]. split.
  - unfold nonneg. apply Forall_forall. intros x Hx. apply repeat_spec in Hx. subst.
    apply Qlt_le_weak. apply Qlt_shift_div_l; [exact H2| lra].
  - rewrite qsum_repeat. change (qn A) with (qnat A). field. lra.
Qed.

Lemma lrp_step_inv : forall A a b st op, (2 <= A)%nat -> 0 <= a -> a <= 1 -> 0 <= b -> b <= 1 ->
  lrp_inv A a b st -> (fst op < A)%nat -> lrp_inv A a b (lrp_step st op).
Proof.
  intros A a b st [act result] HA Ha0 Ha1 Hb0 Hb1 [Ea [Ei [Ed [Hlen D]]]] Hact. cbn [fst] in Hact.
  unfold lrp_inv, lrp_step. cbn [lrp_a lrp_invB lrp_divB lrp_pol].
  split; [exact Ea|]. split; [exact Ei|]. split; [exact Ed|].
  assert (H1 : 0 < qnat (A - 1)) by (apply qnat_pos; lia).
  assert (Hd0 : 0 <= lrp_divB st) by nra.
  assert (HA1 : qnat A == qnat (A - 1) + 1).
  { replace A with (S (A - 1)) at 1 by lia. apply qnat_S. }
  destruct D as [N Su].
  assert (Hr : (0 <= act < 0 + length (lrp_pol st))%nat) by lia.
  destruct result.
  - split; [rewrite mapi_from_length; exact Hlen|]. split.
    + apply Forall_mapi. intros j x Hx. destruct (dist_le1 _ x (conj N Su) Hx).
      destruct (Nat.eqb j act); rewrite Qred_correct; nra.
    + rewrite (qsum_mapi_hit _ 0 act (fun x => Qred (x + lrp_a st * (1 - x))) (fun x => Qred (x - lrp_a st * x)) Hr).
      rewrite (qsum_map_red (fun x => x - lrp_a st * x)), !Qred_correct, qsum_map_lin, Su. lra.
  - split; [rewrite mapi_from_length; exact Hlen|]. split.
    + apply Forall_mapi. intros j x Hx. destruct (dist_le1 _ x (conj N Su) Hx).
      destruct (Nat.eqb j act); rewrite Qred_correct; nra.
    + rewrite (qsum_mapi_hit _ 0 act (fun x => Qred (x * lrp_invB st)) (fun x => Qred (lrp_divB st + lrp_invB st * x)) Hr).
      rewrite (qsum_map_red (fun x => lrp_divB st + lrp_invB st * x)), !Qred_correct, qsum_map_aff2, Su, Hlen, HA1. nra.
Qed.

Lemma lrp_simplex_invariant_lemma : forall A a b ops, (2 <= A)%nat -> 0 <= a -> a <= 1 -> 0 <= b -> b <= 1 ->
  Forall (fun op => (fst op < A)%nat) ops ->
  length (lrp_pol (lrp_run A a b ops)) = A /\ is_dist (lrp_pol (lrp_run A a b ops)).
Proof.
  intros A a b ops HA Ha0 Ha1 Hb0 Hb1 Hops.
  assert (H : lrp_inv A a b (lrp_run A a b ops)).
  { unfold lrp_run. apply (fold_left_inv lrp (nat * bool) lrp_step (lrp_inv A a b) (fun op => (fst op < A)%nat)).
    - intros s op Hs Hop. apply lrp_step_inv; assumption.
    - apply lrp_init_inv; exact HA.
    - exact Hops. }
  destruct H as [_ [_ [_ [Hl D]]]]. split; assumption.
Qed.
