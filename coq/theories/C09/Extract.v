From Coq Require Extraction.
From Coq Require Import ExtrOcamlBasic.
From AIT Require Import Base.Vio Base.Qx C09.Model C09.Spec.
Extraction "model.ml" vio_kit maxl is_distb veqb
  greedy_policy greedy_prob greedy_tieset greedy_sample
  eps_prob eps_policy eps_sample sample_prob lrp_init lrp_step lrp_pol
  softmax_policy softmax_prob softmax_sample thompson_sample toptwo_sample
  pga_grad_row pga_step_row possum project
  wolf_init wolf_step_row wolf_margin w_act
  separatedb shift is_dist_tolb closeb mass_on_maxb in_supportb.
