From Coq Require Extraction.
From Coq Require Import ExtrOcamlBasic.
From AIT Require Import Base.Vio Base.Qx C09.Model C09.Spec C09.Machines C09.ModelRandom C09.ModelFactored C09.SpecFactored.
Extraction "model.ml" vio_kit maxl is_distb veqb
  greedy_policy greedy_prob greedy_tieset greedy_sample
  eps_prob eps_policy eps_sample sample_prob lrp_init lrp_step lrp_pol
  softmax_policy softmax_prob softmax_sample thompson_sample toptwo_sample
  pga_grad_row pga_step_row possum project
  wolf_init wolf_step_row wolf_margin w_act
  lrp_apply lrp_getA lrp_getB eps_set eps_set_throws temp_set temp_set_throws
  wolf_apply wolf_exec ws_rows ws_dW ws_dL ws_sc pga_apply pga_exec ps_rows ps_lr ps_pl neg_throws
  esrl_init esrl_apply esrl_policy esrl_prob esrl_sample e_exploit e_lri e_expl e_phases e_t e_N e_allowed e_values index_of
  sr_init sr_step sr_sample sr_policy sr_prob sr_phase sr_new sr_avail logbar
  t3c_sample t3c_cost t3c_costs
  is_prob_matrixb prob_rowb policy_ctor
  rnd_bounds rnd_sample rnd_prob rnd_policy adapt_policy adapt_prob adapt_sample mrnd_sample mrnd_prob mrnd_policy
  factor_space frnd_bounds frnd_sample frnd_prob sa_init sa_update sa_sample sa_prob joint
  separatedb shift is_dist_tolb closeb mass_on_maxb in_supportb.
