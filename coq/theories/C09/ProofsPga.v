(* C09/ProofsPga.v — projectToProbability (repaired) always returns a vector isProbability accepts,
   hence every history of PGAAPPPolicy::stepUpdateP keeps every row a probability vector. *)
From Coq Require Import List Arith ZArith QArith Qminmax Lqa Lia Bool.
From AIT Require Import Base.Qx C09.Model C09.Spec C09.ProofsGreedy C09.ProofsMix C09.ProofsSoftmax C09.ProofsWolf.
Import ListNotations.
Local Open Scope Q_scope.

Lemma ppos_nonneg : forall x, 0 <= ppos x.
Proof. intros x. unfold ppos. destruct (Qlt_le_dec x 0); lra. Qed.

Lemma possum_nonneg : forall v, 0 <= possum v.
Proof.
  intros v. unfold possum. apply qsum_nonneg. unfold nonneg. apply Forall_forall.
  intros y Hy. apply in_map_iff in Hy. destruct Hy as [x [<- _]]. apply ppos_nonneg.
Qed.

Lemma possum_zero_of_count0 : forall v, poscount v = 0%nat -> possum v == 0.
Proof.
  induction v as [|x v IH]; intros H; unfold possum, poscount in *; cbn [map qsum filter] in *; [lra|].
  unfold ppos at 1. destruct (Qlt_le_dec x 0); cbn [length] in H; [| lia]. rewrite IH by exact H. lra.
Qed.

Lemma qsum_mask_mul : forall v, qsum (map (fun x => pmask x * x) v) == possum v.
Proof.
  intros v. unfold possum. apply qsum_map_ext. intros x _. unfold pmask, ppos.
  destruct (Qlt_le_dec x 0); lra.
Qed.

Lemma qsum_mask_div : forall v s, qsum (map (fun x => pmask x * (x / s)) v) == possum v / s.
Proof.
  intros v s. induction v as [|x v IH]; unfold possum in *; cbn [map qsum].
  - unfold Qdiv. lra.
  - rewrite IH. unfold pmask, ppos, Qdiv. destruct (Qlt_le_dec x 0); ring.
Qed.

Lemma qsum_mask_add : forall v d, qsum (map (fun x => pmask x * (x + d)) v) == possum v + qnat (poscount v) * d.
Proof.
  intros v d. induction v as [|x v IH]; unfold possum, poscount in *; cbn [map qsum filter].
  - change (qnat (length (@nil Q))) with 0. lra.
  - rewrite IH. unfold pmask, ppos. destruct (Qlt_le_dec x 0); cbn [length]; [| rewrite qnat_S]; lra.
Qed.

Lemma eqSmall_bounds : forall a b, eqSmall a b = true -> - epsS <= a - b /\ a - b <= epsS.
Proof.
  intros a b H. unfold eqSmall in H. apply Qle_bool_iff in H. unfold qabs in H.
  pose proof (Q.le_max_l (a - b) (- (a - b))). pose proof (Q.le_max_r (a - b) (- (a - b))). split; lra.
Qed.

Lemma eqSmall_false_gt : forall a, 0 <= a -> eqSmall a 0 = false -> epsS < a.
Proof.
  intros a Ha H. destruct (Qlt_le_dec epsS a) as [?|Hle]; [assumption|].
  assert (E : eqSmall a 0 = true).
  { unfold eqSmall. apply Qle_bool_iff. unfold qabs.
    destruct (Q.max_spec (a - 0) (- (a - 0))) as [[_ ->]|[_ ->]]; lra. }
  rewrite E in H. discriminate.
Qed.

Lemma qsum_map_const : forall (r : Q) (l : vec), qsum (map (fun _ : Q => r) l) == qnat (length l) * r.
Proof.
  intros r l. induction l as [|x l IH]; cbn [map qsum length]; [change (qnat 0) with 0; lra| rewrite IH, qnat_S; lra].
Qed.

Lemma mask_term_nonneg : forall x t, 0 <= x -> 0 <= t -> 0 <= pmask x * t.
Proof. intros x t Hx Ht. unfold pmask. destruct (Qlt_le_dec x 0); nra. Qed.

Lemma mask_term_nonneg' : forall x (f : Q -> Q), (0 <= x -> 0 <= f x) -> 0 <= pmask x * f x.
Proof. intros x f H. unfold pmask. destruct (Qlt_le_dec x 0) as [?|Hx]; [lra|]. specialize (H Hx). lra. Qed.

(* what isProbability checks: entries >= 0 and the sum within epsS of one (exactly one except in
   the branch that keeps an already normalised non-negative part) *)
Lemma project_valid_local : forall v, v <> [] ->
  length (project v) = length v /\ is_dist_tol epsS (project v).
Proof.
  intros v Hne. unfold project. cbv zeta. pose proof (possum_nonneg v) as Hs0.
  assert (Heps : 0 < epsS) by (unfold epsS; lra).
  destruct (eqSmall (possum v) 1) eqn:E1; [| destruct (eqSmall (possum v) 0) eqn:E0; [| destruct (Qlt_le_dec 1 (possum v)) as [Hgt|Hle]]].
  - split; [apply map_length|]. split; [| rewrite qsum_mask_mul; apply eqSmall_bounds; exact E1].
    unfold nonneg. apply Forall_forall. intros y Hy. apply in_map_iff in Hy. destruct Hy as [x [<- _]].
    apply (mask_term_nonneg' x (fun x => x)). intros; assumption.
  - split; [apply map_length|].
    assert (Hk : 0 < qnat (length v)) by (apply qnat_pos; destruct v; [congruence| cbn; lia]).
    change (qn (length v)) with (qnat (length v)). split.
    + unfold nonneg. apply Forall_forall. intros y Hy. apply in_map_iff in Hy. destruct Hy as [x [<- _]].
      apply Qlt_le_weak. apply Qlt_shift_div_l; [exact Hk| lra].
    + rewrite qsum_map_const.
      assert (E : qnat (length v) * (1 / qnat (length v)) == 1) by (field; lra). lra.
  - split; [apply map_length|]. split.
    + unfold nonneg. apply Forall_forall. intros y Hy. apply in_map_iff in Hy. destruct Hy as [x [<- _]].
      apply (mask_term_nonneg' x (fun x => x / possum v)). intros Hx. apply Qle_shift_div_l; lra.
    + rewrite qsum_mask_div.
      assert (E : possum v / possum v == 1) by (field; lra). lra.
  - pose proof (eqSmall_false_gt _ Hs0 E0) as Hpos.
    assert (Hc : (0 < poscount v)%nat).
    { destruct (poscount v) eqn:Ec; [| lia]. pose proof (possum_zero_of_count0 v Ec). lra. }
    pose proof (qnat_pos _ Hc) as Hk. change (qn (poscount v)) with (qnat (poscount v)).
    assert (Hd : 0 <= (1 - possum v) / qnat (poscount v)) by (apply Qle_shift_div_l; [exact Hk| lra]).
    split; [apply map_length|]. split.
    + unfold nonneg. apply Forall_forall. intros y Hy. apply in_map_iff in Hy. destruct Hy as [x [<- _]].
      apply (mask_term_nonneg' x (fun x => x + (1 - possum v) / qnat (poscount v))). intros Hx. lra.
    + rewrite qsum_mask_add.
      assert (E : qnat (poscount v) * ((1 - possum v) / qnat (poscount v)) == 1 - possum v) by (field; lra).
      lra.
Qed.

(* ---------------------------------------------------------------- PGA-APP *)
Definition prow_ok (A : nat) (r : vec) : Prop := length r = A /\ is_dist_tol epsS r.

Lemma is_dist_tol_veq : forall d v w, veq v w -> is_dist_tol d w -> is_dist_tol d v.
Proof.
  intros d v w H [N [L U]]. split; [eapply veq_nonneg; eassumption|]. rewrite (veq_qsum _ _ H). split; assumption.
Qed.

Lemma pga_grad_length : forall lr pl q p, length p = length q -> length (pga_grad_row lr pl q p) = length p.
Proof. intros. unfold pga_grad_row. cbv zeta. rewrite map_length, combine_length. lia. Qed.

Lemma pga_step_row_ok : forall lr pl q p A, (1 <= A)%nat -> length q = A -> length p = A ->
  prow_ok A (pga_step_row lr pl q p).
Proof.
  intros lr pl q p A HA Hq Hp. unfold pga_step_row, prow_ok.
  assert (Hl : length (pga_grad_row lr pl q p) = A) by (rewrite pga_grad_length; congruence).
  assert (Hne : pga_grad_row lr pl q p <> []) by (intros E; rewrite E in Hl; cbn in Hl; lia).
  destruct (project_valid_local _ Hne) as [Hlen D]. split.
  - rewrite map_length, Hlen. exact Hl.
  - eapply is_dist_tol_veq; [apply (vred_veq (project (pga_grad_row lr pl q p)))| exact D].
Qed.

Lemma upd_vrow_forall : forall (P : vec -> Prop) (f : vec -> vec) l s,
  Forall P l -> (forall r, P r -> (s < length l)%nat -> P (f r)) -> Forall P (upd_vrow s f l).
Proof.
  intros P f. induction l as [|r l IH]; intros s H Hf; [destruct s; constructor|].
  inversion H; subst. destruct s; cbn [upd_vrow]; constructor; try assumption.
  - apply Hf; [assumption| cbn; lia].
  - apply IH; [assumption|]. intros r' Hr' Hs. apply Hf; [assumption| cbn; lia].
Qed.

Lemma upd_vrow_length : forall f l s, length (upd_vrow s f l) = length l.
Proof. intros f. induction l as [|r l IH]; intros [|s]; cbn [upd_vrow length]; try reflexivity. rewrite IH; reflexivity. Qed.

Lemma uniform_row_ok : forall A, (1 <= A)%nat -> prow_ok A (repeat (1 / qn A) A).
Proof.
  intros A HA. assert (Hk : 0 < qnat A) by (apply qnat_pos; lia). change (qn A) with (qnat A).
  split; [apply repeat_length|]. split.
  - unfold nonneg. apply Forall_forall. intros x Hx. apply repeat_spec in Hx. subst.
    apply Qlt_le_weak. apply Qlt_shift_div_l; [exact Hk| lra].
  - rewrite qsum_repeat. assert (E : qnat A * (1 / qnat A) == 1) by (field; lra).
    unfold epsS. split; lra.
Qed.

Lemma pgaapp_rows_dist_lemma : forall lr pl qm A ops, (1 <= A)%nat -> Forall (fun r => length r = A) qm ->
  length (pga_run lr pl qm A ops) = length qm /\
  Forall (fun r => length r = A /\ is_dist_tol epsS r) (pga_run lr pl qm A ops).
Proof.
  intros lr pl qm A ops HA Hqm. unfold pga_run.
  set (Inv := fun st : mat => length st = length qm /\ Forall (prow_ok A) st).
  assert (H : Inv (fold_left (pga_step lr pl qm) ops (repeat (repeat (1 / qn A) A) (length qm)))).
  { apply (fold_left_inv _ _ (pga_step lr pl qm) Inv (fun _ => True)).
    - intros st s [Hl Hok] _. unfold pga_step. split; [rewrite upd_vrow_length; exact Hl|].
      apply upd_vrow_forall; [exact Hok|]. intros r [Hr _] Hs.
      apply pga_step_row_ok; [exact HA| | exact Hr].
      rewrite Hl in Hs. unfold row. apply (proj1 (Forall_forall _ _) Hqm). apply nth_In. exact Hs.
    - split; [apply repeat_length|]. apply Forall_forall. intros r Hr. apply repeat_spec in Hr. subst.
      apply uniform_row_ok. exact HA.
    - apply Forall_forall. intros; exact I. }
  exact H.
Qed.

(* the check isProbability performs, as a boolean, is implied *)
Lemma is_dist_tolb_complete : forall d p, is_dist_tol d p -> is_dist_tolb d p = true.
Proof.
  intros d p [N [L U]]. unfold is_dist_tolb. rewrite !andb_true_iff. repeat split.
  - unfold nonnegb. apply forallb_forall. intros x Hx. apply Qle_bool_iff.
    apply (proj1 (Forall_forall _ _) N x Hx).
  - apply Qle_bool_iff; exact L.
  - apply Qle_bool_iff; exact U.
Qed.
