(* C09/Model.v — executable Gallina models of the policy classes of property C09.
   Numbers are exact rationals; random draws are explicit inputs; [exp] is a Section variable.
   No proofs in this file. *)
From Coq Require Import List Arith ZArith QArith Qminmax Bool.
From AIT Require Import Base.Qx.
Import ListNotations.
Local Open Scope Q_scope.

(* an unsigned count converted to double *)
Definition qn (n : nat) : Q := inject_Z (Z.of_nat n).

(* ------------------------------------------------------------------ QGreedyPolicyWrapper *)

(* src: QGreedyPolicyWrapper.hpp:sampleAction — the loop that fills buffer_[0..bestActionCount).
   [a] is the loop index, [best] is bestValue, [buf] is buffer_[0..bestActionCount). *)
Fixpoint sample_scan (l : vec) (a : nat) (best : Q) (buf : list nat) : list nat :=
  match l with
  | [] => buf
  | v :: t =>
    if eqGeneral v best then sample_scan t (S a) best (buf ++ [a])
    else if Qlt_le_dec best v then sample_scan t (S a) v [a]
    else sample_scan t (S a) best buf
  end.

Definition greedy_tieset (q : vec) : list nat :=
  match q with [] => [] | x :: t => sample_scan t 1%nat x [0%nat] end.

(* src: QGreedyPolicyWrapper.hpp:sampleAction — [sel] is the value returned by
   uniform_int_distribution<unsigned>(0, bestActionCount-1)(rand_) *)
Definition greedy_sample (q : vec) (sel : nat) : nat := nth sel (greedy_tieset q) 0%nat.

(* src: QGreedyPolicyWrapper.hpp:getActionProbability — None is the early [return 0.0] *)
Fixpoint prob_scan (l : vec) (m : Q) (count : nat) : option nat :=
  match l with
  | [] => Some count
  | v :: t =>
    if eqGeneral v m then prob_scan t m (S count)
    else if Qlt_le_dec m v then None
    else prob_scan t m count
  end.

Definition greedy_prob (q : vec) (a : nat) : Q :=
  match prob_scan q (nthq q a) 0 with
  | None => 0
  | Some c => 1 / qn c
  end.

(* src: QGreedyPolicyWrapper.hpp:getPolicy — first loop (running max and count) *)
Fixpoint pol_scan (l : vec) (m : Q) (count : nat) : Q * nat :=
  match l with
  | [] => (m, count)
  | v :: t =>
    if eqGeneral v m then pol_scan t m (S count)
    else if Qlt_le_dec m v then pol_scan t v 1%nat
    else pol_scan t m count
  end.

(* src: QGreedyPolicyWrapper.hpp:getPolicy — second loop *)
Definition greedy_policy (q : vec) : vec :=
  match q with
  | [] => []
  | x :: t =>
    let '(m, c) := pol_scan t x 1%nat in
    map (fun v => if eqGeneral v m then 1 / qn c else 0) q
  end.

(* ------------------------------------------------------------------ EpsilonPolicyInterface *)

(* src: EpsilonPolicyInterface.hpp:getActionProbability, with getRandomActionProbability = 1.0 / A
   (Bandit/MDP EpsilonPolicy.cpp) *)
Definition eps_prob (eps : Q) (A : nat) (p : Q) : Q := (1 - eps) * p + eps * (1 / qn A).

(* src: Bandit/Policies/EpsilonPolicy.cpp:getPolicy   p *= (1-eps); p.array() += eps / A *)
Definition eps_policy (eps : Q) (pol : vec) : vec :=
  map (fun p => p * (1 - eps) + eps / qn (length pol)) pol.

(* src: EpsilonPolicyInterface.hpp:sampleAction — [u] = probabilityDistribution(rand_),
   [r] = sampleRandomAction(), [w] = policy_.sampleAction() *)
Definition eps_sample (eps u : Q) (r w : nat) : nat := if Qle_bool u eps then r else w.

(* ------------------------------------------------------------------ sampleProbability *)

(* src: Utils/Probability.hpp:sampleProbability(d, in, generator) — [p] is the uniform draw *)
Fixpoint sample_prob_go (l : vec) (p : Q) (i d : nat) : nat :=
  match l with
  | [] => (d - 1)%nat
  | x :: t => if Qlt_le_dec p x then i else sample_prob_go t (p - x) (S i) d
  end.
Definition sample_prob (l : vec) (p : Q) : nat := sample_prob_go l p 0 (length l).

(* ------------------------------------------------------------------ LRPPolicy *)

Fixpoint mapi_from (i : nat) (f : nat -> Q -> Q) (l : vec) : vec :=
  match l with [] => [] | x :: t => f i x :: mapi_from (S i) f t end.

Record lrp := mkLrp { lrp_a : Q; lrp_invB : Q; lrp_divB : Q; lrp_pol : vec }.

(* src: LRPPolicy.cpp:LRPPolicy(A, a, b) *)
Definition lrp_init (A : nat) (a b : Q) : lrp :=
  mkLrp a (1 - b) (b / qn (A - 1)) (repeat (1 / qn A) A).

(* src: LRPPolicy.cpp:stepUpdateP(act, result)   ([Qred] only normalises the fraction: it keeps
   the extracted model fast and does not change the value) *)
Definition lrp_step (st : lrp) (op : nat * bool) : lrp :=
  let '(act, result) := op in
  let a := lrp_a st in let invB := lrp_invB st in let divB := lrp_divB st in
  mkLrp a invB divB
    (if result
     then mapi_from 0 (fun i x => if Nat.eqb i act then Qred (x + a * (1 - x)) else Qred (x - a * x)) (lrp_pol st)
     else mapi_from 0 (fun i x => if Nat.eqb i act then Qred (x * invB) else Qred (divB + invB * x)) (lrp_pol st)).

Definition lrp_run (A : nat) (a b : Q) (ops : list (nat * bool)) : lrp :=
  fold_left lrp_step ops (lrp_init A a b).

(* ------------------------------------------------------------------ QSoftmaxPolicyWrapper *)
(* Models the code REPAIRED by fixes/C09-softmax-underflow.patch: the maximum is subtracted
   before exponentiating, in all three methods.  [ex] stands for std::exp / Eigen's array exp; it
   is Q-valued because after the repair every argument is <= 0, so no overflow can occur and the
   isinf branches of the C++ are unreachable (underflow to 0 is allowed: ex only needs to be
   non-negative, monotone, with ex 0 = 1). *)
Section Softmax.
Variable ex : Q -> Q.

(* src: QSoftmaxPolicyWrapper.hpp  ((q_.array() - q_.maxCoeff()) / temperature_).exp() *)
Definition softmax_weights (T : Q) (q : vec) : vec :=
  let m := maxl q in map (fun x => ex ((x - m) / T)) q.

(* src: QSoftmaxPolicyWrapper.hpp:getPolicy *)
Definition softmax_policy (T : Q) (q : vec) : vec :=
  if eqSmall T 0 then greedy_policy q else
  let w := softmax_weights T q in
  let s := qsum w in
  if eqSmall s 0 then repeat (1 / qn (length q)) (length q) else map (fun v => v / s) w.

(* src: QSoftmaxPolicyWrapper.hpp:getActionProbability *)
Definition softmax_prob (T : Q) (q : vec) (a : nat) : Q :=
  if eqSmall T 0 then greedy_prob q a else
  let w := softmax_weights T q in nthq w a / qsum w.

(* src: QSoftmaxPolicyWrapper.hpp:sampleAction — [sel] is the uniform_int draw of the greedy
   branch, [u] the uniform real draw of sampleProbability *)
Definition softmax_sample (T : Q) (q : vec) (sel : nat) (u : Q) : nat :=
  if eqSmall T 0 then greedy_sample q sel else
  let w := softmax_weights T q in
  let s := qsum w in
  sample_prob (map (fun v => v / s) w) u.
End Softmax.

(* The code as it is in /repo (no max subtraction), used only for the refutation witness. *)
Section SoftmaxAsIs.
Variable ex : Q -> Q.
Definition asis_weights (T : Q) (q : vec) : vec := map (fun x => ex (x / T)) q.
(* src: QSoftmaxPolicyWrapper.hpp:getPolicy (finite branch and the checkEqualSmall(sum, 0.0) branch) *)
Definition asis_policy (T : Q) (q : vec) : vec :=
  let w := asis_weights T q in
  let s := qsum w in
  if eqSmall s 0 then repeat (1 / qn (length q)) (length q) else map (fun v => v / s) w.
(* src: QSoftmaxPolicyWrapper.hpp:getActionProbability (finite branch) *)
Definition asis_prob (T : Q) (q : vec) (a : nat) : Q :=
  let w := asis_weights T q in nthq w a / qsum w.
End SoftmaxAsIs.

(* ------------------------------------------------------------------ ThompsonSamplingPolicy *)
(* Models the code REPAIRED by fixes/C09-thompson-lowest.patch (running maximum starts at
   numeric_limits<double>::lowest(), modelled by [None]: every finite sample exceeds it).
   [arms] = per arm (visit count, posterior sample q[a] + t * sqrt(m2/(n(n-1)))).
   src: ThompsonSamplingPolicy.cpp:sampleAction *)
Fixpoint thompson_scan (arms : list (nat * Q)) (a best : nat) (bv : option Q) : nat :=
  match arms with
  | [] => best
  | (cnt, v) :: t =>
    if Nat.ltb cnt 2 then a
    else match bv with
         | None => thompson_scan t (S a) a (Some v)
         | Some b => if Qlt_le_dec b v then thompson_scan t (S a) a (Some v)
                     else thompson_scan t (S a) best bv
         end
  end.
Definition thompson_sample (arms : list (nat * Q)) : nat := thompson_scan arms 0 0 None.

(* the code as it is: bestValue starts at numeric_limits<double>::min() = 2^-1022 > 0 *)
Definition dbl_min : Q := 1 # (2 ^ 1022).
Definition thompson_sample_asis (arms : list (nat * Q)) : nat := thompson_scan arms 0 0 (Some dbl_min).

(* ------------------------------------------------------------------ TopTwoThompsonSamplingPolicy *)
(* src: TopTwoThompsonSamplingPolicy.cpp:sampleAction — [first] = policy_.sampleAction(),
   [pick] = pickBest(rand_), [stream] = results of the following policy_.sampleAction() calls
   (the do-while loop); None = the loop has not ended within the supplied stream *)
Fixpoint first_other (first : nat) (stream : list nat) : option nat :=
  match stream with
  | [] => None
  | x :: t => if Nat.eqb x first then first_other first t else Some x
  end.
Definition toptwo_sample (counts : list nat) (first : nat) (pick : bool) (stream : list nat) : option nat :=
  if Nat.ltb (nth first counts 0%nat) 2 then Some first
  else if pick then Some first else first_other first stream.

(* ------------------------------------------------------------------ WoLFPolicy (one state row) *)
Record wolf_row := mkWolf { w_c : nat; w_avg : vec; w_act : vec }.

Definition vred (v : vec) : vec := map Qred v.
Definition normalise (v : vec) : vec := let s := qsum v in map (fun x => x / s) v.
Fixpoint set_nth (i : nat) (y : Q) (l : vec) : vec :=
  match l, i with
  | [], _ => []
  | _ :: t, O => y :: t
  | x :: t, S j => x :: set_nth j y t
  end.

(* src: WoLFPolicy.cpp:WoLFPolicy — both rows filled with 1.0/A, c = 0 *)
Definition wolf_init (A : nat) : wolf_row := mkWolf 0 (repeat (1 / qn A) A) (repeat (1 / qn A) A).

(* which of deltaW / deltaL is used, and by what margin (actualValue - avgValue) *)
Definition wolf_margin (q : vec) (st : wolf_row) : Q :=
  let avg := normalise (map (fun p => fst p * qn (w_c st) + snd p) (combine (w_avg st) (w_act st))) in
  dot q (w_act st) - dot q avg.

(* src: WoLFPolicy.cpp:stepUpdateP(s), restricted to row s; [q] = q_.row(s), [sel] = the
   uniform_int draw among the tied best actions (same scan as QGreedyPolicyWrapper::sampleAction) *)
Definition wolf_step_row (dW dL scaling : Q) (q : vec) (st : wolf_row) (sel : nat) : wolf_row :=
  let A := length q in
  let avg := normalise (map (fun p => fst p * qn (w_c st) + snd p) (combine (w_avg st) (w_act st))) in
  let c' := S (w_c st) in
  let best := greedy_sample q sel in
  let avgValue := dot q avg in
  let actualValue := dot q (w_act st) in
  let delta0 := if Qlt_le_dec avgValue actualValue then dW else dL in
  let delta := delta0 / (qn c' / scaling + 1) in
  let old := nthq (w_act st) best in
  let act1 := map (fun x => Qmax (x - delta / qn (A - 1)) 0) (w_act st) in
  let act2 := set_nth best (Qmin 1 (old + delta)) act1 in
  mkWolf c' (vred avg) (vred (normalise act2)).

(* the whole policy: one row per state; op = (state, draw) *)
Fixpoint upd_row (s : nat) (f : wolf_row -> wolf_row) (l : list wolf_row) : list wolf_row :=
  match l, s with
  | [], _ => []
  | r :: t, O => f r :: t
  | r :: t, S j => r :: upd_row j f t
  end.
Definition wolf_step (dW dL scaling : Q) (qm : mat) (st : list wolf_row) (op : nat * nat) : list wolf_row :=
  let '(s, sel) := op in upd_row s (fun r => wolf_step_row dW dL scaling (row qm s) r sel) st.
Definition wolf_run (dW dL scaling : Q) (qm : mat) (A : nat) (ops : list (nat * nat)) : list wolf_row :=
  fold_left (wolf_step dW dL scaling qm) ops (repeat (wolf_init A) (length qm)).

(* ------------------------------------------------------------------ projectToProbability (local copy) *)
(* src: src/Utils/Probability.cpp:projectToProbability (as repaired by 31ee3cf; the function is
   owned by property C08, which proves more about it — this is a self-contained re-model).
   retval[i] is the 0/1 mask, [sum]/[count] run over the entries with !(v[i] < 0). *)
Definition pmask (x : Q) : Q := if Qlt_le_dec x 0 then 0 else 1.
Definition ppos (x : Q) : Q := if Qlt_le_dec x 0 then 0 else x.
Definition possum (v : vec) : Q := qsum (map ppos v).
Definition poscount (v : vec) : nat := length (filter (fun x => if Qlt_le_dec x 0 then false else true) v).
Definition project (v : vec) : vec :=
  let sum := possum v in
  if eqSmall sum 1 then map (fun x => pmask x * x) v
  else if eqSmall sum 0 then map (fun _ => 1 / qn (length v)) v
  else if Qlt_le_dec 1 sum then map (fun x => pmask x * (x / sum)) v
  else let diff := (1 - sum) / qn (poscount v) in map (fun x => pmask x * (x + diff)) v.

(* ------------------------------------------------------------------ PGAAPPPolicy (one state row) *)
(* src: PGAAPPPolicy.cpp:stepUpdateP — the gradient loop (each iteration reads and writes only its
   own entry; avgR is computed before the loop) *)
Definition pga_grad_row (lr pl : Q) (q p : vec) : vec :=
  let avgR := Qred (dot p q) in        (* Qred: normalises the fraction only *)
  map (fun pq =>
         let pa := fst pq in let qa := snd pq in
         let d0 := if eqSmall pa 1 then qa - avgR else (qa - avgR) / (1 - pa) in
         let delta := d0 - pl * pa * qabs d0 in
         Qred (pa + lr * delta)) (combine p q).

(* src: PGAAPPPolicy.cpp:stepUpdateP — policyMatrix_.row(s) = projectToProbability(row) *)
Definition pga_step_row (lr pl : Q) (q p : vec) : vec := map Qred (project (pga_grad_row lr pl q p)).

Fixpoint upd_vrow (s : nat) (f : vec -> vec) (l : mat) : mat :=
  match l, s with
  | [], _ => []
  | r :: t, O => f r :: t
  | r :: t, S j => r :: upd_vrow j f t
  end.
Definition pga_step (lr pl : Q) (qm : mat) (st : mat) (s : nat) : mat :=
  upd_vrow s (fun r => pga_step_row lr pl (row qm s) r) st.
(* src: PGAAPPPolicy.cpp:PGAAPPPolicy — policyMatrix_.fill(1.0/A) *)
Definition pga_run (lr pl : Q) (qm : mat) (A : nat) (ops : list nat) : mat :=
  fold_left (pga_step lr pl qm) ops (repeat (repeat (1 / qn A) A) (length qm)).
