(* C09/ProofsGreedy.v — QGreedyPolicyWrapper: under the separation hypothesis the three methods
   compute the uniform distribution over the maximisers. *)
From Coq Require Import List Arith ZArith QArith Qminmax Lqa Lia Bool.
From AIT Require Import Base.Qx C09.Model C09.Spec.
Import ListNotations.
Local Open Scope Q_scope.

(* ---------------------------------------------------------------- small facts *)
Lemma qn_qnat : forall n, qn n = qnat n. Proof. reflexivity. Qed.

Lemma qnat_S : forall n, qnat (S n) == qnat n + 1.
Proof. intros n. unfold qnat. rewrite Nat2Z.inj_succ, <- Z.add_1_r, inject_Z_plus. reflexivity. Qed.

Lemma qnat_nonneg : forall n, 0 <= qnat n.
Proof. induction n; [apply Qle_refl| rewrite qnat_S; lra]. Qed.

Lemma qnat_pos : forall n, (0 < n)%nat -> 0 < qnat n.
Proof. intros [|n] H; [lia|]. rewrite qnat_S. pose proof (qnat_nonneg n). lra. Qed.

Lemma qabs_zero : forall x, x == 0 -> qabs x == 0.
Proof. intros x H. unfold qabs. destruct (Q.max_spec x (- x)) as [[_ ->]|[_ ->]]; lra. Qed.

Lemma eqGeneral_of_eq : forall x y, x == y -> eqGeneral x y = true.
Proof.
  intros x y H. unfold eqGeneral, eqSmall. apply orb_true_iff; left.
  apply Qle_bool_iff. rewrite (qabs_zero (x - y)) by lra. unfold epsS. lra.
Qed.

Lemma Qeq_bool_congr_r : forall v m m', m == m' -> Qeq_bool v m = Qeq_bool v m'.
Proof.
  intros v m m' H. apply eq_true_iff_eq. rewrite !Qeq_bool_iff. split; intros E; lra.
Qed.

Lemma Qeq_bool_false_of_lt : forall v m, v < m -> Qeq_bool v m = false.
Proof.
  intros v m H. destruct (Qeq_bool v m) eqn:E; [|reflexivity].
  apply Qeq_bool_iff in E. lra.
Qed.

Lemma Qeq_bool_refl' : forall v m, v == m -> Qeq_bool v m = true.
Proof. intros; apply Qeq_bool_iff; assumption. Qed.

(* ---------------------------------------------------------------- cnt / eqidx *)
Lemma cnt_cons : forall m v l, cnt m (v :: l) = ((if Qeq_bool v m then 1 else 0) + cnt m l)%nat.
Proof. intros. unfold cnt. cbn [filter]. destruct (Qeq_bool v m); reflexivity. Qed.

Lemma cnt_app : forall m a b, cnt m (a ++ b) = (cnt m a + cnt m b)%nat.
Proof. intros. unfold cnt. rewrite filter_app, app_length. reflexivity. Qed.

Lemma cnt_congr : forall m m' l, m == m' -> cnt m l = cnt m' l.
Proof.
  intros m m' l H. induction l as [|v l IH]; [reflexivity|].
  rewrite !cnt_cons, IH, (Qeq_bool_congr_r v m m' H). reflexivity.
Qed.

Lemma cnt_zero_of_lt : forall m l, (forall y, In y l -> y < m) -> cnt m l = 0%nat.
Proof.
  intros m l H. induction l as [|v l IH]; [reflexivity|].
  rewrite cnt_cons, IH by (intros y Hy; apply H; right; exact Hy).
  rewrite Qeq_bool_false_of_lt by (apply H; left; reflexivity). reflexivity.
Qed.

Lemma cnt_pos_of_in : forall m l y, In y l -> y == m -> (0 < cnt m l)%nat.
Proof.
  intros m l y Hin E. induction l as [|v l IH]; [destruct Hin|].
  rewrite cnt_cons. destruct Hin as [->|Hin].
  - rewrite (Qeq_bool_refl' y m E). lia.
  - specialize (IH Hin). lia.
Qed.

Lemma eqidx_app : forall m a b i, eqidx m (a ++ b) i = eqidx m a i ++ eqidx m b (i + length a).
Proof.
  intros m a. induction a as [|v a IH]; intros b i; cbn [eqidx app length].
  - rewrite Nat.add_0_r. reflexivity.
  - rewrite IH. replace (S i + length a)%nat with (i + S (length a))%nat by lia.
    destruct (Qeq_bool v m); reflexivity.
Qed.

Lemma eqidx_congr : forall m m' l i, m == m' -> eqidx m l i = eqidx m' l i.
Proof.
  intros m m' l. induction l as [|v l IH]; intros i H; cbn [eqidx]; [reflexivity|].
  rewrite (IH (S i) H), (Qeq_bool_congr_r v m m' H). reflexivity.
Qed.

Lemma eqidx_nil_of_lt : forall m l i, (forall y, In y l -> y < m) -> eqidx m l i = [].
Proof.
  intros m l. induction l as [|v l IH]; intros i H; cbn [eqidx]; [reflexivity|].
  rewrite Qeq_bool_false_of_lt by (apply H; left; reflexivity).
  apply IH. intros y Hy; apply H; right; exact Hy.
Qed.

Lemma eqidx_length : forall m l i, length (eqidx m l i) = cnt m l.
Proof.
  intros m l. induction l as [|v l IH]; intros i; [reflexivity|].
  rewrite cnt_cons. cbn [eqidx]. destruct (Qeq_bool v m); cbn [length]; rewrite IH; reflexivity.
Qed.

Lemma eqidx_in : forall m l i j, In j (eqidx m l i) ->
  (i <= j < i + length l)%nat /\ Qeq_bool (nth (j - i) l 0) m = true.
Proof.
  intros m l. induction l as [|v l IH]; intros i j Hin; cbn [eqidx] in Hin; [destruct Hin|].
  cbn [length].
  destruct (Qeq_bool v m) eqn:E.
  - destruct Hin as [<-|Hin].
    + split; [lia|]. rewrite Nat.sub_diag. cbn [nth]. exact E.
    + destruct (IH _ _ Hin) as [Hr Hq]. split; [lia|].
      replace (j - i)%nat with (S (j - S i)) by lia. cbn [nth]. exact Hq.
  - destruct (IH _ _ Hin) as [Hr Hq]. split; [lia|].
    replace (j - i)%nat with (S (j - S i)) by lia. cbn [nth]. exact Hq.
Qed.

(* ---------------------------------------------------------------- separation *)
Lemma separatedb_sound : forall q, separatedb q = true -> separated q.
Proof.
  intros q H x y Hx Hy E. unfold separatedb in H.
  rewrite forallb_forall in H. specialize (H x Hx). rewrite forallb_forall in H. specialize (H y Hy).
  apply orb_true_iff in H. destruct H as [H|H].
  - apply Qeq_bool_iff; exact H.
  - rewrite E in H. discriminate.
Qed.

Lemma sep_eqG : forall q x y, separated q -> In x q -> In y q -> eqGeneral x y = Qeq_bool x y.
Proof.
  intros q x y S Hx Hy. apply eq_true_iff_eq. rewrite Qeq_bool_iff. split.
  - apply S; assumption.
  - apply eqGeneral_of_eq.
Qed.

(* ---------------------------------------------------------------- the running maximum *)
(* state shared by the three scans: m is an element of the processed prefix and bounds it *)
Definition run_ok (pre : vec) (m : Q) : Prop := In m pre /\ forall y, In y pre -> y <= m.

Lemma app_snoc : forall (A : Type) (pre : list A) v l, pre ++ v :: l = (pre ++ [v]) ++ l.
Proof. intros. rewrite <- app_assoc. reflexivity. Qed.

Lemma in_snoc : forall (A : Type) (pre : list A) v y, In y (pre ++ [v]) <-> In y pre \/ y = v.
Proof. intros. rewrite in_app_iff. cbn [In]. intuition. Qed.

(* one step of the shared case analysis *)
Lemma step_cases : forall pre v l m, separated (pre ++ v :: l) -> run_ok pre m ->
  (eqGeneral v m = true /\ v == m /\ run_ok (pre ++ [v]) m) \/
  (eqGeneral v m = false /\ m < v /\ run_ok (pre ++ [v]) v /\ (forall y, In y pre -> y < v)) \/
  (eqGeneral v m = false /\ v < m /\ run_ok (pre ++ [v]) m).
Proof.
  intros pre v l m S [Hin Hub].
  assert (Hv : In v (pre ++ v :: l)) by (apply in_or_app; right; left; reflexivity).
  assert (Hm : In m (pre ++ v :: l)) by (apply in_or_app; left; exact Hin).
  destruct (eqGeneral v m) eqn:E.
  - left. pose proof (S v m Hv Hm E) as Evm. split; [reflexivity|]. split; [exact Evm|].
    split; [apply in_snoc; left; exact Hin|].
    intros y Hy. apply in_snoc in Hy. destruct Hy as [Hy| ->]; [apply Hub; exact Hy| lra].
  - right. destruct (Qlt_le_dec m v) as [Hlt|Hle].
    + left. split; [reflexivity|]. split; [exact Hlt|]. split.
      * split; [apply in_snoc; right; reflexivity|].
        intros y Hy. apply in_snoc in Hy. destruct Hy as [Hy| ->]; [specialize (Hub y Hy); lra| lra].
      * intros y Hy. specialize (Hub y Hy). lra.
    + right. assert (Hne : ~ v == m).
      { intros Evm. rewrite (eqGeneral_of_eq v m Evm) in E. discriminate. }
      assert (Hlt : v < m) by (destruct (Qlt_le_dec v m) as [?|?]; [assumption| exfalso; apply Hne; lra]).
      split; [reflexivity|]. split; [exact Hlt|].
      split; [apply in_snoc; left; exact Hin|].
      intros y Hy. apply in_snoc in Hy. destruct Hy as [Hy| ->]; [apply Hub; exact Hy| lra].
Qed.

Lemma pol_scan_spec : forall l pre m c, separated (pre ++ l) -> run_ok pre m -> c = cnt m pre ->
  let '(m', c') := pol_scan l m c in run_ok (pre ++ l) m' /\ c' = cnt m' (pre ++ l).
Proof.
  induction l as [|v l IH]; intros pre m c S R Hc; cbn [pol_scan].
  - rewrite app_nil_r. split; assumption.
  - destruct (step_cases pre v l m S R) as [[E [Evm R']]|[[E [Hlt [R' Hall]]]|[E [Hlt R']]]]; rewrite E.
    + rewrite app_snoc. apply IH; [rewrite <- app_snoc; exact S| exact R'|].
      rewrite cnt_app, cnt_cons, (Qeq_bool_refl' v m Evm), Hc. cbn [cnt filter length]. lia.
    + destruct (Qlt_le_dec m v) as [_|Hle]; [| lra].
      rewrite app_snoc. apply IH; [rewrite <- app_snoc; exact S| exact R'|].
      rewrite cnt_app, (cnt_zero_of_lt v pre Hall), cnt_cons, (Qeq_bool_refl' v v (Qeq_refl v)).
      cbn [cnt filter length]. lia.
    + destruct (Qlt_le_dec m v) as [Hlt'|_]; [lra|].
      rewrite app_snoc. apply IH; [rewrite <- app_snoc; exact S| exact R'|].
      rewrite cnt_app, cnt_cons, (Qeq_bool_false_of_lt v m Hlt), Hc. cbn [cnt filter length]. lia.
Qed.

Lemma sample_scan_spec : forall l pre m, separated (pre ++ l) -> run_ok pre m ->
  exists m', run_ok (pre ++ l) m' /\
             sample_scan l (length pre) m (eqidx m pre 0) = eqidx m' (pre ++ l) 0.
Proof.
  induction l as [|v l IH]; intros pre m Sp R; cbn [sample_scan].
  - exists m. rewrite app_nil_r. split; [exact R| reflexivity].
  - destruct (step_cases pre v l m Sp R) as [[E [Evm R']]|[[E [Hlt [R' Hall]]]|[E [Hlt R']]]]; rewrite E.
    + rewrite app_snoc.
      replace (S (length pre)) with (length (pre ++ [v])) by (rewrite app_length; cbn; lia).
      replace (eqidx m pre 0 ++ [length pre]) with (eqidx m (pre ++ [v]) 0).
      * apply IH; [rewrite <- app_snoc; exact Sp| exact R'].
      * rewrite eqidx_app. cbn [eqidx]. rewrite (Qeq_bool_refl' v m Evm). reflexivity.
    + destruct (Qlt_le_dec m v) as [_|Hle]; [| lra].
      rewrite app_snoc.
      replace (S (length pre)) with (length (pre ++ [v])) by (rewrite app_length; cbn; lia).
      replace [length pre] with (eqidx v (pre ++ [v]) 0).
      * apply IH; [rewrite <- app_snoc; exact Sp| exact R'].
      * rewrite eqidx_app, (eqidx_nil_of_lt v pre 0 Hall). cbn [eqidx app].
        rewrite (Qeq_bool_refl' v v (Qeq_refl v)). reflexivity.
    + destruct (Qlt_le_dec m v) as [Hlt'|_]; [lra|].
      rewrite app_snoc.
      replace (S (length pre)) with (length (pre ++ [v])) by (rewrite app_length; cbn; lia).
      replace (eqidx m pre 0) with (eqidx m (pre ++ [v]) 0).
      * apply IH; [rewrite <- app_snoc; exact Sp| exact R'].
      * rewrite eqidx_app. cbn [eqidx]. rewrite (Qeq_bool_false_of_lt v m Hlt), app_nil_r. reflexivity.
Qed.

Lemma run_ok_maxl : forall q m, run_ok q m -> m == maxl q.
Proof.
  intros q m [Hin Hub]. symmetry. apply maxl_char.
  - intros ->. destruct Hin.
  - exact Hub.
  - exists m. split; [exact Hin| reflexivity].
Qed.

Lemma run_ok_single : forall x, run_ok [x] x.
Proof. intros x. split; [left; reflexivity|]. intros y [<-|[]]. lra. Qed.

(* ---------------------------------------------------------------- getPolicy = spec *)
Lemma greedy_policy_spec : forall q, separated q -> veq (greedy_policy q) (greedy_spec q).
Proof.
  intros [|x t] S; [constructor|].
  unfold greedy_policy.
  pose proof (pol_scan_spec t [x] x 1%nat S (run_ok_single x)) as H.
  destruct (pol_scan t x 1%nat) as [m c]. cbn [app] in H.
  destruct H as [R Hc].
  { rewrite cnt_cons, (Qeq_bool_refl' x x (Qeq_refl x)). reflexivity. }
  pose proof (run_ok_maxl _ _ R) as Em. destruct R as [Hin Hub].
  unfold greedy_spec. set (q := x :: t) in *.
  assert (G : forall l, (forall v, In v l -> In v q) ->
     veq (map (fun v => if eqGeneral v m then 1 / qn c else 0) l)
         (map (fun v => if Qeq_bool v (maxl q) then 1 / qnat (cnt (maxl q) q) else 0) l)).
  { induction l as [|v l IH]; intros Hsub; [constructor|]. cbn [map]. constructor.
    - rewrite (sep_eqG q v m S (Hsub v (or_introl eq_refl)) Hin).
      rewrite (Qeq_bool_congr_r v m (maxl q) Em).
      destruct (Qeq_bool v (maxl q)); [| reflexivity].
      rewrite Hc, (cnt_congr m (maxl q) q Em). reflexivity.
    - apply IH. intros w Hw; apply Hsub; right; exact Hw. }
  apply G. intros v Hv; exact Hv.
Qed.

(* ---------------------------------------------------------------- getActionProbability = spec *)
Lemma prob_scan_le : forall l m c, (forall v, In v l -> eqGeneral v m = Qeq_bool v m) ->
  (forall v, In v l -> v <= m) -> prob_scan l m c = Some (c + cnt m l)%nat.
Proof.
  induction l as [|v l IH]; intros m c HE Hub; cbn [prob_scan].
  - f_equal. cbn. lia.
  - rewrite (HE v (or_introl eq_refl)). rewrite cnt_cons.
    assert (HE' : forall w, In w l -> eqGeneral w m = Qeq_bool w m) by (intros w Hw; apply HE; right; exact Hw).
    assert (Hub' : forall w, In w l -> w <= m) by (intros w Hw; apply Hub; right; exact Hw).
    destruct (Qeq_bool v m) eqn:E.
    + rewrite (IH m (S c) HE' Hub'). f_equal. lia.
    + destruct (Qlt_le_dec m v) as [Hlt|_]; [specialize (Hub v (or_introl eq_refl)); lra|].
      rewrite (IH m c HE' Hub'). f_equal.
Qed.

Lemma prob_scan_gt : forall l m c, (forall v, In v l -> eqGeneral v m = Qeq_bool v m) ->
  (exists v, In v l /\ m < v) -> prob_scan l m c = None.
Proof.
  induction l as [|v l IH]; intros m c HE [w [Hw Hlt]]; [destruct Hw|]. cbn [prob_scan].
  rewrite (HE v (or_introl eq_refl)).
  assert (HE' : forall w, In w l -> eqGeneral w m = Qeq_bool w m) by (intros w' Hw'; apply HE; right; exact Hw').
  destruct (Qeq_bool v m) eqn:E.
  - apply Qeq_bool_iff in E. destruct Hw as [->|Hw]; [lra|].
    apply IH; [exact HE'| exists w; split; assumption].
  - destruct (Qlt_le_dec m v) as [_|Hle]; [reflexivity|].
    destruct Hw as [->|Hw]; [lra|].
    apply IH; [exact HE'| exists w; split; assumption].
Qed.

Lemma nthq_in : forall (q : vec) a, (a < length q)%nat -> In (nthq q a) q.
Proof. intros q a H. unfold nthq. apply nth_In. exact H. Qed.

Lemma nthq_map : forall (f : Q -> Q) (q : vec) a, (a < length q)%nat -> nthq (map f q) a = f (nthq q a).
Proof.
  intros f q a H. unfold nthq. rewrite (nth_indep (map f q) 0 (f 0)) by (rewrite map_length; exact H).
  apply map_nth.
Qed.

Lemma greedy_prob_spec : forall q a, separated q -> (a < length q)%nat ->
  greedy_prob q a == nthq (greedy_spec q) a.
Proof.
  intros q a S Ha. unfold greedy_prob, greedy_spec. rewrite nthq_map by exact Ha.
  set (m := nthq q a). pose proof (nthq_in q a Ha) as Hin. fold m in Hin.
  assert (HE : forall v, In v q -> eqGeneral v m = Qeq_bool v m) by (intros v Hv; apply (sep_eqG q); assumption).
  assert (Hne : q <> []) by (intros ->; cbn in Ha; lia).
  destruct (Qeq_bool m (maxl q)) eqn:E.
  - apply Qeq_bool_iff in E.
    rewrite (prob_scan_le q m 0 HE) by (intros v Hv; rewrite E; apply maxl_ub; exact Hv).
    cbn [Nat.add]. rewrite qn_qnat, (cnt_congr m (maxl q) q E). reflexivity.
  - destruct (maxl_attained q Hne) as [y [Hy Ey]].
    rewrite (prob_scan_gt q m 0 HE); [reflexivity|].
    exists y. split; [exact Hy|].
    assert (m <= maxl q) by (apply maxl_ub; exact Hin).
    assert (~ m == maxl q) by (intros C; apply Qeq_bool_iff in C; rewrite C in E; discriminate).
    destruct (Qlt_le_dec m y) as [?|?]; [assumption| exfalso; apply H0; lra].
Qed.

(* ---------------------------------------------------------------- sampleAction's tie set = maxset *)
Lemma greedy_tieset_spec : forall q, separated q -> greedy_tieset q = maxset q.
Proof.
  intros [|x t] S; [reflexivity|]. unfold greedy_tieset, maxset.
  destruct (sample_scan_spec t [x] x S (run_ok_single x)) as [m' [R E]].
  assert (E0 : eqidx x [x] 0 = [0%nat])
    by (cbn [eqidx]; rewrite (Qeq_bool_refl' x x (Qeq_refl x)); reflexivity).
  rewrite E0 in E. cbn [length] in E. change ([x] ++ t) with (x :: t) in E, R.
  rewrite E. apply eqidx_congr. apply run_ok_maxl. exact R.
Qed.

(* ---------------------------------------------------------------- the spec is a distribution *)
Lemma qsum_indicator : forall (f : Q -> bool) r l,
  qsum (map (fun v => if f v then r else 0) l) == qnat (length (filter f l)) * r.
Proof.
  intros f r l. induction l as [|v l IH]; cbn [map qsum filter]; [cbn [length]; change (qnat 0) with 0; lra|].
  rewrite IH. destruct (f v); cbn [length]; [rewrite qnat_S|]; lra.
Qed.

Lemma cnt_max_pos : forall q, q <> [] -> (0 < cnt (maxl q) q)%nat.
Proof.
  intros q Hne. destruct (maxl_attained q Hne) as [y [Hy Ey]].
  apply (cnt_pos_of_in _ _ y Hy). lra.
Qed.

Lemma greedy_spec_dist : forall q, q <> [] -> is_dist (greedy_spec q).
Proof.
  intros q Hne. pose proof (qnat_pos _ (cnt_max_pos q Hne)) as Hk. split.
  - unfold greedy_spec, nonneg. apply Forall_forall. intros p Hp. apply in_map_iff in Hp.
    destruct Hp as [v [<- _]]. destruct (Qeq_bool v (maxl q)); [| lra].
    apply Qlt_le_weak. apply Qlt_shift_div_l; [exact Hk| lra].
  - unfold greedy_spec. rewrite qsum_indicator. fold (cnt (maxl q) q). field. lra.
Qed.

Lemma greedy_spec_length : forall q, length (greedy_spec q) = length q.
Proof. intros; unfold greedy_spec; apply map_length. Qed.

Lemma greedy_policy_length : forall q, length (greedy_policy q) = length q.
Proof.
  intros [|x t]; [reflexivity|]. unfold greedy_policy. destruct (pol_scan t x 1%nat) as [m c].
  apply map_length.
Qed.

(* ---------------------------------------------------------------- veq helpers *)
Lemma veq_qsum : forall v w, veq v w -> qsum v == qsum w.
Proof. intros v w H; induction H as [|x y v w E H IH]; cbn [qsum]; [reflexivity| rewrite E, IH; reflexivity]. Qed.

Lemma veq_nonneg : forall v w, veq v w -> nonneg w -> nonneg v.
Proof.
  intros v w H; induction H as [|x y v w E H IH]; intros N; [constructor|].
  inversion N; subst. constructor; [lra| apply IH; assumption].
Qed.

Lemma veq_is_dist : forall v w, veq v w -> is_dist w -> is_dist v.
Proof. intros v w H [N Su]. split; [eapply veq_nonneg; eassumption| rewrite (veq_qsum _ _ H); exact Su]. Qed.

Lemma veq_nthq : forall v w a, veq v w -> nthq v a == nthq w a.
Proof.
  intros v w a H. revert a. induction H as [|x y v w E H IH]; intros a; unfold nthq.
  - destruct a; reflexivity.
  - destruct a; cbn [nth]; [exact E| apply IH].
Qed.

Lemma veq_sym : forall v w, veq v w -> veq w v.
Proof. intros v w H; induction H; constructor; [symmetry; assumption| assumption]. Qed.

Lemma veq_trans : forall u v w, veq u v -> veq v w -> veq u w.
Proof.
  intros u v w H. revert w. induction H as [|x y u v E H IH]; intros w H2; inversion H2; subst; constructor.
  - etransitivity; eassumption.
  - apply IH; assumption.
Qed.

(* ---------------------------------------------------------------- property lemmas *)
Lemma greedy_rows_dist_lemma : forall q, q <> [] -> separated q ->
  length (greedy_policy q) = length q /\ is_dist (greedy_policy q).
Proof.
  intros q Hne S. split; [apply greedy_policy_length|].
  eapply veq_is_dist; [apply greedy_policy_spec; exact S| apply greedy_spec_dist; exact Hne].
Qed.

Lemma greedy_table_eq_query_lemma : forall q, separated q ->
  agrees (greedy_policy q) (greedy_prob q).
Proof.
  intros q S a Ha. rewrite greedy_policy_length in Ha.
  rewrite (veq_nthq _ _ a (greedy_policy_spec q S)). symmetry. apply greedy_prob_spec; assumption.
Qed.

Lemma greedy_spec_value : forall q a, (a < length q)%nat ->
  (nthq q a == maxl q /\ nthq (greedy_spec q) a == 1 / qnat (cnt (maxl q) q)) \/
  (nthq q a < maxl q /\ nthq (greedy_spec q) a == 0).
Proof.
  intros q a Ha. unfold greedy_spec. rewrite nthq_map by exact Ha.
  destruct (Qeq_bool (nthq q a) (maxl q)) eqn:E.
  - left. split; [apply Qeq_bool_iff; exact E| reflexivity].
  - right. split; [| reflexivity].
    pose proof (maxl_ub q _ (nthq_in q a Ha)).
    assert (~ nthq q a == maxl q) by (intros C; apply Qeq_bool_iff in C; rewrite C in E; discriminate).
    destruct (Qlt_le_dec (nthq q a) (maxl q)); [assumption| exfalso; apply H0; lra].
Qed.

(* all mass on the maximal actions, shared equally *)
Lemma greedy_argmax_lemma : forall q a, separated q -> (a < length q)%nat ->
  (nthq q a == maxl q -> nthq (greedy_policy q) a == 1 / qnat (cnt (maxl q) q) /\ 0 < nthq (greedy_policy q) a) /\
  (nthq q a < maxl q -> nthq (greedy_policy q) a == 0).
Proof.
  intros q a S Ha. rewrite (veq_nthq _ _ a (greedy_policy_spec q S)).
  assert (Hne : q <> []) by (intros ->; cbn in Ha; lia).
  pose proof (qnat_pos _ (cnt_max_pos q Hne)) as Hk.
  destruct (greedy_spec_value q a Ha) as [[E V]|[L V]]; split; intros H; try lra.
  split; [exact V|]. rewrite V. apply Qlt_shift_div_l; [exact Hk| lra].
Qed.

Lemma maxl_shift : forall c q, q <> [] -> maxl (shift c q) == maxl q + c.
Proof.
  intros c q Hne. apply maxl_char.
  - destruct q; [congruence| discriminate].
  - intros y Hy. apply in_map_iff in Hy. destruct Hy as [x [<- Hx]]. pose proof (maxl_ub q x Hx). lra.
  - destruct (maxl_attained q Hne) as [y [Hy Ey]]. exists (y + c). split; [| lra].
    apply in_map_iff. exists y. split; [reflexivity| exact Hy].
Qed.

Lemma Qeq_bool_shift : forall v m m' c, m' == m + c -> Qeq_bool (v + c) m' = Qeq_bool v m.
Proof. intros. apply eq_true_iff_eq. rewrite !Qeq_bool_iff. split; intros; lra. Qed.

Lemma cnt_shift : forall c m m' l, m' == m + c -> cnt m' (shift c l) = cnt m l.
Proof.
  intros c m m' l H. induction l as [|v l IH]; [reflexivity|].
  unfold shift in *. cbn [map]. rewrite !cnt_cons, IH, (Qeq_bool_shift v m m' c H). reflexivity.
Qed.

Lemma eqidx_shift : forall c m m' l i, m' == m + c -> eqidx m' (shift c l) i = eqidx m l i.
Proof.
  intros c m m' l. induction l as [|v l IH]; intros i H; [reflexivity|].
  unfold shift in *. cbn [map eqidx]. rewrite (IH (S i) H), (Qeq_bool_shift v m m' c H). reflexivity.
Qed.

Lemma greedy_spec_shift : forall c q, veq (greedy_spec (shift c q)) (greedy_spec q).
Proof.
  intros c q. destruct q as [|x t]; [constructor|]. set (q := x :: t).
  assert (Hne : q <> []) by discriminate.
  pose proof (maxl_shift c q Hne) as Em.
  unfold greedy_spec. rewrite (cnt_shift c (maxl q) _ q Em).
  generalize (1 / qnat (cnt (maxl q) q)). intros r.
  generalize q at 2 4. intros l. induction l as [|v l IH]; [constructor|].
  unfold shift in *. cbn [map]. constructor; [| exact IH].
  rewrite (Qeq_bool_shift v (maxl q) _ c Em). reflexivity.
Qed.

Lemma greedy_shift_lemma : forall c q, separated q -> separated (shift c q) ->
  veq (greedy_policy (shift c q)) (greedy_policy q) /\
  (forall a, (a < length q)%nat -> greedy_prob (shift c q) a == greedy_prob q a) /\
  greedy_tieset (shift c q) = greedy_tieset q.
Proof.
  intros c q S S'. split; [| split].
  - eapply veq_trans; [apply greedy_policy_spec; exact S'|].
    eapply veq_trans; [apply greedy_spec_shift|]. apply veq_sym. apply greedy_policy_spec; exact S.
  - intros a Ha. rewrite (greedy_prob_spec q a S Ha).
    rewrite (greedy_prob_spec (shift c q) a S') by (unfold shift; rewrite map_length; exact Ha).
    apply veq_nthq. apply greedy_spec_shift.
  - rewrite (greedy_tieset_spec _ S), (greedy_tieset_spec _ S'). unfold maxset.
    destruct q as [|x t]; [reflexivity|]. apply eqidx_shift. apply maxl_shift. discriminate.
Qed.

Lemma greedy_sample_in_support_lemma : forall q sel, q <> [] -> separated q ->
  length (greedy_tieset q) = cnt (maxl q) q /\
  ((sel < length (greedy_tieset q))%nat -> in_support (greedy_policy q) (greedy_sample q sel) /\
      nthq q (greedy_sample q sel) == maxl q).
Proof.
  intros q sel Hne S. rewrite (greedy_tieset_spec q S). unfold maxset.
  split; [apply eqidx_length|]. intros Hsel.
  unfold greedy_sample. rewrite (greedy_tieset_spec q S). unfold maxset.
  pose proof (nth_In _ 0%nat Hsel) as Hin. set (j := nth sel (eqidx (maxl q) q 0) 0%nat) in *.
  destruct (eqidx_in _ _ _ _ Hin) as [Hr Hq]. rewrite Nat.sub_0_r in Hq. apply Qeq_bool_iff in Hq.
  assert (Hj : (j < length q)%nat) by lia.
  destruct (greedy_argmax_lemma q j S Hj) as [Hmax _]. specialize (Hmax Hq).
  split; [| exact Hq]. split; [rewrite greedy_policy_length; exact Hj| apply Hmax].
Qed.
