(* C09/ProofsT3c.v — T3CPolicy::sampleAction, deterministic part: the challenger is a cheapest arm
   different from the Thompson leader. *)
From Coq Require Import List Arith ZArith QArith Qminmax Lqa Lia Bool.
From AIT Require Import Base.Qx C09.Model C09.Spec C09.Machines.
Import ListNotations.
Local Open Scope Q_scope.

Lemma filter_len_le : forall (f : nat -> bool) l, (length (filter f l) <= length l)%nat.
Proof. intros f l. induction l as [|x l IH]; cbn [filter length]; [lia|]. destruct (f x); cbn [length]; lia. Qed.

Lemma t3c_scan_some : forall costs s lo k us, (length costs <= length us)%nat ->
  let r := t3c_scan costs s (Some lo) k us in
  (r = s /\ (forall aw, In aw costs -> lo <= snd aw)) \/
  (exists w, In (r, w) costs /\ w <= lo /\ (forall aw, In aw costs -> w <= snd aw)).
Proof.
  induction costs as [|[a w] t IH]; intros s lo k us Hl; cbn [t3c_scan].
  - left. split; [reflexivity| intros aw []].
  - cbn [length] in Hl. destruct (Qlt_le_dec w lo) as [Hlt|Hge].
    + right. destruct (IH a w 1%nat us ltac:(lia)) as [[Er Hall]|[w' [Hin [Hle Hall]]]].
      * exists w. rewrite Er. split; [left; reflexivity|]. split; [lra|].
        intros aw [<-|Hin]; [cbn; lra| apply Hall; exact Hin].
      * exists w'. split; [right; exact Hin|]. split; [lra|].
        intros aw [<-|Hin']; [cbn; lra| apply Hall; exact Hin'].
    + destruct (Qeq_bool w lo) eqn:E.
      * apply Qeq_bool_iff in E. destruct us as [|u us']; [cbn in Hl; lia|]. cbn [length] in Hl.
        destruct (Qlt_le_dec u (1 / qn (S k))).
        -- right. destruct (IH a w (S k) us' ltac:(lia)) as [[Er Hall]|[w' [Hin [Hle Hall]]]].
           ++ exists w. rewrite Er. split; [left; reflexivity|]. split; [lra|].
              intros aw [<-|Hin]; [cbn; lra| apply Hall; exact Hin].
           ++ exists w'. split; [right; exact Hin|]. split; [lra|].
              intros aw [<-|Hin']; [cbn; lra| apply Hall; exact Hin'].
        -- destruct (IH s lo (S k) us' ltac:(lia)) as [[Er Hall]|[w' [Hin [Hle Hall]]]].
           ++ left. split; [exact Er|]. intros aw [<-|Hin]; [cbn; lra| apply Hall; exact Hin].
           ++ right. exists w'. split; [right; exact Hin|]. split; [exact Hle|].
              intros aw [<-|Hin']; [cbn; lra| apply Hall; exact Hin'].
      * destruct (IH s lo k us ltac:(lia)) as [[Er Hall]|[w' [Hin [Hle Hall]]]].
        -- left. split; [exact Er|]. intros aw [<-|Hin]; [cbn; lra| apply Hall; exact Hin].
        -- right. exists w'. split; [right; exact Hin|]. split; [exact Hle|].
           intros aw [<-|Hin']; [cbn; lra| apply Hall; exact Hin'].
Qed.

Lemma t3c_scan_min : forall costs us, costs <> [] -> (length costs <= length us)%nat ->
  exists w, In (t3c_scan costs 0 None 0 us, w) costs /\ forall aw, In aw costs -> w <= snd aw.
Proof.
  intros [|[a w] t] us Hne Hl; [congruence|]. cbn [t3c_scan]. cbn [length] in Hl.
  destruct (t3c_scan_some t a w 1%nat us ltac:(lia)) as [[Er Hall]|[w' [Hin [Hle Hall]]]].
  - exists w. rewrite Er. split; [left; reflexivity|]. intros aw [<-|Hin]; [cbn; lra| apply Hall; exact Hin].
  - exists w'. split; [right; exact Hin|]. intros aw [<-|Hin']; [cbn; lra| apply Hall; exact Hin'].
Qed.

Lemma t3c_costs_in : forall means counts var best r w, In (r, w) (t3c_costs means counts var best) ->
  r <> best /\ (r < length means)%nat /\ w = t3c_cost means counts var best r.
Proof.
  intros means counts var best r w H. unfold t3c_costs in H. apply in_map_iff in H.
  destruct H as [a [E Hin]]. inversion E; subst. apply filter_In in Hin. destruct Hin as [Hs Hb].
  apply in_seq in Hs. apply negb_true_iff in Hb. apply Nat.eqb_neq in Hb. repeat split; [exact Hb| lia].
Qed.

Lemma t3c_costs_all : forall means counts var best a, (a < length means)%nat -> a <> best ->
  In (a, t3c_cost means counts var best a) (t3c_costs means counts var best).
Proof.
  intros means counts var best a Ha Hne. unfold t3c_costs. apply in_map_iff. exists a. split; [reflexivity|].
  apply filter_In. split; [apply in_seq; lia|]. apply negb_true_iff. apply Nat.eqb_neq. exact Hne.
Qed.

Lemma t3c_result_lemma : forall means counts var first pick us,
  (2 <= length means)%nat -> (first < length means)%nat -> (length means <= length us)%nat ->
  let r := t3c_sample means counts var first pick us in
  (r < length means)%nat /\
  (r = first \/
   (r <> first /\ pick = false /\ (2 <= nth first counts 0)%nat /\
    forall a, (a < length means)%nat -> a <> first ->
              t3c_cost means counts var first r <= t3c_cost means counts var first a)).
Proof.
  intros means counts var first pick us HA Hf Hus. unfold t3c_sample.
  destruct (Nat.ltb_spec (nth first counts 0%nat) 2) as [Hc|Hc]; [split; [exact Hf| left; reflexivity]|].
  destruct pick; [split; [exact Hf| left; reflexivity]|].
  set (costs := t3c_costs means counts var first).
  assert (Hne : costs <> []).
  { assert (Hin : In ((if Nat.eqb first 0 then 1 else 0)%nat, t3c_cost means counts var first (if Nat.eqb first 0 then 1 else 0)%nat) costs).
    { apply t3c_costs_all; destruct (Nat.eqb_spec first 0); lia. }
    intros E. rewrite E in Hin. destruct Hin. }
  assert (Hlen : (length costs <= length us)%nat).
  { unfold costs, t3c_costs. rewrite map_length.
    eapply Nat.le_trans; [apply filter_len_le|]. rewrite seq_length. exact Hus. }
  destruct (t3c_scan_min costs us Hne Hlen) as [w [Hin Hall]].
  destruct (t3c_costs_in _ _ _ _ _ _ Hin) as [Hr [Hlt Ew]].
  split; [exact Hlt|]. right. split; [exact Hr|]. split; [reflexivity|]. split; [exact Hc|].
  intros a Ha Hna. rewrite <- Ew. apply (Hall _ (t3c_costs_all means counts var first a Ha Hna)).
Qed.
