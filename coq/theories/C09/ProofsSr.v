(* C09/ProofsSr.v — SuccessiveRejectsPolicy: the elimination schedule.  Safety (the pulled arm is always
   an available one, available arms only shrink, one arm fewer per phase, phase lengths are the
   documented n_k - n_{k-1}) and progress (after a computable number of updates exactly one arm is left). *)
From Coq Require Import List Arith ZArith QArith Qminmax Lqa Lia Bool Permutation.
From AIT Require Import Base.Qx C09.Model C09.Spec C09.Machines
  C09.ProofsGreedy C09.ProofsMix C09.ProofsSoftmax C09.ProofsWolf C09.ProofsPga C09.ProofsMachines C09.ProofsEsrl.
Import ListNotations.
Local Open Scope nat_scope.

Definition nk0 (A budget k : nat) : nat := if Nat.eqb k 0 then 0 else sr_nk A budget k.
(* pulls per arm in the current phase (a difference of 0 still costs one call per arm) *)
Definition sr_D (st : sr) : nat := Nat.max 1 (sr_new st - sr_old st).

Definition sr_inv (st : sr) : Prop :=
  1 <= sr_A st /\ 1 <= sr_phase st /\
  NoDup (sr_avail st) /\ Forall (fun x => x < sr_A st) (sr_avail st) /\
  sr_id st < length (sr_avail st) /\ sr_pulls st < sr_D st /\
  (sr_phase st <= sr_A st -> length (sr_avail st) + sr_phase st = sr_A st + 1 /\
                             sr_new st = sr_nk (sr_A st) (sr_budget st) (sr_phase st) /\
                             sr_old st = nk0 (sr_A st) (sr_budget st) (sr_phase st - 1)) /\
  (sr_A st < sr_phase st -> length (sr_avail st) = 1).

Lemma min_pos_go_bound : forall means l i best bv, best < i -> min_pos_go means l i best bv < i + length l.
Proof.
  induction l as [|a t IH]; intros i best bv H; cbn [min_pos_go length]; [lia|].
  destruct (Qlt_le_dec (nthq means a) bv).
  - specialize (IH (S i) i (nthq means a)). lia.
  - specialize (IH (S i) best bv). lia.
Qed.

Lemma min_pos_bound : forall means l, l <> [] -> min_pos means l < length l.
Proof.
  intros means [|a t] H; [congruence|]. cbn [min_pos length].
  pose proof (min_pos_go_bound means t 1 0 (nthq means a)). lia.
Qed.

Lemma sr_init_inv : forall A budget, 1 <= A -> sr_inv (sr_init A budget).
Proof.
  intros A budget HA. unfold sr_inv, sr_init, sr_D. cbn [sr_A sr_phase sr_avail sr_id sr_pulls sr_new sr_old sr_budget].
  rewrite seq_length. split; [exact HA|]. split; [lia|]. split; [apply seq_NoDup|]. split; [apply seq_lt|].
  split; [lia|]. split; [lia|]. split; [| lia].
  intros _. split; [lia|]. split; reflexivity.
Qed.

Lemma sr_step_inv : forall st means, sr_inv st -> sr_inv (sr_step st means).
Proof.
  intros st means [HA [Hp [Hnd [Hr [Hid [Hpl [Hle Hgt]]]]]]]. unfold sr_step. cbv zeta.
  destruct (Nat.ltb_spec (S (sr_pulls st)) (sr_new st - sr_old st)) as [H1|H1].
  - unfold sr_inv, sr_D in *. cbn [sr_A sr_phase sr_avail sr_id sr_pulls sr_new sr_old sr_budget].
    repeat split; try assumption; try lia; try (apply Hle; assumption).
  - destruct (Nat.ltb_spec (S (sr_id st)) (length (sr_avail st))) as [H2|H2].
    + unfold sr_inv, sr_D in *. cbn [sr_A sr_phase sr_avail sr_id sr_pulls sr_new sr_old sr_budget].
      repeat split; try assumption; try lia; try (apply Hle; assumption).
    + destruct (Nat.ltb_spec (sr_A st) (S (sr_phase st))) as [H3|H3].
      * unfold sr_inv, sr_D in *. cbn [sr_A sr_phase sr_avail sr_id sr_pulls sr_new sr_old sr_budget].
        split; [exact HA|]. split; [lia|]. split; [exact Hnd|]. split; [exact Hr|]. split; [lia|]. split; [lia|].
        split; [lia|]. intros _.
        destruct (Nat.le_gt_cases (sr_phase st) (sr_A st)) as [Hc|Hc]; [destruct (Hle Hc) as [Hlen _]; lia| apply Hgt; exact Hc].
      * assert (Hc : sr_phase st <= sr_A st) by lia. destruct (Hle Hc) as [Hlen [Hnew Hold]].
        assert (Hne : sr_avail st <> []) by (intros E; rewrite E in Hid; cbn in Hid; lia).
        pose proof (min_pos_bound means _ Hne) as Hm.
        destruct (swap_remove_props _ _ (sr_A st) Hnd Hr Hm) as [P1 [P2 P3]].
        unfold sr_inv, sr_D. cbn [sr_A sr_phase sr_avail sr_id sr_pulls sr_new sr_old sr_budget].
        split; [exact HA|]. split; [lia|]. split; [exact P1|]. split; [exact P2|]. split; [lia|]. split; [lia|].
        split; [| lia]. intros _. split; [lia|]. split; [reflexivity|].
        unfold nk0. replace (S (sr_phase st) - 1) with (sr_phase st) by lia.
        destruct (Nat.eqb_spec (sr_phase st) 0); [lia| exact Hnew].
Qed.

Lemma sr_run_inv : forall A budget hist, 1 <= A -> sr_inv (sr_run A budget hist) /\ sr_A (sr_run A budget hist) = A /\ sr_budget (sr_run A budget hist) = budget.
Proof.
  intros A budget hist HA. unfold sr_run.
  apply (fold_left_inv _ _ sr_step (fun st => sr_inv st /\ sr_A st = A /\ sr_budget st = budget) (fun _ => True)).
  - intros s m [Hs [HAs Hbs]] _. split; [apply sr_step_inv; exact Hs|].
    unfold sr_step. cbv zeta.
    destruct (Nat.ltb (S (sr_pulls s)) (sr_new s - sr_old s)); [cbn; split; assumption|].
    destruct (Nat.ltb (S (sr_id s)) (length (sr_avail s))); [cbn; split; assumption|].
    destruct (Nat.ltb (sr_A s) (S (sr_phase s))); cbn; split; assumption.
  - split; [apply sr_init_inv; exact HA| split; reflexivity].
  - apply Forall_forall. intros; exact I.
Qed.

(* available arms only shrink *)
Lemma sr_step_incl : forall st means, sr_inv st -> incl (sr_avail (sr_step st means)) (sr_avail st).
Proof.
  intros st means [HA [Hp [Hnd [Hr [Hid _]]]]]. unfold sr_step. cbv zeta.
  destruct (Nat.ltb (S (sr_pulls st)) (sr_new st - sr_old st)); [apply incl_refl|].
  destruct (Nat.ltb (S (sr_id st)) (length (sr_avail st))); [apply incl_refl|].
  destruct (Nat.ltb (sr_A st) (S (sr_phase st))); [apply incl_refl|]. cbn [sr_avail].
  assert (Hne : sr_avail st <> []) by (intros E; rewrite E in Hid; cbn in Hid; lia).
  pose proof (swap_remove_perm _ _ (min_pos_bound means _ Hne)) as P.
  intros x Hx. apply (Permutation_in _ (Permutation_sym P)). right. exact Hx.
Qed.

Lemma sr_fold_incl : forall h st, sr_inv st -> incl (sr_avail (fold_left sr_step h st)) (sr_avail st).
Proof.
  induction h as [|m h IH]; intros st Inv; cbn [fold_left]; [apply incl_refl|].
  eapply incl_tran; [apply IH; apply sr_step_inv; exact Inv| apply sr_step_incl; exact Inv].
Qed.

Lemma sr_safety_lemma : forall A budget hist, 1 <= A ->
  let st := sr_run A budget hist in
  (* the arm to pull is an available, in-range one; the table is its indicator *)
  In (sr_sample st) (sr_avail st) /\ sr_sample st < A /\ NoDup (sr_avail st) /\
  length (sr_policy st) = A /\ is_dist (sr_policy st) /\
  (forall a, nthq (sr_policy st) a == sr_prob st a) /\ in_support (sr_policy st) (sr_sample st) /\
  (* the documented schedule: one arm fewer per phase, n_k - n_{k-1} pulls per arm *)
  (sr_phase st <= A -> length (sr_avail st) + sr_phase st = A + 1 /\
                       sr_new st = sr_nk A budget (sr_phase st) /\ sr_old st = nk0 A budget (sr_phase st - 1)) /\
  (A < sr_phase st -> length (sr_avail st) = 1).
Proof.
  intros A budget hist HA. cbv zeta. destruct (sr_run_inv A budget hist HA) as [Inv [EA EB]].
  set (st := sr_run A budget hist) in *.
  destruct Inv as [_ [Hp [Hnd [Hr [Hid [Hpl [Hle Hgt]]]]]]]. rewrite EA, EB in *.
  assert (Hin : In (sr_sample st) (sr_avail st)) by (unfold sr_sample; apply nth_In; exact Hid).
  assert (Hlt : sr_sample st < A) by (apply (proj1 (Forall_forall _ _) Hr); exact Hin).
  destruct (indicator_props A (sr_sample st) Hlt) as [L [D Hn]].
  unfold sr_policy, sr_prob. rewrite EA.
  split; [exact Hin|]. split; [exact Hlt|]. split; [exact Hnd|]. split; [exact L|]. split; [exact D|].
  split; [intros a; unfold nthq; rewrite Hn; reflexivity|].
  split; [unfold in_support, nthq; rewrite L, Hn, Nat.eqb_refl; split; [exact Hlt| reflexivity]|].
  split; assumption.
Qed.

(* rejected arms are never pulled again: whatever happens later, the arm to pull is among the arms
   that were available before *)
Lemma sr_rejected_never_again_lemma : forall A budget h1 h2, 1 <= A ->
  incl (sr_avail (sr_run A budget (h1 ++ h2))) (sr_avail (sr_run A budget h1)) /\
  In (sr_sample (sr_run A budget (h1 ++ h2))) (sr_avail (sr_run A budget h1)).
Proof.
  intros A budget h1 h2 HA. unfold sr_run at 1 3. rewrite fold_left_app. fold (sr_run A budget h1).
  destruct (sr_run_inv A budget h1 HA) as [Inv _].
  pose proof (sr_fold_incl h2 _ Inv) as I. split; [exact I|]. apply I.
  destruct (sr_run_inv A budget (h1 ++ h2) HA) as [[_ [_ [_ [_ [Hid _]]]]] _].
  unfold sr_run in Hid. rewrite fold_left_app in Hid. fold (sr_run A budget h1) in Hid.
  unfold sr_sample. apply nth_In. exact Hid.
Qed.

(* ---------------------------------------------------------------- progress *)
(* calls of stepUpdateQ still needed to finish the current phase *)
Definition sr_remaining (st : sr) : nat := (length (sr_avail st) - sr_id st) * sr_D st - sr_pulls st.

Lemma sr_remaining_pos : forall st, sr_inv st -> 1 <= sr_remaining st.
Proof.
  intros st [_ [_ [_ [_ [Hid [Hpl _]]]]]]. unfold sr_remaining.
  assert (1 <= length (sr_avail st) - sr_id st) by lia. nia.
Qed.

Lemma sr_step_progress : forall st means, sr_inv st ->
  (sr_remaining st = 1 -> sr_phase (sr_step st means) = S (sr_phase st) /\
                          sr_id (sr_step st means) = 0 /\ sr_pulls (sr_step st means) = 0) /\
  (1 < sr_remaining st -> sr_phase (sr_step st means) = sr_phase st /\
                          sr_remaining (sr_step st means) = sr_remaining st - 1).
Proof.
  intros st means [_ [_ [_ [_ [Hid [Hpl _]]]]]]. unfold sr_remaining, sr_step, sr_D in *. cbv zeta.
  set (len := length (sr_avail st)) in *. set (d := sr_new st - sr_old st) in *.
  destruct (Nat.ltb_spec (S (sr_pulls st)) d) as [H1|H1].
  - cbn [sr_phase sr_avail sr_id sr_pulls sr_new sr_old]. fold len. fold d.
    assert (Nat.max 1 d = d) by lia. split; [intros E; nia| intros _; split; [reflexivity| nia]].
  - assert (Hpe : sr_pulls st = Nat.max 1 d - 1) by lia.
    destruct (Nat.ltb_spec (S (sr_id st)) len) as [H2|H2].
    + cbn [sr_phase sr_avail sr_id sr_pulls sr_new sr_old]. fold len. fold d.
      split; [intros E; nia| intros _; split; [reflexivity| nia]].
    + assert (Hie : len - sr_id st = 1) by lia.
      destruct (Nat.ltb (sr_A st) (S (sr_phase st))); cbn [sr_phase sr_id sr_pulls];
        (split; [intros _; repeat split; reflexivity| intros E; rewrite Hie, Hpe in E; nia]).
Qed.

Lemma sr_step_const : forall st means, sr_A (sr_step st means) = sr_A st /\ sr_budget (sr_step st means) = sr_budget st.
Proof.
  intros st means. unfold sr_step. cbv zeta.
  destruct (Nat.ltb _ _); [split; reflexivity|]. destruct (Nat.ltb _ _); [split; reflexivity|].
  destruct (Nat.ltb _ _); split; reflexivity.
Qed.

Lemma sr_fold_const : forall h st, sr_A (fold_left sr_step h st) = sr_A st /\ sr_budget (fold_left sr_step h st) = sr_budget st.
Proof.
  induction h as [|m h IH]; intros st; cbn [fold_left]; [split; reflexivity|].
  destruct (IH (sr_step st m)) as [E1 E2]. destruct (sr_step_const st m) as [F1 F2]. split; congruence.
Qed.

Lemma sr_fold_inv : forall h st, sr_inv st -> sr_inv (fold_left sr_step h st).
Proof.
  induction h as [|m h IH]; intros st Inv; cbn [fold_left]; [exact Inv|]. apply IH. apply sr_step_inv. exact Inv.
Qed.

(* after exactly [sr_remaining st] further calls the next phase starts (fresh arm index and pull count) *)
Lemma sr_finish_phase : forall r st h, sr_inv st -> sr_remaining st = r -> length h = r ->
  sr_phase (fold_left sr_step h st) = S (sr_phase st) /\
  sr_id (fold_left sr_step h st) = 0 /\ sr_pulls (fold_left sr_step h st) = 0.
Proof.
  induction r as [|r IH]; intros st h Inv Er Hl.
  - pose proof (sr_remaining_pos st Inv). lia.
  - destruct h as [|m h]; [discriminate|]. cbn [length] in Hl. cbn [fold_left].
    destruct (sr_step_progress st m Inv) as [P1 P2].
    destruct r.
    + destruct h; [| discriminate]. cbn [fold_left]. apply P1. exact Er.
    + destruct P2 as [Pp Pr]; [lia|]. rewrite <- Pp.
      apply IH; [apply sr_step_inv; exact Inv| lia| lia].
Qed.

(* phases never go backwards *)
Lemma sr_step_phase_mono : forall st means, sr_phase st <= sr_phase (sr_step st means).
Proof.
  intros st means. unfold sr_step. cbv zeta.
  destruct (Nat.ltb (S (sr_pulls st)) (sr_new st - sr_old st)); [cbn; lia|].
  destruct (Nat.ltb (S (sr_id st)) (length (sr_avail st))); [cbn; lia|].
  destruct (Nat.ltb (sr_A st) (S (sr_phase st))); cbn; lia.
Qed.

Lemma sr_fold_phase_mono : forall h st, sr_phase st <= sr_phase (fold_left sr_step h st).
Proof.
  induction h as [|m h IH]; intros st; cbn [fold_left]; [lia|].
  eapply Nat.le_trans; [apply sr_step_phase_mono| apply IH].
Qed.

(* number of stepUpdateQ calls of phase k and of all phases: functions of A and the budget only *)
Definition phase_len (A budget k : nat) : nat := (A + 1 - k) * Nat.max 1 (sr_nk A budget k - nk0 A budget (k - 1)).
Fixpoint total_from (A budget k cnt : nat) : nat :=
  match cnt with O => 0 | S c => phase_len A budget k + total_from A budget (S k) c end.
Definition sr_total (A budget : nat) : nat := total_from A budget 1 A.

Lemma sr_phases_end : forall cnt k st h, sr_inv st -> sr_phase st = k -> sr_id st = 0 -> sr_pulls st = 0 ->
  k + cnt = sr_A st + 1 -> length h = total_from (sr_A st) (sr_budget st) k cnt ->
  sr_phase (fold_left sr_step h st) = sr_A st + 1.
Proof.
  induction cnt as [|cnt IH]; intros k st h Inv Ek Ei Epl Hk Hl; cbn [total_from] in Hl.
  - destruct h; [| discriminate]. cbn [fold_left]. lia.
  - assert (Hle : sr_phase st <= sr_A st) by lia.
    pose proof Inv as [_ [_ [_ [_ [_ [_ [Hsched _]]]]]]]. destruct (Hsched Hle) as [Hlen [Hnew Hold]].
    assert (Er : sr_remaining st = phase_len (sr_A st) (sr_budget st) k).
    { unfold sr_remaining, phase_len, sr_D. rewrite Ei, Epl, Hnew, Hold, Ek.
      replace (length (sr_avail st)) with (sr_A st + 1 - k) by lia. lia. }
    set (n1 := phase_len (sr_A st) (sr_budget st) k) in *.
    rewrite <- (firstn_skipn n1 h). rewrite fold_left_app.
    assert (Hl1 : length (firstn n1 h) = n1) by (rewrite firstn_length; lia).
    assert (Hl2 : length (skipn n1 h) = total_from (sr_A st) (sr_budget st) (S k) cnt) by (rewrite skipn_length; lia).
    destruct (sr_finish_phase n1 st (firstn n1 h) Inv Er Hl1) as [Q1 [Q2 Q3]].
    destruct (sr_fold_const (firstn n1 h) st) as [C1 C2].
    set (st1 := fold_left sr_step (firstn n1 h) st) in *.
    rewrite <- C1. apply (IH (S k) st1).
    + apply sr_fold_inv. exact Inv.
    + rewrite Q1. lia.
    + exact Q2.
    + exact Q3.
    + rewrite C1. lia.
    + rewrite C1, C2. exact Hl2.
Qed.

(* after sr_total A budget calls (a number fixed by A and the budget, whatever the rewards were) all
   phases are over and exactly one arm is left; it stays so for every longer history *)
Lemma sr_eventually_one_lemma : forall A budget hist, 1 <= A -> sr_total A budget <= length hist ->
  A < sr_phase (sr_run A budget hist) /\ length (sr_avail (sr_run A budget hist)) = 1.
Proof.
  intros A budget hist HA Hlen.
  assert (Hp : A < sr_phase (sr_run A budget hist)).
  { unfold sr_run. rewrite <- (firstn_skipn (sr_total A budget) hist). rewrite fold_left_app.
    assert (Hl1 : length (firstn (sr_total A budget) hist) = sr_total A budget) by (rewrite firstn_length; lia).
    pose proof (sr_phases_end A 1 (sr_init A budget) (firstn (sr_total A budget) hist)
                  (sr_init_inv A budget HA) eq_refl eq_refl eq_refl) as E.
    cbn [sr_init sr_A sr_budget] in E. specialize (E ltac:(lia) Hl1).
    pose proof (sr_fold_phase_mono (skipn (sr_total A budget) hist) (fold_left sr_step (firstn (sr_total A budget) hist) (sr_init A budget))).
    lia. }
  split; [exact Hp|].
  destruct (sr_safety_lemma A budget hist HA) as [_ [_ [_ [_ [_ [_ [_ [_ Hgt]]]]]]]]. apply Hgt. exact Hp.
Qed.
