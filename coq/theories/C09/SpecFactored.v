(* C09/SpecFactored.v — the joint action space of a factored policy (independent of the C++). *)
From Coq Require Import List Arith.
Import ListNotations.

(* every joint action, in lexicographic order (first factor slowest) *)
Fixpoint joint (A : list nat) : list (list nat) :=
  match A with
  | [] => [[]]
  | n :: t => flat_map (fun x => map (cons x) (joint t)) (seq 0 n)
  end.

(* a is a joint action of the space A: one entry per factor, each below its size *)
Definition in_space (A a : list nat) : Prop := Forall2 lt a A.
