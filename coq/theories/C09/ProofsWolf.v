(* C09/ProofsWolf.v — WoLFPolicy::stepUpdateP keeps every row (actual and average policy) a
   probability vector, for every history of updates. *)
From Coq Require Import List Arith ZArith QArith Qminmax Lqa Lia Bool.
From AIT Require Import Base.Qx C09.Model C09.Spec C09.ProofsGreedy C09.ProofsMix C09.ProofsSoftmax.
Import ListNotations.
Local Open Scope Q_scope.

Lemma vred_veq : forall v, veq (vred v) v.
Proof. induction v as [|x v IH]; constructor; [apply Qred_correct| exact IH]. Qed.

Lemma vred_length : forall v, length (vred v) = length v.
Proof. intros; apply map_length. Qed.

Lemma normalise_length : forall v, length (normalise v) = length v.
Proof. intros; unfold normalise; apply map_length. Qed.

Lemma normalise_is_dist : forall v, nonneg v -> 0 < qsum v -> is_dist (normalise v).
Proof. intros v N H. unfold normalise. cbv zeta. apply normalise_dist; assumption. Qed.

Lemma qsum_combine_lin : forall (a b : vec) k, length a = length b ->
  qsum (map (fun p => fst p * k + snd p) (combine a b)) == k * qsum a + qsum b.
Proof.
  induction a as [|x a IH]; intros [|y b] k H; cbn in H; try lia; cbn [combine map qsum fst snd]; [lra|].
  rewrite IH by lia. lra.
Qed.

Lemma combine_lin_nonneg : forall (a b : vec) k, nonneg a -> nonneg b -> 0 <= k ->
  nonneg (map (fun p => fst p * k + snd p) (combine a b)).
Proof.
  intros a b k Na Nb Hk. unfold nonneg in *. apply Forall_forall. intros z Hz.
  apply in_map_iff in Hz. destruct Hz as [[x y] [<- Hin]]. cbn [fst snd].
  pose proof (proj1 (Forall_forall _ _) Na x (in_combine_l _ _ _ _ Hin)) as Hx.
  pose proof (proj1 (Forall_forall _ _) Nb y (in_combine_r _ _ _ _ Hin)) as Hy.
  cbn beta in Hx, Hy. nra.
Qed.

Lemma set_nth_length : forall l i y, length (set_nth i y l) = length l.
Proof. induction l as [|x l IH]; intros [|i] y; cbn [set_nth length]; try reflexivity. rewrite IH; reflexivity. Qed.

Lemma qsum_set_nth : forall l i y, (i < length l)%nat -> qsum (set_nth i y l) == qsum l - nth i l 0 + y.
Proof.
  induction l as [|x l IH]; intros i y H; cbn [length] in H; [lia|].
  destruct i; cbn [set_nth qsum nth]; [lra|]. rewrite IH by lia. lra.
Qed.

Lemma set_nth_nonneg : forall l i y, nonneg l -> 0 <= y -> nonneg (set_nth i y l).
Proof.
  induction l as [|x l IH]; intros i y N Hy; [destruct i; constructor|].
  inversion N; subst. destruct i; cbn [set_nth]; constructor; try assumption. apply IH; assumption.
Qed.

Lemma nth_le_qsum : forall l i, nonneg l -> nth i l 0 <= qsum l.
Proof.
  intros l i N. destruct (Nat.lt_ge_cases i (length l)) as [H|H].
  - apply qsum_ge_in; [exact N| apply nth_In; exact H].
  - rewrite nth_overflow by exact H. apply qsum_nonneg; exact N.
Qed.

(* indices produced by the tie scan are in range (no separation needed) *)
Lemma sample_scan_bound : forall l a best buf, (forall i, In i buf -> (i < a)%nat) ->
  forall i, In i (sample_scan l a best buf) -> (i < a + length l)%nat.
Proof.
  induction l as [|v l IH]; intros a best buf Hb i Hi; cbn [sample_scan length] in *.
  - specialize (Hb i Hi). lia.
  - destruct (eqGeneral v best).
    + apply IH in Hi; [lia|]. intros j Hj. apply in_app_iff in Hj. destruct Hj as [Hj|[<-|[]]]; [specialize (Hb j Hj); lia| lia].
    + destruct (Qlt_le_dec best v).
      * apply IH in Hi; [lia|]. intros j [<-|[]]. lia.
      * apply IH in Hi; [lia|]. intros j Hj. specialize (Hb j Hj). lia.
Qed.

Lemma greedy_sample_bound : forall q sel, q <> [] -> (greedy_sample q sel < length q)%nat.
Proof.
  intros [|x t] sel Hne; [congruence|]. unfold greedy_sample, greedy_tieset.
  destruct (Nat.lt_ge_cases sel (length (sample_scan t 1 x [0%nat]))) as [H|H].
  - pose proof (sample_scan_bound t 1 x [0%nat]) as B.
    assert (Hb : forall i, In i [0%nat] -> (i < 1)%nat) by (intros i [<-|[]]; lia).
    specialize (B Hb _ (nth_In _ 0%nat H)). cbn [length]. lia.
  - rewrite nth_overflow by exact H. cbn [length]. lia.
Qed.

Definition row_ok (A : nat) (r : wolf_row) : Prop :=
  length (w_act r) = A /\ is_dist (w_act r) /\ length (w_avg r) = A /\ is_dist (w_avg r).

Lemma wolf_init_ok : forall A, (1 <= A)%nat -> row_ok A (wolf_init A).
Proof.
  intros A HA. assert (Hk : 0 < qnat A) by (apply qnat_pos; lia).
  assert (D : is_dist (repeat (1 / qn A) A)).
  { split.
    - unfold nonneg. apply Forall_forall. intros x Hx. apply repeat_spec in Hx. subst.
      change (qn A) with (qnat A). apply Qlt_le_weak. apply Qlt_shift_div_l; [exact Hk| lra].
    - rewrite qsum_repeat. change (qn A) with (qnat A). field. lra. }
  unfold row_ok, wolf_init. cbn [w_act w_avg]. rewrite repeat_length. repeat split; try reflexivity; apply D.
Qed.

Lemma wolf_step_row_ok : forall dW dL scaling q A st sel, (2 <= A)%nat -> 0 <= dW -> 0 <= dL -> 0 < scaling ->
  length q = A -> row_ok A st -> row_ok A (wolf_step_row dW dL scaling q st sel).
Proof.
  intros dW dL scaling q A st sel HA HW HL Hsc Hq [Hla [[Na Sa] [Hlv [Nv Sv]]]].
  unfold wolf_step_row. cbv zeta. cbn [w_act w_avg w_c].
  set (lin := map (fun p => fst p * qn (w_c st) + snd p) (combine (w_avg st) (w_act st))).
  set (avg := normalise lin).
  set (best := greedy_sample q sel).
  set (delta0 := if Qlt_le_dec (dot q avg) (dot q (w_act st)) then dW else dL).
  set (den := qn (S (w_c st)) / scaling + 1).
  set (delta := delta0 / den).
  set (d := delta / qn (length q - 1)).
  set (old := nthq (w_act st) best).
  set (act1 := map (fun x => Qmax (x - d) 0) (w_act st)).
  set (y := Qmin 1 (old + delta)).
  assert (Hc0 : 0 <= qn (w_c st)) by (change (qn (w_c st)) with (qnat (w_c st)); apply qnat_nonneg).
  (* average row *)
  assert (Nlin : nonneg lin) by (apply combine_lin_nonneg; assumption).
  assert (Slin : 0 < qsum lin).
  { unfold lin. rewrite qsum_combine_lin by congruence. rewrite Sa, Sv. lra. }
  assert (Davg : is_dist avg) by (apply normalise_is_dist; assumption).
  assert (Lavg : length avg = A).
  { unfold avg. rewrite normalise_length. unfold lin. rewrite map_length, combine_length. lia. }
  (* delta >= 0 *)
  assert (Hden : 0 < den).
  { unfold den. assert (0 <= qn (S (w_c st)) / scaling).
    { apply Qle_shift_div_l; [exact Hsc|]. change (qn (S (w_c st))) with (qnat (S (w_c st))).
      pose proof (qnat_nonneg (S (w_c st))). lra. }
    lra. }
  assert (Hd0 : 0 <= delta0) by (unfold delta0; destruct (Qlt_le_dec _ _); assumption).
  assert (Hdelta : 0 <= delta) by (unfold delta; apply Qle_shift_div_l; [exact Hden| lra]).
  assert (Hk1 : 0 < qn (length q - 1)) by (change (qn (length q - 1)) with (qnat (length q - 1)); apply qnat_pos; lia).
  assert (Hd : 0 <= d) by (unfold d; apply Qle_shift_div_l; [exact Hk1| lra]).
  (* best action in range, old in [0,1] *)
  assert (Hbest : (best < length (w_act st))%nat).
  { rewrite Hla, <- Hq. apply greedy_sample_bound. intros ->. cbn in Hq. lia. }
  destruct (dist_le1 _ old (conj Na Sa) (nthq_in _ _ Hbest)) as [Hold0 Hold1].
  assert (Hy0 : 0 <= y) by (unfold y; destruct (Q.min_spec 1 (old + delta)) as [[_ ->]|[_ ->]]; lra).
  (* the clipped row *)
  assert (N1 : nonneg act1).
  { unfold act1, nonneg. apply Forall_forall. intros z Hz. apply in_map_iff in Hz. destruct Hz as [x [<- _]].
    apply Q.le_max_r. }
  assert (L1 : length act1 = length (w_act st)) by (unfold act1; apply map_length).
  assert (N2 : nonneg (set_nth best y act1)) by (apply set_nth_nonneg; assumption).
  assert (S2 : 0 < qsum (set_nth best y act1)).
  { rewrite qsum_set_nth by (rewrite L1; exact Hbest).
    pose proof (nth_le_qsum act1 best N1) as Hle.
    destruct (Qlt_le_dec 0 y) as [Hy|Hy]; [lra|].
    (* y = 0: old = 0 and delta = 0, the row is unchanged *)
    assert (Ey : y == 0) by lra.
    assert (Hod : old + delta <= 0).
    { unfold y in Ey. destruct (Q.min_spec 1 (old + delta)) as [[_ E]|[_ E]]; rewrite E in Ey; lra. }
    assert (Ed : d == 0).
    { unfold d. assert (E0 : delta == 0) by lra. rewrite E0. unfold Qdiv. lra. }
    assert (E1 : qsum act1 == 1).
    { unfold act1. rewrite (qsum_map_ext _ (fun x => Qmax (x - d) 0) (fun x => 1 * x)).
      - rewrite qsum_map_scale, Sa. lra.
      - intros x Hx. pose proof (proj1 (Forall_forall _ _) Na x Hx) as Hx0. cbn beta in Hx0.
        rewrite Ed. destruct (Q.max_spec (x - 0) 0) as [[? ->]|[? ->]]; lra. }
    assert (En : nth best act1 0 == 0).
    { change (nth best act1 0) with (nthq act1 best). unfold act1. rewrite nthq_map by exact Hbest.
      fold old. rewrite Ed. destruct (Q.max_spec (old - 0) 0) as [[_ ->]|[_ ->]]; lra. }
    lra. }
  unfold row_ok. cbn [w_act w_avg]. repeat split.
  - rewrite vred_length, normalise_length, set_nth_length, L1. exact Hla.
  - eapply veq_nonneg; [apply vred_veq| apply (normalise_is_dist _ N2 S2)].
  - rewrite (veq_qsum _ _ (vred_veq _)). apply (normalise_is_dist _ N2 S2).
  - rewrite vred_length. exact Lavg.
  - eapply veq_nonneg; [apply vred_veq| apply Davg].
  - rewrite (veq_qsum _ _ (vred_veq _)). apply Davg.
Qed.

Lemma upd_row_forall : forall (P : wolf_row -> Prop) (f : wolf_row -> wolf_row) l s,
  Forall P l -> (forall r, P r -> (s < length l)%nat -> P (f r)) -> Forall P (upd_row s f l).
Proof.
  intros P f. induction l as [|r l IH]; intros s H Hf; [destruct s; constructor|].
  inversion H; subst. destruct s; cbn [upd_row]; constructor; try assumption.
  - apply Hf; [assumption| cbn; lia].
  - apply IH; [assumption|]. intros r' Hr' Hs. apply Hf; [assumption| cbn; lia].
Qed.

Lemma upd_row_length : forall f l s, length (upd_row s f l) = length l.
Proof. intros f. induction l as [|r l IH]; intros [|s]; cbn [upd_row length]; try reflexivity. rewrite IH; reflexivity. Qed.

Lemma wolf_rows_dist_lemma : forall dW dL scaling qm A ops,
  (2 <= A)%nat -> 0 <= dW -> 0 <= dL -> 0 < scaling -> Forall (fun r => length r = A) qm ->
  length (wolf_run dW dL scaling qm A ops) = length qm /\
  Forall (row_ok A) (wolf_run dW dL scaling qm A ops).
Proof.
  intros dW dL scaling qm A ops HA HW HL Hsc Hqm. unfold wolf_run.
  set (Inv := fun st : list wolf_row => length st = length qm /\ Forall (row_ok A) st).
  assert (H : Inv (fold_left (wolf_step dW dL scaling qm) ops (repeat (wolf_init A) (length qm)))).
  { apply (fold_left_inv _ _ (wolf_step dW dL scaling qm) Inv (fun _ => True)).
    - intros st [s sel] [Hl Hok] _. unfold wolf_step. split; [rewrite upd_row_length; exact Hl|].
      apply upd_row_forall; [exact Hok|]. intros r Hr Hs.
      apply wolf_step_row_ok; try assumption.
      rewrite Hl in Hs. unfold row.
      apply (proj1 (Forall_forall _ _) Hqm). apply nth_In. exact Hs.
    - split; [apply repeat_length|]. apply Forall_forall. intros r Hr. apply repeat_spec in Hr. subst.
      apply wolf_init_ok. lia.
    - apply Forall_forall. intros; exact I. }
  exact H.
Qed.
