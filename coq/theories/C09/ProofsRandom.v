(* C09/ProofsRandom.v — RandomPolicy (Bandit, MDP) and BanditPolicyAdaptor are coherent distributions. *)
From Coq Require Import List Arith ZArith QArith Lia Lqa.
From AIT Require Import Base.Qx C09.Spec C09.ModelRandom C09.ProofsGreedy.
Import ListNotations.
Local Open Scope Q_scope.

Lemma qsum_repeat : forall x n, qsum (repeat x n) == qnat n * x.
Proof.
  intros x n. induction n as [|n IH]; cbn [repeat qsum].
  - change (qnat 0) with 0. lra.
  - rewrite IH, qnat_S. lra.
Qed.

Lemma nonneg_repeat : forall x n, 0 <= x -> nonneg (repeat x n).
Proof. intros x n Hx. induction n; cbn [repeat]; constructor; assumption. Qed.

Lemma nth_repeat_in : forall (T : Type) (x d : T) n a, (a < n)%nat -> nth a (repeat x n) d = x.
Proof.
  intros T x d n. induction n as [|n IH]; intros a H; [lia|].
  destruct a as [|a]; cbn [repeat nth]; [reflexivity| apply IH; lia].
Qed.

Lemma nthq_repeat : forall x n a, (a < n)%nat -> nthq (repeat x n) a = x.
Proof. intros x n a H. unfold nthq. apply nth_repeat_in; exact H. Qed.

Lemma inv_qnat_pos : forall A, (1 <= A)%nat -> 0 < 1 / qnat A.
Proof.
  intros A HA. pose proof (qnat_pos A HA) as Hp.
  unfold Qdiv. rewrite Qmult_1_l. apply Qinv_lt_0_compat. exact Hp.
Qed.

Lemma random_dist_lemma : forall A, (1 <= A)%nat ->
  length (rnd_policy A) = A /\ is_dist (rnd_policy A) /\ agrees (rnd_policy A) (rnd_prob A) /\
  (forall a, (a < A)%nat -> 0 < nthq (rnd_policy A) a).
Proof.
  intros A HA. pose proof (qnat_pos A HA) as Hp. pose proof (inv_qnat_pos A HA) as Hi.
  unfold rnd_policy. split; [apply repeat_length|]. split; [split|split].
  - apply nonneg_repeat. lra.
  - rewrite qsum_repeat. field. lra.
  - intros a Ha. rewrite repeat_length in Ha. rewrite nthq_repeat by exact Ha. reflexivity.
  - intros a Ha. rewrite nthq_repeat by exact Ha. exact Hi.
Qed.

Lemma random_sample_lemma : forall A draw, (1 <= A)%nat ->
  (fst (rnd_bounds A) <= draw <= snd (rnd_bounds A))%nat ->
  (rnd_sample A draw < A)%nat /\ in_support (rnd_policy A) (rnd_sample A draw) /\
  0 < rnd_prob A (rnd_sample A draw).
Proof.
  intros A draw HA [_ Hd]. cbn [rnd_bounds fst snd] in Hd. unfold rnd_sample.
  assert (Hlt : (draw < A)%nat) by lia.
  destruct (random_dist_lemma A HA) as (Hl & _ & _ & Hpos).
  split; [exact Hlt|]. split; [split; [rewrite Hl; exact Hlt| apply Hpos; exact Hlt]|].
  unfold rnd_prob. apply inv_qnat_pos; exact HA.
Qed.

Lemma row_repeat : forall (p : vec) S s, (s < S)%nat -> row (repeat p S) s = p.
Proof. intros p S s H. unfold row. apply nth_repeat_in; exact H. Qed.

Lemma adaptor_rows_lemma : forall S bpol bprob, is_dist bpol -> agrees bpol bprob ->
  length (adapt_policy S bpol) = S /\
  forall s, (s < S)%nat ->
    row (adapt_policy S bpol) s = bpol /\ is_dist (row (adapt_policy S bpol) s) /\
    agrees (row (adapt_policy S bpol) s) (adapt_prob bprob s) /\
    (forall b, in_support bpol b -> in_support (row (adapt_policy S bpol) s) (adapt_sample b s)).
Proof.
  intros S bpol bprob Hd Hag. unfold adapt_policy. split; [apply repeat_length|].
  intros s Hs. rewrite (row_repeat bpol S s Hs). split; [reflexivity|]. split; [exact Hd|].
  split; [exact Hag|]. intros b Hb. exact Hb.
Qed.

Lemma mdp_random_rows_dist_lemma : forall S A, (1 <= A)%nat ->
  length (mrnd_policy S A) = S /\
  forall s, (s < S)%nat ->
    length (row (mrnd_policy S A) s) = A /\ is_dist (row (mrnd_policy S A) s) /\
    agrees (row (mrnd_policy S A) s) (mrnd_prob S A s) /\
    (forall draw, (fst (rnd_bounds A) <= draw <= snd (rnd_bounds A))%nat ->
       (mrnd_sample S A s draw < A)%nat /\ in_support (row (mrnd_policy S A) s) (mrnd_sample S A s draw)).
Proof.
  intros S A HA. destruct (random_dist_lemma A HA) as (Hl & Hd & Hag & _).
  destruct (adaptor_rows_lemma S (rnd_policy A) (rnd_prob A) Hd Hag) as (HS & Hrows).
  split; [exact HS|]. intros s Hs. destruct (Hrows s Hs) as (Er & Hdr & Har & Hsup).
  unfold mrnd_policy. split; [rewrite Er; exact Hl|]. split; [exact Hdr|]. split; [exact Har|].
  intros draw Hdraw. destruct (random_sample_lemma A draw HA Hdraw) as (Hlt & Hin & _).
  split; [exact Hlt|]. apply Hsup. exact Hin.
Qed.
