(* C09/Spec.v — the mathematics of property C09, written independently of the C++ loops:
   what a coherent greedy policy is, the separation hypothesis the property grants, and the
   boolean checkers the driver evaluates on the implementation's outputs. *)
From Coq Require Import List Arith ZArith QArith Qminmax Bool.
From AIT Require Import Base.Qx.
Import ListNotations.
Local Open Scope Q_scope.

Definition qnat (n : nat) : Q := inject_Z (Z.of_nat n).

(* "exact ties, or separated by more than the library's equality tolerance": two values the
   library would call equal are equal. *)
Definition separated (q : vec) : Prop :=
  forall x y, In x q -> In y q -> eqGeneral x y = true -> x == y.
Definition separatedb (q : vec) : bool :=
  forallb (fun x => forallb (fun y => Qeq_bool x y || negb (eqGeneral x y)) q) q.

(* number of entries equal to m, and their positions *)
Definition cnt (m : Q) (l : vec) : nat := length (filter (fun v => Qeq_bool v m) l).
Fixpoint eqidx (m : Q) (l : vec) (i : nat) : list nat :=
  match l with
  | [] => []
  | v :: t => if Qeq_bool v m then i :: eqidx m t (S i) else eqidx m t (S i)
  end.

(* the greedy distribution: uniform over the maximisers *)
Definition maxset (q : vec) : list nat := eqidx (maxl q) q 0.
Definition greedy_spec (q : vec) : vec :=
  map (fun v => if Qeq_bool v (maxl q) then 1 / qnat (cnt (maxl q) q) else 0) q.

Definition shift (c : Q) (q : vec) : vec := map (fun x => x + c) q.

(* table and per-action query agree *)
Definition agrees (table : vec) (query : nat -> Q) : Prop :=
  forall a, (a < length table)%nat -> nthq table a == query a.

(* approximate distribution (what a double-valued table can satisfy): entries >= 0 and the sum
   within d of one *)
Definition is_dist_tol (d : Q) (p : vec) : Prop := nonneg p /\ - d <= qsum p - 1 /\ qsum p - 1 <= d.
Definition is_dist_tolb (d : Q) (p : vec) : bool :=
  nonnegb p && Qle_bool (- d) (qsum p - 1) && Qle_bool (qsum p - 1) d.

(* entrywise closeness of table and list of queries, boolean *)
Definition closeb (d : Q) (v w : vec) : bool :=
  Nat.eqb (length v) (length w) &&
  forallb (fun p => Qle_bool (- d) (fst p - snd p) && Qle_bool (fst p - snd p) d) (combine v w).

(* all mass on maximal entries of q (up to slack d on the values): p_a > 0 -> q_a >= max - d *)
Definition mass_on_maxb (d : Q) (q p : vec) : bool :=
  forallb (fun qp => Qle_bool (snd qp) 0 || Qle_bool (maxl q - d) (fst qp)) (combine q p).
Definition mass_on_max (d : Q) (q p : vec) : Prop :=
  forall a, (a < length q)%nat -> (a < length p)%nat -> 0 < nthq p a -> maxl q - d <= nthq q a.

(* sampled action in range and of positive probability *)
Definition in_supportb (p : vec) (a : nat) : bool :=
  Nat.ltb a (length p) && negb (Qle_bool (nthq p a) 0).
Definition in_support (p : vec) (a : nat) : Prop := (a < length p)%nat /\ 0 < nthq p a.

(* what the softmax theorems assume of exp (libm / Eigen): non-negative (underflow to 0 allowed),
   monotone, and exp 0 = 1 *)
Definition exp_like (ex : Q -> Q) : Prop :=
  (forall x, 0 <= ex x) /\ (forall x y, x <= y -> ex x <= ex y) /\ ex 0 == 1.
