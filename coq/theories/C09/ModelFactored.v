(* C09/ModelFactored.v — Factored::Bandit::RandomPolicy and Factored::Bandit::SingleActionPolicy
   (round 6; model only).  Joint actions are lists of nat, the action space A is the list of factor sizes. *)
From Coq Require Import List Arith ZArith QArith Bool.
From AIT Require Import Base.Qx C09.Spec.
Import ListNotations.
Local Open Scope Q_scope.

(* src: src/Factored/Utils/Core.cpp:factorSpace
   retval = 1; for f in space: retval *= f;  (the size_t wraparound saturation is not modelled:
   nat is unbounded) *)
Fixpoint fs_from (acc : nat) (A : list nat) : nat :=
  match A with [] => acc | f :: t => fs_from (acc * f)%nat t end.
Definition factor_space (A : list nat) : nat := fs_from 1%nat A.

(* src: src/Factored/Bandit/Policies/RandomPolicy.cpp:RandomPolicy::RandomPolicy
   randomDistributions_.emplace_back(0, getA()[a]-1) for every agent a *)
Definition frnd_bounds (A : list nat) : list (nat * nat) := map (fun n => (O, (n - 1)%nat)) A.

(* src: src/Factored/Bandit/Policies/RandomPolicy.cpp:RandomPolicy::sampleActionNoAlloc
   for a < getA().size(): action_[a] = randomDistributions_[a](rand_);  draws in agent order *)
Definition frnd_sample (A : list nat) (draws : list nat) : list nat := firstn (length A) draws.

(* src: src/Factored/Bandit/Policies/RandomPolicy.cpp:RandomPolicy::getActionProbability
   return 1.0/factorSpace(getA());  (argument ignored) *)
Definition frnd_prob (A : list nat) (a : list nat) : Q := 1 / qnat (factor_space A).

(* src: include/AIToolbox/Utils/Core.hpp:veccmp(lhs, rhs) == 0
   loop over lhs.size(); the inputs are assumed equally sized (a shorter rhs is an out-of-range read) *)
Fixpoint veceq (lhs rhs : list nat) : bool :=
  match lhs, rhs with
  | [], _ => true
  | x :: l, y :: r => Nat.eqb x y && veceq l r
  | _ :: _, [] => false
  end.

(* src: src/Factored/Bandit/Policies/SingleActionPolicy.cpp:SingleActionPolicy::SingleActionPolicy
   currentAction_(A.size()): all zeros *)
Definition sa_init (A : list nat) : list nat := repeat O (length A).
(* src: SingleActionPolicy::updateAction *)
Definition sa_update (cur a : list nat) : list nat := a.
(* src: SingleActionPolicy::sampleAction *)
Definition sa_sample (cur : list nat) : list nat := cur.
(* src: SingleActionPolicy::getActionProbability: veccmp(a, currentAction_) == 0 ? 1.0 : 0.0 *)
Definition sa_prob (cur a : list nat) : Q := if veceq a cur then 1 else 0.
