(* C15/ProofsMdpFull.v — factored-MDP LinearProgramming::solveLP (repaired makeResult): the whole
   constraint system is satisfiable for weights w exactly when
       R(s,a) + sum_k w_k (gamma g_k(s,a) - h_k(s)) <= 0     at EVERY joint (s, a);
   with g_k = the expectation of h_k under the transition function this is the flat MDP LP
       V_w(s) >= R(s,a) + gamma sum_s' P(s'|s,a) V_w(s'). *)
From Coq Require Import List Arith ZArith QArith Qminmax Bool Lia Lqa.
From AIT Require Import Base.Qx C15.Model C15.Spec C15.ProofsBase C15.ProofsGraph C15.ProofsVE C15.ProofsSetup
                        C15.ProofsMdp C15.ProofsMdpSetup C15.ProofsOrder.
Import ListNotations.
Local Open Scope nat_scope.

Definition mlp_rows (S A : list nat) (h : list bf) (g R : list bm) (gam : Q) (order : list nat) : list row :=
  fst (fst (mlp_system S A h g R gam order)).

Definition mlp_vstart (S : list nat) (h : list bf) (g R : list bm) (gam : Q) : vstate :=
  (ss_g (mlp_setup S h g R gam), [], ss_n (mlp_setup S h g R gam), ss_rows (mlp_setup S h g R gam)).

Lemma mlp_rows_eq : forall S A h g R gam order,
  mlp_rows S A h g R gam order =
  st_rows (run_ve 1 (S ++ A) (mlp_vstart S h g R gam) order) ++
  mlp_result_rows (st_fin (run_ve 1 (S ++ A) (mlp_vstart S h g R gam) order)).
Proof.
  intros. unfold mlp_rows, mlp_system, mlp_system_gen, mlp_vstart. rewrite (ss_eta (mlp_setup S h g R gam)) at 1.
  cbn [ss_g ss_rows ss_n fst snd].
  match goal with |- context [run_ve 1 (S ++ A) ?st order] => rewrite (st_eta (run_ve 1 (S ++ A) st order)) at 1 end.
  reflexivity.
Qed.

Lemma st00_inv1 : forall SS K, sinv1 SS K ([], [], K).
Proof.
  intros. unfold sinv1, ss_g, ss_rows, ss_n. cbn [fst snd].
  split; [intros nd []|]. split; [intros nd []|]. split; [intros nd []|]. split; [constructor | lia].
Qed.

Lemma mlp_projection_c_lemma : forall S A h g R gam order (w : nat -> Q),
  mlp_wf S A h g R -> order_ok (S ++ A) order ->
  ((exists val, agree (length h) val w /\ feasible val (mlp_rows S A h g R gam order))
   <-> (forall s a, in_space S s -> in_space A a -> (mlp_flat_c S A h g R gam w s a <= 0)%Q)).
Proof.
  intros S A h g R gam order w HW Ho.
  pose proof (mlp_items_ok S A h g R gam HW) as Hok.
  assert (Hl : length g <= length h) by (destruct HW as [_ [_ [_ [_ [_ H]]]]]; exact H).
  assert (HSA : Forall (fun s => 0 < s) (S ++ A)) by (destruct HW as [H1 [H2 _]]; apply Forall_app; split; assumption).
  pose proof (add_items_inv (S ++ A) (length h) _ _ Hok (st00_inv1 (S ++ A) (length h))) as Hinv.
  rewrite <- mlp_setup_items in Hinv. destruct Hinv as [I1 [I2 [I3 [I4 I5]]]].
  assert (Hal : galign 1 (ss_n (mlp_setup S h g R gam)) (ss_g (mlp_setup S h g R gam)) []) by (split; [exact I3 | intros c []]).
  (* value of the initial graph at (s, a) under any valuation satisfying the setup rows *)
  assert (Hsem : forall val s a, feasible val (ss_rows (mlp_setup S h g R gam)) -> in_space S s -> in_space A a ->
            (gval (S ++ A) val (ss_g (mlp_setup S h g R gam)) (s ++ a) == mlp_flat_c S A h g R gam val s a)%Q).
  { intros val s a Hf Hs Ha. rewrite mlp_setup_items in *.
    destruct (add_items_sem (S ++ A) (length h) _ ([], [], length h) val (s ++ a) Hok Hf) as [_ G].
    rewrite G. rewrite (mlp_items_val S A h g R gam val s a HW Hs). unfold ss_g, gval. cbn [fst map qsum]. lra. }
  rewrite mlp_rows_eq. split.
  - intros [val [Hag Hf]] s a Hs Ha.
    assert (Hf0 : feasible val (ss_rows (mlp_setup S h g R gam))).
    { apply feasible_app in Hf. destruct Hf as [Hf _].
      apply (run_rows_mono 1 (S ++ A) order (mlp_vstart S h g R gam) val) in Hf. exact Hf. }
    pose proof (proj1 (ve_projection_lemma (S ++ A) _ _ _ order val HSA Ho I1 I2 Hal I4 Hf0)) as P.
    cbv zeta in P. specialize (P (ex_intro _ val (conj (fun c _ => Qeq_refl (val c)) Hf)) (s ++ a) (in_space_app S A s a Hs Ha)).
    rewrite (Hsem val s a Hf0 Hs Ha) in P. rewrite (mlp_flat_c_ext S A h g R gam val w s a Hl Hag) in P. exact P.
  - intro Hflat.
    destruct (add_items_exists (S ++ A) (length h) _ ([], [], length h) w Hok (st00_inv1 (S ++ A) (length h)) (Forall_nil _))
      as [val0 [Ha0 Hf0]].
    rewrite <- mlp_setup_items in Hf0. cbn [ss_n snd] in Ha0.
    assert (Hx : forall x, in_space (S ++ A) x -> (gval (S ++ A) val0 (ss_g (mlp_setup S h g R gam)) x <= 0)%Q).
    { intros x Hx. apply in_space_split in Hx. destruct Hx as [s [a [-> [Hs Ha]]]].
      rewrite (Hsem val0 s a Hf0 Hs Ha). rewrite (mlp_flat_c_ext S A h g R gam val0 w s a Hl Ha0). apply Hflat; assumption. }
    pose proof (proj2 (ve_projection_lemma (S ++ A) _ _ _ order val0 HSA Ho I1 I2 Hal I4 Hf0) Hx) as [val [Hag Hf]].
    exists val. split; [|exact Hf]. intros c Hc. transitivity (val0 c); [apply Hag; lia | apply Ha0; exact Hc].
Qed.

(* ---------- without clipping: no entry is tiny-but-non-zero ---------- *)
Local Open Scope Q_scope.
Definition exactv (v : Q) : Prop := small_zero v = true -> v == 0.
Definition bf_exact (f : bf) : Prop := Forall exactv (bfVals f).
Definition bm_exact (f : bm) : Prop := Forall (Forall exactv) (bmVals f).

Lemma clip_exact : forall v, exactv v -> clip v == v.
Proof. intros v H. unfold clip. destruct (small_zero v) eqn:E; [symmetry; apply H; exact E | reflexivity]. Qed.

Lemma exactv_0 : exactv 0.
Proof. intros _. reflexivity. Qed.

Lemma nth_exact : forall l i, Forall exactv l -> exactv (nth i l 0).
Proof.
  intros l i H. destruct (Nat.ltb_spec i (length l)) as [Hlt|Hge].
  - rewrite Forall_forall in H. apply H. apply nth_In; exact Hlt.
  - rewrite nth_overflow by exact Hge. apply exactv_0.
Qed.

Lemma bm_at_exact : forall S A f s a, bm_exact f -> exactv (bm_at S A f s a).
Proof.
  intros S A f s a H. unfold bm_at. apply nth_exact.
  destruct (Nat.ltb_spec (pidx (bmTag f) S s) (length (bmVals f))) as [Hlt|Hge].
  - unfold bm_exact in H. rewrite Forall_forall in H. apply H. apply nth_In; exact Hlt.
  - rewrite nth_overflow by exact Hge. constructor.
Qed.

(* V_w(s) = sum_k w_k h_k(s);  R(s,a) = sum_j R_j(s,a) *)
Definition V_at (S : list nat) (h : list bf) (w : nat -> Q) (s : list nat) : Q := wsum_at S h w 0 s.
Fixpoint R_at (S A : list nat) (R : list bm) (s a : list nat) : Q :=
  match R with [] => 0 | f :: t => bm_at S A f s a + R_at S A t s a end.
Fixpoint G_at (S A : list nat) (g : list bm) (w : nat -> Q) (k : nat) (s a : list nat) : Q :=
  match g with [] => 0 | f :: t => w k * bm_at S A f s a + G_at S A t w (Datatypes.S k) s a end.

Lemma hsum_exact : forall S h w k s, Forall bf_exact h -> hsum S h w k s == wsum_at S h w k s.
Proof.
  intros S. induction h as [|f t IH]; intros w k s H; cbn [hsum wsum_at]; [reflexivity|].
  inversion H as [|? ? Hf Ht]; subst. rewrite (IH w (Datatypes.S k) s Ht).
  rewrite clip_exact; [reflexivity|]. unfold entry. apply nth_exact. exact Hf.
Qed.
Lemma gsum_exact : forall S A g w k s a, Forall bm_exact g -> gsum S A g w k s a == G_at S A g w k s a.
Proof.
  intros S A. induction g as [|f t IH]; intros w k s a H; cbn [gsum G_at]; [reflexivity|].
  inversion H as [|? ? Hf Ht]; subst. rewrite (IH w (Datatypes.S k) s a Ht).
  rewrite clip_exact; [reflexivity | apply bm_at_exact; exact Hf].
Qed.
Lemma Rsum_exact : forall S A R s a, Forall bm_exact R -> Rsum S A R s a == R_at S A R s a.
Proof.
  intros S A. induction R as [|f t IH]; intros s a H; cbn [Rsum R_at]; [reflexivity|].
  inversion H as [|? ? Hf Ht]; subst. rewrite (IH s a Ht).
  rewrite clip_exact; [reflexivity | apply bm_at_exact; exact Hf].
Qed.

(* ---------- g = the expectation of h under P ---------- *)
Definition EV (S : list nat) (P : list nat -> Q) (F : list nat -> Q) : Q :=
  qsum (map (fun s1 => P s1 * F s1) (all_assign S)).
(* g_k(s,a) = sum_s1 P(s1 | s, a) * h_k(s1)  (property C14: backproject_is_expectation) *)
Definition is_backprojection (S A : list nat) (P : list nat -> list nat -> list nat -> Q) (h : list bf) (g : list bm) : Prop :=
  Forall2 (fun f gk => forall s a, in_space S s -> in_space A a ->
                       bm_at S A gk s a == EV S (P s a) (entry S f)) h g.

Lemma EV_lin : forall S P (c : Q) (F G : list nat -> Q),
  EV S P (fun s1 => c * F s1 + G s1) == c * EV S P F + EV S P G.
Proof.
  intros S P c F G. unfold EV. induction (all_assign S) as [|x l IH]; cbn [map qsum]; [lra|]. rewrite IH. lra.
Qed.

Lemma EV_zero : forall S P, EV S P (fun _ => 0) == 0.
Proof. intros S P. unfold EV. induction (all_assign S) as [|x l IH]; cbn [map qsum]; [lra|]. rewrite IH. lra. Qed.

Lemma G_at_expect : forall S A P h g w k s a, is_backprojection S A P h g -> in_space S s -> in_space A a ->
  G_at S A g w k s a == EV S (P s a) (fun s1 => wsum_at S h w k s1).
Proof.
  intros S A P h g w k s a H Hs Ha. revert k. induction H as [|f gk h g Hf H IH]; intro k; cbn [G_at wsum_at].
  - rewrite EV_zero. reflexivity.
  - rewrite (EV_lin S (P s a) (w k) (entry S f) (fun s1 => wsum_at S h w (Datatypes.S k) s1)).
    rewrite (Hf s a Hs Ha), (IH (Datatypes.S k)). reflexivity.
Qed.

(* the flat MDP LP constraint at (s, a) *)
Definition bellman_ok (S A : list nat) (h : list bf) (R : list bm) (gam : Q)
           (P : list nat -> list nat -> list nat -> Q) (w : nat -> Q) (s a : list nat) : Prop :=
  R_at S A R s a + gam * EV S (P s a) (V_at S h w) <= V_at S h w s.

Lemma mlp_eq_flat_lemma : forall S A h g R gam P order (w : nat -> Q),
  mlp_wf S A h g R -> order_ok (S ++ A) order ->
  Forall bf_exact h -> Forall bm_exact g -> Forall bm_exact R ->
  is_backprojection S A P h g ->
  ((exists val, agree (length h) val w /\ feasible val (mlp_rows S A h g R gam order))
   <-> (forall s a, in_space S s -> in_space A a -> bellman_ok S A h R gam P w s a)).
Proof.
  intros S A h g R gam P order w HW Ho Eh Eg ER Hbp.
  rewrite (mlp_projection_c_lemma S A h g R gam order w HW Ho).
  assert (E : forall s a, in_space S s -> in_space A a ->
            mlp_flat_c S A h g R gam w s a == R_at S A R s a + gam * EV S (P s a) (V_at S h w) - V_at S h w s).
  { intros s a Hs Ha. unfold mlp_flat_c, V_at. rewrite Rsum_exact, gsum_exact, hsum_exact by assumption.
    rewrite (G_at_expect S A P h g w 0 s a Hbp Hs Ha). reflexivity. }
  unfold bellman_ok. split; intros H s a Hs Ha; specialize (H s a Hs Ha); rewrite (E s a Hs Ha) in *; lra.
Qed.

(* equal optima for any objective that reads only the weights *)
Lemma mlp_optimum_lemma : forall S A h g R gam P order (obj : (nat -> Q) -> Q) (m : Q),
  mlp_wf S A h g R -> order_ok (S ++ A) order ->
  Forall bf_exact h -> Forall bm_exact g -> Forall bm_exact R ->
  is_backprojection S A P h g ->
  (forall val val', agree (length h) val val' -> obj val == obj val') ->
  ((forall val, feasible val (mlp_rows S A h g R gam order) -> m <= obj val)
   <-> (forall w, (forall s a, in_space S s -> in_space A a -> bellman_ok S A h R gam P w s a) -> m <= obj w)).
Proof.
  intros S A h g R gam P order obj m HW Ho Eh Eg ER Hbp Hobj. split.
  - intros H w Hw.
    destruct (proj2 (mlp_eq_flat_lemma S A h g R gam P order w HW Ho Eh Eg ER Hbp) Hw) as [val [Hag Hf]].
    rewrite <- (Hobj val w Hag). apply H; exact Hf.
  - intros H val Hf. apply H.
    apply (proj1 (mlp_eq_flat_lemma S A h g R gam P order val HW Ho Eh Eg ER Hbp)).
    exists val. split; [intros c _; reflexivity | exact Hf].
Qed.

(* the order the code itself uses *)
Lemma mlp_order_ok : forall S A h g R gam, order_ok (S ++ A) (mlp_order S A h g R gam).
Proof. intros. unfold mlp_order. apply heur_order_ok. Qed.

(* hypotheses of the MDP LP theorems are satisfiable: one binary state factor, one binary agent,
   next state uniform, h = the all-ones basis, g = its expectation (all ones), R = diag(1, 2) *)
Lemma ex_mlp_lemma :
  let S := [2%nat] in let A := [2%nat] in
  let h := [mkBf [0%nat] [1; 1]] in let g := [mkBm [0%nat] [0%nat] [[1; 1]; [1; 1]]] in
  let R := [mkBm [0%nat] [0%nat] [[1; 0]; [0; 2]]] in
  mlp_wf S A h g R /\ order_ok (S ++ A) [0%nat; 1%nat] /\
  Forall bf_exact h /\ Forall bm_exact g /\ Forall bm_exact R /\
  is_backprojection S A (fun _ _ _ => 1 # 2) h g.
Proof.
  cbv zeta. split; [|split; [|split; [|split; [|split]]]].
  - unfold mlp_wf, bf_wf, bm_wf. cbn [bfTag bfVals bmTag bmATag bmVals length psize nth join_tag app map].
    repeat split; repeat constructor; try discriminate.
  - split; [repeat constructor|]. intros v Hv. cbn [app length] in Hv. cbn [In]. destruct v as [|[|v]]; auto. lia.
  - repeat constructor; intro H; vm_compute in H; discriminate.
  - repeat constructor; intro H; vm_compute in H; discriminate.
  - repeat constructor; intro H; try (vm_compute in H; discriminate); reflexivity.
  - constructor; [|constructor]. intros s a Hs Ha.
    inversion Hs as [|? d0 ? s1 H0 Hs1]; subst. inversion Hs1; subst.
    inversion Ha as [|? e0 ? a1 H1 Ha1]; subst. inversion Ha1; subst.
    destruct d0 as [|[|d0]]; [| |lia]; (destruct e0 as [|[|e0]]; [| |lia]); vm_compute; reflexivity.
Qed.
