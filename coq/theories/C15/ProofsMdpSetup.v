(* C15/ProofsMdpSetup.v — the initial rules of factored-MDP LinearProgramming::solveLP: one LP column
   per entry of h, g = backProject(T, h) and R that is not (numerically) zero; summed over the graph
   at the joint assignment (s, a) they give  R(s,a) + sum_k w_k (gamma g_k(s,a) - h_k(s)),
   with every entry below 1e-6 in absolute value read as 0 ([clip]). *)
From Coq Require Import List Arith ZArith QArith Qminmax Bool Lia Lqa.
From AIT Require Import Base.Qx C15.Model C15.Spec C15.ProofsBase C15.ProofsGraph C15.ProofsVE C15.ProofsSetup.
Import ListNotations.
Local Open Scope nat_scope.

(* ---------- sums ---------- *)
Lemma qsum_flat_map : forall (X Y : Type) (G : Y -> Q) (f : X -> list Y) (l : list X),
  (qsum (map G (flat_map f l)) == qsum (map (fun x => qsum (map G (f x))) l))%Q.
Proof.
  intros X Y G f l. induction l as [|x l IH]; cbn [flat_map map qsum]; [reflexivity|].
  rewrite map_app, qsum_app, IH. reflexivity.
Qed.

Lemma qsum_zero : forall (X : Type) (G : X -> Q) (l : list X), (forall x, In x l -> (G x == 0)%Q) -> (qsum (map G l) == 0)%Q.
Proof.
  intros X G l H. induction l as [|x l IH]; cbn [map qsum]; [reflexivity|].
  rewrite (H x (or_introl eq_refl)), IH; [lra|]. intros; apply H; right; assumption.
Qed.

Lemma sum_combine_seq : forall (X : Type) (d : X) (F : X -> Q) (l : list X) a j,
  (qsum (map (fun iv : nat * X => if fst iv =? j then F (snd iv) else 0) (combine (seq a (length l)) l)) ==
   if (a <=? j) && (j <? a + length l) then F (nth (j - a) l d) else 0)%Q.
Proof.
  intros X d F l. induction l as [|x l IH]; intros a j; cbn [length seq combine map qsum].
  - destruct (Nat.leb_spec a j); destruct (Nat.ltb_spec j (a + 0)); cbn [andb]; try reflexivity; lia.
  - cbn [fst snd]. rewrite IH. destruct (Nat.eqb_spec a j) as [->|Hne].
    + replace (S j <=? j) with false by (symmetry; apply Nat.leb_gt; lia). cbn [andb].
      replace (j <=? j) with true by (symmetry; apply Nat.leb_le; lia).
      replace (j <? j + S (length l)) with true by (symmetry; apply Nat.ltb_lt; lia). cbn [andb].
      rewrite Nat.sub_diag. cbn [nth]. lra.
    + destruct (Nat.leb_spec a j); destruct (Nat.leb_spec (S a) j); destruct (Nat.ltb_spec j (S a + length l));
        destruct (Nat.ltb_spec j (a + S (length l))); cbn [andb]; try lra; try lia.
      replace (j - a) with (S (j - S a)) by lia. cbn [nth]. lra.
Qed.

(* ---------- clipping ---------- *)
Definition clip (v : Q) : Q := if small_zero v then 0%Q else v.
Definition clipF (F : Q -> Q) (v : Q) : Q := if small_zero v then 0%Q else F v.

Lemma small_zero_0 : small_zero 0 = true.
Proof. reflexivity. Qed.
Lemma clipF_0 : forall F, clipF F 0 = 0%Q.
Proof. intros. unfold clipF. rewrite small_zero_0. reflexivity. Qed.

(* value selected at index j from a sequence of (index, value) entries, small entries read as 0 *)
Definition isum (F : Q -> Q) (ivs : list (nat * Q)) (j : nat) : Q :=
  qsum (map (fun iv : nat * Q => if fst iv =? j then clipF F (snd iv) else 0%Q) ivs).

Lemma isum_vec : forall F vals j, (isum F (vec_entries vals) j == clipF F (nth j vals 0%Q))%Q.
Proof.
  intros F vals j. unfold isum, vec_entries. rewrite (sum_combine_seq Q 0%Q (clipF F) vals 0 j).
  rewrite Nat.sub_0_r. cbn [Nat.leb andb Nat.add]. destruct (Nat.ltb_spec j (length vals)); [reflexivity|].
  rewrite nth_overflow by lia. rewrite clipF_0. reflexivity.
Qed.

Lemma isum_mat : forall F aM m is_ ia, is_ < aM -> length m <= aM ->
  (isum F (mat_entries aM m) (is_ + aM * ia) == clipF F (nth ia (nth is_ m []) 0%Q))%Q.
Proof.
  intros F aM m is_ ia His Hlen. unfold isum, mat_entries. rewrite qsum_flat_map.
  set (H := fun row : list Q => clipF F (nth ia row 0%Q)).
  rewrite (qsum_map_ext _ _ (fun sr : nat * list Q => if fst sr =? is_ then H (snd sr) else 0%Q)).
  - rewrite (sum_combine_seq (list Q) [] H m 0 is_). rewrite Nat.sub_0_r. cbn [Nat.leb andb Nat.add].
    destruct (Nat.ltb_spec is_ (length m)); [reflexivity|].
    rewrite (nth_overflow m) by lia. unfold H. destruct ia; cbn [nth]; rewrite clipF_0; reflexivity.
  - intros [sId row] Hin. cbn [fst snd]. rewrite map_map. cbn [fst snd].
    assert (HsId : sId < aM).
    { apply in_combine_l in Hin. apply in_seq in Hin. lia. }
    destruct (Nat.eqb_spec sId is_) as [->|Hne].
    + rewrite (qsum_map_ext _ _ (fun ac : nat * Q => if fst ac =? ia then clipF F (snd ac) else 0%Q)).
      * rewrite (sum_combine_seq Q 0%Q (clipF F) row 0 ia). rewrite Nat.sub_0_r. cbn [Nat.leb andb Nat.add]. unfold H.
        destruct (Nat.ltb_spec ia (length row)); [reflexivity|]. rewrite nth_overflow by lia. rewrite clipF_0. reflexivity.
      * intros [aId v] _. cbn [fst snd]. destruct (Nat.eqb_spec aId ia) as [->|Hn2].
        -- rewrite Nat.eqb_refl. reflexivity.
        -- replace (is_ + aM * aId =? is_ + aM * ia) with false; [reflexivity|]. symmetry. apply Nat.eqb_neq. nia.
    + apply qsum_zero. intros [aId v] _. cbn [fst snd].
      replace (sId + aM * aId =? is_ + aM * ia) with false; [reflexivity|]. symmetry. apply Nat.eqb_neq.
      intro E. apply Hne.
      assert (E1 : (sId + aM * aId) mod aM = (is_ + aM * ia) mod aM) by (rewrite E; reflexivity).
      rewrite !(Nat.mul_comm aM), !Nat.mod_add in E1 by lia. rewrite !Nat.mod_small in E1 by lia. exact E1.
Qed.

(* ---------- joint (state, action) assignments ---------- *)
Lemma pidx_app : forall k1 k2 SS x, pidx (k1 ++ k2) SS x = pidx k1 SS x + psize k1 SS * pidx k2 SS x.
Proof. induction k1 as [|k t IH]; intros k2 SS x; cbn [app pidx psize]; [lia|]. rewrite IH. ring. Qed.

Lemma pidx_state : forall tag S A s a, Forall (fun k => k < length S) tag -> length s = length S ->
  pidx tag (S ++ A) (s ++ a) = pidx tag S s.
Proof.
  induction tag as [|k t IH]; intros S A s a Ht Hl; cbn [pidx]; [reflexivity|].
  inversion Ht as [|? ? Hk Ht']; subst. rewrite (IH S A s a Ht' Hl).
  rewrite !app_nth1 by lia. reflexivity.
Qed.

Lemma psize_state : forall tag S A, Forall (fun k => k < length S) tag -> psize tag (S ++ A) = psize tag S.
Proof.
  induction tag as [|k t IH]; intros S A Ht; cbn [psize]; [reflexivity|].
  inversion Ht as [|? ? Hk Ht']; subst. rewrite (IH S A Ht'). rewrite app_nth1 by lia. reflexivity.
Qed.

Lemma pidx_action : forall atag S A s a, length s = length S ->
  pidx (map (fun j => length S + j) atag) (S ++ A) (s ++ a) = pidx atag A a.
Proof.
  induction atag as [|k t IH]; intros S A s a Hl; cbn [map pidx]; [reflexivity|].
  rewrite (IH S A s a Hl). rewrite !app_nth2 by lia. rewrite Hl. replace (length S + k - length S) with k by lia. reflexivity.
Qed.

Lemma pidx_join : forall tag atag S A s a, Forall (fun k => k < length S) tag -> length s = length S ->
  pidx (join_tag (length S) tag atag) (S ++ A) (s ++ a) = pidx tag S s + psize tag S * pidx atag A a.
Proof.
  intros. unfold join_tag. rewrite pidx_app, pidx_state, psize_state, pidx_action by assumption. reflexivity.
Qed.

Lemma in_space_app : forall S A s a, in_space S s -> in_space A a -> in_space (S ++ A) (s ++ a).
Proof. intros. unfold in_space in *. apply Forall2_app; assumption. Qed.

Lemma in_space_split : forall S A x, in_space (S ++ A) x -> exists s a, x = s ++ a /\ in_space S s /\ in_space A a.
Proof.
  intros S A x H. unfold in_space in *. apply Forall2_app_inv_l in H. destruct H as [s [a [H1 [H2 ->]]]].
  exists s, a. auto.
Qed.

(* ---------- one maker: sparse rules ---------- *)
Definition sinv1 (SS : list nat) (bound : nat) (st : sstate) : Prop :=
  gin SS (ss_g st) /\ gdone [] (ss_g st) /\
  (forall nd, In nd (ss_g st) -> forall rl, In rl (snd nd) -> snd rl + 1 <= ss_n st) /\
  rows_lt (ss_n st) (ss_rows st) /\ bound <= ss_n st.

(* a maker together with the value its Equal row gives the rule column *)
Record maker := mkMaker { mk_row : nat -> Q -> row; mk_E : (nat -> Q) -> Q -> Q }.
Definition maker_ok (bound : nat) (M : maker) : Prop :=
  (forall val r v, row_sat val (mk_row M r v) <-> (val r == mk_E M val v)%Q) /\
  (forall val val' v, agree bound val val' -> (mk_E M val v == mk_E M val' v)%Q) /\
  (forall r v, bound <= r -> row_lt (r + 1) (mk_row M r v)).

Section Sparse.
Variables (SS : list nat) (bound : nat) (M : maker).
Hypothesis HM : maker_ok bound M.

Lemma sp_props : forall ivs r rows rules r', sparse_rules (mk_row M) r ivs = (rows, rules, r') ->
  r <= r' /\ (forall rl, In rl rules -> r <= snd rl /\ snd rl + 1 <= r') /\ (bound <= r -> rows_lt r' rows).
Proof.
  destruct HM as [_ [_ Hlt]].
  induction ivs as [|[i v] t IH]; intros r rows rules r' H; cbn [sparse_rules] in H.
  - inversion H; subst. split; [lia|]. split; [intros rl []|]. intros _. constructor.
  - destruct (small_zero v); [apply IH; exact H|].
    destruct (sparse_rules (mk_row M) (S r) t) as [[rows1 rules1] r1] eqn:E1. inversion H; subst.
    destruct (IH _ _ _ _ E1) as [P1 [P2 P3]]. split; [lia|]. split.
    + intros rl [<-|Hrl]; cbn [snd]; [lia|]. specialize (P2 rl Hrl). lia.
    + intros Hb. constructor; [|apply P3; lia].
      unfold row_lt. specialize (Hlt r v Hb). unfold row_lt in Hlt. rewrite Forall_forall in *.
      intros ca Hca. specialize (Hlt ca Hca). lia.
Qed.

Lemma sp_sem : forall ivs r rows rules r' val, sparse_rules (mk_row M) r ivs = (rows, rules, r') ->
  feasible val rows -> forall j, (rsum val rules j == isum (mk_E M val) ivs j)%Q.
Proof.
  destruct HM as [Hmk _].
  induction ivs as [|[i v] t IH]; intros r rows rules r' val H Hf j; cbn [sparse_rules] in H.
  - inversion H; subst. reflexivity.
  - unfold isum. cbn [map qsum fst snd]. fold (isum (mk_E M val) t j). unfold clipF.
    destruct (small_zero v).
    + rewrite <- (IH _ _ _ _ val H Hf j). destruct (i =? j); lra.
    + destruct (sparse_rules (mk_row M) (S r) t) as [[rows1 rules1] r1] eqn:E1. inversion H; subst.
      inversion Hf as [|? ? Hr Hf1]; subst. apply Hmk in Hr.
      rewrite <- (IH _ _ _ _ val E1 Hf1 j). unfold rsum. cbn [filter fst].
      destruct (i =? j); cbn [map qsum snd]; [rewrite Hr|]; lra.
Qed.

Lemma sp_exists : forall ivs r rows rules r' val0, sparse_rules (mk_row M) r ivs = (rows, rules, r') ->
  bound <= r -> exists val, agree r val val0 /\ feasible val rows.
Proof.
  destruct HM as [Hmk [HE _]].
  induction ivs as [|[i v] t IH]; intros r rows rules r' val0 H Hb; cbn [sparse_rules] in H.
  - inversion H; subst. exists val0. split; [intros c _; reflexivity | constructor].
  - destruct (small_zero v); [apply (IH _ _ _ _ val0 H Hb)|].
    destruct (sparse_rules (mk_row M) (S r) t) as [[rows1 rules1] r1] eqn:E1. inversion H; subst.
    set (val1 := fun c => if c =? r then mk_E M val0 v else val0 c).
    destruct (IH _ _ _ _ val1 E1 ltac:(lia)) as [val [Ha Hf]].
    assert (Hag : agree r val val0).
    { intros c Hc. transitivity (val1 c); [apply Ha; lia|]. unfold val1.
      replace (c =? r) with false by (symmetry; apply Nat.eqb_neq; lia). reflexivity. }
    exists val. split; [exact Hag|]. constructor; [|exact Hf]. apply Hmk.
    transitivity (val1 r); [apply Ha; lia|]. unfold val1. rewrite Nat.eqb_refl.
    apply HE. intros c Hc. symmetry. apply Hag. lia.
Qed.

Lemma as_unfold : forall tag ivs st rows rules r', sparse_rules (mk_row M) (ss_n st) ivs = (rows, rules, r') ->
  add_sparse (mk_row M) tag ivs st = (upd_node tag (fun old => old ++ rules) (ss_g st), ss_rows st ++ rows, r').
Proof. intros tag ivs [[g rows0] n] rows rules r' H. unfold add_sparse. cbn [ss_n snd] in H. rewrite H. reflexivity. Qed.

Lemma as_inv : forall tag ivs st, sinv1 SS bound st -> tag <> [] -> Forall (fun k => k < length SS) tag ->
  sinv1 SS bound (add_sparse (mk_row M) tag ivs st).
Proof.
  intros tag ivs st [I1 [I2 [I3 [I4 I5]]]] W1 W2.
  destruct (sparse_rules (mk_row M) (ss_n st) ivs) as [[rows rules] r'] eqn:E1.
  rewrite (as_unfold tag ivs st _ _ _ E1). destruct (sp_props _ _ _ _ _ E1) as [P1 [P2 P3]].
  unfold sinv1, ss_g, ss_rows, ss_n in *. cbn [fst snd] in *.
  split; [|split; [|split; [|split]]].
  - intros nd H. apply upd_node_in in H. destruct H as [H|[H _]]; [apply I1; exact H | rewrite H; exact W2].
  - intros nd H. apply upd_node_in in H. destruct H as [H|[H _]]; [apply I2; exact H|].
    rewrite H. split; [exact W1 | intros u _ []].
  - intros nd H rl Hrl. apply upd_node_in in H. destruct H as [H|[_ [rs [Hrs Es]]]].
    + specialize (I3 nd H rl Hrl). lia.
    + rewrite Es in Hrl. apply in_app_or in Hrl. destruct Hrl as [Hrl|Hrl].
      * destruct Hrs as [Hrs|Hrs]; [|subst rs; destruct Hrl]. specialize (I3 _ Hrs rl Hrl). cbn [snd] in I3. lia.
      * specialize (P2 rl Hrl). lia.
  - apply Forall_app. split; [apply (rows_lt_mono (snd st)); [lia | exact I4] | apply P3; exact I5].
  - lia.
Qed.

Lemma as_n_mono : forall tag ivs st, ss_n st <= ss_n (add_sparse (mk_row M) tag ivs st).
Proof.
  intros tag ivs st. destruct (sparse_rules (mk_row M) (ss_n st) ivs) as [[rows rules] r'] eqn:E1.
  rewrite (as_unfold tag ivs st _ _ _ E1). destruct (sp_props _ _ _ _ _ E1) as [P1 _]. unfold ss_n in *. cbn [snd]. lia.
Qed.

Lemma as_sem : forall tag ivs st val x,
  feasible val (ss_rows (add_sparse (mk_row M) tag ivs st)) ->
  feasible val (ss_rows st) /\
  (gval SS val (ss_g (add_sparse (mk_row M) tag ivs st)) x ==
   gval SS val (ss_g st) x + isum (mk_E M val) ivs (pidx tag SS x))%Q.
Proof.
  intros tag ivs st val x.
  destruct (sparse_rules (mk_row M) (ss_n st) ivs) as [[rows rules] r'] eqn:E1.
  rewrite (as_unfold tag ivs st _ _ _ E1). unfold ss_g, ss_rows, ss_n in *. cbn [fst snd] in *. intro Hf.
  apply feasible_app in Hf. destruct Hf as [Hf0 Hf1]. split; [exact Hf0|].
  rewrite upd_node_gval. rewrite (sp_sem _ _ _ _ _ val E1 Hf1). reflexivity.
Qed.

Lemma as_exists : forall tag ivs st val0, sinv1 SS bound st -> feasible val0 (ss_rows st) ->
  exists val, agree (ss_n st) val val0 /\ feasible val (ss_rows (add_sparse (mk_row M) tag ivs st)).
Proof.
  intros tag ivs st val0 [I1 [I2 [I3 [I4 I5]]]] Hf.
  destruct (sparse_rules (mk_row M) (ss_n st) ivs) as [[rows rules] r'] eqn:E1.
  rewrite (as_unfold tag ivs st _ _ _ E1). unfold ss_g, ss_rows, ss_n in *. cbn [fst snd] in *.
  destruct (sp_exists _ _ _ _ _ val0 E1 I5) as [val [Ha Hf1]].
  exists val. split; [exact Ha|]. apply feasible_app. split; [|exact Hf1].
  apply (feasible_ext val0 val (snd st)); [| exact I4 | exact Hf]. intros c Hc. symmetry. apply Ha; exact Hc.
Qed.
End Sparse.

(* ---------- a sequence of items (maker, tag, entries) ---------- *)
Record item := mkItem { it_M : maker; it_tag : list nat; it_ivs : list (nat * Q) }.
Definition add_items (st : sstate) (its : list item) : sstate :=
  fold_left (fun st it => add_sparse (mk_row (it_M it)) (it_tag it) (it_ivs it) st) its st.
Definition item_ok (SS : list nat) (bound : nat) (it : item) : Prop :=
  maker_ok bound (it_M it) /\ it_tag it <> [] /\ Forall (fun k => k < length SS) (it_tag it).
(* what the items add to the graph's value at x under val *)
Fixpoint items_val (SS : list nat) (val : nat -> Q) (its : list item) (x : list nat) : Q :=
  match its with
  | [] => 0%Q
  | it :: t => (isum (mk_E (it_M it) val) (it_ivs it) (pidx (it_tag it) SS x) + items_val SS val t x)%Q
  end.

Lemma add_items_inv : forall SS bound its st, Forall (item_ok SS bound) its -> sinv1 SS bound st -> sinv1 SS bound (add_items st its).
Proof.
  intros SS bound its. induction its as [|it t IH]; intros st Hok Hi; cbn [add_items fold_left]; [exact Hi|].
  inversion Hok as [|? ? [O1 [O2 O3]] Ht]; subst. apply IH; [exact Ht|]. apply as_inv; assumption.
Qed.

Lemma add_items_n_mono : forall SS bound its st, Forall (item_ok SS bound) its -> ss_n st <= ss_n (add_items st its).
Proof.
  intros SS bound its. induction its as [|it t IH]; intros st Hok; cbn [add_items fold_left]; [lia|].
  inversion Hok as [|? ? [O1 _] Ht]; subst.
  eapply Nat.le_trans; [apply (as_n_mono bound (it_M it) O1 (it_tag it) (it_ivs it) st) | apply IH; exact Ht].
Qed.

Lemma add_items_sem : forall SS bound its st val x, Forall (item_ok SS bound) its ->
  feasible val (ss_rows (add_items st its)) ->
  feasible val (ss_rows st) /\
  (gval SS val (ss_g (add_items st its)) x == gval SS val (ss_g st) x + items_val SS val its x)%Q.
Proof.
  intros SS bound its. induction its as [|it t IH]; intros st val x Hok Hf; cbn [add_items fold_left items_val] in *.
  - split; [exact Hf | lra].
  - inversion Hok as [|? ? [O1 _] Ht]; subst. destruct (IH _ val x Ht Hf) as [Hf1 G].
    destruct (as_sem SS bound (it_M it) O1 (it_tag it) (it_ivs it) st val x Hf1) as [Hf0 A].
    split; [exact Hf0|]. unfold add_items in G. rewrite G, A. lra.
Qed.

Lemma add_items_exists : forall SS bound its st val0, Forall (item_ok SS bound) its ->
  sinv1 SS bound st -> feasible val0 (ss_rows st) ->
  exists val, agree (ss_n st) val val0 /\ feasible val (ss_rows (add_items st its)).
Proof.
  intros SS bound its. induction its as [|it t IH]; intros st val0 Hok Hi Hf; cbn [add_items fold_left].
  - exists val0. split; [intros c _; reflexivity | exact Hf].
  - inversion Hok as [|? ? [O1 [O2 O3]] Ht]; subst.
    destruct (as_exists SS bound (it_M it) O1 (it_tag it) (it_ivs it) st val0 Hi Hf) as [val1 [Ha1 Hf1]].
    destruct (IH _ val1 Ht (as_inv SS bound (it_M it) O1 (it_tag it) (it_ivs it) st Hi O2 O3) Hf1) as [val [Ha Hf2]].
    exists val. split; [|exact Hf2]. intros c Hc. transitivity (val1 c); [apply Ha | apply Ha1; exact Hc].
    pose proof (as_n_mono bound (it_M it) O1 (it_tag it) (it_ivs it) st). lia.
Qed.

(* ---------- the three makers of LinearProgramming::solveLP ---------- *)
Local Open Scope Q_scope.
Definition hM (k : nat) : maker := mkMaker (h_row k) (fun val v => - v * val k).
Definition gM (gam : Q) (k : nat) : maker := mkMaker (g_row gam k) (fun val v => gam * v * val k).
Definition rM : maker := mkMaker r_row (fun _ v => v).

Lemma hM_ok : forall bound k, (k < bound)%nat -> maker_ok bound (hM k).
Proof.
  intros bound k Hk. split; [|split].
  - intros val r v. unfold row_sat. cbn [hM mk_row mk_E h_row rRel rCoefs rRhs lin]. split; intro; lra.
  - intros val val' v Ha. cbn [hM mk_E]. rewrite (Ha k Hk). reflexivity.
  - intros r v Hb. unfold row_lt. cbn [hM mk_row h_row rCoefs]. repeat constructor; cbn [fst]; lia.
Qed.
Lemma gM_ok : forall gam bound k, (k < bound)%nat -> maker_ok bound (gM gam k).
Proof.
  intros gam bound k Hk. split; [|split].
  - intros val r v. unfold row_sat. cbn [gM mk_row mk_E g_row rRel rCoefs rRhs lin]. split; intro; lra.
  - intros val val' v Ha. cbn [gM mk_E]. rewrite (Ha k Hk). reflexivity.
  - intros r v Hb. unfold row_lt. cbn [gM mk_row g_row rCoefs]. repeat constructor; cbn [fst]; lia.
Qed.
Lemma rM_ok : forall bound, maker_ok bound rM.
Proof.
  intros bound. split; [|split].
  - intros val r v. unfold row_sat. cbn [rM mk_row mk_E r_row rRel rCoefs rRhs lin]. split; intro; lra.
  - intros. reflexivity.
  - intros r v Hb. unfold row_lt. cbn [rM mk_row r_row rCoefs]. repeat constructor; cbn [fst]; lia.
Qed.

Fixpoint h_items (k : nat) (h : list bf) : list item :=
  match h with [] => [] | f :: t => mkItem (hM k) (bfTag f) (vec_entries (bfVals f)) :: h_items (Datatypes.S k) t end.
Fixpoint g_items (S : list nat) (gam : Q) (k : nat) (g : list bm) : list item :=
  match g with
  | [] => []
  | f :: t => mkItem (gM gam k) (join_tag (length S) (bmTag f) (bmATag f)) (mat_entries (psize (bmTag f) S) (bmVals f))
              :: g_items S gam (Datatypes.S k) t
  end.
Definition R_items (S : list nat) (R : list bm) : list item :=
  map (fun f => mkItem rM (join_tag (length S) (bmTag f) (bmATag f)) (mat_entries (psize (bmTag f) S) (bmVals f))) R.

Lemma add_h_items : forall h k st, add_h k st h = add_items st (h_items k h).
Proof. induction h as [|f t IH]; intros k st; cbn [add_h h_items add_items fold_left]; [reflexivity | apply IH]. Qed.
Lemma add_g_items : forall S gam g k st, add_g S gam k st g = add_items st (g_items S gam k g).
Proof. intros S gam. induction g as [|f t IH]; intros k st; cbn [add_g g_items add_items fold_left]; [reflexivity | apply IH]. Qed.
Lemma add_R_items : forall S R st, add_R S st R = add_items st (R_items S R).
Proof. intros S R. unfold add_R, R_items, add_items. induction R as [|f t IH]; intros st; cbn [map fold_left]; [reflexivity | apply IH]. Qed.

Definition mlp_items (S : list nat) (h : list bf) (g R : list bm) (gam : Q) : list item :=
  h_items 0 h ++ g_items S gam 0 g ++ R_items S R.

Lemma mlp_setup_items : forall S h g R gam,
  mlp_setup S h g R gam = add_items ([], [], length h) (mlp_items S h g R gam).
Proof.
  intros. unfold mlp_setup, mlp_items, add_items. rewrite !fold_left_app.
  rewrite add_R_items, add_g_items, add_h_items. reflexivity.
Qed.

Lemma items_val_app : forall SS val a b x, items_val SS val (a ++ b) x == items_val SS val a x + items_val SS val b x.
Proof. intros SS val a b x. induction a as [|it t IH]; cbn [app items_val]; [lra | rewrite IH; lra]. Qed.

(* ---------- the flat expression ---------- *)
Definition bm_at (S A : list nat) (f : bm) (s a : list nat) : Q :=
  nth (pidx (bmATag f) A a) (nth (pidx (bmTag f) S s) (bmVals f) []) 0.
Fixpoint hsum (S : list nat) (h : list bf) (w : nat -> Q) (k : nat) (s : list nat) : Q :=
  match h with [] => 0 | f :: t => w k * clip (entry S f s) + hsum S t w (Datatypes.S k) s end.
Fixpoint gsum (S A : list nat) (g : list bm) (w : nat -> Q) (k : nat) (s a : list nat) : Q :=
  match g with [] => 0 | f :: t => w k * clip (bm_at S A f s a) + gsum S A t w (Datatypes.S k) s a end.
Fixpoint Rsum (S A : list nat) (R : list bm) (s a : list nat) : Q :=
  match R with [] => 0 | f :: t => clip (bm_at S A f s a) + Rsum S A t s a end.
(* R(s,a) + sum_k w_k (gamma g_k(s,a) - h_k(s)), entries below 1e-6 read as 0 *)
Definition mlp_flat_c (S A : list nat) (h : list bf) (g R : list bm) (gam : Q) (w : nat -> Q) (s a : list nat) : Q :=
  Rsum S A R s a + gam * gsum S A g w 0 s a - hsum S h w 0 s.

Definition bm_wf (S A : list nat) (f : bm) : Prop :=
  join_tag (length S) (bmTag f) (bmATag f) <> [] /\ Forall (fun k => (k < length S)%nat) (bmTag f) /\
  Forall (fun k => (k < length A)%nat) (bmATag f) /\ (length (bmVals f) <= psize (bmTag f) S)%nat.
Definition mlp_wf (S A : list nat) (h : list bf) (g R : list bm) : Prop :=
  Forall (fun s => (0 < s)%nat) S /\ Forall (fun s => (0 < s)%nat) A /\
  Forall (bf_wf S) h /\ Forall (bm_wf S A) g /\ Forall (bm_wf S A) R /\ (length g <= length h)%nat.

Lemma join_inrange : forall S A f, bm_wf S A f ->
  Forall (fun k => (k < length (S ++ A))%nat) (join_tag (length S) (bmTag f) (bmATag f)).
Proof.
  intros S A f [_ [W2 [W3 _]]]. unfold join_tag. rewrite app_length. apply Forall_app. split.
  - rewrite Forall_forall in *. intros k Hk. specialize (W2 k Hk). lia.
  - rewrite Forall_map. rewrite Forall_forall in *. intros k Hk. specialize (W3 k Hk). lia.
Qed.

Lemma h_items_ok : forall S A bound h k, Forall (bf_wf S) h -> (k + length h <= bound)%nat ->
  Forall (item_ok (S ++ A) bound) (h_items k h).
Proof.
  intros S A bound. induction h as [|f t IH]; intros k HW Hk; cbn [h_items length] in *; [constructor|].
  inversion HW as [|? ? [W1 [W2 W3]] Wt]; subst. constructor; [|apply IH; [exact Wt | lia]].
  split; [apply hM_ok; lia|]. cbn [it_tag]. split; [exact W1|]. rewrite app_length.
  rewrite Forall_forall in *. intros u Hu. specialize (W2 u Hu). lia.
Qed.
Lemma g_items_ok : forall S A gam bound g k, Forall (bm_wf S A) g -> (k + length g <= bound)%nat ->
  Forall (item_ok (S ++ A) bound) (g_items S gam k g).
Proof.
  intros S A gam bound. induction g as [|f t IH]; intros k HW Hk; cbn [g_items length] in *; [constructor|].
  inversion HW as [|? ? Wf Wt]; subst. constructor; [|apply IH; [exact Wt | lia]].
  split; [apply gM_ok; lia|]. cbn [it_tag]. split; [apply Wf | apply join_inrange; exact Wf].
Qed.
Lemma R_items_ok : forall S A bound R, Forall (bm_wf S A) R -> Forall (item_ok (S ++ A) bound) (R_items S R).
Proof.
  intros S A bound R HW. unfold R_items. rewrite Forall_map. rewrite Forall_forall in *. intros f Hf.
  specialize (HW f Hf). split; [apply rM_ok|]. cbn [it_tag]. split; [apply HW | apply join_inrange; exact HW].
Qed.

Lemma clipF_h : forall (val : nat -> Q) k v, clipF (fun v => - v * val k) v == - (val k * clip v).
Proof. intros. unfold clipF, clip. destruct (small_zero v); lra. Qed.
Lemma clipF_g : forall gam (val : nat -> Q) k v, clipF (fun v => gam * v * val k) v == gam * (val k * clip v).
Proof. intros. unfold clipF, clip. destruct (small_zero v); lra. Qed.
Lemma clipF_r : forall v, clipF (fun v => v) v == clip v.
Proof. intros. unfold clipF, clip. destruct (small_zero v); lra. Qed.

Lemma h_items_val : forall S A h k val s a, Forall (bf_wf S) h -> in_space S s ->
  items_val (S ++ A) val (h_items k h) (s ++ a) == - hsum S h val k s.
Proof.
  intros S A. induction h as [|f t IH]; intros k val s a HW Hs; cbn [h_items items_val hsum]; [lra|].
  inversion HW as [|? ? [W1 [W2 W3]] Wt]; subst. rewrite (IH _ val s a Wt Hs). cbn [it_M it_tag it_ivs hM mk_E].
  rewrite isum_vec, clipF_h. rewrite (pidx_state (bfTag f) S A s a W2 (in_space_length S s Hs)). unfold entry. lra.
Qed.

Lemma bm_item_isum : forall S A F f s a, bm_wf S A f -> in_space S s ->
  isum F (mat_entries (psize (bmTag f) S) (bmVals f)) (pidx (join_tag (length S) (bmTag f) (bmATag f)) (S ++ A) (s ++ a))
  == clipF F (bm_at S A f s a).
Proof.
  intros S A F f s a [W1 [W2 [W3 W4]]] Hs.
  rewrite (pidx_join (bmTag f) (bmATag f) S A s a W2 (in_space_length S s Hs)).
  rewrite isum_mat; [reflexivity | | exact W4].
  apply pidx_lt. intros u Hu. apply in_space_nth; [exact Hs|]. rewrite Forall_forall in W2. apply W2; exact Hu.
Qed.

Lemma g_items_val : forall S A gam g k val s a, Forall (bm_wf S A) g -> in_space S s ->
  items_val (S ++ A) val (g_items S gam k g) (s ++ a) == gam * gsum S A g val k s a.
Proof.
  intros S A gam. induction g as [|f t IH]; intros k val s a HW Hs; cbn [g_items items_val gsum]; [lra|].
  inversion HW as [|? ? Wf Wt]; subst. rewrite (IH _ val s a Wt Hs). cbn [it_M it_tag it_ivs gM mk_E].
  rewrite (bm_item_isum S A _ f s a Wf Hs), clipF_g. lra.
Qed.

Lemma R_items_val : forall S A R val s a, Forall (bm_wf S A) R -> in_space S s ->
  items_val (S ++ A) val (R_items S R) (s ++ a) == Rsum S A R s a.
Proof.
  intros S A. induction R as [|f t IH]; intros val s a HW Hs; cbn [R_items map items_val Rsum]; [lra|].
  inversion HW as [|? ? Wf Wt]; subst. fold (R_items S t). rewrite (IH val s a Wt Hs). cbn [it_M it_tag it_ivs rM mk_E].
  rewrite (bm_item_isum S A _ f s a Wf Hs), clipF_r. lra.
Qed.

Lemma mlp_items_val : forall S A h g R gam val s a, mlp_wf S A h g R -> in_space S s ->
  items_val (S ++ A) val (mlp_items S h g R gam) (s ++ a) == mlp_flat_c S A h g R gam val s a.
Proof.
  intros S A h g R gam val s a [HS [HA [Hh [Hg [HR Hl]]]]] Hs. unfold mlp_items, mlp_flat_c.
  rewrite !items_val_app, h_items_val, g_items_val, R_items_val by assumption. lra.
Qed.

Lemma mlp_items_ok : forall S A h g R gam, mlp_wf S A h g R ->
  Forall (item_ok (S ++ A) (length h)) (mlp_items S h g R gam).
Proof.
  intros S A h g R gam [HS [HA [Hh [Hg [HR Hl]]]]]. unfold mlp_items. apply Forall_app. split; [|apply Forall_app; split].
  - apply h_items_ok; [exact Hh | lia].
  - apply g_items_ok; [exact Hg | lia].
  - apply R_items_ok; exact HR.
Qed.

Lemma hsum_ext : forall S h w w' k s, (forall c, (k <= c < k + length h)%nat -> w c == w' c) -> hsum S h w k s == hsum S h w' k s.
Proof.
  intros S. induction h as [|f t IH]; intros w w' k s H; cbn [hsum length] in *; [reflexivity|].
  rewrite (H k ltac:(lia)), (IH w w' (Datatypes.S k) s); [reflexivity|]. intros c Hc. apply H. lia.
Qed.
Lemma gsum_ext : forall S A g w w' k s a, (forall c, (k <= c < k + length g)%nat -> w c == w' c) -> gsum S A g w k s a == gsum S A g w' k s a.
Proof.
  intros S A. induction g as [|f t IH]; intros w w' k s a H; cbn [gsum length] in *; [reflexivity|].
  rewrite (H k ltac:(lia)), (IH w w' (Datatypes.S k) s a); [reflexivity|]. intros c Hc. apply H. lia.
Qed.
Lemma mlp_flat_c_ext : forall S A h g R gam w w' s a, (length g <= length h)%nat -> agree (length h) w w' ->
  mlp_flat_c S A h g R gam w s a == mlp_flat_c S A h g R gam w' s a.
Proof.
  intros. unfold mlp_flat_c. rewrite (hsum_ext S h w w' 0 s), (gsum_ext S A g w w' 0 s a); [reflexivity | |];
    intros c Hc; apply H0; lia.
Qed.
