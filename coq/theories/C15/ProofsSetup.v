(* C15/ProofsSetup.v — the initial rules of FactoredLP::operator(): the Equal rows name, for every
   entry of every input function, a forward column (value of the term) and a reverse column (its
   negation); summed over the graph they give Cw(x) - b(x) and its negation. *)
From Coq Require Import List Arith ZArith QArith Qminmax Bool Lia Lqa.
From AIT Require Import Base.Qx C15.Model C15.Spec C15.ProofsBase C15.ProofsGraph C15.ProofsVE.
Import ListNotations.
Local Open Scope nat_scope.

Definition ss_g (st : sstate) : graph := fst (fst st).
Definition ss_rows (st : sstate) : list row := snd (fst st).
Definition ss_n (st : sstate) : nat := snd st.

Lemma ss_eta : forall st : sstate, st = (ss_g st, ss_rows st, ss_n st).
Proof. intros [[g rows] n]. reflexivity. Qed.

Lemma sh0 : forall val c, sh 0 val c = val c.
Proof. intros. unfold sh. rewrite Nat.add_0_r. reflexivity. Qed.

Definition agree (n : nat) (val val' : nat -> Q) : Prop := forall c, c < n -> (val c == val' c)%Q.

Section Maker.
Variables (S : list nat) (bound : nat).
Variable mk : nat -> Q -> list row.
Variable E : (nat -> Q) -> Q -> Q.
Hypothesis Hmk : forall val r v, feasible val (mk r v) <-> (val r == E val v /\ val (r + 1)%nat == - E val v)%Q.
Hypothesis HE : forall val val' v, agree bound val val' -> (E val v == E val' v)%Q.
Hypothesis Hmklt : forall r v, bound <= r -> rows_lt (r + 2) (mk r v).

Lemma er_props : forall vals i r rows rules r', entry_rules mk i r vals = (rows, rules, r') ->
  r' = r + 2 * length vals /\
  (forall rl, In rl rules -> r <= snd rl /\ snd rl + 2 <= r') /\
  (bound <= r -> rows_lt r' rows).
Proof.
  induction vals as [|v t IH]; intros i r rows rules r' H; cbn [entry_rules] in H.
  - inversion H; subst. cbn [length]. split; [lia|]. split; [intros rl []|]. intros _. constructor.
  - destruct (entry_rules mk (Datatypes.S i) (r + 2) t) as [[rows1 rules1] r1] eqn:E1.
    inversion H; subst. destruct (IH _ _ _ _ _ E1) as [P1 [P2 P3]]. cbn [length]. split; [lia|]. split.
    + intros rl [<-|Hrl]; cbn [snd]; [lia|]. specialize (P2 rl Hrl). lia.
    + intros Hb. apply Forall_app. split.
      * apply (rows_lt_mono (r + 2)); [lia | apply Hmklt; exact Hb].
      * apply P3. lia.
Qed.

(* completeness: under any valuation satisfying the rows, the rules of a basis sum to the term /
   its negation at the selected entry *)
Lemma er_sem : forall vals i r rows rules r' val, entry_rules mk i r vals = (rows, rules, r') ->
  feasible val rows -> forall j,
  (rsum (sh 0 val) rules j == if (i <=? j) && (j <? i + length vals) then E val (nth (j - i) vals 0%Q) else 0)%Q /\
  (rsum (sh 1 val) rules j == if (i <=? j) && (j <? i + length vals) then - E val (nth (j - i) vals 0%Q) else 0)%Q.
Proof.
  induction vals as [|v t IH]; intros i r rows rules r' val H Hf j; cbn [entry_rules] in H.
  - inversion H; subst. unfold rsum. cbn [filter map qsum length].
    destruct (Nat.leb_spec i j); destruct (Nat.ltb_spec j (i + 0)); cbn [andb]; try (split; reflexivity); lia.
  - destruct (entry_rules mk (Datatypes.S i) (r + 2) t) as [[rows1 rules1] r1] eqn:E1.
    inversion H; subst. apply feasible_app in Hf. destruct Hf as [Hf0 Hf1].
    apply Hmk in Hf0. destruct Hf0 as [V0 V1].
    destruct (IH _ _ _ _ _ val E1 Hf1 j) as [I0 I1]. cbn [length].
    unfold rsum in *. cbn [filter fst]. destruct (i =? j) eqn:Eij.
    + apply Nat.eqb_eq in Eij. subst j. cbn [map qsum snd]. rewrite I0, I1.
      replace (Datatypes.S i <=? i) with false by (symmetry; apply Nat.leb_gt; lia). cbn [andb].
      replace (i <=? i) with true by (symmetry; apply Nat.leb_le; lia).
      replace (i <? i + Datatypes.S (length t)) with true by (symmetry; apply Nat.ltb_lt; lia). cbn [andb].
      rewrite Nat.sub_diag. cbn [nth]. rewrite sh0. unfold sh. rewrite V0, V1. split; lra.
    + apply Nat.eqb_neq in Eij. rewrite I0, I1.
      destruct (Nat.leb_spec i j); destruct (Nat.leb_spec (Datatypes.S i) j);
        destruct (Nat.ltb_spec j (Datatypes.S i + length t)); destruct (Nat.ltb_spec j (i + Datatypes.S (length t)));
        cbn [andb]; try (split; reflexivity); try lia.
      replace (j - i) with (Datatypes.S (j - Datatypes.S i)) by lia. cbn [nth]. split; reflexivity.
Qed.

(* soundness: the new columns can always be given values satisfying the Equal rows *)
Lemma er_exists : forall vals i r rows rules r' val0, entry_rules mk i r vals = (rows, rules, r') ->
  bound <= r -> exists val, agree r val val0 /\ feasible val rows.
Proof.
  induction vals as [|v t IH]; intros i r rows rules r' val0 H Hb; cbn [entry_rules] in H.
  - inversion H; subst. exists val0. split; [intros c _; reflexivity | constructor].
  - destruct (entry_rules mk (Datatypes.S i) (r + 2) t) as [[rows1 rules1] r1] eqn:E1.
    inversion H; subst.
    set (val1 := fun c => if c =? r then E val0 v else if c =? r + 1 then (- E val0 v)%Q else val0 c).
    destruct (IH _ _ _ _ _ val1 E1 ltac:(lia)) as [val [Ha Hf]].
    assert (Hag : agree r val val0).
    { intros c Hc. transitivity (val1 c); [apply Ha; lia|]. unfold val1.
      replace (c =? r) with false by (symmetry; apply Nat.eqb_neq; lia).
      replace (c =? r + 1) with false by (symmetry; apply Nat.eqb_neq; lia). reflexivity. }
    exists val. split; [exact Hag|]. apply feasible_app. split; [|exact Hf]. apply Hmk.
    assert (EE : (E val v == E val0 v)%Q) by (apply HE; intros c Hc; apply Hag; lia).
    rewrite EE. split.
    + transitivity (val1 r); [apply Ha; lia|]. unfold val1. rewrite Nat.eqb_refl. reflexivity.
    + transitivity (val1 (r + 1)); [apply Ha; lia|]. unfold val1.
      replace (r + 1 =? r) with false by (symmetry; apply Nat.eqb_neq; lia). rewrite Nat.eqb_refl. reflexivity.
Qed.

(* ----- one basis ----- *)
Definition sinv (st : sstate) : Prop :=
  gin S (ss_g st) /\ gdone [] (ss_g st) /\
  (forall nd, In nd (ss_g st) -> forall rl, In rl (snd nd) -> snd rl + 2 <= ss_n st) /\
  rows_lt (ss_n st) (ss_rows st) /\ bound <= ss_n st.

Lemma ab_unfold : forall st f rows rules r', entry_rules mk 0 (ss_n st) (bfVals f) = (rows, rules, r') ->
  add_basis mk st f = (upd_node (bfTag f) (fun old => old ++ rules) (ss_g st), ss_rows st ++ rows, r').
Proof. intros [[g rows0] n] f rows rules r' H. unfold add_basis. cbn [ss_n snd] in H. rewrite H. reflexivity. Qed.

Lemma ab_inv : forall st f, sinv st -> bf_wf S f -> sinv (add_basis mk st f).
Proof.
  intros st f [I1 [I2 [I3 [I4 I5]]]] [W1 [W2 W3]].
  destruct (entry_rules mk 0 (ss_n st) (bfVals f)) as [[rows rules] r'] eqn:E1.
  rewrite (ab_unfold st f _ _ _ E1). destruct (er_props _ _ _ _ _ _ E1) as [P1 [P2 P3]].
  unfold sinv, ss_g, ss_rows, ss_n in *. cbn [fst snd] in *.
  split; [|split; [|split; [|split]]].
  - intros nd H. apply upd_node_in in H. destruct H as [H|[H _]]; [apply I1; exact H | rewrite H; exact W2].
  - intros nd H. apply upd_node_in in H. destruct H as [H|[H _]]; [apply I2; exact H|].
    rewrite H. split; [exact W1 | intros u _ []].
  - intros nd H rl Hrl. apply upd_node_in in H. destruct H as [H|[_ [rs [Hrs Es]]]].
    + specialize (I3 nd H rl Hrl). lia.
    + rewrite Es in Hrl. apply in_app_or in Hrl. destruct Hrl as [Hrl|Hrl].
      * destruct Hrs as [Hrs|Hrs]; [|subst rs; destruct Hrl]. specialize (I3 _ Hrs rl Hrl). cbn [snd] in I3. lia.
      * specialize (P2 rl Hrl). lia.
  - apply Forall_app. split; [apply (rows_lt_mono (snd st)); [lia | exact I4] | apply P3; exact I5].
  - lia.
Qed.

Lemma ab_n_mono : forall st f, ss_n st <= ss_n (add_basis mk st f).
Proof.
  intros st f. destruct (entry_rules mk 0 (ss_n st) (bfVals f)) as [[rows rules] r'] eqn:E1.
  rewrite (ab_unfold st f _ _ _ E1). destruct (er_props _ _ _ _ _ _ E1) as [P1 _]. unfold ss_n in *. cbn [snd]. lia.
Qed.

Lemma ab_sem : forall st f val x, bf_wf S f -> in_space S x ->
  feasible val (ss_rows (add_basis mk st f)) ->
  feasible val (ss_rows st) /\
  (gval S (sh 0 val) (ss_g (add_basis mk st f)) x == gval S (sh 0 val) (ss_g st) x + E val (entry S f x))%Q /\
  (gval S (sh 1 val) (ss_g (add_basis mk st f)) x == gval S (sh 1 val) (ss_g st) x - E val (entry S f x))%Q.
Proof.
  intros st f val x [W1 [W2 W3]] Hx.
  destruct (entry_rules mk 0 (ss_n st) (bfVals f)) as [[rows rules] r'] eqn:E1.
  rewrite (ab_unfold st f _ _ _ E1). unfold ss_g, ss_rows, ss_n in *. cbn [fst snd] in *. intro Hf.
  apply feasible_app in Hf. destruct Hf as [Hf0 Hf1]. split; [exact Hf0|].
  rewrite !upd_node_gval.
  destruct (er_sem _ _ _ _ _ _ val E1 Hf1 (pidx (bfTag f) S x)) as [R0 R1].
  assert (Hlt : pidx (bfTag f) S x < length (bfVals f)).
  { rewrite W3. apply pidx_lt. intros u Hu. apply in_space_nth; [exact Hx|]. rewrite Forall_forall in W2. apply W2; exact Hu. }
  replace (0 <=? pidx (bfTag f) S x) with true in * by (symmetry; apply Nat.leb_le; lia).
  replace (pidx (bfTag f) S x <? 0 + length (bfVals f)) with true in * by (symmetry; apply Nat.ltb_lt; lia).
  cbn [andb] in *. rewrite Nat.sub_0_r in *. rewrite R0, R1. unfold entry. split; lra.
Qed.

Lemma ab_exists : forall st f val0, sinv st -> feasible val0 (ss_rows st) ->
  exists val, agree (ss_n st) val val0 /\ feasible val (ss_rows (add_basis mk st f)).
Proof.
  intros st f val0 [I1 [I2 [I3 [I4 I5]]]] Hf.
  destruct (entry_rules mk 0 (ss_n st) (bfVals f)) as [[rows rules] r'] eqn:E1.
  rewrite (ab_unfold st f _ _ _ E1). unfold ss_g, ss_rows, ss_n in *. cbn [fst snd] in *.
  destruct (er_exists _ _ _ _ _ _ val0 E1 I5) as [val [Ha Hf1]].
  exists val. split; [exact Ha|]. apply feasible_app. split; [|exact Hf1].
  apply (feasible_ext val0 val (snd st)); [| exact I4 | exact Hf]. intros c Hc. symmetry. apply Ha; exact Hc.
Qed.

End Maker.

(* ---------- the two makers of FactoredLP ---------- *)
Local Open Scope Q_scope.

Definition cE (k : nat) (cst : option (nat * Q)) (val : nat -> Q) (v : Q) : Q :=
  v * val k + match cst with Some (cid, cc) => cc * val cid | None => 0 end.
Definition bE (val : nat -> Q) (v : Q) : Q := - v.

Lemma c_rows_char : forall k cst val r v,
  feasible val (c_rows k cst r v) <-> (val r == cE k cst val v /\ val (r + 1)%nat == - cE k cst val v).
Proof.
  intros k cst val r v. unfold c_rows, cE, feasible. destruct cst as [[cid cc]|].
  - split.
    + intro H. inversion H as [|? ? H1 H']; subst. inversion H' as [|? ? H2 _]; subst.
      unfold row_sat in H1, H2. cbn [rRel rCoefs rRhs lin] in H1, H2. split; lra.
    + intros [H1 H2]. constructor; [|constructor; [|constructor]]; unfold row_sat; cbn [rRel rCoefs rRhs lin]; lra.
  - split.
    + intro H. inversion H as [|? ? H1 H']; subst. inversion H' as [|? ? H2 _]; subst.
      unfold row_sat in H1, H2. cbn [rRel rCoefs rRhs lin] in H1, H2. split; lra.
    + intros [H1 H2]. constructor; [|constructor; [|constructor]]; unfold row_sat; cbn [rRel rCoefs rRhs lin]; lra.
Qed.

Lemma b_rows_char : forall val r v,
  feasible val (b_rows r v) <-> (val r == bE val v /\ val (r + 1)%nat == - bE val v).
Proof.
  intros val r v. unfold b_rows, bE, feasible. split.
  - intro H. inversion H as [|? ? H1 H']; subst. inversion H' as [|? ? H2 _]; subst.
    unfold row_sat in H1, H2. cbn [rRel rCoefs rRhs lin] in H1, H2. split; lra.
  - intros [H1 H2]. constructor; [|constructor; [|constructor]]; unfold row_sat; cbn [rRel rCoefs rRhs lin]; lra.
Qed.

Definition cst_lt (bound : nat) (cst : option (nat * Q)) : Prop :=
  match cst with Some (cid, _) => (cid < bound)%nat | None => True end.

Lemma cE_ext : forall bound k cst val val' v, (k < bound)%nat -> cst_lt bound cst ->
  agree bound val val' -> cE k cst val v == cE k cst val' v.
Proof.
  intros bound k cst val val' v Hk Hc Ha. unfold cE. rewrite (Ha k Hk). destruct cst as [[cid cc]|]; [|reflexivity].
  cbn [cst_lt] in Hc. rewrite (Ha cid Hc). reflexivity.
Qed.

Lemma c_rows_lt : forall bound k cst r v, (k < bound)%nat -> cst_lt bound cst -> (bound <= r)%nat ->
  rows_lt (r + 2) (c_rows k cst r v).
Proof.
  intros bound k cst r v Hk Hc Hb. unfold c_rows, rows_lt, row_lt. destruct cst as [[cid cc]|]; cbn [cst_lt] in Hc;
    repeat constructor; cbn [rCoefs fst]; lia.
Qed.

Lemma b_rows_lt : forall bound r v, (bound <= r)%nat -> rows_lt (r + 2) (b_rows r v).
Proof. intros. unfold b_rows, rows_lt, row_lt. repeat constructor; cbn [rCoefs fst]; lia. Qed.

(* ---------- folding over the bases ---------- *)

(* sum over the C bases of the term of basis k: w_k * C_k(x) + cterm *)
Fixpoint csum (S : list nat) (cst : option (nat * Q)) (C : list bf) (val : nat -> Q) (k : nat) (x : list nat) : Q :=
  match C with [] => 0 | f :: t => cE k cst val (entry S f x) + csum S cst t val (Datatypes.S k) x end.

Lemma add_c_bases_sem : forall S cst C k st val x, Forall (bf_wf S) C -> in_space S x ->
  feasible val (ss_rows (add_c_bases cst k st C)) ->
  feasible val (ss_rows st) /\
  gval S (sh 0 val) (ss_g (add_c_bases cst k st C)) x == gval S (sh 0 val) (ss_g st) x + csum S cst C val k x /\
  gval S (sh 1 val) (ss_g (add_c_bases cst k st C)) x == gval S (sh 1 val) (ss_g st) x - csum S cst C val k x.
Proof.
  intros S cst C. induction C as [|f t IH]; intros k st val x HW Hx Hf; cbn [add_c_bases csum] in *.
  - split; [exact Hf|]. split; lra.
  - inversion HW as [|? ? Wf Wt]; subst.
    destruct (IH (Datatypes.S k) _ val x Wt Hx Hf) as [Hf1 [G0 G1]].
    destruct (ab_sem S (c_rows k cst) (cE k cst) (c_rows_char k cst) st f val x Wf Hx Hf1) as [Hf0 [A0 A1]].
    split; [exact Hf0|]. rewrite G0, G1, A0, A1. split; lra.
Qed.

Lemma add_b_bases_sem : forall S b st val x, Forall (bf_wf S) b -> in_space S x ->
  feasible val (ss_rows (add_b_bases st b)) ->
  feasible val (ss_rows st) /\
  gval S (sh 0 val) (ss_g (add_b_bases st b)) x == gval S (sh 0 val) (ss_g st) x - fv_at S b x /\
  gval S (sh 1 val) (ss_g (add_b_bases st b)) x == gval S (sh 1 val) (ss_g st) x + fv_at S b x.
Proof.
  intros S b. unfold add_b_bases. induction b as [|f t IH]; intros st val x HW Hx Hf; cbn [fold_left fv_at] in *.
  - split; [exact Hf|]. split; lra.
  - inversion HW as [|? ? Wf Wt]; subst.
    destruct (IH _ val x Wt Hx Hf) as [Hf1 [G0 G1]].
    destruct (ab_sem S b_rows bE b_rows_char st f val x Wf Hx Hf1) as [Hf0 [A0 A1]].
    split; [exact Hf0|]. rewrite G0, G1, A0, A1. unfold bE. split; lra.
Qed.

Lemma add_c_bases_inv : forall S bound cst C k st, Forall (bf_wf S) C -> cst_lt bound cst ->
  (k + length C <= bound)%nat -> sinv S bound st -> sinv S bound (add_c_bases cst k st C).
Proof.
  intros S bound cst C. induction C as [|f t IH]; intros k st HW Hc Hk Hi; cbn [add_c_bases length] in *; [exact Hi|].
  inversion HW as [|? ? Wf Wt]; subst. apply IH; auto; [lia|].
  apply (ab_inv S bound (c_rows k cst)); auto. intros r v Hb. apply (c_rows_lt bound); auto. lia.
Qed.

Lemma add_b_bases_inv : forall S bound b st, Forall (bf_wf S) b -> sinv S bound st -> sinv S bound (add_b_bases st b).
Proof.
  intros S bound b. unfold add_b_bases. induction b as [|f t IH]; intros st HW Hi; cbn [fold_left]; [exact Hi|].
  inversion HW as [|? ? Wf Wt]; subst. apply IH; auto.
  apply (ab_inv S bound b_rows); auto. intros r v Hb. apply (b_rows_lt bound); auto.
Qed.

Lemma add_c_bases_exists : forall S bound cst C k st val0, Forall (bf_wf S) C -> cst_lt bound cst ->
  (k + length C <= bound)%nat -> sinv S bound st -> feasible val0 (ss_rows st) ->
  exists val, agree (ss_n st) val val0 /\ feasible val (ss_rows (add_c_bases cst k st C)).
Proof.
  intros S bound cst C. induction C as [|f t IH]; intros k st val0 HW Hc Hk Hi Hf; cbn [add_c_bases length] in *.
  - exists val0. split; [intros c _; reflexivity | exact Hf].
  - inversion HW as [|? ? Wf Wt]; subst.
    assert (Hlt : forall r v, (bound <= r)%nat -> rows_lt (r + 2) (c_rows k cst r v)).
    { intros r v Hb. apply (c_rows_lt bound); auto. lia. }
    assert (HEx : forall val val' v, agree bound val val' -> cE k cst val v == cE k cst val' v).
    { intros val val' v Ha. apply (cE_ext bound); auto. lia. }
    destruct (ab_exists S bound (c_rows k cst) (cE k cst) (c_rows_char k cst) HEx st f val0 Hi Hf) as [val1 [Ha1 Hf1]].
    destruct (IH (Datatypes.S k) (add_basis (c_rows k cst) st f) val1 Wt Hc ltac:(lia)
                 (ab_inv S bound (c_rows k cst) Hlt st f Hi Wf) Hf1) as [val [Ha Hf2]].
    exists val. split; [|exact Hf2]. intros c Hcn. transitivity (val1 c); [apply Ha | apply Ha1; exact Hcn].
    pose proof (ab_n_mono bound (c_rows k cst) Hlt st f). lia.
Qed.

Lemma add_b_bases_exists : forall S bound b st val0, Forall (bf_wf S) b ->
  sinv S bound st -> feasible val0 (ss_rows st) ->
  exists val, agree (ss_n st) val val0 /\ feasible val (ss_rows (add_b_bases st b)).
Proof.
  intros S bound b. unfold add_b_bases. induction b as [|f t IH]; intros st val0 HW Hi Hf; cbn [fold_left].
  - exists val0. split; [intros c _; reflexivity | exact Hf].
  - inversion HW as [|? ? Wf Wt]; subst.
    assert (Hlt : forall r v, (bound <= r)%nat -> rows_lt (r + 2) (b_rows r v)) by (intros; apply (b_rows_lt bound); auto).
    assert (HEx : forall val val' v, agree bound val val' -> bE val v == bE val' v) by (intros; reflexivity).
    destruct (ab_exists S bound b_rows bE b_rows_char HEx st f val0 Hi Hf) as [val1 [Ha1 Hf1]].
    destruct (IH (add_basis b_rows st f) val1 Wt (ab_inv S bound b_rows Hlt st f Hi Wf) Hf1) as [val [Ha Hf2]].
    exists val. split; [|exact Hf2]. intros c Hcn. transitivity (val1 c); [apply Ha | apply Ha1; exact Hcn].
    pose proof (ab_n_mono bound b_rows Hlt st f). lia.
Qed.

(* ---------- the constant basis: |C| copies of 1/|C| add up to one ---------- *)
Lemma csum_value : forall S cst C val k x,
  csum S cst C val k x ==
  wsum_at S C val k x + inject_Z (Z.of_nat (length C)) * match cst with Some (cid, cc) => cc * val cid | None => 0 end.
Proof.
  intros S cst C val. induction C as [|f t IH]; intros k x; cbn [csum wsum_at length].
  - change (inject_Z (Z.of_nat 0)) with 0. destruct cst as [[cid cc]|]; lra.
  - rewrite IH. unfold cE. rewrite Nat2Z.inj_succ. unfold Z.succ. rewrite inject_Z_plus.
    change (inject_Z 1) with 1. destruct cst as [[cid cc]|]; lra.
Qed.

Lemma inv_count : forall n, (0 < n)%nat -> inject_Z (Z.of_nat n) * (1 # Pos.of_nat n) == 1.
Proof.
  intros n H. unfold Qeq, Qmult, inject_Z. cbn [Qnum Qden].
  assert (E : Z.pos (Pos.of_nat n) = Z.of_nat n).
  { rewrite <- (positive_nat_Z (Pos.of_nat n)). rewrite Nat2Pos.id by lia. reflexivity. }
  rewrite Pos2Z.inj_mul. rewrite E. lia.
Qed.

(* ---------- the next free column only grows ---------- *)
Local Open Scope nat_scope.
Lemma er_next : forall mk vals i r, snd (entry_rules mk i r vals) = r + 2 * length vals.
Proof.
  intros mk. induction vals as [|v t IH]; intros i r; cbn [entry_rules length]; [cbn [snd]; lia|].
  specialize (IH (Datatypes.S i) (r + 2)). destruct (entry_rules mk (Datatypes.S i) (r + 2) t) as [[rows rules] r'].
  cbn [snd] in *. lia.
Qed.

Lemma add_basis_n_mono : forall mk st f, ss_n st <= ss_n (add_basis mk st f).
Proof.
  intros mk [[g rows] n] f. unfold add_basis. pose proof (er_next mk (bfVals f) 0 n) as H.
  destruct (entry_rules mk 0 n (bfVals f)) as [[nr rules] r']. unfold ss_n. cbn [snd] in *. lia.
Qed.

Lemma add_c_bases_n_mono : forall cst C k st, ss_n st <= ss_n (add_c_bases cst k st C).
Proof.
  intros cst C. induction C as [|f t IH]; intros k st; cbn [add_c_bases]; [lia|].
  eapply Nat.le_trans; [apply (add_basis_n_mono (c_rows k cst) st f) | apply IH].
Qed.

Lemma add_b_bases_n_mono : forall b st, ss_n st <= ss_n (add_b_bases st b).
Proof.
  intros b. unfold add_b_bases. induction b as [|f t IH]; intros st; cbn [fold_left]; [lia|].
  eapply Nat.le_trans; [apply (add_basis_n_mono b_rows st f) | apply IH].
Qed.
