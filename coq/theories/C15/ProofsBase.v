(* C15/ProofsBase.v — list / index / sum lemmas (index lemmas as in C13/ProofsBase.v, restated
   over this property's own definitions so that the files stay self-contained). *)
From Coq Require Import List Arith QArith Qminmax Bool Lia Lqa.
From AIT Require Import Base.Qx C15.Model C15.Spec.
Import ListNotations.
Local Open Scope nat_scope.

(* ---------- sums of rationals ---------- *)
Fixpoint qsum (l : list Q) : Q := match l with [] => 0%Q | x :: t => (x + qsum t)%Q end.

Lemma qsum_app : forall l1 l2, (qsum (l1 ++ l2) == qsum l1 + qsum l2)%Q.
Proof. induction l1 as [|x l1 IH]; intro l2; cbn [qsum app]; [lra | rewrite IH; lra]. Qed.

Lemma qsum_filter_split : forall (X : Type) (p : X -> bool) (f : X -> Q) (l : list X),
  (qsum (map f l) == qsum (map f (filter p l)) + qsum (map f (filter (fun x => negb (p x)) l)))%Q.
Proof.
  intros X p f l. induction l as [|x l IH]; cbn [map filter qsum]; [lra|].
  destruct (p x); cbn [negb map qsum]; rewrite IH; lra.
Qed.

Lemma qsum_map_ext : forall (X : Type) (f g : X -> Q) (l : list X),
  (forall x, In x l -> (f x == g x)%Q) -> (qsum (map f l) == qsum (map g l))%Q.
Proof.
  intros X f g l H. induction l as [|x l IH]; cbn [map qsum]; [lra|].
  rewrite (H x (or_introl eq_refl)), IH; [lra|]. intros; apply H; right; auto.
Qed.

(* ---------- upd ---------- *)
Lemma upd_length : forall i x l, length (upd i x l) = length l.
Proof. intros i x l; revert i; induction l as [|h t IH]; intros [|i]; cbn [upd length]; auto. Qed.

Lemma nth_upd_same : forall i x l, i < length l -> nth i (upd i x l) 0 = x.
Proof.
  intros i x l; revert i; induction l as [|h t IH]; intros [|i] H; cbn [upd nth length] in *; try lia; auto.
  apply IH; lia.
Qed.

Lemma nth_upd_other : forall i j x l, i <> j -> nth j (upd i x l) 0 = nth j l 0.
Proof.
  intros i j x l; revert i j; induction l as [|h t IH]; intros [|i] [|j] H; cbn [upd nth]; auto; try lia.
Qed.

Lemma upd_self : forall i l, upd i (nth i l 0) l = l.
Proof. intros i l; revert i; induction l as [|h t IH]; intros [|i]; cbn [upd nth]; auto. f_equal; apply IH. Qed.

(* ---------- joint assignments ---------- *)
Lemma in_space_length : forall S x, in_space S x -> length x = length S.
Proof. intros S x H. induction H; cbn [length]; auto. Qed.

Lemma in_space_nth : forall S x, in_space S x -> forall k, k < length S -> nth k x 0 < nth k S 0.
Proof.
  intros S x H. induction H as [|s d S x Hd H IH]; intros k Hk; cbn [length] in Hk; [lia|].
  destruct k as [|k]; cbn [nth]; [exact Hd | apply IH; lia].
Qed.

Lemma in_space_upd : forall S x i d, in_space S x -> d < nth i S 0 -> in_space S (upd i d x).
Proof.
  intros S x i d H. revert i. induction H as [|s e S x He H IH]; intros i Hd.
  - destruct i; cbn [upd]; constructor.
  - destruct i as [|i]; cbn [upd nth] in *.
    + constructor; [exact Hd | exact H].
    + constructor; [exact He | apply IH; exact Hd].
Qed.

Lemma in_all_assign : forall S x, in_space S x -> In x (all_assign S).
Proof.
  intros S x H. induction H as [|s d S x Hd H IH]; cbn [all_assign]; [left; reflexivity|].
  apply in_flat_map. exists x. split; [exact IH|]. apply in_map_iff. exists d. split; [reflexivity | apply in_seq; lia].
Qed.

Lemma all_assign_in_space : forall S x, In x (all_assign S) -> in_space S x.
Proof.
  induction S as [|s S IH]; intros x H; cbn [all_assign] in H.
  - destruct H as [<-|[]]. constructor.
  - apply in_flat_map in H. destruct H as [xs [Hxs H]]. apply in_map_iff in H.
    destruct H as [d [<- Hd]]. apply in_seq in Hd. constructor; [lia | apply IH; exact Hxs].
Qed.

Lemma all_assign_nonempty : forall S, Forall (fun s => 0 < s) S -> all_assign S <> [].
Proof.
  intros S H. assert (E : exists x, in_space S x).
  { induction H as [|s S Hs H [x IH]]; [exists []; constructor|]. exists (0 :: x). constructor; auto. }
  destruct E as [x Hx]. apply in_all_assign in Hx. intro E. rewrite E in Hx. destruct Hx.
Qed.

(* ---------- list_eqb, mem ---------- *)
Lemma list_eqb_eq : forall a b, list_eqb a b = true -> a = b.
Proof.
  induction a as [|x a IH]; intros [|y b] H; cbn [list_eqb] in H; try discriminate; auto.
  apply andb_true_iff in H. destruct H as [H1 H2]. apply Nat.eqb_eq in H1. f_equal; auto.
Qed.

Lemma mem_In : forall x l, mem x l = true <-> In x l.
Proof.
  intros x l. unfold mem. rewrite existsb_exists. split.
  - intros [y [Hy He]]. apply Nat.eqb_eq in He. subst; auto.
  - intro H. exists x. split; [auto | apply Nat.eqb_refl].
Qed.

Lemma mem_false : forall x l, mem x l = false <-> ~ In x l.
Proof.
  intros x l. rewrite <- mem_In. destruct (mem x l); split; intro H.
  - discriminate H.
  - exfalso; apply H; reflexivity.
  - intro H'; discriminate H'.
  - reflexivity.
Qed.

(* ---------- mixed-radix index ---------- *)
Lemma pidx_agree : forall keys S a b,
  (forall k, In k keys -> nth k a 0 = nth k b 0) -> pidx keys S a = pidx keys S b.
Proof.
  induction keys as [|k t IH]; intros S a b H; cbn [pidx]; auto.
  rewrite (H k (or_introl eq_refl)). rewrite (IH S a b); auto. intros; apply H; right; auto.
Qed.

Lemma pidx_lt : forall keys S a,
  (forall k, In k keys -> nth k a 0 < nth k S 0) -> pidx keys S a < psize keys S.
Proof.
  induction keys as [|k t IH]; intros S a H; cbn [pidx psize]; [lia|].
  assert (H1 := H k (or_introl eq_refl)).
  assert (H2 : pidx t S a < psize t S) by (apply IH; intros; apply H; right; auto).
  nia.
Qed.

Lemma pdec_pidx : forall keys S a,
  (forall k, In k keys -> nth k a 0 < nth k S 0) ->
  pdec keys S (pidx keys S a) = map (fun k => nth k a 0) keys.
Proof.
  induction keys as [|k t IH]; intros S a H; cbn [pdec pidx map]; auto.
  assert (H1 := H k (or_introl eq_refl)).
  assert (Hpos : nth k S 0 <> 0) by lia.
  f_equal.
  - rewrite Nat.mul_comm, Nat.mod_add by exact Hpos. apply Nat.mod_small; exact H1.
  - rewrite Nat.mul_comm, Nat.div_add by exact Hpos. rewrite Nat.div_small by exact H1.
    cbn [Nat.add]. apply IH. intros; apply H; right; auto.
Qed.

Lemma nth_map_seq : forall (f : nat -> nat) n k, k < n -> nth k (map f (seq 0 n)) 0 = f k.
Proof.
  intros f n k H. rewrite (nth_indep _ 0 (f 0)) by (rewrite map_length, seq_length; exact H).
  rewrite map_nth. rewrite seq_nth by exact H. reflexivity.
Qed.

Lemma nth_scatter : forall keys vals n k, k < n -> nth k (scatter keys vals n) 0 = assoc k (combine keys vals).
Proof. intros. unfold scatter. apply (nth_map_seq (fun i => assoc i (combine keys vals))); auto. Qed.

Lemma scatter_length : forall keys vals n, length (scatter keys vals n) = n.
Proof. intros. unfold scatter. rewrite map_length, seq_length. reflexivity. Qed.

Lemma assoc_combine_map : forall keys (f : nat -> nat) k, In k keys -> assoc k (combine keys (map f keys)) = f k.
Proof.
  induction keys as [|k0 t IH]; intros f k H; [destruct H|].
  cbn [map combine assoc]. destruct (k0 =? k) eqn:E.
  - apply Nat.eqb_eq in E. subst; auto.
  - destruct H as [H|H]; [subst; rewrite Nat.eqb_refl in E; discriminate | apply IH; auto].
Qed.

(* the joint value number (pidx N S x) of the neighbours, seen full-length, agrees with x on N *)
Lemma base_of_agree : forall S N x k,
  in_space S x -> Forall (fun u => u < length S) N -> In k N ->
  nth k (base_of S N (pidx N S x)) 0 = nth k x 0.
Proof.
  intros S N x k Hx HN Hk. unfold base_of.
  assert (Hk' : k < length S) by (rewrite Forall_forall in HN; apply HN; exact Hk).
  rewrite nth_scatter by exact Hk'.
  rewrite pdec_pidx.
  - apply (assoc_combine_map N (fun k => nth k x 0)); exact Hk.
  - intros u Hu. apply in_space_nth; [exact Hx|]. rewrite Forall_forall in HN. apply HN; exact Hu.
Qed.

(* ---------- the flat checker ---------- *)
Local Open Scope Q_scope.

Lemma qabs_bound : forall e phi, qabs e <= phi <-> - phi <= e /\ e <= phi.
Proof.
  intros e phi. unfold qabs. split.
  - intro H. pose proof (Q.le_max_l e (- e)). pose proof (Q.le_max_r e (- e)). split; lra.
  - intros [H1 H2]. apply Q.max_lub; lra.
Qed.

Lemma flat_maxerr_spec : forall S C b ac w phi,
  Forall (fun s => (0 < s)%nat) S ->
  (flat_maxerr S C b ac w <= phi <-> flat_feasible S C b ac (wl w) phi).
Proof.
  intros S C b ac w phi HS. unfold flat_maxerr, flat_feasible.
  set (f := fun x => Qred (qabs (flat_err S C b ac (wl w) x))).
  assert (Hne : map f (all_assign S) <> []).
  { intro E. apply map_eq_nil in E. revert E. apply all_assign_nonempty; exact HS. }
  split.
  - intros H x Hx. apply qabs_bound.
    assert (Hin : In (f x) (map f (all_assign S))) by (apply in_map, in_all_assign; exact Hx).
    pose proof (maxl_ub _ _ Hin) as Hub. unfold f in Hub at 1. rewrite Qred_correct in Hub. lra.
  - intro H. apply maxl_le; [exact Hne|]. intros y Hy. apply in_map_iff in Hy.
    destruct Hy as [x [<- Hx]]. unfold f. rewrite Qred_correct. apply qabs_bound. apply H.
    apply all_assign_in_space; exact Hx.
Qed.
