(* C15/ProofsQ.v — q_is_backup: the flat value of the returned Q-function at every joint (s, a) is
   R(s,a) + gamma * sum_s1 P(s1|s,a) * V_w(s1).  Uses C14's models and lemmas (read-only); adds the
   flat theorem for FactoredMatrix2D plusEqual (C14 checks it by oracle only). *)
From Coq Require Import List Arith Lia ZArith QArith Lqa Bool.
From AIT Require Import C14.Model C14.Spec C14.Proofs C14.ProofsEnum C14.ModelAlg C14.SpecAlg C14.ProofsAlg
  C14.ProofsCore C14.ModelDDN C14.SpecDDN C14.ProofsDDN C14.ProofsBP C14.Model2D C14.Spec2D C14.Proofs2D.
From AIT Require Import C15.ModelQ.
Import ListNotations.
Local Open Scope Q_scope.

(* ---------- zipk ---------- *)
Lemma zipk_length : forall (X Y : Type) (op : X -> Y -> X) a (b : list Y), length (zipk op a b) = length a.
Proof. intros X Y op a; induction a as [|x a IH]; intros [|y b]; cbn [zipk length]; try reflexivity. rewrite IH. reflexivity. Qed.

Lemma zipk_nth : forall (X Y : Type) (op : X -> Y -> X) a (b : list Y) (dx : X) (dy : Y) i,
  (i < length a)%nat -> (i < length b)%nat -> nth i (zipk op a b) dx = op (nth i a dx) (nth i b dy).
Proof.
  intros X Y op a; induction a as [|x a IH]; intros [|y b] dx dy i Ha Hb; cbn [length] in *; try lia.
  cbn [zipk]. destruct i; cbn [nth]; [reflexivity | apply IH; lia].
Qed.

Lemma zipk_Forall : forall (X Y : Type) (P : X -> Prop) (op : X -> Y -> X) a (b : list Y),
  Forall P a -> (forall x y, P x -> P (op x y)) -> Forall P (zipk op a b).
Proof.
  intros X Y P op a; induction a as [|x a IH]; intros [|y b] Ha Hop; cbn [zipk]; try exact Ha.
  inversion Ha; subst. constructor; [apply Hop; assumption | apply IH; assumption].
Qed.

(* a basis matrix as the library's validators accept it: both tags non-empty *)
Definition bm_ok (SS AA : list nat) (b : bm) : Prop := bm_wf SS AA b /\ bmTag b <> [] /\ bmActionTag b <> [].

Lemma enum_nth : forall space tag x, tag <> [] -> tag_ok space tag -> in_space space x ->
  nth (toIndexPartial tag space x) (enum_assignments space tag) [] = sub tag x /\
  (toIndexPartial tag space x < length (enum_assignments space tag))%nat /\
  length (enum_assignments space tag) = factorSpacePartial tag space.
Proof.
  intros space tag x Hne Ht Hx.
  pose proof (tag_ok_keys_pos space x tag Hx Ht) as Hk.
  destruct (partial_roundtrip_factors_lemma tag space x (in_space_sub space x tag Hx Ht)) as [Hr Hlt].
  rewrite enum_assignments_spec by assumption. rewrite map_length, seq_length. split; [|split; [exact Hlt | reflexivity]].
  rewrite (nth_indep _ [] (toFactorsPartial tag space 0)) by (rewrite map_length, seq_length; exact Hlt).
  rewrite map_nth, seq_nth by exact Hlt. cbn [Nat.add]. exact Hr.
Qed.

Lemma plusEqualSubset2D_value : forall SS AA ret rhs s a,
  bm_ok SS AA ret -> bm_wf SS AA rhs ->
  subseq (bmTag rhs) (bmTag ret) -> subseq (bmActionTag rhs) (bmActionTag ret) ->
  in_space SS s -> in_space AA a ->
  bm_value SS AA (plusEqualSubset2D SS AA ret rhs) s a = bm_value SS AA ret s a + bm_value SS AA rhs s a
  /\ bm_ok SS AA (plusEqualSubset2D SS AA ret rhs).
Proof.
  intros SS AA ret rhs s a [[Ht [Hat [Hrows Hcols]]] [Hne Hane]] [Ht' [Hat' [Hrows' Hcols']]] Hsub Hasub Hs Ha.
  destruct (enum_nth SS (bmTag ret) s Hne Ht Hs) as [Es [Els Elen]].
  destruct (enum_nth AA (bmActionTag ret) a Hane Hat Ha) as [Ea [Ela Ealen]].
  set (r := toIndexPartial (bmTag ret) SS s) in *. set (c := toIndexPartial (bmActionTag ret) AA a) in *.
  assert (Hr : (r < length (bmVals ret))%nat) by (rewrite Hrows, <- Elen; exact Els).
  assert (Hrow : length (nth r (bmVals ret) []) = factorSpacePartial (bmActionTag ret) AA).
  { rewrite Forall_forall in Hcols. apply Hcols. apply nth_In; exact Hr. }
  assert (Hc : (c < length (nth r (bmVals ret) []))%nat) by (rewrite Hrow, <- Ealen; exact Ela).
  unfold plusEqualSubset2D.
  destruct ((length (bmTag ret) =? length (bmTag rhs))%nat && (length (bmActionTag ret) =? length (bmActionTag rhs))%nat) eqn:E.
  - apply andb_true_iff in E. destruct E as [E1 E2]. apply Nat.eqb_eq in E1. apply Nat.eqb_eq in E2.
    assert (Heq : bmTag rhs = bmTag ret) by (apply subseq_same_length; [assumption | lia]).
    assert (Haeq : bmActionTag rhs = bmActionTag ret) by (apply subseq_same_length; [assumption | lia]).
    assert (Hr' : (r < length (bmVals rhs))%nat) by (rewrite Hrows', Heq, <- Elen; exact Els).
    assert (Hrow' : length (nth r (bmVals rhs) []) = factorSpacePartial (bmActionTag ret) AA).
    { rewrite Forall_forall in Hcols'. rewrite <- Haeq. apply Hcols'. apply nth_In; exact Hr'. }
    split.
    + unfold bm_value, mat_get. cbn [bmTag bmActionTag bmVals]. rewrite Heq, Haeq. fold r c.
      rewrite (zipk_nth _ _ (zipk Qplus) _ _ [] []) by assumption.
      apply (zipk_nth Q Q Qplus _ _ 0 0); [exact Hc | rewrite Hrow', <- Ealen; exact Ela].
    + split; [|split; assumption]. unfold bm_wf. cbn [bmTag bmActionTag bmVals]. rewrite zipk_length.
      split; [exact Ht|]. split; [exact Hat|]. split; [exact Hrows|].
      apply zipk_Forall; [exact Hcols|]. intros x y Hx. rewrite zipk_length. exact Hx.
  - split.
    + unfold bm_value at 1, mat_get. cbn [bmTag bmActionTag bmVals]. fold r c.
      rewrite (zipk_nth _ _ _ _ _ [] []) by assumption. rewrite Es.
      rewrite (zipk_nth _ _ _ _ _ 0 []) by assumption. rewrite Ea.
      rewrite !idx_of_subseq by assumption. unfold bm_value, mat_get. reflexivity.
    + split; [|split; assumption]. unfold bm_wf. cbn [bmTag bmActionTag bmVals]. rewrite zipk_length.
      split; [exact Ht|]. split; [exact Hat|]. split; [exact Hrows|].
      apply zipk_Forall; [exact Hcols|]. intros x y Hx. rewrite zipk_length. exact Hx.
Qed.

Definition fm_ok (SS AA : list nat) (fm : fmat) : Prop := Forall (bm_ok SS AA) fm.

Lemma bm_ok_wf : forall SS AA b, bm_ok SS AA b -> bm_wf SS AA b.
Proof. intros SS AA b [H _]. exact H. Qed.

Lemma plusEqual2D_go_flat : forall SS AA basis s a, bm_ok SS AA basis -> in_space SS s -> in_space AA a ->
  forall fm r, fm_ok SS AA fm -> plusEqual2D_go SS AA basis fm = Some r ->
  flat2 SS AA r s a == flat2 SS AA fm s a + entry2 SS AA basis s a /\ fm_ok SS AA r.
Proof.
  intros SS AA basis s a Hb Hs Ha. induction fm as [|cur rest IH]; intros r Hwf H; cbn [plusEqual2D_go] in H; [discriminate|].
  inversion Hwf as [|? ? Hc Hrest]; subst.
  destruct (length (bmTag basis) <=? length (bmTag cur))%nat eqn:Ebig.
  - destruct ((length (bmActionTag basis) <=? length (bmActionTag cur))%nat && sorted_contains (bmActionTag cur) (bmActionTag basis)
              && sorted_contains (bmTag cur) (bmTag basis))%bool eqn:Esc.
    + inversion H; subst; clear H. apply andb_true_iff in Esc. destruct Esc as [Esc E3]. apply andb_true_iff in Esc. destruct Esc as [_ E2].
      apply sorted_contains_subseq in E2. apply sorted_contains_subseq in E3.
      destruct (plusEqualSubset2D_value SS AA cur basis s a Hc (bm_ok_wf _ _ _ Hb) E3 E2 Hs Ha) as [Hv Hw].
      cbn [flat2]. rewrite <- !bm_value_entry2. rewrite Hv. split; [lra | constructor; assumption].
    + destruct (plusEqual2D_go SS AA basis rest) as [r'|] eqn:E; [|discriminate]. inversion H; subst; clear H.
      destruct (IH r' Hrest eq_refl) as [H1 H2]. cbn [flat2]. rewrite H1. split; [lra | constructor; assumption].
  - destruct ((length (bmActionTag cur) <=? length (bmActionTag basis))%nat && sorted_contains (bmActionTag basis) (bmActionTag cur)
              && sorted_contains (bmTag basis) (bmTag cur))%bool eqn:Esc.
    + inversion H; subst; clear H. apply andb_true_iff in Esc. destruct Esc as [Esc E3]. apply andb_true_iff in Esc. destruct Esc as [_ E2].
      apply sorted_contains_subseq in E2. apply sorted_contains_subseq in E3.
      destruct (plusEqualSubset2D_value SS AA basis cur s a Hb (bm_ok_wf _ _ _ Hc) E3 E2 Hs Ha) as [Hv Hw].
      cbn [flat2]. rewrite <- !bm_value_entry2. rewrite Hv. split; [lra | constructor; assumption].
    + destruct (plusEqual2D_go SS AA basis rest) as [r'|] eqn:E; [|discriminate]. inversion H; subst; clear H.
      destruct (IH r' Hrest eq_refl) as [H1 H2]. cbn [flat2]. rewrite H1. split; [lra | constructor; assumption].
Qed.

Lemma flat2_app : forall SS AA x y s a, flat2 SS AA (x ++ y) s a == flat2 SS AA x s a + flat2 SS AA y s a.
Proof. intros SS AA x y s a. induction x as [|b t IH]; cbn [app flat2]; [lra | rewrite IH; lra]. Qed.

(* plus_flat_2d for one basis and for a whole FactoredMatrix2D *)
Lemma plusEqual2D_flat : forall SS AA fm basis s a, fm_ok SS AA fm -> bm_ok SS AA basis -> in_space SS s -> in_space AA a ->
  flat2 SS AA (plusEqual2D SS AA fm basis) s a == flat2 SS AA fm s a + entry2 SS AA basis s a /\ fm_ok SS AA (plusEqual2D SS AA fm basis).
Proof.
  intros SS AA fm basis s a Hwf Hb Hs Ha. unfold plusEqual2D.
  destruct (plusEqual2D_go SS AA basis fm) as [r|] eqn:E.
  - apply (plusEqual2D_go_flat SS AA basis s a Hb Hs Ha fm r Hwf E).
  - split; [rewrite flat2_app; cbn [flat2]; lra|]. apply Forall_app. split; [exact Hwf | constructor; [exact Hb | constructor]].
Qed.

Lemma plusEqualFM_flat : forall SS AA rhs fm s a, fm_ok SS AA fm -> fm_ok SS AA rhs -> in_space SS s -> in_space AA a ->
  flat2 SS AA (plusEqualFM SS AA fm rhs) s a == flat2 SS AA fm s a + flat2 SS AA rhs s a /\ fm_ok SS AA (plusEqualFM SS AA fm rhs).
Proof.
  intros SS AA rhs. unfold plusEqualFM. induction rhs as [|b t IH]; intros fm s a Hwf Hr Hs Ha; cbn [fold_left flat2].
  - split; [lra | exact Hwf].
  - inversion Hr as [|? ? Hb Ht]; subst.
    destruct (plusEqual2D_flat SS AA fm b s a Hwf Hb Hs Ha) as [H1 H2].
    destruct (IH _ s a H2 Ht Hs Ha) as [H3 H4]. split; [rewrite H3, H1; lra | exact H4].
Qed.

(* ---------- operator*=(Vector) keeps the shape ---------- *)
Lemma bm_map_ok : forall SS AA f b, bm_ok SS AA b -> bm_ok SS AA (bm_map f b).
Proof.
  intros SS AA f b [[Ht [Hat [Hrows Hcols]]] [Hne Hane]]. split; [|split; assumption].
  unfold bm_wf, bm_map. cbn [bmTag bmActionTag bmVals]. rewrite map_length.
  split; [exact Ht|]. split; [exact Hat|]. split; [exact Hrows|].
  rewrite Forall_map. rewrite Forall_forall in *. intros row Hrow. rewrite map_length. apply Hcols; exact Hrow.
Qed.

Lemma scaleW2D_go_ok : forall SS AA fm w add toAdd, fm_ok SS AA fm -> fm_ok SS AA (scaleW2D_go fm w add toAdd).
Proof.
  intros SS AA fm. induction fm as [|b t IH]; intros w add toAdd H; cbn [scaleW2D_go]; [constructor|].
  inversion H; subst. constructor; [apply bm_map_ok; assumption | apply IH; assumption].
Qed.

Lemma fm_ok_wf : forall SS AA fm, fm_ok SS AA fm -> fm_wf SS AA fm.
Proof. intros SS AA fm H. unfold fm_ok, fm_wf in *. rewrite Forall_forall in *. intros b Hb. apply (H b Hb). Qed.

(* ---------- sum_k (gamma w_k) g_k(s,a) = gamma * E[ V_w(s1) ] ---------- *)
Lemma qsum_map_scale : forall (A : Type) (l : list A) (c : Q) (f : A -> Q),
  qsum (map (fun x => c * f x) l) == c * qsum (map f l).
Proof. intros A l c f. unfold qsum. induction l as [|x l IH]; cbn [map fold_right]; [lra | rewrite IH; lra]. Qed.

Lemma qsum_map_zero_r : forall (A : Type) (l : list A) (P : A -> Q), qsum (map (fun x => P x * 0) l) == 0.
Proof. intros A l P. unfold qsum. induction l as [|x l IH]; cbn [map fold_right]; [lra | rewrite IH; lra]. Qed.

Lemma wsum2_backproject : forall G T h w s a gam,
  graph_built G -> graph_complete G ->
  Forall (fun f => bf_wf (gS G) f /\ strict (bfTag f)) h ->
  in_space (gS G) s -> in_space (gA G) a -> rows_stochastic G T s a ->
  wsum2 (gS G) (gA G) (map (backProject G T) h) s a (map (Qmult gam) w) ==
  gam * qsum (map (fun s1 => getTransitionProbability G T s a s1 * wsum (gS G) h s1 w) (all_assign (gS G))).
Proof.
  intros G T h w s a gam Hb Hc Hh Hs Ha Hrows. revert w.
  induction Hh as [|f t [Hwf Hstr] Hh IH]; intro w; cbn [map wsum2 wsum].
  - rewrite qsum_map_zero_r. lra.
  - destruct w as [|wi wt]; cbn [map wsum2 wsum].
    + rewrite qsum_map_zero_r. lra.
    + rewrite (IH wt).
      pose proof (backproject_is_expectation_lemma G T f s a Hb Hc Hwf Hstr Hs Ha Hrows) as E. cbv zeta in E.
      rewrite <- bm_value_entry2. unfold bm_value. rewrite E.
      rewrite (qsum_map_ext _ _ (fun s1 => getTransitionProbability G T s a s1 * (wi * entry (gS G) f s1 + wsum (gS G) t s1 wt))
                 (fun s1 => wi * (getTransitionProbability G T s a s1 * entry (gS G) f s1) +
                            getTransitionProbability G T s a s1 * wsum (gS G) t s1 wt)) by (intros; lra).
      rewrite qsum_map_plus, qsum_map_scale. lra.
Qed.

(* ---------- q_is_backup ---------- *)
Lemma q_is_backup_lemma : forall G T h R gam w s a,
  graph_built G -> graph_complete G ->
  Forall (fun f => bf_wf (gS G) f /\ strict (bfTag f)) h ->
  fm_ok (gS G) (gA G) (map (backProject G T) h) -> fm_ok (gS G) (gA G) R ->
  length w = length h ->
  in_space (gS G) s -> in_space (gA G) a -> rows_stochastic G T s a ->
  flat2 (gS G) (gA G) (lp_result_q G T h R gam w) s a ==
  flat2 (gS G) (gA G) R s a +
  gam * qsum (map (fun s1 => getTransitionProbability G T s a s1 * wsum (gS G) h s1 w) (all_assign (gS G))).
Proof.
  intros G T h R gam w s a Hb Hc Hh Hg HR Hl Hs Ha Hrows. unfold lp_result_q.
  assert (Hsc : fm_ok (gS G) (gA G) (scaleW2D (map (backProject G T) h) (map (Qmult gam) w))).
  { unfold scaleW2D. apply scaleW2D_go_ok. exact Hg. }
  destruct (plusEqualFM_flat (gS G) (gA G) R _ s a Hsc HR Hs Ha) as [E _]. rewrite E.
  rewrite (scaleW2D_flat_lemma (gS G) (gA G) _ (map (Qmult gam) w) s a (fm_ok_wf _ _ _ Hg) Hs Ha)
    by (left; rewrite !map_length; exact Hl).
  replace (length (map (Qmult gam) w) =? S (length (map (backProject G T) h)))%nat with false
    by (symmetry; apply Nat.eqb_neq; rewrite !map_length; lia).
  rewrite (wsum2_backproject G T h w s a gam Hb Hc Hh Hs Ha Hrows). lra.
Qed.

(* ---------- backProject returns a well-shaped basis matrix ---------- *)
Lemma backProject_ok : forall G T rhs s a,
  graph_built G -> graph_complete G -> bf_wf (gS G) rhs ->
  in_space (gS G) s -> in_space (gA G) a ->
  bm_ok (gS G) (gA G) (backProject G T rhs).
Proof.
  intros G T rhs s a Hb Hc [Hne [Hrt Hlen]] Hs Ha.
  destruct (graph_built_props G Hb) as [_ Hvalid]. rewrite Forall_forall in Hvalid.
  unfold graph_complete in Hc.
  assert (Hps : forall d, In d (bfTag rhs) -> ps_valid (gS G) (gA G) (nth d (gParents G) emptyPS)).
  { intros d Hd. apply Hvalid. apply nth_In. rewrite Hc. unfold tag_ok in Hrt. rewrite Forall_forall in Hrt. apply Hrt; exact Hd. }
  unfold backProject.
  destruct (fold_left (bp_step G) (bfTag rhs) ([], [])) as [atag stag] eqn:Efold.
  pose proof (bp_tags_props G (bfTag rhs) ([], [])) as P. cbv zeta in P. rewrite Efold in P. cbn [fst snd] in P.
  destruct P as [_ [_ [P3 [P4 P5]]]].
  (* in range *)
  assert (Hat : tag_ok (gA G) atag).
  { unfold tag_ok. apply Forall_forall. intros x Hx. destruct (P4 x Hx) as [[]|[d [Hd Hxd]]].
    destruct (Hps d Hd) as [V1 _]. apply tag_is_ok_sound in V1. destruct V1 as [_ [_ V1]].
    unfold tag_ok in V1. rewrite Forall_forall in V1. apply V1; exact Hxd. }
  assert (Hst : tag_ok (gS G) stag).
  { unfold tag_ok. apply Forall_forall. intros x Hx. destruct (P5 x Hx) as [[]|[d [f [Hd [Hf Hxf]]]]].
    destruct (Hps d Hd) as [_ [_ V3]]. rewrite forallb_forall in V3. specialize (V3 f Hf).
    apply tag_is_ok_sound in V3. destruct V3 as [_ [_ V3]]. unfold tag_ok in V3. rewrite Forall_forall in V3. apply V3; exact Hxf. }
  (* non-empty *)
  destruct (bfTag rhs) as [|d0 rt] eqn:Ert; [congruence|].
  destruct (P3 d0 (or_introl eq_refl)) as [Q1 Q2]. destruct (Hps d0 (or_introl eq_refl)) as [V1 [V2 V3]].
  assert (Hane : atag <> []).
  { apply (subseq_nonempty _ _ Q1). apply tag_is_ok_sound in V1. tauto. }
  assert (Hsne : stag <> []).
  { pose proof V1 as V1'. apply tag_is_ok_sound in V1'. destruct V1' as [_ [_ V1']].
    pose proof (fsp_pos (gA G) _ (tag_ok_keys_pos (gA G) a _ Ha V1')) as Hpos. rewrite <- V2 in Hpos.
    destruct (psFeatures (nth d0 (gParents G) emptyPS)) as [|f fs] eqn:Ef; [cbn [length] in Hpos; lia|].
    apply (subseq_nonempty f); [apply Q2; left; reflexivity|].
    rewrite forallb_forall in V3. specialize (V3 f (or_introl eq_refl)). apply tag_is_ok_sound in V3. tauto. }
  (* shape *)
  pose proof (enum_assignments_spec (gS G) stag Hsne (tag_ok_keys_pos (gS G) s stag Hs Hst)) as Es.
  pose proof (enum_assignments_spec (gA G) atag Hane (tag_ok_keys_pos (gA G) a atag Ha Hat)) as Ea.
  split; [|cbn [bmTag bmActionTag]; split; assumption].
  unfold bm_wf. cbn [bmTag bmActionTag bmVals]. split; [exact Hst|]. split; [exact Hat|]. split.
  - rewrite map_length, Es, map_length, seq_length. reflexivity.
  - rewrite Forall_map. apply Forall_forall. intros sv _. rewrite map_length, Ea, map_length, seq_length. reflexivity.
Qed.

Lemma backProject_fm_ok : forall G T h s a,
  graph_built G -> graph_complete G -> Forall (fun f => bf_wf (gS G) f /\ strict (bfTag f)) h ->
  in_space (gS G) s -> in_space (gA G) a ->
  fm_ok (gS G) (gA G) (map (backProject G T) h).
Proof.
  intros G T h s a Hb Hc Hh Hs Ha. unfold fm_ok. rewrite Forall_map. rewrite Forall_forall in *. intros f Hf.
  apply (backProject_ok G T f s a Hb Hc (proj1 (Hh f Hf)) Hs Ha).
Qed.

(* q_is_backup without the shape hypothesis on backProject's output *)
Lemma q_is_backup_full_lemma : forall G T h R gam w s a,
  graph_built G -> graph_complete G ->
  Forall (fun f => bf_wf (gS G) f /\ strict (bfTag f)) h ->
  fm_ok (gS G) (gA G) R -> length w = length h ->
  in_space (gS G) s -> in_space (gA G) a -> rows_stochastic G T s a ->
  flat2 (gS G) (gA G) (lp_result_q G T h R gam w) s a ==
  flat2 (gS G) (gA G) R s a +
  gam * qsum (map (fun s1 => getTransitionProbability G T s a s1 * wsum (gS G) h s1 w) (all_assign (gS G))).
Proof.
  intros G T h R gam w s a Hb Hc Hh HR Hl Hs Ha Hrows.
  apply q_is_backup_lemma; try assumption. apply (backProject_fm_ok G T h s a); assumption.
Qed.
