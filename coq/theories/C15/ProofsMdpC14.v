(* C15/ProofsMdpC14.v — bridge to property C14: with g = backProject(T, h) as modelled and proved in
   C14 (backproject_is_expectation), the factored MDP LP equals the flat MDP LP over the DDN's
   joint transition probabilities.  C14's files are imported read-only and referred to by
   qualified names (both developments define bf / bm / entry / in_space / all_assign). *)
From Coq Require Import List Arith ZArith QArith Qminmax Bool Lia Lqa.
From AIT Require C14.Model C14.Spec C14.ModelAlg C14.SpecAlg C14.ProofsAlg C14.ModelDDN C14.SpecDDN C14.ProofsDDN C14.ProofsBP.
From AIT Require Import Base.Qx C15.Model C15.Spec C15.ProofsBase C15.ProofsGraph C15.ProofsVE C15.ProofsSetup
                        C15.ProofsMdp C15.ProofsMdpSetup C15.ProofsOrder C15.ProofsMdpFull.
Import ListNotations.
Local Open Scope nat_scope.

Definition conv_bf (f : C14.ModelAlg.bf) : bf := mkBf (C14.ModelAlg.bfTag f) (C14.ModelAlg.bfVals f).
Definition conv_bm (b : C14.ModelDDN.bm) : bm :=
  mkBm (C14.ModelDDN.bmTag b) (C14.ModelDDN.bmActionTag b) (C14.ModelDDN.bmVals b).

Lemma radix_pidx : forall keys S x,
  C14.Spec.radix_value (C14.Spec.sub keys S) (C14.Spec.sub keys x) = pidx keys S x.
Proof.
  induction keys as [|k t IH]; intros S x; cbn [C14.Spec.sub map C14.Spec.radix_value pidx]; [reflexivity|].
  fold (C14.Spec.sub t S) (C14.Spec.sub t x). rewrite IH. reflexivity.
Qed.

Lemma tip_pidx : forall keys S x, C14.Model.toIndexPartial keys S x = pidx keys S x.
Proof. intros. rewrite C14.ProofsDDN.toIndexPartial_radix. apply radix_pidx. Qed.

Lemma all_assign_eq : forall S, C14.SpecDDN.all_assign S = all_assign S.
Proof. induction S as [|s S IH]; cbn [C14.SpecDDN.all_assign all_assign]; [reflexivity | rewrite IH; reflexivity]. Qed.

Lemma qsum_eq : forall l, C14.SpecDDN.qsum l = qsum l.
Proof. induction l as [|x l IH]; cbn [C14.SpecDDN.qsum fold_right qsum]; [reflexivity|]. unfold C14.SpecDDN.qsum in IH. rewrite IH. reflexivity. Qed.

Lemma entry_eq : forall S f x, C14.SpecAlg.entry S f x = entry S (conv_bf f) x.
Proof. intros. unfold C14.SpecAlg.entry, entry, conv_bf. cbn [bfTag bfVals]. rewrite radix_pidx. reflexivity. Qed.

(* C14's theorem, restated over this development's definitions *)
Lemma backproject_is_backprojection : forall G T (h14 : list C14.ModelAlg.bf),
  C14.ProofsDDN.graph_built G -> C14.SpecDDN.graph_complete G ->
  Forall (fun f => C14.SpecAlg.bf_wf (C14.ModelDDN.gS G) f /\ C14.ProofsAlg.strict (C14.ModelAlg.bfTag f)) h14 ->
  (forall s a, in_space (C14.ModelDDN.gS G) s -> in_space (C14.ModelDDN.gA G) a -> C14.SpecDDN.rows_stochastic G T s a) ->
  is_backprojection (C14.ModelDDN.gS G) (C14.ModelDDN.gA G) (C14.ModelDDN.getTransitionProbability G T)
                    (map conv_bf h14) (map conv_bm (map (C14.ModelDDN.backProject G T) h14)).
Proof.
  intros G T h14 Hb Hc Hh Hrows. unfold is_backprojection.
  induction Hh as [|f t [Hwf Hstr] Hh IH]; cbn [map]; constructor; [|exact IH].
  intros s a Hs Ha.
  pose proof (C14.ProofsBP.backproject_is_expectation_lemma G T f s a Hb Hc Hwf Hstr Hs Ha (Hrows s a Hs Ha)) as E.
  cbv zeta in E. unfold bm_at, conv_bm. cbn [bmTag bmATag bmVals].
  unfold C14.ModelDDN.mat_get in E. rewrite !tip_pidx in E. rewrite E.
  rewrite qsum_eq, all_assign_eq. unfold EV. apply qsum_map_ext. intros s1 _. rewrite entry_eq. reflexivity.
Qed.

(* The full statement: factored-MDP LP (repaired makeResult, rules from h, backProject(T,h), R)
   is satisfiable for w  <->  V_w(s) >= R(s,a) + gamma sum_s1 P(s1|s,a) V_w(s1) at every joint (s,a) *)
Lemma mdp_lp_eq_flat_lemma : forall G T (h14 : list C14.ModelAlg.bf) R gam order (w : nat -> Q),
  let S := C14.ModelDDN.gS G in let A := C14.ModelDDN.gA G in
  let h := map conv_bf h14 in let g := map conv_bm (map (C14.ModelDDN.backProject G T) h14) in
  C14.ProofsDDN.graph_built G -> C14.SpecDDN.graph_complete G ->
  Forall (fun f => C14.SpecAlg.bf_wf S f /\ C14.ProofsAlg.strict (C14.ModelAlg.bfTag f)) h14 ->
  (forall s a, in_space S s -> in_space A a -> C14.SpecDDN.rows_stochastic G T s a) ->
  mlp_wf S A h g R -> order_ok (S ++ A) order ->
  Forall bf_exact h -> Forall bm_exact g -> Forall bm_exact R ->
  ((exists val, agree (length h) val w /\ feasible val (mlp_rows S A h g R gam order))
   <-> (forall s a, in_space S s -> in_space A a ->
          bellman_ok S A h R gam (C14.ModelDDN.getTransitionProbability G T) w s a)).
Proof.
  intros G T h14 R gam order w S A h g Hb Hc Hh Hrows HW Ho Eh Eg ER.
  apply mlp_eq_flat_lemma; try assumption. apply backproject_is_backprojection; assumption.
Qed.
