(* C15/ProofsOrder.v — the modelled FactorGraph::bestVariableToRemove loop (heur_order) eliminates
   every variable exactly once: the hypothesis [order_ok] of the projection theorems holds for the
   order the code itself uses. *)
From Coq Require Import List Arith QArith Bool Lia.
From AIT Require Import C15.Model C15.Spec C15.ProofsBase.
Import ListNotations.
Local Open Scope nat_scope.

Lemma fold_pick_in : forall (f : nat * nat -> nat -> nat * nat) (L : list nat),
  (forall st next, In (fst st) L -> In next L -> In (fst (f st next)) L) ->
  forall others st, In (fst st) L -> incl others L -> In (fst (fold_left f others st)) L.
Proof.
  intros f L Hf. induction others as [|o others IH]; intros st Hst Hincl; cbn [fold_left]; [exact Hst|].
  apply IH; [apply Hf; [exact Hst | apply Hincl; left; reflexivity] | intros u Hu; apply Hincl; right; exact Hu].
Qed.

Lemma best_variable_in : forall S g active v, best_variable S g active = Some v -> In v active.
Proof.
  intros S g [|first others] v H; cbn [best_variable] in H; [discriminate|]. inversion H as [E]; clear H.
  apply fold_pick_in.
  - intros st next Hst Hnext.
    destruct (negb (factor_exists (nbrs_in (length S) next g) g) && factor_exists (nbrs_in (length S) first g) g); [exact Hst|].
    destruct ((factor_exists (nbrs_in (length S) next g) g && negb (factor_exists (nbrs_in (length S) first g) g))
              || (elim_cost S next (nbrs_in (length S) next g) <? snd st)); [exact Hnext | exact Hst].
  - left; reflexivity.
  - intros u Hu; right; exact Hu.
Qed.

Lemma filter_len_le : forall (p : nat -> bool) l, length (filter p l) <= length l.
Proof. intros p l. induction l as [|x l IH]; cbn [filter length]; [lia|]. destruct (p x); cbn [length]; lia. Qed.

Lemma filter_neq_length : forall v l, In v l -> length (filter (fun u => negb (u =? v)) l) < length l.
Proof.
  intros v l. induction l as [|x l IH]; intro H; [destruct H|]. cbn [filter length].
  destruct (x =? v) eqn:E; cbn [negb].
  - pose proof (filter_len_le (fun u => negb (u =? v)) l). lia.
  - cbn [length]. destruct H as [->|H]; [rewrite Nat.eqb_refl in E; discriminate|]. specialize (IH H). lia.
Qed.

Lemma heur_order_go_in : forall S fuel st active, length active <= fuel ->
  forall u, In u (heur_order_go S fuel st active) <-> In u active.
Proof.
  intros S fuel. induction fuel as [|fuel IH]; intros st active Hlen u; cbn [heur_order_go].
  - destruct active; [tauto | cbn [length] in Hlen; lia].
  - destruct (best_variable S (fst (fst (fst st))) active) as [v|] eqn:Ebv.
    + pose proof (best_variable_in _ _ _ _ Ebv) as Hv.
      cbn [In]. rewrite IH by (pose proof (filter_neq_length v active Hv); lia).
      rewrite filter_In, negb_true_iff, Nat.eqb_neq. split.
      * intros [<-|[H _]]; assumption.
      * intro H. destruct (Nat.eq_dec v u) as [->|Hne]; [left; reflexivity | right; split; [exact H | intro E; apply Hne; symmetry; exact E]].
    + destruct active; [tauto | discriminate].
Qed.

(* at most one occurrence of every variable *)
Lemma heur_order_go_nodup : forall S fuel st active, NoDup (heur_order_go S fuel st active).
Proof.
  intros S fuel. induction fuel as [|fuel IH]; intros st active; cbn [heur_order_go]; [constructor|].
  destruct (best_variable S (fst (fst (fst st))) active) as [v|] eqn:Ebv; [|constructor].
  constructor; [|apply IH]. intro H.
  destruct fuel as [|fuel']; [destruct H|].
  (* every element of the recursive result is in the filtered active list *)
  assert (Hsub : forall fuel st active u, In u (heur_order_go S fuel st active) -> In u active).
  { clear. induction fuel as [|fuel IH]; intros st active u H; cbn [heur_order_go] in H; [destruct H|].
    destruct (best_variable S (fst (fst (fst st))) active) as [v|] eqn:Ebv; [|destruct H].
    destruct H as [<-|H]; [apply (best_variable_in _ _ _ _ Ebv)|]. apply IH in H. apply filter_In in H. tauto. }
  apply Hsub in H. apply filter_In in H. destruct H as [_ H]. rewrite Nat.eqb_refl in H. discriminate.
Qed.

Lemma heur_order_ok : forall S g, order_ok S (heur_order S g).
Proof.
  intros S g. unfold heur_order, order_ok.
  assert (H : forall u, In u (heur_order_go S (length S) (g, [], 0, []) (seq 0 (length S))) <-> In u (seq 0 (length S))).
  { apply heur_order_go_in. rewrite seq_length. lia. }
  split.
  - apply Forall_forall. intros v Hv. apply H in Hv. apply in_seq in Hv. lia.
  - intros v Hv. apply H. apply in_seq. lia.
Qed.

Lemma heur_order_nodup : forall S g, NoDup (heur_order S g).
Proof. intros. unfold heur_order. apply heur_order_go_nodup. Qed.
