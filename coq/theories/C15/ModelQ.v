(* C15/ModelQ.v — the Q-function returned by Factored::MDP::LinearProgramming::operator():
       g = backProject(T, h);  v = solveLP(...);  g *= discount * v;  plusEqual(S, A, g, R);  return (v, g)
   composed from the models of property C14 (imported read-only): backProject (ModelDDN),
   FactoredMatrix2D::operator*=(Vector) = scaleW2D and plusEqual(…, FactoredMatrix2D) = plusEqualFM
   (Model2D), which C14 ties to the real code by correspondence.  No proofs in this file. *)
From Coq Require Import List QArith.
From AIT Require Import C14.Model C14.ModelAlg C14.ModelDDN C14.Model2D.
Import ListNotations.

(* src: LinearProgramming.cpp:LinearProgramming::operator() — [w] = the weights the LP returned *)
Definition lp_result_q (G : ddnGraph) (T : list matrix) (h : fvec) (R : fmat) (gam : Q) (w : list Q) : fmat :=
  plusEqualFM (gS G) (gA G) (scaleW2D (map (backProject G T) h) (map (Qmult gam) w)) R.
