(* C15/Proofs.v — FactoredLP: the projection of the factored constraint system onto (w, phi) equals
   the flat system  phi >= |Cw(x) - b(x)|  for every joint assignment x; both directions, for every
   elimination order. *)
From Coq Require Import List Arith ZArith QArith Qminmax Bool Lia Lqa.
From AIT Require Import Base.Qx C15.Model C15.Spec C15.ProofsBase C15.ProofsGraph C15.ProofsVE C15.ProofsSetup.
Import ListNotations.
Local Open Scope nat_scope.

(* ---------- the setup as a whole ---------- *)
Definition st00 (phiId : nat) : sstate := ([], [], phiId + 1).

Lemma st00_inv : forall S phiId, sinv S phiId (st00 phiId).
Proof.
  intros S phiId. unfold sinv, st00, ss_g, ss_rows, ss_n. cbn [fst snd].
  split; [intros nd []|]. split; [intros nd []|]. split; [intros nd []|]. split; [constructor | lia].
Qed.

Lemma const_term_lt : forall C ac, cst_lt (nweights C ac) (const_term C ac).
Proof. intros C ac. unfold const_term, nweights. destruct ac; cbn [cst_lt]; [lia | exact I]. Qed.

Lemma wsum_at_ext : forall S C val val' k x,
  (forall c, k <= c < k + length C -> (val c == val' c)%Q) -> (wsum_at S C val k x == wsum_at S C val' k x)%Q.
Proof.
  intros S C val val'. induction C as [|f t IH]; intros k x H; cbn [wsum_at length] in *; [reflexivity|].
  rewrite (H k ltac:(lia)). rewrite (IH (Datatypes.S k) x); [reflexivity|]. intros c Hc. apply H. lia.
Qed.

Lemma flat_err_ext : forall S C b ac val val' x, agree (nweights C ac) val val' ->
  (flat_err S C b ac val x == flat_err S C b ac val' x)%Q.
Proof.
  intros S C b ac val val' x Ha. unfold flat_err, nweights in *.
  rewrite (wsum_at_ext S C val val' 0 x) by (intros c Hc; apply Ha; lia).
  destruct ac; [rewrite (Ha (length C)) by lia|]; reflexivity.
Qed.

(* the constant-basis share: |C| copies of (1/|C|) * w_const *)
Lemma const_share : forall C ac (val : nat -> Q), (ac = true -> C <> []) ->
  (inject_Z (Z.of_nat (length C)) * match const_term C ac with Some (cid, cc) => cc * val cid | None => 0 end ==
   if ac then val (length C) else 0)%Q.
Proof.
  intros C ac val H. unfold const_term. destruct ac; [|lra].
  assert (Hpos : 0 < length C) by (destruct C; [exfalso; apply (H eq_refl); reflexivity | cbn [length]; lia]).
  rewrite Qmult_assoc, (inv_count _ Hpos). lra.
Qed.

(* under any valuation satisfying the Equal rows, the initial graph sums to Cw(x) - b(x) on the
   forward chain and to its negation on the reverse chain *)
Lemma setup_sem : forall S C b ac val x, inputs_wf S C b ac -> in_space S x ->
  feasible val (ss_rows (flp_setup C b ac)) ->
  (gval S (sh 0 val) (ss_g (flp_setup C b ac)) x == flat_err S C b ac val x)%Q /\
  (gval S (sh 1 val) (ss_g (flp_setup C b ac)) x == - flat_err S C b ac val x)%Q.
Proof.
  intros S C b ac val x [HS [HC [Hb Hac]]] Hx Hf. unfold flp_setup in *. cbv zeta in *.
  destruct (add_b_bases_sem S b _ val x Hb Hx Hf) as [Hf1 [B0 B1]].
  destruct (add_c_bases_sem S (const_term C ac) C 0 _ val x HC Hx Hf1) as [_ [C0 C1]].
  rewrite B0, B1, C0, C1. rewrite csum_value. rewrite (const_share C ac val Hac).
  unfold flat_err, st00, ss_g, gval. cbn [fst map qsum]. split; lra.
Qed.

Lemma setup_inv : forall S C b ac, inputs_wf S C b ac -> sinv S (nweights C ac) (flp_setup C b ac).
Proof.
  intros S C b ac [HS [HC [Hb Hac]]]. unfold flp_setup. cbv zeta.
  apply add_b_bases_inv; [exact Hb|]. apply add_c_bases_inv; [exact HC | apply const_term_lt | | apply st00_inv].
  unfold nweights. lia.
Qed.

Lemma setup_exists : forall S C b ac val0, inputs_wf S C b ac ->
  exists val, agree (nweights C ac + 1) val val0 /\ feasible val (ss_rows (flp_setup C b ac)).
Proof.
  intros S C b ac val0 [HS [HC [Hb Hac]]]. unfold flp_setup. cbv zeta.
  set (phiId := nweights C ac).
  assert (Hk : 0 + length C <= phiId) by (unfold phiId, nweights; lia).
  destruct (add_c_bases_exists S phiId (const_term C ac) C 0 (st00 phiId) val0 HC (const_term_lt C ac) Hk
              (st00_inv S phiId) (Forall_nil _)) as [val1 [Ha1 Hf1]].
  pose proof (add_c_bases_inv S phiId (const_term C ac) C 0 (st00 phiId) HC (const_term_lt C ac) Hk (st00_inv S phiId)) as Hi1.
  destruct (add_b_bases_exists S phiId b _ val1 Hb Hi1 Hf1) as [val [Ha Hf]].
  exists val. split; [|exact Hf]. intros c Hc.
  pose proof (add_c_bases_n_mono (const_term C ac) C 0 (st00 phiId)) as Hmono.
  change (ss_n (st00 phiId)) with (phiId + 1) in Hmono.
  transitivity (val1 c); [apply Ha; lia | apply Ha1; exact Hc].
Qed.

(* ---------- the final phi rows ---------- *)
Lemma lin_map1 : forall val (f : nat -> nat) l,
  (lin val (map (fun c => (f c, 1%Q)) l) == qsum (map (fun c => val (f c)) l))%Q.
Proof. intros val f l. induction l as [|c l IH]; cbn [map lin qsum]; [reflexivity | rewrite IH; lra]. Qed.

Lemma result_rows_sat : forall val phiId fin,
  feasible val (flp_result_rows phiId fin) <->
  (colsum (sh 0 val) fin <= val phiId /\ colsum (sh 1 val) fin <= val phiId)%Q.
Proof.
  intros val phiId fin. unfold flp_result_rows, feasible.
  assert (E0 : (lin val (map (fun c => (c, 1%Q)) fin) == colsum (sh 0 val) fin)%Q).
  { rewrite (lin_map1 val (fun c => c)). unfold colsum. apply qsum_map_ext. intros c _. rewrite sh0. reflexivity. }
  assert (E1 : (lin val (map (fun c => ((c + 1)%nat, 1%Q)) fin) == colsum (sh 1 val) fin)%Q).
  { rewrite (lin_map1 val (fun c => (c + 1)%nat)). reflexivity. }
  split.
  - intro H. inversion H as [|? ? H1 H']; subst. inversion H' as [|? ? H2 _]; subst.
    unfold row_sat in H1, H2. cbn [rRel rCoefs rRhs lin] in H1, H2. rewrite E0 in H1. rewrite E1 in H2. split; lra.
  - intros [H1 H2]. constructor; [|constructor; [|constructor]]; unfold row_sat; cbn [rRel rCoefs rRhs lin];
      [rewrite E0 | rewrite E1]; lra.
Qed.

(* ---------- unfolding flp_rows ---------- *)
Definition flp_vstart (C b : list bf) (ac : bool) : vstate :=
  (ss_g (flp_setup C b ac), [], ss_n (flp_setup C b ac), ss_rows (flp_setup C b ac)).
Definition flp_vend (S : list nat) (C b : list bf) (ac : bool) (order : list nat) : vstate :=
  run_ve 2 S (flp_vstart C b ac) order.

Lemma flp_rows_eq : forall S C b ac order,
  flp_rows S C b ac order =
  st_rows (flp_vend S C b ac order) ++ flp_result_rows (nweights C ac) (st_fin (flp_vend S C b ac order)).
Proof.
  intros. unfold flp_rows, flp_system, flp_vend, flp_vstart. rewrite (ss_eta (flp_setup C b ac)) at 1.
  cbv zeta. cbn [ss_g ss_rows ss_n fst snd].
  match goal with |- context [run_ve 2 S ?st order] => rewrite (st_eta (run_ve 2 S st order)) at 1 end.
  reflexivity.
Qed.

Lemma vstart_facts : forall S C b ac, inputs_wf S C b ac ->
  gin S (st_g (flp_vstart C b ac)) /\ gdone [] (st_g (flp_vstart C b ac)) /\
  galign 2 (st_n (flp_vstart C b ac)) (st_g (flp_vstart C b ac)) (st_fin (flp_vstart C b ac)) /\
  rows_lt (st_n (flp_vstart C b ac)) (st_rows (flp_vstart C b ac)) /\
  nweights C ac + 1 <= st_n (flp_vstart C b ac).
Proof.
  intros S C b ac H. destruct (setup_inv S C b ac H) as [I1 [I2 [I3 [I4 I5]]]].
  unfold flp_vstart, st_g, st_fin, st_n, st_rows. cbn [fst snd].
  split; [exact I1|]. split; [exact I2|]. split; [split; [exact I3 | intros c []]|]. split; [exact I4|].
  unfold flp_setup. cbv zeta.
  eapply Nat.le_trans; [|apply add_b_bases_n_mono]. eapply Nat.le_trans; [|apply add_c_bases_n_mono].
  unfold ss_n. cbn [snd]. lia.
Qed.

(* ---------- completeness: every factored-feasible point is flat-feasible ---------- *)
Lemma flp_complete_lemma : forall S C b ac order val,
  inputs_wf S C b ac -> order_ok S order ->
  feasible val (flp_rows S C b ac order) ->
  flat_feasible S C b ac val (val (nweights C ac)).
Proof.
  intros S C b ac order val HW [Ho Hall] Hf x Hx.
  rewrite flp_rows_eq in Hf. apply feasible_app in Hf. destruct Hf as [HfV HfR].
  destruct (vstart_facts S C b ac HW) as [G1 [G2 [G3 [G4 G5]]]].
  assert (Hf0 : feasible val (ss_rows (flp_setup C b ac))).
  { apply (run_rows_mono 2 S order (flp_vstart C b ac) val). exact HfV. }
  destruct (setup_sem S C b ac val x HW Hx Hf0) as [S0 S1].
  apply result_rows_sat in HfR. destruct HfR as [R0 R1].
  assert (Hempty : st_g (flp_vend S C b ac order) = []) by (apply run_final_empty; assumption).
  pose proof (run_complete 2 S val order (flp_vstart C b ac) Ho G1 HfV x 0 Hx ltac:(lia)) as T0.
  pose proof (run_complete 2 S val order (flp_vstart C b ac) Ho G1 HfV x 1 Hx ltac:(lia)) as T1.
  fold (flp_vend S C b ac order) in T0, T1. rewrite Hempty in T0, T1.
  unfold tot, flp_vstart, st_g, st_fin in T0, T1. cbn [fst snd] in T0, T1.
  unfold gval at 2 in T0. unfold gval at 2 in T1. unfold colsum at 1 in T0. unfold colsum at 1 in T1.
  cbn [map qsum] in T0, T1. rewrite S0 in T0. rewrite S1 in T1.
  fold (st_fin (flp_vend S C b ac order)) in T0, T1. split; lra.
Qed.

(* ---------- soundness: no flat-feasible point is cut off ---------- *)
Lemma flp_sound_lemma : forall S C b ac order (w : nat -> Q) phi,
  inputs_wf S C b ac -> order_ok S order ->
  flat_feasible S C b ac w phi ->
  exists val, (forall k, k < nweights C ac -> (val k == w k)%Q) /\ (val (nweights C ac) == phi)%Q /\
              feasible val (flp_rows S C b ac order).
Proof.
  intros S C b ac order w phi HW [Ho Hall] Hflat.
  set (phiId := nweights C ac).
  set (val00 := fun c => if c =? phiId then phi else w c).
  destruct (setup_exists S C b ac val00 HW) as [valS [HaS HfS]]. fold phiId in HaS.
  destruct (vstart_facts S C b ac HW) as [G1 [G2 [G3 [G4 G5]]]]. fold phiId in G5.
  assert (HaW : agree phiId valS w).
  { intros c Hc. transitivity (val00 c); [apply HaS; lia|]. unfold val00. replace (c =? phiId) with false by (symmetry; apply Nat.eqb_neq; lia). reflexivity. }
  assert (Hphi : (valS phiId == phi)%Q).
  { transitivity (val00 phiId); [apply HaS; lia|]. unfold val00. rewrite Nat.eqb_refl. reflexivity. }
  assert (Hb : forall x s, in_space S x -> s < 2 ->
            (tot S (sh s valS) (st_g (flp_vstart C b ac)) (st_fin (flp_vstart C b ac)) x <= phi)%Q).
  { intros x s Hx Hs. destruct (setup_sem S C b ac valS x HW Hx HfS) as [S0 S1].
    destruct (Hflat x Hx) as [F1 F2]. rewrite <- (flat_err_ext S C b ac valS w x HaW) in F1, F2.
    unfold tot, flp_vstart, st_g, st_fin. cbn [fst snd]. unfold colsum. cbn [map qsum].
    destruct s as [|[|s]]; [rewrite S0 | rewrite S1 | lia]; lra. }
  assert (HS : Forall (fun s => 0 < s) S) by (destruct HW; assumption).
  destruct (run_sound 2 S (fun _ => phi) order (flp_vstart C b ac) valS HS Ho G1 G3 G4 HfS Hb)
    as [val [Ha [HfV [_ Htot]]]].
  fold (flp_vend S C b ac order) in HfV, Htot.
  assert (Hempty : st_g (flp_vend S C b ac order) = []) by (apply run_final_empty; assumption).
  exists val. split; [|split].
  - intros c Hc. transitivity (valS c); [apply Ha; lia | apply HaW; exact Hc].
  - transitivity (valS phiId); [apply Ha; lia | exact Hphi].
  - rewrite flp_rows_eq. apply feasible_app. split; [exact HfV|]. apply result_rows_sat.
    (* some joint assignment exists, and the total there is the sum of the final factors *)
    assert (Ex : exists x, in_space S x).
    { clear -HS. induction HS as [|s S Hs HS [x IH]]; [exists []; constructor|]. exists (0 :: x). constructor; auto. }
    destruct Ex as [x Hx].
    pose proof (Htot x 0 Hx ltac:(lia)) as T0. pose proof (Htot x 1 Hx ltac:(lia)) as T1.
    rewrite Hempty in T0, T1. unfold tot, gval in T0, T1. cbn [map qsum] in T0, T1.
    assert (Ep : (val phiId == phi)%Q) by (transitivity (valS phiId); [apply Ha; lia | exact Hphi]).
    fold phiId. rewrite Ep. split; lra.
Qed.

(* ---------- the projection theorem and the optimum ---------- *)
Lemma flp_projection_lemma : forall S C b ac order (w : nat -> Q) phi,
  inputs_wf S C b ac -> order_ok S order ->
  ((exists val, (forall k, k < nweights C ac -> (val k == w k)%Q) /\ (val (nweights C ac) == phi)%Q /\
                feasible val (flp_rows S C b ac order))
   <-> flat_feasible S C b ac w phi).
Proof.
  intros S C b ac order w phi HW Ho. split.
  - intros [val [Hw [Hphi Hf]]] x Hx.
    destruct (flp_complete_lemma S C b ac order val HW Ho Hf x Hx) as [F1 F2].
    rewrite (flat_err_ext S C b ac val w x Hw) in F1, F2. rewrite Hphi in F1, F2. split; assumption.
  - apply flp_sound_lemma; assumption.
Qed.

(* m is a lower bound of the factored LP's objective iff it is one of the flat LP's objective:
   the two linear programs have the same optimum value *)
Lemma flp_optimum_lemma : forall S C b ac order (m : Q),
  inputs_wf S C b ac -> order_ok S order ->
  ((forall val, feasible val (flp_rows S C b ac order) -> (m <= val (nweights C ac))%Q)
   <-> (forall w phi, flat_feasible S C b ac w phi -> (m <= phi)%Q)).
Proof.
  intros S C b ac order m HW Ho. split.
  - intros H w phi Hflat. destruct (flp_sound_lemma S C b ac order w phi HW Ho Hflat) as [val [_ [Hphi Hf]]].
    rewrite <- Hphi. apply H; exact Hf.
  - intros H val Hf. apply (H val). apply flp_complete_lemma with (order := order); assumption.
Qed.

Lemma ex_flp_lemma :
  let S := [2; 3] in
  let C := [mkBf [0; 1] [1; 0; 2; 1; 0; 3]%Q; mkBf [1] [1; 2; (-1)]%Q] in
  let b := [mkBf [0] [(3 # 2); (-5)]%Q] in
  inputs_wf S C b true /\ order_ok S [1; 0] /\ flat_feasible S C b true (wl []) 5%Q.
Proof.
  cbv zeta. split; [|split].
  - unfold inputs_wf, bf_wf. cbn [bfTag bfVals length psize nth].
    repeat split; repeat constructor; try discriminate.
  - split; [repeat constructor|]. intros v Hv. cbn [length] in Hv. cbn [In].
    destruct v as [|[|v]]; auto. lia.
  - apply flat_maxerr_spec; [repeat constructor|]. vm_compute. discriminate.
Qed.
