(* C15/ProofsVE.v — one removeFactor step and whole elimination runs, both directions:
     completeness: rows satisfied  ==>  the state's total value can only grow, pointwise in x;
     soundness:    new columns can be given the value of the maximum they stand for, keeping
                   "total value <= bound at every x". *)
From Coq Require Import List Arith QArith Qminmax Bool Lia Lqa.
From AIT Require Import Base.Qx C15.Model C15.Spec C15.ProofsBase C15.ProofsGraph.
Import ListNotations.
Local Open Scope nat_scope.

Definition st_g (st : vstate) : graph := fst (fst (fst st)).
Definition st_fin (st : vstate) : list nat := snd (fst (fst st)).
Definition st_n (st : vstate) : nat := snd (fst st).
Definition st_rows (st : vstate) : list row := snd st.

(* every rule column c names a block of k LP columns c .. c+k-1 below the next free column *)
Definition galign (k n : nat) (g : graph) (fin : list nat) : Prop :=
  (forall nd, In nd g -> forall r, In r (snd nd) -> snd r + k <= n) /\ (forall c, In c fin -> c + k <= n).
(* nodes are non-empty and only mention variables not eliminated yet *)
Definition gdone (done : list nat) (g : graph) : Prop :=
  forall nd, In nd g -> fst nd <> [] /\ forall u, In u (fst nd) -> ~ In u done.

Section Step.
Variables (k : nat) (S : list nat) (g : graph) (fin : list nat) (n : nat) (rows : list row) (v : nat).
Local Notation Fv := (filter (fun nd : fnode => mem v (fst nd)) g).
Local Notation G := (filter (fun nd : fnode => negb (mem v (fst nd))) g).
Local Notation N := (neighbours (length S) v Fv).
Local Notation psz := (psize N S).
Local Notation st' := (remove_factor k S (g, fin, n, rows) v).
Local Notation newrows := (flat_map (fun j => elim_rows k S Fv N v j (n + k * j)) (seq 0 psz)).

Lemma rf_n : st_n st' = n + k * psz.
Proof. unfold remove_factor. destruct N; reflexivity. Qed.

Lemma rf_rows : st_rows st' = rows ++ newrows.
Proof. unfold remove_factor. destruct N; reflexivity. Qed.

Lemma rf_g_in : forall nd, In nd (st_g st') ->
  In nd G \/ (N <> [] /\ fst nd = N /\ exists rs, (In (N, rs) G \/ rs = []) /\
              snd nd = rs ++ map (fun j => (j, n + k * j)) (seq 0 psz)).
Proof.
  intros nd. unfold remove_factor. destruct N as [|u N'] eqn:EN; unfold st_g; cbn [fst].
  - intro H; left; exact H.
  - intro H. apply upd_node_in in H. destruct H as [H|[H1 H2]]; [left; exact H|].
    right. split; [discriminate|]. split; [exact H1 | exact H2].
Qed.

Lemma rf_fin_in : forall c, In c (st_fin st') -> In c fin \/ (N = [] /\ c = n + k * 0).
Proof.
  intros c. unfold remove_factor. destruct N as [|u N'] eqn:EN; unfold st_fin; cbn [fst snd].
  - cbn [psize seq map]. intro H. apply in_app_or in H.
    destruct H as [H|[H|[]]]; [left; exact H | right; split; [reflexivity | symmetry; exact H]].
  - intro H; left; exact H.
Qed.

Lemma G_in : forall nd, In nd G -> In nd g /\ ~ In v (fst nd).
Proof.
  intros nd H. apply filter_In in H. destruct H as [H1 H2]. split; [exact H1|].
  apply negb_true_iff in H2. apply mem_false in H2. exact H2.
Qed.

Lemma Fv_in : forall nd, In nd Fv -> In nd g /\ In v (fst nd).
Proof.
  intros nd H. apply filter_In in H. destruct H as [H1 H2]. split; [exact H1|].
  apply mem_In in H2. exact H2.
Qed.

Hypothesis Hgin : gin S g.

Lemma Fv_gin : gin S Fv.
Proof. intros nd H. apply Hgin. apply Fv_in in H. tauto. Qed.

Lemma N_inrange : Forall (fun u => u < length S) N.
Proof. apply neighbours_inrange. Qed.

Lemma rf_gin : gin S (st_g st').
Proof.
  intros nd H. apply rf_g_in in H. destruct H as [H|[_ [H _]]].
  - apply Hgin. apply G_in in H. tauto.
  - rewrite H. apply N_inrange.
Qed.

Lemma rf_galign : galign k n g fin -> galign k (st_n st') (st_g st') (st_fin st').
Proof.
  intros [A1 A2]. rewrite rf_n. split.
  - intros nd H r Hr. apply rf_g_in in H. destruct H as [H|[_ [_ [rs [Hrs E]]]]].
    + apply G_in in H. specialize (A1 nd (proj1 H) r Hr). lia.
    + rewrite E in Hr. apply in_app_or in Hr. destruct Hr as [Hr|Hr].
      * destruct Hrs as [Hrs|Hrs]; [|subst rs; destruct Hr].
        apply G_in in Hrs. specialize (A1 (N, rs) (proj1 Hrs) r Hr). lia.
      * apply in_map_iff in Hr. destruct Hr as [j [<- Hj]]. apply in_seq in Hj. cbn [snd]. nia.
  - intros c H. apply rf_fin_in in H. destruct H as [H|[EN ->]].
    + specialize (A2 c H). lia.
    + rewrite EN. cbn [psize]. lia.
Qed.

Lemma rf_gdone : forall done, gdone done g -> gdone (v :: done) (st_g st').
Proof.
  intros done D nd H. apply rf_g_in in H. destruct H as [H|[HN [E _]]].
  - apply G_in in H. destruct H as [H1 H2]. destruct (D nd H1) as [D1 D2]. split; [exact D1|].
    intros u Hu [<-|Hd]; [exact (H2 Hu) | exact (D2 u Hu Hd)].
  - rewrite E. split; [exact HN|]. intros u Hu. apply neighbours_in in Hu.
    destruct Hu as [_ [Hne [nd' [Hnd' Hu]]]]. apply Fv_in in Hnd'. destruct (D nd' (proj1 Hnd')) as [_ D2].
    intros [<-|Hd]; [exact (Hne eq_refl) | exact (D2 u Hu Hd)].
Qed.

(* (A) the total after the step *)
Lemma rf_tot : forall rho x, in_space S x ->
  (tot S rho (st_g st') (st_fin st') x == gval S rho G x + colsum rho fin + rho (n + k * pidx N S x)%nat)%Q.
Proof.
  intros rho x Hx. unfold tot, remove_factor.
  assert (Hlt : pidx N S x < psz).
  { apply pidx_lt. intros u Hu. apply in_space_nth; [exact Hx|]. pose proof N_inrange as HN.
    rewrite Forall_forall in HN. apply HN; exact Hu. }
  destruct N as [|u N'] eqn:EN; unfold st_g, st_fin; cbn [fst snd].
  - cbn [psize seq map pidx]. rewrite colsum_app. unfold colsum at 2. cbn [map qsum]. lra.
  - rewrite upd_node_gval. rewrite rsum_newrules by exact Hlt. lra.
Qed.

(* (B) the rows pushed by the step *)
Lemma newrows_feasible : forall val,
  feasible val newrows <->
  (forall j xv s, j < psz -> xv < nth v S 0 -> s < k ->
     (colsum (sh s val) (matching S Fv (upd v xv (base_of S N j))) <= sh s val (n + k * j)%nat)%Q).
Proof.
  intro val. unfold feasible. rewrite Forall_flat_map, Forall_forall. split.
  - intros H j xv s Hj Hxv Hs. specialize (H j). rewrite in_seq in H. specialize (H ltac:(lia)).
    unfold elim_rows in H. rewrite Forall_flat_map, Forall_forall in H. specialize (H xv). rewrite in_seq in H.
    specialize (H ltac:(lia)). cbv zeta in H. rewrite Forall_map, Forall_forall in H. specialize (H s).
    rewrite in_seq in H. specialize (H ltac:(lia)). apply ve_row_sat in H. exact H.
  - intros H j Hj. apply in_seq in Hj. unfold elim_rows. rewrite Forall_flat_map, Forall_forall. intros xv Hxv.
    apply in_seq in Hxv. cbv zeta. rewrite Forall_map, Forall_forall. intros s Hs. apply in_seq in Hs.
    apply ve_row_sat. apply H; lia.
Qed.

Lemma matching_in : forall jv c, In c (matching S Fv jv) -> exists nd r, In nd Fv /\ In r (snd nd) /\ c = snd r.
Proof.
  intros jv c H. unfold matching in H. apply in_flat_map in H. destruct H as [nd [Hnd H]].
  apply in_map_iff in H. destruct H as [r [<- Hr]]. apply filter_In in Hr. exists nd, r. tauto.
Qed.

Lemma newrows_lt : galign k n g fin -> rows_lt (n + k * psz) newrows.
Proof.
  intros [A1 _]. unfold rows_lt. rewrite Forall_flat_map, Forall_forall. intros j Hj. apply in_seq in Hj.
  unfold elim_rows. rewrite Forall_flat_map, Forall_forall. intros xv Hxv. cbv zeta. rewrite Forall_map, Forall_forall.
  intros s Hs. apply in_seq in Hs. unfold row_lt, ve_row. cbn [rCoefs]. constructor; [cbn [fst]; nia|].
  rewrite Forall_map, Forall_forall. intros c Hc. cbn [fst].
  apply matching_in in Hc. destruct Hc as [nd [r [Hnd [Hr ->]]]]. apply Fv_in in Hnd.
  specialize (A1 nd (proj1 Hnd) r Hr). nia.
Qed.

(* ---------- completeness step ---------- *)
Lemma step_complete : forall val x s,
  in_space S x -> v < length S -> s < k -> feasible val newrows ->
  (tot S (sh s val) g fin x <= tot S (sh s val) (st_g st') (st_fin st') x)%Q.
Proof.
  intros val x s Hx Hv Hs Hf. rewrite rf_tot by exact Hx. unfold tot.
  rewrite (gval_split S (sh s val) (fun nd => mem v (fst nd)) g x).
  assert (Hlt : pidx N S x < psz).
  { apply pidx_lt. intros u Hu. apply in_space_nth; [exact Hx|]. pose proof N_inrange as HN.
    rewrite Forall_forall in HN. apply HN; exact Hu. }
  assert (Hxv : nth v x 0 < nth v S 0) by (apply in_space_nth; assumption).
  pose proof (proj1 (newrows_feasible val) Hf (pidx N S x) (nth v x 0) s Hlt Hxv Hs) as H.
  rewrite matching_sum in H. rewrite (step_gval S (sh s val) v Fv x (nth v x 0) Hx Fv_gin) in H.
  rewrite upd_self in H. lra.
Qed.

(* ---------- soundness step ---------- *)
Variable val0 : nat -> Q.

(* the maximum the new column (chain s, joint value j) stands for *)
Definition Mval (s j : nat) : Q :=
  maxl (map (fun xv => colsum (sh s val0) (matching S Fv (upd v xv (base_of S N j)))) (seq 0 (nth v S 0))).
Definition ext_val : nat -> Q :=
  fun c => if c <? n then val0 c else Mval ((c - n) mod k) ((c - n) / k).

Lemma ext_val_low : forall c, c < n -> ext_val c = val0 c.
Proof. intros c H. unfold ext_val. apply Nat.ltb_lt in H. rewrite H. reflexivity. Qed.

Lemma ext_val_new : forall j s, s < k -> ext_val (n + k * j + s) = Mval s j.
Proof.
  intros j s Hs. unfold ext_val. replace (n + k * j + s <? n) with false by (symmetry; apply Nat.ltb_ge; lia).
  replace (n + k * j + s - n) with (s + j * k) by lia.
  rewrite Nat.mod_add by lia. rewrite Nat.div_add by lia. rewrite Nat.mod_small, Nat.div_small by exact Hs.
  reflexivity.
Qed.

Hypothesis Halign : galign k n g fin.

Lemma sh_ext_rule : forall nd r s, In nd g -> In r (snd nd) -> s < k -> sh s ext_val (snd r) = sh s val0 (snd r).
Proof.
  intros nd r s Hnd Hr Hs. unfold sh. apply ext_val_low. destruct Halign as [A1 _]. specialize (A1 nd Hnd r Hr). lia.
Qed.

Lemma step_sound_rows : v < length S -> feasible ext_val newrows.
Proof.
  intros Hv. apply newrows_feasible. intros j xv s Hj Hxv Hs.
  change (sh s ext_val (n + k * j)) with (ext_val (n + k * j + s)). rewrite ext_val_new by exact Hs.
  rewrite (colsum_ext (sh s ext_val) (sh s val0)).
  - unfold Mval. apply maxl_ub.
    apply (in_map (fun xv => colsum (sh s val0) (matching S Fv (upd v xv (base_of S N j))))). apply in_seq. lia.
  - intros c Hc. apply matching_in in Hc. destruct Hc as [nd [r [Hnd [Hr ->]]]]. apply Fv_in in Hnd.
    rewrite (sh_ext_rule nd r s (proj1 Hnd) Hr Hs). reflexivity.
Qed.

Lemma step_sound_tot : forall (B : nat -> Q) x s,
  v < length S -> 0 < nth v S 0 -> in_space S x -> s < k ->
  (forall y, in_space S y -> (tot S (sh s val0) g fin y <= B s)%Q) ->
  (tot S (sh s ext_val) (st_g st') (st_fin st') x <= B s)%Q.
Proof.
  intros B x s Hv Hpos Hx Hs Hb. rewrite rf_tot by exact Hx.
  change (sh s ext_val (n + k * pidx N S x)) with (ext_val (n + k * pidx N S x + s)).
  rewrite ext_val_new by exact Hs.
  (* the maximum is attained at some value xv of v *)
  unfold Mval.
  set (f := fun xv => colsum (sh s val0) (matching S Fv (upd v xv (base_of S N (pidx N S x))))).
  assert (Hne : map f (seq 0 (nth v S 0)) <> []).
  { destruct (nth v S 0) as [|m]; [lia|]. cbn [seq map]. discriminate. }
  destruct (maxl_attained _ Hne) as [y [Hy Ey]]. rewrite Ey. apply in_map_iff in Hy.
  destruct Hy as [xv [<- Hxv]]. apply in_seq in Hxv. unfold f. rewrite matching_sum.
  rewrite (step_gval S (sh s val0) v Fv x xv Hx Fv_gin).
  (* the rest does not depend on x_v *)
  assert (E1 : (gval S (sh s ext_val) G x == gval S (sh s val0) G (upd v xv x))%Q).
  { rewrite (gval_ext S (sh s ext_val) (sh s val0) G x).
    - apply gval_agree. intros nd Hnd u Hu. apply G_in in Hnd. symmetry. apply nth_upd_other.
      intro E. subst u. exact (proj2 Hnd Hu).
    - intros nd Hnd r Hr. apply G_in in Hnd. rewrite (sh_ext_rule nd r s (proj1 Hnd) Hr Hs). reflexivity. }
  assert (E2 : (colsum (sh s ext_val) fin == colsum (sh s val0) fin)%Q).
  { apply colsum_ext. intros c Hc. unfold sh. rewrite ext_val_low; [reflexivity|].
    destruct Halign as [_ A2]. specialize (A2 c Hc). lia. }
  rewrite E1, E2.
  assert (Hy : in_space S (upd v xv x)) by (apply in_space_upd; [exact Hx | lia]).
  specialize (Hb (upd v xv x) Hy). unfold tot in Hb.
  rewrite (gval_split S (sh s val0) (fun nd => mem v (fst nd)) g (upd v xv x)) in Hb. lra.
Qed.

End Step.

(* ---------- whole runs ---------- *)

Lemma run_ve_cons : forall k S st v order, run_ve k S st (v :: order) = run_ve k S (remove_factor k S st v) order.
Proof. reflexivity. Qed.

Lemma st_eta : forall st : vstate, st = (st_g st, st_fin st, st_n st, st_rows st).
Proof. intros [[[g fin] n] rows]. reflexivity. Qed.

Lemma run_rows_mono : forall k S order st val,
  feasible val (st_rows (run_ve k S st order)) -> feasible val (st_rows st).
Proof.
  intros k S order. induction order as [|v order IH]; intros st val H; [exact H|].
  rewrite run_ve_cons in H. apply IH in H. rewrite (st_eta st) in H. rewrite rf_rows in H.
  apply feasible_app in H. tauto.
Qed.

(* completeness: along any run, the total can only grow at every joint assignment *)
Lemma run_complete : forall k S val order st,
  Forall (fun v => v < length S) order -> gin S (st_g st) ->
  feasible val (st_rows (run_ve k S st order)) ->
  forall x s, in_space S x -> s < k ->
  (tot S (sh s val) (st_g st) (st_fin st) x <=
   tot S (sh s val) (st_g (run_ve k S st order)) (st_fin (run_ve k S st order)) x)%Q.
Proof.
  intros k S val order. induction order as [|v order IH]; intros st Ho Hg Hf x s Hx Hs.
  - cbn [run_ve fold_left]. lra.
  - rewrite run_ve_cons in *. inversion Ho as [|? ? Hv Ho']; subst.
    rewrite (st_eta st) in *. cbn [st_g st_fin st_n st_rows fst snd] in Hg |- *.
    set (st1 := remove_factor k S (st_g st, st_fin st, st_n st, st_rows st) v) in *.
    assert (Hf1 : feasible val (st_rows st1)) by (apply (run_rows_mono k S order st1 val); exact Hf).
    unfold st1 in Hf1. rewrite rf_rows in Hf1. apply feasible_app in Hf1.
    eapply Qle_trans.
    + apply (step_complete k S (st_g st) (st_fin st) (st_n st) (st_rows st) v Hg val x s Hx Hv Hs (proj2 Hf1)).
    + fold st1. apply IH; auto. unfold st1. apply rf_gin. exact Hg.
Qed.

(* once every variable is eliminated no node is left *)
Lemma run_gdone : forall k S order st done,
  gdone done (st_g st) -> gdone (rev order ++ done) (st_g (run_ve k S st order)).
Proof.
  intros k S order. induction order as [|v order IH]; intros st done D; [exact D|].
  rewrite run_ve_cons. cbn [rev]. rewrite <- app_assoc. cbn [app]. apply IH.
  rewrite (st_eta st). apply rf_gdone. exact D.
Qed.

Lemma run_gin : forall k S order st, gin S (st_g st) -> gin S (st_g (run_ve k S st order)).
Proof.
  intros k S order. induction order as [|v order IH]; intros st H; [exact H|].
  rewrite run_ve_cons. apply IH. rewrite (st_eta st). apply rf_gin. exact H.
Qed.

Lemma run_final_empty : forall k S order st,
  gin S (st_g st) -> gdone [] (st_g st) -> (forall v, v < length S -> In v order) ->
  st_g (run_ve k S st order) = [].
Proof.
  intros k S order st Hg D Hall.
  pose proof (run_gdone k S order st [] D) as D'. pose proof (run_gin k S order st Hg) as G'.
  destruct (st_g (run_ve k S st order)) as [|nd g'] eqn:E; [reflexivity|]. exfalso.
  destruct (D' nd (or_introl eq_refl)) as [Hne Hd]. specialize (G' nd (or_introl eq_refl)).
  destruct (fst nd) as [|u t] eqn:Et; [exact (Hne eq_refl)|].
  inversion G' as [|? ? Hu _]; subst. apply (Hd u (or_introl eq_refl)).
  rewrite app_nil_r. apply in_rev. rewrite rev_involutive. apply Hall; exact Hu.
Qed.

(* soundness: the new columns of a whole run can be valued so that every row pushed holds and
   the total stays below the bound *)
Lemma run_sound : forall k S (B : nat -> Q) order st val0,
  Forall (fun s => 0 < s) S -> Forall (fun v => v < length S) order ->
  gin S (st_g st) -> galign k (st_n st) (st_g st) (st_fin st) ->
  rows_lt (st_n st) (st_rows st) -> feasible val0 (st_rows st) ->
  (forall x s, in_space S x -> s < k -> (tot S (sh s val0) (st_g st) (st_fin st) x <= B s)%Q) ->
  exists val,
    (forall c, c < st_n st -> (val c == val0 c)%Q) /\
    feasible val (st_rows (run_ve k S st order)) /\
    galign k (st_n (run_ve k S st order)) (st_g (run_ve k S st order)) (st_fin (run_ve k S st order)) /\
    (forall x s, in_space S x -> s < k ->
       (tot S (sh s val) (st_g (run_ve k S st order)) (st_fin (run_ve k S st order)) x <= B s)%Q).
Proof.
  intros k S B order. induction order as [|v order IH]; intros st val0 HS Ho Hg Ha Hlt Hf Hb.
  - exists val0. cbn [run_ve fold_left]. split; [intros; reflexivity|]. split; [exact Hf|]. split; [exact Ha | exact Hb].
  - inversion Ho as [|? ? Hv Ho']; subst. rewrite run_ve_cons.
    rewrite (st_eta st) in *. cbn [st_g st_fin st_n st_rows fst snd] in Hg, Ha, Hlt, Hf, Hb |- *.
    set (g := st_g st) in *. set (fin := st_fin st) in *. set (n := st_n st) in *. set (rows := st_rows st) in *.
    set (st1 := remove_factor k S (g, fin, n, rows) v).
    set (val1 := ext_val k S g n v val0).
    assert (Hpos : 0 < nth v S 0).
    { rewrite Forall_forall in HS. apply HS. apply nth_In. exact Hv. }
    assert (Hn1 : st_n st1 = n + k * psize (neighbours (length S) v (filter (fun nd : fnode => mem v (fst nd)) g)) S)
      by apply rf_n.
    destruct (IH st1 val1) as [val [Hagree [Hfeas [Hal Htot]]]]; auto.
    + apply rf_gin; exact Hg.
    + apply (rf_galign k S g fin n rows v Ha).
    + unfold st1. rewrite rf_rows. apply Forall_app. split.
      * apply (rows_lt_mono n); [rewrite rf_n; lia | exact Hlt].
      * rewrite rf_n. apply (newrows_lt k S g fin n v Ha).
    + unfold st1. rewrite rf_rows. apply feasible_app. split.
      * apply (feasible_ext val0 val1 n); [| exact Hlt | exact Hf].
        intros c Hc. unfold val1. rewrite ext_val_low by exact Hc. reflexivity.
      * apply (step_sound_rows k S g fin n v val0 Ha Hv).
    + intros x s Hx Hs. apply (step_sound_tot k S g fin n rows v Hg val0 Ha B x s Hv Hpos Hx Hs).
      intros y Hy. apply Hb; assumption.
    + exists val. split; [|split; [exact Hfeas | split; [exact Hal | exact Htot]]].
      intros c Hc. rewrite Hagree by (rewrite Hn1; lia). unfold val1. rewrite ext_val_low by exact Hc. reflexivity.
Qed.
