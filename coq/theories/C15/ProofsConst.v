(* C15/ProofsConst.v — FactoredLP for every basis set including "constant basis only" (repaired code),
   and for the elimination order the code itself uses. *)
From Coq Require Import List Arith ZArith QArith Qminmax Bool Lia Lqa.
From AIT Require Import Base.Qx C15.Model C15.Spec C15.ProofsBase C15.ProofsGraph C15.ProofsVE C15.ProofsSetup C15.Proofs C15.ProofsOrder.
Import ListNotations.
Local Open Scope nat_scope.

(* inputs of the repaired code: a constant basis needs either a basis or at least one state factor *)
Definition inputs_wf_r (S : list nat) (C b : list bf) (ac : bool) : Prop :=
  Forall (fun s => 0 < s) S /\ Forall (bf_wf S) C /\ Forall (bf_wf S) b /\ (ac = true -> C = [] -> S <> []).

Lemma ones_entry : forall S x, in_space S x -> S <> [] ->
  (entry S (mkBf [0%nat] (repeat 1%Q (nth 0 S 0%nat))) x == 1)%Q.
Proof.
  intros S x Hx HS. unfold entry. cbn [bfTag bfVals pidx].
  assert (Hlt : nth 0 x 0 < nth 0 S 0).
  { apply in_space_nth; [exact Hx|]. destruct S; [congruence | cbn [length]; lia]. }
  rewrite Nat.mul_0_r, Nat.add_0_r. rewrite (nth_indep _ 0%Q 1%Q) by (rewrite repeat_length; exact Hlt).
  rewrite nth_repeat. reflexivity.
Qed.

Lemma effective_wf : forall S C b ac, inputs_wf_r S C b ac ->
  inputs_wf S (fst (flp_effective S C ac)) b (snd (flp_effective S C ac)).
Proof.
  intros S C b ac [HS [HC [Hb Hac]]]. unfold flp_effective. destruct C as [|f C]; [destruct ac|]; cbn [fst snd].
  - specialize (Hac eq_refl eq_refl). split; [exact HS|]. split; [|split; [exact Hb | discriminate]].
    constructor; [|constructor]. unfold bf_wf. cbn [bfTag bfVals psize]. split; [discriminate|].
    split; [constructor; [destruct S; [congruence | cbn [length]; lia] | constructor]|].
    rewrite repeat_length. lia.
  - split; [exact HS|]. split; [exact HC|]. split; [exact Hb | discriminate].
  - split; [exact HS|]. split; [exact HC|]. split; [exact Hb | discriminate].
Qed.

Lemma effective_nweights : forall S C ac, nweights (fst (flp_effective S C ac)) (snd (flp_effective S C ac)) = nweights C ac.
Proof. intros S [|f C] [|]; reflexivity. Qed.

Lemma effective_flat_err : forall S C b ac w x, inputs_wf_r S C b ac -> in_space S x ->
  (flat_err S (fst (flp_effective S C ac)) b (snd (flp_effective S C ac)) w x == flat_err S C b ac w x)%Q.
Proof.
  intros S C b ac w x [HS [HC [Hb Hac]]] Hx. unfold flp_effective. destruct C as [|f C]; [destruct ac|]; cbn [fst snd]; try reflexivity.
  unfold flat_err. cbn [wsum_at length]. rewrite (ones_entry S x Hx (Hac eq_refl eq_refl)). lra.
Qed.

Lemma flp_projection_r_lemma : forall S C b ac order (w : nat -> Q) phi,
  inputs_wf_r S C b ac -> order_ok S order ->
  ((exists val, (forall k, k < nweights C ac -> (val k == w k)%Q) /\ (val (nweights C ac) == phi)%Q /\
                feasible val (flp_rows_r S C b ac order))
   <-> flat_feasible S C b ac w phi).
Proof.
  intros S C b ac order w phi HW Ho. unfold flp_rows_r, flp_system_r.
  pose proof (flp_projection_lemma S (fst (flp_effective S C ac)) b (snd (flp_effective S C ac)) order w phi
                (effective_wf S C b ac HW) Ho) as P.
  rewrite effective_nweights in P. unfold flp_rows in P. rewrite P.
  unfold flat_feasible. split; intros H x Hx; specialize (H x Hx).
  - rewrite <- (effective_flat_err S C b ac w x HW Hx). exact H.
  - rewrite (effective_flat_err S C b ac w x HW Hx). exact H.
Qed.

(* the order the code itself uses satisfies the hypothesis of all the theorems *)
Lemma flp_order_ok : forall S C b ac, order_ok S (flp_order S C b ac).
Proof. intros. unfold flp_order. apply heur_order_ok. Qed.

Lemma flp_code_projection_lemma : forall S C b ac (w : nat -> Q) phi,
  inputs_wf_r S C b ac ->
  ((exists val, (forall k, k < nweights C ac -> (val k == w k)%Q) /\ (val (nweights C ac) == phi)%Q /\
                feasible val (flp_rows_r S C b ac (flp_order_r S C b ac)))
   <-> flat_feasible S C b ac w phi).
Proof. intros. apply flp_projection_r_lemma; [assumption | apply flp_order_ok]. Qed.

(* the unrepaired code, constant basis without any basis: w_const occurs in no row, so phi must
   bound |b(x)| whatever w_const is — a flat-feasible point with smaller phi is cut off *)
Lemma flp_constant_only_unrepaired_refuted_lemma :
  let S := [2] in let b := [mkBf [0] [5; 7]%Q] in
  flat_feasible S [] b true (fun _ => 6%Q) 1%Q /\
  (forall val, feasible val (flp_rows S [] b true [0]) -> (7 <= val 1%nat)%Q).
Proof.
  cbv zeta. split.
  - apply (flat_maxerr_spec [2] [] [mkBf [0] [5; 7]%Q] true [6%Q] 1%Q); [repeat constructor|]. vm_compute. discriminate.
  - intros val Hf.
    assert (E : flp_rows [2] [] [mkBf [0] [5; 7]%Q] true [0] =
                b_rows 2 5 ++ b_rows 4 7 ++ [ve_row 0 6 [2]; ve_row 1 6 [2]; ve_row 0 6 [4]; ve_row 1 6 [4]] ++ flp_result_rows 1 [6]) by reflexivity.
    rewrite E in Hf. apply feasible_app in Hf. destruct Hf as [_ Hf]. apply feasible_app in Hf. destruct Hf as [B7 Hf].
    apply feasible_app in Hf. destruct Hf as [V R]. apply b_rows_char in B7. destruct B7 as [_ B7]. unfold bE in B7.
    apply result_rows_sat in R. destruct R as [_ R1]. unfold colsum, sh in R1. cbn [map qsum Nat.add] in R1.
    inversion V as [|? ? _ V1]; subst. inversion V1 as [|? ? _ V2]; subst. inversion V2 as [|? ? _ V3]; subst.
    inversion V3 as [|? ? V4 _]; subst. apply ve_row_sat in V4. unfold colsum, sh in V4. cbn [map qsum Nat.add] in V4.
    cbn [Nat.add] in B7. lra.
Qed.
