From Coq Require Extraction.
From Coq Require Import ExtrOcamlBasic.
From AIT Require Import Base.Vio C15.Model C15.Spec.
Extraction "model.ml" vio_kit flp_system flp_rows flp_order nweights flat_err flat_maxerr first_violated feasibleb wl
  all_assign psize pidx entry mlp_system mlp_system_orig mlp_order.
