From Coq Require Extraction.
From Coq Require Import ExtrOcamlBasic.
From AIT Require Import Base.Vio C15.Model C15.Spec.
From AIT Require C14.Model2D C14.ModelDDN.
Extraction "model.ml" vio_kit flp_system flp_rows flp_order flp_system_r flp_order_r nweights flat_err flat_maxerr first_violated feasibleb wl
  all_assign psize pidx entry mlp_system mlp_system_orig mlp_order
  C14.Model2D.plusEqualFM C14.Model2D.scaleW2D C14.Model2D.getValue2D
  C14.ModelDDN.getTransitionProbability C14.ModelDDN.graph_new C14.ModelDDN.graph_push.
