(* C15/ProofsGraph.v — denotation of the rule graph under a valuation of the LP columns, and the
   effect of one removeFactor step on it (shared by both directions of the main theorem). *)
From Coq Require Import List Arith QArith Qminmax Bool Lia Lqa.
From AIT Require Import Base.Qx C15.Model C15.Spec C15.ProofsBase.
Import ListNotations.
Local Open Scope nat_scope.

(* the valuation seen by chain s: rule column c stands for LP column c + s *)
Definition sh (s : nat) (val : nat -> Q) : nat -> Q := fun c => val (c + s).

Definition rsum (rho : nat -> Q) (rules : rules_t) (i : nat) : Q :=
  qsum (map (fun r : nat * nat => rho (snd r)) (filter (fun r : nat * nat => fst r =? i) rules)).
Definition nval (S : list nat) (rho : nat -> Q) (nd : fnode) (x : list nat) : Q :=
  rsum rho (snd nd) (pidx (fst nd) S x).
Definition gval (S : list nat) (rho : nat -> Q) (g : graph) (x : list nat) : Q :=
  qsum (map (fun nd => nval S rho nd x) g).
Definition colsum (rho : nat -> Q) (cols : list nat) : Q := qsum (map rho cols).
(* total value of the state at the joint assignment x *)
Definition tot (S : list nat) (rho : nat -> Q) (g : graph) (fin : list nat) (x : list nat) : Q :=
  (gval S rho g x + colsum rho fin)%Q.

Lemma rsum_app : forall rho a b i, (rsum rho (a ++ b) i == rsum rho a i + rsum rho b i)%Q.
Proof. intros. unfold rsum. rewrite filter_app, map_app, qsum_app. reflexivity. Qed.

Lemma colsum_app : forall rho a b, (colsum rho (a ++ b) == colsum rho a + colsum rho b)%Q.
Proof. intros. unfold colsum. rewrite map_app, qsum_app. reflexivity. Qed.

Lemma matching_sum : forall S rho Fv jv, (colsum rho (matching S Fv jv) == gval S rho Fv jv)%Q.
Proof.
  intros S rho Fv jv. induction Fv as [|nd Fv IH]; cbn [matching flat_map]; [reflexivity|].
  rewrite colsum_app. fold (matching S Fv jv). rewrite IH. unfold gval at 2. cbn [map qsum].
  fold (gval S rho Fv jv). unfold nval, rsum, colsum. rewrite map_map. reflexivity.
Qed.

Lemma gval_split : forall S rho (p : fnode -> bool) g x,
  (gval S rho g x == gval S rho (filter p g) x + gval S rho (filter (fun nd => negb (p nd)) g) x)%Q.
Proof. intros. unfold gval. apply qsum_filter_split. Qed.

Lemma gval_agree : forall S rho g a b,
  (forall nd, In nd g -> forall k, In k (fst nd) -> nth k a 0 = nth k b 0) ->
  (gval S rho g a == gval S rho g b)%Q.
Proof.
  intros S rho g a b H. unfold gval. apply qsum_map_ext. intros nd Hnd. unfold nval.
  rewrite (pidx_agree (fst nd) S a b); [reflexivity|]. intros k Hk. apply (H nd Hnd k Hk).
Qed.

Lemma rsum_ext : forall rho rho' rules i,
  (forall r, In r rules -> (rho (snd r) == rho' (snd r))%Q) -> (rsum rho rules i == rsum rho' rules i)%Q.
Proof.
  intros rho rho' rules i H. unfold rsum. apply qsum_map_ext. intros r Hr. apply H.
  apply filter_In in Hr. tauto.
Qed.

Lemma gval_ext : forall S rho rho' g x,
  (forall nd, In nd g -> forall r, In r (snd nd) -> (rho (snd r) == rho' (snd r))%Q) ->
  (gval S rho g x == gval S rho' g x)%Q.
Proof.
  intros S rho rho' g x H. unfold gval. apply qsum_map_ext. intros nd Hnd. unfold nval.
  apply rsum_ext. intros r Hr. apply (H nd Hnd r Hr).
Qed.

Lemma colsum_ext : forall rho rho' cols,
  (forall c, In c cols -> (rho c == rho' c)%Q) -> (colsum rho cols == colsum rho' cols)%Q.
Proof. intros. unfold colsum. apply qsum_map_ext. assumption. Qed.

(* ---------- upd_node ---------- *)
Lemma upd_node_gval : forall S rho N new G x,
  (gval S rho (upd_node N (fun old => old ++ new) G) x == gval S rho G x + rsum rho new (pidx N S x))%Q.
Proof.
  intros S rho N new G x. induction G as [|[vs rs] G IH]; cbn [upd_node].
  - unfold gval. cbn [map qsum]. unfold nval. cbn [fst snd app]. lra.
  - destruct (list_eqb vs N) eqn:E.
    + apply list_eqb_eq in E. subst vs. unfold gval. cbn [map qsum]. unfold nval at 1 3. cbn [fst snd].
      rewrite rsum_app. lra.
    + unfold gval in *. cbn [map qsum]. rewrite IH. lra.
Qed.

Lemma upd_node_in : forall N f G nd, In nd (upd_node N f G) ->
  In nd G \/ (fst nd = N /\ exists rs, (In (N, rs) G \/ rs = []) /\ snd nd = f rs).
Proof.
  intros N f G nd. induction G as [|[vs rs] G IH]; cbn [upd_node]; intro H.
  - destruct H as [<-|[]]. right. split; [reflexivity|]. exists []. split; [right; reflexivity | reflexivity].
  - destruct (list_eqb vs N) eqn:E.
    + apply list_eqb_eq in E. subst vs. destruct H as [<-|H]; [|left; right; exact H].
      right. split; [reflexivity|]. exists rs. split; [left; left; reflexivity | reflexivity].
    + destruct H as [<-|H]; [left; left; reflexivity|].
      destruct (IH H) as [H1|[H1 [rs' [[H2|H2] H3]]]].
      * left; right; exact H1.
      * right. split; [exact H1|]. exists rs'. split; [left; right; exact H2 | exact H3].
      * right. split; [exact H1|]. exists rs'. split; [right; exact H2 | exact H3].
Qed.

(* the rules appended for the new factor: exactly one per joint value *)
Lemma rsum_newrules_gen : forall rho (f : nat -> nat) m a j0,
  (rsum rho (map (fun j => (j, f j)) (seq a m)) j0 ==
   if (a <=? j0) && (j0 <? a + m) then rho (f j0) else 0)%Q.
Proof.
  intros rho f m. induction m as [|m IH]; intros a j0; cbn [seq map].
  - unfold rsum. cbn [filter map qsum]. destruct (a <=? j0) eqn:E1; cbn [andb]; [|reflexivity].
    destruct (j0 <? a + 0) eqn:E2; [|reflexivity]. apply Nat.leb_le in E1. apply Nat.ltb_lt in E2. lia.
  - unfold rsum. cbn [filter fst]. destruct (a =? j0) eqn:E.
    + apply Nat.eqb_eq in E. subst j0. cbn [map qsum snd]. fold (rsum rho (map (fun j => (j, f j)) (seq (S a) m)) a).
      rewrite IH. replace (S a <=? a) with false by (symmetry; apply Nat.leb_gt; lia). cbn [andb].
      replace (a <=? a) with true by (symmetry; apply Nat.leb_le; lia).
      replace (a <? a + S m) with true by (symmetry; apply Nat.ltb_lt; lia). cbn [andb]. apply Qplus_0_r.
    + apply Nat.eqb_neq in E. fold (rsum rho (map (fun j => (j, f j)) (seq (S a) m)) j0). rewrite IH.
      destruct (Nat.leb_spec a j0); destruct (Nat.leb_spec (S a) j0); destruct (Nat.ltb_spec j0 (S a + m));
        destruct (Nat.ltb_spec j0 (a + S m)); cbn [andb]; try reflexivity; lia.
Qed.

Lemma rsum_newrules : forall rho (f : nat -> nat) m j0, j0 < m ->
  (rsum rho (map (fun j => (j, f j)) (seq 0 m)) j0 == rho (f j0))%Q.
Proof.
  intros rho f m j0 H. rewrite rsum_newrules_gen.
  replace (0 <=? j0) with true by (symmetry; apply Nat.leb_le; lia).
  replace (j0 <? 0 + m) with true by (symmetry; apply Nat.ltb_lt; lia). reflexivity.
Qed.

(* ---------- neighbours ---------- *)
Definition gin (S : list nat) (g : graph) : Prop :=
  forall nd, In nd g -> Forall (fun u => u < length S) (fst nd).

Lemma neighbours_in : forall n v Fv u,
  In u (neighbours n v Fv) <-> u < n /\ u <> v /\ exists nd, In nd Fv /\ In u (fst nd).
Proof.
  intros n v Fv u. unfold neighbours. rewrite filter_In, in_seq, andb_true_iff, negb_true_iff, Nat.eqb_neq, existsb_exists.
  split.
  - intros [H1 [H2 [nd [H3 H4]]]]. apply mem_In in H4. split; [lia|]. split; [exact H2|]. exists nd; auto.
  - intros [H1 [H2 [nd [H3 H4]]]]. split; [lia|]. split; [exact H2|]. exists nd. split; [exact H3 | apply mem_In; exact H4].
Qed.

Lemma neighbours_inrange : forall n v Fv, Forall (fun u => u < n) (neighbours n v Fv).
Proof. intros. apply Forall_forall. intros u Hu. apply neighbours_in in Hu. tauto. Qed.

(* a node adjacent to v only mentions v and v's neighbours *)
Lemma adjacent_vars : forall S v Fv nd k, gin S Fv -> In nd Fv -> In k (fst nd) ->
  k = v \/ In k (neighbours (length S) v Fv).
Proof.
  intros S v Fv nd k Hin Hnd Hk. destruct (Nat.eq_dec k v) as [->|Hne]; [left; reflexivity|]. right.
  apply neighbours_in. split; [|split; [exact Hne | exists nd; auto]].
  specialize (Hin nd Hnd). rewrite Forall_forall in Hin. apply Hin; exact Hk.
Qed.

(* (C) the joint value enumerated for index pidx N S x, with v set to xv, reads every adjacent
   node at the same entry as x with v set to xv *)
Lemma step_pidx : forall S v Fv x xv nd,
  in_space S x -> gin S Fv -> In nd Fv ->
  let N := neighbours (length S) v Fv in
  pidx (fst nd) S (upd v xv (base_of S N (pidx N S x))) = pidx (fst nd) S (upd v xv x).
Proof.
  intros S v Fv x xv nd Hx Hin Hnd N. apply pidx_agree. intros k Hk.
  assert (Hkr : k < length S).
  { specialize (Hin nd Hnd). rewrite Forall_forall in Hin. apply Hin; exact Hk. }
  destruct (adjacent_vars S v Fv nd k Hin Hnd Hk) as [->|HkN].
  - rewrite !nth_upd_same; auto.
    + rewrite (in_space_length S x Hx). exact Hkr.
    + unfold base_of. rewrite scatter_length. exact Hkr.
  - assert (Hne : v <> k) by (apply neighbours_in in HkN; intro E; subst; tauto).
    rewrite !nth_upd_other by exact Hne.
    apply base_of_agree; [exact Hx | apply neighbours_inrange | exact HkN].
Qed.

Lemma step_gval : forall S rho v Fv x xv,
  in_space S x -> gin S Fv ->
  let N := neighbours (length S) v Fv in
  (gval S rho Fv (upd v xv (base_of S N (pidx N S x))) == gval S rho Fv (upd v xv x))%Q.
Proof.
  intros S rho v Fv x xv Hx Hin N. subst N. unfold gval. apply qsum_map_ext. intros nd Hnd. cbv beta. unfold nval.
  pose proof (step_pidx S v Fv x xv nd Hx Hin Hnd) as E. cbv zeta in E. rewrite E. reflexivity.
Qed.

(* ---------- rows ---------- *)
Local Open Scope Q_scope.

Lemma lin_ve_row : forall val s nf cols,
  lin val (rCoefs (ve_row s nf cols)) == - sh s val nf + colsum (sh s val) cols.
Proof.
  intros val s nf cols. unfold ve_row. cbn [rCoefs lin]. change (sh s val nf) with (val (nf + s)%nat).
  assert (E : lin val (map (fun c => ((c + s)%nat, 1)) cols) == colsum (sh s val) cols).
  { induction cols as [|c cols IH]; cbn [map lin]; unfold colsum in *; cbn [map qsum]; [reflexivity|].
    rewrite IH. change (sh s val c) with (val (c + s)%nat). lra. }
  rewrite E. lra.
Qed.

Lemma ve_row_sat : forall val s nf cols,
  row_sat val (ve_row s nf cols) <-> colsum (sh s val) cols <= sh s val nf.
Proof.
  intros. unfold row_sat. replace (rRel (ve_row s nf cols)) with RLe by reflexivity.
  replace (rRhs (ve_row s nf cols)) with 0 by reflexivity. rewrite lin_ve_row. split; intro; lra.
Qed.

Lemma feasible_app : forall val a b, feasible val (a ++ b) <-> feasible val a /\ feasible val b.
Proof. intros. unfold feasible. apply Forall_app. Qed.

(* rows only mention columns below n *)
Definition row_lt (n : nat) (r : row) : Prop := Forall (fun ca : nat * Q => (fst ca < n)%nat) (rCoefs r).
Definition rows_lt (n : nat) (rows : list row) : Prop := Forall (row_lt n) rows.

Lemma lin_ext : forall val val' n cs,
  (forall c, (c < n)%nat -> val c == val' c) -> Forall (fun ca : nat * Q => (fst ca < n)%nat) cs ->
  lin val cs == lin val' cs.
Proof.
  intros val val' n cs H Hc. induction Hc as [|[c a] cs Hca Hc IH]; cbn [lin]; [reflexivity|].
  cbn [fst] in Hca. rewrite IH, (H c Hca). reflexivity.
Qed.

Lemma feasible_ext : forall val val' n rows,
  (forall c, (c < n)%nat -> val c == val' c) -> rows_lt n rows -> feasible val rows -> feasible val' rows.
Proof.
  intros val val' n rows H Hlt Hf. unfold feasible, rows_lt in *. rewrite Forall_forall in *.
  intros r Hr. specialize (Hf r Hr). specialize (Hlt r Hr). unfold row_sat in *.
  pose proof (lin_ext val val' n (rCoefs r) H Hlt) as E. destruct (rRel r); rewrite <- E; exact Hf.
Qed.

Lemma rows_lt_mono : forall n n' rows, (n <= n')%nat -> rows_lt n rows -> rows_lt n' rows.
Proof.
  intros n n' rows Hle H. unfold rows_lt, row_lt in *. rewrite Forall_forall in *. intros r Hr.
  specialize (H r Hr). rewrite Forall_forall in *. intros ca Hca. specialize (H ca Hca). lia.
Qed.
