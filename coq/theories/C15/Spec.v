(* C15/Spec.v — the flat formulation and the meaning of LP rows.
   Flat LP of FactoredLP:  phi >= | sum_k w_k C_k(x) (+ w_const) - b(x) |  for EVERY joint assignment x.
   Written over full joint assignments, independently of the elimination. *)
From Coq Require Import List Arith QArith Qminmax Bool.
From AIT Require Import Base.Qx C15.Model.
Import ListNotations.
Local Open Scope Q_scope.

(* ---------- meaning of rows ---------- *)
Fixpoint lin (val : nat -> Q) (cs : list (nat * Q)) : Q :=
  match cs with [] => 0 | (c, a) :: t => a * val c + lin val t end.
Definition row_sat (val : nat -> Q) (r : row) : Prop :=
  match rRel r with REq => lin val (rCoefs r) == rRhs r | RLe => lin val (rCoefs r) <= rRhs r end.
Definition feasible (val : nat -> Q) (rows : list row) : Prop := Forall (row_sat val) rows.

(* ---------- joint assignments ---------- *)
Definition in_space (S x : list nat) : Prop := Forall2 (fun s d => (d < s)%nat) S x.

(* value of a basis function at a full joint assignment: the entry selected by x restricted to the tag *)
Definition entry (S : list nat) (f : bf) (x : list nat) : Q := nth (pidx (bfTag f) S x) (bfVals f) 0.
(* sum of basis functions (FactoredVector) *)
Fixpoint fv_at (S : list nat) (fv : list bf) (x : list nat) : Q :=
  match fv with [] => 0 | f :: t => entry S f x + fv_at S t x end.
(* sum_k w_{k0+k} * C_k(x), weights read from a valuation *)
Fixpoint wsum_at (S : list nat) (C : list bf) (w : nat -> Q) (k0 : nat) (x : list nat) : Q :=
  match C with [] => 0 | f :: t => w k0 * entry S f x + wsum_at S t w (Datatypes.S k0) x end.

(* Cw(x) - b(x): weights are columns 0..|C|-1, the optional constant basis weight is column |C| *)
Definition flat_err (S : list nat) (C b : list bf) (addConst : bool) (w : nat -> Q) (x : list nat) : Q :=
  wsum_at S C w 0 x + (if addConst then w (length C) else 0) - fv_at S b x.

(* the flat constraint system: one pair of inequalities per joint assignment *)
Definition flat_feasible (S : list nat) (C b : list bf) (addConst : bool) (w : nat -> Q) (phi : Q) : Prop :=
  forall x, in_space S x -> - phi <= flat_err S C b addConst w x /\ flat_err S C b addConst w x <= phi.

(* well-formed inputs: factor sizes positive; every tag non-empty with in-range keys, one value per
   partial assignment; with a constant basis there is at least one basis to carry it (the code
   divides by C.bases.size()) *)
Definition bf_wf (S : list nat) (f : bf) : Prop :=
  bfTag f <> [] /\ Forall (fun k => (k < length S)%nat) (bfTag f) /\ length (bfVals f) = psize (bfTag f) S.
Definition inputs_wf (S : list nat) (C b : list bf) (addConst : bool) : Prop :=
  Forall (fun s => (0 < s)%nat) S /\ Forall (bf_wf S) C /\ Forall (bf_wf S) b /\ (addConst = true -> C <> []).
(* an elimination order: in-range variables, every variable eliminated (GenericVariableElimination
   loops until graph.variableSize() == 0) *)
Definition order_ok (S order : list nat) : Prop :=
  Forall (fun v => (v < length S)%nat) order /\ forall v, (v < length S)%nat -> In v order.

(* ---------- executable checkers used by the driver ---------- *)

(* all joint assignments *)
Fixpoint all_assign (S : list nat) : list (list nat) :=
  match S with
  | [] => [[]]
  | s :: t => flat_map (fun xs => map (fun d => d :: xs) (seq 0 s)) (all_assign t)
  end.

Definition wl (w : list Q) : nat -> Q := fun k => nth k w 0.

(* max_x |Cw(x) - b(x)|, exact (Qred keeps the numerals small) *)
Definition flat_maxerr (S : list nat) (C b : list bf) (addConst : bool) (w : list Q) : Q :=
  maxl (map (fun x => Qred (qabs (flat_err S C b addConst (wl w) x))) (all_assign S)).

(* does the point [sol] (all LP columns) satisfy every row up to eps? *)
Definition row_sat_tolb (eps : Q) (val : nat -> Q) (r : row) : bool :=
  let l := Qred (lin val (rCoefs r)) in
  match rRel r with
  | REq => Qle_bool (l - rRhs r) eps && Qle_bool (rRhs r - l) eps
  | RLe => Qle_bool (l - rRhs r) eps
  end.
Definition first_violated (eps : Q) (sol : list Q) (rows : list row) : option nat :=
  (fix go (i : nat) (rs : list row) : option nat :=
     match rs with
     | [] => None
     | r :: t => if row_sat_tolb eps (wl sol) r then go (Datatypes.S i) t else Some i
     end) 0%nat rows.

(* exact boolean feasibility (eps = 0) *)
Definition feasibleb (sol : list Q) (rows : list row) : bool :=
  forallb (row_sat_tolb 0 (wl sol)) rows.
