(* C15/Model.v — executable Gallina model of the LINEAR CONSTRAINT SYSTEM built by
     Factored::MDP::FactoredLP::operator()            (src/Factored/MDP/Algorithms/Utils/FactoredLP.cpp)
     Factored::MDP::LinearProgramming::solveLP        (src/Factored/MDP/Algorithms/LinearProgramming.cpp)
   on top of GenericVariableElimination::removeFactor (include/AIToolbox/Factored/Utils/
   GenericVariableElimination.hpp) and FactorGraph (getFactor / erase / bestVariableToRemove).

   The model produces the list of rows in the order the C++ pushes them into the LP, with the same
   column numbering (LP variable ids).  The LP solver itself (lp_solve behind AIToolbox::LP) is not
   modelled; the theorems are about the feasible sets of the two systems.
   doubles are exact rationals Q; size_t is unbounded nat.  No proofs in this file. *)
From Coq Require Import List Arith QArith Bool.
Import ListNotations.
Local Open Scope nat_scope.

(* ---------- data ---------- *)

(* src: FactoredMatrix.hpp:struct BasisFunction {tag, values} *)
Record bf := mkBf { bfTag : list nat; bfVals : list Q }.

(* One LP row as pushed by LP::pushRow: the non-zero entries of lp.row (column, coefficient),
   the constraint type and the right-hand side.  Only Equal and LessEqual are ever pushed. *)
Inductive rel := REq | RLe.
Record row := mkRow { rCoefs : list (nat * Q); rRel : rel; rRhs : Q }.

(* src: GenericVariableElimination.hpp:Rules = vector<pair<size_t, Factor>> with Factor = size_t:
   (partial index of the assignment, LP column that names the rule) *)
Definition rules_t : Type := list (nat * nat).
(* src: FactorGraph.hpp:FactorNode (variables_, f_) *)
Definition fnode : Type := list nat * rules_t.
(* src: FactorGraph.hpp:factorAdjacencies_ — creation order; per-variable `factors` lists are
   sub-sequences of it in the same order. *)
Definition graph : Type := list fnode.

Fixpoint list_eqb (a b : list nat) : bool :=
  match a, b with
  | [], [] => true
  | x :: a', y :: b' => (x =? y) && list_eqb a' b'
  | _, _ => false
  end.
Definition mem (x : nat) (l : list nat) : bool := existsb (Nat.eqb x) l.

(* in-place write jointValue.second[id] = x, seen on the full-length view of the assignment *)
Fixpoint upd (i x : nat) (l : list nat) : list nat :=
  match l, i with
  | [], _ => []
  | _ :: t, 0 => x :: t
  | h :: t, S i' => h :: upd i' x t
  end.

(* ---------- index arithmetic (Factored/Utils/Core.cpp; its laws are property C14) ---------- *)

(* src: Core.cpp:toIndexPartial(ids, space, f) = sum_i f[ids_i] * prod_{j<i} space[ids_j]
   (first key least significant), in Horner form *)
Fixpoint pidx (keys S x : list nat) : nat :=
  match keys with
  | [] => 0
  | k :: t => nth k x 0 + nth k S 0 * pidx t S x
  end.
(* src: Core.cpp:factorSpacePartial / PartialFactorsEnumerator::size *)
Fixpoint psize (keys S : list nat) : nat :=
  match keys with [] => 1 | k :: t => nth k S 0 * psize t S end.
(* src: Core.cpp:PartialFactorsEnumerator — the j-th joint value visited is the mixed-radix
   decoding of j over the keys, first key fastest (C14: enumerator_visits_each_once_in_order) *)
Fixpoint pdec (keys S : list nat) (id : nat) : list nat :=
  match keys with
  | [] => []
  | k :: t => (id mod nth k S 0) :: pdec t S (id / nth k S 0)
  end.
Fixpoint assoc (k : nat) (l : list (nat * nat)) : nat :=
  match l with
  | [] => 0
  | (k', x) :: t => if k' =? k then x else assoc k t
  end.
(* a PartialFactors (keys, vals) seen as a full-length vector (0 where unassigned): the lookups
   of toIndexPartial(ids, space, pf) only read positions that are keys of pf *)
Definition scatter (keys vals : list nat) (n : nat) : list nat :=
  map (fun i => assoc i (combine keys vals)) (seq 0 n).

(* ---------- graph ---------- *)

(* src: FactorGraph.hpp:getFactor(variables) followed by a modification of its data: the first
   node whose variables_ equal [N] (findFactorByVariables), else a new node appended at the end *)
Fixpoint upd_node (N : list nat) (f : rules_t -> rules_t) (g : graph) : graph :=
  match g with
  | [] => [(N, f [])]
  | (vs, rs) :: g' => if list_eqb vs N then (vs, f rs) :: g' else (vs, rs) :: upd_node N f g'
  end.

(* src: FactorGraph.hpp:VariableNode::vNeighbors — sorted union of the variables of the factors
   adjacent to v, without v (maintained incrementally by getFactor/erase) *)
Definition neighbours (n v : nat) (Fv : graph) : list nat :=
  filter (fun u => negb (u =? v) && existsb (fun nd : fnode => mem u (fst nd)) Fv) (seq 0 n).

(* ---------- initial rules: one pair of LP columns per entry of every input function ---------- *)

(* "for (i = 0; i < f.values.size(); ++i) { push two Equal rows; newFactor->getData().
   emplace_back(i, currentRule); currentRule += 2; }"  [mk r v] = the two rows for the entry of
   value v named by columns r (forward) and r+1 (reverse).  Returns rows, rules, next column. *)
Fixpoint entry_rules (mk : nat -> Q -> list row) (i r : nat) (vals : list Q) : list row * rules_t * nat :=
  match vals with
  | [] => ([], [], r)
  | v :: t => let '(rows, rules, r') := entry_rules mk (S i) (r + 2) t in
              (mk r v ++ rows, (i, r) :: rules, r')
  end.

(* src: FactoredLP.cpp:operator() first loop (C): rows  -r + v*w_k (+ coeff*w_const) = 0  and
   -(r+1) - v*w_k (- coeff*w_const) = 0.  [cst] = Some (constBasisId, constBasisCoeff). *)
Definition c_rows (k : nat) (cst : option (nat * Q)) (r : nat) (v : Q) : list row :=
  match cst with
  | Some (cid, cc) =>
      [ mkRow [(r, -1%Q); (k, v); (cid, cc)] REq 0%Q ;
        mkRow [(r + 1, -1%Q); (k, (- v)%Q); (cid, (- cc)%Q)] REq 0%Q ]
  | None =>
      [ mkRow [(r, -1%Q); (k, v)] REq 0%Q ;
        mkRow [(r + 1, -1%Q); (k, (- v)%Q)] REq 0%Q ]
  end.
(* src: FactoredLP.cpp:operator() second loop (b): rows  r = -v  and  (r+1) = v *)
Definition b_rows (r : nat) (v : Q) : list row :=
  [ mkRow [(r, 1%Q)] REq (- v)%Q ; mkRow [(r + 1, 1%Q)] REq v ].

(* setup state: graph, rows pushed so far, next free column (currentRule) *)
Definition sstate : Type := graph * list row * nat.

Definition add_basis (mk : nat -> Q -> list row) (st : sstate) (f : bf) : sstate :=
  let '(g, rows, r) := st in
  let '(nr, rules, r') := entry_rules mk 0 r (bfVals f) in
  (upd_node (bfTag f) (fun old => old ++ rules) g, rows ++ nr, r').

(* the C loop also advances currentWeight *)
Fixpoint add_c_bases (cst : option (nat * Q)) (k : nat) (st : sstate) (C : list bf) : sstate :=
  match C with
  | [] => st
  | f :: t => add_c_bases cst (S k) (add_basis (c_rows k cst) st f) t
  end.
Definition add_b_bases (st : sstate) (b : list bf) : sstate := fold_left (add_basis b_rows) b st.

Definition nweights (C : list bf) (addConst : bool) : nat := length C + (if addConst then 1 else 0).

(* constBasisCoeff = 1.0 / C.bases.size() on column constBasisId = phiId - 1 *)
Definition const_term (C : list bf) (addConst : bool) : option (nat * Q) :=
  if addConst then Some (length C, (1 # Pos.of_nat (length C))%Q) else None.

Definition flp_setup (C b : list bf) (addConst : bool) : sstate :=
  let phiId := nweights C addConst in
  add_b_bases (add_c_bases (const_term C addConst) 0 ([], [], phiId + 1) C) b.

(* ---------- variable elimination (GenericVariableElimination::removeFactor) ---------- *)

(* "for (factor : factors) { jvPartialIndex = toIndexPartial(factor->getVariables(), V, jointValue);
   for (rule : factor->getData()) if (jvPartialIndex == rule.first) global.crossSum(rule.second); }"
   — the columns set to 1.0 in lp.row for one joint value (full-length view [jv]) *)
Definition matching (S : list nat) (Fv : graph) (jv : list nat) : list nat :=
  flat_map (fun nd : fnode =>
              map snd (filter (fun r : nat * nat => fst r =? pidx (fst nd) S jv) (snd nd))) Fv.

(* src: Global::beginCrossSum / crossSum / endCrossSum:  -newFactor + sum of the rules <= 0, and
   (FactoredLP only) the same row with every column shifted by one for the reverse chain.
   [s] = the shift (0 forward, 1 reverse). *)
Definition ve_row (s nf : nat) (cols : list nat) : row :=
  mkRow ((nf + s, -1%Q) :: map (fun c => (c + s, 1%Q)) cols) RLe 0%Q.

(* the joint value of the neighbours with index j, as a full-length vector *)
Definition base_of (S N : list nat) (j : nat) : list nat := scatter N (pdec N S j) (length S).

(* rows pushed for the j-th joint value of the neighbours: for every value x of v, one row per
   chain ([k] chains: 2 for FactoredLP, 1 for LinearProgramming) *)
Definition elim_rows (k : nat) (S : list nat) (Fv : graph) (N : list nat) (v j nf : nat) : list row :=
  flat_map (fun x => let cols := matching S Fv (upd v x (base_of S N j)) in
                     map (fun s => ve_row s nf cols) (seq 0 k))
           (seq 0 (nth v S 0)).

(* VE state: graph, finalFactors, lp.row.size() (next free column), rows pushed *)
Definition vstate : Type := graph * list nat * nat * list row.

(* src: GenericVariableElimination.hpp:removeFactor + FactorGraph::erase, with Global::
   initNewFactor allocating [k] columns per joint value (newFactor = lp.row.size()).  New rules
   are appended (no mergeFactors in these Globals). *)
Definition remove_factor (k : nat) (S : list nat) (st : vstate) (v : nat) : vstate :=
  let '(g, fin, n, rows) := st in
  let Fv := filter (fun nd : fnode => mem v (fst nd)) g in
  let G := filter (fun nd : fnode => negb (mem v (fst nd))) g in
  let N := neighbours (length S) v Fv in
  let js := seq 0 (psize N S) in
  let newrows := flat_map (fun j => elim_rows k S Fv N v j (n + k * j)) js in
  let n' := n + k * psize N S in
  match N with
  | [] => (G, fin ++ map (fun j => n + k * j) js, n', rows ++ newrows)
  | _ => (upd_node N (fun old => old ++ map (fun j => (j, n + k * j)) js) G, fin, n', rows ++ newrows)
  end.

Definition run_ve (k : nat) (S : list nat) (st : vstate) (order : list nat) : vstate :=
  fold_left (remove_factor k S) order st.

(* src: FactoredLP.cpp:Global::makeResult — the two final phi rows *)
Definition flp_result_rows (phiId : nat) (fin : list nat) : list row :=
  [ mkRow ((phiId, -1%Q) :: map (fun c => (c, 1%Q)) fin) RLe 0%Q ;
    mkRow ((phiId, -1%Q) :: map (fun c => (c + 1, 1%Q)) fin) RLe 0%Q ].

(* src: FactoredLP.cpp:FactoredLP::operator().  [order] = the sequence of variables chosen by
   graph.bestVariableToRemove (the theorems hold for every order that eliminates every variable).
   Result: all rows in push order, and the final number of LP columns. *)
Definition flp_system (S : list nat) (C b : list bf) (addConst : bool) (order : list nat) : list row * nat :=
  let phiId := nweights C addConst in
  let '(g, rows0, n0) := flp_setup C b addConst in
  let '(_, fin, n, rows) := run_ve 2 S (g, [], n0, rows0) order in
  (rows ++ flp_result_rows phiId fin, n).
Definition flp_rows S C b addConst order : list row := fst (flp_system S C b addConst order).

(* ---------- the elimination-order heuristic actually used by the code ---------- *)

Definition nbrs_in (n v : nat) (g : graph) : list nat :=
  neighbours n v (filter (fun nd : fnode => mem v (fst nd)) g).
Definition factor_exists (N : list nat) (g : graph) : bool :=
  match N with [] => false | _ => existsb (fun nd : fnode => list_eqb (fst nd) N) g end.
Definition elim_cost (S : list nat) (v : nat) (N : list nat) : nat :=
  fold_left (fun c u => c * nth u S 0) N (nth v S 0).

(* src: FactorGraph.hpp:bestVariableToRemove (factorExists is not refreshed when the candidate
   changes — modelled as written) *)
Definition best_variable (S : list nat) (g : graph) (active : list nat) : option nat :=
  match active with
  | [] => None
  | first :: others =>
    let N0 := nbrs_in (length S) first g in
    let fe := factor_exists N0 g in
    Some (fst (fold_left (fun (st : nat * nat) next =>
                 let Nn := nbrs_in (length S) next g in
                 let ne := factor_exists Nn g in
                 if negb ne && fe then st
                 else let c := elim_cost S next Nn in
                      if (ne && negb fe) || (c <? snd st) then (next, c) else st)
               others (first, elim_cost S first N0)))
  end.

(* only the graph component of the VE state matters for the order; k = 0 allocates nothing *)
Fixpoint heur_order_go (S : list nat) (fuel : nat) (st : vstate) (active : list nat) : list nat :=
  match fuel with
  | 0 => []
  | Datatypes.S fuel' =>
    match best_variable S (fst (fst (fst st))) active with
    | None => []
    | Some v => v :: heur_order_go S fuel' (remove_factor 0 S st v) (filter (fun u => negb (u =? v)) active)
    end
  end.
Definition heur_order (S : list nat) (g : graph) : list nat :=
  heur_order_go S (length S) (g, [], 0, []) (seq 0 (length S)).

(* the order FactoredLP::operator() uses *)
Definition flp_order (S : list nat) (C b : list bf) (addConst : bool) : list nat :=
  heur_order S (fst (fst (flp_setup C b addConst))).

(* =================================================================================================
   Factored-MDP LinearProgramming::solveLP (src/Factored/MDP/Algorithms/LinearProgramming.cpp)
   ================================================================================================= *)
From Coq Require Import Qminmax.
(* src: Utils/Core.hpp:checkEqualSmall(v, 0.0): |v| <= 1e-6 *)
Definition small_zero (v : Q) : bool := Qle_bool (Qmax v (- v)) (1 # 1000000).

(* src: FactoredMatrix.hpp:struct BasisMatrix {tag, actionTag, values}: values(sId, aId), given by rows *)
Record bm := mkBm { bmTag : list nat; bmATag : list nat; bmVals : list (list Q) }.

(* "if (checkEqualSmall(v, 0.0)) continue; lp.addColumn(); … pushRow(Equal, …);
   newFactor->getData().emplace_back(index, currentRule); currentRule += 1;" over a sequence of
   (index, value) entries in iteration order: one LP column per non-zero entry *)
Fixpoint sparse_rules (mk : nat -> Q -> row) (r : nat) (ivs : list (nat * Q)) : list row * rules_t * nat :=
  match ivs with
  | [] => ([], [], r)
  | (i, v) :: t =>
      if small_zero v then sparse_rules mk r t
      else let '(rows, rules, r') := sparse_rules mk (Datatypes.S r) t in (mk r v :: rows, (i, r) :: rules, r')
  end.

Definition add_sparse (mk : nat -> Q -> row) (tag : list nat) (ivs : list (nat * Q)) (st : sstate) : sstate :=
  let '(g, rows, r) := st in
  let '(nr, rules, r') := sparse_rules mk r ivs in
  (upd_node tag (fun old => old ++ rules) g, rows ++ nr, r').

(* entries of a vector: (sId, v) *)
Definition vec_entries (vals : list Q) : list (nat * Q) := combine (seq 0 (length vals)) vals.
(* entries of a matrix in the loop order "for sId (rows) for aId (cols)": index sId + aMult * aId *)
Definition mat_entries (aMult : nat) (m : list (list Q)) : list (nat * Q) :=
  flat_map (fun sr : nat * list Q =>
              map (fun ac : nat * Q => (fst sr + aMult * fst ac, snd ac)) (combine (seq 0 (length (snd sr))) (snd sr)))
           (combine (seq 0 (length m)) m).
(* src: Core.hpp:join(S.size(), tag, actionTag): action variable j is graph variable |S| + j *)
Definition join_tag (nS : nat) (tag atag : list nat) : list nat := tag ++ map (fun j => nS + j) atag.

(* h setup:  -rule - v * w_k = 0 *)
Definition h_row (k : nat) (r : nat) (v : Q) : row := mkRow [(r, -1%Q); (k, (- v)%Q)] REq 0%Q.
(* g setup:  -rule + discount * v * w_k = 0 *)
Definition g_row (gam : Q) (k : nat) (r : nat) (v : Q) : row := mkRow [(r, -1%Q); (k, (gam * v)%Q)] REq 0%Q.
(* R setup:  rule = v *)
Definition r_row (r : nat) (v : Q) : row := mkRow [(r, 1%Q)] REq v.

Fixpoint add_h (k : nat) (st : sstate) (h : list bf) : sstate :=
  match h with
  | [] => st
  | f :: t => add_h (Datatypes.S k) (add_sparse (h_row k) (bfTag f) (vec_entries (bfVals f)) st) t
  end.
Fixpoint add_g (S : list nat) (gam : Q) (k : nat) (st : sstate) (g : list bm) : sstate :=
  match g with
  | [] => st
  | f :: t => add_g S gam (Datatypes.S k)
                (add_sparse (g_row gam k) (join_tag (length S) (bmTag f) (bmATag f))
                            (mat_entries (psize (bmTag f) S) (bmVals f)) st) t
  end.
Definition add_R (S : list nat) (st : sstate) (R : list bm) : sstate :=
  fold_left (fun st f => add_sparse r_row (join_tag (length S) (bmTag f) (bmATag f))
                                    (mat_entries (psize (bmTag f) S) (bmVals f)) st) R st.

Definition mlp_setup (S : list nat) (h : list bf) (g R : list bm) (gam : Q) : sstate :=
  add_R S (add_g S gam 0 (add_h 0 ([], [], length h) h) g) R.

(* src: LinearProgramming.cpp:Global::makeResult AS REPAIRED by fixes/C15-mdp-lp-final-factors.patch:
   one row  sum of all final factors <= 0 *)
Definition mlp_result_rows (fin : list nat) : list row := [ mkRow (map (fun c => (c, 1%Q)) fin) RLe 0%Q ].
(* the code as it stands in the unrepaired tree: one row  f <= 0  per final factor *)
Definition mlp_result_rows_orig (fin : list nat) : list row := map (fun c => mkRow [(c, 1%Q)] RLe 0%Q) fin.

(* graph variables = join(S, A); one chain, one column per new factor *)
Definition mlp_system_gen (result : list nat -> list row) (S A : list nat) (h : list bf) (g R : list bm) (gam : Q)
           (order : list nat) : list row * nat * nat :=
  let '(g0, rows0, n0) := mlp_setup S h g R gam in
  let '(_, fin, n, rows) := run_ve 1 (S ++ A) (g0, [], n0, rows0) order in
  (rows ++ result fin, n, length fin).
Definition mlp_system := mlp_system_gen mlp_result_rows.
Definition mlp_system_orig := mlp_system_gen mlp_result_rows_orig.
Definition mlp_order (S A : list nat) (h : list bf) (g R : list bm) (gam : Q) : list nat :=
  heur_order (S ++ A) (fst (fst (mlp_setup S h g R gam))).

(* =================================================================================================
   FactoredLP with a constant basis and NO explicit basis, AS REPAIRED by
   fixes/C15-flp-constant-without-basis.patch: the constant basis is named by rules over state
   factor 0 ("-r + w_const = 0" / "-(r+1) - w_const = 0" for each of its values) — exactly the rows
   of the one-basis system  C' = [1 on factor 0]  without constant, whose weight 0 is w_const.
   [flp_system] itself is the code for every other input (and the unrepaired code for this one:
   1.0 / 0 is never used, no row mentions w_const).
   ================================================================================================= *)
Definition flp_effective (S : list nat) (C : list bf) (addConst : bool) : list bf * bool :=
  match C, addConst with
  | [], true => ([mkBf [0] (repeat 1%Q (nth 0 S 0))], false)
  | _, _ => (C, addConst)
  end.
Definition flp_system_r (S : list nat) (C b : list bf) (addConst : bool) (order : list nat) : list row * nat :=
  flp_system S (fst (flp_effective S C addConst)) b (snd (flp_effective S C addConst)) order.
Definition flp_rows_r S C b addConst order : list row := fst (flp_system_r S C b addConst order).
Definition flp_order_r (S : list nat) (C b : list bf) (addConst : bool) : list nat :=
  flp_order S (fst (flp_effective S C addConst)) b (snd (flp_effective S C addConst)).
