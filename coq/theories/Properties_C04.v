(* Properties_C04.v — property C04: POMDP value functions are executable conditional plans.
   Statements only; proofs in C04/Proofs*.v (built on the C02 solver model). *)
From Coq Require Import List Arith QArith Qminmax Lqa Lia Bool.
From AIT Require Import Base.Qx Base.Mdp Base.MdpExec C02.Model C02.Spec C02.ProofsVec C02.ProofsCross
  C02.ProofsSched C02.ProofsProj C02.ProofsIP C02.ProofsPrunePw C04.Model C04.Spec C04.ProofsPlan C04.ProofsExec C04.ProofsRun C04.ProofsBound C04.ProofsPoint C04.ProofsPointExact C04.ProofsStep C02.ProofsSchedAll.
Import ListNotations.
Local Open Scope Q_scope.

(* One Incremental-Pruning step, for ANY pruning that returns a non-empty sub-list (pruning only
   removes/permutes whole entries): every entry is a genuine plan over the previous horizon —
   action in range, exactly one link per observation, every link in range, and its vector equals
   reward + discounted back-up of the linked vectors.  Holds through projection, every cross-sum of
   the merge schedule (both link-concatenation orders) and all pruning calls. *)
Theorem entry_is_plan_ip_step : forall (prune : vlist -> vlist),
  (forall l e, In e (prune l) -> In e l) -> (forall l, l <> [] -> prune l <> []) ->
  forall m, (0 < nO m)%nat -> obs_clean m ->
  forall w, w <> [] -> wfl (nS (pm m)) w -> Forall (entry_is_plan m w) (ip_step prune m w).
Proof. intros prune H1 H2 m HO Hc. exact (ip_step_entries_are_plans prune H1 H2 m HO Hc (ops_ok_all (nO m) HO)). Qed.
Print Assumptions entry_is_plan_ip_step.

(* The whole run: every horizon's list consists of plans over the previous horizon's list
   (links_in_range is the [links_ok] component of [entry_is_plan]). *)
Theorem ip_run_is_plan_chain : forall (prune : vlist -> vlist),
  (forall l e, In e (prune l) -> In e l) -> (forall l, l <> [] -> prune l <> []) ->
  forall m, (0 < nO m)%nat -> (0 < nA (pm m))%nat -> obs_clean m ->
  forall h, let '(older, cur) := ip_chain prune m h in
            chain_ok m older cur /\ cur <> [] /\ wfl (nS (pm m)) cur.
Proof. intros prune H1 H2 m HO HA Hc. exact (ip_chain_ok prune H1 H2 m HO HA Hc (ops_ok_all (nO m) HO)). Qed.
Print Assumptions ip_run_is_plan_chain.

Theorem ip_run_is_chain : forall prune m h,
  ip_run prune m h = rev (fst (ip_chain prune m h)) ++ [snd (ip_chain prune m h)].
Proof. exact ip_run_chain. Qed.
Print Assumptions ip_run_is_chain.

(* Executing the plan rooted at ANY entry, following the stored links for every observation
   history, earns exactly the value the entry's vector promises at the starting belief
   ([exec_return] = return of the h steps + what the horizon-0 entry reached promises). *)
Theorem exec_is_promise : forall m older cur i tau, chain_ok m older cur -> (i < length cur)%nat ->
  length tau = nS (pm m) ->
  exec_return m older cur i tau == dot (vals (nth i cur dummy_entry)) tau.
Proof. exact exec_is_promise_lemma. Qed.
Print Assumptions exec_is_promise.

(* For value functions whose horizon-0 entries promise nothing (every solver that starts from
   makeValueFunction's zero vector: IP, Witness, LinearSupport, PBVI), the return of the h steps
   alone is the promise. *)
Theorem exec_steps_is_promise : forall m older cur i tau, chain_ok m older cur ->
  (forall e tau', In e (last (cur :: older) []) -> dot (vals e) tau' == 0) ->
  (i < length cur)%nat -> length tau = nS (pm m) ->
  exec_steps m older cur i tau == dot (vals (nth i cur dummy_entry)) tau.
Proof.
  intros m older cur i tau Hc Hz Hi Hl.
  rewrite (exec_steps_eq_return m older cur i tau Hc Hz Hi). apply exec_is_promise_lemma; assumption.
Qed.
Print Assumptions exec_steps_is_promise.

(* The entry POMDP::Policy picks (findBestAtPoint, with its lexicographic tie-break) is in range
   and attains the maximum of the value function at the belief. *)
Theorem best_index_attains : forall l b, l <> [] ->
  (best_index l b < length l)%nat /\ dot (vals (nth (best_index l b) l dummy_entry)) b == vbest l b.
Proof. exact best_index_attains_lemma. Qed.
Print Assumptions best_index_attains.

(* Consequently: executing POMDP::Policy from belief tau for h steps over an Incremental-Pruning
   value function earns exactly what the value function promises there, which is the optimal
   h-step value (C02's ip_value). *)
Theorem exec_matches_promise : forall (prune : vlist -> vlist),
  (forall l e, In e (prune l) -> In e l) -> (forall l, l <> [] -> prune l <> []) ->
  (forall S l b, l <> [] -> wfl S l -> nonneg b -> length b = S -> vbest (prune l) b == vbest l b) ->
  forall m h tau, wf_pomdp1 m -> obs_clean m -> nonneg tau -> length tau = nS (pm m) ->
  let '(older, cur) := ip_chain prune m h in
  exec_return m older cur (best_index cur tau) tau == vbest cur tau /\ vbest cur tau == EV m h tau.
Proof.
  intros prune H1 H2 H3 m h tau Hwf Hc Hn Hl.
  pose proof (ops_ok_all (nO m) (HO m Hwf)) as Hs.
  pose proof (ip_chain_ok prune H1 H2 m (HO m Hwf) (HA m Hwf) Hc Hs h) as Hch.
  pose proof (ip_run_value prune H1 H2 H3 m Hwf Hc Hs h) as Hv. cbv zeta in Hv.
  rewrite ip_run_chain, last_last in Hv.
  destruct (ip_chain prune m h) as [older cur]. cbn [snd] in Hv. destruct Hch as [Hok [N W]].
  destruct (best_index_attains_lemma cur tau N) as [Hi Hb]. split.
  - rewrite (exec_is_promise_lemma m older cur _ tau Hok Hi Hl). exact Hb.
  - apply Hv; assumption.
Qed.
Print Assumptions exec_matches_promise.

(* POMDP::Policy::sampleAction(id, o, h) performs only in-range accesses on a value function whose
   entries are plans (its two operator[] are unchecked in the C++). *)
Theorem policy_no_UB : forall m (vf : list vlist) h id o prev cur,
  nth_error vf h = Some prev -> nth_error vf (S h) = Some cur ->
  Forall (entry_is_plan m prev) cur -> (id < length cur)%nat -> (o < nO m)%nat ->
  exists a newId, policy_step vf h id o = Some (a, newId) /\ (newId < length prev)%nat.
Proof. exact policy_step_in_range_lemma. Qed.
Print Assumptions policy_no_UB.

(* POMDP::Policy is a (deterministic) distribution over actions at every horizon: getActionProbability is
   0 or 1, is 1 at the action sampleAction returns, and sums to one over any action space containing it. *)
Theorem policy_prob_is_distribution : forall vf h b A a' id,
  policy_first vf h b = Some (a', id) -> (a' < A)%nat ->
  (forall a, policy_prob vf h b a == 1 \/ policy_prob vf h b a == 0) /\
  policy_prob vf h b a' == 1 /\
  qsum (map (policy_prob vf h b) (seq 0 A)) == 1.
Proof. exact policy_prob_is_distribution_lemma. Qed.
Print Assumptions policy_prob_is_distribution.

(* The boolean checker the oracle runs on the IMPLEMENTATION's value functions is sound for the
   exact case (tolerance 0): accepted entries are plans. *)
Theorem check_entry_sound : forall m prev e, check_entry 0 m prev e = true -> entry_is_plan m prev e.
Proof. exact check_entry_sound_lemma. Qed.
Print Assumptions check_entry_sound.

(* The point-based backup crossSumBestAtBelief — the one construction PBVI, PERSEUS, Witness and
   LinearSupport all use to create entries — yields a plan over the previous list, for every belief
   and action; and its value at the belief is the one-step look-ahead of the previous surface. *)
Theorem point_backup_is_plan : forall m, (0 < nO m)%nat -> obs_clean m ->
  forall b w a, w <> [] -> (a < nA (pm m))%nat ->
  entry_is_plan m w (fst (csbb_row b (proj_row m w a) a (nS (pm m)))).
Proof. exact point_backup_is_plan_lemma. Qed.
Print Assumptions point_backup_is_plan.

Theorem point_backup_value : forall m, (0 < nO m)%nat -> 0 <= gam (pm m) -> obs_clean m ->
  forall b w a, w <> [] -> wfl (nS (pm m)) w -> length b = nS (pm m) -> (a < nA (pm m))%nat ->
  let '(e, v) := csbb_row b (proj_row m w a) a (nS (pm m)) in
  v == dot (vals e) b /\
  v == rew_at m b a + gam (pm m) * qsum (map (fun o => vbest w (tau_step m b a o)) (seq 0 (nO m))).
Proof. exact point_backup_value_lemma. Qed.
Print Assumptions point_backup_value.

(* Hence every solver step assembled from point-based backups and sub-list selections (PBVI,
   PERSEUS, Witness, LinearSupport — whatever beliefs, witness points or vertices they choose, and
   whatever extractDominated / extractBestAtPoint / Pruner keep) yields plans over the previous list. *)
Theorem point_step_entries_are_plans : forall m, (0 < nO m)%nat -> obs_clean m ->
  forall (select : vlist -> vlist), (forall l e, In e (select l) -> In e l) ->
  forall w reqs, w <> [] -> Forall (fun ba : vec * nat => (snd ba < nA (pm m))%nat) reqs ->
  Forall (entry_is_plan m w) (select (point_candidates m w reqs)).
Proof. exact point_step_entries_are_plans_lemma. Qed.
Print Assumptions point_step_entries_are_plans.

Theorem best_action_backup_is_plan : forall m, (0 < nO m)%nat -> obs_clean m ->
  forall w b, w <> [] -> (0 < nA (pm m))%nat -> entry_is_plan m w (fst (csbb_all m w b)).
Proof. exact best_action_backup_is_plan_lemma. Qed.
Print Assumptions best_action_backup_is_plan.

(* The best-action backup crossSumBestAtBelief(b, all actions) — the single operation LinearSupport
   runs at each vertex, PERSEUS/PBVI at each belief: its reported value is the dot product of its
   vector with b and equals the FULL one-step look-ahead (maximum over all actions) of the previous
   surface at b ... *)
Theorem best_action_backup_value : forall m, (0 < nO m)%nat -> 0 <= gam (pm m) -> obs_clean m ->
  forall w b, w <> [] -> wfl (nS (pm m)) w -> length b = nS (pm m) -> (0 < nA (pm m))%nat ->
  snd (csbb_all m w b) == dot (vals (fst (csbb_all m w b))) b /\
  snd (csbb_all m w b) == maxl (map (lookahead m w b) (seq 0 (nA (pm m)))).
Proof. exact best_action_backup_value_lemma. Qed.
Print Assumptions best_action_backup_value.

(* ... hence, when the previous surface is exact (equals expectimax of horizon n at every
   unnormalised belief), the new entry ATTAINS expectimax of horizon n+1 at the backed-up belief.
   With plan_surface_le_EV (plans never exceed expectimax) this is the partial correctness of every
   solver that assembles its surface from best-action backups at chosen beliefs or vertices
   (LinearSupport, and PBVI/PERSEUS when their previous surface is exact): below EV everywhere,
   equal to EV at every belief that was backed up. *)
Theorem best_action_backup_exact : forall m, wf_pomdp1 m -> obs_clean m ->
  forall n w b, w <> [] -> wfl (nS (pm m)) w -> length b = nS (pm m) -> nonneg b ->
  (forall tau, nonneg tau -> length tau = nS (pm m) -> vbest w tau == EV m n tau) ->
  snd (csbb_all m w b) == EV m (S n) b /\ dot (vals (fst (csbb_all m w b))) b == EV m (S n) b.
Proof. exact best_action_backup_exact_lemma. Qed.
Print Assumptions best_action_backup_exact.

(* One solver step, without the chain down to horizon 0.  (1) Plans over a surface that is nowhere
   above EV n are nowhere above EV (n+1), whatever produced or selected them. *)
Theorem plan_step_le_EV : forall m, wf_pomdp1 m ->
  forall n w, wfl (nS (pm m)) w ->
  (forall tau, nonneg tau -> length tau = nS (pm m) -> vbest w tau <= EV m n tau) ->
  forall e tau, entry_is_plan m w e -> nonneg tau -> length tau = nS (pm m) ->
  dot (vals e) tau <= EV m (S n) tau.
Proof. exact plan_step_le_EV_lemma. Qed.
Print Assumptions plan_step_le_EV.

(* (2) LinearSupport / PBVI / PERSEUS step over an EXACT previous surface: any list L of plans over w
   that contains the best-action backup of every belief of B (the vertices / the belief set; L may
   contain anything else that is a plan, and may have been pruned by anything that keeps those
   entries) is below EV (n+1) everywhere and EQUAL to it at every belief of B. *)
Theorem backup_step_sandwich : forall m, wf_pomdp1 m -> obs_clean m ->
  forall n w, w <> [] -> wfl (nS (pm m)) w ->
  (forall tau, nonneg tau -> length tau = nS (pm m) -> vbest w tau == EV m n tau) ->
  forall (B : list vec) (L : vlist), L <> [] ->
  (forall e, In e L -> entry_is_plan m w e) ->
  (forall b, In b B -> nonneg b /\ length b = nS (pm m) /\ In (fst (csbb_all m w b)) L) ->
  (forall tau, nonneg tau -> length tau = nS (pm m) -> vbest L tau <= EV m (S n) tau) /\
  (forall b, In b B -> vbest L b == EV m (S n) b).
Proof. exact backup_step_sandwich_lemma. Qed.
Print Assumptions backup_step_sandwich.

(* A value function made of plans is a sound LOWER bound on the optimal value (for every solver's
   output, whatever produced it): no conditional plan can promise more than expectimax, provided the
   horizon-0 entries promise nothing. *)
Theorem plan_le_EV : forall m, wf_pomdp1 m -> forall older cur i tau, chain_ok m older cur ->
  (forall e tau', In e (last (cur :: older) []) -> dot (vals e) tau' == 0) ->
  (i < length cur)%nat -> nonneg tau -> length tau = nS (pm m) ->
  dot (vals (nth i cur dummy_entry)) tau <= EV m (length older) tau.
Proof. exact plan_le_EV_lemma. Qed.
Print Assumptions plan_le_EV.

Theorem plan_surface_le_EV : forall m, wf_pomdp1 m -> forall older cur tau, chain_ok m older cur -> cur <> [] ->
  (forall e tau', In e (last (cur :: older) []) -> dot (vals e) tau' == 0) ->
  nonneg tau -> length tau = nS (pm m) -> vbest cur tau <= EV m (length older) tau.
Proof. exact plan_surface_le_EV_lemma. Qed.
Print Assumptions plan_surface_le_EV.

(* What the oracle's walk over a value function (oldest horizon first, tolerance 0) establishes:
   the newest-first chain of plans the theorems above are stated for. *)
Theorem check_vf_chain : forall m rest older cur, chain_ok m older cur -> wfl (nS (pm m)) cur ->
  check_vf 0 m cur rest = true ->
  let '(o', c') := to_chain older cur rest in chain_ok m o' c' /\ wfl (nS (pm m)) c'.
Proof. exact check_vf_chain_lemma. Qed.
Print Assumptions check_vf_chain.

(* Non-vacuity: on the concrete POMDP of Properties_C02 the pointwise-pruning run of horizon 2
   meets the hypotheses and its chain is non-trivial (3 entries at horizon 2). *)
Definition ex_pomdp4 : pomdp :=
  {| pm := {| nS := 2; nA := 2;
              P := [ [[1#2; 1#2]; [0; 1]]; [[1; 0]; [1#4; 3#4]] ];
              R := [ [1; -1]; [0; 2] ]; gam := 3#4 |};
     nO := 2; Ob := [ [[1; 0]; [1#2; 1#2]]; [[3#4; 1#4]; [0; 1]] ] |}.
Example ex_chain_nonvacuous :
  (forall l e, In e (prune_pw l) -> In e l) /\ (forall l, l <> [] -> prune_pw l <> []) /\
  (1 < length (snd (ip_chain prune_pw ex_pomdp4 2)))%nat /\ ops_ok (nO ex_pomdp4) = true.
Proof. split; [exact prune_pw_sub| split; [exact prune_pw_ne|]]. split; [vm_compute; lia| vm_compute; reflexivity]. Qed.

(* Non-vacuity of best_action_backup_exact: on ex_pomdp4 the horizon-0 surface (one zero vector) is
   exact for n = 0, every hypothesis holds, and the attained value EV 1 is not trivial. *)
Example ex_best_action_backup_exact :
  let w0 := [ {| vals := vzero 2; act := 0%nat; obs := [] |} ] in
  wf_pomdp1 ex_pomdp4 /\ w0 <> [] /\ wfl 2 w0 /\ nonneg [1#2; 1#2] /\
  (forall tau, nonneg tau -> length tau = 2%nat -> vbest w0 tau == EV ex_pomdp4 0 tau) /\
  snd (csbb_all ex_pomdp4 w0 [1#2; 1#2]) == 1 # 2 /\ EV ex_pomdp4 1 [1#2; 1#2] == 1 # 2.
Proof.
  cbv zeta. split; [| split; [discriminate| split; [| split; [| split; [| split]]]]].
  - unfold wf_pomdp1, wf_mdp1, simplex, is_dist. cbn [pm nS nA gam P R nO Ob ex_pomdp4 length].
    repeat split; try lia; try lra; try reflexivity.
    + intros [|[|a]] Ha; try lia; reflexivity.
    + destruct a as [|[|a]]; destruct s as [|[|s]]; try lia; reflexivity.
    + destruct a as [|[|a]]; destruct s as [|[|s]]; try lia; unfold nonneg, row; cbn [nth]; repeat constructor; lra.
    + destruct a as [|[|a]]; destruct s as [|[|s]]; try lia; unfold row; cbn [nth qsum]; lra.
    + intros [|[|s]] Hs; try lia; reflexivity.
    + intros [|[|a]] Ha; try lia; reflexivity.
    + destruct a as [|[|a]]; destruct s as [|[|s]]; try lia; reflexivity.
    + destruct a as [|[|a]]; destruct s as [|[|s]]; try lia; unfold nonneg, row; cbn [nth]; repeat constructor; lra.
    + destruct a as [|[|a]]; destruct s as [|[|s]]; try lia; unfold row; cbn [nth qsum]; lra.
  - repeat constructor.
  - repeat constructor; lra.
  - intros tau _ Hl. destruct tau as [|x [|y [|z t]]]; try discriminate.
    cbn [EV]. unfold vbest, best, valsof, vzero. cbn [map repeat maxl qmax_from dot]. vm_compute. destruct x, y; cbn; ring_simplify; reflexivity.
  - vm_compute; reflexivity.
  - vm_compute; reflexivity.
Qed.

(* Non-vacuity of backup_step_sandwich: with w0 as above, B = the two corners and the centre,
   L = their best-action backups: every hypothesis on B and L holds (the other hypotheses are those of
   ex_best_action_backup_exact) and L has two different entries. *)
Example ex_backup_step_sandwich :
  let w0 := [ {| vals := vzero 2; act := 0%nat; obs := [] |} ] in
  let B := [ [1; 0]; [0; 1]; [1#2; 1#2] ] in
  let L := map (fun b => fst (csbb_all ex_pomdp4 w0 b)) B in
  obs_clean ex_pomdp4 /\ L <> [] /\ (forall e, In e L -> entry_is_plan ex_pomdp4 w0 e) /\
  (forall b, In b B -> nonneg b /\ length b = 2%nat /\ In (fst (csbb_all ex_pomdp4 w0 b)) L) /\
  vbest L [1; 0] == 1 /\ vbest L [0; 1] == 2.
Proof.
  cbv zeta.
  assert (Hc : obs_clean ex_pomdp4).
  { intros [|[|a]] [|[|o]] Ha Ho Hp s1 Hs1; try (cbn in Ha, Ho; lia); vm_compute in Hp; try discriminate. }
  split; [exact Hc|]. split; [discriminate|]. split; [| split; [| split]].
  - intros e He. apply in_map_iff in He. destruct He as [b [<- _]].
    apply best_action_backup_is_plan; [cbn; lia| exact Hc| discriminate| cbn; lia].
  - intros b Hb. split; [| split].
    + destruct Hb as [<-|[<-|[<-|[]]]]; repeat constructor; lra.
    + destruct Hb as [<-|[<-|[<-|[]]]]; reflexivity.
    + apply in_map_iff. exists b. split; [reflexivity| exact Hb].
  - vm_compute; reflexivity.
  - vm_compute; reflexivity.
Qed.
