(* C02/ProofsEV.v — structural facts about the expectimax value EV: homogeneity, probability-mass
   conservation of the belief update, the reward-bound estimate, value of the zero belief. *)
From Coq Require Import List Arith ZArith QArith Qminmax Lqa Lia Bool Setoid.
From AIT Require Import Base.Qx Base.Mdp Base.MdpExec C02.Model C02.Spec C02.ProofsVec C02.ProofsCross C02.ProofsSched C02.ProofsProj C02.ProofsIP.
Import ListNotations.
Local Open Scope Q_scope.

Definition vsc (c : Q) (t : vec) : vec := map (fun x => c * x) t.

Lemma nthq_vsc : forall c t i, nthq (vsc c t) i == c * nthq t i.
Proof.
  intros c t; induction t as [|x t IH]; intros i; unfold nthq, vsc in *; destruct i; cbn [map nth]; try lra.
  apply IH.
Qed.

Lemma vsc_length : forall c t, length (vsc c t) = length t.
Proof. intros; unfold vsc; apply map_length. Qed.

Lemma tau_step_scale : forall m c t a o, veq (tau_step m (vsc c t) a o) (vsc c (tau_step m t a o)).
Proof.
  intros m c t a o. apply (veq_pointwise _ _ (nS (pm m))).
  - unfold tau_step. rewrite map_length, seq_length. reflexivity.
  - rewrite vsc_length. unfold tau_step. rewrite map_length, seq_length. reflexivity.
  - intros s1 Hs1. rewrite nthq_vsc. unfold tau_step. rewrite !nthq_map_seq by exact Hs1.
    transitivity (nthq (orow m s1 a) o * (c * qsum (map (fun s => nthq t s * nthq (trow (pm m) s a) s1) (seq 0 (nS (pm m)))))); [| ring].
    apply Qmult_comp; [reflexivity|]. rewrite <- qsum_map_mul_l. apply qsum_map_ext. intros s _. rewrite nthq_vsc. ring.
Qed.

Lemma rew_at_scale : forall m c t a, rew_at m (vsc c t) a == c * rew_at m t a.
Proof.
  intros. unfold rew_at. rewrite <- qsum_map_mul_l. apply qsum_map_ext. intros s _. rewrite nthq_vsc. ring.
Qed.

Lemma maxl_scale : forall (A : Type) (f : A -> Q) (l : list A) c, 0 <= c ->
  maxl (map (fun x => c * f x) l) == c * maxl (map f l).
Proof.
  intros A f l c Hc. destruct l as [|x l]; [cbn; lra|].
  rewrite <- (Qplus_0_l (c * maxl (map f (x :: l)))). rewrite <- maxl_affine by (discriminate || exact Hc).
  apply maxl_map_ext'. intros y _. lra.
Qed.

Theorem EV_scale : forall m n c t, 0 <= c -> EV m n (vsc c t) == c * EV m n t.
Proof.
  intros m n; induction n as [|n IH]; intros c t Hc; cbn [EV]; [lra|].
  rewrite <- maxl_scale by exact Hc. apply maxl_map_ext'. intros a _.
  rewrite rew_at_scale.
  transitivity (c * rew_at m t a + gam (pm m) * (c * qsum (map (fun o => EV m n (tau_step m t a o)) (seq 0 (nO m))))); [| ring].
  apply Qplus_comp; [reflexivity|]. apply Qmult_comp; [reflexivity|].
  rewrite <- qsum_map_mul_l. apply qsum_map_ext. intros o _.
  rewrite (EV_ext m n _ _ (tau_step_scale m c t a o)). apply IH; exact Hc.
Qed.

Theorem EV_zero : forall m n t, (forall i, nthq t i == 0) -> EV m n t == 0.
Proof.
  intros m n; induction n as [|n IH]; intros t Hz; cbn [EV]; [reflexivity|].
  assert (E : forall a, rew_at m t a + gam (pm m) * qsum (map (fun o => EV m n (tau_step m t a o)) (seq 0 (nO m))) == 0).
  { intros a. unfold rew_at. rewrite qsum_map_zero by (intros s _; rewrite Hz; ring).
    rewrite qsum_map_zero; [ring|]. intros o _. apply IH. intros i. unfold tau_step.
    destruct (Nat.lt_ge_cases i (nS (pm m))) as [Hi|Hi].
    - rewrite nthq_map_seq by exact Hi. rewrite qsum_map_zero by (intros s _; rewrite Hz; ring). ring.
    - unfold nthq. rewrite nth_overflow by (rewrite map_length, seq_length; exact Hi). reflexivity. }
  destruct (nA (pm m)) as [|k]; [reflexivity|].
  apply maxl_char; [cbn; discriminate| |].
  - intros y Hy. apply in_map_iff in Hy. destruct Hy as [a [<- _]]. rewrite E. lra.
  - exists (rew_at m t 0%nat + gam (pm m) * qsum (map (fun o => EV m n (tau_step m t 0%nat o)) (seq 0 (nO m)))).
    split; [cbn [seq map]; left; reflexivity| apply E].
Qed.

Section Mass.
  Variable m : pomdp.
  Hypothesis Hwf : wf_pomdp1 m.
  Let S := nS (pm m).

  Lemma trow_sum : forall s a, (s < S)%nat -> (a < nA (pm m))%nat ->
    qsum (map (fun s1 => Tp m s a s1) (seq 0 S)) == 1.
  Proof.
    intros s a Hs Ha. destruct Hwf as [[_ [_ [_ [_ [_ [_ [_ [H _]]]]]]]] _].
    destruct (H a s Ha Hs) as [Hl [_ Hsum]]. unfold Tp, trow. fold S in Hl.
    rewrite <- Hl. rewrite map_nthq_seq. exact Hsum.
  Qed.

  Lemma orow_sum : forall s1 a, (s1 < S)%nat -> (a < nA (pm m))%nat ->
    qsum (map (fun o => Op m s1 a o) (seq 0 (nO m))) == 1.
  Proof.
    intros s1 a Hs Ha. destruct Hwf as [_ [_ [_ [_ H]]]].
    destruct (H a s1 Ha Hs) as [Hl [_ Hsum]]. unfold Op, orow.
    rewrite <- Hl. rewrite map_nthq_seq. exact Hsum.
  Qed.

  Definition mass (t : vec) : Q := qsum (map (nthq t) (seq 0 S)).

  Lemma mass_qsum : forall t, length t = S -> mass t == qsum t.
  Proof. intros t Hl. unfold mass. rewrite <- Hl, map_nthq_seq. reflexivity. Qed.

  Lemma mass_tau_step : forall t a o,
    mass (tau_step m t a o) == qsum (map (fun s1 => Op m s1 a o * qsum (map (fun s => nthq t s * Tp m s a s1) (seq 0 S))) (seq 0 S)).
  Proof.
    intros. unfold mass. apply qsum_map_ext. intros s1 Hs1. apply in_seq in Hs1.
    rewrite (nthq_tau_step m) by (fold S; lia). reflexivity.
  Qed.

  (* total probability: the unnormalised updates over all observations carry the prior's mass *)
  Theorem mass_conservation : forall t a, (a < nA (pm m))%nat ->
    qsum (map (fun o => mass (tau_step m t a o)) (seq 0 (nO m))) == mass t.
  Proof.
    intros t a Ha.
    rewrite (qsum_map_ext _ _ _ (seq 0 (nO m)) (fun o _ => mass_tau_step t a o)).
    rewrite qsum_swap.
    transitivity (qsum (map (fun s1 => qsum (map (fun s => nthq t s * Tp m s a s1) (seq 0 S))) (seq 0 S))).
    { apply qsum_map_ext. intros s1 Hs1. apply in_seq in Hs1.
      rewrite qsum_map_mul_r. rewrite orow_sum by (exact Ha || lia). ring. }
    rewrite qsum_swap. unfold mass. apply qsum_map_ext. intros s Hs. apply in_seq in Hs.
    rewrite qsum_map_mul_l. rewrite trow_sum by (exact Ha || lia). ring.
  Qed.

  Variable maxR : Q.
  Hypothesis HR : forall s a, (s < S)%nat -> (a < nA (pm m))%nat -> Rw m s a <= maxR.
  Let Rp := Qmax maxR 0.

  Lemma Rp_nonneg : 0 <= Rp. Proof. unfold Rp. apply Q.le_max_r. Qed.
  Lemma Rp_ge : maxR <= Rp. Proof. unfold Rp. apply Q.le_max_l. Qed.

  Lemma rew_at_le : forall t a, nonneg t -> (a < nA (pm m))%nat -> rew_at m t a <= Rp * mass t.
  Proof.
    intros t a Ht Ha. unfold rew_at, mass. fold S. rewrite <- qsum_map_mul_l. apply qsum_map_le.
    intros s Hs. apply in_seq in Hs. pose proof (nonneg_nthq t s Ht). pose proof (HR s a ltac:(lia) Ha). pose proof Rp_ge.
    fold (Rw m s a). nra.
  Qed.

  Lemma mass_nonneg : forall t, nonneg t -> 0 <= mass t.
  Proof. intros t Ht. unfold mass. apply qsum_map_nonneg. intros s _. apply nonneg_nthq; exact Ht. Qed.

  (* h steps cannot earn more than h * max(maxR,0) per unit of probability mass *)
  Theorem EV_le_bound : forall n t, nonneg t ->
    EV m n t <= inject_Z (Z.of_nat n) * Rp * mass t.
  Proof.
    induction n as [|n IH]; intros t Ht; cbn [EV].
    - change (inject_Z (Z.of_nat 0)) with 0. lra.
    - pose proof (HA m Hwf) as HAp. pose proof Rp_nonneg as HRp. pose proof (mass_nonneg t Ht) as Hm.
      assert (Hg : 0 <= gam (pm m) /\ gam (pm m) <= 1) by (destruct Hwf as [[_ [_ [G1 [G2 _]]]] _]; split; lra).
      apply maxl_le; [destruct (nA (pm m)); [lia| cbn; discriminate]|].
      intros y Hy. apply in_map_iff in Hy. destruct Hy as [a [<- Ha]]. apply in_seq in Ha.
      assert (Hfut : qsum (map (fun o => EV m n (tau_step m t a o)) (seq 0 (nO m))) <= inject_Z (Z.of_nat n) * Rp * mass t).
      { rewrite <- (mass_conservation t a ltac:(lia)). rewrite <- qsum_map_mul_l. apply qsum_map_le.
        intros o _. apply IH. apply (tau_step_nonneg m Hwf); [exact Ht| lia]. }
      pose proof (rew_at_le t a Ht ltac:(lia)) as Hr.
      rewrite Nat2Z.inj_succ. unfold Z.succ. rewrite inject_Z_plus. change (inject_Z 1) with 1.
      assert (Hn : 0 <= inject_Z (Z.of_nat n)) by (change 0 with (inject_Z 0); rewrite <- Zle_Qle; lia).
      assert (0 <= inject_Z (Z.of_nat n) * Rp * mass t) by (apply Qmult_le_0_compat; [apply Qmult_le_0_compat|]; assumption).
      nra.
  Qed.
End Mass.

(* ---- EV is sub-additive (with homogeneity: convex): the value of a mixture of (unnormalised)
   beliefs is at most the sum of the values — the fact behind every point-based upper bound. *)
Lemma nthq_vadd' : forall v1 v2 s, length v1 = length v2 -> nthq (vadd v1 v2) s == nthq v1 s + nthq v2 s.
Proof.
  induction v1 as [|x v1 IH]; intros [|y v2] s Hl; cbn in Hl; try discriminate.
  - unfold nthq, vadd; destruct s; cbn; lra.
  - unfold vadd; cbn [combine map fst snd]. fold (vadd v1 v2). destruct s; unfold nthq; cbn [nth]; [lra|]. apply IH; lia.
Qed.

Lemma tau_step_add : forall m t1 t2 a o, length t1 = length t2 ->
  veq (tau_step m (vadd t1 t2) a o) (vadd (tau_step m t1 a o) (tau_step m t2 a o)).
Proof.
  intros m t1 t2 a o Hl.
  assert (L : forall t, length (tau_step m t a o) = nS (pm m)) by (intros; unfold tau_step; rewrite map_length, seq_length; reflexivity).
  apply (veq_pointwise _ _ (nS (pm m))); [apply L| unfold vadd; rewrite map_length, combine_length, !L; lia|].
  intros s1 Hs1. rewrite nthq_vadd' by (rewrite !L; reflexivity). unfold tau_step. rewrite !nthq_map_seq by exact Hs1.
  transitivity (nthq (orow m s1 a) o * (qsum (map (fun s => nthq t1 s * nthq (trow (pm m) s a) s1) (seq 0 (nS (pm m)))) +
                                        qsum (map (fun s => nthq t2 s * nthq (trow (pm m) s a) s1) (seq 0 (nS (pm m)))))); [| ring].
  apply Qmult_comp; [reflexivity|]. rewrite <- qsum_map_add. apply qsum_map_ext. intros s _.
  rewrite nthq_vadd' by exact Hl. ring.
Qed.

Lemma rew_at_add : forall m t1 t2 a, length t1 = length t2 ->
  rew_at m (vadd t1 t2) a == rew_at m t1 a + rew_at m t2 a.
Proof.
  intros. unfold rew_at. rewrite <- qsum_map_add. apply qsum_map_ext. intros s _. rewrite nthq_vadd' by assumption. ring.
Qed.

Theorem EV_subadditive : forall m n t1 t2, 0 <= gam (pm m) -> length t1 = nS (pm m) -> length t2 = nS (pm m) ->
  EV m n (vadd t1 t2) <= EV m n t1 + EV m n t2.
Proof.
  intros m n; induction n as [|n IH]; intros t1 t2 Hg L1 L2; cbn [EV]; [lra|].
  assert (L : forall t a o, length (tau_step m t a o) = nS (pm m)) by (intros; unfold tau_step; rewrite map_length, seq_length; reflexivity).
  destruct (nA (pm m)) as [|k] eqn:EA; [cbn; lra|].
  apply maxl_le; [cbn; discriminate|]. intros y Hy. apply in_map_iff in Hy. destruct Hy as [a [<- Ha]].
  rewrite rew_at_add by congruence.
  assert (Hs : qsum (map (fun o => EV m n (tau_step m (vadd t1 t2) a o)) (seq 0 (nO m))) <=
               qsum (map (fun o => EV m n (tau_step m t1 a o)) (seq 0 (nO m))) + qsum (map (fun o => EV m n (tau_step m t2 a o)) (seq 0 (nO m)))).
  { rewrite <- qsum_map_add. apply qsum_map_le. intros o _.
    rewrite (EV_ext m n _ _ (tau_step_add m t1 t2 a o ltac:(congruence))). apply IH; [exact Hg| apply L| apply L]. }
  pose proof (maxl_ub (map (fun a => rew_at m t1 a + gam (pm m) * qsum (map (fun o => EV m n (tau_step m t1 a o)) (seq 0 (nO m)))) (seq 0 (S k))) _
                (in_map (fun a => rew_at m t1 a + gam (pm m) * qsum (map (fun o => EV m n (tau_step m t1 a o)) (seq 0 (nO m)))) _ a Ha)) as U1.
  pose proof (maxl_ub (map (fun a => rew_at m t2 a + gam (pm m) * qsum (map (fun o => EV m n (tau_step m t2 a o)) (seq 0 (nO m)))) (seq 0 (S k))) _
                (in_map (fun a => rew_at m t2 a + gam (pm m) * qsum (map (fun o => EV m n (tau_step m t2 a o)) (seq 0 (nO m)))) _ a Ha)) as U2.
  cbv beta in U1, U2. nra.
Qed.
