(* C02/Spec.v — specification side for C02 (exact solvers = expectimax EV of Base/Mdp.v) and C04
   (value-function entries are executable conditional plans), plus boolean checkers. *)
From Coq Require Import List Arith ZArith QArith Qminmax Bool.
From AIT Require Import Base.Qx Base.Mdp C02.Model.
Import ListNotations.
Local Open Scope Q_scope.

(* ---- well-formedness with discount in (0,1]: finite-horizon values need no strict discounting, so the
   C02/C04 theorems are stated for this weaker predicate (Base.Mdp.wf_pomdp, with discount < 1, implies it) *)
Definition wf_mdp1 (m : mdp) : Prop :=
  (0 < nS m)%nat /\ (0 < nA m)%nat /\ 0 < gam m /\ gam m <= 1 /\
  length (P m) = nA m /\ length (R m) = nS m /\
  (forall a, (a < nA m)%nat -> length (nth a (P m) []) = nS m) /\
  (forall a s, (a < nA m)%nat -> (s < nS m)%nat -> simplex (nS m) (row (nth a (P m) []) s)) /\
  (forall s, (s < nS m)%nat -> length (row (R m) s) = nA m).
Definition wf_pomdp1 (m : pomdp) : Prop :=
  wf_mdp1 (pm m) /\ (0 < nO m)%nat /\ length (Ob m) = nA (pm m) /\
  (forall a, (a < nA (pm m))%nat -> length (nth a (Ob m) []) = nS (pm m)) /\
  (forall a s, (a < nA (pm m))%nat -> (s < nS (pm m))%nat -> simplex (nO m) (row (nth a (Ob m) []) s)).
Definition wf_mdp1b (m : mdp) : bool :=
  (0 <? nS m)%nat && (0 <? nA m)%nat && negb (Qle_bool (gam m) 0) && Qle_bool (gam m) 1 &&
  (length (P m) =? nA m)%nat && (length (R m) =? nS m)%nat &&
  forallb (fun pa => (length pa =? nS m)%nat &&
                     forallb (fun r => (length r =? nS m)%nat && is_distb r) pa) (P m) &&
  forallb (fun r => (length r =? nA m)%nat) (R m).

(* ---- symbolic execution of a merge schedule on observation intervals [lo,hi) *)
Definition sym := option (nat * nat).
Definition sym_op (sl : list sym) (op : mop) : option (list sym) :=
  let '(i, j, order) := op in
  match nth i sl None, nth j sl None with
  | Some (li, hi), Some (lj, hj) =>
    if (negb (i =? j) && (i <? length sl) && (j <? length sl))%nat%bool then
      if order
      then (if (hi =? lj)%nat then Some (set_nth j None (set_nth i (Some (li, hj)) sl)) else None)
      else (if (hj =? li)%nat then Some (set_nth j None (set_nth i (Some (lj, hi)) sl)) else None)
    else None
  | _, _ => None
  end.
Fixpoint sym_run (ops : list mop) (sl : list sym) : option (list sym) :=
  match ops with
  | [] => Some sl
  | op :: t => match sym_op sl op with Some sl' => sym_run t sl' | None => None end
  end.
Definition sym_init (n : nat) : list sym := map (fun k => Some (k, S k)) (seq 0 n).
(* the schedule for n observation lists merges adjacent intervals only, in the right order,
   and leaves the full interval [0,n) in slot [front] *)
Definition ops_ok (n : nat) : bool :=
  match schedule n with
  | Some (ops, front) =>
    match sym_run ops (sym_init n) with
    | Some sl => match nth front sl None with Some (lo, hi) => (lo =? 0)%nat && (hi =? n)%nat | None => false end
    | None => false
    end
  | None => false
  end.

(* ---- observation model is "clean": an observation the Projecter treats as impossible has
   probability exactly zero (the property's separation hypothesis for tolerances) *)
Definition obs_clean (m : pomdp) : Prop :=
  forall a o, (a < nA (pm m))%nat -> (o < nO m)%nat -> possible m a o = false ->
    forall s1, (s1 < nS (pm m))%nat -> Op m s1 a o == 0.
Definition obs_cleanb (m : pomdp) : bool :=
  forallb (fun a => forallb (fun o => possible m a o ||
             forallb (fun s1 => Qeq_bool (Op m s1 a o) 0) (seq 0 (nS (pm m))))
           (seq 0 (nO m))) (seq 0 (nA (pm m))).

(* ---- C04: an entry is a plan over the previous horizon's list *)
Definition backup_o (m : pomdp) (a o : nat) (v : vec) : vec :=
  map (fun s => qsum (map (fun s1 => Tp m s a s1 * Op m s1 a o * nthq v s1) (seq 0 (nS (pm m)))))
      (seq 0 (nS (pm m))).
Definition dummy_entry : ventry := {| vals := []; act := O; obs := [] |}.
Definition linked (prev : vlist) (e : ventry) (o : nat) : vec := vals (nth (nth o (obs e) O) prev dummy_entry).
Definition plan_vals (m : pomdp) (prev : vlist) (e : ventry) : vec :=
  map (fun s => Rw m s (act e) +
                gam (pm m) * qsum (map (fun o => nthq (backup_o m (act e) o (linked prev e o)) s) (seq 0 (nO m))))
      (seq 0 (nS (pm m))).
Definition links_ok (m : pomdp) (prev : vlist) (e : ventry) : Prop :=
  length (obs e) = nO m /\ Forall (fun l => (l < length prev)%nat) (obs e).
Definition entry_is_plan (m : pomdp) (prev : vlist) (e : ventry) : Prop :=
  (act e < nA (pm m))%nat /\ links_ok m prev e /\ veq (vals e) (plan_vals m prev e).
(* a whole value function: every entry of every horizon t >= 1 is a plan over horizon t-1 *)
Fixpoint vf_is_plan (m : pomdp) (prev : vlist) (rest : list vlist) : Prop :=
  match rest with
  | [] => True
  | l :: t => Forall (entry_is_plan m prev) l /\ vf_is_plan m l t
  end.

(* boolean checker with an explicit tolerance (0 for the model, >0 for rounded doubles) *)
Definition closeb (tol : Q) (v w : vec) : bool :=
  (length v =? length w)%nat &&
  forallb (fun p => Qle_bool (fst p - snd p) tol && Qle_bool (snd p - fst p) tol) (combine v w).
Definition check_entry (tol : Q) (m : pomdp) (prev : vlist) (e : ventry) : bool :=
  (act e <? nA (pm m))%nat && (length (obs e) =? nO m)%nat &&
  forallb (fun l => (l <? length prev)%nat) (obs e) &&
  closeb tol (vals e) (plan_vals m prev e).
Fixpoint check_vf (tol : Q) (m : pomdp) (prev : vlist) (rest : list vlist) : bool :=
  match rest with
  | [] => true
  | l :: t => forallb (check_entry tol m prev) l && check_vf tol m l t
  end.

(* value surface of a list at a point *)
Definition vbest (l : vlist) (b : vec) : Q := best (valsof l) b.

(* executing the plan rooted at entry [i] of horizon list [cur] (with older horizons in [older],
   newest first) from unnormalised belief tau: expected discounted return of the steps taken, plus
   [term] applied to the horizon-0 entry finally reached (and the belief reached) *)
Fixpoint exec_gen (term : ventry -> vec -> Q) (m : pomdp) (older : list vlist) (cur : vlist) (i : nat) (tau : vec) : Q :=
  match older with
  | [] => term (nth i cur dummy_entry) tau
  | prev :: older' =>
    let e := nth i cur dummy_entry in
    rew_at m tau (act e) +
    gam (pm m) * qsum (map (fun o => exec_gen term m older' prev (nth o (obs e) O) (tau_step m tau (act e) o))
                           (seq 0 (nO m)))
  end.
(* return including what the initial (horizon-0) entry promises at the end *)
Definition exec_return := exec_gen (fun e tau => dot (vals e) tau).
(* return of the h steps alone *)
Definition exec_steps := exec_gen (fun _ _ => 0).
