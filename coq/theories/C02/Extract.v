From Coq Require Extraction.
From Coq Require Import ExtrOcamlBasic.
From AIT Require Import Base.Vio Base.Qx Base.Mdp Base.MdpExec C02.Model C02.Spec C04.Model C02.ModelWitness.
Extraction "model.ml" vio_kit wf_mdpb wf_mdp1b EV_r tau_step_r vbest ip_run prune_pw rtbss_sim ops_ok obs_cleanb check_vf
  exec_return rew_at tau_step possible schedule
  wit_lists wit_action cert_oracle none_cert_ok proj_row.
