(* C02/ProofsSched.v — the merge schedule: if its symbolic run on observation intervals is ok
   (adjacent intervals merged in order, full interval at the end), then on real data the merged
   list has envelope = sum of the envelopes and every entry is a choice of one entry per
   observation, values added and links concatenated in observation order. *)
From Coq Require Import List Arith QArith Qminmax Lqa Lia Bool Setoid.
From AIT Require Import Base.Qx Base.Mdp Base.MdpExec C02.Model C02.Spec C02.ProofsVec C02.ProofsCross.
Import ListNotations.
Local Open Scope Q_scope.

Lemma Forall2_nth_gen : forall (A B : Type) (P : A -> B -> Prop) l1 l2 i d1 d2,
  Forall2 P l1 l2 -> (i < length l1)%nat -> P (nth i l1 d1) (nth i l2 d2).
Proof.
  intros A B P l1 l2 i d1 d2 H; revert i; induction H as [|x y l1 l2 Hxy H IH]; intros i Hi; cbn in Hi; [lia|].
  destruct i; cbn [nth]; [exact Hxy| apply IH; lia].
Qed.

Lemma Forall2_set_nth : forall (A B : Type) (P : A -> B -> Prop) l1 l2 i x y,
  Forall2 P l1 l2 -> P x y -> Forall2 P (set_nth i x l1) (set_nth i y l2).
Proof.
  intros A B P l1 l2 i x y H; revert i; induction H as [|a b l1 l2 Hab H IH]; intros i Hxy; destruct i; cbn [set_nth]; constructor; auto.
Qed.

Lemma Forall2_set_nth_l : forall (A B : Type) (P : A -> B -> Prop) l1 l2 i x,
  Forall2 P l1 l2 -> (forall y, P x y) -> Forall2 P (set_nth i x l1) l2.
Proof.
  intros A B P l1 l2 i x H; revert i; induction H as [|a b l1 l2 Hab H IH]; intros i Hx; destruct i; cbn [set_nth]; constructor; auto.
Qed.

Lemma set_nth_length : forall (A : Type) i (x : A) l, length (set_nth i x l) = length l.
Proof. intros A i x l; revert i; induction l as [|y l IH]; intros i; destruct i; cbn [set_nth length]; auto. Qed.

Lemma nthq_vadd : forall v1 v2 s, length v1 = length v2 -> nthq (vadd v1 v2) s == nthq v1 s + nthq v2 s.
Proof.
  induction v1 as [|x v1 IH]; intros [|y v2] s Hl; cbn in Hl; try discriminate.
  - unfold nthq, vadd; destruct s; cbn; lra.
  - unfold vadd; cbn [combine map fst snd]. fold (vadd v1 v2). destruct s; unfold nthq; cbn [nth]; [lra|]. apply IH; lia.
Qed.

Section Sched.
  Variable prune : vlist -> vlist.
  Variable S : nat.
  Variable a : nat.
  Variable b : vec.
  Hypothesis prune_sub : forall l e, In e (prune l) -> In e l.
  Hypothesis prune_ne : forall l, l <> [] -> prune l <> [].
  Hypothesis prune_env : forall l, l <> [] -> wfl S l -> vbest (prune l) b == vbest l b.
  Variable Ls : list vlist.

  Definition slice (lo hi : nat) : list vlist := map (fun o => nth o Ls []) (seq lo (hi - lo)).
  Definition env_sum (lo hi : nat) : Q := qsum (map (fun L => vbest L b) (slice lo hi)).
  Definition covers (lo hi : nat) (e : ventry) : Prop :=
    exists ch, Forall2 (fun c L => In c L) ch (slice lo hi) /\
               (forall s, nthq (vals e) s == qsum (map (fun c => nthq (vals c) s) ch)) /\
               obs e = concat (map obs ch).

  Definition slot_ok (s : sym) (X : vlist) : Prop :=
    match s with
    | None => True
    | Some (lo, hi) => (lo <= hi)%nat /\ X <> [] /\ wfl S X /\ vbest X b == env_sum lo hi /\
                       Forall (fun e => act e = a /\ covers lo hi e) X
    end.

  Lemma slice_split : forall lo mid hi, (lo <= mid)%nat -> (mid <= hi)%nat -> slice lo hi = slice lo mid ++ slice mid hi.
  Proof.
    intros lo mid hi H1 H2. unfold slice. rewrite <- map_app. f_equal.
    replace (hi - lo)%nat with ((mid - lo) + (hi - mid))%nat by lia.
    rewrite seq_app. repeat f_equal; lia.
  Qed.

  Lemma env_sum_split : forall lo mid hi, (lo <= mid)%nat -> (mid <= hi)%nat -> env_sum lo hi == env_sum lo mid + env_sum mid hi.
  Proof. intros. unfold env_sum. rewrite (slice_split lo mid hi) by assumption. rewrite map_app, qsum_app. reflexivity. Qed.

  Lemma covers_join : forall lo mid hi e1 e2 e, (lo <= mid)%nat -> (mid <= hi)%nat ->
    covers lo mid e1 -> covers mid hi e2 -> length (vals e1) = S -> length (vals e2) = S ->
    (forall s, nthq (vals e) s == nthq (vals e1) s + nthq (vals e2) s) -> obs e = obs e1 ++ obs e2 ->
    covers lo hi e.
  Proof.
    intros lo mid hi e1 e2 e H1 H2 [c1 [F1 [V1 O1]]] [c2 [F2 [V2 O2]]] L1 L2 Hv Ho.
    exists (c1 ++ c2). split; [| split].
    - rewrite (slice_split lo mid hi) by assumption. apply Forall2_app; assumption.
    - intros s. rewrite Hv, map_app, qsum_app, V1, V2. reflexivity.
    - rewrite Ho, O1, O2, map_app, concat_app. reflexivity.
  Qed.

  Lemma step_ok : forall sl rs op sl', Forall2 slot_ok sl rs -> sym_op sl op = Some sl' ->
    Forall2 slot_ok sl' (run_op prune a rs op).
  Proof.
    intros sl rs [[i j] ord] sl' HF Hop. unfold sym_op in Hop. unfold run_op.
    destruct (nth i sl None) as [[li hi]|] eqn:Ei; [|discriminate].
    destruct (nth j sl None) as [[lj hj]|] eqn:Ej; [|discriminate].
    destruct (negb (i =? j)%nat && (i <? length sl)%nat && (j <? length sl)%nat) eqn:Eg; [|discriminate].
    apply andb_prop in Eg. destruct Eg as [Eg Ejl]. apply andb_prop in Eg. destruct Eg as [Eij Eil].
    apply Nat.ltb_lt in Eil, Ejl.
    pose proof (Forall2_nth_gen _ _ slot_ok sl rs i None [] HF Eil) as Si. rewrite Ei in Si.
    pose proof (Forall2_nth_gen _ _ slot_ok sl rs j None [] HF Ejl) as Sj. rewrite Ej in Sj.
    cbn [slot_ok] in Si, Sj.
    destruct Si as [Li [Ni [Wi [Vi Ci]]]]. destruct Sj as [Lj [Nj [Wj [Vj Cj]]]].
    set (Xi := nth i rs []) in *. set (Xj := nth j rs []) in *.
    assert (Nc : crossSum Xi Xj a ord <> []) by (apply crossSum_nonempty; assumption).
    assert (Wc : wfl S (crossSum Xi Xj a ord)) by (apply crossSum_wfl; assumption).
    assert (Hcommon : forall lo hi', (lo <= hi')%nat ->
              vbest Xi b + vbest Xj b == env_sum lo hi' ->
              (forall e1 e2, In e1 Xi -> In e2 Xj -> covers lo hi' (cross_entry a ord e1 e2)) ->
              slot_ok (Some (lo, hi')) (prune (crossSum Xi Xj a ord))).
    { intros lo hi' Hle Hv Hc. cbn [slot_ok]. split; [exact Hle|]. split; [apply prune_ne; exact Nc|]. split.
      - unfold wfl in *. apply Forall_forall. intros e He. apply prune_sub in He. rewrite Forall_forall in Wc. apply Wc; exact He.
      - split.
        + rewrite prune_env by assumption. rewrite (cross_envelope_lemma S) by assumption. exact Hv.
        + apply Forall_forall. intros e He. apply prune_sub in He. apply in_crossSum in He.
          destruct He as [e1 [e2 [H1 [H2 ->]]]]. split; [reflexivity|]. apply Hc; assumption. }
    unfold wfl in Wi, Wj. rewrite Forall_forall in Wi, Wj, Ci, Cj.
    destruct ord.
    - destruct (hi =? lj)%nat eqn:Eadj; [|discriminate]. apply Nat.eqb_eq in Eadj. subst lj.
      injection Hop as <-.
      apply Forall2_set_nth_l; [| intros; exact I].
      apply Forall2_set_nth; [exact HF|]. apply Hcommon; [lia| |].
      + rewrite Vi, Vj. symmetry. apply env_sum_split; assumption.
      + intros e1 e2 H1 H2. destruct (Ci _ H1) as [_ C1]. destruct (Cj _ H2) as [_ C2].
        apply (covers_join li hi hj e1 e2); auto.
        intros s. cbn [cross_entry vals]. rewrite (nthq_veq _ _ s (vred_veq _)). apply nthq_vadd. rewrite (Wi _ H1), (Wj _ H2). reflexivity.
    - destruct (hj =? li)%nat eqn:Eadj; [|discriminate]. apply Nat.eqb_eq in Eadj. subst li.
      injection Hop as <-.
      apply Forall2_set_nth_l; [| intros; exact I].
      apply Forall2_set_nth; [exact HF|]. apply Hcommon; [lia| |].
      + rewrite Vi, Vj. rewrite (env_sum_split lj hj hi) by assumption. lra.
      + intros e1 e2 H1 H2. destruct (Ci _ H1) as [_ C1]. destruct (Cj _ H2) as [_ C2].
        apply (covers_join lj hj hi e2 e1); auto.
        intros s. cbn [cross_entry vals]. rewrite (nthq_veq _ _ s (vred_veq _)). rewrite nthq_vadd by (rewrite (Wi _ H1), (Wj _ H2); reflexivity). lra.
  Qed.

  Lemma run_ok : forall ops sl rs sl', Forall2 slot_ok sl rs -> sym_run ops sl = Some sl' ->
    Forall2 slot_ok sl' (fold_left (run_op prune a) ops rs).
  Proof.
    induction ops as [|op ops IH]; intros sl rs sl' HF Hr; cbn [sym_run fold_left] in *.
    - injection Hr as <-. exact HF.
    - destruct (sym_op sl op) as [sl1|] eqn:E; [|discriminate].
      apply (IH sl1); [apply (step_ok sl rs op sl1); assumption| exact Hr].
  Qed.

  Hypothesis Ls_good : Forall (fun L => L <> [] /\ wfl S L /\ Forall (fun e => act e = a) L) Ls.

  Lemma init_ok : Forall2 slot_ok (sym_init (length Ls)) Ls.
  Proof.
    assert (G : forall k, (k < length Ls)%nat -> slot_ok (Some (k, Datatypes.S k)) (nth k Ls [])).
    { intros k Hk. rewrite Forall_forall in Ls_good.
      destruct (Ls_good (nth k Ls []) (nth_In Ls [] Hk)) as [N [W A]].
      cbn [slot_ok]. split; [lia|]. split; [exact N|]. split; [exact W|]. split.
      - unfold env_sum, slice. replace (Datatypes.S k - k)%nat with 1%nat by lia. cbn [seq map qsum]. lra.
      - apply Forall_forall. intros e He. rewrite Forall_forall in A. split; [apply A; exact He|].
        exists [e]. unfold slice. replace (Datatypes.S k - k)%nat with 1%nat by lia. cbn [seq map qsum concat app].
        split; [constructor; [exact He| constructor]|]. split; [intros s; lra| rewrite app_nil_r; reflexivity]. }
    unfold sym_init. clear Ls_good.
    (* generalise over an offset *)
    assert (H : forall l k, (forall i, (i < length l)%nat -> slot_ok (Some (k + i, Datatypes.S (k + i)))%nat (nth i l [])) ->
                Forall2 slot_ok (map (fun k => Some (k, Datatypes.S k)) (seq k (length l))) l).
    { induction l as [|x l IH]; intros k Hl; cbn [length seq map]; [constructor|]. constructor.
      - specialize (Hl 0%nat ltac:(cbn; lia)). rewrite Nat.add_0_r in Hl. exact Hl.
      - apply IH. intros i Hi. specialize (Hl (Datatypes.S i) ltac:(cbn; lia)). cbn [nth] in Hl.
        replace (Datatypes.S k + i)%nat with (k + Datatypes.S i)%nat by lia. exact Hl. }
    apply H. intros i Hi. cbn [Nat.add]. apply G; exact Hi.
  Qed.

  Theorem merge_all_ok : ops_ok (length Ls) = true ->
    slot_ok (Some (0%nat, length Ls)) (merge_all prune a Ls).
  Proof.
    intros Hok. unfold ops_ok in Hok. unfold merge_all.
    destruct (schedule (length Ls)) as [[ops front]|]; [|discriminate].
    destruct (sym_run ops (sym_init (length Ls))) as [sl'|] eqn:Er; [|discriminate].
    pose proof (run_ok ops _ Ls sl' init_ok Er) as HF.
    destruct (nth front sl' None) as [[lo hi]|] eqn:En; [|discriminate].
    apply andb_prop in Hok. destruct Hok as [E1 E2]. apply Nat.eqb_eq in E1, E2. subst lo hi.
    assert (Hlt : (front < length sl')%nat).
    { destruct (Nat.lt_ge_cases front (length sl')) as [H|H]; [exact H|]. rewrite nth_overflow in En by exact H. discriminate. }
    pose proof (Forall2_nth_gen _ _ slot_ok sl' _ front None [] HF Hlt) as Sf. rewrite En in Sf. exact Sf.
  Qed.
End Sched.
