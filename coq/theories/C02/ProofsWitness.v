(* C02/ProofsWitness.v — the Witness algorithm (C02/ModelWitness.v) computes, per action, a list whose
   upper surface is the cross-sum envelope of the projections (the witness theorem of Kaelbling, Littman,
   Cassandra 1998), for ANY oracle whose "no witness" answers are complete up to eps >= 0; hence one
   Witness step is one exact Bellman backup (up to |O|*eps per unit of belief mass). *)
From Coq Require Import List Arith ZArith QArith Qminmax Lqa Lia Bool Setoid.
From AIT Require Import Base.Qx Base.Mdp Base.MdpExec C02.Model C02.Spec C02.ProofsVec C02.ProofsCross
  C02.ProofsSched C02.ProofsSchedAll C02.ProofsProj C02.ProofsIP C02.ProofsEV
  C04.Model C04.ProofsPlan C04.ProofsExec C04.ProofsPoint C02.ModelWitness.
Import ListNotations.
Local Open Scope Q_scope.

(* ---- small list / sum facts *)
Lemma qsum_map_as_seq : forall (A : Type) (f : A -> Q) (l : list A) d,
  qsum (map f l) == qsum (map (fun o => f (nth o l d)) (seq 0 (length l))).
Proof.
  intros A f l d. rewrite <- (map_nth_seq_id A l d) at 1. rewrite map_map. reflexivity.
Qed.

Lemma qsum_map_seq_upd : forall (f g : nat -> Q) n o, (o < n)%nat ->
  (forall k, (k < n)%nat -> k <> o -> g k == f k) ->
  qsum (map g (seq 0 n)) == qsum (map f (seq 0 n)) - f o + g o.
Proof.
  intros f g n o Ho Hext.
  replace n with (o + Datatypes.S (n - o - 1))%nat by lia.
  rewrite !seq_app, !map_app, !qsum_app. change (0 + o)%nat with o. cbn [seq map qsum].
  assert (E1 : qsum (map g (seq 0 o)) == qsum (map f (seq 0 o))).
  { apply qsum_map_ext. intros k Hk. apply in_seq in Hk. apply Hext; lia. }
  assert (E2 : qsum (map g (seq (Datatypes.S o) (n - o - 1))) == qsum (map f (seq (Datatypes.S o) (n - o - 1)))).
  { apply qsum_map_ext. intros k Hk. apply in_seq in Hk. apply Hext; lia. }
  rewrite E1, E2. ring.
Qed.

Lemma dot_vsub_l : forall v1 v2 b, length v1 = length v2 -> dot (vsub v1 v2) b == dot v1 b - dot v2 b.
Proof.
  induction v1 as [|x v1 IH]; intros [|y v2] b Hl; cbn in Hl; try discriminate.
  - cbn; lra.
  - destruct b as [|z b]; unfold vsub; cbn [combine map dot fst snd]; [lra|].
    fold (vsub v1 v2). rewrite IH by lia. lra.
Qed.

Lemma vsub_length : forall a b, length a = length b -> length (vsub a b) = length a.
Proof. intros a b H. unfold vsub. rewrite map_length, combine_length. lia. Qed.

Lemma fold_left_map' : forall (A B C : Type) (f : A -> B -> A) (g : C -> B) l a,
  fold_left f (map g l) a = fold_left (fun acc x => f acc (g x)) l a.
Proof. intros A B C f g l. induction l as [|x l IH]; intros a; cbn [map fold_left]; [reflexivity| apply IH]. Qed.

Lemma in_tried_In : forall c tr, in_tried c tr = true -> In c tr.
Proof.
  intros c tr H. unfold in_tried in H. apply existsb_exists in H. destruct H as [t [Ht E]].
  destruct (list_eq_dec Nat.eq_dec t c); [subst; exact Ht| discriminate].
Qed.

Section Row.
  Variable S : nat.
  Variable row : list vlist.
  Let O := length row.
  Hypothesis Hne : Forall (fun r => r <> []) row.
  Hypothesis Hwf : Forall (wfl S) row.
  (* in an unpruned projection list the link of an entry is its own position *)
  Hypothesis Hidx : forall o i e, nth_error (nth o row []) i = Some e -> obs e = [i].

  Definition ent (o i : nat) : ventry := nth i (nth o row []) dummy_entry.
  Definition valid (c : choice) : Prop :=
    length c = O /\ forall o, (o < O)%nat -> (nth o c 0 < length (nth o row []))%nat.
  Definition cval (c : choice) (b : vec) : Q :=
    qsum (map (fun o => dot (vals (ent o (nth o c 0%nat))) b) (seq 0 O)).
  Definition repr (v : vec) (c : choice) : Prop :=
    length v = S /\ forall b, length b = S -> dot v b == cval c b.
  Definition Qenv (b : vec) : Q := qsum (map (fun r => vbest r b) row).

  Lemma row_in : forall o, (o < O)%nat -> In (nth o row []) row.
  Proof. intros o Ho. apply nth_In. exact Ho. Qed.

  Lemma ent_in : forall o i, (o < O)%nat -> (i < length (nth o row []))%nat -> In (ent o i) (nth o row []).
  Proof. intros o i _ Hi. unfold ent. apply nth_In. exact Hi. Qed.

  Lemma ent_len : forall o i, (o < O)%nat -> (i < length (nth o row []))%nat -> length (vals (ent o i)) = S.
  Proof.
    intros o i Ho Hi. pose proof (row_in o Ho) as Hr. rewrite Forall_forall in Hwf.
    pose proof (Hwf _ Hr) as W. unfold wfl in W. rewrite Forall_forall in W. apply W. apply ent_in; assumption.
  Qed.

  Lemma cval_le_Qenv : forall c b, valid c -> cval c b <= Qenv b.
  Proof.
    intros c b [Hl Hv]. unfold cval, Qenv. rewrite (qsum_map_as_seq _ (fun r => vbest r b) row []). fold O.
    apply qsum_map_le. intros o Ho. apply in_seq in Ho. apply vbest_ub. apply ent_in; [lia| apply Hv; lia].
  Qed.

  Lemma cval_set : forall c b o i, valid c -> (o < O)%nat ->
    cval (set_nth o i c) b == cval c b - dot (vals (ent o (nth o c 0%nat))) b + dot (vals (ent o i)) b.
  Proof.
    intros c b o i [Hl Hv] Ho. unfold cval.
    rewrite (qsum_map_seq_upd (fun o' => dot (vals (ent o' (nth o' c 0%nat))) b)
                              (fun o' => dot (vals (ent o' (nth o' (set_nth o i c) 0%nat))) b) O o Ho).
    - rewrite nth_set_nth_eq by lia. reflexivity.
    - intros k _ Hk. rewrite nth_set_nth_neq by lia. reflexivity.
  Qed.

  Lemma valid_set : forall c o i, valid c -> (o < O)%nat -> (i < length (nth o row []))%nat -> valid (set_nth o i c).
  Proof.
    intros c o i [Hl Hv] Ho Hi. split; [rewrite set_nth_length; exact Hl|].
    intros o' Ho'. destruct (Nat.eq_dec o o') as [<-|Hd].
    - rewrite nth_set_nth_eq by lia. exact Hi.
    - rewrite nth_set_nth_neq by exact Hd. apply Hv; exact Ho'.
  Qed.

  Lemma repr_variation : forall v c o i, repr v c -> valid c -> (o < O)%nat -> (i < length (nth o row []))%nat ->
    repr (vred (vadd (vsub v (vals (ent o (nth o c 0%nat)))) (vals (ent o i)))) (set_nth o i c).
  Proof.
    intros v c o i [Lv Ev] Hc Ho Hi. pose proof Hc as [Hl Hv].
    assert (L1 : length (vals (ent o (nth o c 0%nat))) = S) by (apply ent_len; [exact Ho| apply Hv; exact Ho]).
    assert (L2 : length (vals (ent o i)) = S) by (apply ent_len; assumption).
    assert (L3 : length (vsub v (vals (ent o (nth o c 0%nat)))) = S) by (rewrite vsub_length; congruence).
    split.
    - rewrite vred_length, vadd_length; congruence.
    - intros b Hb. rewrite dot_vred_l, dot_vadd_l by congruence. rewrite dot_vsub_l by congruence.
      rewrite (Ev b Hb). rewrite cval_set by assumption. reflexivity.
  Qed.

  (* a vector built by summing one pick per observation represents the choice of those picks *)
  Lemma pick_sum_repr : forall (idx : vlist -> nat), (forall r, In r row -> (idx r < length r)%nat) ->
    let picks := map (fun r => nth (idx r) r dummy_entry) row in
    valid (map idx row) /\
    repr (fold_left (fun acc e => vred (vadd acc (vals e))) picks (vzero S)) (map idx row).
  Proof.
    intros idx Hidxr picks.
    assert (Hval : valid (map idx row)).
    { split; [apply map_length|]. intros o Ho. rewrite (nth_indep _ 0%nat (idx [])) by (rewrite map_length; exact Ho).
      rewrite map_nth. apply Hidxr. apply row_in; exact Ho. }
    split; [exact Hval|].
    assert (W : Forall (fun e => length (vals e) = S) picks).
    { unfold picks. apply Forall_forall. intros e He. apply in_map_iff in He. destruct He as [r [<- Hr]].
      rewrite Forall_forall in Hwf. pose proof (Hwf _ Hr) as Wr. unfold wfl in Wr. rewrite Forall_forall in Wr.
      apply Wr. apply nth_In. apply Hidxr; exact Hr. }
    destruct (fold_vadd_spec S picks (vzero S) (repeat_length _ _) W) as [L V].
    split; [exact L|]. intros b Hb.
    set (e := fold_left (fun acc e => vred (vadd acc (vals e))) picks (vzero S)) in *.
    rewrite (dot_as_sum e b S L Hb).
    transitivity (qsum (map (fun s => qsum (map (fun c => nthq (vals c) s * nthq b s) picks)) (seq 0 S))).
    { apply qsum_map_ext. intros s _. rewrite V, nthq_vzero, Qplus_0_l. rewrite qsum_map_mul_r. reflexivity. }
    rewrite <- qsum_swap.
    transitivity (qsum (map (fun c => dot (vals c) b) picks)).
    { apply qsum_map_ext. intros c Hc. rewrite Forall_forall in W. symmetry. apply (dot_as_sum _ b S (W c Hc) Hb). }
    unfold picks, cval. rewrite map_map. rewrite (qsum_map_as_seq _ _ row []). fold O.
    apply qsum_map_ext. intros o Ho. apply in_seq in Ho. unfold ent.
    rewrite (nth_indep (map idx row) 0%nat (idx [])) by (rewrite map_length; lia). rewrite map_nth. reflexivity.
  Qed.

  Lemma best_index_in_range : forall b r, In r row -> (best_index r b < length r)%nat.
  Proof. intros b r Hr. rewrite Forall_forall in Hne. apply (best_index_attains_lemma r b (Hne r Hr)). Qed.

  Lemma csbb_obs : forall b a, obs (fst (csbb_row b row a S)) = map (fun r => best_index r b) row.
  Proof.
    intros b a. unfold csbb_row. cbn [fst obs]. rewrite map_map. apply map_ext_in. intros r Hr'.
    destruct (In_nth _ _ [] Hr') as [o [Ho Eo]]. subst r.
    assert (Hi : (best_index (nth o row []) b < length (nth o row []))%nat) by (apply best_index_in_range; exact Hr').
    pose proof (Hidx o _ _ (nth_error_nth' (nth o row []) dummy_entry Hi)) as E.
    unfold vlist in *. rewrite E. reflexivity.
  Qed.

  Lemma csbb_entry_facts : forall b a, let e := fst (csbb_row b row a S) in
    valid (obs e) /\ repr (vals e) (obs e) /\ act e = a.
  Proof.
    intros b a e.
    destruct (pick_sum_repr (fun r => best_index r b) (best_index_in_range b)) as [Hv Hr].
    unfold e. rewrite csbb_obs. split; [exact Hv|]. split; [| reflexivity].
    unfold csbb_row. cbn [fst vals]. exact Hr.
  Qed.

  Lemma default_facts : valid (fst (default_item row S)) /\ repr (snd (default_item row S)) (fst (default_item row S)).
  Proof.
    assert (H0 : forall r, In r row -> (0 < length r)%nat).
    { intros r Hr. rewrite Forall_forall in Hne. pose proof (Hne r Hr). destruct r; [congruence| cbn; lia]. }
    destruct (pick_sum_repr (fun _ => 0%nat) H0) as [Hv Hr].
    assert (E : map (fun _ : vlist => 0%nat) row = repeat 0%nat (length row)).
    { clear. induction row as [|r l IH]; cbn; [reflexivity| f_equal; exact IH]. }
    unfold default_item. cbn [fst snd]. rewrite <- E. split; [exact Hv|].
    rewrite fold_left_map' in Hr. exact Hr.
  Qed.

  (* ---------------- the agenda loop ---------------- *)
  Variable eps : Q.
  Hypothesis Heps : 0 <= eps.
  Variable oracle : nat -> nat -> list vec -> vec -> option vec.
  Variable t a : nat.
  (* a "no witness" answer is complete up to eps: the candidate is nowhere more than eps (per unit of
     belief mass) above all the rows *)
  Hypothesis Hcomplete : forall Uv cand, oracle t a Uv cand = None ->
    forall b, nonneg b -> length b = S -> exists u, In u Uv /\ dot cand b <= dot u b + eps * qsum b.

  Definition nowit (U : vlist) (c : choice) : Prop :=
    forall b, nonneg b -> length b = S -> exists u, In u U /\ cval c b <= dot (vals u) b + eps * qsum b.

  Definition Inv (U : vlist) (ag : list item) (tr : list choice) : Prop :=
    (forall e, In e U -> valid (obs e) /\ repr (vals e) (obs e)) /\
    (forall it, In it ag -> valid (fst it) /\ repr (snd it) (fst it)) /\
    (forall e o i, In e U -> (o < O)%nat -> (i < length (nth o row []))%nat -> i <> nth o (obs e) 0%nat ->
       In (set_nth o i (obs e)) tr) /\
    (forall c, In c tr -> valid c /\ ((exists v, In (c, v) ag) \/ nowit U c)).

  Lemma nowit_mono : forall U e c, nowit U c -> nowit (U ++ [e]) c.
  Proof.
    intros U e c H b Hb Hl. destruct (H b Hb Hl) as [u [Hu Hle]]. exists u. split; [apply in_or_app; left; exact Hu| exact Hle].
  Qed.

  Lemma var_fold : forall e, valid (obs e) -> repr (vals e) (obs e) ->
    forall l, (forall p, In p l -> (fst p < O)%nat /\ (snd p < length (nth (fst p) row []))%nat) ->
    forall ag tr,
      let st' := fold_left (var_one row e) l (ag, tr) in
      incl ag (fst st') /\ incl tr (snd st') /\
      (forall it, In it (fst st') -> In it ag \/ (valid (fst it) /\ repr (snd it) (fst it))) /\
      (forall c, In c (snd st') -> In c tr \/ (valid c /\ exists v, In (c, v) (fst st'))) /\
      (forall p, In p l -> snd p <> nth (fst p) (obs e) 0%nat -> In (set_nth (fst p) (snd p) (obs e)) (snd st')).
  Proof.
    intros e Hve Hre l. induction l as [|[o i] l IH]; intros Hl ag tr; cbn [fold_left].
    - cbn [fst snd]. split; [apply incl_refl|]. split; [apply incl_refl|]. split; [intros it H; left; exact H|].
      split; [intros c H; left; exact H| intros p []].
    - assert (Hl' : forall p, In p l -> (fst p < O)%nat /\ (snd p < length (nth (fst p) row []))%nat)
        by (intros p Hp; apply Hl; right; exact Hp).
      destruct (Hl (o, i) (or_introl eq_refl)) as [Ho Hi]. cbn [fst snd] in Ho, Hi.
      destruct (Nat.eqb i (nth o (obs e) 0%nat)) eqn:Eskip.
      { (* i == skip: nothing happens *)
        replace (var_one row e (ag, tr) (o, i)) with (ag, tr) by (unfold var_one; rewrite Eskip; reflexivity).
        specialize (IH Hl' ag tr). cbv zeta in IH. destruct IH as [A [B [C [D E]]]].
        split; [exact A|]. split; [exact B|]. split; [exact C|]. split; [exact D|].
        intros p [<-|Hp] Hneq; [cbn [fst snd] in Hneq; apply Nat.eqb_eq in Eskip; congruence| apply E; assumption]. }
      destruct (in_tried (set_nth o i (obs e)) tr) eqn:Etr.
      { (* already tried *)
        replace (var_one row e (ag, tr) (o, i)) with (ag, tr) by (unfold var_one; rewrite Eskip, Etr; reflexivity).
        specialize (IH Hl' ag tr). cbv zeta in IH. destruct IH as [A [B [C [D E]]]].
        split; [exact A|]. split; [exact B|]. split; [exact C|]. split; [exact D|].
        intros p [<-|Hp] Hneq; [cbn [fst snd]; apply B; apply in_tried_In; exact Etr| apply E; assumption]. }
      (* a new variation is pushed *)
      replace (var_one row e (ag, tr) (o, i)) with
        ((set_nth o i (obs e),
          vred (vadd (vsub (vals e) (vals (nth (nth o (obs e) 0%nat) (nth o row []) dummy_entry)))
                     (vals (nth i (nth o row []) dummy_entry)))) :: ag, set_nth o i (obs e) :: tr)
        by (unfold var_one; rewrite Eskip, Etr; reflexivity).
      set (c := set_nth o i (obs e)).
      set (v := vred (vadd (vsub (vals e) (vals (nth (nth o (obs e) 0%nat) (nth o row []) dummy_entry)))
                           (vals (nth i (nth o row []) dummy_entry)))).
      assert (Hgood : valid c /\ repr v c).
      { split; [apply valid_set; assumption| apply (repr_variation (vals e) (obs e) o i); assumption]. }
      specialize (IH Hl' ((c, v) :: ag) (c :: tr)). cbv zeta in IH. destruct IH as [A [B [C [D E]]]].
      split; [intros x Hx; apply A; right; exact Hx|].
      split; [intros x Hx; apply B; right; exact Hx|].
      split.
      { intros it Hit. destruct (C it Hit) as [[<-|Hin]|Hg]; [right; exact Hgood| left; exact Hin| right; exact Hg]. }
      split.
      { intros c' Hc'. destruct (D c' Hc') as [[<-|Hin]|Hg]; [| left; exact Hin| right; exact Hg].
        right. split; [apply Hgood|]. exists v. apply A. left. reflexivity. }
      intros p [<-|Hp] Hneq; [cbn [fst snd]; apply B; left; reflexivity| apply E; assumption].
  Qed.

  Lemma in_var_pairs : forall o i, In (o, i) (var_pairs row) <-> (o < O)%nat /\ (i < length (nth o row []))%nat.
  Proof.
    intros o i. unfold var_pairs. rewrite in_flat_map. split.
    - intros [o' [Ho' Hin]]. apply in_map_iff in Hin. destruct Hin as [i' [E Hi']]. inversion E; subst.
      apply in_seq in Ho'. apply in_seq in Hi'. split; [lia| lia].
    - intros [Ho Hi]. exists o. split; [apply in_seq; lia|]. apply in_map_iff. exists i. split; [reflexivity| apply in_seq; lia].
  Qed.

  Lemma variations_spec : forall e ag tr, valid (obs e) -> repr (vals e) (obs e) ->
    let st' := variations row e (ag, tr) in
    incl ag (fst st') /\ incl tr (snd st') /\
    (forall it, In it (fst st') -> In it ag \/ (valid (fst it) /\ repr (snd it) (fst it))) /\
    (forall c, In c (snd st') -> In c tr \/ (valid c /\ exists v, In (c, v) (fst st'))) /\
    (forall o i, (o < O)%nat -> (i < length (nth o row []))%nat -> i <> nth o (obs e) 0%nat ->
       In (set_nth o i (obs e)) (snd st')).
  Proof.
    intros e ag tr Hv Hr. cbv zeta. unfold variations.
    pose proof (var_fold e Hv Hr (var_pairs row)) as H.
    assert (Hl : forall p, In p (var_pairs row) -> (fst p < O)%nat /\ (snd p < length (nth (fst p) row []))%nat).
    { intros [o i] Hp. apply in_var_pairs in Hp. exact Hp. }
    specialize (H Hl ag tr). cbv zeta in H. destruct H as [A [B [C [D E]]]].
    split; [exact A|]. split; [exact B|]. split; [exact C|]. split; [exact D|].
    intros o i Ho Hi Hneq. apply (E (o, i)); [apply in_var_pairs; split; assumption| exact Hneq].
  Qed.

  Lemma wit_loop_inv : forall fuel U ag tr Uf, Inv U ag tr ->
    wit_loop oracle fuel t a S row U ag tr = Some Uf -> exists tr', incl tr tr' /\ Inv Uf [] tr'.
  Proof.
    induction fuel as [|fuel IH]; intros U ag tr Uf HI Hrun.
    - destruct ag as [|[c cand] rest]; cbn [wit_loop] in Hrun; [| discriminate].
      inversion Hrun; subst. exists tr. split; [apply incl_refl| exact HI].
    - destruct ag as [|[c cand] rest]; cbn [wit_loop] in Hrun.
      { inversion Hrun; subst. exists tr. split; [apply incl_refl| exact HI]. }
      destruct HI as [I1 [I2 [I3 I4]]].
      destruct (oracle t a (valsof U) cand) as [b|] eqn:Eor.
      + (* a witness: add the best entry at it and its variations *)
        set (e := fst (csbb_row b row a S)) in *.
        destruct (csbb_entry_facts b a) as [Hve [Hre _]]. fold e in Hve, Hre.
        pose proof (variations_spec e ((c, cand) :: rest) tr Hve Hre) as Hvar. cbv zeta in Hvar.
        cbv zeta in Hrun. fold e in Hrun.
        set (ag' := fst (variations row e ((c, cand) :: rest, tr))) in *.
        set (tr' := snd (variations row e ((c, cand) :: rest, tr))) in *.
        destruct Hvar as [A [B [C [D E]]]].
        destruct (IH (U ++ [e]) ag' tr' Uf) as [tr'' [Hincl HIf]]; [| exact Hrun|].
        * split; [| split; [| split]].
          -- intros e' He'. apply in_app_or in He'. destruct He' as [He'|[<-|[]]]; [apply I1; exact He'| split; assumption].
          -- intros it Hit. destruct (C it Hit) as [Hin|Hg]; [apply I2; exact Hin| exact Hg].
          -- intros e' o i He' Ho Hi Hneq. apply in_app_or in He'. destruct He' as [He'|[<-|[]]].
             ++ apply B. apply (I3 e' o i); assumption.
             ++ apply E; assumption.
          -- intros c' Hc'. destruct (D c' Hc') as [Hin|[Hv' [v' Hv'']]].
             ++ destruct (I4 c' Hin) as [Hv' [[v' Hv'']|Hnw]].
                ** split; [exact Hv'|]. left. exists v'. apply A. exact Hv''.
                ** split; [exact Hv'|]. right. apply nowit_mono. exact Hnw.
             ++ split; [exact Hv'|]. left. exists v'. exact Hv''.
        * exists tr''. split; [intros x Hx; apply Hincl; apply B; exact Hx| exact HIf].
      + (* no witness: the candidate is dropped *)
        destruct (IH U rest tr Uf) as [tr'' [Hincl HIf]]; [| exact Hrun| exists tr''; split; assumption].
        split; [exact I1|]. split; [intros it Hit; apply I2; right; exact Hit|]. split; [exact I3|].
        intros c' Hc'. destruct (I4 c' Hc') as [Hv' [[v' [Heq|Hin]]|Hnw]].
        * inversion Heq; subst c' v'. split; [exact Hv'|]. right.
          destruct (I2 (c, cand) (or_introl eq_refl)) as [_ [_ Er]]. cbn [fst snd] in Er.
          intros b Hb Hl. destruct (Hcomplete (valsof U) cand Eor b Hb Hl) as [u [Hu Hle]].
          unfold valsof in Hu. apply in_map_iff in Hu. destruct Hu as [eu [<- Heu]].
          exists eu. split; [exact Heu|]. rewrite <- (Er b Hl). exact Hle.
        * split; [exact Hv'|]. left. exists v'. exact Hin.
        * split; [exact Hv'|]. right. exact Hnw.
  Qed.

  (* the witness theorem: when the agenda is empty the list found has the cross-sum envelope *)
  Theorem wit_action_envelope_lemma : forall fuel U, wit_action oracle fuel t a S row = Some U ->
    U <> [] /\ wfl S U /\
    forall b, nonneg b -> length b = S ->
      Qenv b - inject_Z (Z.of_nat O) * (eps * qsum b) <= vbest U b /\ vbest U b <= Qenv b.
  Proof.
    intros fuel U Hrun. unfold wit_action in Hrun. cbv zeta in Hrun.
    destruct default_facts as [Hdv Hdr].
    set (d := default_item row S) in *.
    destruct (wit_loop_inv fuel [] [d] [fst d] U) as [tr [Hincl [I1 [_ [I3 I4]]]]]; [| exact Hrun|].
    { split; [intros e []|]. split; [intros it [<-|[]]; split; assumption|]. split; [intros e o i []|].
      intros c [<-|[]]. split; [exact Hdv|]. left. exists (snd d). left. destruct d; reflexivity. }
    assert (Hz : nonneg (vzero S)) by (unfold vzero; apply Forall_forall; intros x Hx; apply repeat_spec in Hx; subst; lra).
    assert (HUne : U <> []).
    { destruct (I4 (fst d) (Hincl _ (or_introl eq_refl))) as [_ [[v []]|Hnw]].
      destruct (Hnw (vzero S) Hz (repeat_length _ _)) as [u [Hu _]]. intros ->. destruct Hu. }
    assert (HUwf : wfl S U).
    { unfold wfl. apply Forall_forall. intros e He. apply (I1 e He). }
    split; [exact HUne|]. split; [exact HUwf|]. intros b Hb Hl.
    assert (Hmass : 0 <= eps * qsum b) by (apply Qmult_le_0_compat; [exact Heps| apply qsum_nonneg; exact Hb]).
    split.
    - destruct (vbest_attained U b HUne) as [u [Hu Eu]].
      destruct (I1 u Hu) as [Hvu [_ Eru]]. rewrite Eu, (Eru b Hl).
      assert (Hgap : forall o, (o < O)%nat ->
                vbest (nth o row []) b - dot (vals (ent o (nth o (obs u) 0%nat))) b <= eps * qsum b).
      { intros o Ho. rewrite Forall_forall in Hne. pose proof (Hne _ (row_in o Ho)) as Hrne.
        destruct (vbest_attained (nth o row []) b Hrne) as [eo [Heo Eeo]].
        destruct (In_nth _ _ dummy_entry Heo) as [i [Hi Ei]].
        destruct (Nat.eq_dec i (nth o (obs u) 0%nat)) as [Heq|Hneq].
        - unfold ent. rewrite <- Heq, Ei, Eeo. lra.
        - destruct (I4 _ (I3 u o i Hu Ho Hi Hneq)) as [_ [[v []]|Hnw]].
          destruct (Hnw b Hb Hl) as [u' [Hu' Hle]].
          rewrite cval_set in Hle by assumption. unfold ent at 2 in Hle. rewrite Ei in Hle.
          pose proof (vbest_ub U b u' Hu') as Hub. rewrite Eu, (Eru b Hl) in Hub. rewrite Eeo. lra. }
      unfold Qenv, cval. rewrite (qsum_map_as_seq _ (fun r => vbest r b) row []). fold O.
      assert (Hsum : qsum (map (fun o => vbest (nth o row []) b - dot (vals (ent o (nth o (obs u) 0%nat))) b) (seq 0 O))
                     <= qsum (map (fun _ => eps * qsum b) (seq 0 O))).
      { apply qsum_map_le. intros o Ho. apply in_seq in Ho. apply Hgap. lia. }
      rewrite qsum_map_const, seq_length in Hsum.
      assert (Esub : qsum (map (fun o => vbest (nth o row []) b - dot (vals (ent o (nth o (obs u) 0%nat))) b) (seq 0 O))
                     == qsum (map (fun o => vbest (nth o row []) b) (seq 0 O))
                        - qsum (map (fun o => dot (vals (ent o (nth o (obs u) 0%nat))) b) (seq 0 O))).
      { generalize (seq 0 O). intros l. induction l as [|x l IHl]; cbn [map qsum]; [lra| rewrite IHl; ring]. }
      rewrite Esub in Hsum. lra.
    - destruct (vbest_attained U b HUne) as [u [Hu Eu]].
      destruct (I1 u Hu) as [Hvu [_ Eru]]. rewrite Eu, (Eru b Hl). apply cval_le_Qenv. exact Hvu.
  Qed.
End Row.

(* ---------------- one Witness step on a POMDP ---------------- *)
Lemma nth_error_mapi_from : forall (A B : Type) (f : nat -> A -> B) l k i y,
  nth_error (mapi_from f k l) i = Some y -> exists x, nth_error l i = Some x /\ y = f (k + i)%nat x.
Proof.
  intros A B f l; induction l as [|x l IH]; intros k i y H; cbn [mapi_from] in H.
  - destruct i; discriminate.
  - destruct i as [|i]; cbn [nth_error] in *.
    + inversion H; subst. exists x. split; [reflexivity| rewrite Nat.add_0_r; reflexivity].
    + destruct (IH (Datatypes.S k) i y H) as [x' [Hx' ->]]. exists x'. split; [exact Hx'| f_equal; lia].
Qed.

Lemma project_idx : forall m w a o i e, nth_error (project m w a o) i = Some e -> obs e = [i].
Proof.
  intros m w a o i e H. unfold project in H. destruct (possible m a o).
  - apply nth_error_mapi_from in H. destruct H as [x [_ ->]]. reflexivity.
  - destruct i as [|i]; cbn [nth_error] in H; [inversion H; reflexivity| destruct i; discriminate].
Qed.

Lemma all_some_spec : forall (A : Type) (l : list (option A)) r, all_some l = Some r ->
  length r = length l /\ forall i d, (i < length l)%nat -> nth i l None = Some (nth i r d).
Proof.
  intros A l; induction l as [|[x|] l IH]; intros r H; cbn [all_some] in H; try discriminate.
  - inversion H; subst. split; [reflexivity| intros i d Hi; cbn in Hi; lia].
  - destruct (all_some l) as [r'|]; [| discriminate]. inversion H; subst.
    destruct (IH r' eq_refl) as [L N]. split; [cbn; f_equal; exact L|].
    intros [|i] d Hi; cbn [nth length] in *; [reflexivity| apply N; lia].
Qed.

Section WitStep.
  Variable prune : vlist -> vlist.
  Hypothesis prune_sub : forall l e, In e (prune l) -> In e l.
  Hypothesis prune_ne : forall l, l <> [] -> prune l <> [].
  Hypothesis prune_env : forall S l b, l <> [] -> wfl S l -> nonneg b -> length b = S ->
    vbest (prune l) b == vbest l b.

  Variable m : pomdp.
  Let S := nS (pm m).
  Hypothesis Hwf : wf_pomdp1 m.
  Hypothesis Hclean : obs_clean m.

  Variable eps : Q.
  Hypothesis Heps : 0 <= eps.
  Variable oracle : nat -> nat -> list vec -> vec -> option vec.
  Hypothesis Hcomplete : forall t a Uv cand, oracle t a Uv cand = None ->
    forall b, nonneg b -> length b = S -> exists u, In u Uv /\ dot cand b <= dot u b + eps * qsum b.

  Let Oq' := inject_Z (Z.of_nat (nO m)).

  Lemma proj_row_nth : forall w a o, (o < nO m)%nat -> nth o (proj_row m w a) [] = project m w a o.
  Proof.
    intros w a o Ho. unfold proj_row. rewrite (nth_indep _ [] (project m w a 0%nat)) by (rewrite map_length, seq_length; exact Ho).
    rewrite (map_nth (fun o => project m w a o)). rewrite seq_nth by exact Ho. reflexivity.
  Qed.

  Lemma proj_row_facts : forall w a, w <> [] ->
    Forall (fun r => r <> []) (proj_row m w a) /\ Forall (wfl S) (proj_row m w a) /\
    (forall o i e, nth_error (nth o (proj_row m w a) []) i = Some e -> obs e = [i]) /\
    length (proj_row m w a) = nO m.
  Proof.
    intros w a Hne. unfold proj_row. split; [| split; [| split]].
    - apply Forall_forall. intros r Hr. apply in_map_iff in Hr. destruct Hr as [o [<- _]]. apply project_nonempty; exact Hne.
    - apply Forall_forall. intros r Hr. apply in_map_iff in Hr. destruct Hr as [o [<- _]]. apply project_wfl.
    - intros o i e H. destruct (Nat.lt_ge_cases o (nO m)) as [Ho|Ho].
      + fold (proj_row m w a) in H. rewrite proj_row_nth in H by exact Ho. apply (project_idx m w a o i e H).
      + rewrite nth_overflow in H by (rewrite map_length, seq_length; exact Ho). destruct i; discriminate.
    - rewrite map_length, seq_length. reflexivity.
  Qed.

  (* the cross-sum envelope of the projections of action a is the one-step look-ahead of w's surface *)
  Lemma Qenv_proj_row : forall w a b, w <> [] -> wfl S w -> length b = S -> (a < nA (pm m))%nat ->
    Qenv (proj_row m w a) b ==
      rew_at m b a + gam (pm m) * qsum (map (fun o => vbest w (tau_step m b a o)) (seq 0 (nO m))).
  Proof.
    intros w a b Hne Hw Hb Ha. unfold Qenv, proj_row. rewrite map_map.
    rewrite <- (sum_shares m Hwf). apply qsum_map_ext. intros o Ho. apply in_seq in Ho.
    apply (vbest_project m (HO m Hwf) (Hg0 m Hwf) Hclean); try assumption. lia.
  Qed.

  Definition Qa (n : nat) (b : vec) (a : nat) : Q :=
    rew_at m b a + gam (pm m) * qsum (map (fun o => EV m n (tau_step m b a o)) (seq 0 (nO m))).

  Lemma wit_action_value : forall fuel t a w U n e0, w <> [] -> wfl S w -> 0 <= e0 -> (a < nA (pm m))%nat ->
    (forall x, nonneg x -> length x = S -> EV m n x - e0 * qsum x <= vbest w x /\ vbest w x <= EV m n x) ->
    wit_action oracle fuel t a S (proj_row m w a) = Some U ->
    U <> [] /\ wfl S U /\
    forall b, nonneg b -> length b = S ->
      Qa n b a - (Oq' * eps + gam (pm m) * e0) * qsum b <= vbest U b /\ vbest U b <= Qa n b a.
  Proof.
    intros fuel t a w U n e0 Hne Hw He0 Ha Hprev Hrun.
    destruct (proj_row_facts w a Hne) as [F1 [F2 [F3 F4]]].
    destruct (wit_action_envelope_lemma S (proj_row m w a) F1 F2 F3 eps Heps oracle t a (Hcomplete t a) fuel U Hrun)
      as [HUne [HUwf Henv]].
    split; [exact HUne|]. split; [exact HUwf|]. intros b Hb Hl.
    destruct (Henv b Hb Hl) as [Lo Up]. rewrite F4 in Lo. fold Oq' in Lo.
    rewrite (Qenv_proj_row w a b Hne Hw Hl Ha) in Lo, Up.
    pose proof (Hg0 m Hwf) as Hg.
    assert (Hmass : qsum (map (fun o => qsum (tau_step m b a o)) (seq 0 (nO m))) == qsum b).
    { rewrite <- (mass_qsum m b Hl). rewrite <- (mass_conservation m Hwf b a Ha).
      apply qsum_map_ext. intros o _. symmetry. apply mass_qsum. apply tau_step_length. }
    assert (HupS : qsum (map (fun o => vbest w (tau_step m b a o)) (seq 0 (nO m)))
                   <= qsum (map (fun o => EV m n (tau_step m b a o)) (seq 0 (nO m)))).
    { apply qsum_map_le. intros o _. apply Hprev; [apply (tau_step_nonneg m Hwf); assumption| apply tau_step_length]. }
    assert (HloS : qsum (map (fun o => EV m n (tau_step m b a o)) (seq 0 (nO m))) - e0 * qsum b
                   <= qsum (map (fun o => vbest w (tau_step m b a o)) (seq 0 (nO m)))).
    { rewrite <- Hmass. rewrite <- qsum_map_mul_l.
      assert (E : qsum (map (fun o => EV m n (tau_step m b a o)) (seq 0 (nO m)))
                  - qsum (map (fun o => e0 * qsum (tau_step m b a o)) (seq 0 (nO m)))
                  == qsum (map (fun o => EV m n (tau_step m b a o) - e0 * qsum (tau_step m b a o)) (seq 0 (nO m)))).
      { generalize (seq 0 (nO m)). intros l. induction l as [|x l IHl]; cbn [map qsum]; [lra| rewrite <- IHl; ring]. }
      rewrite E. apply qsum_map_le. intros o _.
      apply Hprev; [apply (tau_step_nonneg m Hwf); assumption| apply tau_step_length]. }
    assert (Hq : 0 <= qsum b) by (apply qsum_nonneg; exact Hb).
    unfold Qa. split; nra.
  Qed.

  Theorem wit_step_value_lemma : forall fuel t w w' n e0, w <> [] -> wfl S w -> 0 <= e0 ->
    (forall x, nonneg x -> length x = S -> EV m n x - e0 * qsum x <= vbest w x /\ vbest w x <= EV m n x) ->
    wit_step oracle prune fuel t m w = Some w' ->
    w' <> [] /\ wfl S w' /\
    forall b, nonneg b -> length b = S ->
      EV m (Datatypes.S n) b - (Oq' * eps + gam (pm m) * e0) * qsum b <= vbest w' b /\
      vbest w' b <= EV m (Datatypes.S n) b.
  Proof.
    intros fuel t w w' n e0 Hne Hw He0 Hprev Hrun. unfold wit_step in Hrun.
    destruct (wit_lists oracle fuel t m w) as [Us|] eqn:EUs; [| discriminate]. inversion Hrun; subst w'. clear Hrun.
    unfold wit_lists in EUs. destruct (all_some_spec _ _ _ EUs) as [LUs NUs].
    rewrite map_length, seq_length in LUs, NUs.
    assert (Hact : forall a, (a < nA (pm m))%nat ->
              wit_action oracle fuel t a S (proj_row m w a) = Some (nth a Us [])).
    { intros a Ha. rewrite <- (NUs a [] Ha).
      rewrite (nth_indep _ None (wit_action oracle fuel t 0%nat S (proj_row m w 0%nat))) by (rewrite map_length, seq_length; exact Ha).
      rewrite (map_nth (fun a => wit_action oracle fuel t a (nS (pm m)) (proj_row m w a))). rewrite seq_nth by exact Ha. reflexivity. }
    pose proof (HA m Hwf) as HApos.
    assert (HUs_ne : Us <> []) by (intros ->; cbn in LUs; lia).
    assert (Hall : Forall (fun l => l <> [] /\ wfl S l) Us).
    { apply Forall_forall. intros l Hl. destruct (In_nth _ _ [] Hl) as [a [Ha <-]].
      assert (Ha' : (a < nA (pm m))%nat) by (unfold vlist in *; lia).
      destruct (wit_action_value fuel t a w _ n e0 Hne Hw He0 Ha' Hprev (Hact a Ha')) as [N [W _]]. split; assumption. }
    assert (Hcat_ne : concat Us <> []).
    { destruct Us as [|l ps]; [congruence|]. inversion Hall as [|? ? [N _] _]; subst. cbn [concat]. destruct l; [congruence| discriminate]. }
    assert (Hcat_wf : wfl S (concat Us)).
    { unfold wfl. apply Forall_forall. intros e He. apply in_concat in He. destruct He as [l [Hl He]].
      rewrite Forall_forall in Hall. destruct (Hall l Hl) as [_ W]. unfold wfl in W. rewrite Forall_forall in W. apply W; exact He. }
    split; [apply prune_ne; exact Hcat_ne|]. split.
    { unfold wfl. apply Forall_forall. intros e He. apply prune_sub in He. unfold wfl in Hcat_wf. rewrite Forall_forall in Hcat_wf. apply Hcat_wf; exact He. }
    intros b Hb Hl. rewrite (prune_env S (concat Us) b Hcat_ne Hcat_wf Hb Hl).
    rewrite vbest_concat; [| exact HUs_ne | eapply Forall_impl; [| exact Hall]; intros l [N _]; exact N].
    rewrite <- (map_nth_seq_id _ Us []) at 1 2. rewrite map_map, LUs. cbn [EV]. fold (Qa n b).
    set (d := (Oq' * eps + gam (pm m) * e0) * qsum b).
    assert (Hs_ne : seq 0 (nA (pm m)) <> []) by (destruct (nA (pm m)); [lia| cbn; discriminate]).
    assert (Hm_ne : forall (f : nat -> Q), map f (seq 0 (nA (pm m))) <> []) by (intros f E; apply map_eq_nil in E; contradiction).
    split.
    - destruct (maxl_attained (map (Qa n b) (seq 0 (nA (pm m)))) (Hm_ne _)) as [y [Hy Ey]].
      apply in_map_iff in Hy. destruct Hy as [a [<- Ha]]. apply in_seq in Ha.
      destruct (wit_action_value fuel t a w _ n e0 Hne Hw He0 ltac:(lia) Hprev (Hact a ltac:(lia))) as [_ [_ V]].
      destruct (V b Hb Hl) as [Lo _]. fold d in Lo. rewrite Ey.
      eapply Qle_trans; [exact Lo|]. apply maxl_ub. apply (in_map (fun a => vbest (nth a Us []) b)). apply in_seq. lia.
    - apply maxl_le; [apply Hm_ne|]. intros y Hy. apply in_map_iff in Hy. destruct Hy as [a [<- Ha]]. apply in_seq in Ha.
      destruct (wit_action_value fuel t a w _ n e0 Hne Hw He0 ltac:(lia) Hprev (Hact a ltac:(lia))) as [_ [_ V]].
      destruct (V b Hb Hl) as [_ Up]. eapply Qle_trans; [exact Up|]. apply maxl_ub. apply (in_map (Qa n b)). apply in_seq. lia.
  Qed.

  (* accumulated slack after n steps: err 0 = 0, err (n+1) = |O| eps + discount * err n *)
  Fixpoint wit_err (n : nat) : Q :=
    match n with O => 0 | Datatypes.S n' => Oq' * eps + gam (pm m) * wit_err n' end.

  Lemma wit_err_nonneg : forall n, 0 <= wit_err n.
  Proof.
    induction n as [|n IH]; cbn [wit_err]; [lra|]. pose proof (Hg0 m Hwf).
    assert (0 <= Oq') by (unfold Oq'; change 0 with (inject_Z 0); rewrite <- Zle_Qle; lia). nra.
  Qed.

  Theorem wit_run_value_lemma : forall fuel h vf, wit_run oracle prune fuel m h = Some vf ->
    let w := last vf [] in
    w <> [] /\ wfl S w /\
    forall b, nonneg b -> length b = S ->
      EV m h b - wit_err h * qsum b <= vbest w b /\ vbest w b <= EV m h b.
  Proof.
    intros fuel h. induction h as [|h IH]; intros vf Hrun; cbn [wit_run] in Hrun.
    - inversion Hrun; subst. cbn [vf_init last]. split; [discriminate|]. split.
      + constructor; [cbn [vals]; apply repeat_length| constructor].
      + intros b Hb Hl. unfold vbest, best, valsof. cbn [map maxl qmax_from vals EV wit_err]. unfold vzero.
        rewrite dot_comm, dot_repeat0_r. lra.
    - destruct (wit_run oracle prune fuel m h) as [vf0|] eqn:E0; [| discriminate].
      destruct (wit_step oracle prune fuel (Datatypes.S h) m (last vf0 [])) as [w'|] eqn:E1; [| discriminate].
      inversion Hrun; subst vf. cbv zeta. rewrite last_last.
      destruct (IH vf0 eq_refl) as [N [W V]]. cbv zeta in N, W, V.
      apply (wit_step_value_lemma fuel (Datatypes.S h) (last vf0 []) w' h (wit_err h) N W (wit_err_nonneg h) V E1).
  Qed.
End WitStep.

(* ---------------- certificates for the oracle's answers ---------------- *)
Lemma nonnegb_nonneg : forall p, nonnegb p = true -> nonneg p.
Proof.
  intros p H. unfold nonnegb in H. rewrite forallb_forall in H. apply Forall_forall. intros x Hx.
  apply Qle_bool_iff. apply H; exact Hx.
Qed.

Lemma map_fst_combine : forall (A B : Type) (l1 : list A) (l2 : list B), length l1 = length l2 ->
  map fst (combine l1 l2) = l1.
Proof.
  intros A B l1; induction l1 as [|x l1 IH]; intros [|y l2] H; cbn in *; try discriminate; [reflexivity|].
  f_equal. apply IH. lia.
Qed.

(* a convex combination of the rows that is above the candidate (up to eps) in every state shows that no
   belief separates the candidate from the rows by more than eps per unit of mass *)
Theorem none_cert_sound_lemma : forall S eps rows cand lam, none_cert_ok S eps rows cand lam = true ->
  forall b, nonneg b -> length b = S -> exists u, In u rows /\ dot cand b <= dot u b + eps * qsum b.
Proof.
  intros S eps rows cand lam H b Hb Hl. unfold none_cert_ok in H.
  repeat (apply andb_prop in H; destruct H as [H ?]).
  match goal with h : forallb (fun s => Qle_bool _ _) _ = true |- _ => rename h into Hcert end.
  match goal with h : forallb (fun r => Nat.eqb (length r) S) _ = true |- _ => rename h into Hrows end.
  match goal with h : Nat.eqb (length cand) S = true |- _ => apply Nat.eqb_eq in h; rename h into Hc end.
  match goal with h : Qeq_bool (qsum lam) 1 = true |- _ => apply Qeq_bool_iff in h; rename h into Hsum end.
  match goal with h : nonnegb lam = true |- _ => apply nonnegb_nonneg in h; rename h into Hlam end.
  apply Nat.eqb_eq in H. rename H into Hlen.
  rewrite forallb_forall in Hcert, Hrows.
  assert (Hrows' : forall u, In u rows -> length u = S) by (intros u Hu; apply Nat.eqb_eq; apply Hrows; exact Hu).
  assert (Hne : rows <> []).
  { intros ->. destruct lam; [cbn in Hsum; lra| discriminate]. }
  set (M := maxl (map (fun u => dot u b) rows)).
  assert (Hmne : map (fun u => dot u b) rows <> []) by (intros E; apply map_eq_nil in E; contradiction).
  destruct (maxl_attained _ Hmne) as [y [Hy Ey]]. apply in_map_iff in Hy. destruct Hy as [u [<- Hu]].
  exists u. split; [exact Hu|]. fold M in Ey. rewrite <- Ey.
  (* dot cand b <= sum_s (comb s + eps) * b_s *)
  rewrite (dot_as_sum cand b S Hc Hl).
  eapply Qle_trans.
  { apply (qsum_map_le _ _ (fun s => (comb rows lam s + eps) * nthq b s)). intros s Hs.
    apply Qmult_le_compat_r; [apply Qle_bool_iff; apply Hcert; exact Hs| apply nonneg_nthq; exact Hb]. }
  assert (E1 : qsum (map (fun s => (comb rows lam s + eps) * nthq b s) (seq 0 S))
               == qsum (map (fun s => comb rows lam s * nthq b s) (seq 0 S)) + eps * qsum b).
  { assert (Eb : qsum b == qsum (map (nthq b) (seq 0 S))) by (rewrite <- Hl, map_nthq_seq; reflexivity).
    rewrite Eb. rewrite <- qsum_map_mul_l, <- qsum_map_add.
    apply qsum_map_ext. intros s _. ring. }
  rewrite E1. apply Qplus_le_l.
  (* swap the sums: sum_s comb_s b_s = sum_(lam,u) lam * dot u b <= M *)
  assert (E2 : qsum (map (fun s => comb rows lam s * nthq b s) (seq 0 S))
               == qsum (map (fun p => fst p * dot (snd p) b) (combine lam rows))).
  { unfold comb.
    transitivity (qsum (map (fun s => qsum (map (fun p => fst p * (nthq (snd p) s * nthq b s)) (combine lam rows))) (seq 0 S))).
    { apply qsum_map_ext. intros s _. rewrite <- qsum_map_mul_r. apply qsum_map_ext. intros p _. ring. }
    rewrite qsum_swap. apply qsum_map_ext. intros [l r] Hp. cbn [fst snd]. rewrite qsum_map_mul_l.
    apply in_combine_r in Hp. rewrite (dot_as_sum r b S (Hrows' r Hp) Hl). reflexivity. }
  rewrite E2.
  eapply Qle_trans.
  { apply (qsum_map_le _ _ (fun p => fst p * M)). intros [l r] Hp. cbn [fst snd].
    assert (Hl0 : 0 <= l) by (unfold nonneg in Hlam; rewrite Forall_forall in Hlam; apply Hlam; apply in_combine_l in Hp; exact Hp).
    assert (Hrm : dot r b <= M) by (unfold M; apply maxl_ub; apply (in_map (fun u => dot u b)); apply in_combine_r in Hp; exact Hp).
    nra. }
  rewrite qsum_map_mul_r. rewrite <- (map_map fst (fun x => x)), map_id, map_fst_combine by exact Hlen.
  rewrite Hsum. lra.
Qed.

Lemma cert_oracle_complete : forall S eps ans lam fb t a Uv cand,
  cert_oracle S eps ans lam fb t a Uv cand = None ->
  forall b, nonneg b -> length b = S -> exists u, In u Uv /\ dot cand b <= dot u b + eps * qsum b.
Proof.
  intros S eps ans lam fb t a Uv cand H. unfold cert_oracle in H.
  destruct (ans t a Uv cand); [discriminate|].
  destruct (none_cert_ok S eps Uv cand (lam t a Uv cand)) eqn:E; [| discriminate].
  apply (none_cert_sound_lemma S eps Uv cand _ E).
Qed.

(* ---------------- completeness of ANY returned list, certified on the whole simplex ----------------
   If every vector of a reference list Gamma is certified (none_cert_ok) to be nowhere more than eps above
   the list G, then G's surface is at least Gamma's minus eps, at every non-negative point. *)
Theorem surface_cert_sound_lemma : forall S eps (Gamma G : vlist) (lam : ventry -> vec),
  Gamma <> [] ->
  (forall g, In g Gamma -> none_cert_ok S eps (valsof G) (vals g) (lam g) = true) ->
  forall b, nonneg b -> length b = S -> vbest Gamma b <= vbest G b + eps * qsum b.
Proof.
  intros S eps Gamma G lam Hne Hc b Hb Hl.
  destruct (vbest_attained Gamma b Hne) as [g [Hg Eg]]. rewrite Eg.
  destruct (none_cert_sound_lemma S eps (valsof G) (vals g) (lam g) (Hc g Hg) b Hb Hl) as [u [Hu Hle]].
  unfold valsof in Hu. apply in_map_iff in Hu. destruct Hu as [e [<- He]].
  pose proof (vbest_ub G b e He). lra.
Qed.
