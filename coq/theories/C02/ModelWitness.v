(* C02/ModelWitness.v — executable model of POMDP::Witness::operator()
   src: include/AIToolbox/POMDP/Algorithms/Witness.hpp (operator(), addDefaultEntry, addVariations),
        POMDP/Utils.hpp:crossSumBestAtBelief (modelled as C04.Model.csbb_row).
   WitnessLP::findWitness is NOT modelled computationally: the model is parametric in [oracle]
   (timestep, action, rows already added = values of U[a], candidate) -> optional witness belief.
   The correspondence instantiates it with the transcript of the real LP answers (hook events);
   the theorems assume only completeness of a "no witness" answer.   No proofs in this file. *)
From Coq Require Import List Arith QArith Bool.
From AIT Require Import Base.Qx Base.Mdp Base.MdpExec C02.Model C02.Spec C04.Model.
Import ListNotations.
Local Open Scope Q_scope.

Definition vsub (a b : vec) : vec := map (fun p => fst p - snd p) (combine a b).

Definition choice := list nat.
Definition in_tried (c : choice) (tried : list choice) : bool :=
  existsb (fun t => if list_eq_dec Nat.eq_dec t c then true else false) tried.

(* an agenda item: the candidate vector; its choice is ghost data (the C++ agenda_ holds values only,
   the choice lives in triedVectors_) *)
Definition item := (choice * vec)%type.

(* src: Witness::addDefaultEntry — sum of the first projection of every observation, choice (0,..,0) *)
Definition default_item (row : list vlist) (S : nat) : item :=
  (repeat 0%nat (length row),
   fold_left (fun acc r => vred (vadd acc (vals (nth 0 r dummy_entry)))) row (vzero S)).

(* all (observation, index) pairs in the order of addVariations' two loops *)
Definition var_pairs (row : list vlist) : list (nat * nat) :=
  flat_map (fun o => map (pair o) (seq 0 (length (nth o row [])))) (seq 0 (length row)).

(* one iteration of the inner loop of addVariations; the head of the agenda list is agenda_.back() *)
Definition var_one (row : list vlist) (e : ventry) (st : list item * list choice) (p : nat * nat)
  : list item * list choice :=
  let '(o, i) := p in
  let '(ag, tr) := st in
  let r := nth o row [] in
  let skip := nth o (obs e) 0%nat in
  if Nat.eqb i skip then st else
  let c := set_nth o i (obs e) in
  if in_tried c tr then st else
  ((c, vred (vadd (vsub (vals e) (vals (nth skip r dummy_entry))) (vals (nth i r dummy_entry)))) :: ag,
   c :: tr).

Definition variations (row : list vlist) (e : ventry) (st : list item * list choice) : list item * list choice :=
  fold_left (var_one row e) (var_pairs row) st.

Section Witness.
  (* oracle t a rows cand: the answer of lp.findWitness(cand) at timestep t, action a, after the rows
     [rows] were added with addOptimalRow *)
  Variable oracle : nat -> nat -> list vec -> vec -> option vec.

  (* the while ( !agenda_.empty() ) loop for one action; None = out of fuel *)
  Fixpoint wit_loop (fuel : nat) (t a S : nat) (row : list vlist) (U : vlist) (ag : list item) (tr : list choice)
    : option vlist :=
    match ag with
    | [] => Some U
    | (c, cand) :: rest =>
      match fuel with
      | O => None
      | Datatypes.S f =>
        match oracle t a (valsof U) cand with
        | Some b =>
          let e := fst (csbb_row b row a S) in
          let st' := variations row e (ag, tr) in
          wit_loop f t a S row (U ++ [e]) (fst st') (snd st')
        | None => wit_loop f t a S row U rest tr
        end
      end
    end.

  Definition wit_action (fuel t a S : nat) (row : list vlist) : option vlist :=
    let d := default_item row S in wit_loop fuel t a S row [] [d] [fst d].

  Fixpoint all_some {A : Type} (l : list (option A)) : option (list A) :=
    match l with
    | [] => Some []
    | None :: _ => None
    | Some x :: t => match all_some t with Some r => Some (x :: r) | None => None end
    end.

  (* the per-action lists U[a] of one timestep *)
  Definition wit_lists (fuel t : nat) (m : pomdp) (w : vlist) : option (list vlist) :=
    all_some (map (fun a => wit_action fuel t a (nS (pm m)) (proj_row m w a)) (seq 0 (nA (pm m)))).

  Variable prune : vlist -> vlist.

  (* one horizon step of Witness::operator(): concatenate the U[a] and prune *)
  Definition wit_step (fuel t : nat) (m : pomdp) (w : vlist) : option vlist :=
    match wit_lists fuel t m w with
    | Some Us => Some (prune (concat Us))
    | None => None
    end.

  Fixpoint wit_run (fuel : nat) (m : pomdp) (h : nat) : option (list vlist) :=
    match h with
    | O => Some (vf_init (nS (pm m)))
    | Datatypes.S h' =>
      match wit_run fuel m h' with
      | None => None
      | Some vf => match wit_step fuel h m (last vf []) with
                   | Some w => Some (vf ++ [w])
                   | None => None
                   end
      end
    end.
End Witness.

(* ---- certificate for a "no witness" answer: convex weights lam over the rows such that the
   candidate is below their combination plus eps in every state (the dual of the witness LP) *)
Definition comb (rows : list vec) (lam : vec) (s : nat) : Q :=
  qsum (map (fun p => fst p * nthq (snd p) s) (combine lam rows)).
Definition none_cert_ok (S : nat) (eps : Q) (rows : list vec) (cand : vec) (lam : vec) : bool :=
  Nat.eqb (length lam) (length rows) && nonnegb lam && Qeq_bool (qsum lam) 1 &&
  Nat.eqb (length cand) S && forallb (fun r => Nat.eqb (length r) S) rows &&
  forallb (fun s => Qle_bool (nthq cand s) (comb rows lam s + eps)) (seq 0 S).

(* ---- an oracle that is complete by construction: it follows the answers [ans] (the transcript of the
   real LP), but says "no witness" only when the accompanying weights [lam] certify it; otherwise it
   returns [fallback] (the caller — the driver — reports such a query before running the model). *)
Definition cert_oracle (S : nat) (eps : Q)
  (ans : nat -> nat -> list vec -> vec -> option vec)
  (lam : nat -> nat -> list vec -> vec -> vec) (fallback : vec)
  : nat -> nat -> list vec -> vec -> option vec :=
  fun t a rows cand =>
    match ans t a rows cand with
    | Some b => Some b
    | None => if none_cert_ok S eps rows cand (lam t a rows cand) then None else Some fallback
    end.
