(* C02/ProofsVec.v — vector/sum lemmas used by the exact-solver proofs. *)
From Coq Require Import List Arith QArith Qminmax Lqa Lia Bool Setoid.
From AIT Require Import Base.Qx Base.Mdp Base.MdpExec.
Import ListNotations.
Local Open Scope Q_scope.

Lemma qsum_map_mul_l : forall (A : Type) (c : Q) (f : A -> Q) l,
  qsum (map (fun i => c * f i) l) == c * qsum (map f l).
Proof. intros. induction l as [|x l IH]; cbn [map qsum]; [lra| rewrite IH; lra]. Qed.

Lemma qsum_map_mul_r : forall (A : Type) (c : Q) (f : A -> Q) l,
  qsum (map (fun i => f i * c) l) == qsum (map f l) * c.
Proof. intros. induction l as [|x l IH]; cbn [map qsum]; [lra| rewrite IH; lra]. Qed.

Lemma qsum_map_zero : forall (A : Type) (f : A -> Q) l, (forall x, In x l -> f x == 0) -> qsum (map f l) == 0.
Proof.
  induction l as [|x l IH]; intros H; cbn [map qsum]; [lra|].
  rewrite (H x (or_introl eq_refl)), IH; [lra|]. intros y Hy; apply H; right; exact Hy.
Qed.

Lemma qsum_map_const : forall (A : Type) (c : Q) (l : list A),
  qsum (map (fun _ => c) l) == inject_Z (Z.of_nat (length l)) * c.
Proof.
  induction l as [|x l IH]; cbn [map qsum length].
  - change (inject_Z (Z.of_nat 0)) with 0. lra.
  - rewrite IH. rewrite Nat2Z.inj_succ. unfold Z.succ. rewrite inject_Z_plus.
    change (inject_Z 1) with 1. lra.
Qed.

Lemma qsum_swap : forall (A B : Type) (f : A -> B -> Q) (l1 : list A) (l2 : list B),
  qsum (map (fun i => qsum (map (fun j => f i j) l2)) l1) ==
  qsum (map (fun j => qsum (map (fun i => f i j) l1)) l2).
Proof.
  induction l1 as [|x l1 IH]; intros l2; cbn [map qsum].
  - symmetry. apply qsum_map_zero. intros; reflexivity.
  - rewrite IH. rewrite <- qsum_map_add. apply qsum_map_ext. intros j _. cbn [map qsum]. reflexivity.
Qed.

Lemma qsum_map_nonneg : forall (A : Type) (f : A -> Q) l, (forall x, In x l -> 0 <= f x) -> 0 <= qsum (map f l).
Proof.
  induction l as [|x l IH]; intros H; cbn [map qsum]; [lra|].
  pose proof (H x (or_introl eq_refl)). assert (0 <= qsum (map f l)) by (apply IH; intros y Hy; apply H; right; exact Hy). lra.
Qed.

(* dot of a tabulated vector with b *)
Lemma dot_map_seq_gen : forall (f : nat -> Q) n k b, length b = n ->
  dot (map f (seq k n)) b == qsum (map (fun i => f (k + i)%nat * nthq b i) (seq 0 n)).
Proof.
  induction n as [|n IH]; intros k b Hl.
  - destruct b; cbn in *; try discriminate; lra.
  - destruct b as [|x b]; cbn in Hl; [discriminate|].
    cbn [seq map dot qsum]. rewrite (IH (S k) b) by lia.
    rewrite <- seq_shift, map_map. unfold nthq at 1. cbn [nth]. rewrite Nat.add_0_r.
    apply Qplus_comp; [reflexivity|]. apply qsum_map_ext. intros i _.
    unfold nthq. cbn [nth]. replace (S k + i)%nat with (k + S i)%nat by lia. reflexivity.
Qed.

Lemma dot_map_seq : forall (f : nat -> Q) n b, length b = n ->
  dot (map f (seq 0 n)) b == qsum (map (fun i => f i * nthq b i) (seq 0 n)).
Proof. intros. rewrite dot_map_seq_gen by assumption. apply qsum_map_ext. intros; reflexivity. Qed.

Lemma map_nthq_seq : forall v, map (nthq v) (seq 0 (length v)) = v.
Proof.
  induction v as [|x v IH]; [reflexivity|]. cbn [length seq map]. unfold nthq at 1. cbn [nth]. f_equal.
  rewrite <- seq_shift, map_map. exact IH.
Qed.

Lemma dot_as_sum : forall v w n, length v = n -> length w = n ->
  dot v w == qsum (map (fun i => nthq v i * nthq w i) (seq 0 n)).
Proof.
  intros v w n Hv Hw. rewrite <- (map_nthq_seq v) at 1. rewrite Hv. apply dot_map_seq; exact Hw.
Qed.

Lemma dot_veq_l : forall v w b, veq v w -> dot v b == dot w b.
Proof. intros. rewrite (dot_comm v b), (dot_comm w b). apply dot_veq_r; assumption. Qed.

Lemma vadd_length : forall a b, length a = length b -> length (vadd a b) = length a.
Proof. intros a b H. unfold vadd. rewrite map_length, combine_length. lia. Qed.

Lemma dot_vadd_l : forall v1 v2 b, length v1 = length v2 ->
  dot (vadd v1 v2) b == dot v1 b + dot v2 b.
Proof.
  induction v1 as [|x v1 IH]; intros [|y v2] b Hl; cbn in Hl; try discriminate.
  - cbn; lra.
  - destruct b as [|z b]; unfold vadd; cbn [combine map dot fst snd]; [lra|].
    fold (vadd v1 v2). rewrite IH by lia. lra.
Qed.

Lemma vred_length : forall v, length (vred v) = length v.
Proof. intros; unfold vred; apply map_length. Qed.

Lemma dot_vred_l : forall v b, dot (vred v) b == dot v b.
Proof. intros. apply dot_veq_l. apply vred_veq. Qed.

Lemma nthq_map_seq : forall (f : nat -> Q) n i, (i < n)%nat -> nthq (map f (seq 0 n)) i == f i.
Proof.
  intros f n i Hi. unfold nthq.
  rewrite (nth_indep _ 0 (f 0%nat)) by (rewrite map_length, seq_length; exact Hi).
  rewrite (map_nth f (seq 0 n) 0%nat i). rewrite seq_nth by exact Hi. reflexivity.
Qed.

Lemma nonneg_nthq : forall v i, nonneg v -> 0 <= nthq v i.
Proof.
  intros v i H; revert i; induction H as [|x v Hx H IH]; intros i; unfold nthq; destruct i; cbn [nth]; try lra.
  apply IH.
Qed.

Lemma nonneg_map_seq : forall (f : nat -> Q) n, (forall i, (i < n)%nat -> 0 <= f i) -> nonneg (map f (seq 0 n)).
Proof.
  intros f n H. apply Forall_forall. intros x Hx. apply in_map_iff in Hx. destruct Hx as [i [<- Hi]].
  apply in_seq in Hi. apply H; lia.
Qed.

Lemma veq_pointwise : forall v w n, length v = n -> length w = n ->
  (forall s, (s < n)%nat -> nthq v s == nthq w s) -> veq v w.
Proof.
  induction v as [|x v IH]; intros [|y w] n Hv Hw H; cbn in Hv, Hw; subst; try discriminate; constructor.
  - apply (H 0%nat). lia.
  - apply (IH w (length v)); [reflexivity| lia|]. intros s Hs. apply (H (S s)). lia.
Qed.

