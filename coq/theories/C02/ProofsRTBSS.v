(* C02/ProofsRTBSS.v — RTBSS (branch-and-bound expectimax with the repaired upper bound) returns
   the exact expectimax value and an action attaining it, whenever maxR bounds the rewards and no
   reachable branch has a probability in (0, 1e-6] (the code skips branches below its tolerance). *)
From Coq Require Import List Arith ZArith QArith Qminmax Lqa Lia Bool Setoid.
From AIT Require Import Base.Qx Base.Mdp Base.MdpExec C02.Model C02.Spec C02.ProofsVec C02.ProofsCross
  C02.ProofsSched C02.ProofsProj C02.ProofsIP C02.ProofsEV.
Import ListNotations.
Local Open Scope Q_scope.

Lemma eqSmall_zero : forall x, x == 0 -> eqSmall x 0 = true.
Proof.
  intros x Hx. unfold eqSmall. apply Qle_bool_iff. unfold qabs, epsS.
  assert (E : x - 0 == 0) by lra. rewrite E. apply Q.max_lub; unfold Qle; cbn; lia.
Qed.

Lemma eqSmall_big : forall x, epsS < x -> eqSmall x 0 = false.
Proof.
  intros x Hx. unfold eqSmall. destruct (Qle_bool (qabs (x - 0)) epsS) eqn:E; [| reflexivity].
  apply Qle_bool_iff in E. unfold qabs in E. pose proof (Q.le_max_l (x - 0) (- (x - 0))). lra.
Qed.

Lemma nonneg_sum_zero : forall t, nonneg t -> qsum t == 0 -> forall i, nthq t i == 0.
Proof.
  intros t Ht; induction Ht as [|x t Hx Ht IH]; intros Hs i; unfold nthq; [destruct i; reflexivity|].
  cbn [qsum] in Hs. pose proof (qsum_nonneg t Ht). destruct i; cbn [nth]; [lra| apply IH; lra].
Qed.

(* no reachable branch has probability in (0, epsS]; beliefs are renormalised as the code does *)
Fixpoint rtbss_clean (m : pomdp) (h : nat) (b : vec) : Prop :=
  match h with
  | O => True
  | S h' => forall a o, (a < nA (pm m))%nat -> (o < nO m)%nat ->
      let nb := tau_step m b a o in
      qsum nb == 0 \/ (epsS < qsum nb /\ rtbss_clean m h' (vred (map (fun x => x / qsum nb) nb)))
  end.

Fixpoint rtbss_cleanb (m : pomdp) (h : nat) (b : vec) : bool :=
  match h with
  | O => true
  | S h' => forallb (fun a => forallb (fun o =>
      let nb := tau_step m b a o in
      Qeq_bool (qsum nb) 0 ||
      (negb (Qle_bool (qsum nb) epsS) && rtbss_cleanb m h' (vred (map (fun x => x / qsum nb) nb))))
      (seq 0 (nO m))) (seq 0 (nA (pm m)))
  end.

Lemma rtbss_cleanb_sound : forall m h b, rtbss_cleanb m h b = true -> rtbss_clean m h b.
Proof.
  intros m h; induction h as [|h IH]; intros b H; cbn [rtbss_cleanb rtbss_clean] in *; [exact I|].
  intros a o Ha Ho. cbv zeta. rewrite forallb_forall in H. specialize (H a ltac:(apply in_seq; lia)).
  rewrite forallb_forall in H. specialize (H o ltac:(apply in_seq; lia)). cbv zeta in H.
  apply orb_prop in H. destruct H as [H|H].
  - left. apply Qeq_bool_iff; exact H.
  - right. apply andb_prop in H. destruct H as [H1 H2]. split; [| apply IH; exact H2].
    destruct (Qle_bool (qsum (tau_step m b a o)) epsS) eqn:E; [discriminate|].
    destruct (Qlt_le_dec epsS (qsum (tau_step m b a o))) as [L|L]; [exact L|].
    apply Qle_bool_iff in L. congruence.
Qed.

Definition Qa (m : pomdp) (h' : nat) (b : vec) (a : nat) : Q :=
  rew_at m b a + gam (pm m) * qsum (map (fun o => EV m h' (tau_step m b a o)) (seq 0 (nO m))).

Section RTBSS.
  Variable m : pomdp.
  Hypothesis Hwf : wf_pomdp1 m.
  Let S := nS (pm m).
  Variable maxR : Q.
  Hypothesis HR : forall s a, (s < S)%nat -> (a < nA (pm m))%nat -> Rw m s a <= maxR.

  Definition normd (nb : vec) : vec := vred (map (fun x => x / qsum nb) nb).

  Lemma normd_facts : forall nb, nonneg nb -> length nb = S -> 0 < qsum nb ->
    nonneg (normd nb) /\ length (normd nb) = S /\ qsum (normd nb) == 1 /\ veq (vsc (qsum nb) (normd nb)) nb.
  Proof.
    intros nb Hn Hl Hs. unfold normd. set (c := qsum nb) in *.
    assert (V : veq (vred (map (fun x => x / c) nb)) (map (fun x => x / c) nb)) by apply vred_veq.
    split; [| split; [| split]].
    - unfold vred. apply Forall_forall. intros y Hy. apply in_map_iff in Hy. destruct Hy as [z [<- Hz]].
      apply in_map_iff in Hz. destruct Hz as [x [<- Hx]]. rewrite Qred_correct.
      unfold nonneg in Hn. rewrite Forall_forall in Hn. pose proof (Hn x Hx).
      apply Qle_shift_div_l; [exact Hs| lra].
    - rewrite vred_length, map_length. exact Hl.
    - rewrite (qsum_veq _ _ V).
      assert (E : forall l, qsum (map (fun x => x / c) l) == qsum l / c).
      { induction l as [|x l IH]; cbn [map qsum]; [unfold Qdiv; lra| rewrite IH; unfold Qdiv; ring]. }
      rewrite E. fold c. field. lra.
    - apply (veq_pointwise _ _ (length nb)); [rewrite vsc_length, vred_length, map_length; reflexivity| reflexivity|].
      intros i Hi. rewrite nthq_vsc. rewrite (nthq_veq _ _ i V). unfold nthq.
      rewrite (nth_indep _ 0 (0 / c)) by (rewrite map_length; exact Hi).
      rewrite (map_nth (fun x => x / c) nb 0 i). field. lra.
  Qed.

  Lemma ub_valid : forall h' b a, nonneg b -> length b = S -> qsum b == 1 -> (a < nA (pm m))%nat ->
    Qa m h' b a <= rew_at m b a + ub_future m maxR h' /\ 0 <= ub_future m maxR h'.
  Proof.
    intros h' b a Hb Hl Hs Ha. unfold Qa, ub_future.
    assert (Hg : 0 <= gam (pm m)) by (apply (Hg0 m Hwf)).
    pose proof (Rp_nonneg maxR) as HRp.
    assert (Hn : 0 <= inject_Z (Z.of_nat h')) by (change 0 with (inject_Z 0); rewrite <- Zle_Qle; lia).
    assert (Hfut : qsum (map (fun o => EV m h' (tau_step m b a o)) (seq 0 (nO m))) <= inject_Z (Z.of_nat h') * Qmax maxR 0).
    { assert (Hm : mass m b == 1) by (rewrite (mass_qsum m b Hl); exact Hs).
      apply Qle_trans with (inject_Z (Z.of_nat h') * Qmax maxR 0 * mass m b); [| rewrite Hm; lra].
      rewrite <- (mass_conservation m Hwf b a Ha). rewrite <- qsum_map_mul_l. apply qsum_map_le.
      intros o _. apply (EV_le_bound m Hwf maxR HR). apply (tau_step_nonneg m Hwf); assumption. }
    split; [nra|]. apply Qmult_le_0_compat; [apply Qmult_le_0_compat|]; assumption.
  Qed.

  Theorem rtbss_value_lemma : forall h b, nonneg b -> length b = S -> qsum b == 1 -> rtbss_clean m h b ->
    fst (rtbss_sim m maxR h b) == EV m h b /\
    ((0 < h)%nat -> (snd (rtbss_sim m maxR h b) < nA (pm m))%nat /\
                    Qa m (h - 1) b (snd (rtbss_sim m maxR h b)) == EV m h b).
  Proof.
    induction h as [|h' IH]; intros b Hb Hl Hs Hc.
    - cbn [rtbss_sim fst EV]. split; [reflexivity| intros; lia].
    - replace (Datatypes.S h' - 1)%nat with h' by lia.
      (* value of one observation branch *)
      set (branch := fun a o => let nb := tau_step m b a o in let sum := qsum nb in
                       if eqSmall sum 0 then 0 else gam (pm m) * sum * fst (rtbss_sim m maxR h' (vred (map (fun x => x / sum) nb)))).
      assert (Hbranch : forall a o, (a < nA (pm m))%nat -> (o < nO m)%nat ->
                 branch a o == gam (pm m) * EV m h' (tau_step m b a o)).
      { intros a o Ha Ho. unfold branch. cbv zeta.
        assert (Hn : nonneg (tau_step m b a o)) by (apply (tau_step_nonneg m Hwf); assumption).
        assert (Hln : length (tau_step m b a o) = S) by apply tau_step_length.
        cbn [rtbss_clean] in Hc. destruct (Hc a o Ha Ho) as [Hz|[Hbig Hc']].
        - rewrite (eqSmall_zero _ Hz). rewrite (EV_zero m h' _ (nonneg_sum_zero _ Hn Hz)). ring.
        - rewrite (eqSmall_big _ Hbig).
          assert (Hpos : 0 < qsum (tau_step m b a o)) by (unfold epsS in Hbig; eapply Qlt_trans; [| exact Hbig]; unfold Qlt; cbn; lia).
          destruct (normd_facts _ Hn Hln Hpos) as [N1 [N2 [N3 N4]]]. unfold normd in *.
          destruct (IH _ N1 N2 N3 Hc') as [Ev _]. rewrite Ev.
          rewrite <- (EV_ext m h' _ _ N4). rewrite EV_scale by lra. ring. }
      (* the fold over actions *)
      set (step := fun (st : option Q * nat) (a : nat) =>
        let '(mx, ba) := st in
        let rew0 := rew_at m b a in
        let ub := rew0 + ub_future m maxR h' in
        let expand := match mx with None => true | Some x => if Qlt_le_dec x ub then true else false end in
        let rew := if expand then Qred (rew0 + qsum (map (fun o => branch a o) (seq 0 (nO m)))) else rew0 in
        match mx with
        | None => (Some rew, a)
        | Some x => if Qlt_le_dec x rew then (Some rew, a) else (mx, ba)
        end).
      assert (Hexp : forall a, (a < nA (pm m))%nat ->
                Qred (rew_at m b a + qsum (map (fun o => branch a o) (seq 0 (nO m)))) == Qa m h' b a).
      { intros a Ha. rewrite Qred_correct. unfold Qa. apply Qplus_comp; [reflexivity|].
        rewrite <- qsum_map_mul_l. apply qsum_map_ext. intros o Ho. apply in_seq in Ho. apply Hbranch; [exact Ha| lia]. }
      (* invariant over a processed prefix *)
      assert (Hfold : forall l seen mx ba, (forall a, In a l -> (a < nA (pm m))%nat) ->
                (match mx with None => seen = [] | Some x => (forall a, In a seen -> Qa m h' b a <= x) /\ In ba seen /\ Qa m h' b ba == x end) ->
                let '(mx', ba') := fold_left step l (mx, ba) in
                match mx' with None => seen ++ l = [] | Some x => (forall a, In a (seen ++ l) -> Qa m h' b a <= x) /\ In ba' (seen ++ l) /\ Qa m h' b ba' == x end).
      { induction l as [|a l IHl]; intros seen mx ba Hin Hinv; cbn [fold_left].
        - rewrite app_nil_r. exact Hinv.
        - assert (Ha : (a < nA (pm m))%nat) by (apply Hin; left; reflexivity).
          destruct (ub_valid h' b a Hb Hl Hs Ha) as [Hub Hub0].
          replace (seen ++ a :: l) with ((seen ++ [a]) ++ l) by (rewrite <- app_assoc; reflexivity).
          assert (Hin' : forall a0, In a0 l -> (a0 < nA (pm m))%nat) by (intros; apply Hin; right; assumption).
          destruct mx as [x|].
          + destruct Hinv as [Hle [Hba Eba]]. unfold step at 2. cbv zeta.
            destruct (Qlt_le_dec x (rew_at m b a + ub_future m maxR h')) as [Hlt|Hge].
            * (* expanded *)
              destruct (Qlt_le_dec x (Qred (rew_at m b a + qsum (map (fun o => branch a o) (seq 0 (nO m)))))) as [Hup|Hno].
              -- apply IHl; [exact Hin'|]. rewrite (Hexp a Ha) in Hup. split; [| split].
                 ++ intros a0 H0. apply in_app_or in H0. destruct H0 as [H0|[<-|[]]]; [pose proof (Hle a0 H0); rewrite (Hexp a Ha); lra| rewrite (Hexp a Ha); lra].
                 ++ apply in_or_app; right; left; reflexivity.
                 ++ symmetry. apply Hexp; exact Ha.
              -- apply IHl; [exact Hin'|]. rewrite (Hexp a Ha) in Hno. split; [| split].
                 ++ intros a0 H0. apply in_app_or in H0. destruct H0 as [H0|[<-|[]]]; [apply Hle; exact H0| exact Hno].
                 ++ apply in_or_app; left; exact Hba.
                 ++ exact Eba.
            * (* pruned: the bound shows the action cannot beat the current maximum *)
              destruct (Qlt_le_dec x (rew_at m b a)) as [Hup|Hno]; [exfalso; lra|].
              apply IHl; [exact Hin'|]. split; [| split].
              -- intros a0 H0. apply in_app_or in H0. destruct H0 as [H0|[<-|[]]]; [apply Hle; exact H0| lra].
              -- apply in_or_app; left; exact Hba.
              -- exact Eba.
          + subst seen. unfold step at 2. cbv zeta. apply IHl; [exact Hin'|]. cbn [app]. split; [| split].
            * intros a0 [<-|[]]. rewrite (Hexp a Ha). lra.
            * left; reflexivity.
            * symmetry. apply Hexp; exact Ha. }
      specialize (Hfold (seq 0 (nA (pm m))) [] None 0%nat).
      assert (Hfold' := Hfold (fun a Ha => proj2 (proj1 (in_seq _ _ _) Ha)) eq_refl). clear Hfold.
      assert (Egoal : rtbss_sim m maxR (Datatypes.S h') b =
                (let '(mx, ba) := fold_left step (seq 0 (nA (pm m))) (None, 0%nat) in
                 (match mx with Some x => x | None => 0 end, ba))) by reflexivity.
      rewrite Egoal. clear Egoal.
      destruct (fold_left step (seq 0 (nA (pm m))) (None, 0%nat)) as [mx' ba']. cbn [app] in Hfold'.
      pose proof (HA m Hwf) as HAp.
      destruct mx' as [x|]; [| exfalso; destruct (nA (pm m)); [lia| discriminate]].
      destruct Hfold' as [Hle [Hba Eba]]. cbn [fst snd EV].
      assert (Ev : x == maxl (map (Qa m h' b) (seq 0 (nA (pm m))))).
      { symmetry. apply maxl_char; [destruct (nA (pm m)); [lia| cbn; discriminate]| |].
        - intros y Hy. apply in_map_iff in Hy. destruct Hy as [a [<- Ha]]. apply Hle; exact Ha.
        - exists (Qa m h' b ba'). split; [apply in_map; exact Hba| exact Eba]. }
      split; [exact Ev|]. intros _. split; [apply in_seq in Hba; lia| rewrite Eba; exact Ev].
  Qed.
End RTBSS.
