(* C02/ProofsCross.v — cross-sum: membership, well-formedness, envelope additivity. *)
From Coq Require Import List Arith QArith Qminmax Lqa Lia Bool Setoid.
From AIT Require Import Base.Qx Base.Mdp Base.MdpExec C02.Model C02.Spec C02.ProofsVec.
Import ListNotations.
Local Open Scope Q_scope.

Definition wfl (S : nat) (l : vlist) : Prop := Forall (fun e => length (vals e) = S) l.

Lemma vbest_unfold : forall l b, vbest l b = maxl (map (fun e => dot (vals e) b) l).
Proof. intros. unfold vbest, best, valsof. rewrite map_map. reflexivity. Qed.

Lemma vbest_ub : forall l b e, In e l -> dot (vals e) b <= vbest l b.
Proof. intros l b e H. rewrite vbest_unfold. apply maxl_ub. apply (in_map (fun e => dot (vals e) b)); exact H. Qed.

Lemma vbest_attained : forall l b, l <> [] -> exists e, In e l /\ vbest l b == dot (vals e) b.
Proof.
  intros l b Hne. rewrite vbest_unfold.
  destruct (maxl_attained (map (fun e => dot (vals e) b) l)) as [y [Hy E]]; [destruct l; [congruence|discriminate]|].
  apply in_map_iff in Hy. destruct Hy as [e [<- He]]. exists e; split; assumption.
Qed.

Lemma vbest_char : forall l b m, l <> [] -> (forall e, In e l -> dot (vals e) b <= m) ->
  (exists e, In e l /\ dot (vals e) b == m) -> vbest l b == m.
Proof.
  intros l b m Hne Hub [e [He E]]. rewrite vbest_unfold. apply maxl_char.
  - destruct l; [congruence|discriminate].
  - intros y Hy. apply in_map_iff in Hy. destruct Hy as [e' [<- He']]. apply Hub; exact He'.
  - exists (dot (vals e) b). split; [apply (in_map (fun e => dot (vals e) b)); exact He| exact E].
Qed.

Lemma in_crossSum : forall l1 l2 a ord e,
  In e (crossSum l1 l2 a ord) <-> exists e1 e2, In e1 l1 /\ In e2 l2 /\ e = cross_entry a ord e1 e2.
Proof.
  intros l1 l2 a ord e. unfold crossSum. split.
  - destruct l1 as [|x1 l1]; [intros []|]. destruct l2 as [|x2 l2]; [intros []|].
    intros H. apply in_flat_map in H. destruct H as [e1 [H1 H]]. apply in_map_iff in H. destruct H as [e2 [<- H2]].
    exists e1, e2; auto.
  - intros [e1 [e2 [H1 [H2 ->]]]].
    destruct l1 as [|x1 l1]; [destruct H1|]. destruct l2 as [|x2 l2]; [destruct H2|].
    apply in_flat_map. exists e1; split; [exact H1|]. apply in_map; exact H2.
Qed.

Lemma crossSum_nonempty : forall l1 l2 a ord, l1 <> [] -> l2 <> [] -> crossSum l1 l2 a ord <> [].
Proof.
  intros [|x1 l1] [|x2 l2] a ord H1 H2; try congruence. unfold crossSum. cbn [flat_map map]. discriminate.
Qed.

Lemma crossSum_wfl : forall S l1 l2 a ord, wfl S l1 -> wfl S l2 -> wfl S (crossSum l1 l2 a ord).
Proof.
  intros S l1 l2 a ord W1 W2. unfold wfl in *. apply Forall_forall. intros e He. apply in_crossSum in He.
  destruct He as [e1 [e2 [H1 [H2 ->]]]]. cbn [cross_entry vals].
  rewrite Forall_forall in W1, W2. rewrite vred_length, vadd_length; rewrite (W1 _ H1); [reflexivity| rewrite (W2 _ H2); reflexivity].
Qed.

Lemma dot_cross_entry : forall S a ord e1 e2 b, length (vals e1) = S -> length (vals e2) = S ->
  dot (vals (cross_entry a ord e1 e2)) b == dot (vals e1) b + dot (vals e2) b.
Proof. intros. cbn [cross_entry vals]. rewrite dot_vred_l. apply dot_vadd_l. congruence. Qed.

Theorem cross_envelope_lemma : forall S l1 l2 a ord b, l1 <> [] -> l2 <> [] -> wfl S l1 -> wfl S l2 ->
  vbest (crossSum l1 l2 a ord) b == vbest l1 b + vbest l2 b.
Proof.
  intros S l1 l2 a ord b N1 N2 W1 W2. unfold wfl in *. rewrite Forall_forall in W1, W2.
  apply vbest_char.
  - apply crossSum_nonempty; assumption.
  - intros e He. apply in_crossSum in He. destruct He as [e1 [e2 [H1 [H2 ->]]]].
    rewrite (dot_cross_entry S) by auto.
    pose proof (vbest_ub l1 b e1 H1). pose proof (vbest_ub l2 b e2 H2). lra.
  - destruct (vbest_attained l1 b N1) as [e1 [H1 E1]]. destruct (vbest_attained l2 b N2) as [e2 [H2 E2]].
    exists (cross_entry a ord e1 e2). split.
    + apply in_crossSum. exists e1, e2; auto.
    + rewrite (dot_cross_entry S) by auto. rewrite E1, E2. reflexivity.
Qed.
