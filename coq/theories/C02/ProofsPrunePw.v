(* C02/ProofsPrunePw.v — the executable pruning instance (pointwise dominance) satisfies the three
   hypotheses the solver theorems ask of a pruning function: so the theorems are not vacuous and
   they cover the model that the correspondence actually runs. *)
From Coq Require Import List Arith QArith Qminmax Lqa Lia Bool Setoid.
From AIT Require Import Base.Qx Base.Mdp Base.MdpExec C02.Model C02.Spec C02.ProofsVec C02.ProofsCross.
Import ListNotations.
Local Open Scope Q_scope.

Lemma vbest_equiv : forall l1 l2 b, l1 <> [] -> l2 <> [] ->
  (forall x, In x l1 -> exists y, In y l2 /\ dot (vals x) b <= dot (vals y) b) ->
  (forall y, In y l2 -> exists x, In x l1 /\ dot (vals y) b <= dot (vals x) b) ->
  vbest l1 b == vbest l2 b.
Proof.
  intros l1 l2 b N1 N2 H12 H21. apply Qle_antisym.
  - destruct (vbest_attained l1 b N1) as [x [Hx E]]. rewrite E. destruct (H12 x Hx) as [y [Hy L]].
    eapply Qle_trans; [exact L| apply vbest_ub; exact Hy].
  - destruct (vbest_attained l2 b N2) as [y [Hy E]]. rewrite E. destruct (H21 y Hy) as [x [Hx L]].
    eapply Qle_trans; [exact L| apply vbest_ub; exact Hx].
Qed.

Lemma pw_ge_dot : forall v w b, length v = length w -> nonneg b -> pw_ge v w = true -> dot w b <= dot v b.
Proof.
  induction v as [|x v IH]; intros [|y w] b Hl Hb Hp; cbn in Hl; try (exfalso; discriminate Hl).
  - cbn [dot]; lra.
  - unfold pw_ge in Hp. cbn [combine forallb fst snd] in Hp. apply andb_prop in Hp. destruct Hp as [Hxy Hp].
    apply Qle_bool_iff in Hxy. destruct b as [|z b]; cbn [dot]; [lra|].
    inversion Hb as [|? ? Hz Hb']; subst. specialize (IH w b ltac:(lia) Hb' Hp). nra.
Qed.

Lemma prune_pw_go_sub : forall l kept e, In e (prune_pw_go kept l) -> In e kept \/ In e l.
Proof.
  induction l as [|x l IH]; intros kept e H; cbn [prune_pw_go] in H; [left; exact H|].
  destruct (existsb (fun k => pw_ge (vals k) (vals x)) kept).
  - destruct (IH _ _ H); [left; assumption| right; right; assumption].
  - destruct (IH _ _ H) as [H1|H1]; [| right; right; exact H1].
    apply in_app_or in H1. destruct H1 as [H1|[<-|[]]]; [left; apply filter_In in H1; tauto| right; left; reflexivity].
Qed.

Lemma prune_pw_go_ne : forall l kept, kept <> [] \/ l <> [] -> prune_pw_go kept l <> [].
Proof.
  induction l as [|x l IH]; intros kept H; cbn [prune_pw_go]; [destruct H; congruence|].
  destruct (existsb (fun k => pw_ge (vals k) (vals x)) kept) eqn:E.
  - apply IH. left. intro; subst; discriminate.
  - apply IH. left. destruct (filter _ kept); discriminate.
Qed.

Lemma prune_pw_go_env : forall S b, nonneg b -> forall l kept, wfl S kept -> wfl S l -> kept ++ l <> [] ->
  vbest (prune_pw_go kept l) b == vbest (kept ++ l) b.
Proof.
  intros S b Hb. induction l as [|x l IH]; intros kept Wk Wl Hne; cbn [prune_pw_go].
  - rewrite app_nil_r. reflexivity.
  - pose proof (Forall_inv Wl) as Hx. pose proof (Forall_inv_tail Wl) as Wl'. cbn beta in Hx.
    destruct (existsb (fun k => pw_ge (vals k) (vals x)) kept) eqn:E.
    + apply existsb_exists in E. destruct E as [k [Hk Hge]].
      assert (Hkl : length (vals k) = length (vals x)) by (unfold wfl in Wk; rewrite Forall_forall in Wk; rewrite (Wk k Hk); congruence).
      rewrite IH; [| assumption | assumption | intro Hc; apply app_eq_nil in Hc; destruct Hc; subst; destruct Hk].
      apply vbest_equiv.
      * intro Hc; apply app_eq_nil in Hc; destruct Hc; subst; destruct Hk.
      * exact Hne.
      * intros y Hy. exists y. split; [| lra]. apply in_app_or in Hy. apply in_or_app. destruct Hy; [left|right; right]; assumption.
      * intros y Hy. apply in_app_or in Hy. destruct Hy as [Hy|[<-|Hy]].
        -- exists y; split; [apply in_or_app; left; exact Hy| lra].
        -- exists k; split; [apply in_or_app; left; exact Hk| apply pw_ge_dot; assumption].
        -- exists y; split; [apply in_or_app; right; exact Hy| lra].
    + set (kept' := filter (fun k => negb (pw_ge (vals x) (vals k))) kept ++ [x]).
      assert (Wk' : wfl S kept').
      { unfold kept', wfl. apply Forall_app. split; [| constructor; [exact Hx| constructor]].
        apply Forall_forall. intros k Hk. apply filter_In in Hk. unfold wfl in Wk. rewrite Forall_forall in Wk. apply Wk; tauto. }
      rewrite IH; [| exact Wk' | exact Wl' | unfold kept'; destruct (filter _ kept); discriminate].
      apply vbest_equiv.
      * unfold kept'; destruct (filter _ kept); discriminate.
      * exact Hne.
      * intros y Hy. exists y. split; [| lra]. apply in_app_or in Hy. destruct Hy as [Hy|Hy]; [| apply in_or_app; right; right; exact Hy].
        unfold kept' in Hy. apply in_app_or in Hy. destruct Hy as [Hy|[<-|[]]]; [apply in_or_app; left; apply filter_In in Hy; tauto| apply in_or_app; right; left; reflexivity].
      * intros y Hy. apply in_app_or in Hy. destruct Hy as [Hy|[<-|Hy]].
        -- destruct (pw_ge (vals x) (vals y)) eqn:Ed.
           ++ exists x. split; [apply in_or_app; left; unfold kept'; apply in_or_app; right; left; reflexivity|].
              apply pw_ge_dot; [| exact Hb| exact Ed]. unfold wfl in Wk. rewrite Forall_forall in Wk. rewrite (Wk y Hy). exact Hx.
           ++ exists y. split; [| lra]. apply in_or_app; left. unfold kept'. apply in_or_app; left. apply filter_In. split; [exact Hy| rewrite Ed; reflexivity].
        -- exists x. split; [| lra]. apply in_or_app; left. unfold kept'. apply in_or_app; right; left; reflexivity.
        -- exists y. split; [| lra]. apply in_or_app; right; exact Hy.
Qed.

Theorem prune_pw_sub : forall l e, In e (prune_pw l) -> In e l.
Proof. intros l e H. destruct (prune_pw_go_sub l [] e H) as [[]|H']; exact H'. Qed.

Theorem prune_pw_ne : forall l, l <> [] -> prune_pw l <> [].
Proof. intros l H. apply prune_pw_go_ne. right; exact H. Qed.

Theorem prune_pw_env : forall S l b, l <> [] -> wfl S l -> nonneg b -> length b = S ->
  vbest (prune_pw l) b == vbest l b.
Proof. intros S l b N W Hb _. unfold prune_pw. rewrite (prune_pw_go_env S b Hb l []); [reflexivity| constructor| exact W| exact N]. Qed.
