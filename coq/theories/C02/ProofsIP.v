(* C02/ProofsIP.v — Incremental Pruning computes the expectimax value (for any pruning function
   that returns a non-empty sub-list with the same upper envelope on the non-negative orthant). *)
From Coq Require Import List Arith ZArith QArith Qminmax Lqa Lia Bool Setoid.
From AIT Require Import Base.Qx Base.Mdp Base.MdpExec C02.Model C02.Spec C02.ProofsVec C02.ProofsCross
  C02.ProofsSched C02.ProofsProj.
Import ListNotations.
Local Open Scope Q_scope.

Lemma map_nth_seq_id : forall (A : Type) (l : list A) d, map (fun o => nth o l d) (seq 0 (length l)) = l.
Proof.
  intros A l d. induction l as [|x l IH]; [reflexivity|]. cbn [length seq map nth]. f_equal.
  rewrite <- seq_shift, map_map. exact IH.
Qed.

Lemma vbest_concat : forall ls b, ls <> [] -> Forall (fun l => l <> []) ls ->
  vbest (concat ls) b == maxl (map (fun l => vbest l b) ls).
Proof.
  intros ls b Hne Hall. rewrite Forall_forall in Hall.
  assert (Hn : map (fun l => vbest l b) ls <> []) by (destruct ls; [congruence|discriminate]).
  apply vbest_char.
  - destruct ls as [|l ls]; [congruence|]. cbn [concat]. pose proof (Hall l (or_introl eq_refl)).
    destruct l; [congruence| discriminate].
  - intros e He. apply in_concat in He. destruct He as [l [Hl He]].
    eapply Qle_trans; [apply (vbest_ub l b e He)|]. apply maxl_ub. apply (in_map (fun l => vbest l b)); exact Hl.
  - destruct (maxl_attained _ Hn) as [y [Hy E]]. apply in_map_iff in Hy. destruct Hy as [l [<- Hl]].
    destruct (vbest_attained l b (Hall l Hl)) as [e [He Ee]]. exists e. split.
    + apply in_concat. exists l; split; assumption.
    + rewrite E, Ee. reflexivity.
Qed.

Lemma wf_pomdp_weaken : forall m, wf_pomdp m -> wf_pomdp1 m.
Proof.
  intros m [[H1 [H2 [H3 [H4 H5]]]] H6]. split; [| exact H6].
  split; [exact H1|]. split; [exact H2|]. split; [exact H3|]. split; [lra| exact H5].
Qed.

Section IP.
  Variable prune : vlist -> vlist.
  Hypothesis prune_sub : forall l e, In e (prune l) -> In e l.
  Hypothesis prune_ne : forall l, l <> [] -> prune l <> [].
  Hypothesis prune_env : forall S l b, l <> [] -> wfl S l -> nonneg b -> length b = S ->
    vbest (prune l) b == vbest l b.

  Variable m : pomdp.
  Let S := nS (pm m).
  Hypothesis Hwf : wf_pomdp1 m.
  Hypothesis Hclean : obs_clean m.
  Hypothesis Hsched : ops_ok (nO m) = true.

  Lemma HO : (0 < nO m)%nat. Proof. destruct Hwf as [_ [H _]]; exact H. Qed.
  Lemma HA : (0 < nA (pm m))%nat. Proof. destruct Hwf as [[_ [H _]] _]; exact H. Qed.
  Lemma Hg0 : 0 <= gam (pm m). Proof. destruct Hwf as [[_ [_ [H _]]] _]; lra. Qed.

  Lemma Tp_nonneg : forall s a s1, (s < S)%nat -> (a < nA (pm m))%nat -> 0 <= Tp m s a s1.
  Proof.
    intros s a s1 Hs Ha. destruct Hwf as [[_ [_ [_ [_ [_ [_ [_ [H _]]]]]]]] _].
    destruct (H a s Ha Hs) as [_ [Hn _]]. unfold Tp. apply nonneg_nthq; exact Hn.
  Qed.

  Lemma Op_nonneg : forall s1 a o, (s1 < S)%nat -> (a < nA (pm m))%nat -> 0 <= Op m s1 a o.
  Proof.
    intros s1 a o Hs Ha. destruct Hwf as [_ [_ [_ [_ H]]]].
    destruct (H a s1 Ha Hs) as [_ [Hn _]]. unfold Op. apply nonneg_nthq; exact Hn.
  Qed.

  Lemma tau_step_nonneg : forall b a o, nonneg b -> (a < nA (pm m))%nat -> nonneg (tau_step m b a o).
  Proof.
    intros b a o Hb Ha. unfold tau_step. apply nonneg_map_seq. intros s1 Hs1.
    apply Qmult_le_0_compat; [apply Op_nonneg; assumption|].
    apply qsum_map_nonneg. intros s Hs. apply in_seq in Hs.
    apply Qmult_le_0_compat; [apply nonneg_nthq; exact Hb| apply Tp_nonneg; [lia| exact Ha]].
  Qed.

  Definition obs_lists (w : vlist) (a : nat) : list vlist :=
    map (fun o => prune (project m w a o)) (seq 0 (nO m)).
  Definition per_action (w : vlist) (a : nat) : vlist := merge_all prune a (obs_lists w a).

  Lemma obs_lists_good : forall w a, w <> [] ->
    Forall (fun L => L <> [] /\ wfl S L /\ Forall (fun e => act e = a) L) (obs_lists w a).
  Proof.
    intros w a Hne. unfold obs_lists. apply Forall_forall. intros L HL. apply in_map_iff in HL.
    destruct HL as [o [<- _]]. split; [apply prune_ne; apply project_nonempty; exact Hne|]. split.
    - unfold wfl. apply Forall_forall. intros e He. apply prune_sub in He.
      pose proof (project_wfl m w a o) as W. unfold wfl in W. rewrite Forall_forall in W. apply W; exact He.
    - apply Forall_forall. intros e He. apply prune_sub in He.
      pose proof (project_act m w a o) as W. rewrite Forall_forall in W. apply W; exact He.
  Qed.

  Lemma per_action_slot : forall w a b, w <> [] -> nonneg b -> length b = S ->
    slot_ok S a b (obs_lists w a) (Some (0%nat, nO m)) (per_action w a).
  Proof.
    intros w a b Hne Hb Hl.
    assert (Hlen : length (obs_lists w a) = nO m) by (unfold obs_lists; rewrite map_length, seq_length; reflexivity).
    pose proof (merge_all_ok prune S a b prune_sub prune_ne
                  (fun l N W => prune_env S l b N W Hb Hl) (obs_lists w a) (obs_lists_good w a Hne)) as H.
    rewrite Hlen in H. apply H. exact Hsched.
  Qed.

  Lemma sum_shares : forall (X : nat -> Q) r,
    qsum (map (fun o => r / Oq m + gam (pm m) * X o) (seq 0 (nO m))) ==
    r + gam (pm m) * qsum (map X (seq 0 (nO m))).
  Proof.
    intros X r. rewrite qsum_map_add, qsum_map_const, qsum_map_mul_l, seq_length.
    fold (Oq m). pose proof (Oq_pos m HO). field. lra.
  Qed.

  Lemma per_action_value : forall w a b n, w <> [] -> wfl S w -> nonneg b -> length b = S -> (a < nA (pm m))%nat ->
    (forall t, nonneg t -> length t = S -> vbest w t == EV m n t) ->
    vbest (per_action w a) b ==
      rew_at m b a + gam (pm m) * qsum (map (fun o => EV m n (tau_step m b a o)) (seq 0 (nO m))).
  Proof.
    intros w a b n Hne Hw Hb Hl Ha IH.
    destruct (per_action_slot w a b Hne Hb Hl) as [_ [_ [_ [V _]]]]. rewrite V.
    unfold env_sum, slice. rewrite Nat.sub_0_r.
    assert (Hlen : length (obs_lists w a) = nO m) by (unfold obs_lists; rewrite map_length, seq_length; reflexivity).
    pose proof (map_nth_seq_id _ (obs_lists w a) []) as E. rewrite Hlen in E. rewrite E. clear E.
    unfold obs_lists. rewrite map_map.
    rewrite <- (sum_shares (fun o => EV m n (tau_step m b a o)) (rew_at m b a)). apply qsum_map_ext. intros o Ho. apply in_seq in Ho.
    rewrite prune_env; [| apply project_nonempty; exact Hne | apply project_wfl | exact Hb | exact Hl].
    rewrite (vbest_project m HO Hg0 Hclean) by (try assumption; lia).
    rewrite IH; [reflexivity| apply tau_step_nonneg; assumption| apply tau_step_length].
  Qed.

  Theorem ip_step_value : forall w n, w <> [] -> wfl S w ->
    (forall t, nonneg t -> length t = S -> vbest w t == EV m n t) ->
    ip_step prune m w <> [] /\ wfl S (ip_step prune m w) /\
    (forall b, nonneg b -> length b = S -> vbest (ip_step prune m w) b == EV m (Datatypes.S n) b).
  Proof.
    intros w n Hne Hw IH.
    set (pers := map (fun a => merge_all prune a (obs_lists w a)) (seq 0 (nA (pm m)))).
    assert (Eg : ip_step prune m w = prune (concat pers)) by reflexivity. rewrite Eg. clear Eg.
    assert (Hpers_ne : pers <> []).
    { unfold pers. pose proof HA. destruct (nA (pm m)); [lia| cbn; discriminate]. }
    assert (Hall : Forall (fun l => l <> [] /\ wfl S l) pers).
    { unfold pers. apply Forall_forall. intros l Hl. apply in_map_iff in Hl. destruct Hl as [a [<- Ha]].
      (* slot_ok needs some b; use the zero vector *)
      destruct (per_action_slot w a (vzero S) Hne) as [_ [N [W _]]].
      - unfold vzero. apply Forall_forall. intros x Hx. apply repeat_spec in Hx. subst; lra.
      - unfold vzero. apply repeat_length.
      - split; assumption. }
    assert (Hcat_ne : concat pers <> []).
    { destruct pers as [|l ps]; [congruence|]. inversion Hall as [|? ? [N _] _]; subst. cbn [concat]. destruct l; [congruence|discriminate]. }
    assert (Hcat_wf : wfl S (concat pers)).
    { unfold wfl. apply Forall_forall. intros e He. apply in_concat in He. destruct He as [l [Hl He]].
      rewrite Forall_forall in Hall. destruct (Hall l Hl) as [_ W]. unfold wfl in W. rewrite Forall_forall in W. apply W; exact He. }
    split; [apply prune_ne; exact Hcat_ne|]. split.
    - unfold wfl. apply Forall_forall. intros e He. apply prune_sub in He. unfold wfl in Hcat_wf. rewrite Forall_forall in Hcat_wf. apply Hcat_wf; exact He.
    - intros b Hb Hl. rewrite (prune_env S (concat pers) b Hcat_ne Hcat_wf Hb Hl).
      rewrite vbest_concat; [| exact Hpers_ne | eapply Forall_impl; [| exact Hall]; intros l [N _]; exact N].
      unfold pers. rewrite map_map. cbn [EV]. apply maxl_map_ext'. intros a Ha. apply in_seq in Ha.
      apply (per_action_value w a b n); try assumption. lia.
  Qed.

  Theorem ip_run_value : forall h,
    let w := last (ip_run prune m h) [] in
    w <> [] /\ wfl S w /\ (forall b, nonneg b -> length b = S -> vbest w b == EV m h b).
  Proof.
    induction h as [|h IH]; cbn [ip_run].
    - cbn [vf_init last]. split; [discriminate|]. split.
      + constructor; [cbn [vals]; apply repeat_length| constructor].
      + intros b Hb Hl. unfold vbest, best, valsof. cbn [map maxl qmax_from vals EV]. unfold vzero. rewrite dot_comm. apply dot_repeat0_r.
    - cbv zeta in IH. destruct IH as [N [W V]]. rewrite last_last. cbv zeta.
      apply (ip_step_value _ h N W V).
  Qed.
End IP.
