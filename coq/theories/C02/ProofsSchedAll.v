(* C02/ProofsSchedAll.v — the merge schedule of IncrementalPruning::operator() is sound for EVERY
   number of observation lists: [ops_ok n = true] for all n >= 1.
   Idea: describe the live slots in TRAVEL order of the current pass (front, front+diff, …); a pass
   merges adjacent pairs, the next pass travels the survivors in the opposite direction. *)
From Coq Require Import List Arith ZArith Lia Bool.
From AIT Require Import C02.Model C02.Spec.
From Coq Require Import ZifyBool ZifyNat.
Import ListNotations.
Local Open Scope Z_scope.
Ltac Zify.zify_post_hook ::= Z.div_mod_to_equations.

Notation ivl := (nat * nat)%type (only parsing).
Definition mrg (fwd : bool) (x y : ivl) : ivl := if fwd then (fst x, snd y) else (fst y, snd x).
Definition contig (fwd : bool) (x y : ivl) : Prop := if fwd then snd x = fst y else snd y = fst x.

Fixpoint chain (fwd : bool) (E : list ivl) : Prop :=
  match E with
  | x :: ((y :: _) as t) => contig fwd x y /\ chain fwd t
  | _ => True
  end.

Fixpoint pairmerge (fwd : bool) (E : list ivl) : list ivl :=
  match E with
  | x :: y :: r => mrg fwd x y :: pairmerge fwd r
  | l => l
  end.

(* overall interval covered, read in travel order *)
Definition span (fwd : bool) (E : list ivl) : ivl :=
  if fwd then (fst (hd (0,0)%nat E), snd (last E (0,0)%nat)) else (fst (last E (0,0)%nat), snd (hd (0,0)%nat E)).

Lemma last_cons2 : forall (x : ivl) l d, l <> [] -> last (x :: l) d = last l d.
Proof. intros x [|y l] d H; [congruence| reflexivity]. Qed.

Lemma pairmerge_length : forall fwd E, length (pairmerge fwd E) = (length E - length E / 2)%nat.
Proof.
  intros fwd E. remember (length E) as n eqn:Hn. revert E Hn.
  induction n as [n IH] using lt_wf_ind. intros E Hn.
  destruct E as [|x [|y r]]; cbn [pairmerge length] in *; subst; try reflexivity.
  rewrite (IH (length r) ltac:(lia) r eq_refl).
  replace (S (S (length r))) with (length r + 1 * 2)%nat by lia. rewrite Nat.div_add by lia. lia.
Qed.

Lemma pairmerge_hd : forall (fwd : bool) (E : list ivl), E <> [] ->
  (if fwd then fst (hd (0,0)%nat (pairmerge fwd E)) = fst (hd (0,0)%nat E)
   else snd (hd (0,0)%nat (pairmerge fwd E)) = snd (hd (0,0)%nat E)).
Proof. intros fwd [|x [|y r]] H; try congruence; destruct fwd; reflexivity. Qed.

Lemma pairmerge_chain_last : forall (fwd : bool) (E : list ivl), chain fwd E ->
  chain fwd (pairmerge fwd E) /\
  (E <> [] -> if fwd then snd (last (pairmerge fwd E) (0,0)%nat) = snd (last E (0,0)%nat)
              else fst (last (pairmerge fwd E) (0,0)%nat) = fst (last E (0,0)%nat)) /\
  (* the head of the merged list still chains with what followed *)
  True.
Proof.
  intros fwd E. remember (length E) as n eqn:Hn. revert E Hn.
  induction n as [n IH] using lt_wf_ind. intros E Hn Hc.
  destruct E as [|x [|y r]]; cbn [pairmerge]; [split; [exact I| split; [congruence| exact I]] | split; [exact I| split; [destruct fwd; reflexivity| exact I]] |].
  cbn [chain] in Hc. destruct Hc as [Hxy Hc].
  assert (Hcr : chain fwd r) by (destruct r as [|z r']; [exact I| destruct Hc; assumption]).
  destruct (IH (length r) ltac:(subst; cbn; lia) r eq_refl Hcr) as [C [L _]].
  split; [| split; [| exact I]].
  - destruct r as [|z [|u r']]; cbn [pairmerge chain] in *; try exact I.
    + split; [| exact I]. destruct Hc as [Hyz _]. destruct fwd; cbn [contig mrg fst snd] in *; congruence.
    + split; [| exact C]. destruct Hc as [Hyz _]. destruct fwd; cbn [contig mrg fst snd] in *; congruence.
  - intros _. destruct r as [|z r'].
    + cbn [pairmerge last]. destruct fwd; reflexivity.
    + specialize (L ltac:(discriminate)).
      assert (Hpm : pairmerge fwd (z :: r') <> []) by (destruct r'; discriminate).
      rewrite (last_cons2 (mrg fwd x y) _ (0,0)%nat Hpm).
      rewrite (last_cons2 x (y :: z :: r') (0,0)%nat ltac:(discriminate)).
      rewrite (last_cons2 y (z :: r') (0,0)%nat ltac:(discriminate)). exact L.
Qed.

Lemma chain_rev : forall fwd E, chain fwd E -> chain (negb fwd) (rev E).
Proof.
  intros fwd E. induction E as [|x E IH]; intros Hc; [exact I|].
  assert (Hc' : chain fwd E) by (destruct E; [exact I| destruct Hc; assumption]).
  specialize (IH Hc'). cbn [rev].
  destruct E as [|y E']; [exact I|]. destruct Hc as [Hxy _].
  (* rev (y :: E') ++ [x] : last element of rev (y::E') is y *)
  assert (G : forall L z w, chain (negb fwd) (L ++ [z]) -> contig (negb fwd) z w -> chain (negb fwd) ((L ++ [z]) ++ [w])).
  { induction L as [|a L IHL]; intros z w HL Hzw; cbn [app chain] in *; [split; [exact Hzw| exact I]|].
    destruct (L ++ [z]) as [|b L'] eqn:EL; [destruct L; discriminate|]. cbn [app]. destruct HL as [Hab HL].
    split; [exact Hab|]. specialize (IHL z w). rewrite EL in IHL. apply IHL; assumption. }
  cbn [rev]. apply G; [exact IH|]. destruct fwd; cbn [contig negb] in *; congruence.
Qed.

Lemma span_rev : forall fwd E, E <> [] -> span (negb fwd) (rev E) = span fwd E.
Proof.
  intros fwd E Hne. unfold span.
  assert (H1 : hd (0,0)%nat (rev E) = last E (0,0)%nat).
  { induction E as [|x E IH]; [congruence|]. cbn [rev]. destruct E as [|y E']; [reflexivity|].
    specialize (IH ltac:(discriminate)). change (last (x :: y :: E') (0,0)%nat) with (last (y :: E') (0,0)%nat). rewrite <- IH.
    destruct (rev (y :: E')) eqn:Er; [apply (f_equal (@length _)) in Er; rewrite rev_length in Er; discriminate| reflexivity]. }
  assert (H2 : last (rev E) (0,0)%nat = hd (0,0)%nat E).
  { destruct E as [|x E]; [congruence|]. cbn [rev hd]. apply last_last. }
  rewrite H1, H2. destruct fwd; reflexivity.
Qed.

Lemma pairmerge_span : forall fwd E, E <> [] -> chain fwd E -> span fwd (pairmerge fwd E) = span fwd E.
Proof.
  intros fwd E Hne Hc. unfold span. pose proof (pairmerge_hd fwd E Hne) as Hh.
  destruct (pairmerge_chain_last fwd E Hc) as [_ [Hl _]]. specialize (Hl Hne).
  destruct fwd; congruence.
Qed.

(* ------------------------------------------------------------------ the integer machine *)
Lemma nth_set_nth_eq : forall (A : Type) i (x : A) l d, (i < length l)%nat -> nth i (set_nth i x l) d = x.
Proof. intros A i; induction i as [|i IH]; intros x [|y l] d H; cbn in *; try lia; [reflexivity| apply IH; lia]. Qed.

Lemma nth_set_nth_neq : forall (A : Type) i j (x : A) l d, i <> j -> nth j (set_nth i x l) d = nth j l d.
Proof.
  intros A i; induction i as [|i IH]; intros j x [|y l] d H; cbn [set_nth]; try reflexivity.
  - destruct j; [congruence| reflexivity].
  - destruct j; [reflexivity| cbn [nth]; apply IH; congruence].
Qed.

Lemma set_nth_length' : forall (A : Type) i (x : A) l, length (set_nth i x l) = length l.
Proof. intros A i; induction i as [|i IH]; intros x [|y l]; cbn; auto. Qed.

Lemma sym_run_app : forall a b s, sym_run (a ++ b) s = match sym_run a s with Some s' => sym_run b s' | None => None end.
Proof.
  induction a as [|op a IH]; intros b s; cbn [app sym_run]; [reflexivity|].
  destruct (sym_op s op); [apply IH| reflexivity].
Qed.

Lemma odd_nat_Z : forall n, Z.odd (Z.of_nat n) = Nat.odd n.
Proof.
  assert (H : forall n, Z.odd (Z.of_nat n) = Nat.odd n /\ Z.odd (Z.of_nat (S n)) = Nat.odd (S n)).
  { induction n as [|n [IH1 IH2]]; [split; reflexivity|]. split; [exact IH2|].
    rewrite !Nat2Z.inj_succ, Z.odd_succ_succ. rewrite Nat.odd_succ_succ. exact IH1. }
  intros n; apply H.
Qed.

Definition pos (front diff : Z) (k : nat) : Z := front + Z.of_nat k * diff.

(* sl holds, at the positions visited in travel order, the intervals E *)
Definition repr (n0 : nat) (sl : list sym) (front diff : Z) (E : list ivl) : Prop :=
  length sl = n0 /\
  forall k, (k < length E)%nat ->
    0 <= pos front diff k < Z.of_nat n0 /\ nth (Z.to_nat (pos front diff k)) sl None = Some (nth k E (0,0)%nat).

Section Inner.
  Variable n0 : nat.

  Lemma inner_ok : forall E sl front diff acc elems fuel,
    diff <> 0 -> chain (0 <? 2 * diff) E -> repr n0 sl front diff E -> (length E / 2 <= fuel)%nat ->
    exists ops sl',
      sched_inner fuel front (front + Z.of_nat (length E / 2) * (2 * diff)) (2 * diff) diff acc elems
        = Some (acc ++ ops, elems - Z.of_nat (length E / 2)) /\
      sym_run ops sl = Some sl' /\ length sl' = n0 /\
      (forall j, (j < length (pairmerge (0 <? 2 * diff)%Z E))%nat ->
         nth (Z.to_nat (pos front diff (2 * j)%nat)) sl' None = Some (nth j (pairmerge (0 <? 2 * diff) E) (0,0)%nat)) /\
      (forall p, (forall k, (k < length E)%nat -> p <> Z.to_nat (pos front diff k)) -> nth p sl' None = nth p sl None).
  Proof.
    intros E. remember (length E) as n eqn:Hn. revert E Hn.
    induction n as [n IH] using lt_wf_ind. intros E Hn sl front diff acc elems fuel Hd Hc [Hlen Hr] Hf.
    destruct E as [|x [|y r]].
    - (* no entry *) subst n. cbn [length] in *. change (0 / 2)%nat with 0%nat. cbn [Z.of_nat]. rewrite Z.mul_0_l, Z.add_0_r, Z.sub_0_r.
      exists [], sl. destruct fuel; cbn [sched_inner]; rewrite Z.eqb_refl, app_nil_r;
        (split; [reflexivity| split; [reflexivity| split; [exact Hlen| split; [intros j Hj; cbn in Hj; lia| reflexivity]]]]).
    - (* a single entry: nothing to merge *) subst n. cbn [length] in *. change (1 / 2)%nat with 0%nat. cbn [Z.of_nat]. rewrite Z.mul_0_l, Z.add_0_r, Z.sub_0_r.
      exists [], sl. destruct fuel; cbn [sched_inner]; rewrite Z.eqb_refl, app_nil_r;
        (split; [reflexivity| split; [reflexivity| split; [exact Hlen| split; [| reflexivity]]]]);
        (intros j Hj; cbn [pairmerge length] in Hj; assert (j = 0)%nat by lia; subst j; destruct (Hr 0%nat ltac:(cbn; lia)) as [_ H0]; exact H0).
    - (* a pair and the rest *)
      assert (Hpairs : (length (x :: y :: r) / 2 = S (length r / 2))%nat).
      { cbn [length]. replace (S (S (length r))) with (length r + 1 * 2)%nat by lia. rewrite Nat.div_add by lia. lia. }
      subst n. rewrite Hpairs in *. destruct fuel as [|fuel]; [lia|].
      destruct (Hr 0%nat ltac:(cbn; lia)) as [R0 N0]. destruct (Hr 1%nat ltac:(cbn; lia)) as [R1 N1].
      unfold pos in R0, N0, R1, N1. cbn [Z.of_nat nth] in R0, N0, R1, N1.
      rewrite Z.mul_0_l, Z.add_0_r in R0, N0. change (Z.pos (Pos.of_succ_nat 0)) with 1 in R1, N1. rewrite Z.mul_1_l in R1, N1.
      cbn [chain] in Hc. destruct Hc as [Hxy Hc].
      assert (Hcr : chain (0 <? 2 * diff) r) by (destruct r; [exact I| destruct Hc; assumption]).
      (* first iteration *)
      cbn [sched_inner].
      assert (Eb : (front =? front + Z.of_nat (S (length r / 2)) * (2 * diff)) = false) by (apply Z.eqb_neq; nia).
      rewrite Eb.
      assert (Eg : ((front <? 0) || (front + diff <? 0))%bool = false) by (apply orb_false_iff; split; apply Z.ltb_ge; lia).
      rewrite Eg.
      set (i := Z.to_nat front). set (j := Z.to_nat (front + diff)).
      assert (Hij : i <> j) by (unfold i, j; intro Hc'; apply Z2Nat.inj in Hc'; lia).
      set (op := (i, j, 0 <? 2 * diff)).
      set (sl1 := set_nth j None (set_nth i (Some (mrg (0 <? 2 * diff) x y)) sl)).
      assert (Hop : sym_op sl op = Some sl1).
      { unfold sym_op, op. fold i in N0. fold j in N1. rewrite N0, N1.
        assert (Ei : (negb (i =? j)%nat && (i <? length sl)%nat && (j <? length sl)%nat)%bool = true).
        { apply andb_true_iff; split; [apply andb_true_iff; split|].
          - apply negb_true_iff. apply Nat.eqb_neq. exact Hij.
          - apply Nat.ltb_lt. unfold i. rewrite Hlen. lia.
          - apply Nat.ltb_lt. unfold j. rewrite Hlen. lia. }
        rewrite Ei. destruct x as [lx hx], y as [ly hy]. unfold sl1, mrg. cbn [fst snd].
        destruct (0 <? 2 * diff) eqn:Ef; cbn [contig fst snd] in Hxy; subst; rewrite Nat.eqb_refl; reflexivity. }
      assert (Hlen1 : length sl1 = n0) by (unfold sl1; rewrite !set_nth_length'; exact Hlen).
      (* the rest *)
      assert (Hr1 : repr n0 sl1 (front + 2 * diff) diff r).
      { split; [exact Hlen1|]. intros k Hk. destruct (Hr (S (S k)) ltac:(cbn; lia)) as [Rk Nk].
        assert (Ep : pos (front + 2 * diff) diff k = pos front diff (S (S k))) by (unfold pos; lia).
        rewrite Ep. split; [exact Rk|]. cbn [nth] in Nk. rewrite <- Nk. unfold sl1.
        rewrite nth_set_nth_neq, nth_set_nth_neq; [reflexivity| |]; unfold i, j, pos in *; intro Hc'; apply Z2Nat.inj in Hc'; nia. }
      destruct (IH (length r) ltac:(cbn; lia) r eq_refl sl1 (front + 2 * diff) diff (acc ++ [op]) (elems - 1) fuel Hd Hcr Hr1 ltac:(lia))
        as [ops [sl' [Hs [Hrun [Hl' [Hsurv Hframe]]]]]].
      exists (op :: ops), sl'. split; [| split; [| split; [| split]]].
      + assert (Eback : front + 2 * diff + Z.of_nat (length r / 2) * (2 * diff) = front + Z.of_nat (S (length r / 2)) * (2 * diff)) by lia.
        rewrite Eback in Hs. fold i j op. rewrite Hs. rewrite <- app_assoc. cbn [app]. f_equal. f_equal. lia.
      + cbn [sym_run]. rewrite Hop. exact Hrun.
      + exact Hl'.
      + intros [|jj] Hj; cbn [pairmerge nth length] in *.
        * rewrite Nat.mul_0_r. unfold pos. cbn [Z.of_nat]. rewrite Z.mul_0_l, Z.add_0_r. fold i.
          rewrite Hframe.
          -- unfold sl1. rewrite nth_set_nth_neq by congruence. apply nth_set_nth_eq. unfold i. eapply Nat.lt_le_trans; [| apply Nat.eq_le_incl; symmetry; exact Hlen]. lia.
          -- intros k Hk. destruct (Hr (S (S k)) ltac:(cbn; lia)) as [Rk _]. unfold i, pos in *. intro Hc'. apply Z2Nat.inj in Hc'; nia.
        * assert (Ep : pos front diff (2 * S jj)%nat = pos (front + 2 * diff) diff (2 * jj)%nat) by (unfold pos; lia).
          rewrite Ep. apply Hsurv. lia.
      + intros p Hp. rewrite Hframe.
        * unfold sl1. rewrite nth_set_nth_neq, nth_set_nth_neq; [reflexivity| |].
          -- specialize (Hp 0%nat ltac:(cbn; lia)). unfold pos in Hp. cbn [Z.of_nat] in Hp. rewrite Z.mul_0_l, Z.add_0_r in Hp. fold i in Hp. congruence.
          -- specialize (Hp 1%nat ltac:(cbn; lia)). unfold pos in Hp. change (Z.of_nat 1) with 1 in Hp. rewrite Z.mul_1_l in Hp. fold j in Hp. congruence.
        * intros k Hk. specialize (Hp (S (S k)) ltac:(cbn; lia)).
          assert (Ep : pos (front + 2 * diff) diff k = pos front diff (S (S k))) by (unfold pos; lia). rewrite Ep. exact Hp.
  Qed.
End Inner.

Section Outer.
  Variable n0 : nat.

  Lemma rev_nth' : forall (l : list ivl) k d, (k < length l)%nat -> nth k (rev l) d = nth (length l - 1 - k) l d.
  Proof. intros l k d H. rewrite rev_nth by exact H. f_equal. lia. Qed.

  Lemma outer_ok : forall E sl front diff acc fuel,
    E <> [] -> diff <> 0 -> chain (0 <? 2 * diff) E -> span (0 <? 2 * diff) E = (0%nat, n0) ->
    repr n0 sl front diff E -> (length E <= n0)%nat -> (length E <= fuel)%nat ->
    exists ops ff sl',
      sched_outer fuel n0 front (front + Z.of_nat (length E / 2) * (2 * diff)) (2 * diff) diff
                  (Z.of_nat (length E)) (Z.odd (Z.of_nat (length E))) acc = Some (acc ++ ops, ff) /\
      sym_run ops sl = Some sl' /\ 0 <= ff /\ nth (Z.to_nat ff) sl' None = Some (0%nat, n0).
  Proof.
    intros E. remember (length E) as n eqn:Hn. revert E Hn.
    induction n as [n IH] using lt_wf_ind. intros E Hn sl front diff acc fuel Hne Hd Hc Hsp Hr Hle Hfu.
    destruct fuel as [|fuel]; [destruct E; [congruence| cbn in Hn; lia]|].
    cbn [sched_outer].
    destruct (Z.of_nat n <=? 1) eqn:E1.
    - (* a single live list: it must cover everything *)
      apply Z.leb_le in E1. assert (Hn1 : length E = 1%nat) by (destruct E; [congruence| cbn [length] in *; lia]).
      destruct E as [|x [|y r]]; cbn in Hn1; try lia.
      exists [], front, sl. rewrite app_nil_r. split; [reflexivity|]. split; [reflexivity|].
      destruct Hr as [_ Hr]. destruct (Hr 0%nat ltac:(cbn; lia)) as [R0 N0]. unfold pos in *. cbn [Z.of_nat nth] in *. rewrite Z.mul_0_l, Z.add_0_r in *.
      split; [lia|]. rewrite N0. f_equal. unfold span in Hsp. cbn [hd last] in Hsp.
      destruct x as [a b]. destruct (0 <? 2 * diff); cbn [fst snd] in Hsp; exact Hsp.
    - apply Z.leb_gt in E1.
      destruct (inner_ok n0 E sl front diff acc (Z.of_nat n) n0 Hd Hc Hr ltac:(subst n; pose proof (Nat.div_le_upper_bound (length E) 2 (length E)); lia))
        as [ops1 [sl1 [Hs [Hrun [Hl1 [Hsurv _]]]]]].
      rewrite <- Hn in Hs. rewrite Hs.
      set (fwd := 0 <? 2 * diff) in *.
      set (n' := (n - n / 2)%nat).
      assert (Hn' : length (pairmerge fwd E) = n') by (rewrite pairmerge_length, <- Hn; reflexivity).
      set (E' := rev (pairmerge fwd E)).
      set (front' := front + Z.of_nat (n / 2) * (2 * diff) - (if Z.odd (Z.of_nat n) then 0 else 2 * diff)).
      assert (Hpar : Z.of_nat n mod 2 = if Z.odd (Z.of_nat n) then 1 else 0) by apply Zmod_odd.
      assert (Hfront' : front' = front + 2 * Z.of_nat (n' - 1) * diff).
      { unfold front', n'. destruct (Z.odd (Z.of_nat n)); nia. }
      assert (Hn'pos : (1 <= n')%nat) by (unfold n'; lia).
      assert (Hn'lt : (n' < n)%nat) by (unfold n'; lia).
      assert (Hpm_ne : pairmerge fwd E <> []) by (intro Hc'; rewrite Hc' in Hn'; cbn in Hn'; lia).
      assert (Hlen' : length E' = n') by (unfold E'; rewrite rev_length; exact Hn').
      destruct (pairmerge_chain_last fwd E Hc) as [Hcp _].
      assert (Hfw' : (0 <? 2 * (diff * -2)) = negb fwd) by (unfold fwd; destruct (0 <? 2 * diff) eqn:Ef; [apply Z.ltb_lt in Ef; apply Z.ltb_ge; lia| apply Z.ltb_ge in Ef; apply Z.ltb_lt; lia]).
      assert (Hr' : repr n0 sl1 front' (diff * -2) E').
      { split; [exact Hl1|]. intros k Hk. rewrite Hlen' in Hk.
        assert (Ep : pos front' (diff * -2) k = pos front diff (2 * (n' - 1 - k))%nat) by (unfold pos; rewrite Hfront'; nia).
        rewrite Ep. destruct Hr as [_ Hr]. destruct (Hr (2 * (n' - 1 - k))%nat ltac:(rewrite <- Hn; unfold n' in *; lia)) as [Rk _].
        split; [exact Rk|]. rewrite (Hsurv (n' - 1 - k)%nat) by (rewrite Hn'; lia).
        unfold E'. rewrite rev_nth' by (rewrite Hn'; exact Hk). rewrite Hn'. reflexivity. }
      assert (Eel : Z.of_nat n - Z.of_nat (n / 2) = Z.of_nat n') by (unfold n'; lia).
      rewrite Eel.
      assert (Hpar' : Z.of_nat n' mod 2 = if Z.odd (Z.of_nat n') then 1 else 0) by apply Zmod_odd.
      assert (Eback : front - (if Z.odd (Z.of_nat n') then 0 else 2 * diff) = front' + Z.of_nat (n' / 2) * (2 * (diff * -2))).
      { rewrite Hfront'. destruct (Z.odd (Z.of_nat n')); nia. }
      assert (Estep : 2 * diff * -2 = 2 * (diff * -2)) by lia.
      rewrite Estep. fold front'. rewrite Eback.
      destruct (IH n' Hn'lt E' (eq_sym Hlen') sl1 front' (diff * -2) (acc ++ ops1) fuel) as [ops2 [ff [sl2 [Hs2 [Hrun2 [Hff Hfin]]]]]].
      + intro Hc'. unfold E' in Hc'. apply (f_equal (@length _)) in Hc'. rewrite rev_length, Hn' in Hc'. cbn in Hc'. lia.
      + lia.
      + rewrite Hfw'. unfold E'. apply chain_rev. exact Hcp.
      + rewrite Hfw'. unfold E'. rewrite span_rev by exact Hpm_ne. rewrite pairmerge_span by assumption. exact Hsp.
      + exact Hr'.
      + lia.
      + lia.
      + exists (ops1 ++ ops2), ff, sl2. rewrite Hs2. split; [rewrite app_assoc; reflexivity|].
        split; [rewrite sym_run_app, Hrun; exact Hrun2| split; assumption].
  Qed.
End Outer.

(* the initial state: all n lists live at positions 0..n-1, travelling forward with stride 1 *)
Lemma init_repr : forall n, repr n (sym_init n) 0 1 (map (fun k => (k, S k)) (seq 0 n)).
Proof.
  intros n. unfold repr, sym_init. split; [rewrite map_length, seq_length; reflexivity|].
  intros k Hk. rewrite map_length, seq_length in Hk. unfold pos. rewrite Z.mul_1_r, Z.add_0_l, Nat2Z.id.
  split; [lia|].
  rewrite (nth_indep _ None (Some (0%nat, 1%nat))) by (rewrite map_length, seq_length; exact Hk).
  rewrite (map_nth (fun k => Some (k, S k)) (seq 0 n) 0%nat k).
  rewrite (nth_indep _ (0%nat,0%nat) ((fun k => (k, S k)) 0%nat)) by (rewrite map_length, seq_length; exact Hk).
  rewrite (map_nth (fun k => (k, S k)) (seq 0 n) 0%nat k). rewrite seq_nth by exact Hk. reflexivity.
Qed.

Lemma init_chain : forall n k, chain true (map (fun k => (k, S k)) (seq k n)).
Proof.
  induction n as [|n IH]; intros k; cbn [seq map chain]; [exact I|].
  destruct n as [|n]; [exact I|]. specialize (IH (S k)). cbn [seq map] in *. split; [reflexivity| exact IH].
Qed.

Theorem ops_ok_all : forall n, (1 <= n)%nat -> ops_ok n = true.
Proof.
  intros n Hn. unfold ops_ok, schedule.
  set (E := map (fun k => (k, S k)) (seq 0 n)).
  assert (HlenE : length E = n) by (unfold E; rewrite map_length, seq_length; reflexivity).
  assert (Hsp : span true E = (0%nat, n)).
  { unfold span, E. destruct n as [|n]; [lia|].
    assert (Hl : @last ivl (map (fun k => (k, S k)) (seq 0 (S n))) (0%nat, 0%nat) = (n, S n)).
    { rewrite seq_S, map_app. cbn [map Nat.add]. apply last_last. }
    rewrite Hl. cbn [seq map hd fst snd]. reflexivity. }
  destruct (outer_ok n E (sym_init n) 0 1 [] (S n)) as [ops [ff [sl' [Hs [Hrun [Hff Hfin]]]]]].
  - intro Hc. rewrite Hc in HlenE. cbn in HlenE. lia.
  - lia.
  - change (0 <? 2 * 1) with true. apply init_chain.
  - change (0 <? 2 * 1) with true. exact Hsp.
  - apply init_repr.
  - apply Nat.eq_le_incl; exact HlenE.
  - apply Nat.le_trans with n; [apply Nat.eq_le_incl; exact HlenE| lia].
  - rewrite HlenE in Hs. cbn [app] in Hs.
    assert (Eb : 0 + Z.of_nat (n / 2) * (2 * 1) = Z.of_nat n - (if Nat.odd n then 1 else 0)).
    { pose proof (Zmod_odd (Z.of_nat n)) as Hp. rewrite odd_nat_Z in Hp. destruct (Nat.odd n); lia. }
    rewrite Eb in Hs. rewrite odd_nat_Z in Hs. change (2 * 1) with 2 in Hs. rewrite Hs.
    destruct (ff <? 0) eqn:Ef; [apply Z.ltb_lt in Ef; lia|].
    rewrite Hrun, Hfin. rewrite !Nat.eqb_refl. reflexivity.
Qed.
