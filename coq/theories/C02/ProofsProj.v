(* C02/ProofsProj.v — projections: dot of a projected vector = reward share + discounted value of
   the linked vector at the (unnormalised) updated belief; envelope of a projection list. *)
From Coq Require Import List Arith ZArith QArith Qminmax Lqa Lia Bool Setoid.
From AIT Require Import Base.Qx Base.Mdp Base.MdpExec C02.Model C02.Spec C02.ProofsVec C02.ProofsCross.
Import ListNotations.
Local Open Scope Q_scope.

Lemma maxl_affine : forall (A : Type) (f : A -> Q) (l : list A) k c, l <> [] -> 0 <= c ->
  maxl (map (fun x => k + c * f x) l) == k + c * maxl (map f l).
Proof.
  intros A f l k c Hne Hc.
  assert (Hn : map f l <> []) by (destruct l; [congruence|discriminate]).
  apply maxl_char.
  - destruct l; [congruence|discriminate].
  - intros y Hy. apply in_map_iff in Hy. destruct Hy as [x [<- Hx]].
    pose proof (maxl_ub (map f l) (f x) (in_map f l x Hx)). nra.
  - destruct (maxl_attained _ Hn) as [y [Hy E]]. apply in_map_iff in Hy. destruct Hy as [x [<- Hx]].
    exists (k + c * f x). split; [apply (in_map (fun x => k + c * f x)); exact Hx| rewrite E; reflexivity].
Qed.

Lemma in_mapi_from : forall (A B : Type) (f : nat -> A -> B) l k d y,
  In y (mapi_from f k l) <-> exists i, (i < length l)%nat /\ y = f (k + i)%nat (nth i l d).
Proof.
  intros A B f l; induction l as [|x l IH]; intros k d y; cbn [mapi_from length].
  - split; [intros []| intros [i [Hi _]]; lia].
  - split.
    + intros [<-|H]; [exists 0%nat; split; [lia| rewrite Nat.add_0_r; reflexivity]|].
      apply (IH (S k) d) in H. destruct H as [i [Hi ->]]. exists (S i). split; [lia|].
      cbn [nth]. replace (k + S i)%nat with (S k + i)%nat by lia. reflexivity.
    + intros [[|i] [Hi ->]]; [left; rewrite Nat.add_0_r; reflexivity|]. right.
      apply (IH (S k) d). exists i. split; [lia|]. cbn [nth]. replace (k + S i)%nat with (S k + i)%nat by lia. reflexivity.
Qed.

Lemma mapi_from_nonempty : forall (A B : Type) (f : nat -> A -> B) l k, l <> [] -> mapi_from f k l <> [].
Proof. intros A B f [|x l] k H; [congruence| cbn; discriminate]. Qed.

Section Proj.
  Variable m : pomdp.
  Let S := nS (pm m).
  Hypothesis HO : (0 < nO m)%nat.
  Hypothesis Hg : 0 <= gam (pm m).

  Lemma Oq_pos : 0 < Oq m.
  Proof. unfold Oq. change 0 with (inject_Z 0). rewrite <- Zlt_Qlt. lia. Qed.

  Lemma tau_step_length : forall t a o, length (tau_step m t a o) = S.
  Proof. intros. unfold tau_step. rewrite map_length, seq_length. reflexivity. Qed.

  Lemma proj_vals_length : forall a o v, length (proj_vals m a o v) = S.
  Proof. intros. unfold proj_vals. rewrite map_length, seq_length. reflexivity. Qed.

  Lemma imm_share_length : forall a, length (imm_share m a) = S.
  Proof. intros. unfold imm_share. rewrite map_length, seq_length. reflexivity. Qed.

  Lemma nthq_tau_step : forall t a o s1, (s1 < S)%nat ->
    nthq (tau_step m t a o) s1 == Op m s1 a o * qsum (map (fun s => nthq t s * Tp m s a s1) (seq 0 S)).
  Proof. intros. unfold tau_step. rewrite nthq_map_seq by assumption. reflexivity. Qed.

  (* value of the linked vector at the updated belief, as an explicit double sum *)
  Definition fut (v b : vec) (a o : nat) : Q :=
    qsum (map (fun s1 => nthq v s1 * nthq (tau_step m b a o) s1) (seq 0 S)).

  Lemma fut_is_dot : forall v b a o, length v = S -> fut v b a o == dot v (tau_step m b a o).
  Proof. intros. unfold fut. symmetry. apply dot_as_sum; [assumption| apply tau_step_length]. Qed.

  Lemma share_sum : forall b a, length b = S ->
    qsum (map (fun s => Rw m s a / Oq m * nthq b s) (seq 0 S)) == rew_at m b a / Oq m.
  Proof.
    intros b a Hb. unfold rew_at. fold S.
    assert (E : forall s, Rw m s a / Oq m * nthq b s == (nthq b s * Rw m s a) * / Oq m) by (intros; unfold Qdiv; ring).
    rewrite (qsum_map_ext _ _ _ (seq 0 S) (fun s _ => E s)). rewrite qsum_map_mul_r. unfold Qdiv, Rw. reflexivity.
  Qed.

  Lemma dot_proj_vals : forall a o v b, length b = S ->
    dot (proj_vals m a o v) b == rew_at m b a / Oq m + gam (pm m) * fut v b a o.
  Proof.
    intros a o v b Hb. unfold proj_vals. fold S. rewrite dot_map_seq by exact Hb.
    transitivity (qsum (map (fun s => Rw m s a / Oq m * nthq b s +
        gam (pm m) * qsum (map (fun s1 => nthq b s * (Tp m s a s1 * Op m s1 a o * nthq v s1)) (seq 0 S))) (seq 0 S))).
    { apply qsum_map_ext. intros s _. rewrite Qred_correct. rewrite qsum_map_mul_l. ring. }
    rewrite qsum_map_add. rewrite share_sum by exact Hb. apply Qplus_comp; [reflexivity|].
    rewrite qsum_map_mul_l. apply Qmult_comp; [reflexivity|].
    rewrite qsum_swap. unfold fut. apply qsum_map_ext. intros s1 Hs1. apply in_seq in Hs1.
    rewrite nthq_tau_step by lia.
    transitivity (nthq v s1 * Op m s1 a o * qsum (map (fun s => nthq b s * Tp m s a s1) (seq 0 S))); [| ring].
    rewrite <- qsum_map_mul_l. apply qsum_map_ext. intros s _. ring.
  Qed.

  Lemma dot_imm_share : forall a b, length b = S -> dot (imm_share m a) b == rew_at m b a / Oq m.
  Proof.
    intros a b Hb. unfold imm_share. fold S. rewrite dot_map_seq by exact Hb.
    rewrite <- share_sum by exact Hb. apply qsum_map_ext. intros s _. rewrite Qred_correct. reflexivity.
  Qed.

  (* zero-probability observation: the updated belief vanishes *)
  Lemma tau_step_zero : forall b a o, (forall s1, (s1 < S)%nat -> Op m s1 a o == 0) ->
    forall s1, (s1 < S)%nat -> nthq (tau_step m b a o) s1 == 0.
  Proof. intros b a o H s1 Hs1. rewrite nthq_tau_step by exact Hs1. rewrite (H s1 Hs1). ring. Qed.

  Lemma fut_zero : forall v b a o, (forall s1, (s1 < S)%nat -> Op m s1 a o == 0) -> fut v b a o == 0.
  Proof.
    intros v b a o H. unfold fut. apply qsum_map_zero. intros s1 Hs1. apply in_seq in Hs1.
    rewrite (tau_step_zero b a o H s1) by lia. ring.
  Qed.

  Hypothesis Hclean : obs_clean m.

  (* envelope of one projection list *)
  Lemma vbest_project : forall w a o b, w <> [] -> wfl S w -> length b = S ->
    (a < nA (pm m))%nat -> (o < nO m)%nat ->
    vbest (project m w a o) b == rew_at m b a / Oq m + gam (pm m) * vbest w (tau_step m b a o).
  Proof.
    intros w a o b Hne Hw Hb Ha Ho. unfold project.
    destruct (possible m a o) eqn:Ep.
    - (* possible: one projected entry per entry of w *)
      assert (Hv : forall e, In e w -> dot (vals e) (tau_step m b a o) == fut (vals e) b a o).
      { intros e He. symmetry. apply fut_is_dot. unfold wfl in Hw. rewrite Forall_forall in Hw. apply Hw; exact He. }
      apply vbest_char.
      + apply mapi_from_nonempty; exact Hne.
      + intros e He. apply (in_mapi_from _ _ _ w 0%nat dummy_entry) in He. destruct He as [i [Hi ->]]. cbn [vals].
        rewrite dot_proj_vals by exact Hb.
        pose proof (vbest_ub w (tau_step m b a o) _ (nth_In w dummy_entry Hi)) as U.
        rewrite Hv in U by (apply nth_In; exact Hi). nra.
      + destruct (vbest_attained w (tau_step m b a o) Hne) as [e [He E]].
        destruct (In_nth w e dummy_entry He) as [i [Hi Ei]].
        exists {| vals := proj_vals m a o (vals e); act := a; obs := [i] |}. split.
        * apply (in_mapi_from _ _ _ w 0%nat dummy_entry). exists i. split; [exact Hi|]. rewrite Ei. reflexivity.
        * cbn [vals]. rewrite dot_proj_vals by exact Hb. rewrite E, Hv by exact He. reflexivity.
    - (* impossible observation: a single entry holding the reward share; the future term is 0 *)
      assert (Z : forall s1, (s1 < S)%nat -> Op m s1 a o == 0) by (intros; apply Hclean; assumption).
      assert (Zw : vbest w (tau_step m b a o) == 0).
      { apply vbest_char; [exact Hne| |].
        - intros e He. unfold wfl in Hw. rewrite Forall_forall in Hw. rewrite <- fut_is_dot by (apply Hw; exact He).
          rewrite fut_zero by exact Z. lra.
        - destruct w as [|e w']; [congruence|]. exists e. split; [left; reflexivity|].
          unfold wfl in Hw. rewrite Forall_forall in Hw. rewrite <- fut_is_dot by (apply Hw; left; reflexivity).
          apply fut_zero; exact Z. }
      rewrite Zw. unfold vbest, best, valsof. cbn [map maxl qmax_from vals]. rewrite dot_imm_share by exact Hb. ring.
  Qed.

  Lemma project_nonempty : forall w a o, w <> [] -> project m w a o <> [].
  Proof. intros w a o H. unfold project. destruct (possible m a o); [apply mapi_from_nonempty; exact H| discriminate]. Qed.

  Lemma project_wfl : forall w a o, wfl S (project m w a o).
  Proof.
    intros w a o. unfold project, wfl. destruct (possible m a o).
    - apply Forall_forall. intros e He. apply (in_mapi_from _ _ _ w 0%nat dummy_entry) in He. destruct He as [i [_ ->]].
      cbn [vals]. apply proj_vals_length.
    - constructor; [cbn [vals]; apply imm_share_length| constructor].
  Qed.

  Lemma project_act : forall w a o, Forall (fun e => act e = a) (project m w a o).
  Proof.
    intros w a o. unfold project. destruct (possible m a o).
    - apply Forall_forall. intros e He. apply (in_mapi_from _ _ _ w 0%nat dummy_entry) in He. destruct He as [i [_ ->]]. reflexivity.
    - constructor; [reflexivity| constructor].
  Qed.
End Proj.
