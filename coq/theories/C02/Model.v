(* C02/Model.v — executable models of the exact POMDP solvers' building blocks.
   src: include/AIToolbox/POMDP/Algorithms/Utils/Projecter.hpp, IncrementalPruning.{hpp,cpp},
        RTBSS.hpp, POMDP/Utils.cpp (makeValueFunction).   No proofs in this file.
   The LP-based Pruner is NOT modelled computationally: the solver model is parametric in
   [prune]; theorems assume only what C12 proves about pruning (sub-list, envelope, non-empty).
   The executable instance used by the correspondence is pointwise-dominance pruning. *)
From Coq Require Import List Arith ZArith QArith Qminmax Bool.
From AIT Require Import Base.Qx Base.Mdp Base.MdpExec.
Import ListNotations.
Local Open Scope Q_scope.

Record ventry := { vals : vec; act : nat; obs : list nat }.
Definition vlist := list ventry.
Definition valsof (l : vlist) : list vec := map vals l.

(* src: POMDP/Utils.cpp:makeValueFunction — horizon 0: one zero vector, action 0, no links *)
Definition vf_init (S : nat) : list vlist := [[ {| vals := vzero S; act := 0%nat; obs := [] |} ]].

Definition Oq (m : pomdp) : Q := inject_Z (Z.of_nat (nO m)).
Definition Tp (m : pomdp) (s a s1 : nat) : Q := nthq (trow (pm m) s a) s1.
Definition Op (m : pomdp) (s1 a o : nat) : Q := nthq (orow m s1 a) o.
Definition Rw (m : pomdp) (s a : nat) : Q := nthq (row (R (pm m)) s) a.

(* src: Projecter::computePossibleObservations — checkDifferentSmall(O(s,a,o), 0.0) for some s *)
Definition possible (m : pomdp) (a o : nat) : bool :=
  existsb (fun s => negb (eqSmall (Op m s a o) 0)) (seq 0 (nS (pm m))).

(* immediateRewards_.row(a) = R(.,a) / |O| *)
Definition imm_share (m : pomdp) (a : nat) : vec :=
  map (fun s => Qred (Rw m s a / Oq m)) (seq 0 (nS (pm m))).

(* vproj[s] = discount * sum_{s'} T(s,a,s') * O(s',a,o) * v[s']  +  R(s,a)/|O| *)
Definition proj_vals (m : pomdp) (a o : nat) (v : vec) : vec :=
  map (fun s => Qred (gam (pm m) * qsum (map (fun s1 => Tp m s a s1 * Op m s1 a o * nthq v s1) (seq 0 (nS (pm m))))
               + Rw m s a / Oq m)) (seq 0 (nS (pm m))).

Fixpoint mapi_from {A B : Type} (f : nat -> A -> B) (i : nat) (l : list A) : list B :=
  match l with [] => [] | x :: t => f i x :: mapi_from f (S i) t end.

(* src: Projecter::operator()(w, a), one observation column *)
Definition project (m : pomdp) (w : vlist) (a o : nat) : vlist :=
  if possible m a o
  then mapi_from (fun i e => {| vals := proj_vals m a o (vals e); act := a; obs := [i] |}) 0 w
  else [ {| vals := imm_share m a; act := a; obs := [0%nat] |} ].

(* src: IncrementalPruning::crossSum (v1 outer loop, v2 inner loop) *)
Definition cross_entry (a : nat) (order : bool) (e1 e2 : ventry) : ventry :=
  {| vals := vred (vadd (vals e1) (vals e2)); act := a;
     obs := if order then obs e1 ++ obs e2 else obs e2 ++ obs e1 |}.
Definition crossSum (l1 l2 : vlist) (a : nat) (order : bool) : vlist :=
  match l1, l2 with
  | [], _ => [] | _, [] => []
  | _, _ => flat_map (fun e1 => map (cross_entry a order e1) l2) l1
  end.

(* ---- the merge schedule of IncrementalPruning::operator(), as a pure integer machine.
   One op = (i, i+diff, stepsize > 0): slot i := crossSum(slot i, slot i+diff, order). *)
Definition mop := (nat * nat * bool)%type.

Fixpoint sched_inner (fuel : nat) (i back step diff : Z) (acc : list mop) (elems : Z)
  : option (list mop * Z) :=
  if Z.eqb i back then Some (acc, elems) else
  match fuel with
  | O => None
  | S f =>
    if (Z.ltb i 0 || Z.ltb (i + diff) 0)%bool then None else
    sched_inner f (i + step)%Z back step diff
                (acc ++ [(Z.to_nat i, Z.to_nat (i + diff), Z.ltb 0 step)]) (elems - 1)%Z
  end.

Fixpoint sched_outer (fuel : nat) (nobs : nat) (front back step diff elems : Z) (oddOld : bool) (acc : list mop)
  : option (list mop * Z) :=
  if Z.leb elems 1 then Some (acc, front) else
  match fuel with
  | O => None
  | S f =>
    match sched_inner nobs front back step diff acc elems with
    | None => None
    | Some (acc', elems') =>
      let oddNew := Z.odd elems' in
      let back' := (front - (if oddNew then 0 else step))%Z in
      let front' := (back - (if oddOld then 0 else step))%Z in
      sched_outer f nobs front' back' (step * -2)%Z (diff * -2)%Z elems' oddNew acc'
    end
  end.

(* bool oddOld = O % 2; int front = 0, back = O - oddOld, stepsize = 2, diff = 1, elements = O *)
Definition schedule (nobs : nat) : option (list mop * nat) :=
  let oddOld := Nat.odd nobs in
  match sched_outer (S nobs) nobs 0 (Z.of_nat nobs - (if oddOld then 1 else 0))%Z 2 1 (Z.of_nat nobs) oddOld [] with
  | Some (ops, front) => if Z.ltb front 0 then None else Some (ops, Z.to_nat front)
  | None => None
  end.

Fixpoint set_nth {A : Type} (i : nat) (x : A) (l : list A) : list A :=
  match l, i with
  | [], _ => []
  | _ :: t, O => x :: t
  | y :: t, S j => y :: set_nth j x t
  end.

Section Solver.
  Variable prune : vlist -> vlist.

  Definition run_op (a : nat) (slots : list vlist) (op : mop) : list vlist :=
    let '(i, j, order) := op in
    set_nth i (prune (crossSum (nth i slots []) (nth j slots []) a order)) slots.

  (* all observation lists of one action merged into one list (slot [front], moved to slot 0) *)
  Definition merge_all (a : nat) (slots : list vlist) : vlist :=
    match schedule (length slots) with
    | Some (ops, front) => nth front (fold_left (run_op a) ops slots) []
    | None => []
    end.

  (* one horizon step of IncrementalPruning::operator() *)
  Definition ip_step (m : pomdp) (w : vlist) : vlist :=
    prune (concat (map (fun a =>
             merge_all a (map (fun o => prune (project m w a o)) (seq 0 (nO m))))
           (seq 0 (nA (pm m))))).

  (* value function = list of horizons, newest LAST (as the C++ vector) *)
  Fixpoint ip_run (m : pomdp) (h : nat) : list vlist :=
    match h with
    | O => vf_init (nS (pm m))
    | S h' => let vf := ip_run m h' in vf ++ [ip_step m (last vf [])]
    end.
End Solver.

(* ---- executable pruning instance: remove entries pointwise dominated by a kept/other entry *)
Definition pw_ge (v w : vec) : bool := forallb (fun p => Qle_bool (snd p) (fst p)) (combine v w).
Fixpoint prune_pw_go (kept : vlist) (l : vlist) : vlist :=
  match l with
  | [] => kept
  | e :: t =>
    if existsb (fun k => pw_ge (vals k) (vals e)) kept then prune_pw_go kept t
    else prune_pw_go (filter (fun k => negb (pw_ge (vals e) (vals k))) kept ++ [e]) t
  end.
Definition prune_pw (l : vlist) : vlist := prune_pw_go [] l.

(* ---- RTBSS (src: RTBSS.hpp simulate / upperBound).  Beliefs are normalised exactly as the C++
   does (nextBelief / sum), in exact rationals.  maxA_ is recorded only at the top level.
   upperBound models the repaired code: discount * max(maxR, 0) * horizon (fixes/C02-rtbss-bound). *)
Definition ub_future (m : pomdp) (maxR : Q) (h : nat) : Q :=
  gam (pm m) * Qmax maxR 0 * inject_Z (Z.of_nat h).

Fixpoint rtbss_sim (m : pomdp) (maxR : Q) (h : nat) (b : vec) : Q * nat :=
  match h with
  | O => (0, O)
  | S h' =>
    let step := fun (st : option Q * nat) (a : nat) =>
      let '(mx, ba) := st in
      let rew0 := rew_at m b a in
      let ub := rew0 + ub_future m maxR h' in
      let expand := match mx with None => true | Some x => if Qlt_le_dec x ub then true else false end in
      let rew := if expand
                 then Qred (rew0 + qsum (map (fun o =>
                        let nb := tau_step m b a o in
                        let sum := qsum nb in
                        if eqSmall sum 0 then 0
                        else gam (pm m) * sum * fst (rtbss_sim m maxR h' (vred (map (fun x => x / sum) nb))))
                      (seq 0 (nO m))))
                 else rew0 in
      match mx with
      | None => (Some rew, a)
      | Some x => if Qlt_le_dec x rew then (Some rew, a) else (mx, ba)
      end in
    let '(mx, ba) := fold_left step (seq 0 (nA (pm m))) (None, O) in
    (match mx with Some x => x | None => 0 end, ba)
  end.
