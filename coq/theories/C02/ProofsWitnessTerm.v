(* C02/ProofsWitnessTerm.v — the Witness agenda loop terminates: with an oracle whose answers "witness b" are
   sound (the candidate is strictly above every row at b), the loop ends within 2*N iterations, where
   N is the number of cross-sum choices (the product of the sizes of the projection lists).
   Measure: (N - |U|) + (N - |tried|) + |agenda| drops by one in every iteration:
   a "no witness" answer pops the agenda; a witness adds to U an entry whose choice is not yet in U
   (its value at b is the envelope, which is above the candidate, which is above all of U), and every
   variation it pushes on the agenda is also a new element of the tried set. *)
From Coq Require Import List Arith ZArith QArith Qminmax Lqa Lia Bool Setoid.
From AIT Require Import Base.Qx Base.Mdp Base.MdpExec C02.Model C02.Spec C02.ProofsVec C02.ProofsCross
  C02.ProofsSched C02.ProofsSchedAll C02.ProofsProj C02.ProofsIP C02.ProofsEV
  C04.Model C04.ProofsPlan C04.ProofsExec C04.ProofsPoint C02.ModelWitness C02.ProofsWitness.
Import ListNotations.
Local Open Scope Q_scope.

(* every choice, in lexicographic order *)
Fixpoint all_choices (row : list vlist) : list choice :=
  match row with
  | [] => [[]]
  | r :: rs => flat_map (fun i => map (cons i) (all_choices rs)) (seq 0 (length r))
  end.

Lemma valid_in_all : forall row c, valid row c -> In c (all_choices row).
Proof.
  induction row as [|r rs IH]; intros c [Hl Hv]; cbn [all_choices].
  - destruct c; [left; reflexivity| discriminate].
  - destruct c as [|i c]; [discriminate|]. apply in_flat_map. exists i. split.
    + apply in_seq. pose proof (Hv 0%nat ltac:(cbn; lia)) as H0. cbn in H0. lia.
    + apply in_map. apply IH. split; [cbn in Hl; lia|].
      intros o Ho. pose proof (Hv (Datatypes.S o) ltac:(cbn; lia)) as H1. cbn in H1. exact H1.
Qed.

Lemma NoDup_snoc : forall (A : Type) (l : list A) x, NoDup l -> ~ In x l -> NoDup (l ++ [x]).
Proof.
  intros A l x Hn Hx. induction l as [|y l IH]; cbn [app]; [constructor; [intros []| constructor]|].
  inversion Hn as [|? ? Hy Hn']; subst. constructor.
  - intros Hin. apply in_app_or in Hin. destruct Hin as [Hin|[->|[]]]; [contradiction|]. apply Hx. left. reflexivity.
  - apply IH; [exact Hn'| intros H; apply Hx; right; exact H].
Qed.

Lemma in_tried_false : forall c tr, in_tried c tr = false -> ~ In c tr.
Proof.
  intros c tr H Hin. unfold in_tried in H.
  assert (E : existsb (fun t => if list_eq_dec Nat.eq_dec t c then true else false) tr = true).
  { apply existsb_exists. exists c. split; [exact Hin|]. destruct (list_eq_dec Nat.eq_dec c c); [reflexivity| congruence]. }
  congruence.
Qed.

Section Term.
  Variable S : nat.
  Variable row : list vlist.
  Hypothesis Hne : Forall (fun r => r <> []) row.
  Hypothesis Hwf : Forall (wfl S) row.
  Hypothesis Hidx : forall o i e, nth_error (nth o row []) i = Some e -> obs e = [i].
  Variable oracle : nat -> nat -> list vec -> vec -> option vec.
  Variable t a : nat.
  (* a reported witness is a point of the right dimension where the candidate is strictly above every row *)
  Hypothesis Hsound : forall Uv cand b, oracle t a Uv cand = Some b ->
    length b = S /\ forall u, In u Uv -> dot u b < dot cand b.

  Let N := length (all_choices row).

  Definition J (U : vlist) (ag : list item) (tr : list choice) : Prop :=
    (forall e, In e U -> valid row (obs e) /\ repr S row (vals e) (obs e)) /\
    (forall it, In it ag -> valid row (fst it) /\ repr S row (snd it) (fst it)) /\
    NoDup (map obs U) /\ NoDup tr /\ (forall c, In c tr -> valid row c).

  Lemma bound_valid : forall (l : list choice), NoDup l -> (forall c, In c l -> valid row c) -> (length l <= N)%nat.
  Proof.
    intros l Hn Hv. unfold N. apply NoDup_incl_length; [exact Hn|]. intros c Hc. apply valid_in_all. apply Hv; exact Hc.
  Qed.

  (* the best entry at b has the envelope as its value at b *)
  Lemma csbb_value_is_Qenv : forall b, length b = S ->
    dot (vals (fst (csbb_row b row a S))) b == Qenv row b.
  Proof.
    intros b Hb. destruct (csbb_entry_facts S row Hne Hwf Hidx b a) as [Hv [[_ Hr] _]].
    rewrite (Hr b Hb). unfold cval, Qenv. rewrite (qsum_map_as_seq _ (fun r => vbest r b) row []).
    apply qsum_map_ext. intros o Ho. apply in_seq in Ho.
    assert (Eobs : nth o (obs (fst (csbb_row b row a S))) 0%nat = best_index (nth o row []) b).
    { rewrite (csbb_obs S row Hne Hidx b a).
      rewrite (nth_indep _ 0%nat ((fun r => best_index r b) [])) by (rewrite map_length; unfold vlist in *; lia).
      rewrite (map_nth (fun r => best_index r b)). reflexivity. }
    rewrite Eobs. unfold ent. rewrite Forall_forall in Hne.
    apply (best_index_attains_lemma (nth o row []) b). apply Hne. apply nth_In. lia.
  Qed.

  Lemma var_fold_count : forall e l ag tr, NoDup tr ->
    let st' := fold_left (var_one row e) l (ag, tr) in
    NoDup (snd st') /\ (length (fst st') + length tr = length ag + length (snd st'))%nat.
  Proof.
    intros e l. induction l as [|[o i] l IH]; intros ag tr Hn; cbn [fold_left].
    - cbn [fst snd]. split; [exact Hn| lia].
    - destruct (Nat.eqb i (nth o (obs e) 0%nat)) eqn:Eskip.
      { replace (var_one row e (ag, tr) (o, i)) with (ag, tr) by (unfold var_one; rewrite Eskip; reflexivity). apply IH; exact Hn. }
      destruct (in_tried (set_nth o i (obs e)) tr) eqn:Etr.
      { replace (var_one row e (ag, tr) (o, i)) with (ag, tr) by (unfold var_one; rewrite Eskip, Etr; reflexivity). apply IH; exact Hn. }
      replace (var_one row e (ag, tr) (o, i)) with
        ((set_nth o i (obs e),
          vred (vadd (vsub (vals e) (vals (nth (nth o (obs e) 0%nat) (nth o row []) dummy_entry)))
                     (vals (nth i (nth o row []) dummy_entry)))) :: ag, set_nth o i (obs e) :: tr)
        by (unfold var_one; rewrite Eskip, Etr; reflexivity).
      match goal with |- context [fold_left _ l (?x :: ag, ?c :: tr)] =>
        destruct (IH (x :: ag) (c :: tr)) as [A B]; [constructor; [apply in_tried_false; exact Etr| exact Hn]|] end.
      split; [exact A|]. cbn [length] in B. unfold item, choice in *. lia.
  Qed.

  Theorem wit_loop_terminates_lemma : forall fuel U ag tr, J U ag tr ->
    ((N - length U) + (N - length tr) + length ag < fuel)%nat ->
    exists Uf, wit_loop oracle fuel t a S row U ag tr = Some Uf.
  Proof.
    induction fuel as [|fuel IH]; intros U ag tr HJ Hmu; [lia|].
    destruct ag as [|[c cand] rest]; cbn [wit_loop]; [exists U; reflexivity|].
    destruct HJ as [J1 [J2 [J3 [J4 J5]]]].
    destruct (oracle t a (valsof U) cand) as [b|] eqn:Eor.
    - (* witness *)
      destruct (Hsound _ _ _ Eor) as [Hb Hstrict].
      set (e := fst (csbb_row b row a S)).
      destruct (csbb_entry_facts S row Hne Hwf Hidx b a) as [Hve [Hre _]]. fold e in Hve, Hre.
      cbv zeta. fold e.
      pose proof (variations_spec S row Hwf Hidx e ((c, cand) :: rest) tr Hve Hre) as Hvar. cbv zeta in Hvar.
      destruct Hvar as [A [B [C [D _]]]].
      pose proof (var_fold_count e (var_pairs row) ((c, cand) :: rest) tr J4) as Hcnt. cbv zeta in Hcnt.
      fold (variations row e ((c, cand) :: rest, tr)) in Hcnt. destruct Hcnt as [Hnd Hlen].
      set (ag' := fst (variations row e ((c, cand) :: rest, tr))) in *.
      set (tr' := snd (variations row e ((c, cand) :: rest, tr))) in *.
      (* the new entry's choice is not yet in U *)
      assert (Hnew : ~ In (obs e) (map obs U)).
      { intros Hin. apply in_map_iff in Hin. destruct Hin as [u [Eu Hu]].
        destruct (J1 u Hu) as [_ [_ Eru]]. destruct Hre as [_ Ere].
        assert (Huv : dot (vals u) b == dot (vals e) b) by (rewrite (Eru b Hb), (Ere b Hb), Eu; reflexivity).
        destruct (J2 (c, cand) (or_introl eq_refl)) as [Hvc [_ Erc]]. cbn [fst snd] in Hvc, Erc.
        pose proof (cval_le_Qenv row Hidx c b Hvc) as Hle. rewrite <- (Erc b Hb) in Hle.
        pose proof (Hstrict (vals u) (in_map vals U u Hu)) as Hlt.
        unfold e in Huv. rewrite (csbb_value_is_Qenv b Hb) in Huv. lra. }
      assert (HJ' : J (U ++ [e]) ag' tr').
      { split; [| split; [| split; [| split]]].
        - intros e' He'. apply in_app_or in He'. destruct He' as [He'|[<-|[]]]; [apply J1; exact He'| split; assumption].
        - intros it Hit. destruct (C it Hit) as [Hin|Hg]; [apply J2; exact Hin| exact Hg].
        - rewrite map_app. cbn [map]. apply NoDup_snoc; assumption.
        - exact Hnd.
        - intros c' Hc'. destruct (D c' Hc') as [Hin|[Hv' _]]; [apply J5; exact Hin| exact Hv']. }
      apply IH; [exact HJ'|].
      destruct HJ' as [_ [_ [K3 [K4 K5]]]].
      pose proof (bound_valid tr' K4 K5) as Btr.
      assert (BU : (length (U ++ [e]) <= N)%nat).
      { rewrite <- (map_length obs). apply bound_valid; [exact K3|].
        intros c' Hc'. apply in_map_iff in Hc'. destruct Hc' as [e' [<- He']].
        apply in_app_or in He'. destruct He' as [He'|[<-|[]]]; [apply J1; exact He'| exact Hve]. }
      rewrite app_length in *. cbn [length] in *. unfold ag', tr' in *. unfold variations in *. unfold item, choice in *. lia.
    - (* no witness: pop *)
      apply IH.
      + split; [exact J1|]. split; [intros it Hit; apply J2; right; exact Hit|]. split; [exact J3|]. split; assumption.
      + cbn [length] in Hmu. lia.
  Qed.

  (* from the initial state: any fuel above 2*N is enough *)
  Theorem wit_action_terminates_lemma : forall fuel, (2 * N < fuel)%nat ->
    exists U, wit_action oracle fuel t a S row = Some U.
  Proof.
    intros fuel Hf. unfold wit_action. cbv zeta.
    destruct (default_facts S row Hne Hwf Hidx) as [Hdv Hdr].
    apply wit_loop_terminates_lemma.
    - split; [intros e []|]. split; [intros it [<-|[]]; split; assumption|]. split; [constructor|].
      split; [constructor; [intros []| constructor]|]. intros c [<-|[]]. exact Hdv.
    - cbn [length]. assert (1 <= N)%nat.
      { apply (bound_valid [fst (default_item row S)]); [constructor; [intros []| constructor]| intros c [<-|[]]; exact Hdv]. }
      lia.
  Qed.
End Term.

(* ---------------- more fuel never changes an answer ---------------- *)
Lemma wit_loop_fuel_mono : forall oracle t a S row fuel k U ag tr Uf,
  wit_loop oracle fuel t a S row U ag tr = Some Uf ->
  wit_loop oracle (fuel + k) t a S row U ag tr = Some Uf.
Proof.
  intros oracle t a S row fuel k. induction fuel as [|fuel IH]; intros U ag tr Uf H.
  - destruct ag as [|[c cand] rest]; cbn [wit_loop] in H; [| discriminate].
    destruct k; cbn [Nat.add wit_loop]; exact H.
  - destruct ag as [|[c cand] rest]; cbn [Nat.add wit_loop] in *; [exact H|].
    destruct (oracle t a (valsof U) cand); apply IH; exact H.
Qed.

Lemma all_some_map_ext : forall (A B : Type) (f g : A -> option B) l r,
  (forall x y, In x l -> f x = Some y -> g x = Some y) ->
  all_some (map f l) = Some r -> all_some (map g l) = Some r.
Proof.
  intros A B f g l. induction l as [|x l IH]; intros r Hfg H; cbn [map all_some] in *; [exact H|].
  destruct (f x) as [y|] eqn:Ef; [| discriminate].
  rewrite (Hfg x y (or_introl eq_refl) Ef).
  destruct (all_some (map f l)) as [r'|] eqn:Er; [| discriminate].
  rewrite (IH r' (fun x' y' Hx => Hfg x' y' (or_intror Hx)) eq_refl). exact H.
Qed.

Lemma wit_step_fuel_mono : forall oracle prune fuel k t m w w',
  wit_step oracle prune fuel t m w = Some w' -> wit_step oracle prune (fuel + k) t m w = Some w'.
Proof.
  intros oracle prune fuel k t m w w' H. unfold wit_step, wit_lists in *.
  destruct (all_some (map (fun a => wit_action oracle fuel t a (nS (pm m)) (proj_row m w a)) (seq 0 (nA (pm m))))) as [Us|] eqn:E; [| discriminate].
  rewrite (all_some_map_ext _ _ (fun a => wit_action oracle fuel t a (nS (pm m)) (proj_row m w a))
             (fun a => wit_action oracle (fuel + k) t a (nS (pm m)) (proj_row m w a)) (seq 0 (nA (pm m))) Us); [exact H| | exact E].
  intros a U _ Ha. unfold wit_action in *. apply wit_loop_fuel_mono. exact Ha.
Qed.

Lemma wit_run_fuel_mono : forall oracle prune fuel k m h vf,
  wit_run oracle prune fuel m h = Some vf -> wit_run oracle prune (fuel + k) m h = Some vf.
Proof.
  intros oracle prune fuel k m h. induction h as [|h IH]; intros vf H; cbn [wit_run] in *; [exact H|].
  destruct (wit_run oracle prune fuel m h) as [vf0|] eqn:E0; [| discriminate].
  rewrite (IH vf0 eq_refl).
  destruct (wit_step oracle prune fuel (Datatypes.S h) m (last vf0 [])) as [w'|] eqn:E1; [| discriminate].
  rewrite (wit_step_fuel_mono _ _ _ k _ _ _ _ E1). exact H.
Qed.

Lemma all_some_total : forall (A B : Type) (f : A -> option B) l,
  (forall x, In x l -> exists y, f x = Some y) -> exists r, all_some (map f l) = Some r.
Proof.
  intros A B f l. induction l as [|x l IH]; intros H; cbn [map all_some]; [exists []; reflexivity|].
  destruct (H x (or_introl eq_refl)) as [y Ey]. rewrite Ey.
  destruct (IH (fun x' Hx => H x' (or_intror Hx))) as [r Er]. rewrite Er. exists (y :: r). reflexivity.
Qed.

(* ---------------- the whole solver is total and exact for a sound and complete oracle ---------------- *)
Section Total.
  Variable prune : vlist -> vlist.
  Hypothesis prune_sub : forall l e, In e (prune l) -> In e l.
  Hypothesis prune_ne : forall l, l <> [] -> prune l <> [].
  Hypothesis prune_env : forall S l b, l <> [] -> wfl S l -> nonneg b -> length b = S ->
    vbest (prune l) b == vbest l b.
  Variable m : pomdp.
  Hypothesis Hwf : wf_pomdp1 m.
  Hypothesis Hclean : obs_clean m.
  Variable eps : Q.
  Hypothesis Heps : 0 <= eps.
  Variable oracle : nat -> nat -> list vec -> vec -> option vec.
  Hypothesis Hcomplete : forall t a Uv cand, oracle t a Uv cand = None ->
    forall b, nonneg b -> length b = nS (pm m) -> exists u, In u Uv /\ dot cand b <= dot u b + eps * qsum b.
  Hypothesis Hsound : forall t a Uv cand b, oracle t a Uv cand = Some b ->
    length b = nS (pm m) /\ forall u, In u Uv -> dot u b < dot cand b.

  Lemma wit_step_total : forall t w, w <> [] -> exists fuel w', wit_step oracle prune fuel t m w = Some w'.
  Proof.
    intros t w Hne.
    (* a fuel that is enough for every action *)
    set (need := fun a => Datatypes.S (2 * length (all_choices (proj_row m w a)))).
    set (fuel := fold_right Nat.max 0%nat (map need (seq 0 (nA (pm m))))).
    assert (Hfuel : forall a, In a (seq 0 (nA (pm m))) -> (need a <= fuel)%nat).
    { unfold fuel. generalize (seq 0 (nA (pm m))). intros l a Ha. induction l as [|x l IHl]; [destruct Ha|].
      cbn [map fold_right]. destruct Ha as [->|Ha]; [lia| specialize (IHl Ha); lia]. }
    exists fuel. unfold wit_step, wit_lists.
    destruct (all_some_total _ _ (fun a => wit_action oracle fuel t a (nS (pm m)) (proj_row m w a)) (seq 0 (nA (pm m)))) as [Us EUs].
    - intros a Ha. destruct (proj_row_facts m w a Hne) as [F1 [F2 [F3 _]]].
      apply (wit_action_terminates_lemma (nS (pm m)) (proj_row m w a) F1 F2 F3 oracle t a (Hsound t a)).
      specialize (Hfuel a Ha). unfold need in Hfuel. lia.
    - rewrite EUs. eexists. reflexivity.
  Qed.

  Theorem wit_run_total_lemma : forall h, exists fuel vf,
    wit_run oracle prune fuel m h = Some vf /\
    forall b, nonneg b -> length b = nS (pm m) ->
      EV m h b - wit_err m eps h * qsum b <= vbest (last vf []) b /\ vbest (last vf []) b <= EV m h b.
  Proof.
    assert (Hex : forall h, exists fuel vf, wit_run oracle prune fuel m h = Some vf).
    { induction h as [|h IH].
      - exists 0%nat. eexists. reflexivity.
      - destruct IH as [f0 [vf0 E0]].
        destruct (wit_run_value_lemma prune prune_sub prune_ne prune_env m Hwf Hclean eps Heps oracle Hcomplete f0 h vf0 E0) as [N _].
        cbv zeta in N.
        destruct (wit_step_total (Datatypes.S h) (last vf0 []) N) as [f1 [w' E1]].
        exists (f0 + f1)%nat. exists (vf0 ++ [w']). cbn [wit_run].
        rewrite (wit_run_fuel_mono _ _ _ f1 _ _ _ E0).
        rewrite Nat.add_comm. rewrite (wit_step_fuel_mono _ _ _ f0 _ _ _ _ E1). reflexivity. }
    intros h. destruct (Hex h) as [fuel [vf E]]. exists fuel, vf. split; [exact E|].
    exact (proj2 (proj2 (wit_run_value_lemma prune prune_sub prune_ne prune_env m Hwf Hclean eps Heps oracle Hcomplete fuel h vf E))).
  Qed.
End Total.
