From Coq Require Extraction.
From Coq Require Import ExtrOcamlBasic.
From AIT Require Import Base.Vio C13.Model C13.Spec.
Extraction "model.ml" vio_kit ve ve_graph make_graph heur_order is_perm_of_seq payoff inrb all_actions is_upper exact_check approx_check opt compat ls_make ls_update evaluate_graph move mo_payoff strictly_dominates sqrt_sum_le ucve ucve_trace pdec psize.
