(* C13/ProofsUCVEr.v — UCVE over the reals: [sqrt_sum_le] is the order of  m + sqrt b ; pruning with
   variance bounds never loses an optimum.  Uses Coq's Reals (standard-library axioms only). *)
From Coq Require Import QArith Qreals Reals Lra Psatz Bool.
From Coq Require Import List Arith Lia.
From Coq Require Lqa.
From AIT Require Import C13.Model C13.Spec C13.ProofsMO1 C13.ProofsMO3 C13.ProofsMO5.
Import ListNotations.
Local Open Scope R_scope.

Definition rv (m b : Q) : R := Q2R m + sqrt (Q2R b).

Lemma Qle_bool_R : forall a b : Q, Qle_bool a b = true <-> Q2R a <= Q2R b.
Proof. intros. rewrite Qle_bool_iff. split; [apply Qle_Rle | apply Rle_Qle]. Qed.

Lemma Qle_bool_R_false : forall a b : Q, Qle_bool a b = false <-> Q2R b < Q2R a.
Proof.
  intros. split.
  - intro H. apply Rnot_le_lt. intro C. apply Qle_bool_R in C. congruence.
  - intro H. destruct (Qle_bool a b) eqn:E; auto. apply Qle_bool_R in E. lra.
Qed.

Lemma Q2R_4 : Q2R 4 = 4.
Proof. unfold Q2R. simpl. lra. Qed.
Lemma Q2R_0 : Q2R 0 = 0.
Proof. unfold Q2R. simpl. lra. Qed.

Lemma Rsq_le : forall a b : R, 0 <= a -> 0 <= b -> a * a <= b * b -> a <= b.
Proof. intros. nra. Qed.
Lemma Rsq_le_inv : forall a b : R, 0 <= a -> a <= b -> a * a <= b * b.
Proof. intros. nra. Qed.

Lemma ssl_iff : forall x p y q : Q, (0 <= p)%Q -> (0 <= q)%Q ->
  (sqrt_sum_le x p y q = true <-> rv x p <= rv y q).
Proof.
  intros x p y q Hp Hq. unfold rv, sqrt_sum_le.
  apply Qle_Rle in Hp. apply Qle_Rle in Hq. rewrite Q2R_0 in Hp, Hq.
  set (X := Q2R x). set (Y := Q2R y). set (P := Q2R p). set (Qr := Q2R q).
  assert (Hsp := sqrt_sqrt P Hp). assert (Hsq := sqrt_sqrt Qr Hq).
  assert (Hsp0 := sqrt_pos P). assert (Hsq0 := sqrt_pos Qr).
  set (sp := sqrt P) in *. set (sq := sqrt Qr) in *.
  assert (ED : Q2R (y - x) = Y - X) by (rewrite Q2R_minus; reflexivity).
  assert (ET : Q2R (p + q - (y - x) * (y - x)) = P + Qr - (Y - X) * (Y - X)).
  { rewrite Q2R_minus, Q2R_plus, Q2R_mult, ED. reflexivity. }
  assert (ET2 : Q2R ((p + q - (y - x) * (y - x)) * (p + q - (y - x) * (y - x))) = (P + Qr - (Y - X) * (Y - X)) * (P + Qr - (Y - X) * (Y - X))).
  { rewrite Q2R_mult, ET. reflexivity. }
  assert (E4 : Q2R (4 * p * q) = 4 * P * Qr).
  { rewrite !Q2R_mult, Q2R_4. reflexivity. }
  set (w := 2 * sp * sq).
  assert (Hw0 : 0 <= w) by (unfold w; nra).
  assert (Hw2 : w * w = 4 * P * Qr).
  { unfold w. transitivity (4 * (sp * sp) * (sq * sq)); [ring | rewrite Hsp, Hsq; ring]. }
  assert (Hd2 : (sq - sp) * (sq - sp) = P + Qr - w) by (unfold w; nra).
  destruct (Qle_bool p q) eqn:E1.
  - apply Qle_bool_R in E1. fold P Qr in E1. assert (Hle : sp <= sq) by nra.
    destruct (Qle_bool 0 (y - x)) eqn:E2.
    + apply Qle_bool_R in E2. rewrite Q2R_0, ED in E2. split; [intros _; lra | auto].
    + apply Qle_bool_R_false in E2. rewrite Q2R_0, ED in E2.
      rewrite andb_true_iff, !Qle_bool_R, Q2R_0, ET, ET2, E4.
      set (t := P + Qr - (Y - X) * (Y - X)). split.
      * intros [H1 H2]. assert (Hwt : w <= t) by (apply Rsq_le; auto; lra).
        assert (He : (X - Y) * (X - Y) <= (sq - sp) * (sq - sp)) by (rewrite Hd2; unfold t in Hwt; lra).
        assert (X - Y <= sq - sp) by (apply Rsq_le; auto; lra). lra.
      * intro H. assert (He : (X - Y) * (X - Y) <= (sq - sp) * (sq - sp)) by (apply Rsq_le_inv; lra).
        rewrite Hd2 in He. assert (H3 : w <= t) by (unfold t; lra).
        split; [lra | rewrite <- Hw2; apply Rsq_le_inv; auto].
  - apply Qle_bool_R_false in E1. fold P Qr in E1. assert (Hlt : sq < sp) by nra.
    destruct (Qle_bool (y - x) 0) eqn:E2.
    + apply Qle_bool_R in E2. rewrite Q2R_0, ED in E2. split; [discriminate | intro; lra].
    + apply Qle_bool_R_false in E2. rewrite Q2R_0, ED in E2.
      rewrite orb_true_iff, !Qle_bool_R, Q2R_0, ET, ET2, E4.
      set (t := P + Qr - (Y - X) * (Y - X)). split.
      * intro H12.
        assert (Htw : t <= w).
        { destruct H12 as [H1|H2]; [lra|]. destruct (Rle_dec t 0); [lra|]. apply Rsq_le; [lra | auto | lra]. }
        assert (He : (sp - sq) * (sp - sq) <= (Y - X) * (Y - X)).
        { replace ((sp - sq) * (sp - sq)) with ((sq - sp) * (sq - sp)) by ring. rewrite Hd2. unfold t in Htw. lra. }
        assert (sp - sq <= Y - X) by (apply Rsq_le; auto; lra). lra.
      * intro H. assert (He : (sp - sq) * (sp - sq) <= (Y - X) * (Y - X)) by (apply Rsq_le_inv; lra).
        replace ((sp - sq) * (sp - sq)) with ((sq - sp) * (sq - sp)) in He by ring. rewrite Hd2 in He.
        assert (H3 : t <= w) by (unfold t; lra).
        destruct (Rle_dec t 0); [left; auto | right]. rewrite <- Hw2. apply Rsq_le_inv; lra.
Qed.

(* ---------- value of an entry under an extra variance X ---------- *)
Definition uv (L : Q) (e : mo_entry) (X : Q) : R := rv (e_m e) ((e_b e + X) * L).

Lemma Q2R_nonneg : forall a : Q, (0 <= a)%Q -> 0 <= Q2R a.
Proof. intros a H. apply Qle_Rle in H. rewrite Q2R_0 in H. exact H. Qed.

Lemma uval_le_iff : forall L e1 x1 e2 x2, (0 <= L)%Q -> (0 <= e_b e1 + x1)%Q -> (0 <= e_b e2 + x2)%Q ->
  (uval_le L e1 x1 e2 x2 = true <-> uv L e1 x1 <= uv L e2 x2).
Proof.
  intros. unfold uval_le, uv. apply ssl_iff; apply Qmult_le_0_compat; auto.
Qed.

Lemma uv_mono : forall L e e' X X', (0 <= L)%Q -> (0 <= e_b e + X)%Q ->
  (e_m e <= e_m e')%Q -> (e_b e + X <= e_b e' + X')%Q -> uv L e X <= uv L e' X'.
Proof.
  intros L e e' X X' HL H0 Hm Hb. unfold uv, rv.
  apply Qle_Rle in Hm.
  assert (Hs : sqrt (Q2R ((e_b e + X) * L)) <= sqrt (Q2R ((e_b e' + X') * L))).
  { apply sqrt_le_1_alt. apply Qle_Rle. apply Qmult_le_compat_r; auto. }
  lra.
Qed.

(* ---------- strict dominance is a strict order; every entry has a maximal dominator ---------- *)
Lemma dom_spec : forall e o, dom e o = true <->
  (forall k, (cmp k (fst e) <= cmp k (fst o))%Q) /\ ~ (forall k, (cmp k (fst e) == cmp k (fst o))%Q).
Proof.
  intros e o. unfold dom. rewrite andb_true_iff, negb_true_iff, vle_spec. split.
  - intros [H1 H2]. split; auto. intro C. apply veqb_spec in C. congruence.
  - intros [H1 H2]. split; auto. destruct (veqb (fst e) (fst o)) eqn:E; auto. exfalso. apply H2. apply veqb_spec; auto.
Qed.

Lemma dom_trans : forall a b c, dom a b = true -> dom b c = true -> dom a c = true.
Proof.
  intros a b c H1 H2. apply dom_spec in H1. apply dom_spec in H2. apply dom_spec.
  destruct H1 as [A1 A2]. destruct H2 as [B1 B2]. split.
  - intro k. apply (Qle_trans _ (cmp k (fst b))); auto.
  - intro C. apply A2. intro k. apply Qle_antisym; auto.
    apply (Qle_trans _ (cmp k (fst c))); auto. rewrite <- (C k). apply Qle_refl.
Qed.

Lemma dom_irrefl : forall a, dom a a = false.
Proof.
  intro a. destruct (dom a a) eqn:E; auto. apply dom_spec in E. destruct E as [_ E]. exfalso. apply E. intro; apply Qeq_refl.
Qed.

Lemma filter_length_lt : forall (X : Type) (p q : X -> bool) (l : list X) (x : X),
  (forall y, p y = true -> q y = true) -> In x l -> q x = true -> p x = false ->
  (length (filter p l) < length (filter q l))%nat.
Proof.
  intros X p q l x Hpq. induction l as [|y l IH]; intros Hin Hq Hp; [destruct Hin|].
  assert (Hle : forall l', (length (filter p l') <= length (filter q l'))%nat).
  { induction l' as [|z l' IH']; cbn [filter]; auto.
    destruct (p z) eqn:E; [rewrite (Hpq z E); cbn [length]; lia|]. destruct (q z); cbn [length]; lia. }
  cbn [filter]. destruct Hin as [<-|Hin].
  - rewrite Hp, Hq. cbn [length]. specialize (Hle l). lia.
  - specialize (IH Hin Hq Hp). destruct (p y) eqn:E; [rewrite (Hpq y E); cbn [length]; lia|].
    destruct (q y); cbn [length]; lia.
Qed.

Lemma prune_dominator : forall l e, In e l ->
  exists o, In o (mo_prune_go l [] l) /\ forall k, (cmp k (fst e) <= cmp k (fst o))%Q.
Proof.
  intros l.
  assert (G : forall n e, In e l -> (length (filter (dom e) l) <= n)%nat ->
              exists o, In o (mo_prune_go l [] l) /\ forall k, (cmp k (fst e) <= cmp k (fst o))%Q).
  { induction n as [|n IH]; intros e He Hn.
    - destruct (prune_complete l l [] e He) as [e' [E1 E2]].
      + intros o Ho. destruct (dom e o) eqn:E; auto. exfalso.
        assert (Hin : In o (filter (dom e) l)) by (apply filter_In; auto).
        destruct (filter (dom e) l); [destruct Hin | cbn [length] in Hn; lia].
      + exists e'. split; auto. intro k. rewrite (proj1 (veqb_spec _ _) E2 k). apply Qle_refl.
    - destruct (existsb (dom e) l) eqn:Ex.
      + apply existsb_exists in Ex. destruct Ex as [o1 [Ho1 Hd]].
        assert (Hlt : (length (filter (dom o1) l) < length (filter (dom e) l))%nat).
        { apply (filter_length_lt _ (dom o1) (dom e) l o1); auto.
          - intros y Hy. apply (dom_trans e o1 y); auto.
          - apply dom_irrefl. }
        destruct (IH o1 Ho1 ltac:(lia)) as [o [O1 O2]]. exists o. split; auto.
        intro k. apply (Qle_trans _ (cmp k (fst o1))); auto. apply dom_spec in Hd. apply Hd.
      + destruct (prune_complete l l [] e He) as [e' [E1 E2]].
        * intros o Ho. destruct (dom e o) eqn:E; auto. exfalso.
          assert (existsb (dom e) l = true) by (apply existsb_exists; exists o; auto). congruence.
        * exists e'. split; auto. intro k. rewrite (proj1 (veqb_spec _ _) E2 k). apply Qle_refl. }
  intros e He. apply (G (length (filter (dom e) l)) e He). lia.
Qed.

Lemma prune_subset : forall l e, In e (mo_prune_go l [] l) -> In e l.
Proof. intros l e H. destruct (prune_sound l l [] e H) as [[]|[H1 _]]. exact H1. Qed.

(* ---------- max_element_unary and the pruning block ---------- *)
Definition eok (e : mo_entry) : Prop := (0 <= e_b e)%Q.

Lemma argmax_spec : forall L x, (0 <= L)%Q -> (0 <= x)%Q ->
  forall l pre best bi, eok best -> (forall e, In e l -> eok e) ->
    nth_error (pre ++ l) bi = Some best ->
    let r := uc_argmax_go L x best bi (length pre) l in
    uv L best x <= uv L (snd r) x /\ (forall e, In e l -> uv L e x <= uv L (snd r) x) /\
    nth_error (pre ++ l) (fst r) = Some (snd r) /\ eok (snd r).
Proof.
  intros L x HL Hx. induction l as [|e t IH]; intros pre best bi Hb Hl Hn; cbn [uc_argmax_go].
  - cbn [fst snd]. split; [lra | split; [intros e [] | auto]].
  - assert (He : eok e) by (apply Hl; left; auto).
    assert (Hpos : forall e', eok e' -> (0 <= e_b e' + x)%Q).
    { intros e' H'. unfold eok in H'. rewrite <- (Qplus_0_r 0). apply Qplus_le_compat; auto. }
    assert (Eapp : pre ++ e :: t = (pre ++ [e]) ++ t) by (rewrite <- app_assoc; reflexivity).
    assert (Elen : S (length pre) = length (pre ++ [e])) by (rewrite app_length; cbn [length]; lia).
    destruct (uval_le L e x best x) eqn:E.
    + apply uval_le_iff in E; auto.
      rewrite Elen. rewrite Eapp in Hn.
      destruct (IH (pre ++ [e]) best bi Hb (fun e' H' => Hl e' (or_intror H')) Hn) as [I1 [I2 [I3 I4]]].
      rewrite Eapp. split; [auto | split; [|auto]]. intros e' [<-|H']; [lra | auto].
    + assert (E' : uv L best x < uv L e x).
      { apply Rnot_le_lt. intro C. apply (uval_le_iff L e x best x) in C; auto. congruence. }
      rewrite Elen.
      assert (Hn' : nth_error ((pre ++ [e]) ++ t) (length pre) = Some e).
      { rewrite <- Eapp. rewrite nth_error_app2 by lia. rewrite Nat.sub_diag. reflexivity. }
      destruct (IH (pre ++ [e]) e (length pre) He (fun e' H' => Hl e' (or_intror H')) Hn') as [I1 [I2 [I3 I4]]].
      rewrite Eapp. split; [lra | split; [|auto]]. intros e' [<-|H']; [auto | auto].
Qed.

Lemma in_combine_seq : forall (X : Type) (l : list X) s i x, nth_error l i = Some x ->
  In ((s + i)%nat, x) (combine (seq s (length l)) l).
Proof.
  intros X. induction l as [|y l IH]; intros s i x H; [destruct i; discriminate H|].
  cbn [length seq combine]. destruct i as [|i]; cbn [nth_error] in H.
  - injection H as <-. left. f_equal. lia.
  - right. replace (s + S i)%nat with (S s + i)%nat by lia. apply IH; auto.
Qed.

Lemma uc_prune_sound : forall L xl xu tmp, (0 <= L)%Q -> (0 <= xl)%Q ->
  (forall e, In e tmp -> eok e) ->
  forall e, In e tmp ->
    exists e', In e' (uc_prune L xl xu tmp) /\ In e' tmp /\
               forall X, (xl <= X)%Q -> (X <= xu)%Q -> uv L e X <= uv L e' X.
Proof.
  intros L xl xu tmp HL Hxl Hok e He. unfold uc_prune.
  destruct (prune_dominator tmp e He) as [o [Ho Heo]].
  assert (Hnd_ok : forall e', In e' (mo_prune_go tmp [] tmp) -> eok e') by (intros; apply Hok; apply prune_subset; auto).
  destruct (mo_prune_go tmp [] tmp) as [|e0 rest] eqn:End; [destruct Ho|].
  assert (Hsub : forall e', In e' (e0 :: rest) -> In e' tmp) by (intros e' H'; apply prune_subset; rewrite End; auto).
  assert (A := argmax_spec L xl HL Hxl rest [e0] e0 0 (Hnd_ok e0 (or_introl eq_refl))
                 (fun e' H' => Hnd_ok e' (or_intror H')) eq_refl).
  cbn [length app] in A. destruct (uc_argmax_go L xl e0 0 1 rest) as [bi best]. cbn [fst snd] in A.
  destruct A as [A1 [A2 [A3 A4]]].
  assert (Hbest_in : In best (e0 :: rest)) by (apply (nth_error_In _ _ A3)).
  assert (Hall : forall e', In e' (e0 :: rest) -> uv L e' xl <= uv L best xl) by (intros e' [<-|H']; auto).
  assert (Hpos : forall e' X, eok e' -> (xl <= X)%Q -> (0 <= e_b e' + X)%Q).
  { intros e' X H' HX. unfold eok in H'. rewrite <- (Qplus_0_r 0). apply Qplus_le_compat; auto. apply (Qle_trans _ xl); auto. }
  assert (Heo_uv : forall X, (xl <= X)%Q -> uv L e X <= uv L o X).
  { intros X HX. apply (uv_mono L e o X X HL (Hpos e X (Hok e He) HX) (Heo 0%nat)).
    apply Qplus_le_compat; [apply (Heo 1%nat) | apply Qle_refl]. }
  destruct (In_nth_error _ _ Ho) as [idx Hidx].
  destruct (Nat.eq_dec idx bi) as [->|Hne].
  - rewrite A3 in Hidx. injection Hidx as <-. exists best. split; [left; auto | split; [auto|]]. intros; auto.
  - destruct (uval_le L o xu best xl) eqn:E.
    + exists best. split; [left; auto | split; [auto|]]. intros X H1 H2.
      assert (Hxu : (xl <= xu)%Q) by (apply (Qle_trans _ X); auto).
      assert (Hoo' : eok o) by (apply Hnd_ok; auto).
      apply (uval_le_iff L o xu best xl HL (Hpos o xu Hoo' Hxu) (Hpos best xl A4 (Qle_refl _))) in E.
      assert (Hoo : eok o) by (apply Hnd_ok; auto).
      assert (M1 : uv L o X <= uv L o xu).
      { apply (uv_mono L o o X xu HL (Hpos o X Hoo H1) (Qle_refl _)). apply Qplus_le_compat; [apply Qle_refl | auto]. }
      assert (M2 : uv L best xl <= uv L best X).
      { apply (uv_mono L best best xl X HL (Hpos best xl A4 (Qle_refl _)) (Qle_refl _)). apply Qplus_le_compat; [apply Qle_refl | auto]. }
      specialize (Heo_uv X H1). lra.
    + exists o. split; [|split; [auto | intros; auto]]. right. apply in_map_iff. exists (idx, o). split; [reflexivity|].
      apply filter_In. split.
      * assert (H := in_combine_seq _ (e0 :: rest) 0 idx o Hidx). cbn [length] in H. exact H.
      * cbn [fst snd]. rewrite E. apply andb_true_iff. split; [|reflexivity].
        apply negb_true_iff. apply Nat.eqb_neq. auto.
Qed.

(* ---------- the pruned cross-sum over an agent's factors ---------- *)
Definition val (L m b : Q) : R := rv m (b * L).

Lemma val_eq : forall L m m' b b', (m == m')%Q -> (b == b')%Q -> val L m b = val L m' b'.
Proof.
  intros L m m' b b' Hm Hb. unfold val, rv. rewrite (Qeq_eqR _ _ Hm).
  assert (E : (b * L == b' * L)%Q) by (rewrite Hb; apply Qeq_refl). rewrite (Qeq_eqR _ _ E). reflexivity.
Qed.

Lemma uv_val : forall L e X, uv L e X = val L (e_m e) (e_b e + X).
Proof. reflexivity. Qed.

(* "e' is at least as good as the pair (m, b) whatever extra variance X in [xl, u] comes" *)
Definition Dom (L xl u : Q) (m b : Q) (e' : mo_entry) : Prop :=
  forall X, (xl <= X)%Q -> (X <= u)%Q -> val L m (b + X) <= uv L e' X.

Lemma val_shift : forall L m b fm fb X,
  val L (m + fm) (b + fb + X) = Q2R fm + val L m (b + (fb + X)).
Proof.
  intros. unfold val, rv. rewrite Q2R_plus.
  assert (E : ((b + fb + X) * L == (b + (fb + X)) * L)%Q) by ring. rewrite (Qeq_eqR _ _ E). lra.
Qed.

Lemma Dom_cross : forall L xl u m b e fe, (0 <= e_b fe)%Q ->
  Dom L xl u m b e ->
  Dom L xl (u - e_b fe) (m + e_m fe) (b + e_b fe) (vplus (fst e) (fst fe), merge_tag (snd e) (snd fe)).
Proof.
  intros L xl u m b e fe Hfe HD X H1 H2.
  assert (Em : (e_m (vplus (fst e) (fst fe), merge_tag (snd e) (snd fe)) == e_m e + e_m fe)%Q) by (apply (cmp_vplus (fst e) (fst fe) 0)).
  assert (Eb : (e_b (vplus (fst e) (fst fe), merge_tag (snd e) (snd fe)) == e_b e + e_b fe)%Q) by (apply (cmp_vplus (fst e) (fst fe) 1)).
  rewrite uv_val.
  rewrite (val_eq L _ (e_m e + e_m fe) _ (e_b e + e_b fe + X) Em) by (rewrite Eb; apply Qeq_refl).
  rewrite !val_shift. rewrite <- uv_val.
  assert (HX1 : (xl <= e_b fe + X)%Q) by Lqa.lra.
  assert (HX2 : (e_b fe + X <= u)%Q) by Lqa.lra.
  specialize (HD _ HX1 HX2). lra.
Qed.

Lemma Dom_weaken : forall L xl u u' m b e, (u' <= u)%Q -> Dom L xl u m b e -> Dom L xl u' m b e.
Proof. intros L xl u u' m b e Hu HD X H1 H2. apply HD; auto. apply (Qle_trans _ u'); auto. Qed.

Lemma Dom_trans : forall L xl u m b e e', Dom L xl u m b e ->
  (forall X, (xl <= X)%Q -> (X <= u)%Q -> uv L e X <= uv L e' X) -> Dom L xl u m b e'.
Proof. intros L xl u m b e e' H1 H2 X A B. specialize (H1 X A B). specialize (H2 X A B). lra. Qed.

Definition ustep (L xl xu : Q) (acc f : mo_factor) : mo_factor :=
  match mo_cross acc f with
  | [] => acc
  | tmp => if (length acc <? length tmp)%nat && (1 <? length tmp)%nat then uc_prune L xl xu tmp else tmp
  end.

Lemma ustep_nil_r : forall L xl xu acc, ustep L xl xu acc [] = acc.
Proof.
  intros. unfold ustep. rewrite mo_cross_nil_r. destruct acc as [|a acc]; [reflexivity|].
  rewrite Nat.ltb_irrefl. reflexivity.
Qed.

Lemma uc_cross_sum_fold : forall A L xl xu Fv jv,
  uc_cross_sum A L xl xu Fv jv = fold_left (ustep L xl xu) (map (fun nd => mden A nd jv) Fv) [].
Proof.
  intros. unfold uc_cross_sum. generalize (@nil mo_entry) as acc.
  induction Fv as [|nd Fv IH]; intro acc; cbn [fold_left map]; auto.
  rewrite <- IH. f_equal. unfold mden, mfind_den.
  destruct (mo_lb_find (pidx (fst nd) A jv) (snd nd)) as [f|]; [reflexivity | rewrite ustep_nil_r; reflexivity].
Qed.

(* entries of one step come from the cross-sum; a good entry keeps a good representative *)
Lemma ustep_sound : forall L xl xu acc f, (0 <= L)%Q -> (0 <= xl)%Q ->
  (forall e, In e (mo_cross acc f) -> eok e) ->
  forall e, In e (mo_cross acc f) ->
    exists e', In e' (ustep L xl xu acc f) /\ In e' (mo_cross acc f) /\
               forall X, (xl <= X)%Q -> (X <= xu)%Q -> uv L e X <= uv L e' X.
Proof.
  intros L xl xu acc f HL Hxl Hok e He. unfold ustep.
  destruct (mo_cross acc f) as [|t0 tmp] eqn:E; [destruct He|].
  destruct ((length acc <? length (t0 :: tmp))%nat && (1 <? length (t0 :: tmp))%nat).
  - apply uc_prune_sound; auto.
  - exists e. split; [auto | split; [auto|]]. intros. lra.
Qed.

Lemma eok_cross : forall l r, (forall e, In e l -> eok e) -> (forall e, In e r -> eok e) ->
  forall e, In e (mo_cross l r) -> eok e.
Proof.
  intros l r Hl Hr e He. destruct l as [|l0 l']; [apply Hr; exact He|].
  destruct r as [|r0 r']; [apply Hl; exact He|].
  apply (proj1 (mo_cross_in (l0 :: l') (r0 :: r') e ltac:(discriminate) ltac:(discriminate))) in He.
  destruct He as [le [re [H1 [H2 ->]]]]. unfold eok.
  assert (Eb : (e_b (vplus (fst le) (fst re), merge_tag (snd le) (snd re)) == e_b le + e_b re)%Q) by (apply (cmp_vplus (fst le) (fst re) 1)).
  rewrite Eb. rewrite <- (Qplus_0_r 0). apply Qplus_le_compat; [apply Hl | apply Hr]; auto.
Qed.

Lemma argmax_in : forall L x l best bi i, In (snd (uc_argmax_go L x best bi i l)) (best :: l).
Proof.
  intros L x. induction l as [|e t IH]; intros best bi i; cbn [uc_argmax_go].
  - left; reflexivity.
  - destruct (uval_le L e x best x).
    + destruct (IH best bi (S i)) as [H|H]; [left; auto | right; right; auto].
    + destruct (IH e i (S i)) as [H|H]; [right; left; auto | right; right; auto].
Qed.

Lemma ustep_subset : forall L xl xu acc f e, In e (ustep L xl xu acc f) -> In e (mo_cross acc f) \/ (mo_cross acc f = [] /\ In e acc).
Proof.
  intros L xl xu acc f e He. unfold ustep in He. destruct (mo_cross acc f) as [|t0 tmp] eqn:E; [right; auto|].
  left. destruct ((length acc <? length (t0 :: tmp))%nat && (1 <? length (t0 :: tmp))%nat); auto.
  unfold uc_prune in He. destruct (mo_prune_go (t0 :: tmp) [] (t0 :: tmp)) as [|e0 rest] eqn:En; [destruct He|].
  destruct (uc_argmax_go L xl e0 0 1 rest) as [bi best] eqn:Ea.
  assert (Hsub : forall x, In x (e0 :: rest) -> In x (t0 :: tmp)) by (intros x Hx; apply prune_subset; rewrite En; auto).
  destruct He as [<-|He].
  - (* best is an element of e0 :: rest *)
    assert (Hb : In best (e0 :: rest)).
    { assert (H := argmax_in L xl rest e0 0%nat 1%nat). rewrite Ea in H. exact H. }
    apply Hsub; auto.
  - apply in_map_iff in He. destruct He as [[i x] [<- Hx]]. apply filter_In in Hx. destruct Hx as [Hx _].
    apply in_combine_r in Hx. apply Hsub; auto.
Qed.

Definition csm (s : list mo_entry) : Q := csum 0 s.
Definition csb (s : list mo_entry) : Q := csum 1 s.

(* main lemma of the pruned cross-sum: a partial entry that is represented in [acc] stays
   represented, against every selection of the remaining factors, on the correspondingly
   smaller range of extra variances *)
Lemma fold_ustep_dom : forall L xl xu, (0 <= L)%Q -> (0 <= xl)%Q ->
  forall Ls acc u m b e s,
    (forall x, In x acc -> eok x) -> (forall f x, In f Ls -> In x f -> eok x) ->
    (u <= xu)%Q -> In e acc -> Dom L xl u m b e -> Sel Ls s ->
    exists r, In r (fold_left (ustep L xl xu) Ls acc) /\ Dom L xl (u - csb s) (m + csm s) (b + csb s) r.
Proof.
  intros L xl xu HL Hxl. induction Ls as [|f Ls IH]; intros acc u m b e s Hacc HLs Hu He HD HS.
  - cbn [Sel] in HS. subst s. cbn [fold_left]. exists e. split; [auto|].
    intros X H1 H2. unfold csb, csm in *. rewrite csum_nil in H2.
    assert (E1 : (m + csum 0 [] == m)%Q) by (rewrite csum_nil; ring).
    assert (E2 : (b + csum 1 [] + X == b + X)%Q) by (rewrite csum_nil; ring).
    rewrite (val_eq L _ m _ (b + X) E1 E2). apply HD; auto. Lqa.lra.
  - cbn [fold_left]. apply Sel_cons in HS. destruct HS as [[-> HS]|[Hne [fe [s' [-> [Hfe HS]]]]]].
    + rewrite ustep_nil_r. apply (IH acc u m b e s); auto. intros f' x Hf' Hx. apply (HLs f' x); [right; auto | auto].
    + assert (Hfe_ok : eok fe) by (apply (HLs f fe); [left; auto | auto]).
      assert (Hacc_ne : acc <> []) by (intro C; subst; destruct He).
      set (ef := (vplus (fst e) (fst fe), merge_tag (snd e) (snd fe))).
      assert (Hin : In ef (mo_cross acc f)).
      { apply mo_cross_in; auto. exists e, fe. auto. }
      assert (Hok_t : forall x, In x (mo_cross acc f) -> eok x).
      { apply eok_cross; auto. intros x Hx. apply (HLs f x); [left; auto | auto]. }
      destruct (ustep_sound L xl xu acc f HL Hxl Hok_t ef Hin) as [e2 [E1 [E2 E3]]].
      assert (HD1 : Dom L xl (u - e_b fe) (m + e_m fe) (b + e_b fe) ef) by (apply Dom_cross; auto).
      assert (Hu' : (u - e_b fe <= xu)%Q).
      { unfold eok in Hfe_ok. Lqa.lra. }
      assert (HD2 : Dom L xl (u - e_b fe) (m + e_m fe) (b + e_b fe) e2).
      { apply (Dom_trans L xl _ _ _ ef); auto. intros X A B. apply E3; auto. apply (Qle_trans _ _ _ B Hu'). }
      destruct (IH (ustep L xl xu acc f) (u - e_b fe)%Q (m + e_m fe)%Q (b + e_b fe)%Q e2 s') as [r [R1 R2]]; auto.
      * intros x Hx. destruct (ustep_subset _ _ _ _ _ _ Hx) as [H|[_ H]]; auto.
      * intros f' x Hf' Hx. apply (HLs f' x); [right; auto | auto].
      * exists r. split; [auto|]. intros X A B. unfold csm, csb in *.
        assert (Em : (m + csum 0 (fe :: s') == m + e_m fe + csum 0 s')%Q) by (rewrite csum_cons; unfold e_m, cmp; ring).
        assert (Eb : (b + csum 1 (fe :: s') + X == b + e_b fe + csum 1 s' + X)%Q) by (rewrite csum_cons; unfold e_b, cmp; ring).
        rewrite (val_eq L _ _ _ _ Em Eb). apply R2; auto.
        assert (Ec := csum_cons 1 fe s'). unfold e_b, cmp in *. Lqa.lra.
Qed.

(* the pruned cross-sum of an agent's factors keeps, for EVERY selection of their entries, an entry
   that is at least as good under every extra variance X with xl <= X and X + (bonus of the
   selection) <= xu *)
Theorem uc_cross_sum_dom_lemma : forall A L xl xu Fv jv s, (0 <= L)%Q -> (0 <= xl)%Q ->
  (forall nd x, In nd Fv -> In x (mden A nd jv) -> eok x) ->
  Sel (map (fun nd => mden A nd jv) Fv) s -> s <> [] ->
  exists r, In r (uc_cross_sum A L xl xu Fv jv) /\
            forall X, (xl <= X)%Q -> (X + csb s <= xu)%Q -> val L (csm s) (csb s + X) <= uv L r X.
Proof.
  intros A L xl xu Fv jv s HL Hxl Hok HS Hne. rewrite uc_cross_sum_fold.
  assert (HLs : forall f x, In f (map (fun nd => mden A nd jv) Fv) -> In x f -> eok x).
  { intros f x Hf Hx. apply in_map_iff in Hf. destruct Hf as [nd [<- Hnd]]. apply (Hok nd x); auto. }
  revert HS HLs. generalize (map (fun nd => mden A nd jv) Fv) as Ls. clear Hok.
  induction Ls as [|f Ls IH]; intros HS HLs.
  - cbn [Sel] in HS. contradiction.
  - cbn [fold_left]. apply Sel_cons in HS. destruct HS as [[-> HS]|[Hfne [fe [s' [-> [Hfe HS]]]]]].
    + rewrite ustep_nil_r. apply IH; auto. intros f' x Hf' Hx. apply (HLs f' x); [right; auto | auto].
    + assert (Hok_f : forall x, In x (mo_cross [] f) -> eok x) by (intros x Hx; apply (HLs f x); [left; auto | exact Hx]).
      destruct (ustep_sound L xl xu [] f HL Hxl Hok_f fe Hfe) as [e2 [E1 [E2 E3]]].
      assert (P1 : forall x, In x (ustep L xl xu [] f) -> eok x).
      { intros x Hx. destruct (ustep_subset _ _ _ _ _ _ Hx) as [H|[_ []]]. apply Hok_f; auto. }
      assert (P2 : forall f' x, In f' Ls -> In x f' -> eok x).
      { intros f' x Hf' Hx. apply (HLs f' x); [right; auto | auto]. }
      assert (P3 : Dom L xl xu (e_m fe) (e_b fe) e2).
      { intros X A1 B1. rewrite <- uv_val. apply E3; auto. }
      destruct (fold_ustep_dom L xl xu HL Hxl Ls (ustep L xl xu [] f) xu (e_m fe) (e_b fe) e2 s' P1 P2 (Qle_refl xu) E1 P3 HS) as [r [R1 R2]].
      exists r. split; [auto|]. intros X A1 B1.
        assert (Em : (csm (fe :: s') == e_m fe + csm s')%Q) by (unfold csm; rewrite csum_cons; reflexivity).
        assert (Eb : (csb (fe :: s') + X == e_b fe + csb s' + X)%Q) by (unfold csb; rewrite csum_cons; reflexivity).
        rewrite (val_eq L _ _ _ _ Em Eb). apply R2; auto.
        assert (Ec : (csb (fe :: s') == e_b fe + csb s')%Q) by (unfold csb; rewrite csum_cons; reflexivity).
        assert (Hfe_ok : (0 <= e_b fe)%Q) by (apply (Hok_f fe Hfe)).
        Lqa.lra.
Qed.

