(* C13/ProofsUCVE.v — first facts about the UCVE model's bound bookkeeping: the variance range
   [uc_range] of a factor contains the bonus of every entry of every rule of the factor, and 0
   whenever the factor has fewer rules than local joint actions (an unmentioned local action
   contributes (0,0)).  The full theorem (pruning with these bounds never removes an entry of an
   optimal joint action) is not proved yet. *)
From Coq Require Import List Arith QArith Bool Lia Lqa.
From AIT Require Import C13.Model C13.Spec.
Import ListNotations.
Local Open Scope nat_scope.

Lemma qmaxl_spec : forall l d, (d <= qmaxl d l)%Q /\ forall x, In x l -> (x <= qmaxl d l)%Q.
Proof.
  unfold qmaxl. induction l as [|y l IH]; intro d; cbn [fold_left].
  - split; [apply Qle_refl | intros x []].
  - destruct (Qle_bool d y) eqn:E.
    + apply Qle_bool_iff in E. destruct (IH y) as [I1 I2]. split; [apply (Qle_trans _ y); auto|].
      intros x [<-|Hx]; auto.
    + assert (E' : (y < d)%Q). { apply Qnot_le_lt. intro C. apply Qle_bool_iff in C. congruence. }
      destruct (IH d) as [I1 I2]. split; [auto|]. intros x [<-|Hx]; [apply (Qle_trans _ d); [apply Qlt_le_weak; auto | auto] | auto].
Qed.

Lemma qminl_spec : forall l d, (qminl d l <= d)%Q /\ forall x, In x l -> (qminl d l <= x)%Q.
Proof.
  unfold qminl. induction l as [|y l IH]; intro d; cbn [fold_left].
  - split; [apply Qle_refl | intros x []].
  - destruct (Qle_bool y d) eqn:E.
    + apply Qle_bool_iff in E. destruct (IH y) as [I1 I2]. split; [apply (Qle_trans _ y); auto|].
      intros x [<-|Hx]; auto.
    + assert (E' : (d < y)%Q). { apply Qnot_le_lt. intro C. apply Qle_bool_iff in C. congruence. }
      destruct (IH d) as [I1 I2]. split; [auto|]. intros x [<-|Hx]; [apply (Qle_trans _ d); [auto | apply Qlt_le_weak; auto] | auto].
Qed.

Theorem uc_range_sound_lemma : forall A (nd : mo_node),
  (forall i f e, In (i, f) (snd nd) -> In e f ->
     (snd (uc_range A nd) <= e_b e)%Q /\ (e_b e <= fst (uc_range A nd))%Q) /\
  (length (snd nd) < psize (fst nd) A -> (snd (uc_range A nd) <= 0)%Q /\ (0 <= fst (uc_range A nd))%Q).
Proof.
  intros A nd. unfold uc_range.
  destruct (flat_map (fun r : nat * mo_factor => map e_b (snd r)) (snd nd)) as [|b0 bs] eqn:E.
  - split; [|intros _; cbn [fst snd]; split; apply Qle_refl].
    intros i f e Hr He. exfalso.
    assert (Hin : In (e_b e) (flat_map (fun r : nat * mo_factor => map e_b (snd r)) (snd nd))).
    { apply in_flat_map. exists (i, f). split; [auto | apply in_map; auto]. }
    rewrite E in Hin. destruct Hin.
  - destruct (qmaxl_spec bs b0) as [M1 M2]. destruct (qminl_spec bs b0) as [N1 N2].
    assert (Hall : forall x, In x (b0 :: bs) -> (qminl b0 bs <= x)%Q /\ (x <= qmaxl b0 bs)%Q).
    { intros x [<-|Hx]; auto. }
    assert (Hent : forall i f e, In (i, f) (snd nd) -> In e f -> In (e_b e) (b0 :: bs)).
    { intros i f e Hr He. rewrite <- E. apply in_flat_map. exists (i, f). split; [auto | apply in_map; auto]. }
    destruct (length (snd nd) <? psize (fst nd) A) eqn:Es.
    + assert (Hmx : (qmaxl b0 bs <= (if Qle_bool (qmaxl b0 bs) 0 then 0 else qmaxl b0 bs))%Q /\
                    (0 <= (if Qle_bool (qmaxl b0 bs) 0 then 0 else qmaxl b0 bs))%Q).
      { destruct (Qle_bool (qmaxl b0 bs) 0) eqn:E1.
        - apply Qle_bool_iff in E1. split; [auto | apply Qle_refl].
        - split; [apply Qle_refl|]. apply Qlt_le_weak. apply Qnot_le_lt. intro C. apply Qle_bool_iff in C. congruence. }
      assert (Hmn : ((if Qle_bool 0 (qminl b0 bs) then 0 else qminl b0 bs) <= qminl b0 bs)%Q /\
                    ((if Qle_bool 0 (qminl b0 bs) then 0 else qminl b0 bs) <= 0)%Q).
      { destruct (Qle_bool 0 (qminl b0 bs)) eqn:E2.
        - apply Qle_bool_iff in E2. split; [auto | apply Qle_refl].
        - split; [apply Qle_refl|]. apply Qlt_le_weak. apply Qnot_le_lt. intro C. apply Qle_bool_iff in C. congruence. }
      destruct Hmx as [X1 X2]. destruct Hmn as [Y1 Y2]. cbn [fst snd]. split.
      * intros i f e Hr He. destruct (Hall _ (Hent i f e Hr He)) as [H1 H2]. split.
        -- apply (Qle_trans _ (qminl b0 bs)); auto.
        -- apply (Qle_trans _ (qmaxl b0 bs)); auto.
      * intros _. split; auto.
    + split.
      * intros i f e Hr He. cbn [fst snd]. apply Hall. apply (Hent i f e Hr He).
      * intro H. apply Nat.ltb_ge in Es. lia.
Qed.
