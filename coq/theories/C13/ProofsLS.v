(* C13/ProofsLS.v — the dense graph used by LocalSearch / MaxPlus / RILS evaluates every joint
   action to its true total payoff (so the value these maximisers report is the true one). *)
From Coq Require Import List Arith QArith Bool Lia Lqa.
From AIT Require Import C13.Model C13.Spec C13.ProofsBase C13.ProofsGraph.
Import ListNotations.
Local Open Scope nat_scope.

Definition lsval (A : list nat) (g : list ls_node) (a : list nat) : Q :=
  qsum (map (fun nd : ls_node => nth (pidx (fst nd) A a) (snd nd) 0%Q) g).

Lemma evaluate_graph_lsval : forall A g a, (evaluate_graph A g a == lsval A g a)%Q.
Proof.
  intros A g a. unfold evaluate_graph, lsval.
  assert (G : forall acc, (fold_left (fun (acc : Q) (nd : ls_node) => (acc + nth (pidx (fst nd) A a) (snd nd) 0%Q)%Q) g acc
                           == acc + qsum (map (fun nd : ls_node => nth (pidx (fst nd) A a) (snd nd) 0%Q) g))%Q).
  { induction g as [|nd g IH]; intro acc; cbn [fold_left map qsum]; [lra | rewrite IH; lra]. }
  rewrite G. lra.
Qed.

Definition has_node (keys : list nat) (g : list ls_node) : bool :=
  existsb (fun nd : ls_node => list_eqb (fst nd) keys) g.
Definition lswf (A : list nat) (g : list ls_node) : Prop :=
  forall nd, In nd g -> length (snd nd) = psize (fst nd) A.

Lemma list_eqb_refl : forall l, list_eqb l l = true.
Proof. induction l as [|x l IH]; cbn [list_eqb]; auto. rewrite Nat.eqb_refl, IH. reflexivity. Qed.

Lemma has_node_app : forall keys g1 g2, has_node keys (g1 ++ g2) = has_node keys g1 || has_node keys g2.
Proof. intros. unfold has_node. apply existsb_app. Qed.

Lemma ls_make_spec : forall A rs0,
  lswf A (ls_make A rs0) /\ forall r0, In r0 rs0 -> has_node (r_keys r0) (ls_make A rs0) = true.
Proof.
  intros A rs0. unfold ls_make.
  set (step := fun (g : list ls_node) (r : rule) =>
                 if existsb (fun nd : ls_node => list_eqb (fst nd) (r_keys r)) g then g
                 else g ++ [(r_keys r, repeat 0%Q (psize (r_keys r) A))]).
  assert (G : forall g, lswf A g ->
            lswf A (fold_left step rs0 g) /\
            (forall keys, has_node keys g = true -> has_node keys (fold_left step rs0 g) = true) /\
            (forall r0, In r0 rs0 -> has_node (r_keys r0) (fold_left step rs0 g) = true)).
  { induction rs0 as [|r rs0 IH]; intros g Hg; cbn [fold_left].
    - split; [auto | split; [auto | intros r0 []]].
    - assert (Hs : lswf A (step g r) /\ has_node (r_keys r) (step g r) = true /\
                   (forall keys, has_node keys g = true -> has_node keys (step g r) = true)).
      { unfold step. fold (has_node (r_keys r) g). destruct (has_node (r_keys r) g) eqn:E.
        - auto.
        - split; [|split].
          + intros nd Hnd. apply in_app_iff in Hnd. destruct Hnd as [Hnd|[Hnd|[]]]; [auto|].
            subst nd. cbn [fst snd]. apply repeat_length.
          + rewrite has_node_app. unfold has_node at 2. cbn [existsb fst]. rewrite list_eqb_refl.
            rewrite orb_true_r. reflexivity.
          + intros keys Hk. rewrite has_node_app, Hk. reflexivity. }
      destruct Hs as [S1 [S2 S3]]. destruct (IH (step g r) S1) as [I1 [I2 I3]].
      split; [auto | split].
      + intros keys Hk. apply I2. apply S3. auto.
      + intros r0 [H0|H0]; [subst r0; apply I2; auto | apply I3; auto]. }
  destruct (G []) as [G1 [_ G3]]; [intros nd [] | auto].
Qed.

Lemma nth_vadd : forall d id v j, id < length d ->
  (nth j (vadd id v d) 0 == nth j d 0 + (if j =? id then v else 0))%Q.
Proof.
  induction d as [|x d IH]; intros id v j H; cbn [length] in H; [lia|].
  destruct id as [|id]; destruct j as [|j]; cbn [vadd nth Nat.eqb]; try lra.
  apply IH. lia.
Qed.

Lemma vadd_length : forall d id v, length (vadd id v d) = length d.
Proof. induction d as [|x d IH]; intros [|id] v; cbn [vadd length]; auto. Qed.

Lemma pidx_pf_lt : forall A keys vals,
  Forall2 (fun k x => k < length A /\ x < nth k A 0) keys vals -> pidx_pf keys vals A < psize keys A.
Proof.
  intros A keys vals HF. induction HF as [|k x ks xs [_ Hx] HF IH]; cbn [pidx_pf psize]; [lia | nia].
Qed.

Lemma ls_add_spec : forall A keys id v g a,
  lswf A g -> has_node keys g = true -> id < psize keys A ->
  lswf A (ls_add keys id v g) /\
  (forall ks, has_node ks (ls_add keys id v g) = has_node ks g) /\
  (lsval A (ls_add keys id v g) a == lsval A g a + (if pidx keys A a =? id then v else 0))%Q.
Proof.
  intros A keys id v g a. induction g as [|[vs d] g IH]; intros Hw Hn Hid; [discriminate Hn|].
  cbn [ls_add]. unfold has_node in Hn. cbn [existsb fst] in Hn. destruct (list_eqb vs keys) eqn:E.
  - apply list_eqb_eq in E. subst vs. split; [|split].
    + intros nd [Hnd|Hnd]; [subst nd; cbn [fst snd]; rewrite vadd_length; apply (Hw (keys, d)); left; auto | apply Hw; right; auto].
    + intro ks. reflexivity.
    + unfold lsval. cbn [map qsum fst snd].
      assert (Hl : length d = psize keys A) by (apply (Hw (keys, d)); left; auto).
      rewrite (nth_vadd d id v (pidx keys A a)) by lia. lra.
  - cbn [orb] in Hn. assert (Hw' : lswf A g) by (intros nd Hnd; apply Hw; right; auto).
    destruct (IH Hw' Hn Hid) as [I1 [I2 I3]]. split; [|split].
    + intros nd [Hnd|Hnd]; [subst nd; apply (Hw (vs, d)); left; auto | apply I1; auto].
    + intro ks. unfold has_node in *. cbn [existsb fst]. rewrite I2. reflexivity.
    + unfold lsval in *. cbn [map qsum]. rewrite I3. lra.
Qed.

Lemma nth_map_zero : forall (d : list Q) j, nth j (map (fun _ : Q => 0%Q) d) 0%Q = 0%Q.
Proof. induction d as [|x d IH]; intros [|j]; cbn [map nth]; auto. Qed.

Lemma zero_graph_spec : forall A g a, lswf A g ->
  lswf A (map (fun nd : ls_node => (fst nd, map (fun _ : Q => 0%Q) (snd nd))) g) /\
  (forall ks, has_node ks (map (fun nd : ls_node => (fst nd, map (fun _ : Q => 0%Q) (snd nd))) g) = has_node ks g) /\
  (lsval A (map (fun nd : ls_node => (fst nd, map (fun _ : Q => 0%Q) (snd nd))) g) a == 0)%Q.
Proof.
  intros A g a. induction g as [|nd g IH]; intro Hw.
  - split; [intros nd [] | split; [reflexivity | unfold lsval; cbn [map qsum]; lra]].
  - assert (Hw' : lswf A g) by (intros nd' Hnd'; apply Hw; right; auto).
    destruct (IH Hw') as [I1 [I2 I3]]. split; [|split].
    + intros nd' [Hnd'|Hnd']; [subst nd'; cbn [fst snd]; rewrite map_length; apply Hw; left; auto | apply I1; auto].
    + intro ks. unfold has_node in *. cbn [map existsb fst]. rewrite I2. reflexivity.
    + unfold lsval in *. cbn [map qsum fst snd]. rewrite nth_map_zero, I3. lra.
Qed.

Theorem evaluate_graph_payoff_lemma : forall A rs0 rs a,
  Forall (wf_rule A) rs ->
  (forall r, In r rs -> exists r0, In r0 rs0 /\ r_keys r0 = r_keys r) ->
  inr A a ->
  (evaluate_graph A (ls_update A (ls_make A rs0) rs) a == payoff rs a)%Q.
Proof.
  intros A rs0 rs a Hwf Hkeys Ha. rewrite evaluate_graph_lsval. unfold ls_update.
  destruct (ls_make_spec A rs0) as [M1 M2].
  destruct (zero_graph_spec A (ls_make A rs0) a M1) as [Z1 [Z2 Z3]].
  set (g0 := map (fun nd : ls_node => (fst nd, map (fun _ : Q => 0%Q) (snd nd))) (ls_make A rs0)) in *.
  assert (G : forall g, lswf A g -> (forall r, In r rs -> has_node (r_keys r) g = true) ->
            (lsval A (fold_left (fun (g : list ls_node) (r : rule) =>
                 ls_add (r_keys r) (pidx_pf (r_keys r) (r_vals r) A) (r_val r) g) rs g) a == lsval A g a + payoff rs a)%Q).
  { clear Hkeys. induction Hwf as [|r rs Hr Hwf IH]; intros g Hg Hn; cbn [fold_left payoff]; [lra|].
    destruct Hr as [_ [_ HF]].
    destruct (ls_add_spec A (r_keys r) (pidx_pf (r_keys r) (r_vals r) A) (r_val r) g a Hg) as [S1 [S2 S3]].
    - apply Hn. left; auto.
    - apply pidx_pf_lt; auto.
    - rewrite IH; [| auto | intros r' Hr'; rewrite S2; apply Hn; right; auto].
      rewrite S3. rewrite (pidx_pf_compat (r_keys r) (r_vals r) A a HF).
      + lra.
      + intros k Hk. apply Ha. apply (forall2_keys A _ _ k HF Hk). }
  rewrite G; [rewrite Z3; lra | auto |].
  intros r Hr. rewrite Z2. destruct (Hkeys r Hr) as [r0 [H0 H1]]. rewrite <- H1. apply M2; auto.
Qed.

Theorem approx_reports_true_value_lemma : forall (A : list nat) (rs0 rs : list rule) (a : list nat),
  Forall (wf_rule A) rs ->
  (forall r, In r rs -> exists r0, In r0 rs0 /\ r_keys r0 = r_keys r) ->
  inr A a ->
  inr A (fst (approx_result A (ls_update A (ls_make A rs0) rs) a)) /\
  (snd (approx_result A (ls_update A (ls_make A rs0) rs) a)
     == payoff rs (fst (approx_result A (ls_update A (ls_make A rs0) rs) a)))%Q.
Proof.
  intros A rs0 rs a Hwf Hk Ha. unfold approx_result. cbn [fst snd]. split; [exact Ha|].
  apply evaluate_graph_payoff_lemma; auto.
Qed.
