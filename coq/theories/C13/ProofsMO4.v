(* C13/ProofsMO4.v — MOVE (repaired code): the elimination step preserves "the selections of the
   remaining factors are exactly the joint actions' payoff vectors"; final Pareto filter. *)
From Coq Require Import List Arith QArith Bool Lia Lqa.
From AIT Require Import C13.Model C13.Spec C13.ProofsBase C13.ProofsMO1 C13.ProofsMO2 C13.ProofsMO3.
Import ListNotations.
Local Open Scope nat_scope.

Definition MLs (A : list nat) (st : list mo_node * list mo_factor) (a : list nat) : list mo_factor :=
  gLs A (fst st) a ++ snd st.

Definition MInv (A : list nat) (z : list Q) (rs : list mo_rule) (rem : list nat)
           (st : list mo_node * list mo_factor) : Prop :=
  mgwf A rem (fst st) /\
  (forall a sel, inr A a -> Sel (MLs A st a) sel ->
     exists b, inr A b /\ (forall u, In u rem -> nth u b 0 = nth u a 0) /\ sel_ok b sel /\
               forall k, (csum k sel == pay z rs k b)%Q) /\
  (forall b, inr A b -> exists sel, Sel (MLs A st b) sel /\ forall k, (csum k sel == pay z rs k b)%Q).

Lemma fc_all_nil : forall Ls acc, fold_left mo_cross Ls acc = [] -> acc = [] /\ forall L, In L Ls -> L = [].
Proof.
  induction Ls as [|L Ls IH]; intros acc H; cbn [fold_left] in H.
  - split; [auto | intros L []].
  - destruct (IH _ H) as [H1 H2].
    destruct acc as [|a0 acc']; destruct L as [|l0 L']; cbn [mo_cross] in H1; try discriminate H1.
    split; [auto | intros L [<-|HL]; auto].
Qed.

Lemma Sel_nil_of_all_nil : forall Ls, (forall L, In L Ls -> L = []) -> Sel Ls [].
Proof.
  induction Ls as [|L Ls IH]; intro H; [reflexivity|].
  rewrite (H L (or_introl eq_refl)). cbn [Sel]. apply IH. intros; apply H; right; auto.
Qed.

Lemma Sel_one : forall H s, Sel [H] s <-> (H = [] /\ s = []) \/ (exists he, In he H /\ s = [he]).
Proof.
  intros H s. rewrite Sel_cons. cbn [Sel]. split.
  - intros [[H1 H2]|[H1 [e [s' [H2 [H3 H4]]]]]]; [left; auto | right; exists e; subst; auto].
  - intros [[H1 H2]|[he [H1 H2]]]; [left; auto | right]. split; [intro; subst; destruct H1 | exists he, []; auto].
Qed.

Lemma Sel_filter_nonnil : forall Ls s,
  Sel (filter (fun f : mo_factor => match f with [] => false | _ => true end) Ls) s <-> Sel Ls s.
Proof.
  induction Ls as [|[|e0 L] Ls IH]; intro s; cbn [filter Sel]; [tauto | apply IH |].
  split; intros [e [s' [H1 [H2 H3]]]]; exists e, s'; (split; [auto | split; [auto | apply IH; auto]]).
Qed.

(* ---------- the new factor ---------- *)
Section NewFactor.
  Variables (A : list nat) (Fv : list mo_node) (N : list nat) (v j : nat).
  Let base := scatter N (pdec N A j) (length A).
  Let per (x : nat) := fold_left mo_cross (gLs A Fv (upd v x base)) [].
  Let H := mo_new_factor A Fv N v j.
  Let ents := flat_map (fun x => map (fun e : mo_entry => (fst e, tag_insert v x (fst (snd e)) (snd (snd e)))) (per x))
                       (seq 0 (nth v A 0)).

  Lemma H_eq : H = match ents with
                   | [] => []
                   | e0 :: _ => ents ++ map (fun x => (repeat 0%Q (length (fst e0)), ([v], [x])))
                                            (filter (fun x => isnil (per x)) (seq 0 (nth v A 0)))
                   end.
  Proof.
    unfold H, mo_new_factor, ents, per, base.
    assert (E : forall x, mo_cross_sum A Fv (upd v x (scatter N (pdec N A j) (length A)))
                          = fold_left mo_cross (gLs A Fv (upd v x (scatter N (pdec N A j) (length A)))) []).
    { intro x. apply mo_cross_sum_fc. }
    assert (E1 : flat_map (fun x => map (fun e : mo_entry => (fst e, tag_insert v x (fst (snd e)) (snd (snd e))))
                                   (mo_cross_sum A Fv (upd v x (scatter N (pdec N A j) (length A))))) (seq 0 (nth v A 0))
               = flat_map (fun x => map (fun e : mo_entry => (fst e, tag_insert v x (fst (snd e)) (snd (snd e))))
                                   (fold_left mo_cross (gLs A Fv (upd v x (scatter N (pdec N A j) (length A)))) [])) (seq 0 (nth v A 0))).
    { apply flat_map_ext. intro x. rewrite E. reflexivity. }
    rewrite E1.
    destruct (flat_map _ (seq 0 (nth v A 0))) as [|e0 l]; [reflexivity|].
    f_equal. f_equal. apply filter_ext. intro x. rewrite E. reflexivity.
  Qed.

  Lemma H_in : forall he, In he H ->
    exists x, x < nth v A 0 /\
      ((exists ce, In ce (per x) /\ he = (fst ce, tag_insert v x (fst (snd ce)) (snd (snd ce)))) \/
       (per x = [] /\ (forall k, cmp k (fst he) = 0%Q) /\ snd he = ([v], [x]))).
  Proof.
    intros he Hin. rewrite H_eq in Hin. destruct ents as [|e0 l] eqn:E; [destruct Hin|].
    apply in_app_iff in Hin. destruct Hin as [Hin|Hin].
    - rewrite <- E in Hin. unfold ents in Hin. apply in_flat_map in Hin. destruct Hin as [x [Hx Hin]].
      apply in_seq in Hx. apply in_map_iff in Hin. destruct Hin as [ce [<- Hce]].
      exists x. split; [lia | left; exists ce; auto].
    - apply in_map_iff in Hin. destruct Hin as [x [<- Hx]]. apply filter_In in Hx. destruct Hx as [Hx Hn].
      apply in_seq in Hx. exists x. split; [lia | right]. split; [|split; [|reflexivity]].
      + destruct (per x); [reflexivity | discriminate Hn].
      + intro k. cbn [fst]. apply cmp_repeat0.
  Qed.

  Lemma H_of_per : forall x ce, x < nth v A 0 -> In ce (per x) ->
    In (fst ce, tag_insert v x (fst (snd ce)) (snd (snd ce))) H.
  Proof.
    intros x ce Hx Hce.
    assert (Hin : In (fst ce, tag_insert v x (fst (snd ce)) (snd (snd ce))) ents).
    { unfold ents. apply in_flat_map. exists x. split; [apply in_seq; lia|].
      apply in_map_iff. exists ce. auto. }
    rewrite H_eq. destruct ents as [|e0 l]; [destruct Hin|]. apply in_app_iff. left; auto.
  Qed.

  Lemma H_zero : forall x, x < nth v A 0 -> per x = [] -> H <> [] ->
    exists he, In he H /\ forall k, cmp k (fst he) = 0%Q.
  Proof.
    intros x Hx Hp Hne. rewrite H_eq in *. destruct ents as [|e0 l]; [contradiction|].
    exists (repeat 0%Q (length (fst e0)), ([v], [x])). split.
    - apply in_app_iff. right. apply in_map_iff. exists x. split; [reflexivity|].
      apply filter_In. split; [apply in_seq; lia | rewrite Hp; reflexivity].
    - intro k. cbn [fst]. apply cmp_repeat0.
  Qed.

  Lemma H_nil : H = [] -> forall x, x < nth v A 0 -> per x = [].
  Proof.
    intros Hn x Hx. rewrite H_eq in Hn. destruct ents as [|e0 l] eqn:E.
    - destruct (per x) as [|c0 p] eqn:Ep; [reflexivity|]. exfalso.
      assert (Hin : In (fst c0, tag_insert v x (fst (snd c0)) (snd (snd c0))) ents).
      { unfold ents. apply in_flat_map. exists x. split; [apply in_seq; lia|].
        apply in_map_iff. exists c0. rewrite Ep. split; [auto | left; auto]. }
      rewrite E in Hin. destruct Hin.
    - destruct l; discriminate Hn.
  Qed.
End NewFactor.

Lemma mo_remove_factor_eq : forall A g fin v,
  mo_remove_factor A (g, fin) v =
  match mo_neighbours (length A) v (filter (fun nd : mo_node => mem v (fst nd)) g) with
  | [] => (filter (fun nd : mo_node => negb (mem v (fst nd))) g,
           fin ++ filter (fun f : mo_factor => match f with [] => false | _ => true end)
                   (map (mo_new_factor A (filter (fun nd : mo_node => mem v (fst nd)) g)
                         (mo_neighbours (length A) v (filter (fun nd : mo_node => mem v (fst nd)) g)) v)
                      (seq 0 (psize (mo_neighbours (length A) v (filter (fun nd : mo_node => mem v (fst nd)) g)) A))))
  | _ => (mo_upd_node (mo_neighbours (length A) v (filter (fun nd : mo_node => mem v (fst nd)) g))
            (mo_merge_walk (map (mo_new_factor A (filter (fun nd : mo_node => mem v (fst nd)) g)
                         (mo_neighbours (length A) v (filter (fun nd : mo_node => mem v (fst nd)) g)) v)
                      (seq 0 (psize (mo_neighbours (length A) v (filter (fun nd : mo_node => mem v (fst nd)) g)) A))) 0)
            (filter (fun nd : mo_node => negb (mem v (fst nd))) g), fin)
  end.
Proof. intros. unfold mo_remove_factor. destruct (mo_neighbours (length A) v (filter (fun nd : mo_node => mem v (fst nd)) g)); reflexivity. Qed.

Lemma match_nil' : forall (X : Type) (N : list nat) (x y : X), N = [] -> match N with [] => x | _ :: _ => y end = x.
Proof. intros X N x y H. subst N. reflexivity. Qed.
Lemma match_nonnil' : forall (X : Type) (N : list nat) (x y : X), N <> [] -> match N with [] => x | _ :: _ => y end = y.
Proof. intros X N x y H. destruct N; [contradiction | reflexivity]. Qed.

Lemma mden_agree : forall A nd a b,
  (forall k, In k (fst nd) -> nth k a 0 = nth k b 0) -> mden A nd a = mden A nd b.
Proof. intros. unfold mden. rewrite (pidx_agree (fst nd) A a b); auto. Qed.

Lemma nth_map_seq_gen' : forall (X : Type) (f : nat -> X) n k d, k < n -> nth k (map f (seq 0 n)) d = f k.
Proof.
  intros X f n k d H. rewrite (nth_indep _ d (f 0)) by (rewrite map_length, seq_length; exact H).
  rewrite map_nth. rewrite seq_nth by exact H. reflexivity.
Qed.

(* ---------- one elimination step ---------- *)
Lemma MInv_step : forall A z rs v rem st a0,
  inr A a0 -> MInv A z rs (v :: rem) st -> ~ In v rem -> MInv A z rs rem (mo_remove_factor A st v).
Proof.
  intros A z rs v rem [g fin] a0 Ha0 [[Hrem Hnodes] [HS HC]] Hv. cbn [fst snd] in Hnodes.
  assert (HvA : v < length A) by (apply Hrem; left; reflexivity).
  rewrite mo_remove_factor_eq.
  set (Fv := filter (fun nd : mo_node => mem v (fst nd)) g).
  set (G := filter (fun nd : mo_node => negb (mem v (fst nd))) g).
  set (N := mo_neighbours (length A) v Fv).
  set (news := map (mo_new_factor A Fv N v) (seq 0 (psize N A))).
  assert (HG : forall nd, In nd G -> In nd g /\ ~ In v (fst nd)).
  { intros nd H. apply filter_In in H. destruct H as [H1 H2]. split; auto.
    apply mem_false. destruct (mem v (fst nd)); [discriminate H2 | reflexivity]. }
  assert (HFv : forall nd, In nd Fv -> In nd g /\ In v (fst nd)).
  { intros nd H. apply filter_In in H. destruct H as [H1 H2]. split; auto. apply mem_In; auto. }
  assert (HN1 : forall nd, In nd Fv -> forall k, In k (fst nd) -> k = v \/ In k N).
  { intros nd Hnd k Hk. destruct (Nat.eq_dec k v) as [|Hne]; [left; auto | right].
    unfold N, mo_neighbours. apply filter_In. split.
    - apply in_seq. destruct (HFv nd Hnd) as [Hg _]. destruct (Hnodes nd Hg) as [_ [Hk' _]].
      assert (k < length A) by (apply Hrem; apply Hk'; auto). lia.
    - apply andb_true_iff. split.
      + apply negb_true_iff. apply Nat.eqb_neq. auto.
      + apply existsb_exists. exists nd. split; auto. apply mem_In; auto. }
  assert (HN2 : forall k, In k N -> k <> v /\ In k rem /\ k < length A).
  { intros k Hk. unfold N, mo_neighbours in Hk. apply filter_In in Hk. destruct Hk as [_ Hk].
    apply andb_true_iff in Hk. destruct Hk as [K1 K2]. apply negb_true_iff in K1. apply Nat.eqb_neq in K1.
    apply existsb_exists in K2. destruct K2 as [nd [Hnd K2]]. apply mem_In in K2.
    destruct (HFv nd Hnd) as [Hg _]. destruct (Hnodes nd Hg) as [_ [Hk' _]].
    assert (Hin : In k (v :: rem)) by (apply Hk'; auto).
    split; [auto|]. split; [destruct Hin as [Hin|Hin]; [congruence | auto] | apply Hrem; auto]. }
  assert (Hsrt_G : forall nd, In nd G -> msrt 0 (snd nd)).
  { intros nd Hnd. destruct (HG nd Hnd) as [Hg _]. apply (Hnodes nd Hg). }
  assert (Hok_G : forall nd, In nd G -> mnode_ok rem nd).
  { intros nd Hnd. destruct (HG nd Hnd) as [Hg Hv']. destruct (Hnodes nd Hg) as [Q1 [Q2 Q3]].
    split; [auto | split; [|auto]]. intros k Hk. destruct (Q2 k Hk) as [E|E]; [subst; contradiction | auto]. }
  assert (Hrem' : forall u, In u rem -> u < length A) by (intros; apply Hrem; right; auto).
  assert (Hlen_news : length news = psize N A) by (unfold news; rewrite map_length, seq_length; auto).
  set (st' := match N with
              | [] => (G, fin ++ filter (fun f : mo_factor => match f with [] => false | _ => true end) news)
              | _ :: _ => (mo_upd_node N (mo_merge_walk news 0) G, fin) end).
  (* per joint action: the facts about the new factor and the new state's selections *)
  assert (Hpt : forall a, inr A a ->
     let H := mo_new_factor A Fv N v (pidx N A a) in
     (forall x, fold_left mo_cross (gLs A Fv (upd v x (scatter N (pdec N A (pidx N A a)) (length A)))) []
                = fold_left mo_cross (gLs A Fv (upd v x a)) []) /\
     (forall x, gLs A G (upd v x a) = gLs A G a) /\
     (forall sel', Sel (MLs A st' a) sel' ->
        exists sG sH sfin, Sel (gLs A G a) sG /\ Sel [H] sH /\ Sel fin sfin /\
          (forall k, (csum k sel' == csum k sG + csum k sH + csum k sfin)%Q) /\
          (forall b, sel_ok b sG -> sel_ok b sH -> sel_ok b sfin -> sel_ok b sel')) /\
     (forall sG sH sfin, Sel (gLs A G a) sG -> Sel [H] sH -> Sel fin sfin ->
        exists sel', Sel (MLs A st' a) sel' /\ forall k, (csum k sel' == csum k sG + csum k sH + csum k sfin)%Q)).
  { intros a Ha H. assert (Ha' := Ha). destruct Ha' as [Hlen Hrng].
    set (j := pidx N A a) in *.
    assert (Hj : j < psize N A) by (apply pidx_lt; intros k Hk; apply Hrng; apply HN2; auto).
    set (base := scatter N (pdec N A j) (length A)).
    assert (Hbase : forall k, In k N -> nth k base 0 = nth k a 0).
    { intros k Hk. unfold base. rewrite nth_scatter by (apply HN2; auto).
      unfold j. rewrite pdec_pidx by (intros k' Hk'; apply Hrng; apply HN2; auto).
      apply (assoc_combine_map N (fun k => nth k a 0)); auto. }
    assert (Hsame : forall x, gLs A Fv (upd v x base) = gLs A Fv (upd v x a)).
    { intro x. unfold gLs. apply map_ext_in. intros nd Hnd. apply mden_agree. intros k Hk.
      destruct (HN1 nd Hnd k Hk) as [->|HkN].
      - rewrite !nth_upd_same; auto; [lia | unfold base; rewrite scatter_length; auto].
      - assert (k <> v) by (apply HN2; auto). rewrite !nth_upd_other by auto. apply Hbase; auto. }
    assert (HGind : forall x, gLs A G (upd v x a) = gLs A G a).
    { intro x. unfold gLs. apply map_ext_in. intros nd Hnd. apply mden_agree. intros k Hk.
      destruct (HG nd Hnd) as [_ Hv']. apply nth_upd_other. intro; subst; auto. }
    assert (Hnth : nth j news [] = H) by (unfold news; apply nth_map_seq_gen'; auto).
    split; [intro x; rewrite Hsame; reflexivity | split; [exact HGind|]].
    assert (Hcase : N = [] \/ N <> []) by (destruct N; [left; reflexivity | right; discriminate]).
    destruct Hcase as [EN|EN].
    - (* final factor *)
      assert (Est : st' = (G, fin ++ filter (fun f : mo_factor => match f with [] => false | _ => true end) news))
        by (unfold st'; apply match_nil'; auto).
      assert (Hp1 : psize N A = 1) by (rewrite EN; reflexivity).
      assert (Hj0 : j = 0) by lia.
      assert (Hnews : news = [H]).
      { clearbody news. destruct news as [|n0 [|n1 news']]; cbn [length] in Hlen_news; try lia.
        rewrite Hj0 in Hnth. cbn [nth] in Hnth. subst n0. reflexivity. }
      rewrite Est, Hnews. unfold MLs. cbn [fst snd]. split.
      + intros sel' HS'. apply Sel_app in HS'. destruct HS' as [sG [s2 [-> [H1 H2]]]].
        apply Sel_app in H2. destruct H2 as [sfin [sH [-> [H2 H3]]]]. apply (proj1 (Sel_filter_nonnil [H] sH)) in H3.
        exists sG, sH, sfin. split; [auto | split; [auto | split; [auto | split]]].
        * intro k. rewrite !csum_app. lra.
        * intros b B1 B2 B3 e He. apply in_app_iff in He. destruct He as [He|He]; [auto|].
          apply in_app_iff in He. destruct He; auto.
      + intros sG sH sfin H1 H2 H3. exists (sG ++ sfin ++ sH). split.
        * apply Sel_app. exists sG, (sfin ++ sH). split; [auto | split; [auto|]].
          apply Sel_app. exists sfin, sH. split; [auto | split; [auto|]]. apply (proj2 (Sel_filter_nonnil [H] sH)). auto.
        * intro k. rewrite !csum_app. lra.
    - assert (Est : st' = (mo_upd_node N (mo_merge_walk news 0) G, fin)) by (unfold st'; apply match_nonnil'; auto).
      rewrite Est. unfold MLs. cbn [fst snd].
      assert (Hfu : forall rs0, msrt 0 rs0 ->
                mfind_den (mo_merge_walk news 0 rs0) (pidx N A a) = mo_cross (mfind_den rs0 (pidx N A a)) H).
      { intros rs0 Hrs0. destruct (mo_merge_walk_spec news 0 rs0 0 Hrs0 (le_n _)) as [_ M]. fold j. rewrite (M j).
        assert (Ew : in_win 0 (length news) j = true).
        { unfold in_win. cbn [Nat.leb andb Nat.add]. apply Nat.ltb_lt. lia. }
        rewrite Ew, Nat.sub_0_r, Hnth. reflexivity. }
      split.
      + intros sel' HS'. apply Sel_app in HS'. destruct HS' as [s1 [sfin [-> [H1 H2]]]].
        destruct (Sel_upd_node_fwd A N _ H a Hfu G s1 Hsrt_G H1) as [sG [sH [U1 [U2 [U3 U4]]]]].
        exists sG, sH, sfin. split; [auto | split; [auto | split; [auto | split]]].
        * intro k. rewrite csum_app, U3. lra.
        * intros b B1 B2 B3 e He. apply in_app_iff in He. destruct He as [He|He]; [apply (U4 b); auto | auto].
      + intros sG sH sfin H1 H2 H3.
        destruct (Sel_upd_node_bwd A N _ H a Hfu G sG sH Hsrt_G H1 H2) as [s1 [U1 U2]].
        exists (s1 ++ sfin). split; [apply Sel_app; exists s1, sfin; auto|].
        intro k. rewrite csum_app, U2. lra. }
  fold st'.
  (* assembling a selection of the old state at an action *)
  assert (Hold : forall a2 sF sG sfin, Sel (gLs A Fv a2) sF -> Sel (gLs A G a2) sG -> Sel fin sfin ->
     exists sel, Sel (MLs A (g, fin) a2) sel /\
                 (forall e, In e sel <-> In e sF \/ In e sG \/ In e sfin) /\
                 (forall k, (csum k sel == csum k sF + csum k sG + csum k sfin)%Q)).
  { intros a2 sF sG sfin H1 H2 H3.
    destruct (Sel_partition_bwd mo_node (fun nd => mden A nd a2) (fun nd => mem v (fst nd)) g sF sG H1 H2) as [sg [P1 [P2 P3]]].
    exists (sg ++ sfin). split; [|split].
    - unfold MLs. cbn [fst snd]. apply Sel_app. exists sg, sfin. auto.
    - intro e. rewrite in_app_iff, P2. tauto.
    - intro k. rewrite csum_app, P3. lra. }
  split; [|split].
  - (* well-formedness *)
    split; [exact Hrem'|]. unfold st'.
    assert (Hcase : N = [] \/ N <> []) by (destruct N; [left; reflexivity | right; discriminate]).
    destruct Hcase as [EN|EN].
    + rewrite (match_nil' _ N _ _ EN). cbn [fst]. exact Hok_G.
    + rewrite (match_nonnil' _ N _ _ EN). cbn [fst]. intros nd Hnd.
      destruct (mo_upd_node_in _ _ _ _ Hnd) as [[nd0 [H0 [H1 H2]]]|H1].
      * destruct (Hok_G nd0 H0) as [Q1 [Q2 Q3]]. unfold mnode_ok. rewrite H1. split; [auto | split; [auto|]].
        destruct H2 as [H2|H2]; rewrite H2; [auto | apply mo_merge_walk_spec; auto].
      * subst nd. unfold mnode_ok. cbn [fst snd]. split; [exact EN | split].
        -- intros k Hk. apply HN2; auto.
        -- apply mo_merge_walk_spec; [exact I | auto].
  - (* soundness: every selection is the payoff of an action extending its tags *)
    intros a sel' Ha HS'. destruct (Hpt a Ha) as [P1 [P2 [P3 _]]].
    destruct (P3 sel' HS') as [sG [sH [sfin [S1 [S2 [S3 [S4 S5]]]]]]].
    assert (Hlen : length a = length A) by (destruct Ha; auto).
    apply Sel_one in S2. destruct S2 as [[HHn ->]|[he [Hhe ->]]].
    + (* no action of v is mentioned here *)
      assert (Hav : nth v a 0 < nth v A 0) by (apply Ha; auto).
      assert (Hper := H_nil A Fv N v (pidx N A a) HHn (nth v a 0) Hav). cbv beta zeta in Hper.
      rewrite P1, upd_self in Hper.
      destruct (fc_all_nil _ _ Hper) as [_ Hnil].
      destruct (Hold a [] sG sfin (Sel_nil_of_all_nil _ Hnil)) as [sel [O1 [O2 O3]]]; auto.
      destruct (HS a sel Ha O1) as [b [B1 [B2 [B3 B4]]]].
      exists b. split; [auto | split; [intros u Hu; apply B2; right; auto | split]].
      * apply S5; [| intros e [] |]; intros e He; apply B3; apply O2; auto.
      * intro k. rewrite S4, <- B4, O3, !csum_nil. lra.
    + assert (Hin0 := H_in A Fv N v (pidx N A a) he Hhe). cbv beta zeta in Hin0.
      destruct Hin0 as [x [Hx Hcases]].
      assert (Ha2 : inr A (upd v x a)) by (apply inr_upd; auto).
      assert (S1' : Sel (gLs A G (upd v x a)) sG) by (rewrite P2; exact S1).
      assert (Hfin : forall sF, Sel (gLs A Fv (upd v x a)) sF ->
                (forall k, (cmp k (fst he) == csum k sF)%Q) ->
                (forall b, sel_ok b sF -> nth v b 0 = x -> tag_ok (snd he) b) ->
                exists b, inr A b /\ (forall u, In u rem -> nth u b 0 = nth u a 0) /\ sel_ok b sel' /\
                          forall k, (csum k sel' == pay z rs k b)%Q).
      { intros sF F1 F2 F3.
        destruct (Hold (upd v x a) sF sG sfin F1 S1' S3) as [sel [O1 [O2 O3]]].
        destruct (HS _ sel Ha2 O1) as [b [B1 [B2 [B3 B4]]]].
        assert (Hbv : nth v b 0 = x).
        { rewrite (B2 v (or_introl eq_refl)). apply nth_upd_same. lia. }
        exists b. split; [auto | split; [|split]].
        - intros u Hu. rewrite (B2 u (or_intror Hu)). apply nth_upd_other. intro; subst; auto.
        - apply S5.
          + intros e He. apply B3. apply O2. auto.
          + intros e [<-|[]]. apply F3; auto. intros e He. apply B3. apply O2. auto.
          + intros e He. apply B3. apply O2. auto.
        - intro k. rewrite S4, <- B4, O3, csum_cons, csum_nil, (F2 k). lra. }
      destruct Hcases as [[ce [Hce ->]]|[Hper [Hz Htag]]].
      * rewrite P1 in Hce. destruct (fc_fwd _ _ _ Hce) as [sF [F1 [F2 F3]]]. cbn [Sel] in F1.
        apply (Hfin sF F1); [exact F2|].
        intros b Hb Hbv. cbn [snd]. unfold tag_ok. apply tag_insert_ok; auto. apply F3; auto.
      * rewrite P1 in Hper. destruct (fc_all_nil _ _ Hper) as [_ Hnil].
        apply (Hfin [] (Sel_nil_of_all_nil _ Hnil)).
        -- intro k. rewrite Hz, csum_nil. lra.
        -- intros b _ Hbv. rewrite Htag. unfold tag_ok. cbn [fst snd compat]. rewrite Hbv, Nat.eqb_refl. reflexivity.
  - (* completeness: every action's payoff is some selection *)
    intros b Hb. destruct (Hpt b Hb) as [P1 [P2 [_ P4]]].
    destruct (HC b Hb) as [sel [C1 C2]].
    unfold MLs in C1. cbn [fst snd] in C1. apply Sel_app in C1. destruct C1 as [sg [sfin [-> [C3 C4]]]].
    destruct (Sel_partition_fwd mo_node (fun nd => mden A nd b) (fun nd => mem v (fst nd)) g sg C3) as [sF [sG [Q1 [Q2 [Q3 Q4]]]]].
    fold Fv in Q1. fold G in Q2. fold (gLs A Fv b) in Q1. fold (gLs A G b) in Q2.
    assert (Hbv : nth v b 0 < nth v A 0) by (apply Hb; auto).
    set (H := mo_new_factor A Fv N v (pidx N A b)) in *.
    assert (HsH : exists sH, Sel [H] sH /\ forall k, (csum k sH == csum k sF)%Q).
    { destruct sF as [|f0 sF'].
      - assert (Hnil := Sel_all_nil _ Q1).
        assert (Hper : fold_left mo_cross (gLs A Fv (upd v (nth v b 0) (scatter N (pdec N A (pidx N A b)) (length A)))) [] = []).
        { rewrite P1, upd_self. apply fc_nil. exact Hnil. }
        destruct H as [|h0 H'] eqn:EH.
        + exists []. split; [reflexivity | intro k; lra].
        + assert (Hz0 := H_zero A Fv N v (pidx N A b) (nth v b 0) Hbv). cbv beta zeta in Hz0.
          destruct (Hz0 Hper) as [he [He1 He2]].
          { fold H. rewrite EH. discriminate. }
          fold H in He1. rewrite EH in He1. exists [he]. split.
          * apply Sel_one. right. exists he. auto.
          * intro k. rewrite csum_cons, !csum_nil, He2. lra.
      - destruct (fc_bwd (gLs A Fv b) [] (f0 :: sF')) as [ce [Ce1 Ce2]]; [exact Q1 | discriminate|].
        assert (Ce1' : In ce (fold_left mo_cross (gLs A Fv (upd v (nth v b 0) (scatter N (pdec N A (pidx N A b)) (length A)))) [])).
        { rewrite P1, upd_self. exact Ce1. }
        assert (Hin := H_of_per A Fv N v (pidx N A b) (nth v b 0) ce Hbv). cbv beta zeta in Hin.
        specialize (Hin Ce1'). fold H in Hin.
        eexists [_]. split.
        + apply Sel_one. right. eexists. split; [exact Hin | reflexivity].
        + intro k. rewrite csum_cons, csum_nil. cbn [fst]. rewrite (Ce2 k). lra. }
    destruct HsH as [sH [T1 T2]].
    destruct (P4 sG sH sfin Q2 T1 C4) as [sel' [R1 R2]].
    exists sel'. split; [exact R1|]. intro k. rewrite R2, T2, <- C2, csum_app, Q4. lra.
Qed.

Lemma MInv_fold : forall A z rs a0 order st,
  inr A a0 -> NoDup order -> MInv A z rs order st -> MInv A z rs [] (fold_left (mo_remove_factor A) order st).
Proof.
  intros A z rs a0 order. induction order as [|v order IH]; intros st Ha0 Hnd HI; cbn [fold_left]; auto.
  inversion Hnd as [|? ? Hv Hnd']; subst. apply IH; auto. apply (MInv_step A z rs v order st a0); auto.
Qed.
