(* C13/ProofsMO1.v — MOVE: vectors, tags, cross-sums and selections. *)
From Coq Require Import List Arith QArith Bool Lia Lqa.
From AIT Require Import C13.Model C13.Spec C13.ProofsBase.
Import ListNotations.
Local Open Scope nat_scope.

(* ---------- vectors, componentwise ---------- *)
Definition cmp (k : nat) (v : list Q) : Q := nth k v 0%Q.

Lemma cmp_vplus : forall u v k, (cmp k (vplus u v) == cmp k u + cmp k v)%Q.
Proof.
  unfold cmp. induction u as [|x u IH]; intros v k.
  - cbn [vplus]. destruct k; cbn [nth]; lra.
  - destruct v as [|y v].
    + cbn [vplus]. destruct k; cbn [nth]; lra.
    + cbn [vplus]. destruct k; cbn [nth]; [lra | apply IH].
Qed.

Lemma cmp_repeat0 : forall m k, cmp k (repeat 0%Q m) = 0%Q.
Proof. unfold cmp. induction m as [|m IH]; intros [|k]; cbn [repeat nth]; auto. Qed.

(* ---------- tags ---------- *)
Definition tag_ok (t : ptag) (b : list nat) : Prop := compat (fst t) (snd t) b = true.

Lemma merge_tag_go_ok : forall fuel lk lv rk rv b,
  compat lk lv b = true -> compat rk rv b = true ->
  compat (fst (merge_tag_go fuel lk lv rk rv)) (snd (merge_tag_go fuel lk lv rk rv)) b = true.
Proof.
  induction fuel as [|f IH]; intros lk lv rk rv b Hl Hr; cbn [merge_tag_go]; [reflexivity|].
  destruct lk as [|i lk']; [exact Hr|].
  destruct lv as [|x lv']; [cbn [compat] in Hl; discriminate|].
  destruct rk as [|j rk']; [exact Hl|].
  destruct rv as [|y rv']; [cbn [compat] in Hr; discriminate|].
  cbn [compat] in Hl, Hr. apply andb_true_iff in Hl. apply andb_true_iff in Hr.
  destruct Hl as [Hl1 Hl2]. destruct Hr as [Hr1 Hr2].
  destruct (i <? j).
  - specialize (IH lk' lv' (j :: rk') (y :: rv') b Hl2).
    destruct (merge_tag_go f lk' lv' (j :: rk') (y :: rv')) as [ks vs]. cbn [fst snd compat] in *.
    rewrite Hl1. cbn [andb]. apply IH. cbn [compat]. rewrite Hr1, Hr2. reflexivity.
  - destruct (i =? j).
    + specialize (IH lk' lv' rk' rv' b Hl2 Hr2).
      destruct (merge_tag_go f lk' lv' rk' rv') as [ks vs]. cbn [fst snd compat] in *. rewrite Hr1. exact IH.
    + specialize (IH (i :: lk') (x :: lv') rk' rv' b).
      destruct (merge_tag_go f (i :: lk') (x :: lv') rk' rv') as [ks vs]. cbn [fst snd compat] in *.
      rewrite Hr1. cbn [andb]. apply IH; auto. rewrite Hl1, Hl2. reflexivity.
Qed.

Lemma merge_tag_ok : forall l r b, tag_ok l b -> tag_ok r b -> tag_ok (merge_tag l r) b.
Proof. intros l r b Hl Hr. unfold tag_ok, merge_tag. apply merge_tag_go_ok; auto. Qed.

Lemma tag_insert_ok : forall v x ks vs b, compat ks vs b = true -> nth v b 0 = x ->
  compat (fst (tag_insert v x ks vs)) (snd (tag_insert v x ks vs)) b = true.
Proof.
  intros v x. induction ks as [|k ks IH]; intros vs b Hc Hv.
  - cbn [tag_insert fst snd compat]. rewrite Hv, Nat.eqb_refl. reflexivity.
  - destruct vs as [|y vs]; [cbn [compat] in Hc; discriminate|].
    cbn [compat] in Hc. apply andb_true_iff in Hc. destruct Hc as [H1 H2].
    cbn [tag_insert]. destruct (k <? v).
    + specialize (IH vs b H2 Hv). destruct (tag_insert v x ks vs) as [a c]. cbn [fst snd compat] in *.
      rewrite H1. exact IH.
    + cbn [fst snd compat]. rewrite Hv, Nat.eqb_refl, H1, H2. reflexivity.
Qed.

(* ---------- one cross-sum ---------- *)
Lemma mo_cross_nil_l : forall r, mo_cross [] r = r.
Proof. reflexivity. Qed.
Lemma mo_cross_nil_r : forall l, mo_cross l [] = l.
Proof. destruct l; reflexivity. Qed.

Lemma mo_cross_in : forall l r e, l <> [] -> r <> [] ->
  (In e (mo_cross l r) <-> exists le re, In le l /\ In re r /\
                                          e = (vplus (fst le) (fst re), merge_tag (snd le) (snd re))).
Proof.
  intros l r e Hl Hr. destruct l as [|l0 l']; [contradiction|]. destruct r as [|r0 r']; [contradiction|].
  unfold mo_cross. rewrite in_flat_map. split.
  - intros [le [H1 H2]]. apply in_map_iff in H2. destruct H2 as [re [H2 H3]]. exists le, re. auto.
  - intros [le [re [H1 [H2 H3]]]]. exists le. split; auto. apply in_map_iff. exists re. auto.
Qed.

Lemma mo_cross_nonnil : forall l r, l <> [] \/ r <> [] -> mo_cross l r <> [].
Proof.
  intros [|l0 l'] [|r0 r'] H; cbn [mo_cross]; try discriminate.
  - destruct H; contradiction.
Qed.

(* ---------- selections: one entry of every non-empty factor ---------- *)
Fixpoint Sel (Ls : list mo_factor) (sel : list mo_entry) : Prop :=
  match Ls with
  | [] => sel = []
  | [] :: Ls' => Sel Ls' sel
  | (e0 :: L) :: Ls' => exists e sel', sel = e :: sel' /\ In e (e0 :: L) /\ Sel Ls' sel'
  end.

Definition csum (k : nat) (sel : list mo_entry) : Q := qsum (map (fun e : mo_entry => cmp k (fst e)) sel).
Definition sel_ok (b : list nat) (sel : list mo_entry) : Prop := forall e, In e sel -> tag_ok (snd e) b.

Lemma csum_app : forall k s1 s2, (csum k (s1 ++ s2) == csum k s1 + csum k s2)%Q.
Proof. intros. unfold csum. rewrite map_app. apply qsum_app. Qed.

Lemma Sel_cons_nonnil : forall L Ls sel, L <> [] ->
  (Sel (L :: Ls) sel <-> exists e sel', sel = e :: sel' /\ In e L /\ Sel Ls sel').
Proof. intros [|e0 L] Ls sel H; [contradiction|]. cbn [Sel]. tauto. Qed.

Lemma Sel_exists : forall Ls, exists sel, Sel Ls sel.
Proof.
  induction Ls as [|[|e0 L] Ls [sel IH]]; cbn [Sel].
  - exists []. reflexivity.
  - exists sel. exact IH.
  - exists (e0 :: sel), e0, sel. split; [reflexivity | split; [left; reflexivity | exact IH]].
Qed.

Lemma Sel_app : forall L1 L2 sel,
  Sel (L1 ++ L2) sel <-> exists s1 s2, sel = s1 ++ s2 /\ Sel L1 s1 /\ Sel L2 s2.
Proof.
  induction L1 as [|[|e0 L] L1 IH]; intros L2 sel; cbn [app Sel].
  - split.
    + intro H. exists [], sel. auto.
    + intros [s1 [s2 [H1 [H2 H3]]]]. subst. exact H3.
  - apply IH.
  - split.
    + intros [e [sel' [H1 [H2 H3]]]]. apply IH in H3. destruct H3 as [s1 [s2 [H4 [H5 H6]]]].
      exists (e :: s1), s2. subst. split; [reflexivity | split; [|auto]]. exists e, s1. auto.
    + intros [s1 [s2 [H1 [[e [s1' [H2 [H3 H4]]]] H5]]]]. subst. exists e, (s1' ++ s2).
      split; [reflexivity | split; [auto|]]. apply IH. exists s1', s2. auto.
Qed.

Lemma Sel_all_nil : forall Ls, Sel Ls [] -> forall L, In L Ls -> L = [].
Proof.
  induction Ls as [|[|e0 L0] Ls IH]; cbn [Sel]; intros H L HL.
  - destruct HL.
  - destruct HL as [<-|HL]; auto.
  - destruct H as [e [sel' [H _]]]. discriminate H.
Qed.

Lemma Sel_of_all_nil : forall Ls sel, (forall L, In L Ls -> L = []) -> Sel Ls sel -> sel = [].
Proof.
  induction Ls as [|[|e0 L0] Ls IH]; cbn [Sel]; intros sel H HS; auto.
  - apply IH; auto. intros; apply H; right; auto.
  - specialize (H (e0 :: L0) (or_introl eq_refl)). discriminate H.
Qed.

(* ---------- iterated cross-sum vs selections ---------- *)
Lemma fc_nil : forall Ls, (forall L, In L Ls -> L = []) -> fold_left mo_cross Ls [] = [].
Proof.
  induction Ls as [|L Ls IH]; intro H; cbn [fold_left]; auto.
  rewrite (H L (or_introl eq_refl)). cbn [mo_cross]. apply IH. intros; apply H; right; auto.
Qed.

(* every entry of the iterated cross-sum comes from a selection *)
Lemma fc_fwd : forall Ls acc e, In e (fold_left mo_cross Ls acc) ->
  exists sel, Sel (acc :: Ls) sel /\
              (forall k, (cmp k (fst e) == csum k sel)%Q) /\
              (forall b, sel_ok b sel -> tag_ok (snd e) b).
Proof.
  induction Ls as [|L Ls IH]; intros acc e He; cbn [fold_left] in He.
  - destruct acc as [|a0 acc']; [destruct He|].
    exists [e]. split; [|split].
    + cbn [Sel]. exists e, []. auto.
    + intro k. unfold csum. cbn [map qsum]. lra.
    + intros b Hb. apply Hb. left; reflexivity.
  - destruct (IH _ _ He) as [sel [HS [Hv Ht]]].
    destruct acc as [|a0 acc'].
    + (* acc empty: mo_cross [] L = L *)
      cbn [mo_cross] in HS. exists sel. cbn [Sel]. auto.
    + destruct L as [|l0 L'].
      * cbn [mo_cross] in HS. exists sel. split; [|auto]. cbn [Sel] in *. exact HS.
      * assert (Hne : mo_cross (a0 :: acc') (l0 :: L') <> []) by (apply mo_cross_nonnil; left; discriminate).
        apply (Sel_cons_nonnil _ _ _ Hne) in HS. destruct HS as [e' [sel' [H1 [H2 H3]]]].
        assert (H2' := proj1 (mo_cross_in (a0 :: acc') (l0 :: L') e' ltac:(discriminate) ltac:(discriminate)) H2).
        destruct H2' as [le [re [Hle [Hre He']]]].
        exists (le :: re :: sel'). split; [|split].
        -- cbn [Sel]. exists le, (re :: sel'). split; [reflexivity | split; [auto|]]. exists re, sel'. auto.
        -- intro k. rewrite (Hv k). subst sel e'. unfold csum. cbn [map qsum fst]. rewrite cmp_vplus. lra.
        -- intros b Hb. apply Ht. subst sel. intros e1 [<-|H4].
           ++ subst e'. cbn [snd]. apply merge_tag_ok; apply Hb; [left; auto | right; left; auto].
           ++ apply Hb. right; right; auto.
Qed.

(* every non-empty selection is realised by an entry of the iterated cross-sum *)
Lemma fc_bwd : forall Ls acc sel, Sel (acc :: Ls) sel -> sel <> [] ->
  exists e, In e (fold_left mo_cross Ls acc) /\ forall k, (cmp k (fst e) == csum k sel)%Q.
Proof.
  induction Ls as [|L Ls IH]; intros acc sel HS Hne; cbn [fold_left].
  - destruct acc as [|a0 acc']; cbn [Sel] in HS; [contradiction|].
    destruct HS as [e [sel' [H1 [H2 H3]]]]. subst sel' sel. exists e. split; [auto|].
    intro k. unfold csum. cbn [map qsum]. lra.
  - destruct acc as [|a0 acc'].
    + cbn [Sel] in HS. cbn [mo_cross]. apply IH; auto.
    + destruct L as [|l0 L'].
      * cbn [mo_cross]. apply IH; auto.
      * cbn [Sel] in HS. destruct HS as [le [s1 [H1 [H2 [re [s2 [H3 [H4 H5]]]]]]]]. subst.
        set (e' := (vplus (fst le) (fst re), merge_tag (snd le) (snd re))).
        assert (Hin : In e' (mo_cross (a0 :: acc') (l0 :: L'))).
        { apply mo_cross_in; try discriminate. exists le, re. auto. }
        assert (Hne' : mo_cross (a0 :: acc') (l0 :: L') <> []) by (apply mo_cross_nonnil; left; discriminate).
        destruct (IH (mo_cross (a0 :: acc') (l0 :: L')) (e' :: s2)) as [e [He Hv]].
        -- apply (Sel_cons_nonnil _ _ _ Hne'). exists e', s2. auto.
        -- discriminate.
        -- exists e. split; [auto|]. intro k. rewrite (Hv k). unfold csum, e'. cbn [map qsum fst].
           rewrite cmp_vplus. lra.
Qed.

(* the per-action cross-sum of MOVE is the iterated cross-sum of the factors' entries *)
Definition mfind_den (rs : mo_rules) (j : nat) : mo_factor :=
  match mo_lb_find j rs with Some f => f | None => [] end.
Definition mden (A : list nat) (nd : mo_node) (a : list nat) : mo_factor :=
  mfind_den (snd nd) (pidx (fst nd) A a).

Lemma mo_cross_sum_fc : forall A Fv jv,
  mo_cross_sum A Fv jv = fold_left mo_cross (map (fun nd => mden A nd jv) Fv) [].
Proof.
  intros A Fv jv. unfold mo_cross_sum. generalize (@nil mo_entry) as acc.
  induction Fv as [|nd Fv IH]; intro acc; cbn [fold_left map]; auto.
  rewrite <- IH. f_equal. unfold mden, mfind_den.
  destruct (mo_lb_find (pidx (fst nd) A jv) (snd nd)) as [f|].
  - destruct (mo_cross acc f) eqn:E; auto.
    destruct acc as [|a0 acc']; [reflexivity|].
    exfalso. apply (mo_cross_nonnil (a0 :: acc') f); [left; discriminate | auto].
  - rewrite mo_cross_nil_r. reflexivity.
Qed.
