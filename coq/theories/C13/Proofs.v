(* C13/Proofs.v — Variable Elimination returns an optimal joint action and its true payoff,
   for every rule set and every elimination order. *)
From Coq Require Import List Arith QArith Bool Lia Lqa.
From AIT Require Import C13.Model C13.Spec C13.ProofsBase C13.ProofsGraph.
Import ListNotations.
Local Open Scope nat_scope.

Definition tval (A : list nat) (st : graph * list factor) (a : list nat) : Q :=
  (gval A (fst st) a + fin_val (snd st))%Q.
Definition ttags (A : list nat) (st : graph * list factor) (a : list nat) : list (nat * nat) :=
  gtags A (fst st) a ++ fin_tags (snd st).

Lemma nth_map_seq_gen : forall (X : Type) (f : nat -> X) n k d, k < n -> nth k (map f (seq 0 n)) d = f k.
Proof.
  intros X f n k d H. rewrite (nth_indep _ d (f 0)) by (rewrite map_length, seq_length; exact H).
  rewrite map_nth. rewrite seq_nth by exact H. reflexivity.
Qed.

Lemma fin_val_app : forall f1 f2, (fin_val (f1 ++ f2) == fin_val f1 + fin_val f2)%Q.
Proof. intros. unfold fin_val. rewrite map_app. apply qsum_app. Qed.

Lemma fin_tags_app : forall f1 f2, fin_tags (f1 ++ f2) = fin_tags f1 ++ fin_tags f2.
Proof. intros. unfold fin_tags. apply flat_map_app. Qed.

Lemma match_nil : forall (X : Type) (N : list nat) (x y : X), N = [] -> match N with [] => x | _ :: _ => y end = x.
Proof. intros X N x y H. subst N. reflexivity. Qed.
Lemma match_nonnil : forall (X : Type) (N : list nat) (x y : X), N <> [] -> match N with [] => x | _ :: _ => y end = y.
Proof. intros X N x y H. destruct N; [contradiction | reflexivity]. Qed.

Lemma remove_factor_eq : forall A g fin v,
  remove_factor A (g, fin) v =
  match neighbours (length A) v (filter (fun nd : fnode => mem v (fst nd)) g) with
  | [] => (filter (fun nd : fnode => negb (mem v (fst nd))) g,
           fin ++ map (new_factor A (filter (fun nd : fnode => mem v (fst nd)) g)
                         (neighbours (length A) v (filter (fun nd : fnode => mem v (fst nd)) g)) v)
                      (seq 0 (psize (neighbours (length A) v (filter (fun nd : fnode => mem v (fst nd)) g)) A)))
  | _ => (upd_node (neighbours (length A) v (filter (fun nd : fnode => mem v (fst nd)) g))
            (merge_walk (map (new_factor A (filter (fun nd : fnode => mem v (fst nd)) g)
                         (neighbours (length A) v (filter (fun nd : fnode => mem v (fst nd)) g)) v)
                      (seq 0 (psize (neighbours (length A) v (filter (fun nd : fnode => mem v (fst nd)) g)) A))) 0)
            (filter (fun nd : fnode => negb (mem v (fst nd))) g), fin)
  end.
Proof. intros. unfold remove_factor. destruct (neighbours (length A) v (filter (fun nd : fnode => mem v (fst nd)) g)); reflexivity. Qed.

(* One elimination step, denotationally: the new total at a is the old total at a[v := x] for a
   maximising x; the new tags are the pair (v, x) plus the old tags at a[v := x]. *)
Lemma step_den : forall A rem v st a,
  gwf A (v :: rem) (fst st) -> inr A a ->
  gwf A rem (fst (remove_factor A st v)) /\
  exists x, x < nth v A 0 /\
    (tval A (remove_factor A st v) a == tval A st (upd v x a))%Q /\
    (forall t, In t (ttags A (remove_factor A st v) a) <-> t = (v, x) \/ In t (ttags A st (upd v x a))) /\
    (forall y, y < nth v A 0 -> (tval A st (upd v y a) <= tval A (remove_factor A st v) a)%Q).
Proof.
  intros A rem v [g fin] a [Hrem Hnodes] Ha. cbn [fst snd] in Hnodes.
  assert (Ha' := Ha). destruct Ha' as [Hlen Hrng].
  assert (HvA : v < length A) by (apply Hrem; left; reflexivity).
  assert (Hpos : 0 < nth v A 0) by (specialize (Hrng v HvA); lia).
  rewrite remove_factor_eq.
  set (Fv := filter (fun nd : fnode => mem v (fst nd)) g).
  set (G := filter (fun nd : fnode => negb (mem v (fst nd))) g).
  set (N := neighbours (length A) v Fv).
  set (news := map (new_factor A Fv N v) (seq 0 (psize N A))).
  assert (HG : forall nd, In nd G -> In nd g /\ ~ In v (fst nd)).
  { intros nd H. apply filter_In in H. destruct H as [H1 H2]. split; auto.
    apply mem_false. destruct (mem v (fst nd)); [discriminate H2 | reflexivity]. }
  assert (HFv : forall nd, In nd Fv -> In nd g /\ In v (fst nd)).
  { intros nd H. apply filter_In in H. destruct H as [H1 H2]. split; auto. apply mem_In; auto. }
  assert (HN1 : forall nd, In nd Fv -> forall k, In k (fst nd) -> k = v \/ In k N).
  { intros nd Hnd k Hk. destruct (Nat.eq_dec k v) as [|Hne]; [left; auto | right].
    unfold N, neighbours. apply filter_In. split.
    - apply in_seq. destruct (HFv nd Hnd) as [Hg _]. destruct (Hnodes nd Hg) as [_ [Hk' _]].
      assert (k < length A) by (apply Hrem; apply Hk'; auto). lia.
    - apply andb_true_iff. split.
      + apply negb_true_iff. apply Nat.eqb_neq. auto.
      + apply existsb_exists. exists nd. split; auto. apply mem_In; auto. }
  assert (HN2 : forall k, In k N -> k <> v /\ In k rem /\ k < length A).
  { intros k Hk. unfold N, neighbours in Hk. apply filter_In in Hk. destruct Hk as [_ Hk].
    apply andb_true_iff in Hk. destruct Hk as [K1 K2]. apply negb_true_iff in K1. apply Nat.eqb_neq in K1.
    apply existsb_exists in K2. destruct K2 as [nd [Hnd K2]]. apply mem_In in K2.
    destruct (HFv nd Hnd) as [Hg _]. destruct (Hnodes nd Hg) as [_ [Hk' _]].
    assert (Hin : In k (v :: rem)) by (apply Hk'; auto).
    split; [auto|]. split; [destruct Hin as [Hin|Hin]; [congruence | auto] | apply Hrem; auto]. }
  set (j := pidx N A a).
  assert (Hj : j < psize N A).
  { apply pidx_lt. intros k Hk. apply Hrng. apply HN2; auto. }
  set (base := scatter N (pdec N A j) (length A)).
  assert (Hbase : forall k, In k N -> nth k base 0 = nth k a 0).
  { intros k Hk. unfold base. rewrite nth_scatter by (apply HN2; auto).
    unfold j. rewrite pdec_pidx by (intros k' Hk'; apply Hrng; apply HN2; auto).
    apply (assoc_combine_map N (fun k => nth k a 0)); auto. }
  assert (Hsame : forall x nd, In nd Fv -> fden A nd (upd v x base) = fden A nd (upd v x a)).
  { intros x nd Hnd. apply fden_agree. intros k Hk. destruct (HN1 nd Hnd k Hk) as [->|HkN].
    - rewrite !nth_upd_same; auto; [lia | unfold base; rewrite scatter_length; auto].
    - assert (k <> v) by (apply HN2; auto). rewrite !nth_upd_other by auto. apply Hbase; auto. }
  assert (HGind : forall x nd, In nd G -> fden A nd (upd v x a) = fden A nd a).
  { intros x nd Hnd. apply fden_agree. intros k Hk. destruct (HG nd Hnd) as [_ Hv].
    apply nth_upd_other. intro; subst; auto. }
  destruct (new_factor_spec A Fv N v j Hpos) as [x [Hx [HH Hmax]]]. fold base in HH, Hmax.
  set (H := new_factor A Fv N v j) in *.
  assert (Hnth : nth j news (0%Q, []) = H) by (unfold news; apply nth_map_seq_gen; auto).
  assert (Hlen_news : length news = psize N A) by (unfold news; rewrite map_length, seq_length; auto).
  destruct (cross_sum_spec A Fv v x (upd v x base)) as [CS1 CS2]. rewrite <- HH in CS1, CS2.
  rewrite (gval_ext A Fv _ _ (Hsame x)) in CS1. rewrite (gtags_ext A Fv _ _ (Hsame x)) in CS2.
  (* old totals, split over Fv / G *)
  assert (Hold : forall y, (tval A (g, fin) (upd v y a) == gval A Fv (upd v y a) + gval A G a + fin_val fin)%Q).
  { intro y. unfold tval. cbn [fst snd]. unfold gval at 1.
    rewrite (qsum_filter_split fnode (fun nd => mem v (fst nd)) (fun nd => fst (fden A nd (upd v y a))) g).
    fold Fv. fold G. fold (gval A Fv (upd v y a)). fold (gval A G (upd v y a)).
    rewrite (gval_ext A G _ _ (HGind y)). lra. }
  assert (Holdt : forall y t, In t (ttags A (g, fin) (upd v y a)) <->
                    In t (gtags A Fv (upd v y a)) \/ In t (gtags A G a) \/ In t (fin_tags fin)).
  { intros y t. unfold ttags. cbn [fst snd]. rewrite in_app_iff. unfold gtags at 1.
    rewrite (in_filter_split fnode _ (fun nd => mem v (fst nd)) (fun nd => snd (fden A nd (upd v y a))) g t).
    fold Fv. fold G. fold (gtags A Fv (upd v y a)). fold (gtags A G (upd v y a)).
    rewrite (gtags_ext A G _ _ (HGind y)). tauto. }
  (* the new state, uniformly for both shapes *)
  assert (Hsrt_G : forall nd, In nd G -> srt 0 (snd nd)).
  { intros nd Hnd. destruct (HG nd Hnd) as [Hg _]. apply (Hnodes nd Hg). }
  assert (Hok_G : forall nd, In nd G -> node_ok A rem nd).
  { intros nd Hnd. destruct (HG nd Hnd) as [Hg Hv]. destruct (Hnodes nd Hg) as [Q1 [Q2 Q3]].
    split; [auto | split; [|auto]]. intros k Hk. destruct (Q2 k Hk) as [E|E]; [subst; contradiction | auto]. }
  assert (Hrem' : forall u, In u rem -> u < length A) by (intros; apply Hrem; right; auto).
  assert (Hnew : forall st', st' = match N with
                     | [] => (G, fin ++ news)
                     | _ :: _ => (upd_node N (merge_walk news 0) G, fin) end ->
                 gwf A rem (fst st') /\
                 (tval A st' a == gval A G a + fst H + fin_val fin)%Q /\
                 (forall t, In t (ttags A st' a) <->
                     In t (gtags A G a) \/ In t (snd H) \/ In t (fin_tags fin))).
  { intros st' Est.
    assert (Hcase : N = [] \/ N <> []) by (destruct N; [left; reflexivity | right; discriminate]).
    destruct Hcase as [EN|EN].
    - (* no neighbour: final factor *)
      rewrite (match_nil _ N _ _ EN) in Est.
      assert (Hp1 : psize N A = 1) by (rewrite EN; reflexivity).
      assert (Hj0 : j = 0) by lia.
      clearbody news. destruct news as [|n0 [|n1 news']]; cbn [length] in Hlen_news; try lia.
      rewrite Hj0 in Hnth. cbn [nth] in Hnth. subst n0. subst st'.
      split; [split; auto|]. unfold tval, ttags. cbn [fst snd]. split.
      + rewrite fin_val_app. unfold fin_val at 2. cbn [map qsum]. lra.
      + intro t. rewrite fin_tags_app, !in_app_iff. unfold fin_tags at 2. cbn [flat_map]. rewrite app_nil_r. tauto.
    - rewrite (match_nonnil _ N _ _ EN) in Est. subst st'.
      destruct (upd_node_den (srt 0) A N (merge_walk news 0) G a (fst H) (snd H)) as [D1 D2].
      + exact I.
      + exact Hsrt_G.
      + intros rs Hrs. destruct (merge_walk_spec news 0 rs Hrs) as [_ M]. destruct (M j) as [M1 _]. fold j.
        assert (Ew : in_win 0 (length news) j = true).
        { unfold in_win. cbn [Nat.leb andb Nat.add]. apply Nat.ltb_lt. lia. }
        rewrite Ew, Nat.sub_0_r, Hnth in M1. exact M1.
      + intros rs t Hrs. destruct (merge_walk_spec news 0 rs Hrs) as [_ M]. destruct (M j) as [_ M2]. fold j.
        assert (Ew : in_win 0 (length news) j = true).
        { unfold in_win. cbn [Nat.leb andb Nat.add]. apply Nat.ltb_lt. lia. }
        rewrite Ew, Nat.sub_0_r, Hnth in M2. rewrite M2, in_app_iff. tauto.
      + split; [|split].
        * split; [auto|]. cbn [fst]. intros nd Hnd. destruct (upd_node_in _ _ _ _ Hnd) as [[nd0 [H0 [H1 H2]]]|H1].
          -- destruct (Hok_G nd0 H0) as [Q1 [Q2 Q3]]. unfold node_ok. rewrite H1. split; [auto | split; [auto|]].
             destruct H2 as [H2|H2]; rewrite H2; [auto | apply merge_walk_spec; auto].
          -- subst nd. unfold node_ok. cbn [fst snd]. split; [exact EN | split].
             ++ intros k Hk. apply HN2; auto.
             ++ apply merge_walk_spec. exact I.
        * unfold tval. cbn [fst snd]. rewrite D1. lra.
        * intro t. unfold ttags. cbn [fst snd]. rewrite in_app_iff, D2. tauto. }
  destruct (Hnew _ eq_refl) as [W [T1 T2]]. split; [exact W|].
  exists x. split; [exact Hx|]. split; [|split].
  - rewrite T1, (Hold x), CS1. lra.
  - intro t. rewrite T2, (Holdt x t), CS2. tauto.
  - intros y Hy. rewrite T1, (Hold y).
    destruct (cross_sum_spec A Fv v y (upd v y base)) as [CY1 _].
    rewrite (gval_ext A Fv _ _ (Hsame y)) in CY1.
    assert (M := Hmax y Hy). rewrite CY1 in M. rewrite <- HH in M. lra.
Qed.

(* ---------- the invariant ---------- *)
Definition Inv (A : list nat) (rs : list rule) (rem : list nat) (st : graph * list factor) : Prop :=
  gwf A rem (fst st) /\
  (forall a, inr A a -> (payoff rs a <= tval A st a)%Q) /\
  (forall a b, inr A a -> inr A b -> (forall u, In u rem -> nth u b 0 = nth u a 0) ->
     (forall t, In t (ttags A st a) -> nth (fst t) b 0 = snd t) -> (payoff rs b == tval A st a)%Q) /\
  (forall a t, inr A a -> In t (ttags A st a) ->
     ~ In (fst t) rem /\ fst t < length A /\ snd t < nth (fst t) A 0) /\
  (forall a t t', inr A a -> In t (ttags A st a) -> In t' (ttags A st a) -> fst t = fst t' -> snd t = snd t').

Lemma Inv_step : forall A rs v rem st a0,
  inr A a0 -> Inv A rs (v :: rem) st -> ~ In v rem -> Inv A rs rem (remove_factor A st v).
Proof.
  intros A rs v rem st a0 Ha0 [W [U [Att [K C]]]] Hv.
  assert (HvA : v < length A) by (apply W; left; reflexivity).
  split; [|split; [|split; [|split]]].
  - apply (step_den A rem v st a0 W Ha0).
  - intros a Ha. destruct (step_den A rem v st a W Ha) as [_ [x [Hx [_ [_ S3]]]]].
    assert (Hav : nth v a 0 < nth v A 0) by (apply Ha; auto).
    assert (S := S3 _ Hav). rewrite upd_self in S.
    apply (Qle_trans _ (tval A st a)); [apply U; auto | exact S].
  - intros a b Ha Hb Hag Htg. destruct (step_den A rem v st a W Ha) as [_ [x [Hx [S1 [S2 _]]]]].
    assert (Ha2 : inr A (upd v x a)) by (apply inr_upd; auto).
    assert (Hbv : nth v b 0 = x) by (apply (Htg (v, x)); apply S2; left; reflexivity).
    rewrite S1. apply Att; auto.
    + intros u [Hu|Hu].
      * subst u. rewrite nth_upd_same; [auto | destruct Ha as [Hl _]; lia].
      * rewrite nth_upd_other by (intro; subst; auto). apply Hag; auto.
    + intros t Ht. apply Htg. apply S2. right; auto.
  - intros a t Ha Ht. destruct (step_den A rem v st a W Ha) as [_ [x [Hx [_ [S2 _]]]]].
    apply S2 in Ht. destruct Ht as [Ht|Ht].
    + subst t. cbn [fst snd]. auto.
    + assert (Ha2 : inr A (upd v x a)) by (apply inr_upd; auto).
      destruct (K _ t Ha2 Ht) as [K1 [K2 K3]]. split; [|auto]. intro Hin. apply K1. right; auto.
  - intros a t t' Ha Ht Ht' Hfst. destruct (step_den A rem v st a W Ha) as [_ [x [Hx [_ [S2 _]]]]].
    assert (Ha2 : inr A (upd v x a)) by (apply inr_upd; auto).
    apply S2 in Ht. apply S2 in Ht'. destruct Ht as [Ht|Ht]; destruct Ht' as [Ht'|Ht'].
    + subst; reflexivity.
    + exfalso. subst t. cbn [fst] in Hfst. destruct (K _ t' Ha2 Ht') as [K1 _]. apply K1. left; auto.
    + exfalso. subst t'. cbn [fst] in Hfst. destruct (K _ t Ha2 Ht) as [K1 _]. apply K1. left; auto.
    + apply (C _ t t' Ha2); auto.
Qed.

Lemma Inv_fold : forall A rs a0 order st,
  inr A a0 -> NoDup order -> Inv A rs order st -> Inv A rs [] (fold_left (remove_factor A) order st).
Proof.
  intros A rs a0 order. induction order as [|v order IH]; intros st Ha0 Hnd HI; cbn [fold_left]; auto.
  inversion Hnd as [|? ? Hv Hnd']; subst. apply IH; auto. apply (Inv_step A rs v order st a0); auto.
Qed.

(* ---------- makeResult ---------- *)
Lemma apply_tags_app : forall t1 t2 z, apply_tags (t1 ++ t2) z = apply_tags t2 (apply_tags t1 z).
Proof. intros. unfold apply_tags. apply fold_left_app. Qed.

Lemma make_result_spec : forall n fin,
  fst (make_result n fin) = apply_tags (fin_tags fin) (repeat 0 n) /\
  (snd (make_result n fin) == fin_val fin)%Q.
Proof.
  intros n fin. unfold make_result.
  assert (G : forall act val,
            fst (fold_left (fun (r : list nat * Q) (f : factor) => (apply_tags (snd f) (fst r), (snd r + fst f)%Q)) fin (act, val))
              = apply_tags (fin_tags fin) act /\
            (snd (fold_left (fun (r : list nat * Q) (f : factor) => (apply_tags (snd f) (fst r), (snd r + fst f)%Q)) fin (act, val))
              == val + fin_val fin)%Q).
  { induction fin as [|f fin IH]; intros act val; cbn [fold_left fst snd].
    - unfold fin_tags, fin_val, apply_tags. cbn [flat_map map qsum fold_left]. split; [auto | lra].
    - destruct (IH (apply_tags (snd f) act) (val + fst f)%Q) as [I1 I2]. split.
      + rewrite I1. unfold fin_tags. cbn [flat_map]. rewrite apply_tags_app. reflexivity.
      + rewrite I2. unfold fin_val. cbn [map qsum]. lra. }
  destruct (G (repeat 0 n) 0%Q) as [G1 G2]. split; [exact G1 | rewrite G2; lra].
Qed.

Lemma apply_tags_length : forall T z, length (apply_tags T z) = length z.
Proof.
  induction T as [|t T IH]; intro z; [reflexivity|].
  change (apply_tags (t :: T) z) with (apply_tags T (upd (fst t) (snd t) z)). rewrite IH. apply upd_length.
Qed.

Lemma apply_tags_inr : forall A T z, inr A z ->
  (forall t, In t T -> fst t < length A /\ snd t < nth (fst t) A 0) -> inr A (apply_tags T z).
Proof.
  intros A T. induction T as [|t T IH]; intros z Hz HT; [exact Hz|].
  change (apply_tags (t :: T) z) with (apply_tags T (upd (fst t) (snd t) z)).
  apply IH; [|intros; apply HT; right; auto].
  destruct (HT t (or_introl eq_refl)). apply inr_upd; auto.
Qed.

Lemma apply_tags_sat : forall T z k x, k < length z ->
  (forall t, In t T -> fst t = k -> snd t = x) ->
  ((exists t, In t T /\ fst t = k) \/ nth k z 0 = x) ->
  nth k (apply_tags T z) 0 = x.
Proof.
  induction T as [|t0 T IH]; intros z k x Hk Hall Hex.
  - destruct Hex as [[t [[] _]]|H]. exact H.
  - change (apply_tags (t0 :: T) z) with (apply_tags T (upd (fst t0) (snd t0) z)).
    apply IH; [rewrite upd_length; auto | intros; apply Hall; auto; right; auto |].
    destruct (existsb (fun t => fst t =? k) T) eqn:E.
    + apply existsb_exists in E. destruct E as [t [Ht1 Ht2]]. apply Nat.eqb_eq in Ht2. left. exists t. auto.
    + right. destruct (Nat.eq_dec (fst t0) k) as [E0|E0].
      * rewrite E0. rewrite nth_upd_same by auto. apply Hall; [left; auto | auto].
      * rewrite nth_upd_other by auto. destruct Hex as [[t [[Ht|Ht] Hf]]|H]; auto.
        -- subst t. contradiction.
        -- exfalso. assert (existsb (fun t => fst t =? k) T = true).
           { apply existsb_exists. exists t. split; auto. apply Nat.eqb_eq; auto. }
           congruence.
Qed.

Lemma payoff_agree : forall A rs a b, Forall (wf_rule A) rs ->
  (forall k, k < length A -> nth k a 0 = nth k b 0) -> payoff rs a = payoff rs b.
Proof.
  intros A rs a b Hwf Hag. induction Hwf as [|r rs [_ [_ HF]] Hwf IH]; cbn [payoff]; auto.
  rewrite IH. rewrite (compat_agree (r_keys r) (r_vals r) a b); auto.
  intros k Hk. apply Hag. apply (forall2_keys A _ _ k HF Hk).
Qed.

(* ---------- main theorem ---------- *)
Theorem ve_optimal_lemma : forall A rs order res,
  Forall (wf_rule A) rs -> is_perm_seq (length A) order ->
  ve A rs order = Some res -> ve_spec A rs res.
Proof.
  intros A rs order res Hwf [Hnd Hperm] Hve. unfold ve, ve_graph in Hve.
  destruct (existsb (Nat.eqb 0) A) eqn:Epos; [discriminate Hve|]. injection Hve as <-.
  set (n := length A). set (a0 := repeat 0 n).
  assert (HposA : forall i, i < n -> 0 < nth i A 0).
  { intros i Hi. destruct (nth i A 0) eqn:E; [|lia]. exfalso.
    assert (existsb (Nat.eqb 0) A = true).
    { apply existsb_exists. exists 0. split; [rewrite <- E; apply nth_In; auto | reflexivity]. }
    congruence. }
  assert (Ha0 : inr A a0).
  { split; [unfold a0; apply repeat_length|]. intros i Hi. unfold a0. rewrite nth_repeat0. apply HposA; auto. }
  set (st0 := (make_graph A rs, @nil factor)).
  assert (I0 : Inv A rs order st0).
  { assert (Hr1 : forall i, i < length A -> In i order) by (intros; apply Hperm; auto).
    assert (Hr2 : forall u, In u order -> u < length A) by (intros; apply Hperm; auto).
    assert (MG := fun a Ha => make_graph_spec A order rs a Hr1 Hr2 Hwf Ha).
    assert (Ht0 : forall a, inr A a -> ttags A st0 a = []).
    { intros a Ha. unfold ttags, st0. cbn [fst snd]. destruct (MG a Ha) as [_ [_ M3]]. rewrite M3. reflexivity. }
    assert (Hv0 : forall a, inr A a -> (tval A st0 a == payoff rs a)%Q).
    { intros a Ha. unfold tval, st0. cbn [fst snd]. destruct (MG a Ha) as [_ [M2 _]]. rewrite M2.
      unfold fin_val. cbn [map qsum]. lra. }
    split; [|split; [|split; [|split]]].
    - apply (MG a0 Ha0).
    - intros a Ha. rewrite (Hv0 a Ha). apply Qle_refl.
    - intros a b Ha Hb Hag _. rewrite (Hv0 a Ha).
      rewrite (payoff_agree A rs b a Hwf); [apply Qeq_refl|]. intros k Hk. apply Hag. apply Hr1; auto.
    - intros a t Ha Ht. rewrite (Ht0 a Ha) in Ht. destruct Ht.
    - intros a t t' Ha Ht. rewrite (Ht0 a Ha) in Ht. destruct Ht. }
  assert (IE := Inv_fold A rs a0 order st0 Ha0 Hnd I0).
  set (stE := fold_left (remove_factor A) order st0) in *.
  destruct IE as [[_ WE] [UE [AttE [KE CE]]]].
  assert (HgE : fst stE = []).
  { destruct (fst stE) as [|nd g] eqn:E; auto. exfalso.
    destruct (WE nd (or_introl eq_refl)) as [Q1 [Q2 _]].
    destruct (fst nd) as [|k ks]; [apply Q1; reflexivity | apply (Q2 k); left; reflexivity]. }
  assert (HtE : forall a, ttags A stE a = fin_tags (snd stE)) by (intro a; unfold ttags; rewrite HgE; reflexivity).
  assert (HvE : forall a, (tval A stE a == fin_val (snd stE))%Q).
  { intro a. unfold tval. rewrite HgE. unfold gval. cbn [map qsum]. lra. }
  destruct (make_result_spec n (snd stE)) as [R1 R2].
  fold n. fold st0. fold stE.
  set (T := fin_tags (snd stE)) in *.
  assert (HT : forall t, In t T -> fst t < length A /\ snd t < nth (fst t) A 0).
  { intros t Ht. rewrite <- (HtE a0) in Ht. destruct (KE a0 t Ha0 Ht) as [_ K2]. exact K2. }
  assert (Hb : inr A (fst (make_result n (snd stE)))).
  { rewrite R1. apply apply_tags_inr; auto. }
  unfold ve_spec. split; [exact Hb | split].
  - rewrite R2. rewrite <- (HvE a0). apply Qeq_sym. apply AttE; auto.
    + intros u [].
    + intros t Ht. rewrite (HtE a0) in Ht. fold T in Ht. rewrite R1. apply apply_tags_sat.
      * unfold a0. rewrite repeat_length. apply HT; auto.
      * intros t' Ht' Hf. apply (CE a0 t' t Ha0); [rewrite HtE; auto | rewrite HtE; auto | auto].
      * left. exists t. auto.
  - intros a' Ha'. rewrite R2. rewrite <- (HvE a'). apply UE; auto.
Qed.

(* ---------- soundness of the brute-force checkers used by the oracle ---------- *)
Lemma inrb_inr : forall A a, inrb A a = true -> inr A a.
Proof.
  induction A as [|n A IH]; intros [|x a] H; cbn [inrb] in H; try discriminate.
  - split; [reflexivity | intros i Hi; cbn [length] in Hi; lia].
  - apply andb_true_iff in H. destruct H as [H1 H2]. apply Nat.ltb_lt in H1. destruct (IH a H2) as [I1 I2].
    split; [cbn [length]; lia|]. intros [|i] Hi; cbn [nth]; [auto | apply I2; cbn [length] in Hi; lia].
Qed.

Lemma all_actions_complete : forall A a, inr A a -> In a (all_actions A).
Proof.
  induction A as [|n A IH]; intros a [Hl Hr].
  - destruct a; [left; reflexivity | discriminate Hl].
  - destruct a as [|x a]; [discriminate Hl|]. cbn [all_actions]. apply in_flat_map. exists x. split.
    + apply in_seq. specialize (Hr 0). cbn [nth length] in Hr. lia.
    + apply in_map. apply IH. split; [cbn [length] in Hl; lia|].
      intros i Hi. specialize (Hr (S i)). cbn [nth length] in Hr. apply Hr. lia.
Qed.

Theorem exact_check_sound_lemma : forall A rs res, exact_check A rs res = true -> ve_spec A rs res.
Proof.
  intros A rs res H. unfold exact_check in H. apply andb_true_iff in H. destruct H as [H H3].
  apply andb_true_iff in H. destruct H as [H1 H2]. split; [apply inrb_inr; auto | split].
  - apply Qeq_bool_iff; auto.
  - intros a' Ha'. unfold is_upper in H3. rewrite forallb_forall in H3.
    apply Qle_bool_iff. apply H3. apply all_actions_complete; auto.
Qed.

Theorem approx_check_sound_lemma : forall A rs res, approx_check A rs res = true -> approx_spec A rs res.
Proof.
  intros A rs res H. unfold approx_check in H. apply andb_true_iff in H. destruct H as [H1 H2].
  split; [apply inrb_inr; auto | apply Qeq_bool_iff; auto].
Qed.

(* a maximiser that reports the true payoff of an in-range action never exceeds the optimum *)
Theorem approx_le_opt_lemma : forall A rs res ores,
  approx_spec A rs res -> ve_spec A rs ores -> (snd res <= snd ores)%Q.
Proof.
  intros A rs res ores [H1 H2] [_ [_ H3]]. rewrite H2. apply H3; auto.
Qed.

Theorem ve_defined_lemma : forall A rs order,
  (forall i, i < length A -> 0 < nth i A 0) -> exists res, ve A rs order = Some res.
Proof.
  intros A rs order H. unfold ve, ve_graph.
  destruct (existsb (Nat.eqb 0) A) eqn:E; [|eexists; reflexivity].
  exfalso. apply existsb_exists in E. destruct E as [x [Hx E]]. apply Nat.eqb_eq in E. subst x.
  destruct (In_nth A 0 0 Hx) as [i [Hi Hn]]. specialize (H i Hi). lia.
Qed.

Theorem approx_le_ve_lemma : forall A rs order res vres,
  Forall (wf_rule A) rs -> is_perm_seq (length A) order -> ve A rs order = Some vres ->
  approx_spec A rs res -> (snd res <= snd vres)%Q.
Proof.
  intros A rs order res vres Hwf Hp Hve Happ.
  apply (approx_le_opt_lemma A rs res vres Happ). apply (ve_optimal_lemma A rs order); auto.
Qed.

