(* C13/ProofsBase.v — list / index / sorted-rule-list lemmas used by the VE proof. *)
From Coq Require Import List Arith QArith Bool Lia Lqa.
From AIT Require Import C13.Model C13.Spec.
Import ListNotations.
Local Open Scope nat_scope.

(* ---------- sums of rationals ---------- *)
Fixpoint qsum (l : list Q) : Q := match l with [] => 0%Q | x :: t => (x + qsum t)%Q end.

Lemma qsum_app : forall l1 l2, (qsum (l1 ++ l2) == qsum l1 + qsum l2)%Q.
Proof. induction l1 as [|x l1 IH]; intro l2; cbn [qsum app]; [lra | rewrite IH; lra]. Qed.

Lemma qsum_filter_split : forall (X : Type) (p : X -> bool) (f : X -> Q) (l : list X),
  (qsum (map f l) == qsum (map f (filter p l)) + qsum (map f (filter (fun x => negb (p x)) l)))%Q.
Proof.
  intros X p f l. induction l as [|x l IH]; cbn [map filter qsum]; [lra|].
  destruct (p x); cbn [negb map qsum]; rewrite IH; lra.
Qed.

Lemma in_filter_split : forall (X Y : Type) (p : X -> bool) (f : X -> list Y) (l : list X) (t : Y),
  In t (flat_map f l) <-> In t (flat_map f (filter p l)) \/ In t (flat_map f (filter (fun x => negb (p x)) l)).
Proof.
  intros X Y p f l t. induction l as [|x l IH]; cbn [flat_map filter]; [tauto|].
  rewrite in_app_iff, IH. destruct (p x); cbn [negb flat_map]; rewrite in_app_iff; tauto.
Qed.

(* ---------- upd ---------- *)
Lemma upd_length : forall i x l, length (upd i x l) = length l.
Proof. intros i x l; revert i; induction l as [|h t IH]; intros [|i]; cbn [upd length]; auto. Qed.

Lemma nth_upd_same : forall i x l, i < length l -> nth i (upd i x l) 0 = x.
Proof.
  intros i x l; revert i; induction l as [|h t IH]; intros [|i] H; cbn [upd nth length] in *; try lia; auto.
  apply IH; lia.
Qed.

Lemma nth_upd_other : forall i j x l, i <> j -> nth j (upd i x l) 0 = nth j l 0.
Proof.
  intros i j x l; revert i j; induction l as [|h t IH]; intros [|i] [|j] H; cbn [upd nth]; auto; try lia.
Qed.

Lemma upd_self : forall i l, upd i (nth i l 0) l = l.
Proof. intros i l; revert i; induction l as [|h t IH]; intros [|i]; cbn [upd nth]; auto. f_equal; apply IH. Qed.

Lemma inr_upd : forall A a i x, inr A a -> i < length A -> x < nth i A 0 -> inr A (upd i x a).
Proof.
  intros A a i x [Hl Hr] Hi Hx. split; [rewrite upd_length; exact Hl|].
  intros j Hj. destruct (Nat.eq_dec i j) as [->|Hne].
  - rewrite nth_upd_same; [exact Hx | lia].
  - rewrite nth_upd_other by exact Hne. apply Hr; exact Hj.
Qed.

Lemma nth_repeat0 : forall n i, nth i (repeat 0 n) 0 = 0.
Proof. induction n as [|n IH]; intros [|i]; cbn [repeat nth]; auto. Qed.

(* ---------- list_eqb, mem ---------- *)
Lemma list_eqb_eq : forall a b, list_eqb a b = true -> a = b.
Proof.
  induction a as [|x a IH]; intros [|y b] H; cbn [list_eqb] in H; try discriminate; auto.
  apply andb_true_iff in H. destruct H as [H1 H2]. apply Nat.eqb_eq in H1. f_equal; auto.
Qed.

Lemma mem_In : forall x l, mem x l = true <-> In x l.
Proof.
  intros x l. unfold mem. rewrite existsb_exists. split.
  - intros [y [Hy He]]. apply Nat.eqb_eq in He. subst; auto.
  - intro H. exists x. split; [auto | apply Nat.eqb_refl].
Qed.

Lemma mem_false : forall x l, mem x l = false <-> ~ In x l.
Proof.
  intros x l. rewrite <- mem_In. destruct (mem x l); split; intro H.
  - discriminate H.
  - exfalso; apply H; reflexivity.
  - intro H'; discriminate H'.
  - reflexivity.
Qed.

(* ---------- mixed-radix index ---------- *)
Lemma pidx_agree : forall keys A a b,
  (forall k, In k keys -> nth k a 0 = nth k b 0) -> pidx keys A a = pidx keys A b.
Proof.
  induction keys as [|k t IH]; intros A a b H; cbn [pidx]; auto.
  rewrite (H k (or_introl eq_refl)). rewrite (IH A a b); auto. intros; apply H; right; auto.
Qed.

Lemma pidx_lt : forall keys A a,
  (forall k, In k keys -> nth k a 0 < nth k A 0) -> pidx keys A a < psize keys A.
Proof.
  induction keys as [|k t IH]; intros A a H; cbn [pidx psize]; [lia|].
  assert (H1 := H k (or_introl eq_refl)).
  assert (H2 : pidx t A a < psize t A) by (apply IH; intros; apply H; right; auto).
  nia.
Qed.

Lemma pdec_pidx : forall keys A a,
  (forall k, In k keys -> nth k a 0 < nth k A 0) ->
  pdec keys A (pidx keys A a) = map (fun k => nth k a 0) keys.
Proof.
  induction keys as [|k t IH]; intros A a H; cbn [pdec pidx map]; auto.
  assert (H1 := H k (or_introl eq_refl)).
  assert (Hpos : nth k A 0 <> 0) by lia.
  f_equal.
  - rewrite Nat.mul_comm, Nat.mod_add by exact Hpos. apply Nat.mod_small; exact H1.
  - rewrite Nat.mul_comm, Nat.div_add by exact Hpos. rewrite Nat.div_small by exact H1.
    cbn [Nat.add]. apply IH. intros; apply H; right; auto.
Qed.

Lemma nth_map_seq : forall (f : nat -> nat) n k, k < n -> nth k (map f (seq 0 n)) 0 = f k.
Proof.
  intros f n k H. rewrite (nth_indep _ 0 (f 0)) by (rewrite map_length, seq_length; exact H).
  rewrite map_nth. rewrite seq_nth by exact H. reflexivity.
Qed.

Lemma nth_scatter : forall keys vals n k, k < n -> nth k (scatter keys vals n) 0 = assoc k (combine keys vals).
Proof. intros. unfold scatter. apply (nth_map_seq (fun i => assoc i (combine keys vals))); auto. Qed.

Lemma scatter_length : forall keys vals n, length (scatter keys vals n) = n.
Proof. intros. unfold scatter. rewrite map_length, seq_length. reflexivity. Qed.

Lemma assoc_combine_map : forall keys (f : nat -> nat) k, In k keys -> assoc k (combine keys (map f keys)) = f k.
Proof.
  induction keys as [|k0 t IH]; intros f k H; [destruct H|].
  cbn [map combine assoc]. destruct (k0 =? k) eqn:E.
  - apply Nat.eqb_eq in E. subst; auto.
  - destruct H as [H|H]; [subst; rewrite Nat.eqb_refl in E; discriminate | apply IH; auto].
Qed.

Lemma pidx_pf_compat : forall keys vals A a,
  Forall2 (fun k x => k < length A /\ x < nth k A 0) keys vals ->
  (forall k, In k keys -> nth k a 0 < nth k A 0) ->
  (pidx keys A a =? pidx_pf keys vals A) = compat keys vals a.
Proof.
  intros keys vals A a HF. induction HF as [|k x ks xs [Hk Hx] HF IH]; intro Ha; cbn [pidx pidx_pf compat]; auto.
  assert (Hak := Ha k (or_introl eq_refl)).
  assert (IH' := IH (fun k' Hk' => Ha k' (or_intror Hk'))). clear IH.
  destruct (nth k a 0 =? x) eqn:E1; cbn [andb].
  - apply Nat.eqb_eq in E1. rewrite <- IH'.
    destruct (pidx ks A a =? pidx_pf ks xs A) eqn:E2.
    + apply Nat.eqb_eq in E2. apply Nat.eqb_eq. rewrite E1, E2. reflexivity.
    + apply Nat.eqb_neq in E2. apply Nat.eqb_neq. intro H. apply E2. nia.
  - apply Nat.eqb_neq in E1. apply Nat.eqb_neq. intro H. apply E1.
    assert (pidx ks A a = pidx_pf ks xs A) by nia. nia.
Qed.

Lemma compat_agree : forall keys vals a b,
  (forall k, In k keys -> nth k a 0 = nth k b 0) -> compat keys vals a = compat keys vals b.
Proof.
  induction keys as [|k t IH]; intros [|x xs] a b H; cbn [compat]; auto.
  rewrite (H k (or_introl eq_refl)). f_equal. apply IH. intros; apply H; right; auto.
Qed.

(* ---------- sorted rule lists ---------- *)
Definition rden (rs : rules_t) (j : nat) : factor :=
  match lb_find j rs with Some f => f | None => (0%Q, []) end.

Fixpoint srt (lo : nat) (rs : rules_t) : Prop :=
  match rs with [] => True | (i, _) :: t => lo <= i /\ srt (S i) t end.

Lemma srt_weaken : forall rs lo lo', lo' <= lo -> srt lo rs -> srt lo' rs.
Proof. intros [|[i f] t] lo lo' H; cbn [srt]; auto. intros [H1 H2]; split; [lia | auto]. Qed.

Lemma lb_find_below : forall rs lo j, srt lo rs -> j < lo -> lb_find j rs = None.
Proof.
  intros [|[i f] t] lo j; cbn [srt lb_find]; auto. intros [H1 _] H2.
  destruct (i <? j) eqn:E1; [apply Nat.ltb_lt in E1; lia|].
  destruct (i =? j) eqn:E2; [apply Nat.eqb_eq in E2; lia | auto].
Qed.

Lemma lb_insert_srt : forall rs id v lo, srt lo rs -> lo <= id -> srt lo (lb_insert id v rs).
Proof.
  induction rs as [|[i f] t IH]; intros id v lo; cbn [srt lb_insert]; [intros; split; auto|].
  intros [H1 H2] H3. destruct (i <? id) eqn:E1.
  - apply Nat.ltb_lt in E1. cbn [srt]. split; [auto | apply IH; auto; lia].
  - apply Nat.ltb_ge in E1. destruct (i =? id) eqn:E2; cbn [srt].
    + split; auto.
    + apply Nat.eqb_neq in E2. split; [auto|]. split; [lia | auto].
Qed.

Lemma lb_insert_den : forall rs id v j,
  (fst (rden (lb_insert id v rs) j) == fst (rden rs j) + (if j =? id then v else 0))%Q /\
  snd (rden (lb_insert id v rs) j) = snd (rden rs j).
Proof.
  unfold rden. induction rs as [|[i f] t IH]; intros id v j; cbn [lb_insert lb_find].
  - destruct (id <? j) eqn:E1; [apply Nat.ltb_lt in E1|apply Nat.ltb_ge in E1].
    + destruct (j =? id) eqn:E; [apply Nat.eqb_eq in E; lia|]. cbn [fst snd]. split; [lra|auto].
    + destruct (id =? j) eqn:E2.
      * apply Nat.eqb_eq in E2. subst. rewrite Nat.eqb_refl. cbn [fst snd]. split; [lra|auto].
      * apply Nat.eqb_neq in E2. destruct (j =? id) eqn:E; [apply Nat.eqb_eq in E; lia|]. cbn [fst snd]. split; [lra|auto].
  - destruct (i <? id) eqn:E1; [apply Nat.ltb_lt in E1|apply Nat.ltb_ge in E1].
    + cbn [lb_find]. destruct (i <? j) eqn:E3; [apply IH|].
      apply Nat.ltb_ge in E3. destruct (j =? id) eqn:E; [apply Nat.eqb_eq in E; lia|].
      destruct (i =? j); cbn [fst snd]; split; try lra; auto.
    + destruct (i =? id) eqn:E2.
      * apply Nat.eqb_eq in E2. subst i. cbn [lb_find].
        destruct (id <? j) eqn:E3.
        -- apply Nat.ltb_lt in E3. destruct (j =? id) eqn:E; [apply Nat.eqb_eq in E; lia|]. split; [lra|auto].
        -- destruct (id =? j) eqn:E4.
           ++ apply Nat.eqb_eq in E4. subst. rewrite Nat.eqb_refl. cbn [fst snd]. split; [lra|auto].
           ++ apply Nat.eqb_neq in E4. destruct (j =? id) eqn:E; [apply Nat.eqb_eq in E; lia|]. cbn [fst snd]. split; [lra|auto].
      * apply Nat.eqb_neq in E2. cbn [lb_find].
        destruct (id <? j) eqn:E3.
        -- apply Nat.ltb_lt in E3. destruct (j =? id) eqn:E; [apply Nat.eqb_eq in E; lia|]. split; [lra|auto].
        -- apply Nat.ltb_ge in E3. destruct (id =? j) eqn:E4.
           ++ apply Nat.eqb_eq in E4. subst j. rewrite Nat.eqb_refl.
              destruct (i <? id) eqn:E5; [apply Nat.ltb_lt in E5; lia|].
              destruct (i =? id) eqn:E6; [apply Nat.eqb_eq in E6; lia|]. cbn [fst snd]. split; [lra|auto].
           ++ apply Nat.eqb_neq in E4. destruct (j =? id) eqn:E; [apply Nat.eqb_eq in E; lia|].
              destruct (i <? j) eqn:E5; [apply Nat.ltb_lt in E5; lia|].
              destruct (i =? j) eqn:E6; [apply Nat.eqb_eq in E6; lia|]. cbn [fst snd]. split; [lra|auto].
Qed.

Lemma span_lt_srt : forall rs jv, srt jv rs -> span_lt jv rs = ([], rs).
Proof.
  intros [|[i f] t] jv; cbn [srt span_lt]; auto. intros [H _].
  destruct (i <? jv) eqn:E; [apply Nat.ltb_lt in E; lia | auto].
Qed.

Definition in_win (jv len j : nat) : bool := (jv <=? j) && (j <? jv + len).

Lemma merge_walk_spec : forall news jv old, srt jv old ->
  srt jv (merge_walk news jv old) /\
  forall j,
    (fst (rden (merge_walk news jv old) j) ==
       fst (rden old j) + (if in_win jv (length news) j then fst (nth (j - jv) news (0%Q, [])) else 0))%Q /\
    snd (rden (merge_walk news jv old) j) =
       snd (rden old j) ++ (if in_win jv (length news) j then snd (nth (j - jv) news (0%Q, [])) else []).
Proof.
  induction news as [|nf news IH]; intros jv old Hs.
  - cbn [merge_walk length]. split; auto. intro j.
    assert (E : in_win jv 0 j = false).
    { unfold in_win. destruct (jv <=? j) eqn:E1; auto. apply Nat.leb_le in E1.
      destruct (j <? jv + 0) eqn:E2; auto. apply Nat.ltb_lt in E2. lia. }
    rewrite E. split; [lra | rewrite app_nil_r; auto].
  - cbn [merge_walk]. rewrite (span_lt_srt old jv Hs). cbn [app length].
    (* the three shapes all produce (jv, X) :: merge_walk news (S jv) old' *)
    assert (Hgen : forall X old', srt (S jv) old' ->
              (forall j, jv < j -> rden old' j = rden old j) ->
              (fst X == fst (rden old jv) + fst nf)%Q -> snd X = snd (rden old jv) ++ snd nf ->
              srt jv ((jv, X) :: merge_walk news (S jv) old') /\
              forall j,
                (fst (rden ((jv, X) :: merge_walk news (S jv) old') j) ==
                 fst (rden old j) + (if in_win jv (S (length news)) j then fst (nth (j - jv) (nf :: news) (0%Q, [])) else 0))%Q /\
                snd (rden ((jv, X) :: merge_walk news (S jv) old') j) =
                snd (rden old j) ++ (if in_win jv (S (length news)) j then snd (nth (j - jv) (nf :: news) (0%Q, [])) else [])).
    { intros X old' Hs' Hsame HX1 HX2. destruct (IH (S jv) old' Hs') as [IH1 IH2]. split.
      - cbn [srt]. split; [lia | exact IH1].
      - intro j. unfold rden at 1 3. cbn [lb_find].
        destruct (jv <? j) eqn:E1.
        + apply Nat.ltb_lt in E1. fold (rden (merge_walk news (S jv) old') j).
          destruct (IH2 j) as [I1 I2]. rewrite (Hsame j E1) in I1, I2.
          assert (Ew : in_win jv (S (length news)) j = in_win (S jv) (length news) j).
          { unfold in_win. replace (jv + S (length news)) with (S jv + length news) by lia.
            destruct (jv <=? j) eqn:A1; destruct (S jv <=? j) eqn:A2; auto;
              [apply Nat.leb_le in A1; apply Nat.leb_gt in A2; lia | apply Nat.leb_gt in A1; apply Nat.leb_le in A2; lia]. }
          rewrite Ew. replace (j - jv) with (S (j - S jv)) by lia. cbn [nth]. split; [exact I1 | exact I2].
        + apply Nat.ltb_ge in E1. destruct (jv =? j) eqn:E2.
          * apply Nat.eqb_eq in E2. subst j.
            assert (Ew : in_win jv (S (length news)) jv = true).
            { unfold in_win. rewrite Nat.leb_refl. cbn [andb]. apply Nat.ltb_lt. lia. }
            rewrite Ew, Nat.sub_diag. cbn [nth]. split; [exact HX1 | exact HX2].
          * apply Nat.eqb_neq in E2.
            assert (Ew : in_win jv (S (length news)) j = false).
            { unfold in_win. destruct (jv <=? j) eqn:A1; auto. apply Nat.leb_le in A1. lia. }
            rewrite Ew. unfold rden. rewrite (lb_find_below old jv j Hs) by lia. cbn [fst snd]. split; [lra | auto]. }
    destruct old as [|[i f] old'].
    + apply Hgen; auto.
      * unfold rden. cbn [lb_find fst]. lra.
    + cbn [srt] in Hs. destruct Hs as [Hs1 Hs2]. destruct (i =? jv) eqn:E.
      * apply Nat.eqb_eq in E. subst i. apply Hgen; auto.
        -- intros j Hj. unfold rden. cbn [lb_find]. apply Nat.ltb_lt in Hj. rewrite Hj. reflexivity.
        -- unfold rden. cbn [lb_find]. rewrite Nat.ltb_irrefl, Nat.eqb_refl. cbn [merge_factor fst]. lra.
        -- unfold rden. cbn [lb_find]. rewrite Nat.ltb_irrefl, Nat.eqb_refl. reflexivity.
      * apply Nat.eqb_neq in E. apply Hgen; auto.
        -- cbn [srt]. split; [lia | auto].
        -- assert (Hn : lb_find jv ((i, f) :: old') = None) by (apply (lb_find_below _ (S jv)); [cbn [srt]; split; [lia|auto] | lia]).
           unfold rden. rewrite Hn. cbn [fst]. lra.
        -- assert (Hn : lb_find jv ((i, f) :: old') = None) by (apply (lb_find_below _ (S jv)); [cbn [srt]; split; [lia|auto] | lia]).
           unfold rden. rewrite Hn. reflexivity.
Qed.
