(* C13/Model.v — executable Gallina model of Variable Elimination on coordination graphs
   (Factored::Bandit::VariableElimination over GenericVariableElimination / FactorGraph).
   Payoffs are exact rationals (every double is one); size_t is unbounded nat.
   No proofs in this file. *)
From Coq Require Import List Arith QArith Bool.
Import ListNotations.
Local Open Scope nat_scope.

(* ---------- basic data ---------- *)

(* A joint action / action space is a list nat (Factored::Action = Factors). *)

(* src: Bandit/Types.hpp:QFunctionRule — PartialAction (sorted keys, values) and a payoff *)
Definition rule : Type := (list nat * list nat) * Q.
Definition r_keys (r : rule) := fst (fst r).
Definition r_vals (r : rule) := snd (fst r).
Definition r_val (r : rule) := snd r.

(* src: VariableElimination.hpp:Factor = pair<double, vector<pair<size_t,size_t>>> (value, tags) *)
Definition factor : Type := Q * list (nat * nat).
(* src: GenericVariableElimination.hpp:Rules = vector<pair<size_t, Factor>>, kept sorted by id *)
Definition rules_t : Type := list (nat * factor).
(* src: FactorGraph.hpp:FactorNode (variables_, f_) *)
Definition fnode : Type := list nat * rules_t.
(* src: FactorGraph.hpp:factorAdjacencies_ — std::list in creation order; the per-variable
   `factors` lists are sub-sequences of it in the same order (push_back on creation, erase). *)
Definition graph : Type := list fnode.

Fixpoint list_eqb (a b : list nat) : bool :=
  match a, b with
  | [], [] => true
  | x :: a', y :: b' => (x =? y) && list_eqb a' b'
  | _, _ => false
  end.

Definition mem (x : nat) (l : list nat) : bool := existsb (Nat.eqb x) l.

(* in-place write action[i] = x (std::vector::operator[] on an in-range index) *)
Fixpoint upd (i x : nat) (l : list nat) : list nat :=
  match l, i with
  | [], _ => []
  | _ :: t, 0 => x :: t
  | h :: t, S i' => h :: upd i' x t
  end.

(* ---------- index arithmetic (Factored/Utils/Core.cpp; its bijection laws are property C14) ---- *)

(* src: Core.cpp:toIndexPartial(ids, space, f): sum_i f[ids_i] * prod_{j<i} space[ids_j]
   (first key least significant), written in Horner form *)
Fixpoint pidx (keys A a : list nat) : nat :=
  match keys with
  | [] => 0
  | k :: t => nth k a 0 + nth k A 0 * pidx t A a
  end.

(* src: Core.cpp:toIndexPartial(space, PartialFactors) — index of a rule's own (keys, values) *)
Fixpoint pidx_pf (keys vals A : list nat) : nat :=
  match keys, vals with
  | k :: ks, x :: xs => x + nth k A 0 * pidx_pf ks xs A
  | _, _ => 0
  end.

(* src: Core.cpp:factorSpacePartial / PartialFactorsEnumerator::size *)
Fixpoint psize (keys A : list nat) : nat :=
  match keys with [] => 1 | k :: t => nth k A 0 * psize t A end.

(* src: Core.cpp:PartialFactorsEnumerator — the j-th joint value visited is the mixed-radix
   decoding of j over the keys (first key fastest); C14: enumerator_visits_each_once_in_order *)
Fixpoint pdec (keys A : list nat) (id : nat) : list nat :=
  match keys with
  | [] => []
  | k :: t => (id mod nth k A 0) :: pdec t A (id / nth k A 0)
  end.

Fixpoint assoc (k : nat) (l : list (nat * nat)) : nat :=
  match l with
  | [] => 0
  | (k', x) :: t => if k' =? k then x else assoc k t
  end.

(* A PartialFactors (keys, vals) seen as a full-length vector (0 where unassigned): the
   lookups done by toIndexPartial(ids, space, pf) only read positions that are keys of pf. *)
Definition scatter (keys vals : list nat) (n : nat) : list nat :=
  map (fun i => assoc i (combine keys vals)) (seq 0 n).

(* ---------- rules inside one factor node ---------- *)

(* src: GraphUtils.hpp:UpdateGraphImpl<VariableElimination,…> — std::lower_bound on the id,
   then `it->second.first += value` on a hit, else emplace(it, id, {value, {}}) *)
Fixpoint lb_insert (id : nat) (v : Q) (rs : rules_t) : rules_t :=
  match rs with
  | [] => [(id, (v, []))]
  | (i, f) :: rs' =>
    if i <? id then (i, f) :: lb_insert id v rs'
    else if i =? id then (i, ((fst f + v)%Q, snd f)) :: rs'
    else (id, (v, [])) :: rs
  end.

(* src: GenericVariableElimination.hpp:removeFactor — std::lower_bound then
   `ruleIt != end && ruleIt->first == jvPartialIndex` *)
Fixpoint lb_find (id : nat) (rs : rules_t) : option factor :=
  match rs with
  | [] => None
  | (i, f) :: rs' => if i <? id then lb_find id rs' else if i =? id then Some f else None
  end.

(* src: VariableElimination.cpp:Global::mergeFactors *)
Definition merge_factor (l r : factor) : factor := ((fst l + fst r)%Q, snd l ++ snd r).

Fixpoint span_lt (jv : nat) (rs : rules_t) : rules_t * rules_t :=
  match rs with
  | [] => ([], [])
  | (i, f) :: rs' => if i <? jv then let (a, b) := span_lt jv rs' in ((i, f) :: a, b) else ([], rs)
  end.

(* src: GenericVariableElimination.hpp:removeFactor, the `mergeFactors` branch: for jvID =
   jv, jv+1, … advance oldRulesCurrId over ids < jvID, merge on equality else emplace at the
   cursor, then ++oldRulesCurrId.  [news] are the (all valid) new factors in jvID order. *)
Fixpoint merge_walk (news : list factor) (jv : nat) (old : rules_t) : rules_t :=
  match news with
  | [] => old
  | nf :: news' =>
    let (skipped, rest) := span_lt jv old in
    match rest with
    | (i, f) :: rest' =>
      if i =? jv then skipped ++ (i, merge_factor f nf) :: merge_walk news' (S jv) rest'
      else skipped ++ (jv, nf) :: merge_walk news' (S jv) rest
    | [] => skipped ++ (jv, nf) :: merge_walk news' (S jv) []
    end
  end.

(* ---------- graph ---------- *)

(* src: FactorGraph.hpp:getFactor(variables) followed by a modification of its data: the first
   node whose variables_ equal [N] (findFactorByVariables), else a new node appended. *)
Fixpoint upd_node (N : list nat) (f : rules_t -> rules_t) (g : graph) : graph :=
  match g with
  | [] => [(N, f [])]
  | (vs, rs) :: g' => if list_eqb vs N then (vs, f rs) :: g' else (vs, rs) :: upd_node N f g'
  end.

(* src: GraphUtils.hpp:UpdateGraphImpl<VariableElimination, Iterable>::operator() loop body *)
Definition insert_rule (A : list nat) (g : graph) (r : rule) : graph :=
  upd_node (r_keys r) (lb_insert (pidx_pf (r_keys r) (r_vals r) A) (r_val r)) g.

Definition make_graph (A : list nat) (rs : list rule) : graph := fold_left (insert_rule A) rs [].

(* src: FactorGraph.hpp:VariableNode::vNeighbors — sorted union of the variables of the factors
   adjacent to v, without v (maintained incrementally by getFactor/erase) *)
Definition neighbours (n v : nat) (Fv : graph) : list nat :=
  filter (fun u => negb (u =? v) && existsb (fun nd : fnode => mem u (fst nd)) Fv) (seq 0 n).

(* src: VariableElimination.cpp:Global::beginCrossSum + crossSum over `factors` for one joint
   value [jv] (full-length view, v already set) *)
Definition cross_sum (A : list nat) (Fv : graph) (v x : nat) (jv : list nat) : factor :=
  fold_left (fun (acc : factor) (nd : fnode) =>
               match lb_find (pidx (fst nd) A jv) (snd nd) with
               | Some f => ((fst acc + fst f)%Q, snd acc ++ snd f)
               | None => acc
               end) Fv (0%Q, [(v, x)]).

(* src: VariableElimination.cpp:Global::initNewFactor (None = the `lowest()` marker) and
   endCrossSum: replace only on strictly greater *)
Definition end_cross (acc : option factor) (cs : factor) : option factor :=
  match acc with
  | None => Some cs
  | Some b => if Qle_bool (fst cs) (fst b) then acc else Some cs
  end.

(* new factor for the jv-th joint value of the neighbours: max over v's actions *)
Definition new_factor_opt (A : list nat) (Fv : graph) (N : list nat) (v j : nat) : option factor :=
  let base := scatter N (pdec N A j) (length A) in
  fold_left (fun acc x => end_cross acc (cross_sum A Fv v x (upd v x base))) (seq 0 (nth v A 0)) None.

(* isValidNewFactor is false only when A[v] = 0 (no action to maximise over); [ve] excludes
   that case up front, so the default below is never used. *)
Definition new_factor (A : list nat) (Fv : graph) (N : list nat) (v j : nat) : factor :=
  match new_factor_opt A Fv N v j with Some f => f | None => (0%Q, []) end.

(* src: GenericVariableElimination.hpp:removeFactor + FactorGraph::erase.
   State = (graph, finalFactors).  Every new factor is valid when A[v] >= 1 (isValidNewFactor),
   which [ve] guarantees before starting. *)
Definition remove_factor (A : list nat) (st : graph * list factor) (v : nat) : graph * list factor :=
  let (g, fin) := st in
  let Fv := filter (fun nd : fnode => mem v (fst nd)) g in
  let G := filter (fun nd : fnode => negb (mem v (fst nd))) g in
  let N := neighbours (length A) v Fv in
  let news := map (new_factor A Fv N v) (seq 0 (psize N A)) in
  match N with
  | [] => (G, fin ++ news)
  | _ => (upd_node N (merge_walk news 0) G, fin)
  end.

(* src: VariableElimination.cpp:Global::makeResult *)
Definition apply_tags (tags : list (nat * nat)) (act : list nat) : list nat :=
  fold_left (fun ac t => upd (fst t) (snd t) ac) tags act.

Definition make_result (n : nat) (fin : list factor) : list nat * Q :=
  fold_left (fun (r : list nat * Q) (f : factor) => (apply_tags (snd f) (fst r), (snd r + fst f)%Q))
            fin (repeat 0 n, 0%Q).

(* src: VariableElimination.cpp:VE::operator() / GenericVariableElimination::operator().
   [order] = the sequence of variables chosen by graph.bestVariableToRemove (any choice of a
   still-active variable; the theorem holds for every order).  None: some agent has no action. *)
Definition ve_graph (A : list nat) (g : graph) (order : list nat) : option (list nat * Q) :=
  if existsb (Nat.eqb 0) A then None
  else Some (make_result (length A) (snd (fold_left (remove_factor A) order (g, [])))).

Definition ve (A : list nat) (rs : list rule) (order : list nat) : option (list nat * Q) :=
  ve_graph A (make_graph A rs) order.

(* ---------- LocalSearch / MaxPlus / ReusingIterativeLocalSearch: dense graph, evaluateGraph ---- *)

(* src: LocalSearch.hpp:Graph = FactorGraph<Vector>: (variables, dense table of the local payoffs) *)
Definition ls_node : Type := list nat * list Q.

(* src: GraphUtils.hpp:MakeGraphImpl<LocalSearch, Iterable> — one node per distinct key set of the
   rules, sized factorSpacePartial (Eigen's resize leaves the entries unspecified; UpdateGraph
   zeroes them before use, so they are 0 here) *)
Definition ls_make (A : list nat) (rs0 : list rule) : list ls_node :=
  fold_left (fun (g : list ls_node) (r : rule) =>
               if existsb (fun nd : ls_node => list_eqb (fst nd) (r_keys r)) g then g
               else g ++ [(r_keys r, repeat 0%Q (psize (r_keys r) A))]) rs0 [].

Fixpoint vadd (id : nat) (v : Q) (l : list Q) : list Q :=
  match l, id with
  | [], _ => []
  | x :: t, 0 => (x + v)%Q :: t
  | x :: t, S i => x :: vadd i v t
  end.

(* `factorNode[id] += rule.value` on the node getFactor(keys) finds.  For a key set without a
   node getFactor would create an EMPTY vector and the write would be out of bounds: that is
   outside the contract of UpdateGraph (same structure as MakeGraph); the model then leaves the
   graph unchanged. *)
Fixpoint ls_add (keys : list nat) (id : nat) (v : Q) (g : list ls_node) : list ls_node :=
  match g with
  | [] => []
  | (vs, d) :: g' => if list_eqb vs keys then (vs, vadd id v d) :: g' else (vs, d) :: ls_add keys id v g'
  end.

(* src: GraphUtils.hpp:UpdateGraphImpl<LocalSearch, Iterable> — setZero on every node, then add *)
Definition ls_update (A : list nat) (g : list ls_node) (rs : list rule) : list ls_node :=
  fold_left (fun (g : list ls_node) (r : rule) =>
               ls_add (r_keys r) (pidx_pf (r_keys r) (r_vals r) A) (r_val r) g) rs
            (map (fun nd : ls_node => (fst nd, map (fun _ : Q => 0%Q) (snd nd))) g).

(* src: LocalSearch.cpp:evaluateGraph / evaluateFactor *)
Definition evaluate_graph (A : list nat) (g : list ls_node) (a : list nat) : Q :=
  fold_left (fun (acc : Q) (nd : ls_node) => (acc + nth (pidx (fst nd) A a) (snd nd) 0%Q)%Q) g 0%Q.

(* src: LocalSearch.cpp / MaxPlus.cpp / ReusingIterativeLocalSearch.cpp — as far as C13 goes these
   return SOME joint action (found by search, message passing, random restarts: not modelled) and
   the value evaluateGraph computes for it *)
Definition approx_result (A : list nat) (g : list ls_node) (a : list nat) : list nat * Q :=
  (a, evaluate_graph A g a).

(* ---------- MultiObjectiveVariableElimination (modelled as written, no proof of optimality) ---- *)

Definition ptag : Type := list nat * list nat.        (* PartialAction: sorted keys, values *)
Definition mo_entry : Type := list Q * ptag.          (* MOVE::Entry {vals, tag} *)
Definition mo_factor : Type := list mo_entry.         (* MOVE::Factor *)
Definition mo_rules : Type := list (nat * mo_factor).
Definition mo_node : Type := list nat * mo_rules.
Definition mo_rule : Type := (list nat * list nat) * list Q.   (* MOQFunctionRule *)

(* Eigen vector sum.  All vectors of one run have the same size (the number of objectives); for
   different sizes Eigen's sum is undefined, and the model pads the shorter one with zeros. *)
Fixpoint vplus (a b : list Q) : list Q :=
  match a, b with
  | x :: a', y :: b' => (x + y)%Q :: vplus a' b'
  | [], _ => b
  | _, [] => a
  end.

(* src: Factored/Utils/Core.cpp:merge(PartialFactors, PartialFactors); fuel = total length *)
Fixpoint merge_tag_go (fuel : nat) (lk lv rk rv : list nat) : list nat * list nat :=
  match fuel with
  | 0 => ([], [])
  | S f =>
    match lk, lv, rk, rv with
    | [], _, _, _ => (rk, rv)
    | _, _, [], _ => (lk, lv)
    | i :: lk', x :: lv', j :: rk', y :: rv' =>
      if i <? j then let (ks, vs) := merge_tag_go f lk' lv' rk rv in (i :: ks, x :: vs)
      else let (ks, vs) := (if i =? j then merge_tag_go f lk' lv' rk' rv' else merge_tag_go f lk lv rk' rv') in
           (j :: ks, y :: vs)
    | _, _, _, _ => ([], [])
    end
  end.
Definition merge_tag (l r : ptag) : ptag :=
  merge_tag_go (length (fst l) + length (fst r) + 1) (fst l) (snd l) (fst r) (snd r).

(* src: MultiObjectiveVariableElimination.cpp:crossSumF *)
Definition mo_cross (l r : mo_factor) : mo_factor :=
  match l, r with
  | [], _ => r
  | _, [] => l
  | _, _ => flat_map (fun le : mo_entry => map (fun re : mo_entry => (vplus (fst le) (fst re), merge_tag (snd le) (snd re))) r) l
  end.

(* src: MultiObjectiveVariableElimination.hpp:operator()(A, inputRules) — lower_bound insert;
   on a hit `it->second[0].vals += rule.values` *)
Fixpoint mo_lb_insert (id : nat) (v : list Q) (rs : mo_rules) : mo_rules :=
  match rs with
  | [] => [(id, [(v, ([], []))])]
  | (i, f) :: rs' =>
    if i <? id then (i, f) :: mo_lb_insert id v rs'
    else if i =? id then (i, match f with e :: f' => (vplus (fst e) v, snd e) :: f' | [] => [] end) :: rs'
    else (id, [(v, ([], []))]) :: rs
  end.

Fixpoint mo_lb_find (id : nat) (rs : mo_rules) : option mo_factor :=
  match rs with
  | [] => None
  | (i, f) :: rs' => if i <? id then mo_lb_find id rs' else if i =? id then Some f else None
  end.

Fixpoint mo_upd_node (N : list nat) (f : mo_rules -> mo_rules) (g : list mo_node) : list mo_node :=
  match g with
  | [] => [(N, f [])]
  | (vs, rs) :: g' => if list_eqb vs N then (vs, f rs) :: g' else (vs, rs) :: mo_upd_node N f g'
  end.

Definition mo_make_graph (A : list nat) (rs : list mo_rule) : list mo_node :=
  fold_left (fun g (r : mo_rule) =>
               mo_upd_node (fst (fst r)) (mo_lb_insert (pidx_pf (fst (fst r)) (snd (fst r)) A) (snd r)) g) rs [].

(* src: MOVE Global::beginCrossSum / crossSum / endFactorCrossSum over `factors`: a factor without a
   rule for this joint value is skipped (its entry is NOT read as a zero vector) *)
Definition mo_cross_sum (A : list nat) (Fv : list mo_node) (jv : list nat) : mo_factor :=
  fold_left (fun (acc : mo_factor) (nd : mo_node) =>
               match mo_lb_find (pidx (fst nd) A jv) (snd nd) with
               | Some f => match mo_cross acc f with [] => acc | r => r end
               | None => acc
               end) Fv [].

(* src: MOVE Global::endCrossSum — insert (agent, action) at its sorted place in every tag *)
Fixpoint tag_insert (agent x : nat) (ks vs : list nat) : list nat * list nat :=
  match ks, vs with
  | k :: ks', v :: vs' => if k <? agent then let (a, b) := tag_insert agent x ks' vs' in (k :: a, v :: b)
                          else (agent :: ks, x :: vs)
  | _, _ => ([agent], [x])
  end.

Definition isnil {X : Type} (l : list X) : bool := match l with [] => true | _ => false end.

(* newFactor for the j-th joint value of the neighbours (REPAIRED code,
   fixes/C13-move-ucve-unmentioned-zero.patch): the entries of every action of v for which some
   rule applies, tagged with that action; then, if there is any such entry, one zero entry per
   action for which no rule applies (Global::isValidNewFactor).  If no action is mentioned the
   factor is empty, i.e. invalid: nothing is stored. *)
Definition mo_new_factor (A : list nat) (Fv : list mo_node) (N : list nat) (v j : nat) : mo_factor :=
  let base := scatter N (pdec N A j) (length A) in
  let ents := flat_map (fun x => map (fun e : mo_entry => (fst e, tag_insert v x (fst (snd e)) (snd (snd e))))
                                     (mo_cross_sum A Fv (upd v x base)))
                       (seq 0 (nth v A 0)) in
  match ents with
  | [] => []
  | e0 :: _ =>
    ents ++ map (fun x => (repeat 0%Q (length (fst e0)), ([v], [x])))
                (filter (fun x => isnil (mo_cross_sum A Fv (upd v x base))) (seq 0 (nth v A 0)))
  end.

Fixpoint mo_span_lt (jv : nat) (rs : mo_rules) : mo_rules * mo_rules :=
  match rs with
  | [] => ([], [])
  | (i, f) :: rs' => if i <? jv then let (a, b) := mo_span_lt jv rs' in ((i, f) :: a, b) else ([], rs)
  end.

(* as merge_walk, but an empty new factor is invalid (isValidNewFactor): nothing is stored *)
Fixpoint mo_merge_walk (news : list mo_factor) (jv : nat) (old : mo_rules) : mo_rules :=
  match news with
  | [] => old
  | [] :: news' => mo_merge_walk news' (S jv) old
  | nf :: news' =>
    let (skipped, rest) := mo_span_lt jv old in
    match rest with
    | (i, f) :: rest' =>
      if i =? jv then skipped ++ (i, mo_cross f nf) :: mo_merge_walk news' (S jv) rest'
      else skipped ++ (jv, nf) :: mo_merge_walk news' (S jv) rest
    | [] => skipped ++ (jv, nf) :: mo_merge_walk news' (S jv) []
    end
  end.

Definition mo_neighbours (n v : nat) (Fv : list mo_node) : list nat :=
  filter (fun u => negb (u =? v) && existsb (fun nd : mo_node => mem u (fst nd)) Fv) (seq 0 n).

Definition mo_remove_factor (A : list nat) (st : list mo_node * list mo_factor) (v : nat) : list mo_node * list mo_factor :=
  let (g, fin) := st in
  let Fv := filter (fun nd : mo_node => mem v (fst nd)) g in
  let G := filter (fun nd : mo_node => negb (mem v (fst nd))) g in
  let N := mo_neighbours (length A) v Fv in
  let news := map (mo_new_factor A Fv N v) (seq 0 (psize N A)) in
  match N with
  | [] => (G, fin ++ filter (fun f : mo_factor => match f with [] => false | _ => true end) news)
  | _ => (mo_upd_node N (mo_merge_walk news 0) G, fin)
  end.

(* componentwise comparisons (a missing component reads as 0; sizes are equal in every run) *)
Definition vle (a b : list Q) : bool :=
  forallb (fun k => Qle_bool (nth k a 0%Q) (nth k b 0%Q)) (seq 0 (Nat.max (length a) (length b))).
Definition veqb (a b : list Q) : bool :=
  forallb (fun k => Qeq_bool (nth k a 0%Q) (nth k b 0%Q)) (seq 0 (Nat.max (length a) (length b))).

(* src: Utils/Prune.hpp:extractDominated, by its meaning on exactly-represented vectors that are
   equal or differ by much more than the tolerances: an entry stays iff no other entry is >=
   everywhere and different, and one copy of each duplicate stays (which copy / which order is
   not modelled: results are compared as sets) *)
Fixpoint mo_prune_go (all : mo_factor) (kept : mo_factor) (l : mo_factor) : mo_factor :=
  match l with
  | [] => kept
  | e :: l' =>
    if existsb (fun o : mo_entry => vle (fst e) (fst o) && negb (veqb (fst e) (fst o))) all
       || existsb (fun o : mo_entry => veqb (fst e) (fst o)) kept
    then mo_prune_go all kept l' else mo_prune_go all (kept ++ [e]) l'
  end.

(* src: MOVE Global::makeResult *)
Definition mo_make_result (fin : list mo_factor) : mo_factor :=
  match fin with
  | [] => []
  | _ => let r := fold_left mo_cross fin [] in mo_prune_go r [] r
  end.

Definition move (A : list nat) (rs : list mo_rule) (order : list nat) : mo_factor :=
  mo_make_result (snd (fold_left (mo_remove_factor A) order (mo_make_graph A rs, []))).

(* ---------- UCVE (the repaired code: own-factors bound, components, unmentioned = zero) ---------- *)

(* exact comparison of  x + sqrt p  <=  y + sqrt q  (p, q >= 0), decided by case analysis on signs
   and squares; proved exact in ProofsSqrt.v.  The C++ evaluates the same comparison in doubles. *)
Local Open Scope Q_scope.
Definition sqrt_sum_le (x p y q : Q) : bool :=
  let d := y - x in
  let t := p + q - d * d in
  if Qle_bool p q then
    (if Qle_bool 0 d then true else Qle_bool 0 t && Qle_bool (4 * p * q) (t * t))
  else
    (if Qle_bool d 0 then false else Qle_bool t 0 || Qle_bool (t * t) (4 * p * q)).

Local Close Scope Q_scope.

Definition e_m (e : mo_entry) : Q := nth 0 (fst e) 0%Q.     (* UCVE::V[0], estimated mean *)
Definition e_b (e : mo_entry) : Q := nth 1 (fst e) 0%Q.     (* UCVE::V[1], inverse weighted count *)

(* src: UCVE.cpp:computeValue(e1, x1, logtA12) <= computeValue(e2, x2, logtA12) *)
Definition uval_le (L : Q) (e1 : mo_entry) (x1 : Q) (e2 : mo_entry) (x2 : Q) : bool :=
  sqrt_sum_le (e_m e1) ((e_b e1 + x1) * L)%Q (e_m e2) ((e_b e2 + x2) * L)%Q.

(* src: Utils/Core.hpp:max_element_unary — the first strict maximum (index, element) *)
Fixpoint uc_argmax_go (L x : Q) (best : mo_entry) (bi i : nat) (l : mo_factor) : nat * mo_entry :=
  match l with
  | [] => (bi, best)
  | e :: t => if uval_le L e x best x then uc_argmax_go L x best bi (S i) t else uc_argmax_go L x e i (S i) t
  end.

(* src: UCVE.cpp:Global::endFactorCrossSum, the pruning block: drop dominated entries, find the
   best entry under the LOWER variance bound, drop every other entry that cannot beat it even under
   the UPPER bound *)
Definition uc_prune (L xl xu : Q) (tmp : mo_factor) : mo_factor :=
  match mo_prune_go tmp [] tmp with
  | [] => []
  | e0 :: rest =>
    let (bi, best) := uc_argmax_go L xl e0 0 1 rest in
    best :: map snd (filter (fun ie : nat * mo_entry => negb (fst ie =? bi) && negb (uval_le L (snd ie) xu best xl))
                            (combine (seq 0 (S (length rest))) (e0 :: rest)))
  end.

(* src: UCVE.cpp:Global::crossSum / endFactorCrossSum over the agent's factors for one joint value *)
Definition uc_cross_sum (A : list nat) (L xl xu : Q) (Fv : list mo_node) (jv : list nat) : mo_factor :=
  fold_left (fun (acc : mo_factor) (nd : mo_node) =>
               match mo_lb_find (pidx (fst nd) A jv) (snd nd) with
               | Some f =>
                 match mo_cross acc f with
                 | [] => acc
                 | tmp => if (length acc <? length tmp) && (1 <? length tmp) then uc_prune L xl xu tmp else tmp
                 end
               | None => acc
               end) Fv [].

(* src: UCVE.cpp:Global::endCrossSum + isValidNewFactor (implicit (0,0) entries of unmentioned actions) *)
Definition uc_new_factor (A : list nat) (L xl xu : Q) (Fv : list mo_node) (N : list nat) (v j : nat) : mo_factor :=
  let base := scatter N (pdec N A j) (length A) in
  let ents := flat_map (fun x => map (fun e : mo_entry => (fst e, tag_insert v x (fst (snd e)) (snd (snd e))))
                                     (uc_cross_sum A L xl xu Fv (upd v x base)))
                       (seq 0 (nth v A 0)) in
  match ents with
  | [] => []
  | _ => ents ++ map (fun x => ([0%Q; 0%Q], ([v], [x])))
                     (filter (fun x => isnil (uc_cross_sum A L xl xu Fv (upd v x base))) (seq 0 (nth v A 0)))
  end.

Definition qmaxl (d : Q) (l : list Q) : Q := fold_left (fun m x => if Qle_bool m x then x else m) l d.
Definition qminl (d : Q) (l : list Q) : Q := fold_left (fun m x => if Qle_bool x m then x else m) l d.

(* variance range of one factor as beginRemoval computes it: over all entries of all rules, widened
   to contain 0 when the factor has fewer rules than local joint actions (or no entry at all) *)
Definition uc_range (A : list nat) (nd : mo_node) : Q * Q :=
  match flat_map (fun r : nat * mo_factor => map e_b (snd r)) (snd nd) with
  | [] => (0%Q, 0%Q)
  | b0 :: bs =>
    let mx := qmaxl b0 bs in let mn := qminl b0 bs in
    if length (snd nd) <? psize (fst nd) A
    then ((if Qle_bool mx 0 then 0%Q else mx), (if Qle_bool 0 mn then 0%Q else mn))
    else (mx, mn)
  end.

(* src: UCVE.cpp:Global::beginRemoval — (x_u, x_l), starting from the finished components' totals *)
Definition uc_bounds (A : list nat) (v : nat) (g : list mo_node) (fin_mx fin_mn : Q) : Q * Q :=
  fold_left (fun (acc : Q * Q) (nd : mo_node) =>
               let (mx, mn) := uc_range A nd in
               if mem v (fst nd) then ((if Qle_bool mx 0 then fst acc else (fst acc + mx)%Q), snd acc)
               else ((fst acc + mx)%Q, (snd acc + mn)%Q)) g (fin_mx, fin_mn).

Definition uc_state : Type := (list mo_node * list mo_factor) * (Q * Q).

(* src: GenericVariableElimination::removeFactor with the UCVE callbacks *)
Definition uc_remove_factor (A : list nat) (L : Q) (st : uc_state) (v : nat) : uc_state :=
  let (gf, fb) := st in let (g, fin) := gf in let (fmx, fmn) := fb in
  let Fv := filter (fun nd : mo_node => mem v (fst nd)) g in
  let G := filter (fun nd : mo_node => negb (mem v (fst nd))) g in
  let N := mo_neighbours (length A) v Fv in
  let (xu, xl) := uc_bounds A v g fmx fmn in
  let news := map (uc_new_factor A L xl xu Fv N v) (seq 0 (psize N A)) in
  match N with
  | [] =>
    let valid := filter (fun f : mo_factor => negb (isnil f)) news in
    let add := fold_left (fun (acc : Q * Q) (f : mo_factor) =>
                            match map e_b f with
                            | [] => acc
                            | b0 :: bs => ((fst acc + qmaxl b0 bs)%Q, (snd acc + qminl b0 bs)%Q)
                            end) valid (fmx, fmn) in
    ((G, fin ++ valid), add)
  | _ => ((mo_upd_node N (mo_merge_walk news 0) G, fin), (fmx, fmn))
  end.

(* src: UCVE.cpp:Global::makeResult *)
Definition uc_make_result (n : nat) (L : Q) (fin : list mo_factor) : list nat * (Q * Q) :=
  let joint := fold_left (fun (j : mo_factor) (f : mo_factor) =>
                            let c := mo_cross j f in if 1 <? length c then mo_prune_go c [] c else c) fin [] in
  match joint with
  | [] => (repeat 0 n, (0%Q, 0%Q))
  | e0 :: rest =>
    let (_, best) := uc_argmax_go L 0%Q e0 0 1 rest in
    (apply_tags (combine (fst (snd best)) (snd (snd best))) (repeat 0 n), (e_m best, e_b best))
  end.

(* src: UCVE.hpp:operator()(A, logtA, inputRules); rules carry [mean; bonus] *)
Definition ucve (A : list nat) (logtA : Q) (rs : list mo_rule) (order : list nat) : list nat * (Q * Q) :=
  let L := (logtA * (1 # 2))%Q in
  let stE := fold_left (uc_remove_factor A L) order ((mo_make_graph A rs, []), (0%Q, 0%Q)) in
  uc_make_result (length A) L (snd (fst stE)).

(* the (agent, x_l, x_u) triples beginRemoval computes, in elimination order (observable through the
   AITOOLBOX_VERIF hook UCVE::verifBoundsObserver when /repo provides it) *)
Definition ucve_trace (A : list nat) (logtA : Q) (rs : list mo_rule) (order : list nat) : list (nat * (Q * Q)) :=
  let L := (logtA * (1 # 2))%Q in
  snd (fold_left (fun (acc : uc_state * list (nat * (Q * Q))) (v : nat) =>
                    let st := fst acc in
                    let (xu, xl) := uc_bounds A v (fst (fst st)) (fst (snd st)) (snd (snd st)) in
                    (uc_remove_factor A L st v, snd acc ++ [(v, (xl, xu))]))
                 order (((mo_make_graph A rs, []), (0%Q, 0%Q)), [])).

(* ---------- the elimination-order heuristic actually used by the code ---------- *)

Definition nbrs_in (n v : nat) (g : graph) : list nat :=
  neighbours n v (filter (fun nd : fnode => mem v (fst nd)) g).

Definition factor_exists (N : list nat) (g : graph) : bool :=
  match N with [] => false | _ => existsb (fun nd : fnode => list_eqb (fst nd) N) g end.

Definition elim_cost (A : list nat) (v : nat) (N : list nat) : nat :=
  fold_left (fun c u => c * nth u A 0) N (nth v A 0).

(* src: FactorGraph.hpp:bestVariableToRemove (note: factorExists is not refreshed when the
   candidate changes — modelled as written) *)
Definition best_variable (A : list nat) (g : graph) (active : list nat) : option nat :=
  match active with
  | [] => None
  | first :: others =>
    let N0 := nbrs_in (length A) first g in
    let fe := factor_exists N0 g in
    Some (fst (fold_left (fun (st : nat * nat) next =>
                 let Nn := nbrs_in (length A) next g in
                 let ne := factor_exists Nn g in
                 if negb ne && fe then st
                 else let c := elim_cost A next Nn in
                      if (ne && negb fe) || (c <? snd st) then (next, c) else st)
               others (first, elim_cost A first N0)))
  end.

Fixpoint heur_order_go (A : list nat) (fuel : nat) (st : graph * list factor) (active : list nat) : list nat :=
  match fuel with
  | 0 => []
  | S fuel' =>
    match best_variable A (fst st) active with
    | None => []
    | Some v => v :: heur_order_go A fuel' (remove_factor A st v) (filter (fun u => negb (u =? v)) active)
    end
  end.

Definition heur_order (A : list nat) (g : graph) : list nat :=
  heur_order_go A (length A) (g, []) (seq 0 (length A)).

Definition is_perm_of_seq (n : nat) (l : list nat) : bool :=
  (length l =? n) && forallb (fun i => mem i l) (seq 0 n).
