(* C13/ProofsSqrt.v — the squaring test [sqrt_sum_le x p y q] decides x + sqrt p <= y + sqrt q
   (p, q >= 0), stated without real numbers through rational bounds of the square roots. *)
From Coq Require Import QArith Lqa Bool.
From AIT Require Import C13.Model C13.Spec.
Local Open Scope Q_scope.

Lemma sq_le : forall a b : Q, 0 <= a -> 0 <= b -> a * a <= b * b -> a <= b.
Proof. intros. nra. Qed.

Lemma sqrt_sum_le_true_lemma : forall x p y q, 0 <= p -> 0 <= q -> sqrt_sum_le x p y q = true ->
  forall s t, 0 <= s -> 0 <= t -> s * s <= p -> q <= t * t -> x + s <= y + t.
Proof.
  intros x p y q Hp Hq H s t Hs Ht Hsp Hqt. unfold sqrt_sum_le in H.
  destruct (Qle_bool p q) eqn:E1.
  - apply Qle_bool_iff in E1. assert (Hst : s <= t) by (apply sq_le; auto; lra).
    destruct (Qle_bool 0 (y - x)) eqn:E2.
    + apply Qle_bool_iff in E2. lra.
    + assert (E2' : y - x < 0). { apply Qnot_le_lt. intro C. apply Qle_bool_iff in C. congruence. }
      apply andb_true_iff in H. destruct H as [H1 H2]. apply Qle_bool_iff in H1. apply Qle_bool_iff in H2.
      set (e := x - y) in *. assert (He : 0 < e) by (unfold e; lra).
      assert (HT : (p + q - (y - x) * (y - x)) == p + q - e * e) by (unfold e; ring).
      rewrite HT in H1, H2.
      assert (HW : 0 <= q - p - e * e) by nra.
      assert (HW2 : 4 * p * (e * e) <= (q - p - e * e) * (q - p - e * e)) by nra.
      assert (Hse : (s + e) * (s + e) <= t * t) by nra.
      assert (s + e <= t) by (apply sq_le; auto; lra). unfold e in *. lra.
  - assert (E1' : q < p). { apply Qnot_le_lt. intro C. apply Qle_bool_iff in C. congruence. }
    destruct (Qle_bool (y - x) 0) eqn:E2; [discriminate|].
    assert (E2' : 0 < y - x). { apply Qnot_le_lt. intro C. apply Qle_bool_iff in C. congruence. }
    set (d := y - x) in *.
    apply orb_true_iff in H.
    (* want s <= t + d ; enough s*s <= (t+d)^2 *)
    assert (Hgoal : s * s <= (t + d) * (t + d)).
    { destruct H as [H|H]; apply Qle_bool_iff in H.
      - nra.
      - destruct (Qlt_le_dec (p + q - d * d) 0); [nra|].
        (* 0 <= T, T^2 <= 4pq : p - q - d^2 =: W ; W^2 - 4 q d^2 = T^2 - 4pq <= 0 *)
        assert (HW2 : (p - q - d * d) * (p - q - d * d) <= 4 * q * (d * d)) by nra.
        destruct (Qlt_le_dec (p - q - d * d) 0); [nra|].
        assert (p - q - d * d <= 2 * t * d) by (apply sq_le; [auto | nra | nra]).
        nra. }
    assert (s <= t + d) by (apply sq_le; auto; lra). unfold d in *. lra.
Qed.

Lemma sq_lt : forall a b : Q, 0 <= a -> 0 <= b -> a * a < b * b -> a < b.
Proof. intros. nra. Qed.

Lemma sqrt_sum_le_false_lemma : forall x p y q, 0 <= p -> 0 <= q -> sqrt_sum_le x p y q = false ->
  forall s t, 0 <= s -> 0 <= t -> p <= s * s -> t * t <= q -> y + t < x + s.
Proof.
  intros x p y q Hp Hq H s t Hs Ht Hps Htq. unfold sqrt_sum_le in H.
  destruct (Qle_bool p q) eqn:E1.
  - apply Qle_bool_iff in E1.
    destruct (Qle_bool 0 (y - x)) eqn:E2; [discriminate|].
    assert (E2' : y - x < 0). { apply Qnot_le_lt. intro C. apply Qle_bool_iff in C. congruence. }
    set (e := x - y) in *. assert (He : 0 < e) by (unfold e; lra).
    assert (HT : (p + q - (y - x) * (y - x)) == p + q - e * e) by (unfold e; ring).
    apply andb_false_iff in H.
    assert (Hgoal : t * t < (s + e) * (s + e)).
    { destruct (Qlt_le_dec (q - p - e * e) 0); [nra|].
      destruct H as [H|H].
      - assert (p + q - e * e < 0). { rewrite <- HT. apply Qnot_le_lt. intro C. apply Qle_bool_iff in C. congruence. }
        nra.
      - assert (H' : (p + q - e * e) * (p + q - e * e) < 4 * p * q).
        { rewrite <- HT. apply Qnot_le_lt. intro C. apply Qle_bool_iff in C. congruence. }
        assert (HW2 : (q - p - e * e) * (q - p - e * e) < 4 * p * (e * e)) by nra.
        assert (q - p - e * e < 2 * s * e) by (apply sq_lt; [auto | nra | nra]).
        nra. }
    assert (t < s + e) by (apply sq_lt; auto; lra). unfold e in *. lra.
  - assert (E1' : q < p). { apply Qnot_le_lt. intro C. apply Qle_bool_iff in C. congruence. }
    assert (Hts : t < s) by (apply sq_lt; auto; lra).
    destruct (Qle_bool (y - x) 0) eqn:E2.
    + apply Qle_bool_iff in E2. lra.
    + assert (E2' : 0 < y - x). { apply Qnot_le_lt. intro C. apply Qle_bool_iff in C. congruence. }
      set (d := y - x) in *. apply orb_false_iff in H. destruct H as [H1 H2].
      assert (HT1 : 0 < p + q - d * d). { apply Qnot_le_lt. intro C. apply Qle_bool_iff in C. congruence. }
      assert (HT2 : 4 * p * q < (p + q - d * d) * (p + q - d * d)). { apply Qnot_le_lt. intro C. apply Qle_bool_iff in C. congruence. }
      assert (HW2 : 4 * q * (d * d) < (p - q - d * d) * (p - q - d * d)) by nra.
      assert (HW : 0 < p - q - d * d).
      { destruct (Qlt_le_dec 0 (p - q - d * d)); [auto|]. exfalso.
        assert (p + q - d * d <= 2 * q) by lra. nra. }
      assert (2 * t * d < p - q - d * d) by (apply sq_lt; [nra | lra | nra]).
      assert (Hg : (t + d) * (t + d) < s * s) by nra.
      assert (t + d < s) by (apply sq_lt; [lra | auto | auto]). unfold d in *. lra.
Qed.
